(* ServerSeq.v — C09, one handler at a time.
   The invariant is functional: for every url the entry of doc_state is exactly the one determined by the
   client's state (language, newest text, ignore list, version), the dictionary files and the settings
   (`coh`), and the last publication is the expected one (`fresh`). *)
Require Import Base Server ServerLemmas.

(* the identifier set merged into the dictionary of a document of language lg holding text t *)
Definition idof (lg : lang) (t : text) : nat := match kind lg with KCode => t_ident t | _ => 0 end.
Definition cur_dict (w : world) (u : url) : dictv := mkdict (w_udict w) (fdict_of w u) 0.
Definition with_ident (d : dictv) (i : nat) : dictv := mkdict (dv_user d) (dv_file d) i.

(* the DocumentState an up-to-date server holds for an open document *)
Definition good_entry (w : world) (u : url) (cd : cdoc) : entry :=
  let i := idof (cd_lang cd) (cd_text cd) in
  let d := with_ident (cur_dict w u) i in
  mkentry (Some (cd_lang cd)) d i (w_ccfg w) (Some (cd_text cd)) (w_ccfg w) (cd_ign cd) (cur_dict w u) d (Some (cd_ver cd)).

Definition want_entry (w : world) (u : url) : option entry :=
  match lookup u (w_open w) with
  | Some cd => match kind (cd_lang cd) with KNone => None | _ => Some (good_entry w u cd) end
  | None => None
  end.

Definition coh (w : world) (u : url) : Prop := lookup u (s_docs w) = want_entry w u.

Record Inv (w : world) : Prop := mkInv {
  inv_lock : s_lock w = false;
  inv_cfg : s_cfg w = w_ccfg w;
  inv_coh : forall u, coh w u;
  inv_fresh : forall u, fresh w u;
  inv_dlock : s_dlock w = false     (* no add-word command is between its load and its save *)
}.

Lemma idof_plain : forall lg t, kind lg <> KCode -> idof lg t = 0.
Proof. intros lg t H. unfold idof. destruct (kind lg); congruence. Qed.

Lemma with_ident_0 : forall w u, with_ident (cur_dict w u) 0 = cur_dict w u.
Proof. reflexivity. Qed.

(* doc_state agrees with the client => what publish_diagnostics sends is what the property demands *)
Lemma coh_pubval : forall w u, s_cfg w = w_ccfg w -> coh w u -> pubval w u = expected w u.
Proof.
  intros w u Hc C. unfold coh, want_entry in C. unfold pubval, expected. rewrite C.
  destruct (lookup u (w_open w)) as [cd|]; [|reflexivity].
  unfold good_entry, idof. destruct (kind (cd_lang cd)) eqn:Ek; cbn; rewrite ?Hc; reflexivity.
Qed.

Lemma coh_entry : forall w u e, coh w u -> lookup u (s_docs w) = Some e ->
  exists cd, lookup u (w_open w) = Some cd /\ kind (cd_lang cd) <> KNone /\ e = good_entry w u cd.
Proof.
  intros w u e C He. unfold coh, want_entry in C. rewrite He in C.
  destruct (lookup u (w_open w)) as [cd|]; [|discriminate]. exists cd.
  destruct (kind (cd_lang cd)) eqn:Ek; try discriminate; inversion C; repeat split; congruence.
Qed.

Lemma coh_no_entry : forall w u, coh w u -> lookup u (s_docs w) = None ->
  match lookup u (w_open w) with Some cd => kind (cd_lang cd) = KNone | None => True end.
Proof.
  intros w u C He. unfold coh, want_entry in C. rewrite He in C.
  destruct (lookup u (w_open w)) as [cd|]; [|exact Logic.I]. destruct (kind (cd_lang cd)); try discriminate. reflexivity.
Qed.

(* ---------- update_document, run without interruption ---------- *)
(* the entry update_document leaves for u (None: it removes the document), when the dictionary files and
   the settings are those of w throughout *)
Definition upd_entry (w : world) (u : url) (t : text) (lgo : option lang) (nv : option nat) : option entry :=
  let c := w_ccfg w in
  let d := cur_dict w u in
  let e0 := match lookup u (s_docs w) with Some e => e | None => new_entry lgo d c end in
  if stale nv (e_ver e0) then lookup u (s_docs w) else
  let e2 := rebase d c (bump nv e0) in
  match e_lang e2 with
  | None => None
  | Some lg =>
      match kind lg with
      | KNone => None
      | KPlain => Some (e_set_doc t c e2)
      | KCode =>
          if e_ident e2 =? t_ident t then Some (e_set_doc t c e2)
          else Some (e_set_doc t c (e_set_dict (with_ident d (t_ident t)) c (e_set_ident (t_ident t) e2)))
      end
  end.

(* an outdated update does not touch doc_state *)
Definition outdated (w : world) (u : url) (lgo : option lang) (nv : option nat) : bool :=
  stale nv (e_ver (match lookup u (s_docs w) with Some e => e | None => new_entry lgo (cur_dict w u) (w_ccfg w) end)).

Definition installed (w : world) (u : url) (t : text) (lgo : option lang) (nv : option nat) : list (url * entry) :=
  if outdated w u lgo nv then s_docs w else
  match upd_entry w u t lgo nv with
  | Some e => upsert u e (s_docs w)
  | None => remove u (s_docs w)
  end.

Lemma set_docs_id : forall w, set_docs (s_docs w) w = w.
Proof. intros []; reflexivity. Qed.

Ltac fuel_step H :=
  match type of H with
  | run_prog (S _) (_ :: _) _ _ = Some _ => cbn [run_prog] in H
  | run_prog ?f (_ :: _) _ _ = Some _ => is_var f; destruct f as [|f]; [discriminate H|]; cbn [run_prog] in H
  end.
Ltac open_fuel H :=
  match type of H with run_prog ?f _ _ _ = _ => let f' := fresh "f" in let E := fresh "Ef" in remember f as f' eqn:E; clear E end.

Lemma remove_idem : forall {V} u (m : list (url * V)), remove u (remove u m) = remove u m.
Proof.
  induction m as [|[k v] m IH]; cbn; [reflexivity|].
  destruct (url_eqb u k) eqn:E; [exact IH|]. cbn. rewrite E. f_equal. exact IH.
Qed.

Lemma upsert_upsert : forall {V} u (a b : V) m, upsert u a (upsert u b m) = upsert u a m.
Proof. intros. unfold upsert. cbn. rewrite url_eqb_refl, remove_idem. reflexivity. Qed.

(* the critical section of update_document, including use_ident_dict when the identifiers changed *)
Lemma critical_run : forall f rest l w w' t,
  s_lock w = false -> l_text l = Some t -> l_snap l = w_ccfg w -> l_ud l = w_udict w -> l_fd l = fdict_of w (l_url l) ->
  run_prog f (IUpdate :: rest) l w = Some w' ->
  exists f' l', run_prog f' rest l' (set_docs (installed w (l_url l) t (l_lang l) (l_ver l)) w) = Some w' /\
                l_url l' = l_url l /\ l_queue l' = l_queue l.
Proof.
  intros f rest l w w' t Hlock Ht Hs Hu Hf H.
  fuel_step H. cbn [exec] in H. rewrite Hlock, Ht, Hs, Hu, Hf in H.
  fold (cur_dict w (l_url l)) in H. unfold installed, outdated, upd_entry.
  set (e0 := match lookup (l_url l) (s_docs w) with Some e => e | None => _ end) in *.
  destruct (stale (l_ver l) (e_ver e0)).
  { cbn [app] in H. exists f, l. rewrite set_docs_id. split; [exact H|split; reflexivity]. }
  set (e2 := rebase _ _ _) in *.
  destruct (e_lang e2) as [lg|]; [|cbn [app] in H; exists f, l; split; [exact H|split; reflexivity]].
  destruct (kind lg).
  - cbn [app] in H. exists f, l. split; [exact H|split; reflexivity].
  - destruct (e_ident e2 =? t_ident t).
    + cbn [app] in H. exists f, l. split; [exact H|split; reflexivity].
    + cbn [app] in H.
      do 3 (fuel_step H; cbn [exec app] in H).
      cbn [l_text lset_fd lset_ud l_url s_docs set_lock set_docs l_snap l_ud l_fd w_udict] in H.
      rewrite Ht, lookup_upsert_eq in H.
      change (fdict_of (set_lock true (set_docs (upsert (l_url l) (e_set_ident (t_ident t) e2) (s_docs w)) w)) (l_url l))
        with (fdict_of w (l_url l)) in H.
      cbn [e_ident e_set_ident app] in H. rewrite Hs in H.
      exists f, (lset_fd (fdict_of w (l_url l)) (lset_ud (w_udict w) l)). split; [|split; reflexivity].
      match goal with H : run_prog f rest ?L ?W = Some w' |- run_prog f rest ?L ?W' = Some w' => replace W' with W; [exact H|] end.
      unfold with_ident, cur_dict. cbn [dv_user dv_file].
      destruct w; cbn in *; subst. rewrite upsert_upsert. reflexivity.
  - cbn [app] in H. exists f, l. split; [exact H|split; reflexivity].
Qed.

Definition update_seq_pre : list instr := [ICfgReq; IAnswer; IRecv; ISnap; IReadUD; IReadFD].

Lemma update_run : forall f rest l w w' t,
  s_lock w = false -> l_text l = Some t ->
  run_prog f (update_seq ++ rest) l w = Some w' ->
  exists f' l', run_prog f' rest l' (set_docs (installed w (l_url l) t (l_lang l) (l_ver l)) (set_scfg (w_ccfg w) w)) = Some w' /\
                l_url l' = l_url l /\ l_queue l' = l_queue l.
Proof.
  intros f rest l w w' t Hlock Ht H. unfold update_seq in H. cbn [app] in H.
  do 6 (fuel_step H; cbn [exec app] in H).
  apply critical_run with (t := t) in H; try reflexivity; [|exact Hlock|exact Ht].
  destruct H as (f' & l' & H & A & B). exists f', l'. split; [exact H|]. split; [exact A|exact B].
Qed.

(* ---------- what one update + publish does to the invariant ---------- *)
Definition others_ok (w : world) (u : url) : Prop := forall v, v <> u -> coh w v /\ fresh w v.

Lemma want_entry_same : forall w w' u,
  w_open w' = w_open w -> w_udict w' = w_udict w -> w_fdict w' = w_fdict w -> w_ccfg w' = w_ccfg w ->
  want_entry w' u = want_entry w u.
Proof.
  intros w w' u A B C D. unfold want_entry, good_entry, cur_dict, fdict_of. rewrite A, B, C, D. reflexivity.
Qed.

Lemma expected_same : forall w w' u,
  w_open w' = w_open w -> w_udict w' = w_udict w -> w_fdict w' = w_fdict w -> w_ccfg w' = w_ccfg w ->
  expected w' u = expected w u.
Proof. intros w w' u A B C D. unfold expected, fdict_of. rewrite A, B, C, D. reflexivity. Qed.

Lemma lookup_installed_neq : forall w u t lgo nv v, v <> u -> lookup v (installed w u t lgo nv) = lookup v (s_docs w).
Proof.
  intros w u t lgo nv v Hv. apply url_eqb_neq in Hv. unfold installed.
  destruct (outdated w u lgo nv); [reflexivity|].
  destruct (upd_entry w u t lgo nv); [apply lookup_upsert_neq|apply lookup_remove_neq]; exact Hv.
Qed.

Lemma lookup_installed_eq : forall w u t lgo nv, lookup u (installed w u t lgo nv) = upd_entry w u t lgo nv.
Proof.
  intros. unfold installed, outdated. destruct (stale nv _) eqn:E.
  - unfold upd_entry. rewrite E. reflexivity.
  - destruct (upd_entry w u t lgo nv); [apply lookup_upsert_eq|apply lookup_remove_eq].
Qed.

Lemma install_inv : forall w u t lgo nv,
  s_lock w = false -> s_dlock w = false -> s_cfg w = w_ccfg w -> others_ok w u -> upd_entry w u t lgo nv = want_entry w u ->
  let w1 := set_docs (installed w u t lgo nv) (set_scfg (w_ccfg w) w) in
  Inv (send u (pubval w1 u) w1).
Proof.
  intros w u t lgo nv Hl Hdl Hc Ho Hr w1.
  assert (Cu : coh w1 u).
  { unfold coh. change (s_docs w1) with (installed w u t lgo nv). rewrite lookup_installed_eq, Hr. reflexivity. }
  assert (Pu : pubval w1 u = expected w1 u) by (apply coh_pubval; [reflexivity|exact Cu]).
  constructor.
  - exact Hl.
  - reflexivity.
  - intro v. destruct (url_eq_dec v u) as [->|Hv]; [exact Cu|].
    unfold coh. change (lookup v (installed w u t lgo nv) = want_entry w v). rewrite lookup_installed_neq by exact Hv. apply Ho, Hv.
  - intro v. unfold fresh. rewrite lastword_send.
    destruct (url_eqb v u) eqn:E; [apply url_eqb_eq in E; subst v; exact Pu|].
    apply url_eqb_neq in E. apply Ho, E.
  - exact Hdl.
Qed.

Lemma upd_pub_run : forall f rest l w w' t,
  s_lock w = false -> l_text l = Some t ->
  run_prog f (update_seq ++ IPublish :: rest) l w = Some w' ->
  let w1 := set_docs (installed w (l_url l) t (l_lang l) (l_ver l)) (set_scfg (w_ccfg w) w) in
  exists f' l', run_prog f' rest l' (send (l_url l) (pubval w1 (l_url l)) w1) = Some w' /\
                l_url l' = l_url l /\ l_queue l' = l_queue l.
Proof.
  intros f rest l w w' t Hl Ht H w1.
  destruct (update_run _ _ _ _ _ _ Hl Ht H) as (f1 & l1 & H1 & Hu & Hq).
  fuel_step H1. cbn [exec] in H1. fold w1 in H1.
  change (s_lock w1) with (s_lock w) in H1. rewrite Hl in H1. cbn [app] in H1. rewrite Hu in H1.
  exists f1, l1. split; [exact H1|]. split; assumption.
Qed.

Lemma publish_inv : forall w u, Inv w -> Inv (send u (pubval w u) w).
Proof.
  intros w u I. constructor.
  - exact (inv_lock w I).
  - exact (inv_cfg w I).
  - intro v. change (coh w v). exact (inv_coh w I v).
  - intro v. unfold fresh. rewrite lastword_send. change (expected (send u (pubval w u) w) v) with (expected w v).
    destruct (url_eqb v u) eqn:E; [apply url_eqb_eq in E; subst; apply coh_pubval; [exact (inv_cfg w I)|exact (inv_coh w I u)]|exact (inv_fresh w I v)].
  - exact (inv_dlock w I).
Qed.

(* ---------- the entry an update leaves, from the entry it finds ---------- *)
(* An entry of the shape every handler leaves behind (dictionary = base + identifiers, the linter
   configuration current unless the dictionary files changed since), updated with text t and version nv
   that is not older than the entry's: the result is the up-to-date entry. *)
Lemma upd_entry_spec : forall w u t lgo nv lg B i0 cl t0 p ign dd v0,
  lookup u (s_docs w) = Some (mkentry (Some lg) (with_ident B i0) i0 cl t0 p ign B dd (Some v0)) ->
  kind lg <> KNone -> (kind lg <> KCode -> i0 = 0) -> (B = cur_dict w u -> cl = w_ccfg w) ->
  stale nv (Some v0) = false ->
  upd_entry w u t lgo nv =
    Some (mkentry (Some lg) (with_ident (cur_dict w u) (idof lg t)) (idof lg t) (w_ccfg w) (Some t) (w_ccfg w) ign
                  (cur_dict w u) (with_ident (cur_dict w u) (idof lg t)) (match nv with Some n => Some n | None => Some v0 end)).
Proof.
  intros w u t lgo nv lg B i0 cl t0 p ign dd v0 He Hk Hi Hc Hst. unfold upd_entry. rewrite He. cbn [e_ver]. rewrite Hst.
  unfold rebase, idof.
  destruct nv as [n|]; cbn [bump e_set_ver e_base];
    (destruct (dictv_eqb B (cur_dict w u)) eqn:Ed;
     [ apply dictv_eqb_eq in Ed; subst B; rewrite (Hc eq_refl); cbn [e_lang e_ident e_set_ver];
       (destruct (kind lg) eqn:Ek; [|destruct (i0 =? t_ident t) eqn:Ei; [apply Nat.eqb_eq in Ei|]|congruence]);
       try (rewrite (Hi ltac:(congruence))); try subst i0; reflexivity
     | cbn [e_rebase e_lang e_ident e_set_ver];
       (destruct (kind lg) eqn:Ek; [|destruct (0 =? t_ident t) eqn:Ei; [apply Nat.eqb_eq in Ei; rewrite <- Ei|]|congruence]);
       reflexivity ]).
Qed.

(* the same for a document doc_state does not hold *)
Lemma upd_entry_new : forall w u t lg v,
  lookup u (s_docs w) = None ->
  upd_entry w u t (Some lg) (Some v) =
    match kind lg with
    | KNone => None
    | _ => Some (mkentry (Some lg) (with_ident (cur_dict w u) (idof lg t)) (idof lg t) (w_ccfg w) (Some t) (w_ccfg w) []
                         (cur_dict w u) (with_ident (cur_dict w u) (idof lg t)) (Some v))
    end.
Proof.
  intros w u t lg v He. unfold upd_entry, rebase. rewrite He. cbn [new_entry e_ver stale bump e_set_ver e_base].
  rewrite dictv_eqb_refl. cbn [new_entry e_set_ver e_lang e_ident]. unfold idof.
  destruct (kind lg) eqn:Ek; [reflexivity| |reflexivity].
  destruct (0 =? t_ident t) eqn:Ei; [apply Nat.eqb_eq in Ei; rewrite <- Ei|]; reflexivity.
Qed.

Lemma upd_entry_absent : forall w u t nv, lookup u (s_docs w) = None -> upd_entry w u t None nv = None.
Proof.
  intros w u t nv He. unfold upd_entry. rewrite He. cbn [new_entry e_ver].
  assert (S : stale nv None = false) by (destruct nv; reflexivity). rewrite S.
  unfold rebase. destruct nv; cbn [bump e_set_ver e_base new_entry]; rewrite dictv_eqb_refl; reflexivity.
Qed.

Lemma upd_entry_same : forall w w' u t lgo nv,
  lookup u (s_docs w') = lookup u (s_docs w) -> w_ccfg w' = w_ccfg w -> w_udict w' = w_udict w -> w_fdict w' = w_fdict w ->
  upd_entry w' u t lgo nv = upd_entry w u t lgo nv.
Proof. intros w w' u t lgo nv A B C D. unfold upd_entry, cur_dict, fdict_of. rewrite A, B, C, D. reflexivity. Qed.

(* a re-read of u that finds the client's text in the file (or a document without parser, or a closed one)
   re-installs the up-to-date entry, also when the dictionary files have changed in between *)
Lemma reread_upd : forall w wd u t, coh w u ->
  w_open wd = w_open w -> s_docs wd = s_docs w -> w_ccfg wd = w_ccfg w ->
  match lookup u (w_open w) with Some cd => kind (cd_lang cd) = KNone \/ cd_text cd = t | None => True end ->
  upd_entry wd u t None None = want_entry wd u.
Proof.
  intros w wd u t C Eo Ed Ec Hx.
  destruct (lookup u (s_docs w)) as [e|] eqn:Ee.
  - destruct (coh_entry w u e C Ee) as (cd & Ho & Hk & ->). rewrite Ho in Hx. destruct Hx as [Hx|Hx]; [congruence|].
    unfold want_entry. rewrite Eo, Ho. subst t.
    rewrite (upd_entry_spec wd u (cd_text cd) None None (cd_lang cd) (cur_dict w u) (idof (cd_lang cd) (cd_text cd)) (w_ccfg w)
               (Some (cd_text cd)) (w_ccfg w) (cd_ign cd) (with_ident (cur_dict w u) (idof (cd_lang cd) (cd_text cd))) (cd_ver cd)).
    + unfold good_entry. rewrite Ec. destruct (kind (cd_lang cd)); [reflexivity|reflexivity|congruence].
    + rewrite Ed, Ee. reflexivity.
    + exact Hk.
    + apply idof_plain.
    + intros _. symmetry. exact Ec.
    + reflexivity.
  - rewrite upd_entry_absent by (rewrite Ed; exact Ee).
    pose proof (coh_no_entry w u C Ee) as N. unfold want_entry. rewrite Eo.
    destruct (lookup u (w_open w)) as [cd|]; [rewrite N|]; reflexivity.
Qed.

(* ---------- the side conditions of the sequential theorem ---------- *)
Definition clean (w : world) (u : url) : bool :=
  is_file u &&
  match lookup u (w_open w), lookup u (w_disk w) with
  | Some cd, Some t => text_eqb t (cd_text cd)
  | _, _ => false
  end.
(* a handler that re-reads u from disk does no harm: u is not open, or has no parser, or is saved *)
Definition reread_ok (w : world) (u : url) : bool :=
  match lookup u (w_open w) with
  | None => true
  | Some cd => match kind (cd_lang cd) with KNone => true | _ => clean w u end
  end.
Definition others_closed (w : world) (u : url) : bool :=
  forallb (fun kv => url_eqb (fst kv) u || match kind (cd_lang (snd kv)) with KNone => true | _ => false end) (w_open w).

(* didOpen of a document that is not open; didChange of an open document with a version that is not
   older than the previous one (an older one is ignored by the server) *)
Definition op_safeb (w : world) (o : op) : bool :=
  match o with
  | Open u l t v => match lookup u (w_open w) with None => true | Some _ => false end
  | Change u t v => match lookup u (w_open w) with Some cd => cd_ver cd <=? v | None => false end
  | Save _ | Close _ | Delete _ | Ignore _ _ | RecordLint => true
  | AddUser x u => reread_ok w u && (existsb (Nat.eqb x) (w_udict w) || others_closed w u)
  | AddFile x u => reread_ok w u || negb (is_file u)
  | CfgChange c order => forallb (fun kv => reread_ok w (fst kv)) (w_open w)
  end.

Lemma text_eqb_eq : forall a b, text_eqb a b = true -> a = b.
Proof.
  intros [a1 a2] [b1 b2]. unfold text_eqb. cbn. intro H. apply andb_true_iff in H as [H1 H2].
  apply Nat.eqb_eq in H1, H2. subst. reflexivity.
Qed.

Lemma lookup_In : forall {V} u (m : list (url * V)) v, lookup u m = Some v -> exists k, In (k, v) m /\ url_eqb u k = true.
Proof.
  induction m as [|[k v'] m IH]; cbn; intros v H; [discriminate|].
  destruct (url_eqb u k) eqn:E.
  - inversion H; subst. exists k. split; [left; reflexivity|exact E].
  - destruct (IH v H) as (k' & Hin & Ek). exists k'. split; [right; exact Hin|exact Ek].
Qed.

Lemma inv_others : forall w u, Inv w -> others_ok w u.
Proof. intros w u I v _. split; [exact (inv_coh w I v)|exact (inv_fresh w I v)]. Qed.

(* the client's buffers change at u only: the other documents are as before *)
Lemma others_ok_open : forall w u m, Inv w -> (forall v, v <> u -> lookup v m = lookup v (w_open w)) ->
  others_ok (set_open m w) u.
Proof.
  intros w u m I Hm v Hv. pose proof (inv_coh w I v) as C. pose proof (inv_fresh w I v) as F.
  unfold coh, want_entry, fresh, expected, lastword, good_entry, cur_dict, fdict_of in *.
  cbn [w_open set_open s_docs s_log s_cfg w_udict w_ccfg w_fdict]. rewrite (Hm v Hv). split; assumption.
Qed.

Lemma run_nil : forall f l w w', run_prog f [] l w = Some w' -> w' = w.
Proof. intros. destruct f; cbn in H; inversion H; reflexivity. Qed.

(* ---------- didOpen ---------- *)
Lemma inv_open : forall w u l t v w', Inv w -> op_safeb w (Open u l t v) = true ->
  run_op (Open u l t v) w = Some w' -> Inv w'.
Proof.
  intros w u l t v w' I Hs H. unfold run_op in H. cbn [prog locals_of] in H.
  cbn [op_safeb] in Hs. destruct (lookup u (w_open w)) as [cd0|] eqn:Eo; [discriminate|].
  set (w0 := client_effect (Open u l t v) w) in *.
  assert (Hno : lookup u (s_docs w) = None).
  { pose proof (inv_coh w I u) as C. unfold coh, want_entry in C. rewrite Eo in C. exact C. }
  assert (Hl : s_lock w0 = false) by exact (inv_lock w I).
  destruct (upd_pub_run _ [] (lset_ver (Some v) (lset_lang (Some l) (lset_text (Some t) (loc0 u)))) w0 w' t Hl eq_refl H) as (f' & l' & H1 & _ & _).
  cbn [l_url lset_ver lset_lang lset_text loc0 l_lang l_ver] in H1. apply run_nil in H1. subst w'.
  apply (install_inv w0 u t (Some l) (Some v)).
  - exact Hl.
  - exact (inv_dlock w I).
  - exact (inv_cfg w I).
  - unfold w0. cbn [client_effect]. apply others_ok_open; [exact I|].
    intros x Hx. apply url_eqb_neq in Hx. apply lookup_upsert_neq, Hx.
  - rewrite upd_entry_new by exact Hno. unfold want_entry, w0. cbn [client_effect w_open set_open].
    rewrite lookup_upsert_eq. cbn [cd_lang]. destruct (kind l); reflexivity.
Qed.

(* ---------- didChange ---------- *)
Lemma inv_change : forall w u t v w', Inv w -> op_safeb w (Change u t v) = true ->
  run_op (Change u t v) w = Some w' -> Inv w'.
Proof.
  intros w u t v w' I Hs H. unfold run_op in H. cbn [prog locals_of] in H.
  cbn [op_safeb] in Hs. destruct (lookup u (w_open w)) as [cd|] eqn:Eo; [|discriminate].
  assert (Ew0 : client_effect (Change u t v) w = set_open (upsert u (mkcdoc (cd_lang cd) t (cd_ign cd) v) (w_open w)) w)
    by (cbn [client_effect]; rewrite Eo; reflexivity).
  rewrite Ew0 in H. set (w0 := set_open _ w) in *.
  assert (Hl : s_lock w0 = false) by exact (inv_lock w I).
  destruct (upd_pub_run _ [] (lset_ver (Some v) (lset_text (Some t) (loc0 u))) w0 w' t Hl eq_refl H) as (f' & l' & H1 & _ & _).
  cbn [l_url lset_ver lset_lang lset_text loc0 l_lang l_ver] in H1. apply run_nil in H1. subst w'.
  apply (install_inv w0 u t None (Some v)).
  - exact Hl.
  - exact (inv_dlock w I).
  - exact (inv_cfg w I).
  - apply others_ok_open; [exact I|]. intros x Hx. apply url_eqb_neq in Hx. apply lookup_upsert_neq, Hx.
  - unfold want_entry. unfold w0 at 2. cbn [w_open set_open]. rewrite lookup_upsert_eq. cbn [cd_lang].
    destruct (lookup u (s_docs w)) as [e|] eqn:Ee.
    + destruct (coh_entry w u e (inv_coh w I u) Ee) as (cd' & Ho & Hk & ->). rewrite Eo in Ho. inversion Ho; subst cd'.
      rewrite (upd_entry_spec w0 u t None (Some v) (cd_lang cd) (cur_dict w u) (idof (cd_lang cd) (cd_text cd)) (w_ccfg w)
                 (Some (cd_text cd)) (w_ccfg w) (cd_ign cd) (with_ident (cur_dict w u) (idof (cd_lang cd) (cd_text cd))) (cd_ver cd)).
      * destruct (kind (cd_lang cd)); [reflexivity|reflexivity|congruence].
      * exact Ee.
      * exact Hk.
      * apply idof_plain.
      * reflexivity.
      * cbn [stale]. apply Nat.ltb_ge. apply Nat.leb_le, Hs.
    + rewrite upd_entry_absent by exact Ee.
      pose proof (coh_no_entry w u (inv_coh w I u) Ee) as N. rewrite Eo in N. rewrite N. reflexivity.
Qed.

(* ---------- handlers that re-read the document from disk ---------- *)
Definition pre (w : world) (u : url) : Prop := s_lock w = false /\ s_cfg w = w_ccfg w /\ others_ok w u /\ s_dlock w = false.

Definition reread_ready (w : world) (u : url) : Prop :=
  if is_file u then
    match lookup u (w_disk w) with
    | Some t => upd_entry w u t None None = want_entry w u
    | None => coh w u
    end
  else coh w u.

Lemma pre_coh_inv : forall w u, pre w u -> coh w u -> Inv (send u (pubval w u) w).
Proof.
  intros w u (Hl & Hc & Ho & Hdl) C. constructor; try assumption.
  - intro v. change (coh w v). destruct (url_eq_dec v u) as [->|Hv]; [exact C|apply Ho, Hv].
  - intro v. unfold fresh. rewrite lastword_send. change (expected (send u (pubval w u) w) v) with (expected w v).
    destruct (url_eqb v u) eqn:E; [apply url_eqb_eq in E; subst; apply coh_pubval; assumption|apply url_eqb_neq in E; apply Ho, E].
Qed.

Lemma reread_run : forall f rest l w w' u,
  run_prog f (IReadFile :: IPublish :: rest) l w = Some w' ->
  l_url l = u -> pre w u -> reread_ready w u ->
  exists f' l' w1, run_prog f' rest l' w1 = Some w' /\ Inv w1 /\ l_queue l' = l_queue l.
Proof.
  intros f rest l w w' u H Hu P R. destruct P as (Hl & Hc & Ho & Hdl).
  fuel_step H. cbn [exec] in H. rewrite Hu in H. unfold reread_ready in R.
  destruct (is_file u) eqn:Ef.
  - destruct (lookup u (w_disk w)) as [t|] eqn:Ed.
    + set (l1 := lset_ver None (lset_lang None (lset_text (Some t) l))) in *.
      assert (Hu1 : l_url l1 = u) by exact Hu.
      destruct (upd_pub_run _ rest l1 w w' t Hl eq_refl H) as (f' & l' & H1 & _ & Hq).
      rewrite Hu1 in H1. cbn [l_lang l_ver l1 lset_lang lset_ver] in H1.
      exists f', l', (send u (pubval (set_docs (installed w u t None None) (set_scfg (w_ccfg w) w)) u) (set_docs (installed w u t None None) (set_scfg (w_ccfg w) w))).
      split; [exact H1|]. split; [apply install_inv; assumption|exact Hq].
    + cbn [app] in H. fuel_step H. cbn [exec] in H. rewrite Hl, Hu in H. cbn [app] in H.
      exists f, l, (send u (pubval w u) w). split; [exact H|]. split; [apply pre_coh_inv; [exact (conj Hl (conj Hc (conj Ho Hdl)))|exact R]|reflexivity].
  - cbn [app] in H. fuel_step H. cbn [exec] in H. rewrite Hl, Hu in H. cbn [app] in H.
    exists f, l, (send u (pubval w u) w). split; [exact H|]. split; [apply pre_coh_inv; [exact (conj Hl (conj Hc (conj Ho Hdl)))|exact R]|reflexivity].
Qed.

Lemma inv_pre : forall w u, Inv w -> pre w u.
Proof. intros w u I. exact (conj (inv_lock w I) (conj (inv_cfg w I) (conj (inv_others w u I) (inv_dlock w I)))). Qed.

(* Inv does not mention the documents on disk *)
Lemma inv_set_disk : forall w d, Inv w -> Inv (set_disk d w).
Proof. intros w d I. constructor; [exact (inv_lock w I)|exact (inv_cfg w I)|exact (inv_coh w I)|exact (inv_fresh w I)|exact (inv_dlock w I)]. Qed.

(* ---------- didSave ---------- *)
Lemma inv_save : forall w u w', Inv w -> run_op (Save u) w = Some w' -> Inv w'.
Proof.
  intros w u w' I H. unfold run_op in H. cbn [prog locals_of] in H.
  set (w0 := client_effect (Save u) w) in *.
  assert (I0 : Inv w0).
  { unfold w0. cbn [client_effect]. destruct (lookup u (w_open w)); [destruct (is_file u)|]; try exact I. apply inv_set_disk, I. }
  assert (R : reread_ready w0 u).
  { unfold reread_ready. destruct (is_file u) eqn:Ef; [|exact (inv_coh w0 I0 u)].
    destruct (lookup u (w_disk w0)) as [t|] eqn:Ed; [|exact (inv_coh w0 I0 u)].
    apply (reread_upd w0 w0 u t (inv_coh w0 I0 u)); try reflexivity.
    destruct (lookup u (w_open w0)) as [cd|] eqn:Eo; [|exact Logic.I]. right.
    unfold w0 in Ed, Eo. cbn [client_effect] in Ed, Eo. destruct (lookup u (w_open w)) as [cd'|] eqn:Eo'.
    - rewrite Ef in Ed, Eo. cbn [w_open set_disk w_disk] in Ed, Eo. rewrite lookup_upsert_eq in Ed. congruence.
    - congruence. }
  destruct (reread_run _ [] _ w0 w' u H eq_refl (inv_pre w0 u I0) R) as (f' & l' & w1 & H1 & I1 & _).
  apply run_nil in H1. subst w'. exact I1.
Qed.

(* ---------- didClose ---------- *)
Lemma inv_close : forall w u w', Inv w -> run_op (Close u) w = Some w' -> Inv w'.
Proof.
  intros w u w' I H. unfold run_op in H. cbn [prog locals_of client_effect] in H. open_fuel H.
  fuel_step H. cbn [exec] in H. cbn [s_lock set_open] in H. rewrite (inv_lock w I) in H. cbn [app] in H.
  fuel_step H. cbn [exec app] in H. apply run_nil in H. subst w'. cbn [loc0 l_url].
  constructor.
  - reflexivity.
  - exact (inv_cfg w I).
  - intro v. pose proof (inv_coh w I v) as C. unfold coh, want_entry, good_entry, cur_dict, fdict_of in *.
    cbn [s_docs set_lock send set_log set_docs set_open w_open s_cfg w_udict w_fdict w_ccfg].
    rewrite !lookup_remove. destruct (url_eqb v u); [reflexivity|exact C].
  - intro v. pose proof (inv_fresh w I v) as F. unfold fresh in *.
    change (lastword (set_lock false (set_lock true (send u PEmpty (set_docs (remove u (s_docs (set_open (remove u (w_open w)) w))) (set_open (remove u (w_open w)) w))))) v)
      with (lastword (send u PEmpty w) v).
    rewrite lastword_send. unfold expected, fdict_of in *. cbn [set_lock send set_log set_docs set_open w_open w_udict w_fdict w_ccfg].
    rewrite lookup_remove. destruct (url_eqb v u); [reflexivity|exact F].
  - exact (inv_dlock w I).
Qed.

(* ---------- HarperRecordLint ---------- *)
Lemma inv_record : forall w w', Inv w -> run_op RecordLint w = Some w' -> Inv w'.
Proof.
  intros w w' I H. unfold run_op in H. cbn [prog locals_of client_effect] in H. open_fuel H.
  fuel_step H. cbn [exec app] in H. apply run_nil in H. subst w'. exact I.
Qed.

(* ---------- HarperIgnoreLint ---------- *)
Lemma inv_ignore : forall w u k w', Inv w -> run_op (Ignore u k) w = Some w' -> Inv w'.
Proof.
  intros w u k w' I H. unfold run_op in H. cbn [prog locals_of] in H.
  set (w0 := client_effect (Ignore u k) w) in *.
  assert (Hd0 : s_docs w0 = s_docs w) by (unfold w0; cbn [client_effect]; destruct (lookup u (w_open w)); reflexivity).
  assert (Hl0 : s_lock w0 = false) by (unfold w0; cbn [client_effect]; destruct (lookup u (w_open w)); exact (inv_lock w I)).
  open_fuel H. fuel_step H. cbn [exec] in H. rewrite Hl0, Hd0 in H. cbn [loc0 l_url] in H.
  destruct (lookup u (s_docs w)) as [e|] eqn:Ee.
  - destruct (coh_entry w u e (inv_coh w I u) Ee) as (cd & Hc & Hk & ->).
    cbn [app] in H. fuel_step H. cbn [exec] in H. cbn [s_lock set_docs] in H. rewrite Hl0 in H. cbn [app l_url loc0] in H.
    apply run_nil in H. subst w'.
    assert (Ew0 : w0 = set_open (upsert u (mkcdoc (cd_lang cd) (cd_text cd) (ins k (cd_ign cd)) (cd_ver cd)) (w_open w)) w)
      by (unfold w0; cbn [client_effect]; rewrite Hc; reflexivity).
    rewrite Ew0.
    set (w1 := set_docs _ _).
    assert (Cu : coh w1 u).
    { unfold coh, want_entry, w1. cbn [s_docs set_docs set_open w_open]. rewrite !lookup_upsert_eq. cbn [cd_lang].
      destruct (kind (cd_lang cd)); [reflexivity|reflexivity|congruence]. }
    apply (pre_coh_inv w1 u); [|exact Cu].
    split; [exact (inv_lock w I)|]. split; [exact (inv_cfg w I)|]. split; [|exact (inv_dlock w I)].
    intros x Hx. destruct (others_ok_open w u (upsert u (mkcdoc (cd_lang cd) (cd_text cd) (ins k (cd_ign cd)) (cd_ver cd)) (w_open w)) I) with (v := x) as [C F];
      [intros y Hy; apply url_eqb_neq in Hy; apply lookup_upsert_neq, Hy|exact Hx|].
    apply url_eqb_neq in Hx. split.
    + unfold coh in *. unfold w1. cbn [s_docs set_docs]. rewrite lookup_upsert_neq by exact Hx. exact C.
    + exact F.
  - cbn [app] in H. apply run_nil in H. subst w'.
    pose proof (coh_no_entry w u (inv_coh w I u) Ee) as N.
    unfold w0. cbn [client_effect]. destruct (lookup u (w_open w)) as [cd|] eqn:Eo; [|exact I].
    constructor.
    + exact (inv_lock w I).
    + exact (inv_cfg w I).
    + intro v. pose proof (inv_coh w I v) as C. unfold coh, want_entry, good_entry, cur_dict, fdict_of in *.
      cbn [s_docs set_open w_open s_cfg w_udict w_fdict w_ccfg]. rewrite lookup_upsert.
      destruct (url_eqb v u) eqn:E; [|exact C]. apply url_eqb_eq in E. subst v. rewrite Ee. cbn. rewrite N. reflexivity.
    + intro v. pose proof (inv_fresh w I v) as F. unfold fresh, lastword, expected, fdict_of in *.
      cbn [s_log set_open w_open s_cfg w_udict w_fdict w_ccfg]. rewrite lookup_upsert.
      destruct (url_eqb v u) eqn:E; [|exact F]. apply url_eqb_eq in E. subst v. rewrite Eo, N in F. cbn. rewrite N. exact F.
    + exact (inv_dlock w I).
Qed.

(* ---------- didChangeWatchedFiles ---------- *)
Definition send_all (q : list url) (w : world) : world := fold_left (fun w v => send v PEmpty w) q w.

Lemma send_all_log : forall q w, send_all q w = set_log (rev (map (fun v => (v, PEmpty)) q) ++ s_log w) w.
Proof.
  induction q as [|v q IH]; intro w; cbn.
  - destruct w; reflexivity.
  - unfold send_all in IH. rewrite IH. unfold send. cbn. rewrite <- app_assoc. reflexivity.
Qed.

Lemma last_pub_app : forall u a b, last_pub u (a ++ b) = match last_pub u a with Some p => Some p | None => last_pub u b end.
Proof.
  induction a as [|[k p] a IH]; intro b; cbn; [reflexivity|]. destruct (url_eqb u k); [reflexivity|apply IH].
Qed.

Lemma last_pub_empties : forall u q,
  last_pub u (rev (map (fun v => (v, PEmpty)) q)) = if mem_url u q then Some PEmpty else None.
Proof.
  induction q as [|v q IH]; [reflexivity|]. cbn [map rev]. rewrite last_pub_app, IH.
  change (mem_url u (v :: q)) with (url_eqb u v || mem_url u q).
  destruct (mem_url u q); cbn [last_pub].
  - rewrite orb_true_r. reflexivity.
  - rewrite orb_false_r. destruct (url_eqb u v); reflexivity.
Qed.

Lemma lastword_send_all : forall q w u, lastword (send_all q w) u = if mem_url u q then PEmpty else lastword w u.
Proof.
  intros. rewrite send_all_log. unfold lastword. cbn [s_log set_log]. rewrite last_pub_app, last_pub_empties.
  destruct (mem_url u q); reflexivity.
Qed.

Lemma delsend_run : forall q f rest l w w',
  l_queue l = q -> run_prog f (map (fun _ => IDelSend) q ++ rest) l w = Some w' ->
  exists f' l', run_prog f' rest l' (send_all q w) = Some w'.
Proof.
  induction q as [|v q IH]; intros f rest l w w' Hq H.
  - exists f, l. exact H.
  - cbn [map app] in H. fuel_step H. cbn [exec] in H. rewrite Hq in H. cbn [app] in H.
    apply IH in H; [|reflexivity]. exact H.
Qed.

Lemma lookup_filter_matches : forall {V} tg u (m : list (url * V)),
  lookup u (filter (fun kv => negb (matches tg (fst kv))) m) = if matches tg u then None else lookup u m.
Proof.
  intros. pose proof (lookup_filter_key (fun k => negb (matches tg k)) u m) as H. cbn beta in H. rewrite H.
  destruct (matches tg u); reflexivity.
Qed.

Lemma inv_delete : forall w tg w', Inv w -> run_op (Delete tg) w = Some w' -> Inv w'.
Proof.
  intros w tg w' I H. unfold run_op in H. cbn [prog locals_of client_effect] in H. open_fuel H.
  fuel_step H. cbn [exec] in H. cbn [s_lock set_open set_disk s_docs] in H. rewrite (inv_lock w I) in H.
  set (gone := filter (matches tg) (keys (s_docs w))) in *.
  apply delsend_run in H; [|reflexivity]. destruct H as (f' & l' & H).
  fuel_step H. cbn [exec app] in H. apply run_nil in H. subst w'.
  rewrite send_all_log.
  assert (Hgone : forall v, mem_url v gone = true <-> (matches tg v = true /\ In v (keys (s_docs w)))).
  { intro v. rewrite mem_url_In. unfold gone. rewrite filter_In. tauto. }
  constructor.
  - reflexivity.
  - exact (inv_cfg w I).
  - intro v. pose proof (inv_coh w I v) as C. unfold coh, want_entry, good_entry, cur_dict, fdict_of in *.
    cbn [s_docs set_lock set_log set_docs set_open set_disk w_open s_cfg w_udict w_fdict w_ccfg].
    rewrite !lookup_filter_matches. destruct (matches tg v); [reflexivity|exact C].
  - intro v. pose proof (inv_fresh w I v) as F. pose proof (inv_coh w I v) as C. unfold fresh.
    match goal with |- lastword ?W v = expected ?W v =>
      assert (Hexp : expected W v = if matches tg v then PEmpty else expected w v)
    end.
    { unfold expected, fdict_of. cbn [set_lock set_log set_docs set_open set_disk w_open w_udict w_fdict w_ccfg].
      rewrite lookup_filter_matches. destruct (matches tg v); reflexivity. }
    rewrite Hexp. unfold lastword at 1. cbn [s_log set_lock set_log set_docs set_open set_disk]. rewrite last_pub_app, last_pub_empties. cbn [s_log set_lock set_log set_docs set_open set_disk].
    destruct (matches tg v) eqn:Em.
    + destruct (mem_url v gone) eqn:Eg; [reflexivity|].
      assert (Hn : lookup v (s_docs w) = None).
      { destruct (lookup v (s_docs w)) as [e|] eqn:Ee; [|reflexivity]. apply lookup_In_keys in Ee.
        assert (mem_url v gone = true) by (apply Hgone; split; assumption). congruence. }
      change (lastword w v = PEmpty). unfold fresh in F. rewrite F, <- (coh_pubval w v (inv_cfg w I) C). unfold pubval. rewrite Hn. reflexivity.
    + destruct (mem_url v gone) eqn:Eg; [apply Hgone in Eg; destruct Eg; congruence|]. exact F.
  - exact (inv_dlock w I).
Qed.

(* ---------- add-to-dictionary commands: the dictionary files change, then the document is re-read ---------- *)
Definition same_server (w wd : world) : Prop :=
  w_open wd = w_open w /\ w_ccfg wd = w_ccfg w /\ s_cfg wd = s_cfg w /\ s_docs wd = s_docs w /\
  s_lock wd = s_lock w /\ s_log wd = s_log w /\ w_disk wd = w_disk w /\ s_dlock wd = s_dlock w.

Lemma pre_dict_change : forall w wd u, Inv w -> same_server w wd ->
  (forall v, v <> u -> expected wd v = expected w v /\ want_entry wd v = want_entry w v) -> pre wd u.
Proof.
  intros w wd u I (Eo & Ec & Es & Ed & El & Eg & Ek & Edl) Hexp.
  unfold pre. rewrite El, Es, Ec, Edl. split; [exact (inv_lock w I)|]. split; [exact (inv_cfg w I)|]. split; [|exact (inv_dlock w I)].
  intros v Hv. destruct (Hexp v Hv) as [E1 E2]. unfold coh, fresh, lastword. rewrite Ed, Eg, E1, E2.
  split; [exact (inv_coh w I v)|exact (inv_fresh w I v)].
Qed.

Lemma reread_ready_gen : forall w wd u, Inv w -> same_server w wd ->
  (lookup u (s_docs w) = None -> want_entry wd u = want_entry w u) ->
  reread_ok w u = true -> reread_ready wd u.
Proof.
  intros w wd u I (Eo & Ec & Es & Ed & El & Eg & Ek & _) Hw R.
  assert (Hunread : (is_file u = false \/ lookup u (w_disk w) = None) -> coh wd u).
  { intro Hu. unfold coh. rewrite Ed.
    pose proof (inv_coh w I u) as C. unfold coh in C.
    destruct (lookup u (s_docs w)) as [e|] eqn:Ee; [|rewrite Hw by reflexivity; exact C].
    exfalso. destruct (coh_entry w u e (inv_coh w I u) Ee) as (cd & Ho & Hk & _).
    unfold reread_ok, clean in R. rewrite Ho in R.
    destruct (kind (cd_lang cd)) eqn:Ek'; try congruence;
      (destruct Hu as [Hu|Hu]; rewrite Hu in R; [discriminate R|rewrite andb_comm in R; discriminate R]). }
  unfold reread_ready. destruct (is_file u) eqn:Ef; [|apply Hunread; left; reflexivity].
  rewrite Ek. destruct (lookup u (w_disk w)) as [t|] eqn:Edk; [|apply Hunread; right; reflexivity].
  apply (reread_upd w wd u t (inv_coh w I u) Eo Ed Ec).
  unfold reread_ok, clean in R. rewrite Ef, Edk in R. destruct (lookup u (w_open w)) as [cd|]; [|exact Logic.I].
  destruct (kind (cd_lang cd)); [right|right|left; reflexivity]; cbn in R; apply text_eqb_eq in R; congruence.
Qed.

Lemma existsb_add_word : forall x l, existsb (Nat.eqb x) l = true -> add_word x l = l.
Proof. intros x l H. unfold add_word. rewrite H. reflexivity. Qed.

Lemma others_closed_spec : forall w u v cd, others_closed w u = true -> v <> u -> lookup v (w_open w) = Some cd ->
  kind (cd_lang cd) = KNone.
Proof.
  intros w u v cd H Hv Hl. unfold others_closed in H. rewrite forallb_forall in H.
  destruct (lookup_In v (w_open w) cd Hl) as (k & Hin & Ek). apply url_eqb_eq in Ek. subst k.
  specialize (H (v, cd) Hin). cbn in H. apply url_eqb_neq in Hv. rewrite Hv in H. cbn in H.
  destruct (kind (cd_lang cd)); try discriminate; reflexivity.
Qed.

(* a document without parser has no entry, whatever the dictionaries are *)
Lemma want_entry_noparser : forall w wd u, w_open wd = w_open w ->
  lookup u (s_docs w) = None -> coh w u -> want_entry wd u = want_entry w u.
Proof.
  intros w wd u Eo He C. pose proof (coh_no_entry w u C He) as N. unfold want_entry. rewrite Eo.
  destruct (lookup u (w_open w)) as [cd|]; [rewrite N|]; reflexivity.
Qed.

Lemma inv_adduser : forall w x u w', Inv w -> op_safeb w (AddUser x u) = true ->
  run_op (AddUser x u) w = Some w' -> Inv w'.
Proof.
  intros w x u w' I Hs H. unfold run_op in H. cbn [prog locals_of client_effect] in H. open_fuel H.
  cbn [op_safeb] in Hs. apply andb_true_iff in Hs as [Hr Hs].
  fuel_step H. cbn [exec] in H. rewrite (inv_dlock w I) in H. cbn [app] in H.
  do 2 (fuel_step H; cbn [exec app] in H).
  cbn [l_word l_ud lset_ud lset_word loc0 w_udict set_udict set_dlock] in H.
  set (wd := set_dlock false _) in H.
  assert (SS : same_server w wd) by (repeat split; try reflexivity; symmetry; exact (inv_dlock w I)).
  assert (Hexp : forall v, v <> u -> expected wd v = expected w v /\ want_entry wd v = want_entry w v).
  { intros v Hv. unfold expected, want_entry, good_entry, cur_dict, fdict_of, wd. cbn [w_open set_udict set_dlock w_udict w_fdict w_ccfg].
    apply orb_true_iff in Hs as [Hs|Hs]; [rewrite (existsb_add_word _ _ Hs); split; reflexivity|].
    destruct (lookup v (w_open w)) as [cd|] eqn:Eo; [|split; reflexivity].
    rewrite (others_closed_spec w u v cd Hs Hv Eo). split; reflexivity. }
  destruct (reread_run _ [] _ wd w' u H eq_refl (pre_dict_change w wd u I SS Hexp)
              (reread_ready_gen w wd u I SS (fun He => want_entry_noparser w wd u eq_refl He (inv_coh w I u)) Hr))
    as (f' & l' & w1 & H1 & I1 & _).
  apply run_nil in H1. subst w'. exact I1.
Qed.

Lemma inv_addfile : forall w x u w', Inv w -> op_safeb w (AddFile x u) = true ->
  run_op (AddFile x u) w = Some w' -> Inv w'.
Proof.
  intros w x u w' I Hs H. unfold run_op in H. cbn [prog locals_of client_effect] in H. open_fuel H.
  cbn [op_safeb] in Hs.
  fuel_step H. cbn [exec] in H. rewrite (inv_dlock w I) in H. cbn [l_url lset_word loc0] in H.
  destruct (is_file u) eqn:Ef.
  - cbn [negb] in Hs. rewrite orb_false_r in Hs. cbn [app] in H.
    do 2 (fuel_step H; cbn [exec app] in H).
    cbn [l_url l_word l_fd lset_fd lset_word loc0 w_fdict set_fdict set_dlock] in H.
    set (wd := set_dlock false _) in H.
    assert (SS : same_server w wd) by (repeat split; try reflexivity; symmetry; exact (inv_dlock w I)).
    assert (Hexp : forall v, v <> u -> expected wd v = expected w v /\ want_entry wd v = want_entry w v).
    { intros v Hv. apply url_eqb_neq in Hv. unfold expected, want_entry, good_entry, cur_dict, fdict_of, wd. cbn [w_open set_fdict set_dlock w_udict w_fdict w_ccfg].
      rewrite !lookup_upsert_neq by exact Hv. split; reflexivity. }
    destruct (reread_run _ [] _ wd w' u H eq_refl (pre_dict_change w wd u I SS Hexp)
                (reread_ready_gen w wd u I SS (fun He => want_entry_noparser w wd u eq_refl He (inv_coh w I u)) Hs))
      as (f' & l' & w1 & H1 & I1 & _).
    apply run_nil in H1. subst w'. exact I1.
  - cbn [app] in H. fuel_step H. cbn [exec] in H. cbn [l_url lset_fd lset_word loc0] in H. rewrite Ef in H. cbn [app] in H.
    fuel_step H. cbn [exec] in H. rewrite (inv_lock w I) in H. cbn [app l_url lset_fd lset_word loc0] in H.
    apply run_nil in H. subst w'. apply publish_inv, I.
Qed.

(* ---------- didChangeConfiguration: every document of doc_state is re-read, in some order ---------- *)
Definition after_install (w : world) (u : url) (t : text) : world :=
  let w1 := set_docs (installed w u t None None) (set_scfg (w_ccfg w) w) in send u (pubval w1 u) w1.

Definition text_on_disk (w : world) (v : url) (t : text) : Prop :=
  match lookup v (w_open w) with Some cd => kind (cd_lang cd) = KNone \/ cd_text cd = t | None => True end.

Definition qready (w : world) (v : url) : Prop :=
  is_file v = true /\ exists t, lookup v (w_disk w) = Some t /\ text_on_disk w v t /\
    upd_entry w v t None None = want_entry w v.

Definition CInv (w : world) (q : list url) : Prop :=
  s_lock w = false /\ s_cfg w = w_ccfg w /\
  (forall v, In v q -> qready w v) /\ (forall v, (coh w v /\ fresh w v) \/ In v q) /\ s_dlock w = false.

Lemma qready_after_install : forall w u t v,
  upd_entry w u t None None = want_entry w u -> qready w v -> qready (after_install w u t) v.
Proof.
  intros w u t v Ru (Hf & t' & Hd & Hx & Hr). split; [exact Hf|]. exists t'. split; [exact Hd|]. split; [exact Hx|].
  unfold after_install.
  match goal with |- upd_entry ?W v t' None None = want_entry ?W v => change (want_entry W v) with (want_entry w v) end.
  destruct (url_eq_dec v u) as [->|Hv].
  - (* the same document a second time: it is up to date now *)
    set (w2 := send u _ _).
    assert (C2 : coh w2 u).
    { unfold coh, w2. cbn [s_docs send set_log set_docs]. rewrite lookup_installed_eq. exact Ru. }
    change (want_entry w u) with (want_entry w2 u).
    apply (reread_upd w2 w2 u t' C2); try reflexivity. exact Hx.
  - rewrite <- Hr. apply upd_entry_same; try reflexivity.
    cbn [s_docs send set_log set_docs]. apply lookup_installed_neq, Hv.
Qed.

Lemma cfg_loop : forall q f l w w', l_queue l = q -> CInv w q -> run_prog f [ICfgNext] l w = Some w' -> Inv w'.
Proof.
  induction q as [|v q IH]; intros f l w w' Hq (Hl & Hc & Hrdy & Hor & Hdl) H.
  - fuel_step H. cbn [exec] in H. rewrite Hq in H. cbn [app] in H. apply run_nil in H. subst w'.
    constructor; try assumption.
    + intro v. destruct (Hor v) as [[C _]|[]]. exact C.
    + intro v. destruct (Hor v) as [[_ F]|[]]. exact F.
  - fuel_step H. cbn [exec] in H. rewrite Hq in H. cbn [app] in H.
    destruct (Hrdy v (or_introl eq_refl)) as (Hf & t & Hdk & Hx & Hr).
    fuel_step H. cbn [exec] in H. cbn [l_url lset_queue lset_text lset_url] in H. rewrite Hf, Hdk in H.
    set (l2 := lset_ver None _) in H.
    destruct (upd_pub_run _ [ICfgNext] l2 w w' t Hl eq_refl H) as (f' & l' & H1 & _ & Hq').
    cbn [l_url l_lang l_ver l2 lset_lang lset_ver lset_text lset_queue lset_url] in H1.
    change (send v _ _) with (after_install w v t) in H1.
    assert (Hown : coh (after_install w v t) v /\ fresh (after_install w v t) v).
    { unfold after_install. set (w1 := set_docs (installed w v t None None) (set_scfg (w_ccfg w) w)).
      assert (C : coh w1 v).
      { unfold coh, w1. cbn [s_docs set_docs]. rewrite lookup_installed_eq. exact Hr. }
      split; [exact C|]. unfold fresh. rewrite lastword_send, url_eqb_refl.
      change (expected (send v (pubval w1 v) w1) v) with (expected w1 v).
      apply coh_pubval; [reflexivity|exact C]. }
    apply (IH f' l' (after_install w v t) w'); [exact Hq'| |exact H1].
    split; [exact Hl|]. split; [reflexivity|]. split; [|split; [|exact Hdl]].
    + intros v' Hin. apply qready_after_install; [exact Hr|]. apply Hrdy. right. exact Hin.
    + intro v'. destruct (url_eq_dec v' v) as [->|Hv]; [left; exact Hown|].
      destruct (Hor v') as [[C F]|[E|Hin]]; [left|congruence|right; exact Hin].
      split.
      * unfold coh, after_install in *. cbn [s_docs send set_log set_docs]. rewrite lookup_installed_neq by exact Hv. exact C.
      * unfold fresh, after_install in *. rewrite lastword_send. apply url_eqb_neq in Hv. rewrite Hv. exact F.
Qed.

Lemma inv_cfgchange : forall w c order w', Inv w -> op_safeb w (CfgChange c order) = true ->
  run_op (CfgChange c order) w = Some w' -> Inv w'.
Proof.
  intros w c order w' I Hs H. unfold run_op in H. cbn [prog locals_of client_effect] in H. open_fuel H.
  cbn [op_safeb] in Hs. rewrite forallb_forall in Hs.
  fuel_step H. cbn [exec app] in H. fuel_step H. cbn [exec] in H.
  cbn [s_lock set_scfg set_ccfg s_docs s_cfg] in H. rewrite (inv_lock w I) in H. cbn [app] in H.
  set (wc := set_docs _ _) in H.
  apply (cfg_loop _ _ _ wc w' eq_refl) in H; [exact H|]. clear H.
  assert (Hlk : forall v, lookup v (s_docs wc) = option_map (e_set_lcfg c) (lookup v (s_docs w))).
  { intro v. unfold wc. cbn [s_docs set_docs]. apply lookup_map_val. }
  split; [exact (inv_lock w I)|]. split; [reflexivity|]. split; [|split; [|exact (inv_dlock w I)]].
  - intros v Hin. cbn [l_queue lset_queue] in Hin. apply order_keys_sound in Hin.
    apply keys_In_lookup in Hin as [e Ee].
    destruct (coh_entry w v e (inv_coh w I v) Ee) as (cd & Hc & Hk & ->).
    destruct (lookup_In v (w_open w) cd Hc) as (k & Hkin & Ek). apply url_eqb_eq in Ek. subst k.
    pose proof (Hs (v, cd) Hkin) as R. cbn [fst] in R. unfold reread_ok, clean in R. rewrite Hc in R.
    assert (Hcl : is_file v && match lookup v (w_disk w) with Some t => text_eqb t (cd_text cd) | None => false end = true)
      by (destruct (kind (cd_lang cd)); try exact R; congruence).
    apply andb_true_iff in Hcl as [Hf Hdk]. destruct (lookup v (w_disk w)) as [t|] eqn:Edk; [|discriminate].
    apply text_eqb_eq in Hdk. subst t.
    split; [exact Hf|]. exists (cd_text cd). split; [exact Edk|]. split.
    + unfold text_on_disk. change (w_open wc) with (w_open w). rewrite Hc. right. reflexivity.
    + unfold want_entry. change (w_open wc) with (w_open w). rewrite Hc.
      rewrite (upd_entry_spec wc v (cd_text cd) None None (cd_lang cd) (cur_dict w v) (idof (cd_lang cd) (cd_text cd)) c
                 (Some (cd_text cd)) (w_ccfg w) (cd_ign cd) (with_ident (cur_dict w v) (idof (cd_lang cd) (cd_text cd))) (cd_ver cd)).
      * unfold good_entry. destruct (kind (cd_lang cd)); [reflexivity|reflexivity|congruence].
      * rewrite Hlk, Ee. reflexivity.
      * exact Hk.
      * apply idof_plain.
      * reflexivity.
      * reflexivity.
  - intro v. cbn [l_queue lset_queue].
    destruct (lookup v (s_docs w)) as [e|] eqn:Ee.
    + right. apply order_keys_complete. eapply lookup_In_keys, Ee.
    + left. pose proof (coh_no_entry w v (inv_coh w I v) Ee) as N. pose proof (inv_fresh w I v) as F.
      split.
      * unfold coh. rewrite Hlk, Ee. cbn [option_map]. unfold want_entry. change (w_open wc) with (w_open w).
        destruct (lookup v (w_open w)) as [cd|]; [rewrite N|]; reflexivity.
      * unfold fresh in *. change (lastword wc v) with (lastword w v).
        assert (Hexp : expected wc v = PEmpty /\ expected w v = PEmpty).
        { unfold expected. change (w_open wc) with (w_open w). destruct (lookup v (w_open w)) as [cd|]; [rewrite N|]; split; reflexivity. }
        destruct Hexp as [E1 E2]. rewrite E1. rewrite E2 in F. exact F.
Qed.

(* ---------- histories ---------- *)
Lemma inv_op : forall o w w', Inv w -> op_safeb w o = true -> run_op o w = Some w' -> Inv w'.
Proof.
  intros o w w' I Hs H. destruct o.
  - eapply inv_open; eassumption.
  - eapply inv_change; eassumption.
  - eapply inv_save; eassumption.
  - eapply inv_close; eassumption.
  - eapply inv_delete; eassumption.
  - eapply inv_adduser; eassumption.
  - eapply inv_addfile; eassumption.
  - eapply inv_ignore; eassumption.
  - eapply inv_record; eassumption.
  - eapply inv_cfgchange; eassumption.
Qed.

(* the side conditions hold at every message of the history, in the world it is sent in *)
Fixpoint seq_safeb (h : list op) (w : world) : bool :=
  match h with
  | [] => true
  | o :: h' => op_safeb w o && match run_op o w with Some w' => seq_safeb h' w' | None => true end
  end.

Lemma inv_seq : forall h w w', Inv w -> seq_safeb h w = true -> run_seq h w = Some w' -> Inv w'.
Proof.
  induction h as [|o h IH]; intros w w' I Hs H; cbn [run_seq] in H.
  - inversion H; subst; exact I.
  - cbn [seq_safeb] in Hs. apply andb_true_iff in Hs as [Ho Hs].
    destruct (run_op o w) as [w1|] eqn:E; [|discriminate]. eapply IH; [eapply inv_op; eassumption|exact Hs|exact H].
Qed.

Lemma inv_world0 : forall c, Inv (world0 c).
Proof.
  intro c. constructor.
  - reflexivity.
  - reflexivity.
  - intro u. reflexivity.
  - intro u. reflexivity.
  - reflexivity.
Qed.

(* C09, sequential clause *)
Theorem sequential : forall h c w,
  seq_safeb h (world0 c) = true -> run_seq h (world0 c) = Some w ->
  forall u, lastword w u = expected w u /\ pubval w u = expected w u /\
            (lookup u (w_open w) = None -> lastword w u = PEmpty).
Proof.
  intros h c w Hs H u. pose proof (inv_seq h (world0 c) w (inv_world0 c) Hs H) as I.
  split; [exact (inv_fresh w I u)|]. split; [exact (coh_pubval w u (inv_cfg w I) (inv_coh w I u))|].
  intro Hn. rewrite (inv_fresh w I u). unfold expected. rewrite Hn. reflexivity.
Qed.

(* the same from any world that satisfies the invariant (e.g. a running server that is up to date) *)
Theorem sequential_from : forall h w0 w,
  Inv w0 -> seq_safeb h w0 = true -> run_seq h w0 = Some w -> forall u, fresh w u.
Proof. intros h w0 w I Hs H u. exact (inv_fresh w (inv_seq h w0 w I Hs H) u). Qed.

Section Diagnostics.
  (* whatever function of (text, language, dictionaries, configurations, ignore list) the diagnostics are *)
  Variable D : Type.
  Variable diag : dargs -> D.
  Variable none : D.
  Definition shown (p : pub) : D := match p with PEmpty => none | PDiag a => diag a end.

  Corollary sequential_diag : forall h c w,
    seq_safeb h (world0 c) = true -> run_seq h (world0 c) = Some w ->
    forall u, shown (lastword w u) = shown (expected w u).
  Proof. intros h c w Hs H u. destruct (sequential h c w Hs H u) as [E _]. rewrite E. reflexivity. Qed.
End Diagnostics.

(* non-vacuity: a history with every kind of message (a source file WITH identifiers included) satisfies
   the side conditions and runs *)
Definition demo_history : list op :=
  [Open (UFile 0 0) LMarkdown (mktext 0 0) 1; Change (UFile 0 0) (mktext 1 0) 2; Save (UFile 0 0);
   AddUser 3 (UFile 0 0); AddFile 4 (UFile 0 0); Ignore (UFile 0 0) 1; RecordLint;
   CfgChange 1 [UFile 0 0]; Open (UUntitled 0) LUnknown (mktext 2 0) 1; Change (UUntitled 0) (mktext 3 0) 2;
   Open (UFile 0 1) LCode (mktext 4 7) 1; Change (UFile 0 1) (mktext 7 7) 2; Change (UFile 0 1) (mktext 8 9) 3; Save (UFile 0 1);
   CfgChange 2 []; Close (UFile 0 1);
   Open (UFile 1 0) LPlain (mktext 5 0) 1; Delete (TDir 1); Change (UFile 0 0) (mktext 6 0) 3].

Example demo_history_safe :
  seq_safeb demo_history (world0 0) = true /\
  exists w, run_seq demo_history (world0 0) = Some w /\
    lastword w (UFile 0 0) =
      PDiag (mkargs (mktext 6 0) LMarkdown (mkdict [3] [4] 0) (mkdict [3] [4] 0) 2 2 2 [1]) /\
    lastword w (UFile 0 1) = PEmpty /\ lastword w (UFile 1 0) = PEmpty.
Proof. split; [vm_compute; reflexivity|]. eexists. split; [vm_compute; reflexivity|]. repeat split; vm_compute; reflexivity. Qed.
