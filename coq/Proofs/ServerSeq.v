(* ServerSeq.v — C09, one handler at a time. *)
Require Import Base Server ServerLemmas.

Definition text_ok (lg : lang) (t : text) : bool :=
  match kind lg with KCode => t_ident t =? 0 | _ => true end.

Definition coh (w : world) (u : url) : Prop := pubval w u = expected w u.

Record Inv (w : world) : Prop := mkInv {
  inv_lock : s_lock w = false;
  inv_cfg : s_cfg w = w_ccfg w;
  inv_coh : forall u, coh w u;
  inv_fresh : forall u, fresh w u;
  inv_docs : forall u e, lookup u (s_docs w) = Some e -> e_text e <> None /\ e_lang e <> None /\ e_ident e = 0;
  inv_text : forall u cd, lookup u (w_open w) = Some cd -> text_ok (cd_lang cd) (cd_text cd) = true
}.

Definition cur_dict (w : world) (u : url) : dictv := mkdict (w_udict w) (fdict_of w u) 0.

Lemma entry_facts : forall w u e, Inv w -> lookup u (s_docs w) = Some e ->
  exists cd, lookup u (w_open w) = Some cd /\ e_lang e = Some (cd_lang cd) /\ kind (cd_lang cd) <> KNone /\
    e_text e = Some (cd_text cd) /\ e_dict e = cur_dict w u /\ e_lcfg e = w_ccfg w /\ e_pcfg e = w_ccfg w /\
    e_ign e = cd_ign cd /\ e_ident e = 0.
Proof.
  intros w u e I He. destruct (inv_docs w I u e He) as (Ht & Hl & Hi).
  pose proof (inv_coh w I u) as C. unfold coh, pubval, expected in C. rewrite He in C.
  destruct (e_text e) as [t|] eqn:Et; [|congruence]. destruct (e_lang e) as [lg|] eqn:El; [|congruence].
  destruct (lookup u (w_open w)) as [cd|] eqn:Eo; [|discriminate].
  pose proof (inv_text w I u cd Eo) as Tk. unfold text_ok in Tk.
  exists cd. destruct (kind (cd_lang cd)) eqn:Ek; try discriminate; inversion C; subst;
    (split; [reflexivity|]); rewrite ?Ek; repeat split; try congruence; try reflexivity.
  - unfold cur_dict. destruct (e_dict e); cbn in *. congruence.
  - apply Nat.eqb_eq in Tk. unfold cur_dict. destruct (e_dict e); cbn in *. congruence.
Qed.

Lemma no_entry_facts : forall w u, Inv w -> lookup u (s_docs w) = None ->
  match lookup u (w_open w) with Some cd => kind (cd_lang cd) = KNone | None => True end.
Proof.
  intros w u I He. pose proof (inv_coh w I u) as C. unfold coh, pubval, expected in C. rewrite He in C.
  destruct (lookup u (w_open w)) as [cd|]; [|exact Logic.I]. destruct (kind (cd_lang cd)); try discriminate. reflexivity.
Qed.

(* ---------- update_document, run without interruption ---------- *)
Definition installed (w : world) (u : url) (t : text) (lgo : option lang) : list (url * entry) :=
  let c := w_ccfg w in
  match lookup u (s_docs w) with
  | Some e => upsert u (e_set_doc t c (if dictv_eqb (e_dict e) (cur_dict w u) then e else e_set_dict (cur_dict w u) c e)) (s_docs w)
  | None =>
      match lgo with
      | Some lg =>
          match kind lg with
          | KNone => remove u (s_docs w)
          | _ => upsert u (e_set_doc t c (new_entry (Some lg) (cur_dict w u) c)) (s_docs w)
          end
      | None => remove u (s_docs w)
      end
  end.

Definition entry_cond (w : world) (u : url) (t : text) (lgo : option lang) : Prop :=
  match lookup u (s_docs w) with
  | Some e => exists lge, e_lang e = Some lge /\ kind lge <> KNone /\ (kind lge = KCode -> e_ident e = t_ident t)
  | None => forall lg, lgo = Some lg -> kind lg = KCode -> t_ident t = 0
  end.

Ltac fuel_step H :=
  match type of H with
  | run_prog (S _) (_ :: _) _ _ = Some _ => cbn [run_prog] in H
  | run_prog ?f (_ :: _) _ _ = Some _ => is_var f; destruct f as [|f]; [discriminate H|]; cbn [run_prog] in H
  end.
Ltac open_fuel H :=
  match type of H with run_prog ?f _ _ _ = _ => let f' := fresh "f" in let E := fresh "Ef" in remember f as f' eqn:E; clear E end.

Lemma update_run : forall f rest l w w' t,
  s_lock w = false -> l_text l = Some t -> entry_cond w (l_url l) t (l_lang l) ->
  run_prog f (update_seq ++ rest) l w = Some w' ->
  exists f' l', run_prog f' rest l' (set_docs (installed w (l_url l) t (l_lang l)) (set_scfg (w_ccfg w) w)) = Some w' /\
                l_url l' = l_url l /\ l_queue l' = l_queue l.
Proof.
  intros f rest l w w' t Hlock Ht EC H. unfold update_seq in H. cbn [app] in H.
  do 7 (fuel_step H; cbn [exec app] in H).
  cbn in H. rewrite Hlock, Ht in H.
  change (fdict_of (set_scfg (w_ccfg w) w) (l_url l)) with (fdict_of w (l_url l)) in H.
  fold (cur_dict w (l_url l)) in H.
  unfold entry_cond in EC. unfold installed.
  destruct (lookup (l_url l) (s_docs w)) as [e|] eqn:He.
  - destruct EC as (lge & Hl & Hk & Hi).
    destruct (dictv_eqb (e_dict e) (cur_dict w (l_url l))) eqn:Ed; cbn [e_lang e_set_dict e_ident] in H; rewrite Hl in H;
      (destruct (kind lge) eqn:Ek; [| |congruence]);
      rewrite ?(Hi eq_refl), ?Nat.eqb_refl in H; cbn [app] in H; do 2 eexists; (split; [exact H|]); split; reflexivity.
  - destruct (l_lang l) as [lg|] eqn:El; cbn [new_entry e_dict e_lang] in H; rewrite dictv_eqb_refl in H; cbn [new_entry e_lang e_ident] in H.
    + destruct (kind lg) eqn:Ek.
      * cbn [app] in H. do 2 eexists. split; [exact H|]. split; reflexivity.
      * rewrite (EC lg eq_refl Ek) in H. cbn [Nat.eqb app] in H.
        do 2 eexists. split; [exact H|]. split; reflexivity.
      * cbn [app] in H. do 2 eexists. split; [exact H|]. split; reflexivity.
    + cbn [app] in H. do 2 eexists. split; [exact H|]. split; reflexivity.
Qed.

(* ---------- what one update + publish does to the invariant ---------- *)
Definition others_ok (w : world) (u : url) : Prop := forall v, v <> u -> coh w v /\ fresh w v.
Definition docs_ok (w : world) : Prop :=
  forall v e, lookup v (s_docs w) = Some e -> e_text e <> None /\ e_lang e <> None /\ e_ident e = 0.
Definition texts_ok (w : world) : Prop :=
  forall v cd, lookup v (w_open w) = Some cd -> text_ok (cd_lang cd) (cd_text cd) = true.

(* the state of document u just before an update that installs text t with language argument lgo *)
Definition ready (w : world) (u : url) (t : text) (lgo : option lang) : Prop :=
  match lookup u (w_open w) with
  | Some cd =>
      match lookup u (s_docs w) with
      | Some e => cd_text cd = t /\ e_lang e = Some (cd_lang cd) /\ kind (cd_lang cd) <> KNone /\
                  (e_dict e = cur_dict w u -> e_lcfg e = w_ccfg w) /\ e_ign e = cd_ign cd
      | None => (cd_text cd = t /\ lgo = Some (cd_lang cd) /\ cd_ign cd = []) \/
                (kind (cd_lang cd) = KNone /\ (lgo = None \/ lgo = Some (cd_lang cd)))
      end
  | None => lookup u (s_docs w) = None /\ lgo = None
  end.

Lemma pubval_send : forall w v p u, pubval (send v p w) u = pubval w u.
Proof. reflexivity. Qed.
Lemma expected_send : forall w v p u, expected (send v p w) u = expected w u.
Proof. reflexivity. Qed.

(* the world after update + publish of u, piece by piece *)
Lemma install_spec : forall w u t lgo,
  s_lock w = false -> s_cfg w = w_ccfg w -> docs_ok w -> texts_ok w -> ready w u t lgo ->
  let w1 := set_docs (installed w u t lgo) (set_scfg (w_ccfg w) w) in
  let w2 := send u (pubval w1 u) w1 in
  (coh w2 u /\ fresh w2 u) /\ docs_ok w2 /\
  (forall v, v <> u -> lookup v (s_docs w2) = lookup v (s_docs w) /\ pubval w2 v = pubval w v /\ lastword w2 v = lastword w v) /\
  (forall v, expected w2 v = expected w v).
Proof.
  intros w u t lgo Hl Hc Hd Ht Hr w1 w2.
  assert (Hexp : forall v, expected w2 v = expected w v) by reflexivity.
  assert (Hlk : forall v, v <> u -> lookup v (s_docs w2) = lookup v (s_docs w)).
  { intros v Hv. apply url_eqb_neq in Hv. change (s_docs w2) with (installed w u t lgo). unfold installed.
    destruct (lookup u (s_docs w)) as [e|]; [rewrite lookup_upsert_neq by exact Hv; reflexivity|].
    destruct lgo as [lg|]; [destruct (kind lg)|]; rewrite ?lookup_upsert_neq, ?lookup_remove_neq by exact Hv; reflexivity. }
  assert (Hpv : forall v, v <> u -> pubval w2 v = pubval w v).
  { intros v Hv. unfold pubval. rewrite (Hlk v Hv). change (s_cfg w2) with (w_ccfg w). rewrite <- Hc. reflexivity. }
  assert (Hcu : pubval w1 u = expected w u).
  { unfold ready in Hr. unfold pubval, expected, w1, installed. cbn [s_docs set_docs s_cfg set_scfg].
    destruct (lookup u (w_open w)) as [cd|] eqn:Eo.
    - pose proof (Ht u cd Eo) as Tk. unfold text_ok in Tk.
      destruct (lookup u (s_docs w)) as [e|] eqn:Ee.
      + destruct Hr as (Htx & H1 & H2 & H4 & H5). rewrite lookup_upsert_eq.
        assert (Hid : (match kind (cd_lang cd) with KCode => t_ident (cd_text cd) | _ => 0 end) = 0).
        { destruct (kind (cd_lang cd)); try reflexivity. apply Nat.eqb_eq in Tk. exact Tk. }
        destruct (dictv_eqb (e_dict e) (cur_dict w u)) eqn:Ed.
        * apply dictv_eqb_eq in Ed. cbn. rewrite H1, Ed, (H4 Ed), H5, Htx.
          destruct (kind (cd_lang cd)) eqn:Ek; [reflexivity| |congruence].
          rewrite <- Htx, Hid. reflexivity.
        * cbn. rewrite H1, H5, Htx.
          destruct (kind (cd_lang cd)) eqn:Ek; [reflexivity| |congruence].
          rewrite <- Htx, Hid. reflexivity.
      + destruct Hr as [(Htx & H1 & H2)|[H1 H2]].
        * subst lgo. destruct (kind (cd_lang cd)) eqn:Ek; rewrite ?lookup_upsert_eq, ?lookup_remove_eq; cbn; rewrite ?H2, ?Htx; try reflexivity.
          rewrite <- Htx. apply Nat.eqb_eq in Tk. rewrite Tk. reflexivity.
        * rewrite H1. destruct H2 as [->| ->]; rewrite ?H1, lookup_remove_eq; reflexivity.
    - destruct Hr as [H1 H2]. subst lgo. rewrite H1. rewrite lookup_remove_eq. reflexivity. }
  split; [|split; [|split]].
  - split; [exact Hcu|]. unfold fresh, w2. rewrite lastword_send, url_eqb_refl. exact Hcu.
  - intros v e He. change (s_docs w2) with (installed w u t lgo) in He.
    unfold installed in He.
    destruct (url_eq_dec v u) as [->|Hv].
    + destruct (lookup u (s_docs w)) as [e0|] eqn:Ee.
      * rewrite lookup_upsert_eq in He. inversion He; subst e. destruct (Hd u e0 Ee) as (A & B & C).
        destruct (dictv_eqb (e_dict e0) (cur_dict w u)); cbn; repeat split; solve [discriminate|exact B|exact C].
      * destruct lgo as [lg|]; [destruct (kind lg)|]; rewrite ?lookup_upsert_eq, ?lookup_remove_eq in He; try discriminate;
          inversion He; subst e; cbn; repeat split; discriminate.
    + apply url_eqb_neq in Hv.
      destruct (lookup u (s_docs w)) as [e0|]; [rewrite lookup_upsert_neq in He by exact Hv; exact (Hd v e He)|].
      destruct lgo as [lg|]; [destruct (kind lg)|]; rewrite ?lookup_upsert_neq, ?lookup_remove_neq in He by exact Hv; exact (Hd v e He).
  - intros v Hv. split; [exact (Hlk v Hv)|]. split; [exact (Hpv v Hv)|].
    unfold w2. rewrite lastword_send. apply url_eqb_neq in Hv. rewrite Hv. reflexivity.
  - exact Hexp.
Qed.

Lemma install_inv : forall w u t lgo,
  s_lock w = false -> s_cfg w = w_ccfg w -> others_ok w u -> docs_ok w -> texts_ok w -> ready w u t lgo ->
  let w1 := set_docs (installed w u t lgo) (set_scfg (w_ccfg w) w) in
  Inv (send u (pubval w1 u) w1).
Proof.
  intros w u t lgo Hl Hc Ho Hd Ht Hr w1.
  destruct (install_spec w u t lgo Hl Hc Hd Ht Hr) as ((Cu & Fu) & Hd2 & Hfr & Hexp).
  fold w1 in Cu, Fu, Hd2, Hfr, Hexp.
  constructor.
  - exact Hl.
  - reflexivity.
  - intro v. destruct (url_eq_dec v u) as [->|Hv]; [exact Cu|].
    unfold coh. destruct (Hfr v Hv) as (_ & P & _). rewrite P, Hexp. apply Ho, Hv.
  - intro v. destruct (url_eq_dec v u) as [->|Hv]; [exact Fu|].
    unfold fresh. destruct (Hfr v Hv) as (_ & _ & L). rewrite L, Hexp. apply Ho, Hv.
  - exact Hd2.
  - exact Ht.
Qed.

Lemma upd_pub_run : forall f rest l w w' t,
  s_lock w = false -> l_text l = Some t -> entry_cond w (l_url l) t (l_lang l) ->
  run_prog f (update_seq ++ IPublish :: rest) l w = Some w' ->
  let w1 := set_docs (installed w (l_url l) t (l_lang l)) (set_scfg (w_ccfg w) w) in
  exists f' l', run_prog f' rest l' (send (l_url l) (pubval w1 (l_url l)) w1) = Some w' /\
                l_url l' = l_url l /\ l_queue l' = l_queue l.
Proof.
  intros f rest l w w' t Hl Ht EC H w1.
  destruct (update_run _ _ _ _ _ _ Hl Ht EC H) as (f1 & l1 & H1 & Hu & Hq).
  fuel_step H1. cbn [exec] in H1. fold w1 in H1.
  change (s_lock w1) with (s_lock w) in H1. rewrite Hl in H1. cbn [app] in H1. rewrite Hu in H1.
  exists f1, l1. split; [exact H1|]. split; assumption.
Qed.

Lemma publish_inv : forall w u, Inv w -> Inv (send u (pubval w u) w).
Proof.
  intros w u I. constructor.
  - exact (inv_lock w I).
  - exact (inv_cfg w I).
  - intro v. exact (inv_coh w I v).
  - intro v. unfold fresh. rewrite lastword_send, expected_send.
    destruct (url_eqb v u) eqn:E; [apply url_eqb_eq in E; subst; exact (inv_coh w I u)|exact (inv_fresh w I v)].
  - exact (inv_docs w I).
  - exact (inv_text w I).
Qed.

(* ---------- the side conditions of the sequential theorem ---------- *)
Definition clean (w : world) (u : url) : bool :=
  is_file u &&
  match lookup u (w_open w), lookup u (w_disk w) with
  | Some cd, Some t => text_eqb t (cd_text cd)
  | _, _ => false
  end.
(* a handler that re-reads u from disk does no harm: u is not open, or has no parser, or is saved *)
Definition reread_ok (w : world) (u : url) : bool :=
  match lookup u (w_open w) with
  | None => true
  | Some cd => match kind (cd_lang cd) with KNone => true | _ => clean w u end
  end.
Definition others_closed (w : world) (u : url) : bool :=
  forallb (fun kv => url_eqb (fst kv) u || match kind (cd_lang (snd kv)) with KNone => true | _ => false end) (w_open w).

Definition op_safeb (w : world) (o : op) : bool :=
  match o with
  | Open u l t => match lookup u (w_open w) with None => text_ok l t | Some _ => false end
  | Change u t => match lookup u (w_open w) with Some cd => text_ok (cd_lang cd) t | None => false end
  | Save _ | Close _ | Delete _ | Ignore _ _ | RecordLint => true
  | AddUser x u => reread_ok w u && (existsb (Nat.eqb x) (w_udict w) || others_closed w u)
  | AddFile x u => reread_ok w u || negb (is_file u)
  | CfgChange c order => forallb (fun kv => reread_ok w (fst kv)) (w_open w)
  end.

Lemma text_eqb_eq : forall a b, text_eqb a b = true -> a = b.
Proof.
  intros [a1 a2] [b1 b2]. unfold text_eqb. cbn. intro H. apply andb_true_iff in H as [H1 H2].
  apply Nat.eqb_eq in H1, H2. subst. reflexivity.
Qed.

Lemma lookup_In : forall {V} u (m : list (url * V)) v, lookup u m = Some v -> exists k, In (k, v) m /\ url_eqb u k = true.
Proof.
  induction m as [|[k v'] m IH]; cbn; intros v H; [discriminate|].
  destruct (url_eqb u k) eqn:E.
  - inversion H; subst. exists k. split; [left; reflexivity|exact E].
  - destruct (IH v H) as (k' & Hin & Ek). exists k'. split; [right; exact Hin|exact Ek].
Qed.

(* Inv, restated with the pieces install_inv wants *)
Lemma inv_others : forall w u, Inv w -> others_ok w u.
Proof. intros w u I v _. split; [exact (inv_coh w I v)|exact (inv_fresh w I v)]. Qed.

(* ---------- didOpen ---------- *)
Lemma inv_open : forall w u l t w', Inv w -> op_safeb w (Open u l t) = true ->
  run_op (Open u l t) w = Some w' -> Inv w'.
Proof.
  intros w u l t w' I Hs H. unfold run_op in H. cbn [prog locals_of] in H.
  cbn [op_safeb] in Hs. destruct (lookup u (w_open w)) as [cd0|] eqn:Eo; [discriminate|].
  set (w0 := client_effect (Open u l t) w) in *.
  assert (Hno : lookup u (s_docs w) = None).
  { destruct (lookup u (s_docs w)) as [e|] eqn:Ee; [|reflexivity].
    destruct (entry_facts w u e I Ee) as (cd & Hc & _). congruence. }
  assert (Hl : s_lock w0 = false) by exact (inv_lock w I).
  assert (EC : entry_cond w0 u t (Some l)).
  { unfold entry_cond. change (s_docs w0) with (s_docs w). rewrite Hno. intros lg E Hk. inversion E; subst lg.
    unfold text_ok in Hs. rewrite Hk in Hs. apply Nat.eqb_eq, Hs. }
  destruct (upd_pub_run _ [] (lset_lang (Some l) (lset_text (Some t) (loc0 u))) w0 w' t Hl eq_refl EC H) as (f' & l' & H1 & _ & _).
  cbn [l_url lset_lang lset_text loc0 l_lang] in H1.
  assert (Hw' : send u (pubval (set_docs (installed w0 u t (Some l)) (set_scfg (w_ccfg w0) w0)) u) (set_docs (installed w0 u t (Some l)) (set_scfg (w_ccfg w0) w0)) = w')
    by (destruct f'; cbn [run_prog] in H1; inversion H1; reflexivity).
  subst w'. apply (install_inv w0 u t (Some l)).
  - exact Hl.
  - exact (inv_cfg w I).
  - intros v Hv. apply url_eqb_neq in Hv. destruct (inv_others w u I v) as [C F]; [apply url_eqb_neq, Hv|].
    unfold coh, fresh, pubval, expected, lastword in *. unfold w0. cbn [client_effect w_open set_open s_docs s_log s_cfg w_udict w_ccfg].
    unfold fdict_of in *. cbn [w_fdict set_open]. rewrite lookup_upsert_neq by exact Hv. split; assumption.
  - exact (inv_docs w I).
  - intros v cd Hv. unfold w0 in Hv. cbn [client_effect w_open set_open] in Hv. rewrite lookup_upsert in Hv.
    destruct (url_eqb v u); [inversion Hv; subst cd; exact Hs|exact (inv_text w I v cd Hv)].
  - unfold ready. unfold w0. cbn [client_effect w_open set_open s_docs]. rewrite lookup_upsert_eq, Hno. cbn.
    left. repeat split.
Qed.

Lemma run_nil : forall f l w w', run_prog f [] l w = Some w' -> w' = w.
Proof. intros. destruct f; cbn in H; inversion H; reflexivity. Qed.

Lemma others_ok_upsert_open : forall w u cd, Inv w -> others_ok (set_open (upsert u cd (w_open w)) w) u.
Proof.
  intros w u cd I v Hv. apply url_eqb_neq in Hv. pose proof (inv_coh w I v) as C. pose proof (inv_fresh w I v) as F.
  unfold coh, fresh, pubval, expected, lastword, fdict_of in *. cbn [w_open set_open s_docs s_log s_cfg w_udict w_ccfg w_fdict].
  rewrite lookup_upsert_neq by exact Hv. split; assumption.
Qed.

Lemma others_ok_remove_open : forall w u, Inv w -> others_ok (set_open (remove u (w_open w)) w) u.
Proof.
  intros w u I v Hv. apply url_eqb_neq in Hv. pose proof (inv_coh w I v) as C. pose proof (inv_fresh w I v) as F.
  unfold coh, fresh, pubval, expected, lastword, fdict_of in *. cbn [w_open set_open s_docs s_log s_cfg w_udict w_ccfg w_fdict].
  rewrite lookup_remove_neq by exact Hv. split; assumption.
Qed.

Lemma texts_ok_upsert_open : forall w u cd, Inv w -> text_ok (cd_lang cd) (cd_text cd) = true ->
  texts_ok (set_open (upsert u cd (w_open w)) w).
Proof.
  intros w u cd I Hk v cd' Hv. cbn [w_open set_open] in Hv. rewrite lookup_upsert in Hv.
  destruct (url_eqb v u); [inversion Hv; subst cd'; exact Hk|exact (inv_text w I v cd' Hv)].
Qed.

(* ---------- didChange ---------- *)
Lemma inv_change : forall w u t w', Inv w -> op_safeb w (Change u t) = true ->
  run_op (Change u t) w = Some w' -> Inv w'.
Proof.
  intros w u t w' I Hs H. unfold run_op in H. cbn [prog locals_of] in H.
  cbn [op_safeb] in Hs. destruct (lookup u (w_open w)) as [cd|] eqn:Eo; [|discriminate].
  assert (Ew0 : client_effect (Change u t) w = set_open (upsert u (mkcdoc (cd_lang cd) t (cd_ign cd)) (w_open w)) w)
    by (cbn [client_effect]; rewrite Eo; reflexivity).
  rewrite Ew0 in H. set (w0 := set_open _ w) in *.
  assert (Hl : s_lock w0 = false) by exact (inv_lock w I).
  assert (EC : entry_cond w0 u t None).
  { unfold entry_cond. change (s_docs w0) with (s_docs w).
    destruct (lookup u (s_docs w)) as [e|] eqn:Ee; [|intros lg E; discriminate].
    destruct (entry_facts w u e I Ee) as (cd' & Hc & H1 & H2 & H3 & H4 & H5 & H6 & H7 & H8).
    rewrite Eo in Hc. inversion Hc; subst cd'. exists (cd_lang cd). repeat split; try assumption.
    intro Hk. unfold text_ok in Hs. rewrite Hk in Hs. apply Nat.eqb_eq in Hs. congruence. }
  destruct (upd_pub_run _ [] (lset_text (Some t) (loc0 u)) w0 w' t Hl eq_refl EC H) as (f' & l' & H1 & _ & _).
  cbn [l_url lset_lang lset_text loc0 l_lang] in H1. apply run_nil in H1. subst w'.
  apply (install_inv w0 u t None).
  - exact Hl.
  - exact (inv_cfg w I).
  - apply others_ok_upsert_open, I.
  - exact (inv_docs w I).
  - apply texts_ok_upsert_open; [exact I|exact Hs].
  - unfold ready. unfold w0. cbn [w_open set_open s_docs]. rewrite lookup_upsert_eq. cbn [cd_text cd_lang cd_ign].
    destruct (lookup u (s_docs w)) as [e|] eqn:Ee.
    + destruct (entry_facts w u e I Ee) as (cd' & Hc & H1 & H2 & H3 & H4 & H5 & H6 & H7 & H8).
      rewrite Eo in Hc. inversion Hc; subst cd'. repeat split; try assumption. intros _. exact H5.
    + right. pose proof (no_entry_facts w u I Ee) as N. rewrite Eo in N. split; [exact N|left; reflexivity].
Qed.

(* ---------- handlers that re-read the document from disk ---------- *)
Definition pre (w : world) (u : url) : Prop :=
  s_lock w = false /\ s_cfg w = w_ccfg w /\ others_ok w u /\ docs_ok w /\ texts_ok w.

Definition reread_ready (w : world) (u : url) : Prop :=
  if is_file u then
    match lookup u (w_disk w) with
    | Some t => ready w u t None /\ entry_cond w u t None
    | None => coh w u
    end
  else coh w u.

Lemma pre_coh_inv : forall w u, pre w u -> coh w u -> Inv (send u (pubval w u) w).
Proof.
  intros w u (Hl & Hc & Ho & Hd & Ht) C. constructor; try assumption.
  - intro v. destruct (url_eq_dec v u) as [->|Hv]; [exact C|apply Ho, Hv].
  - intro v. unfold fresh. rewrite lastword_send, expected_send.
    destruct (url_eqb v u) eqn:E; [apply url_eqb_eq in E; subst; exact C|apply url_eqb_neq in E; apply Ho, E].
Qed.

Lemma reread_run : forall f rest l w w' u,
  run_prog f (IReadFile :: IPublish :: rest) l w = Some w' ->
  l_url l = u -> pre w u -> reread_ready w u ->
  exists f' l' w1, run_prog f' rest l' w1 = Some w' /\ Inv w1 /\ l_queue l' = l_queue l.
Proof.
  intros f rest l w w' u H Hu P R. destruct P as (Hl & Hc & Ho & Hd & Ht).
  fuel_step H. cbn [exec] in H. rewrite Hu in H. unfold reread_ready in R.
  destruct (is_file u) eqn:Ef.
  - destruct (lookup u (w_disk w)) as [t|] eqn:Ed.
    + destruct R as [R EC].
      change (update_seq ++ IPublish :: rest) with (update_seq ++ IPublish :: rest) in H.
      set (l1 := lset_lang None (lset_text (Some t) l)) in *.
      assert (Hu1 : l_url l1 = u) by exact Hu.
      assert (EC1 : entry_cond w (l_url l1) t (l_lang l1)) by (rewrite Hu1; exact EC).
      destruct (upd_pub_run _ rest l1 w w' t Hl eq_refl EC1 H) as (f' & l' & H1 & _ & Hq).
      rewrite Hu1 in H1. cbn [l_lang l1 lset_lang] in H1.
      exists f', l', (send u (pubval (set_docs (installed w u t None) (set_scfg (w_ccfg w) w)) u) (set_docs (installed w u t None) (set_scfg (w_ccfg w) w))).
      split; [exact H1|]. split; [apply install_inv; assumption|exact Hq].
    + cbn [app] in H. fuel_step H. cbn [exec] in H. rewrite Hl, Hu in H. cbn [app] in H.
      exists f, l, (send u (pubval w u) w). split; [exact H|]. split; [apply pre_coh_inv; [exact (conj Hl (conj Hc (conj Ho (conj Hd Ht))))|exact R]|reflexivity].
  - cbn [app] in H. fuel_step H. cbn [exec] in H. rewrite Hl, Hu in H. cbn [app] in H.
    exists f, l, (send u (pubval w u) w). split; [exact H|]. split; [apply pre_coh_inv; [exact (conj Hl (conj Hc (conj Ho (conj Hd Ht))))|exact R]|reflexivity].
Qed.

(* ready/entry_cond for a re-read, from the invariant of a world that differs at most in files *)
Lemma inv_ready_gen : forall w wd u t, Inv w ->
  w_open wd = w_open w -> s_docs wd = s_docs w -> w_ccfg wd = w_ccfg w ->
  match lookup u (w_open w) with Some cd => kind (cd_lang cd) = KNone \/ cd_text cd = t | None => True end ->
  ready wd u t None /\ entry_cond wd u t None.
Proof.
  intros w wd u t I Eo Ed Ec Hx. unfold ready, entry_cond. rewrite Eo, Ed, Ec.
  destruct (lookup u (s_docs w)) as [e|] eqn:Ee.
  - destruct (entry_facts w u e I Ee) as (cd & Hc & H1 & H2 & H3 & H4 & H5 & H6 & H7 & H8).
    rewrite Hc in *. destruct Hx as [Hx|Hx]; [congruence|].
    split; [repeat split; try assumption; intros _; exact H5|].
    exists (cd_lang cd). repeat split; try assumption.
    intro Hk. pose proof (inv_text w I u cd Hc) as Tk. unfold text_ok in Tk. rewrite Hk in Tk.
    apply Nat.eqb_eq in Tk. congruence.
  - pose proof (no_entry_facts w u I Ee) as N. destruct (lookup u (w_open w)) as [cd|].
    + split; [right; split; [exact N|left; reflexivity]|intros lg E; discriminate].
    + split; [split; reflexivity|intros lg E; discriminate].
Qed.

Lemma inv_pre : forall w u, Inv w -> pre w u.
Proof.
  intros w u I. exact (conj (inv_lock w I) (conj (inv_cfg w I) (conj (inv_others w u I) (conj (inv_docs w I) (inv_text w I))))).
Qed.

(* Inv does not mention the documents on disk *)
Lemma inv_set_disk : forall w d, Inv w -> Inv (set_disk d w).
Proof. intros w d I. constructor; [exact (inv_lock w I)|exact (inv_cfg w I)|exact (inv_coh w I)|exact (inv_fresh w I)|exact (inv_docs w I)|exact (inv_text w I)]. Qed.

(* ---------- didSave ---------- *)
Lemma inv_save : forall w u w', Inv w -> run_op (Save u) w = Some w' -> Inv w'.
Proof.
  intros w u w' I H. unfold run_op in H. cbn [prog locals_of] in H.
  set (w0 := client_effect (Save u) w) in *.
  assert (I0 : Inv w0).
  { unfold w0. cbn [client_effect]. destruct (lookup u (w_open w)); [destruct (is_file u)|]; try exact I. apply inv_set_disk, I. }
  assert (R : reread_ready w0 u).
  { unfold reread_ready. destruct (is_file u) eqn:Ef; [|exact (inv_coh w0 I0 u)].
    destruct (lookup u (w_disk w0)) as [t|] eqn:Ed; [|exact (inv_coh w0 I0 u)].
    apply (inv_ready_gen w0 w0 u t I0); try reflexivity.
    destruct (lookup u (w_open w0)) as [cd|] eqn:Eo; [|exact Logic.I]. right.
    unfold w0 in Ed, Eo. cbn [client_effect] in Ed, Eo. destruct (lookup u (w_open w)) as [cd'|] eqn:Eo'.
    - rewrite Ef in Ed, Eo. cbn [w_open set_disk w_disk] in Ed, Eo. rewrite lookup_upsert_eq in Ed. congruence.
    - congruence. }
  destruct (reread_run _ [] _ w0 w' u H eq_refl (inv_pre w0 u I0) R) as (f' & l' & w1 & H1 & I1 & _).
  apply run_nil in H1. subst w'. exact I1.
Qed.

(* ---------- didClose ---------- *)
Lemma inv_close : forall w u w', Inv w -> run_op (Close u) w = Some w' -> Inv w'.
Proof.
  intros w u w' I H. unfold run_op in H. cbn [prog locals_of client_effect] in H. open_fuel H.
  fuel_step H. cbn [exec] in H. cbn [s_lock set_open] in H. rewrite (inv_lock w I) in H. cbn [app] in H.
  fuel_step H. cbn [exec app] in H. apply run_nil in H. subst w'. cbn [loc0 l_url].
  constructor.
  - reflexivity.
  - exact (inv_cfg w I).
  - intro v. pose proof (inv_coh w I v) as C. unfold coh, pubval, expected, fdict_of in *.
    cbn [s_docs set_lock send set_log set_docs set_open w_open s_cfg w_udict w_fdict w_ccfg].
    rewrite !lookup_remove. destruct (url_eqb v u); [reflexivity|exact C].
  - intro v. pose proof (inv_fresh w I v) as F. unfold fresh in *. 
    change (lastword (set_lock false (set_lock true (send u PEmpty (set_docs (remove u (s_docs (set_open (remove u (w_open w)) w))) (set_open (remove u (w_open w)) w))))) v)
      with (lastword (send u PEmpty w) v).
    rewrite lastword_send. unfold expected, fdict_of in *. cbn [set_lock send set_log set_docs set_open w_open w_udict w_fdict w_ccfg].
    rewrite lookup_remove. destruct (url_eqb v u); [reflexivity|exact F].
  - intros v e He. cbn [s_docs set_lock send set_log set_docs set_open] in He. rewrite lookup_remove in He.
    destruct (url_eqb v u); [discriminate|exact (inv_docs w I v e He)].
  - intros v cd Hv. cbn [set_lock send set_log set_docs set_open w_open] in Hv. rewrite lookup_remove in Hv.
    destruct (url_eqb v u); [discriminate|exact (inv_text w I v cd Hv)].
Qed.

(* ---------- HarperRecordLint ---------- *)
Lemma inv_record : forall w w', Inv w -> run_op RecordLint w = Some w' -> Inv w'.
Proof.
  intros w w' I H. unfold run_op in H. cbn [prog locals_of client_effect] in H. open_fuel H.
  fuel_step H. cbn [exec app] in H. apply run_nil in H. subst w'. exact I.
Qed.

(* ---------- HarperIgnoreLint ---------- *)
Lemma inv_ignore : forall w u k w', Inv w -> run_op (Ignore u k) w = Some w' -> Inv w'.
Proof.
  intros w u k w' I H. unfold run_op in H. cbn [prog locals_of] in H.
  set (w0 := client_effect (Ignore u k) w) in *.
  assert (Hd0 : s_docs w0 = s_docs w) by (unfold w0; cbn [client_effect]; destruct (lookup u (w_open w)); reflexivity).
  assert (Hl0 : s_lock w0 = false) by (unfold w0; cbn [client_effect]; destruct (lookup u (w_open w)); exact (inv_lock w I)).
  open_fuel H. fuel_step H. cbn [exec] in H. rewrite Hl0, Hd0 in H. cbn [loc0 l_url] in H.
  destruct (lookup u (s_docs w)) as [e|] eqn:Ee.
  - destruct (entry_facts w u e I Ee) as (cd & Hc & H1 & H2 & H3 & H4 & H5 & H6 & H7 & H8).
    cbn [app] in H. fuel_step H. cbn [exec] in H. cbn [s_lock set_docs] in H. rewrite Hl0 in H. cbn [app l_url loc0] in H.
    apply run_nil in H. subst w'.
    assert (Ew0 : w0 = set_open (upsert u (mkcdoc (cd_lang cd) (cd_text cd) (ins k (cd_ign cd))) (w_open w)) w)
      by (unfold w0; cbn [client_effect]; rewrite Hc; reflexivity).
    rewrite Ew0.
    set (w1 := set_docs _ _).
    assert (Cu : pubval w1 u = expected w1 u).
    { unfold pubval, expected, w1, fdict_of. cbn [s_docs set_docs set_open w_open s_cfg w_udict w_fdict w_ccfg].
      rewrite !lookup_upsert_eq. cbn. rewrite H1, H3, H4, H5, H6, H7, (inv_cfg w I).
      unfold cur_dict, fdict_of.
      pose proof (inv_text w I u cd Hc) as Tk. unfold text_ok in Tk.
      destruct (kind (cd_lang cd)) eqn:Ek; [reflexivity| |congruence]. apply Nat.eqb_eq in Tk. rewrite Tk. reflexivity. }
    constructor.
    + exact (inv_lock w I).
    + exact (inv_cfg w I).
    + intro v. destruct (url_eq_dec v u) as [->|Hv]; [exact Cu|]. apply url_eqb_neq in Hv.
      pose proof (inv_coh w I v) as C. unfold coh, pubval, expected, fdict_of, w1 in *.
      cbn [send set_log s_docs set_docs set_open w_open s_cfg w_udict w_fdict w_ccfg].
      rewrite !lookup_upsert_neq by exact Hv. exact C.
    + intro v. unfold fresh. rewrite lastword_send, expected_send.
      destruct (url_eqb v u) eqn:E; [apply url_eqb_eq in E; subst; exact Cu|].
      pose proof (inv_fresh w I v) as F. unfold fresh, expected, fdict_of, w1 in *.
      cbn [s_docs set_docs set_open w_open s_cfg w_udict w_fdict w_ccfg].
      rewrite lookup_upsert_neq by exact E. exact F.
    + intros v e' He. unfold w1 in He. cbn [send set_log s_docs set_docs] in He. rewrite lookup_upsert in He.
      destruct (url_eqb v u); [inversion He; subst e'; cbn; destruct (inv_docs w I u e Ee) as (A & B & C); repeat split; assumption|exact (inv_docs w I v e' He)].
    + apply (texts_ok_upsert_open w u _ I). cbn. exact (inv_text w I u cd Hc).
  - cbn [app] in H. apply run_nil in H. subst w'.
    pose proof (no_entry_facts w u I Ee) as N.
    unfold w0. cbn [client_effect]. destruct (lookup u (w_open w)) as [cd|] eqn:Eo; [|exact I].
    constructor.
    + exact (inv_lock w I).
    + exact (inv_cfg w I).
    + intro v. pose proof (inv_coh w I v) as C. unfold coh, pubval, expected, fdict_of in *.
      cbn [s_docs set_open w_open s_cfg w_udict w_fdict w_ccfg]. rewrite lookup_upsert.
      destruct (url_eqb v u) eqn:E; [|exact C]. apply url_eqb_eq in E. subst v. rewrite Ee. cbn. rewrite N. reflexivity.
    + intro v. pose proof (inv_fresh w I v) as F. unfold fresh, lastword, expected, fdict_of in *.
      cbn [s_log set_open w_open s_cfg w_udict w_fdict w_ccfg]. rewrite lookup_upsert.
      destruct (url_eqb v u) eqn:E; [|exact F]. apply url_eqb_eq in E. subst v. rewrite Eo, N in F. cbn. rewrite N. exact F.
    + exact (inv_docs w I).
    + apply (texts_ok_upsert_open w u _ I). cbn. exact (inv_text w I u cd Eo).
Qed.

(* ---------- didChangeWatchedFiles ---------- *)
Definition send_all (q : list url) (w : world) : world := fold_left (fun w v => send v PEmpty w) q w.

Lemma send_all_log : forall q w, send_all q w = set_log (rev (map (fun v => (v, PEmpty)) q) ++ s_log w) w.
Proof.
  induction q as [|v q IH]; intro w; cbn.
  - destruct w; reflexivity.
  - unfold send_all in IH. rewrite IH. unfold send. cbn. rewrite <- app_assoc. reflexivity.
Qed.

Lemma last_pub_app : forall u a b, last_pub u (a ++ b) = match last_pub u a with Some p => Some p | None => last_pub u b end.
Proof.
  induction a as [|[k p] a IH]; intro b; cbn; [reflexivity|]. destruct (url_eqb u k); [reflexivity|apply IH].
Qed.

Lemma last_pub_empties : forall u q,
  last_pub u (rev (map (fun v => (v, PEmpty)) q)) = if mem_url u q then Some PEmpty else None.
Proof.
  induction q as [|v q IH]; [reflexivity|]. cbn [map rev]. rewrite last_pub_app, IH.
  change (mem_url u (v :: q)) with (url_eqb u v || mem_url u q).
  destruct (mem_url u q); cbn [last_pub].
  - rewrite orb_true_r. reflexivity.
  - rewrite orb_false_r. destruct (url_eqb u v); reflexivity.
Qed.

Lemma lastword_send_all : forall q w u, lastword (send_all q w) u = if mem_url u q then PEmpty else lastword w u.
Proof.
  intros. rewrite send_all_log. unfold lastword. cbn [s_log set_log]. rewrite last_pub_app, last_pub_empties.
  destruct (mem_url u q); reflexivity.
Qed.

Lemma delsend_run : forall q f rest l w w',
  l_queue l = q -> run_prog f (map (fun _ => IDelSend) q ++ rest) l w = Some w' ->
  exists f' l', run_prog f' rest l' (send_all q w) = Some w'.
Proof.
  induction q as [|v q IH]; intros f rest l w w' Hq H.
  - exists f, l. exact H.
  - cbn [map app] in H. fuel_step H. cbn [exec] in H. rewrite Hq in H. cbn [app] in H.
    apply IH in H; [|reflexivity]. exact H.
Qed.

Lemma lookup_filter_matches : forall {V} tg u (m : list (url * V)),
  lookup u (filter (fun kv => negb (matches tg (fst kv))) m) = if matches tg u then None else lookup u m.
Proof.
  intros. pose proof (lookup_filter_key (fun k => negb (matches tg k)) u m) as H. cbn beta in H. rewrite H.
  destruct (matches tg u); reflexivity.
Qed.

Lemma inv_delete : forall w tg w', Inv w -> run_op (Delete tg) w = Some w' -> Inv w'.
Proof.
  intros w tg w' I H. unfold run_op in H. cbn [prog locals_of client_effect] in H. open_fuel H.
  fuel_step H. cbn [exec] in H. cbn [s_lock set_open set_disk s_docs] in H. rewrite (inv_lock w I) in H.
  set (gone := filter (matches tg) (keys (s_docs w))) in *.
  apply delsend_run in H; [|reflexivity]. destruct H as (f' & l' & H).
  fuel_step H. cbn [exec app] in H. apply run_nil in H. subst w'.
  rewrite send_all_log. 
  assert (Hgone : forall v, mem_url v gone = true <-> (matches tg v = true /\ In v (keys (s_docs w)))).
  { intro v. rewrite mem_url_In. unfold gone. rewrite filter_In. tauto. }
  constructor.
  - reflexivity.
  - exact (inv_cfg w I).
  - intro v. pose proof (inv_coh w I v) as C. unfold coh, pubval, expected, fdict_of in *.
    cbn [s_docs set_lock set_log set_docs set_open set_disk w_open s_cfg w_udict w_fdict w_ccfg].
    rewrite !lookup_filter_matches. destruct (matches tg v); [reflexivity|exact C].
  - intro v. pose proof (inv_fresh w I v) as F. pose proof (inv_coh w I v) as C. unfold fresh.
    match goal with |- lastword ?W v = expected ?W v =>
      assert (Hexp : expected W v = if matches tg v then PEmpty else expected w v)
    end.
    { unfold expected, fdict_of. cbn [set_lock set_log set_docs set_open set_disk w_open w_udict w_fdict w_ccfg].
      rewrite lookup_filter_matches. destruct (matches tg v); reflexivity. }
    rewrite Hexp. unfold lastword at 1. cbn [s_log set_lock set_log set_docs set_open set_disk]. rewrite last_pub_app, last_pub_empties. cbn [s_log set_lock set_log set_docs set_open set_disk].
    destruct (matches tg v) eqn:Em.
    + destruct (mem_url v gone) eqn:Eg; [reflexivity|].
      assert (Hn : lookup v (s_docs w) = None).
      { destruct (lookup v (s_docs w)) as [e|] eqn:Ee; [|reflexivity]. apply lookup_In_keys in Ee.
        assert (mem_url v gone = true) by (apply Hgone; split; assumption). congruence. }
      change (lastword w v = PEmpty). unfold fresh in F. unfold coh in C. rewrite F, <- C. unfold pubval. rewrite Hn. reflexivity.
    + destruct (mem_url v gone) eqn:Eg; [apply Hgone in Eg; destruct Eg; congruence|]. exact F.
  - intros v e He. cbn [s_docs set_lock set_log set_docs] in He. rewrite lookup_filter_matches in He.
    destruct (matches tg v); [discriminate|exact (inv_docs w I v e He)].
  - intros v cd Hv. cbn [set_lock set_log set_docs set_open w_open] in Hv. rewrite lookup_filter_matches in Hv.
    destruct (matches tg v); [discriminate|exact (inv_text w I v cd Hv)].
Qed.

(* ---------- add-to-dictionary commands: the dictionary files change, then the document is re-read ---------- *)
Definition same_server (w wd : world) : Prop :=
  w_open wd = w_open w /\ w_ccfg wd = w_ccfg w /\ s_cfg wd = s_cfg w /\ s_docs wd = s_docs w /\
  s_lock wd = s_lock w /\ s_log wd = s_log w /\ w_disk wd = w_disk w.

Lemma pre_dict_change : forall w wd u, Inv w -> same_server w wd ->
  (forall v, v <> u -> expected wd v = expected w v) -> pre wd u.
Proof.
  intros w wd u I (Eo & Ec & Es & Ed & El & Eg & Ek) Hexp.
  unfold pre. rewrite El, Es, Ec. split; [exact (inv_lock w I)|]. split; [exact (inv_cfg w I)|]. split; [|split].
  - intros v Hv. unfold coh, fresh, pubval, lastword. rewrite Ed, Es, Eg, (Hexp v Hv).
    split; [exact (inv_coh w I v)|exact (inv_fresh w I v)].
  - unfold docs_ok. rewrite Ed. exact (inv_docs w I).
  - unfold texts_ok. rewrite Eo. exact (inv_text w I).
Qed.

Lemma reread_ready_gen : forall w wd u, Inv w -> same_server w wd -> reread_ok w u = true -> reread_ready wd u.
Proof.
  intros w wd u I (Eo & Ec & Es & Ed & El & Eg & Ek) R.
  assert (Hunread : (is_file u = false \/ lookup u (w_disk w) = None) -> coh wd u).
  { intro Hu. unfold coh, pubval, expected. rewrite Ed, Es, Eo.
    pose proof (inv_coh w I u) as C. unfold coh, pubval, expected in C.
    unfold reread_ok, clean in R. destruct (lookup u (w_open w)) as [cd|] eqn:Eo'.
    - destruct (kind (cd_lang cd)) eqn:Ek'; try exact C;
        (destruct Hu as [Hu|Hu]; rewrite Hu in R; [discriminate R|rewrite andb_comm in R; discriminate R]).
    - exact C. }
  unfold reread_ready. destruct (is_file u) eqn:Ef; [|apply Hunread; left; reflexivity].
  rewrite Ek. destruct (lookup u (w_disk w)) as [t|] eqn:Edk; [|apply Hunread; right; reflexivity].
  apply (inv_ready_gen w wd u t I Eo Ed Ec).
  unfold reread_ok, clean in R. rewrite Ef, Edk in R. destruct (lookup u (w_open w)) as [cd|]; [|exact Logic.I].
  destruct (kind (cd_lang cd)); [right|right|left; reflexivity]; cbn in R; apply text_eqb_eq in R; congruence.
Qed.

Lemma existsb_add_word : forall x l, existsb (Nat.eqb x) l = true -> add_word x l = l.
Proof. intros x l H. unfold add_word. rewrite H. reflexivity. Qed.

Lemma others_closed_spec : forall w u v cd, others_closed w u = true -> v <> u -> lookup v (w_open w) = Some cd ->
  kind (cd_lang cd) = KNone.
Proof.
  intros w u v cd H Hv Hl. unfold others_closed in H. rewrite forallb_forall in H.
  destruct (lookup_In v (w_open w) cd Hl) as (k & Hin & Ek). apply url_eqb_eq in Ek. subst k.
  specialize (H (v, cd) Hin). cbn in H. apply url_eqb_neq in Hv. rewrite Hv in H. cbn in H.
  destruct (kind (cd_lang cd)); try discriminate; reflexivity.
Qed.

Lemma inv_adduser : forall w x u w', Inv w -> op_safeb w (AddUser x u) = true ->
  run_op (AddUser x u) w = Some w' -> Inv w'.
Proof.
  intros w x u w' I Hs H. unfold run_op in H. cbn [prog locals_of client_effect] in H. open_fuel H.
  cbn [op_safeb] in Hs. apply andb_true_iff in Hs as [Hr Hs].
  do 3 (fuel_step H; cbn [exec app] in H).
  cbn [l_word l_ud lset_ud lset_word loc0 w_udict set_udict] in H.
  set (wd := set_udict (add_word x (w_udict w)) (set_udict [] w)) in *.
  assert (SS : same_server w wd) by (repeat split).
  assert (Hexp : forall v, v <> u -> expected wd v = expected w v).
  { intros v Hv. unfold expected, fdict_of, wd. cbn [w_open set_udict w_udict w_fdict w_ccfg].
    apply orb_true_iff in Hs as [Hs|Hs]; [rewrite (existsb_add_word _ _ Hs); reflexivity|].
    destruct (lookup v (w_open w)) as [cd|] eqn:Eo; [|reflexivity].
    rewrite (others_closed_spec w u v cd Hs Hv Eo). reflexivity. }
  destruct (reread_run _ [] _ wd w' u H eq_refl (pre_dict_change w wd u I SS Hexp) (reread_ready_gen w wd u I SS Hr))
    as (f' & l' & w1 & H1 & I1 & _).
  apply run_nil in H1. subst w'. exact I1.
Qed.

Lemma inv_addfile : forall w x u w', Inv w -> op_safeb w (AddFile x u) = true ->
  run_op (AddFile x u) w = Some w' -> Inv w'.
Proof.
  intros w x u w' I Hs H. unfold run_op in H. cbn [prog locals_of client_effect] in H. open_fuel H.
  cbn [op_safeb] in Hs.
  fuel_step H. cbn [exec] in H. cbn [l_url lset_word loc0] in H.
  destruct (is_file u) eqn:Ef.
  - cbn [negb] in Hs. rewrite orb_false_r in Hs. cbn [app] in H.
    do 2 (fuel_step H; cbn [exec app] in H).
    cbn [l_url l_word l_fd lset_fd lset_word loc0 w_fdict set_fdict] in H.
    set (wd := set_fdict _ (set_fdict _ w)) in *.
    assert (SS : same_server w wd) by (repeat split).
    assert (Hexp : forall v, v <> u -> expected wd v = expected w v).
    { intros v Hv. apply url_eqb_neq in Hv. unfold expected, fdict_of, wd. cbn [w_open set_fdict w_udict w_fdict w_ccfg].
      rewrite !lookup_upsert_neq by exact Hv. reflexivity. }
    destruct (reread_run _ [] _ wd w' u H eq_refl (pre_dict_change w wd u I SS Hexp) (reread_ready_gen w wd u I SS Hs))
      as (f' & l' & w1 & H1 & I1 & _).
    apply run_nil in H1. subst w'. exact I1.
  - cbn [app] in H. fuel_step H. cbn [exec] in H. cbn [l_url lset_fd lset_word loc0] in H. rewrite Ef in H. cbn [app] in H.
    fuel_step H. cbn [exec] in H. rewrite (inv_lock w I) in H. cbn [app l_url lset_fd lset_word loc0] in H.
    apply run_nil in H. subst w'. apply publish_inv, I.
Qed.

(* ---------- didChangeConfiguration: every document of doc_state is re-read, in some order ---------- *)
Definition after_install (w : world) (u : url) (t : text) : world :=
  let w1 := set_docs (installed w u t None) (set_scfg (w_ccfg w) w) in send u (pubval w1 u) w1.

Definition qready (w : world) (v : url) : Prop :=
  is_file v = true /\ exists t, lookup v (w_disk w) = Some t /\ ready w v t None /\ entry_cond w v t None.

Definition CInv (w : world) (q : list url) : Prop :=
  s_lock w = false /\ s_cfg w = w_ccfg w /\ docs_ok w /\ texts_ok w /\
  (forall v, In v q -> qready w v) /\ (forall v, (coh w v /\ fresh w v) \/ In v q).

Lemma lookup_installed_eq : forall w u t,
  lookup u (installed w u t None) =
  match lookup u (s_docs w) with
  | Some e => Some (e_set_doc t (w_ccfg w) (if dictv_eqb (e_dict e) (cur_dict w u) then e else e_set_dict (cur_dict w u) (w_ccfg w) e))
  | None => None
  end.
Proof.
  intros. unfold installed. destruct (lookup u (s_docs w)); [apply lookup_upsert_eq|apply lookup_remove_eq].
Qed.

Lemma qready_after_install : forall w u t v, ready w u t None -> qready w v -> qready (after_install w u t) v.
Proof.
  intros w u t v Ru (Hf & t' & Hd & Hr & He). split; [exact Hf|]. exists t'. split; [exact Hd|].
  unfold ready, entry_cond in *. unfold after_install.
  cbn [w_open send set_log set_docs set_scfg s_docs w_ccfg].
  change (cur_dict (send u _ _) v) with (cur_dict w v).
  destruct (url_eq_dec v u) as [->|Hv].
  - rewrite lookup_installed_eq.
    destruct (lookup u (w_open w)) as [cd|] eqn:Eo.
    + destruct (lookup u (s_docs w)) as [e|] eqn:Ee.
      * destruct Hr as (A & B & C & D & E). destruct He as (lge & L1 & L2 & L3).
        destruct (dictv_eqb (e_dict e) (cur_dict w u)) eqn:Ed; cbn [e_set_doc e_set_dict e_lang e_dict e_lcfg e_ign e_ident].
        -- split; [refine (conj A (conj B (conj C (conj _ E)))); intros _; apply D; apply dictv_eqb_eq, Ed
                  |exists lge; exact (conj L1 (conj L2 L3))].
        -- split; [refine (conj A (conj B (conj C (conj _ E)))); intros _; reflexivity
                  |exists lge; exact (conj L1 (conj L2 L3))].
      * split; [exact Hr|exact He].
    + destruct Hr as [Hn _]. rewrite Hn in *. split; [split; reflexivity|exact He].
  - apply url_eqb_neq in Hv.
    assert (Hlk : lookup v (installed w u t None) = lookup v (s_docs w)).
    { unfold installed. destruct (lookup u (s_docs w)); rewrite ?lookup_upsert_neq, ?lookup_remove_neq by exact Hv; reflexivity. }
    rewrite Hlk. split; assumption.
Qed.

Lemma cfg_loop : forall q f l w w', l_queue l = q -> CInv w q -> run_prog f [ICfgNext] l w = Some w' -> Inv w'.
Proof.
  induction q as [|v q IH]; intros f l w w' Hq (Hl & Hc & Hd & Ht & Hrdy & Hor) H.
  - fuel_step H. cbn [exec] in H. rewrite Hq in H. cbn [app] in H. apply run_nil in H. subst w'.
    constructor; try assumption.
    + intro v. destruct (Hor v) as [[C _]|[]]. exact C.
    + intro v. destruct (Hor v) as [[_ F]|[]]. exact F.
  - fuel_step H. cbn [exec] in H. rewrite Hq in H. cbn [app] in H.
    destruct (Hrdy v (or_introl eq_refl)) as (Hf & t & Hdk & Hr & He).
    fuel_step H. cbn [exec] in H. cbn [l_url lset_queue lset_text lset_url] in H. rewrite Hf, Hdk in H.
    set (l2 := lset_lang None _) in H.
    assert (EC : entry_cond w (l_url l2) t (l_lang l2)) by exact He.
    destruct (upd_pub_run _ [ICfgNext] l2 w w' t Hl eq_refl EC H) as (f' & l' & H1 & _ & Hq').
    cbn [l_url l_lang l2 lset_lang lset_text lset_queue lset_url] in H1.
    change (send v _ _) with (after_install w v t) in H1.
    destruct (install_spec w v t None Hl Hc Hd Ht Hr) as ((Cu & Fu) & Hd2 & Hfr & Hexp).
    apply (IH f' l' (after_install w v t) w'); [exact Hq'| |exact H1].
    split; [exact Hl|]. split; [reflexivity|]. split; [exact Hd2|]. split; [exact Ht|]. split.
    + intros v' Hin. apply qready_after_install; [exact Hr|]. apply Hrdy. right. exact Hin.
    + intro v'. destruct (url_eq_dec v' v) as [->|Hv]; [left; split; [exact Cu|exact Fu]|].
      destruct (Hor v') as [[C F]|[E|Hin]]; [left|congruence|right; exact Hin].
      destruct (Hfr v' Hv) as (_ & P & L). unfold coh, fresh, after_install. rewrite P, L, Hexp. split; assumption.
Qed.

Lemma inv_cfgchange : forall w c order w', Inv w -> op_safeb w (CfgChange c order) = true ->
  run_op (CfgChange c order) w = Some w' -> Inv w'.
Proof.
  intros w c order w' I Hs H. unfold run_op in H. cbn [prog locals_of client_effect] in H. open_fuel H.
  cbn [op_safeb] in Hs. rewrite forallb_forall in Hs.
  fuel_step H. cbn [exec app] in H. fuel_step H. cbn [exec] in H.
  cbn [s_lock set_scfg set_ccfg s_docs s_cfg] in H. rewrite (inv_lock w I) in H. cbn [app] in H.
  set (wc := set_docs _ _) in H.
  apply (cfg_loop _ _ _ wc w' eq_refl) in H; [exact H|]. clear H.
  assert (Hlk : forall v, lookup v (s_docs wc) = option_map (e_set_lcfg c) (lookup v (s_docs w))).
  { intro v. unfold wc. cbn [s_docs set_docs]. apply lookup_map_val. }
  split; [exact (inv_lock w I)|]. split; [reflexivity|]. split; [|split; [exact (inv_text w I)|split]].
  - intros v e He. rewrite Hlk in He. destruct (lookup v (s_docs w)) as [e0|] eqn:Ee; [|discriminate].
    inversion He; subst e. cbn. exact (inv_docs w I v e0 Ee).
  - intros v Hin. cbn [l_queue lset_queue] in Hin. apply order_keys_sound in Hin.
    apply keys_In_lookup in Hin as [e Ee].
    destruct (entry_facts w v e I Ee) as (cd & Hc & H1 & H2 & H3 & H4 & H5 & H6 & H7 & H8).
    destruct (lookup_In v (w_open w) cd Hc) as (k & Hk & Ek). apply url_eqb_eq in Ek. subst k.
    pose proof (Hs (v, cd) Hk) as R. cbn [fst] in R. unfold reread_ok, clean in R. rewrite Hc in R.
    assert (Hcl : is_file v && match lookup v (w_disk w) with Some t => text_eqb t (cd_text cd) | None => false end = true)
      by (destruct (kind (cd_lang cd)); try exact R; congruence).
    apply andb_true_iff in Hcl as [Hf Hdk]. destruct (lookup v (w_disk w)) as [t|] eqn:Edk; [|discriminate].
    apply text_eqb_eq in Hdk. subst t.
    split; [exact Hf|]. exists (cd_text cd). split; [exact Edk|].
    unfold ready, entry_cond. rewrite Hlk, Ee. change (w_open wc) with (w_open w). rewrite Hc. cbn [option_map].
    split.
    + cbn. repeat split; try assumption. 
    + exists (cd_lang cd). cbn. repeat split; try assumption. intro Hkc.
      pose proof (inv_text w I v cd Hc) as Tk. unfold text_ok in Tk. rewrite Hkc in Tk. apply Nat.eqb_eq in Tk. congruence.
  - intro v. cbn [l_queue lset_queue].
    destruct (lookup v (s_docs w)) as [e|] eqn:Ee.
    + right. apply order_keys_complete. eapply lookup_In_keys, Ee.
    + left. pose proof (no_entry_facts w v I Ee) as N. pose proof (inv_fresh w I v) as F. pose proof (inv_coh w I v) as C.
      unfold coh, fresh, pubval in *. rewrite Hlk, Ee in *. cbn [option_map].
      change (lastword wc v) with (lastword w v). 
      assert (Hexp : expected wc v = PEmpty /\ expected w v = PEmpty).
      { unfold expected. change (w_open wc) with (w_open w). destruct (lookup v (w_open w)) as [cd|]; [rewrite N|]; split; reflexivity. }
      destruct Hexp as [E1 E2]. rewrite E1. rewrite E2 in F. split; [reflexivity|exact F].
Qed.

(* ---------- histories ---------- *)
Lemma inv_op : forall o w w', Inv w -> op_safeb w o = true -> run_op o w = Some w' -> Inv w'.
Proof.
  intros o w w' I Hs H. destruct o.
  - eapply inv_open; eassumption.
  - eapply inv_change; eassumption.
  - eapply inv_save; eassumption.
  - eapply inv_close; eassumption.
  - eapply inv_delete; eassumption.
  - eapply inv_adduser; eassumption.
  - eapply inv_addfile; eassumption.
  - eapply inv_ignore; eassumption.
  - eapply inv_record; eassumption.
  - eapply inv_cfgchange; eassumption.
Qed.

(* the side conditions hold at every message of the history, in the world it is sent in *)
Fixpoint seq_safeb (h : list op) (w : world) : bool :=
  match h with
  | [] => true
  | o :: h' => op_safeb w o && match run_op o w with Some w' => seq_safeb h' w' | None => true end
  end.

Lemma inv_seq : forall h w w', Inv w -> seq_safeb h w = true -> run_seq h w = Some w' -> Inv w'.
Proof.
  induction h as [|o h IH]; intros w w' I Hs H; cbn [run_seq] in H.
  - inversion H; subst; exact I.
  - cbn [seq_safeb] in Hs. apply andb_true_iff in Hs as [Ho Hs].
    destruct (run_op o w) as [w1|] eqn:E; [|discriminate]. eapply IH; [eapply inv_op; eassumption|exact Hs|exact H].
Qed.

Lemma inv_world0 : forall c, Inv (world0 c).
Proof.
  intro c. constructor.
  - reflexivity.
  - reflexivity.
  - intro u. reflexivity.
  - intro u. reflexivity.
  - intros u e H. discriminate H.
  - intros u cd H. discriminate H.
Qed.

(* C09, sequential clause *)
Theorem sequential : forall h c w,
  seq_safeb h (world0 c) = true -> run_seq h (world0 c) = Some w ->
  forall u, lastword w u = expected w u /\ pubval w u = expected w u /\
            (lookup u (w_open w) = None -> lastword w u = PEmpty).
Proof.
  intros h c w Hs H u. pose proof (inv_seq h (world0 c) w (inv_world0 c) Hs H) as I.
  split; [exact (inv_fresh w I u)|]. split; [exact (inv_coh w I u)|].
  intro Hn. rewrite (inv_fresh w I u). unfold expected. rewrite Hn. reflexivity.
Qed.

(* the same from any world that satisfies the invariant (e.g. a running server that is up to date) *)
Theorem sequential_from : forall h w0 w,
  Inv w0 -> seq_safeb h w0 = true -> run_seq h w0 = Some w -> forall u, fresh w u.
Proof. intros h w0 w I Hs H u. exact (inv_fresh w (inv_seq h w0 w I Hs H) u). Qed.

Section Diagnostics.
  (* whatever function of (text, language, dictionaries, configurations, ignore list) the diagnostics are *)
  Variable D : Type.
  Variable diag : dargs -> D.
  Variable none : D.
  Definition shown (p : pub) : D := match p with PEmpty => none | PDiag a => diag a end.

  Corollary sequential_diag : forall h c w,
    seq_safeb h (world0 c) = true -> run_seq h (world0 c) = Some w ->
    forall u, shown (lastword w u) = shown (expected w u).
  Proof. intros h c w Hs H u. destruct (sequential h c w Hs H u) as [E _]. rewrite E. reflexivity. Qed.
End Diagnostics.

(* non-vacuity: a history with every kind of message satisfies the side conditions and runs *)
Definition demo_history : list op :=
  [Open (UFile 0 0) LMarkdown (mktext 0 0); Change (UFile 0 0) (mktext 1 0); Save (UFile 0 0);
   AddUser 3 (UFile 0 0); AddFile 4 (UFile 0 0); Ignore (UFile 0 0) 1; RecordLint;
   CfgChange 1 [UFile 0 0]; Open (UUntitled 0) LUnknown (mktext 2 0); Change (UUntitled 0) (mktext 3 0);
   Open (UFile 0 1) LCode (mktext 4 0); Save (UFile 0 1); CfgChange 2 []; Close (UFile 0 1);
   Open (UFile 1 0) LPlain (mktext 5 0); Delete (TDir 1); Change (UFile 0 0) (mktext 6 0)].

Example demo_history_safe :
  seq_safeb demo_history (world0 0) = true /\
  exists w, run_seq demo_history (world0 0) = Some w /\
    lastword w (UFile 0 0) =
      PDiag (mkargs (mktext 6 0) LMarkdown (mkdict [3] [4] 0) 2 2 2 [1]) /\
    lastword w (UFile 0 1) = PEmpty /\ lastword w (UFile 1 0) = PEmpty.
Proof. split; [vm_compute; reflexivity|]. eexists. split; [vm_compute; reflexivity|]. repeat split; vm_compute; reflexivity. Qed.
