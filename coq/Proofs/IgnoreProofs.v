(* IgnoreProofs.v — lemmas about Model/Ignore.v (C14). *)
Require Import Base Suggestion Ignore ListLemmas.
From Coq Require Import Permutation.

(* ------------------------------------------------------------------------------------------ *)
(* boolean equalities reflect Leibniz equality                                                   *)
(* ------------------------------------------------------------------------------------------ *)
Lemma list_eqb_spec {A} (eqb : A -> A -> bool) :
  (forall x y, eqb x y = true <-> x = y) -> forall a b, list_eqb eqb a b = true <-> a = b.
Proof.
  intros H a. induction a as [|x a IH]; intros [|y b]; cbn [list_eqb]; try (split; [discriminate|discriminate]); [tauto|].
  rewrite Bool.andb_true_iff, H, IH. split; [intros [-> ->]; reflexivity | intros E; inversion E; auto].
Qed.
Lemma opt_eqb_spec {A} (eqb : A -> A -> bool) :
  (forall x y, eqb x y = true <-> x = y) -> forall a b, opt_eqb eqb a b = true <-> a = b.
Proof.
  intros H [x|] [y|]; cbn [opt_eqb]; try (split; [discriminate|discriminate]); [|tauto].
  rewrite H. split; [intros ->; reflexivity | intros E; inversion E; auto].
Qed.
Lemma text_eqb_spec a b : text_eqb a b = true <-> a = b.
Proof. apply list_eqb_spec. intros x y. apply N.eqb_eq. Qed.
Lemma tkind_eqb_spec a b : tkind_eqb a b = true <-> a = b.
Proof.
  destruct a, b; cbn [tkind_eqb]; try (split; [discriminate|discriminate]); try tauto.
  - rewrite (opt_eqb_spec N.eqb N.eqb_eq). split; [intros ->; reflexivity | intros E; inversion E; auto].
  - rewrite N.eqb_eq. split; [intros ->; reflexivity | intros E; inversion E; auto].
  - rewrite (opt_eqb_spec Nat.eqb Nat.eqb_eq). split; [intros ->; reflexivity | intros E; inversion E; auto].
  - rewrite !Bool.andb_true_iff, !N.eqb_eq, (opt_eqb_spec N.eqb N.eqb_eq), Nat.eqb_eq.
    split; [intros [[[-> ->] ->] ->]; reflexivity | intros E; inversion E; auto].
  - rewrite Nat.eqb_eq. split; [intros ->; reflexivity | intros E; inversion E; auto].
  - rewrite Nat.eqb_eq. split; [intros ->; reflexivity | intros E; inversion E; auto].
Qed.
Lemma ftok_eqb_spec a b : ftok_eqb a b = true <-> a = b.
Proof.
  destruct a as [k c], b as [k' c']. unfold ftok_eqb. cbn [fst snd].
  rewrite Bool.andb_true_iff, tkind_eqb_spec, text_eqb_spec.
  split; [intros [-> ->]; reflexivity | intros E; inversion E; auto].
Qed.
Lemma sugg_eqb_spec a b : sugg_eqb a b = true <-> a = b.
Proof.
  destruct a, b; cbn [sugg_eqb]; try (split; [discriminate|discriminate]); try tauto;
    rewrite text_eqb_spec; (split; [intros ->; reflexivity | intros E; inversion E; auto]).
Qed.
Lemma ctx_eqb_spec a b : ctx_eqb a b = true <-> a = b.
Proof.
  destruct a as [k s m p t], b as [k' s' m' p' t']. unfold ctx_eqb. cbn [c_kind c_sugg c_msg c_prio c_toks].
  rewrite !Bool.andb_true_iff, !N.eqb_eq, !text_eqb_spec,
    (list_eqb_spec sugg_eqb sugg_eqb_spec), (list_eqb_spec ftok_eqb ftok_eqb_spec).
  split; [intros [[[[-> ->] ->] ->] ->]; reflexivity | intros E; inversion E; auto].
Qed.

(* ------------------------------------------------------------------------------------------ *)
(* the set of hashes                                                                            *)
(* ------------------------------------------------------------------------------------------ *)
Lemma ig_mem_In h s : ig_mem h s = true <-> In h s.
Proof.
  unfold ig_mem. rewrite existsb_exists. split.
  - intros [x [Hin E]]. apply N.eqb_eq in E. subst. exact Hin.
  - intros Hin. exists h. split; [exact Hin | apply N.eqb_refl].
Qed.
Lemma ig_insert_In h x s : In x (ig_insert h s) <-> x = h \/ In x s.
Proof.
  unfold ig_insert. destruct (ig_mem h s) eqn:E.
  - apply ig_mem_In in E. split; [auto | intros [->|H]; auto].
  - cbn [In]. split; [intros [<-|H]; auto | intros [->|H]; auto].
Qed.
Lemma ig_insert_NoDup h s : NoDup s -> NoDup (ig_insert h s).
Proof.
  intros ND. unfold ig_insert. destruct (ig_mem h s) eqn:E; [exact ND|].
  constructor; [|exact ND]. intros Hin. apply ig_mem_In in Hin. congruence.
Qed.
Lemma ig_append_In other : forall s x, In x (ig_append s other) <-> In x s \/ In x other.
Proof.
  unfold ig_append. induction other as [|h o IH]; intros s x; cbn [fold_left In].
  - tauto.
  - rewrite IH, ig_insert_In. split; [intros [[->|H]|H]; auto | intros [H|[<-|H]]; auto].
Qed.
Lemma ig_append_NoDup other : forall s, NoDup s -> NoDup (ig_append s other).
Proof.
  unfold ig_append. induction other as [|h o IH]; intros s ND; cbn [fold_left]; [exact ND|].
  apply IH, ig_insert_NoDup, ND.
Qed.

(* ------------------------------------------------------------------------------------------ *)
(* the context: fields, totality                                                                *)
(* ------------------------------------------------------------------------------------------ *)
Lemma context_fields l d c :
  context l d = Ok c ->
  c_kind c = il_kind l /\ c_sugg c = il_sugg l /\ c_msg c = il_msg l /\ c_prio c = il_prio l
  /\ context_tokens l d = Ok (c_toks c).
Proof.
  unfold context. destruct (context_tokens l d) as [t|w]; cbn [bind]; [|discriminate].
  intros E. inversion E. cbn. auto.
Qed.

Lemma context_of_tokens l d t :
  context_tokens l d = Ok t -> context l d = Ok (mkctx (il_kind l) (il_sugg l) (il_msg l) (il_prio l) t).
Proof. intros E. unfold context. rewrite E. reflexivity. Qed.

(* a document is well formed when every token lies inside the source (C02's theorem about Document) *)
Definition doc_wf (d : doc) : Prop := Forall (fun t => span_in (length (dsrc d)) (tspan t)) (dtoks d).

Lemma get_content_in_bounds {A} (sp : span) (src : list A) :
  span_in (length src) sp -> get_content sp src = Ok (slice src (sstart sp) (send sp)).
Proof.
  intros [Hwf Hend]. unfold get_content, try_get_content.
  destruct (send sp <? sstart sp) eqn:E1; [apply Nat.ltb_lt in E1; lia|].
  destruct (length src <? send sp) eqn:E3; [apply Nat.ltb_lt in E3; lia|].
  destruct (length src <=? sstart sp) eqn:E2; cbn [orb bind].
  - apply Nat.leb_le in E2. assert (sstart sp = send sp) as E by lia.
    unfold span_len, sub_chk. rewrite E, Nat.ltb_irrefl. cbn [bind]. rewrite Nat.sub_diag. cbn [Nat.eqb bind].
    unfold slice. rewrite Nat.sub_diag. reflexivity.
  - reflexivity.
Qed.

Lemma get_tokens_In ts idxs t : In t (get_tokens ts idxs) -> In t ts.
Proof.
  induction idxs as [|i r IH]; cbn [get_tokens]; [intros []|].
  destruct (nth_error ts i) eqn:E; [|exact IH].
  intros [<-|H]; [eapply nth_error_In; eauto | auto].
Qed.

Lemma map_res_ok {A B} (f : A -> res B) l :
  (forall x, In x l -> exists y, f x = Ok y) -> exists ys, map_res f l = Ok ys.
Proof.
  induction l as [|x r IH]; intros H; cbn [map_res]; [eauto|].
  destruct (H x (or_introl eq_refl)) as [y ->]. cbn [bind].
  destruct IH as [ys ->]; [intros z Hz; apply H; right; exact Hz|]. cbn [bind]. eauto.
Qed.

Lemma to_fat_wf src t : span_in (length src) (tspan t) -> to_fat src t = Ok (tkd t, slice src (sstart (tspan t)) (send (tspan t))).
Proof. intros H. unfold to_fat. rewrite (get_content_in_bounds _ _ H). reflexivity. Qed.

(* ------------------------------------------------------------------------------------------ *)
(* the context, window by window: the code's token list IS the property's neighbourhood, flattened *)
(* ------------------------------------------------------------------------------------------ *)
(* Span::new(start.saturating_sub(2), start) never panics *)
Lemma prequel_window_ok sp : prequel_window sp = Ok (before_window sp).
Proof.
  unfold prequel_window, span_new, before_window.
  destruct (Nat.ltb_spec (sstart sp) (sstart sp - 2)) as [H|H]; [lia | reflexivity].
Qed.
Lemma sequel_window_after sp : sequel_window sp = after_window sp.
Proof. reflexivity. Qed.

Lemma context_indices_nb l d : context_indices l d = Ok (nb_indices l d).
Proof. unfold context_indices. rewrite prequel_window_ok. reflexivity. Qed.

Lemma get_tokens_app ts a b : get_tokens ts (a ++ b) = get_tokens ts a ++ get_tokens ts b.
Proof.
  induction a as [|i r IH]; cbn [app get_tokens]; [reflexivity|].
  destruct (nth_error ts i); rewrite IH; reflexivity.
Qed.

Lemma map_res_app {A B} (f : A -> res B) a b :
  map_res f (a ++ b) = (do x <- map_res f a; do y <- map_res f b; Ok (x ++ y)).
Proof.
  induction a as [|h t IH]; cbn [app map_res bind].
  - destruct (map_res f b); reflexivity.
  - destruct (f h); cbn [bind]; [|reflexivity]. rewrite IH.
    destruct (map_res f t); cbn [bind]; [|reflexivity]. destruct (map_res f b); reflexivity.
Qed.

(* blanking token by token inside the iterator = blanking the collected list *)
Lemma map_res_blanked src ts :
  map_res (fat_blanked src) ts = (do x <- map_res (to_fat src) ts; Ok (map blank_ftok x)).
Proof.
  induction ts as [|t r IH]; cbn [map_res bind map]; [reflexivity|].
  unfold fat_blanked at 1. destruct (to_fat src t) as [f|w]; cbn [bind]; [|reflexivity].
  rewrite IH. destruct (map_res (to_fat src) r); reflexivity.
Qed.

(* THE tie between the code and the property's words: the tokens from_lint hashes are the tokens
   within two characters before the flagged text, the flagged tokens and the tokens within two
   characters after it, position-free and dictionary-free, concatenated *)
Lemma context_tokens_nb l d : context_tokens l d = nb_tokens l d.
Proof.
  unfold context_tokens, nb_tokens, nb_parts, window_tokens.
  rewrite context_indices_nb. cbn [bind]. unfold nb_indices.
  rewrite map_res_blanked, !get_tokens_app, !map_res_app.
  repeat match goal with |- context [map_res ?f ?x] => destruct (map_res f x); cbn [bind]; try reflexivity end.
  rewrite !map_app. reflexivity.
Qed.

Lemma window_tokens_total d sp : doc_wf d -> exists w, window_tokens d sp = Ok w.
Proof.
  intros Hwf. unfold window_tokens. apply map_res_ok. intros t Ht. apply get_tokens_In in Ht.
  unfold doc_wf in Hwf. rewrite Forall_forall in Hwf. rewrite (to_fat_wf _ _ (Hwf t Ht)). eauto.
Qed.

Lemma nb_parts_total l d : doc_wf d -> exists w, nb_parts l d = Ok w.
Proof.
  intros Hwf. unfold nb_parts.
  destruct (window_tokens_total d (before_window (il_span l)) Hwf) as [b ->].
  destruct (window_tokens_total d (il_span l) Hwf) as [p ->].
  destruct (window_tokens_total d (after_window (il_span l)) Hwf) as [a ->]. cbn [bind]. eauto.
Qed.

(* never panics on a well-formed document, whatever the lint's span (even outside the text) *)
Lemma context_total l d : doc_wf d -> exists c, context l d = Ok c.
Proof.
  intros Hwf. unfold context. rewrite context_tokens_nb. unfold nb_tokens.
  destruct (nb_parts_total l d Hwf) as [[[b p] a] ->]. cbn [bind]. eauto.
Qed.

(* ------------------------------------------------------------------------------------------ *)
(* hides / only                                                                                 *)
(* ------------------------------------------------------------------------------------------ *)
Section Hashed.
  Variable ctxf : ilint -> doc -> res ctx.
  Variable hash : ctx -> N.
  (* the builder never panics on a well-formed document (context_total / context_fixed_total) *)
  Hypothesis ctxf_total : forall l d, doc_wf d -> exists c, ctxf l d = Ok c.

  Lemma is_ignored_spec s l d c : ctxf l d = Ok c -> is_ignored ctxf hash s l d = Ok (ig_mem (hash c) s).
  Proof. intros E. unfold is_ignored, hash_lint_context. rewrite E. reflexivity. Qed.

  Lemma ignore_lint_spec s l d c : ctxf l d = Ok c -> ignore_lint ctxf hash s l d = Ok (ig_insert (hash c) s).
  Proof. intros E. unfold ignore_lint, hash_lint_context. rewrite E. reflexivity. Qed.

  Lemma ignore_lint_inv s l d s' :
    ignore_lint ctxf hash s l d = Ok s' -> exists c, ctxf l d = Ok c /\ s' = ig_insert (hash c) s.
  Proof.
    unfold ignore_lint, hash_lint_context. destruct (ctxf l d) as [c|w]; cbn [bind]; [|discriminate].
    intros E. inversion E. eauto.
  Qed.

  (* the hashes in the list after a history: exactly the old ones and those of the history's contexts *)
  Lemma ignore_all_spec hist : forall s s',
    ignore_all ctxf hash s hist = Ok s' ->
    forall h, In h s' <-> In h s \/ exists l d c, In (l, d) hist /\ ctxf l d = Ok c /\ hash c = h.
  Proof.
    induction hist as [|[l d] r IH]; intros s s' E h; cbn [ignore_all] in E.
    - inversion E. subst. split; [auto | intros [H|[l [d [c [[] _]]]]]; exact H].
    - destruct (ignore_lint ctxf hash s l d) as [s1|w] eqn:E1; cbn [bind] in E; [|discriminate].
      destruct (ignore_lint_inv _ _ _ _ E1) as [c [Ec ->]].
      rewrite (IH _ _ E h), ig_insert_In. split.
      + intros [[->|H]|[l' [d' [c' [Hin [Ec' Eh]]]]]].
        * right. exists l, d, c. cbn [In]. auto.
        * auto.
        * right. exists l', d', c'. cbn [In]. auto.
      + intros [H|[l' [d' [c' [[Heq|Hin] [Ec' Eh]]]]]].
        * auto.
        * inversion Heq. subst. left. left. congruence.
        * right. exists l', d', c'. auto.
  Qed.

  Lemma ignore_all_total hist : forall s,
    (forall l d, In (l, d) hist -> doc_wf d) -> exists s', ignore_all ctxf hash s hist = Ok s'.
  Proof.
    induction hist as [|[l d] r IH]; intros s H; cbn [ignore_all]; [eauto|].
    destruct (ctxf_total l d (H l d (or_introl eq_refl))) as [c Ec].
    rewrite (ignore_lint_spec _ _ _ _ Ec). cbn [bind]. apply IH. intros l' d' Hin. apply (H l' d'). right. exact Hin.
  Qed.

  Lemma retain_spec s d ls : forall ls',
    retain_unignored ctxf hash s ls d = Ok ls' ->
    forall l, In l ls' <-> In l ls /\ exists c, ctxf l d = Ok c /\ ig_mem (hash c) s = false.
  Proof.
    induction ls as [|x r IH]; intros ls' E l; cbn [retain_unignored] in E.
    - inversion E. cbn [In]. tauto.
    - unfold is_ignored, hash_lint_context in E.
      destruct (ctxf x d) as [c|w] eqn:Ec; cbn [bind] in E; [|discriminate].
      destruct (retain_unignored ctxf hash s r d) as [r'|w] eqn:Er; cbn [bind] in E; [|discriminate].
      inversion E. subst ls'. clear E. specialize (IH _ eq_refl l).
      destruct (ig_mem (hash c) s) eqn:Em.
      + rewrite IH. cbn [In]. split; [intros [H1 H2]; auto|].
        intros [[<-|H1] [c' [Ec' Em']]]; [|eauto]. rewrite Ec in Ec'. inversion Ec'. subst. congruence.
      + cbn [In]. rewrite IH. split.
        * intros [<-|[H1 H2]]; [split; [auto|eauto] | auto].
        * intros [[<-|H1] H2]; auto.
  Qed.

  Lemma retain_total s d ls :
    (forall l, In l ls -> exists c, ctxf l d = Ok c) -> exists ls', retain_unignored ctxf hash s ls d = Ok ls'.
  Proof.
    induction ls as [|x r IH]; intros H; cbn [retain_unignored]; [eauto|].
    destruct (H x (or_introl eq_refl)) as [c Ec]. rewrite (is_ignored_spec _ _ _ _ Ec). cbn [bind].
    destruct IH as [r' ->]; [intros l Hl; apply H; right; exact Hl|]. cbn [bind]. eauto.
  Qed.

  (* remove_ignored: what survives, exactly (the empty-list shortcut included) *)
  Lemma remove_ignored_spec s d ls ls' :
    (forall l, In l ls -> exists c, ctxf l d = Ok c) ->
    remove_ignored ctxf hash s ls d = Ok ls' ->
    forall l, In l ls' <-> In l ls /\ exists c, ctxf l d = Ok c /\ ig_mem (hash c) s = false.
  Proof.
    intros Htot E l. destruct s as [|h s]; cbn [remove_ignored] in E.
    - inversion E. subst. split; [intros H; split; [exact H|] | tauto].
      destruct (Htot l H) as [c Ec]. exists c. split; [exact Ec | reflexivity].
    - apply (retain_spec _ _ _ _ E).
  Qed.

  Lemma remove_ignored_total s d ls :
    (forall l, In l ls -> exists c, ctxf l d = Ok c) -> exists ls', remove_ignored ctxf hash s ls d = Ok ls'.
  Proof. intros H. destruct s; cbn [remove_ignored]; [eauto | apply retain_total, H]. Qed.

  (* remove_ignored is an order-preserving filter *)
  Lemma retain_is_filter s d ls ls' :
    retain_unignored ctxf hash s ls d = Ok ls' ->
    ls' = filter (fun l => match is_ignored ctxf hash s l d with Ok b => negb b | Panic _ => false end) ls.
  Proof.
    revert ls'. induction ls as [|x r IH]; intros ls' E; cbn [retain_unignored] in E; cbn [filter].
    - inversion E. reflexivity.
    - destruct (is_ignored ctxf hash s x d) as [b|w]; cbn [bind] in E; [|discriminate].
      destruct (retain_unignored ctxf hash s r d) as [r'|w]; cbn [bind] in E; [|discriminate].
      inversion E. rewrite (IH _ eq_refl). destruct b; reflexivity.
  Qed.

  (* ---------- C14_hides ---------- *)
  (* After a history of ignore operations that contains (l, d) — whatever came before or after it —
     re-checking d never reports l, nor any lint of d with the same context; and nothing panics on
     well-formed documents. *)
  Theorem hides : forall s hist l d ls,
    In (l, d) hist ->
    (forall l' d', In (l', d') hist -> doc_wf d') -> doc_wf d ->
    exists s' ls', ignore_all ctxf hash s hist = Ok s' /\ remove_ignored ctxf hash s' ls d = Ok ls' /\
      ~ In l ls' /\ (forall l', ctxf l' d = ctxf l d -> ~ In l' ls') /\
      (forall l', In l' ls' -> In l' ls).
  Proof.
    intros s hist l d ls Hin Hwf Hd.
    destruct (ignore_all_total hist s Hwf) as [s' Es].
    destruct (remove_ignored_total s' d ls (fun l0 _ => ctxf_total l0 d Hd)) as [ls' El].
    exists s', ls'. split; [exact Es|]. split; [exact El|].
    pose proof (remove_ignored_spec _ _ _ _ (fun l0 _ => ctxf_total l0 d Hd) El) as Spec.
    assert (forall l', ctxf l' d = ctxf l d -> ~ In l' ls') as Key.
    { intros l' Eq Hl'. apply Spec in Hl'. destruct Hl' as [_ [c [Ec Em]]].
      assert (In (hash c) s') as Hm.
      { apply (ignore_all_spec _ _ _ Es). right. exists l, d, c. rewrite <- Eq. auto. }
      apply ig_mem_In in Hm. congruence. }
    split; [apply Key; reflexivity|]. split; [exact Key|].
    intros l' Hl'. apply Spec in Hl'. tauto.
  Qed.

  (* ---------- C14_only ---------- *)
  Definition hash_injective_on (U : list ctx) : Prop :=
    forall a b, In a U -> In b U -> hash a = hash b -> a = b.

  (* the contexts of a history *)
  Definition contexts_of (hist : list (ilint * doc)) (cs : list ctx) : Prop :=
    Forall2 (fun ld c => ctxf (fst ld) (snd ld) = Ok c) hist cs.

  Theorem only : forall hist cs l d c ls s' ls',
    contexts_of hist cs ->
    ignore_all ctxf hash [] hist = Ok s' ->
    (forall l0, In l0 ls -> exists c0, ctxf l0 d = Ok c0) ->
    remove_ignored ctxf hash s' ls d = Ok ls' ->
    In l ls -> ctxf l d = Ok c ->
    ~ In c cs ->                                   (* its context differs from every ignored one *)
    hash_injective_on (c :: cs) ->
    In l ls'.
  Proof.
    intros hist cs l d c ls s' ls' Hcs Es Htot El Hl Ec Hnot Hinj.
    apply (remove_ignored_spec _ _ _ _ Htot El). split; [exact Hl|]. exists c. split; [exact Ec|].
    destruct (ig_mem (hash c) s') eqn:Em; [|reflexivity]. exfalso.
    apply ig_mem_In in Em. apply (ignore_all_spec _ _ _ Es) in Em. destruct Em as [[]|[l1 [d1 [c1 [Hin [Ec1 Eh]]]]]].
    assert (In c1 cs) as Hc1.
    { clear - Hcs Hin Ec1. induction Hcs as [|[l0 d0] c0 h t H0 Ht IH]; [destruct Hin|].
      destruct Hin as [E|Hin]; [inversion E; subst; cbn [fst snd] in H0; rewrite Ec1 in H0; inversion H0; left; reflexivity|].
      right. apply IH, Hin. }
    assert (c1 = c) as ->; [|contradiction].
    apply Hinj; [right; exact Hc1 | left; reflexivity | exact Eh].
  Qed.
End Hashed.

(* ------------------------------------------------------------------------------------------ *)
(* which lints share a context                                                                  *)
(* ------------------------------------------------------------------------------------------ *)
Definition same_report (l l' : ilint) : Prop :=
  il_kind l = il_kind l' /\ il_sugg l = il_sugg l' /\ il_msg l = il_msg l' /\ il_prio l = il_prio l'.

(* exactly: the same message, kind, suggestions (and priority, which the property does not list but the
   code hashes too) and the same flattened neighbourhood *)
Lemma context_same_iff l d c l' d' c' :
  context l d = Ok c -> context l' d' = Ok c' ->
  (c = c' <-> same_report l l' /\ nb_tokens l d = nb_tokens l' d').
Proof.
  intros E E'.
  destruct (context_fields _ _ _ E) as [K [S [M [P T]]]].
  destruct (context_fields _ _ _ E') as [K' [S' [M' [P' T']]]].
  rewrite context_tokens_nb in T, T'. split.
  - intros <-. unfold same_report. repeat split; congruence.
  - intros [[Hk [Hs [Hm Hp]]] Ht]. destruct c, c'. cbn in K, S, M, P, T, K', S', M', P', T'.
    rewrite T, T' in Ht. inversion Ht. congruence.
Qed.

(* what makes two contexts differ: each of the fields the property lists (and priority), and the
   surrounding tokens *)
Lemma context_differs l d c l' d' c' :
  context l d = Ok c -> context l' d' = Ok c' ->
  il_msg l <> il_msg l' \/ il_kind l <> il_kind l' \/ il_sugg l <> il_sugg l' \/ il_prio l <> il_prio l'
  \/ nb_tokens l d <> nb_tokens l' d' ->
  c <> c'.
Proof.
  intros E E' H Eq. apply (context_same_iff _ _ _ _ _ _ E E') in Eq. destruct Eq as [[K [S [M P]]] T].
  destruct H as [H|[H|[H|[H|H]]]]; apply H; congruence.
Qed.

(* ------------------------------------------------------------------------------------------ *)
(* the property's premise, and the stability statement at full strength                          *)
(* ------------------------------------------------------------------------------------------ *)
(* "the flagged text and the tokens within two characters of it are untouched": the same report, and
   the (position-free, dictionary-free) tokens before / under / after the flagged text are the same
   three lists *)
Definition untouched (l : ilint) (d : doc) (l' : ilint) (d' : doc) : Prop :=
  same_report l l' /\ exists w, nb_parts l d = Ok w /\ nb_parts l' d' = Ok w.

(* "an ignored lint stays ignored ... as long as the flagged text and the tokens within two
   characters of it are untouched", for a given context builder, whatever the hash function and
   whatever is ignored before and afterwards *)
Definition stays_ignored (ctxf : ilint -> doc -> res ctx) : Prop :=
  forall (hash : ctx -> N) s l d l' d' s1 hist s2,
    doc_wf d -> doc_wf d' -> untouched l d l' d' ->
    ignore_lint ctxf hash s l d = Ok s1 -> ignore_all ctxf hash s1 hist = Ok s2 ->
    is_ignored ctxf hash s2 l' d' = Ok true.

Lemma same_context_stays_ignored ctxf (hash : ctx -> N) s l d l' d' s1 hist s2 c :
  ctxf l d = Ok c -> ctxf l' d' = Ok c ->
  ignore_lint ctxf hash s l d = Ok s1 -> ignore_all ctxf hash s1 hist = Ok s2 ->
  is_ignored ctxf hash s2 l' d' = Ok true.
Proof.
  intros Ec Ec' E1 E2. rewrite (is_ignored_spec ctxf hash _ _ _ _ Ec'). f_equal. apply ig_mem_In.
  apply (ignore_all_spec ctxf hash _ _ _ E2). left.
  rewrite (ignore_lint_spec ctxf hash _ _ _ _ Ec) in E1. inversion E1. apply ig_insert_In. left. reflexivity.
Qed.

Lemma untouched_same_context l d l' d' : untouched l d l' d' -> context l d = context l' d'.
Proof.
  intros [[K [S [M P]]] [w [Ew Ew']]]. unfold context. rewrite !context_tokens_nb. unfold nb_tokens.
  rewrite Ew, Ew', K, S, M, P. reflexivity.
Qed.

(* the code as it is (after 8948350, 4550195, 483b7cf): the statement holds at full strength *)
Theorem stable : stays_ignored context.
Proof.
  intros hash s l d l' d' s1 hist s2 Hd Hd' Hu E1 E2.
  destruct (context_total l d Hd) as [c Ec].
  apply (same_context_stays_ignored context hash s l d l' d' s1 hist s2 c Ec); [|exact E1|exact E2].
  rewrite <- (untouched_same_context _ _ _ _ Hu). exact Ec.
Qed.

(* ------------------------------------------------------------------------------------------ *)
(* the context does not look at twin_loc / word metadata anywhere in the document               *)
(* ------------------------------------------------------------------------------------------ *)
Lemma blank_kind_idem k : blank_kind (blank_kind k) = blank_kind k.
Proof. destruct k; reflexivity. Qed.

Lemma indices_from_blank ts sp : forall i, indices_from i (map blank_token ts) sp = indices_from i ts sp.
Proof.
  induction ts as [|t r IH]; intros i; cbn [map indices_from]; [reflexivity|].
  cbn [blank_token tspan]. rewrite !IH. reflexivity.
Qed.

Lemma get_tokens_map (f : token -> token) ts idx : get_tokens (map f ts) idx = map f (get_tokens ts idx).
Proof.
  induction idx as [|i r IH]; cbn [get_tokens map]; [reflexivity|].
  rewrite nth_error_map. destruct (nth_error ts i); cbn [option_map map]; rewrite IH; reflexivity.
Qed.

Lemma fat_blanked_blank src t : fat_blanked src (blank_token t) = fat_blanked src t.
Proof.
  unfold fat_blanked, to_fat, blank_token. cbn [tspan tkd].
  destruct (get_content (tspan t) src); cbn [bind]; [|reflexivity].
  unfold blank_ftok. cbn [fst snd]. rewrite blank_kind_idem. reflexivity.
Qed.

Lemma map_res_ext {A B} (f g : A -> res B) l : (forall x, f x = g x) -> map_res f l = map_res g l.
Proof. intros H. induction l as [|x r IH]; cbn [map_res]; [reflexivity|]. rewrite H, IH. reflexivity. Qed.

Lemma map_res_map {A B C} (f : B -> res C) (g : A -> B) l : map_res f (map g l) = map_res (fun x => f (g x)) l.
Proof. induction l as [|x r IH]; cbn [map map_res]; [reflexivity|]. rewrite IH. reflexivity. Qed.

Lemma context_blank_doc l d : context l (blank_doc d) = context l d.
Proof.
  unfold context, context_tokens, context_indices, token_indices_intersecting, blank_doc. cbn [dsrc dtoks].
  rewrite !indices_from_blank. destruct (prequel_window (il_span l)) as [pw|w]; cbn [bind]; [|reflexivity].
  rewrite !indices_from_blank, get_tokens_map, map_res_map.
  rewrite (map_res_ext _ (fat_blanked (dsrc d)) _ (fat_blanked_blank (dsrc d))). reflexivity.
Qed.

(* two parses of the same text that differ only in word metadata (another dictionary) and in the
   partner indices of quotation marks: every lint has the same context in both *)
Lemma same_blank_doc_same_context l d d' : blank_doc d = blank_doc d' -> context l d = context l d'.
Proof. intros E. rewrite <- (context_blank_doc l d), <- (context_blank_doc l d'), E. reflexivity. Qed.

Theorem stable_dictionary : forall (hash : ctx -> N) s l d d' s1 hist s2,
  blank_doc d = blank_doc d' ->
  ignore_lint context hash s l d = Ok s1 -> ignore_all context hash s1 hist = Ok s2 ->
  is_ignored context hash s2 l d' = Ok true.
Proof.
  intros hash s l d d' s1 hist s2 E E1 E2.
  destruct (ignore_lint_inv context hash _ _ _ _ E1) as [c [Ec _]].
  apply (same_context_stays_ignored context hash s l d l d' s1 hist s2 c Ec); [|exact E1|exact E2].
  rewrite <- (same_blank_doc_same_context l d d' E). exact Ec.
Qed.
