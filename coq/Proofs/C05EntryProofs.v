(* C05EntryProofs.v — the entry points (Model/C05Entry.v) refine a cache-free specification: what
   harper_wasm::Linter::lint / DocumentState::generate_diagnostics answer is a function of the abstract state
   (dictionary, stored configuration, ignored context hashes) and the document; the chunk cache and the
   spelling cache are unobservable through fill_with_curated / restore, remove_overlaps, remove_ignored,
   configuration changes, ignore operations and dictionary rebuilds. *)
Require Import Base Overlap Cache CacheProofs C05Entry.
From Coq Require Import List Arith NArith Bool Lia.
Import ListNotations.

Section EntryFacts.
  Variables cfg kind dict : Type.
  Notation K := (text * N * N)%type.
  Notation toks := (list (tok kind)).
  Variable cfg_hash : cfg -> N.
  Variable tok_hash : toks -> N.
  Variable fill : cfg -> cfg.
  Variable pattern_rel : dict -> text -> toks -> cfg -> list clint.
  Variables struct_pre struct_post : dict -> cfg -> doc kind -> list clint.
  Variable spell_on : cfg -> bool.
  Variable suggest : dict -> text -> list text.
  Variable spell_mk : text -> span -> list text -> clint.
  Variable ctx : doc kind -> clint -> N.

  Notation mkkey := (code_key cfg_hash tok_hash).
  Notation entry_lint := (entry_lint cfg kind dict cfg_hash tok_hash fill pattern_rel struct_pre struct_post spell_on suggest spell_mk ctx).
  Notation estep := (estep cfg kind dict cfg_hash tok_hash fill pattern_rel struct_pre struct_post spell_on suggest spell_mk ctx).
  Notation run_ehist := (run_ehist cfg kind dict cfg_hash tok_hash fill pattern_rel struct_pre struct_post spell_on suggest spell_mk ctx).
  Notation espec_lint := (espec_lint cfg kind dict fill pattern_rel struct_pre struct_post spell_on suggest spell_mk ctx).
  Notation espec_hist := (espec_hist cfg kind dict fill pattern_rel struct_pre struct_post spell_on suggest spell_mk ctx).
  Notation efresh_lint := (efresh_lint cfg kind dict cfg_hash tok_hash fill pattern_rel struct_pre struct_post spell_on suggest spell_mk ctx).
  Notation astep := (astep cfg kind dict ctx).
  Notation abs_after := (abs_after cfg kind dict ctx).
  Notation abs_of := (abs_of cfg dict).
  Notation ehist_triples := (ehist_triples cfg kind dict fill).
  Notation ehist_wf := (ehist_wf cfg kind dict).
  Notation triple := (text * toks * cfg)%type.
  Notation eop := (eop cfg kind dict).

  (* every cached value was computed by the rules OF THE CURRENT DICTIONARY (a rebuild empties the caches) *)
  Definition einv (U : list triple) (st : estate cfg dict) : Prop :=
    state_ok cfg kind K mkkey (pattern_rel (e_dict st)) (suggest (e_dict st)) U (e_lg st).
  (* the key determines the value, whatever the dictionary *)
  Definition ekey_det (U : list triple) : Prop :=
    forall dc, key_det cfg kind K mkkey (pattern_rel dc) U.

  Lemma entry_lint_ok e U st d evs sevs :
    einv U st -> doc_wf d -> incl (doc_triples cfg kind (fill (st_cfg (e_lg st))) d) U ->
    exists st' out flags,
      entry_lint e st d evs sevs = Ok (st', out, flags) /\ einv U st' /\ abs_of st' = abs_of st /\
      (ekey_det U -> out = espec_lint e (abs_of st) d).
  Proof.
    intros Hinv Hwf HU. unfold C05Entry.entry_lint, lint_group_lint.
    set (lg1 := mkstate (fill (st_cfg (e_lg st))) (st_cache (e_lg st)) (st_spell (e_lg st))).
    destruct (lint_doc_ok cfg kind K code_key_eqb code_key_eqb_spec mkkey (pattern_rel (e_dict st))
                (struct_pre (e_dict st)) (struct_post (e_dict st)) spell_on (suggest (e_dict st)) spell_mk
                U lg1 d evs sevs) as (lg2 & out & flags & E & Hok & Hc & Hs).
    { exact Hinv. } { exact Hwf. } { exact HU. }
    rewrite E. cbn [bind]. eexists _, _, _. split; [reflexivity|]. split; [|split].
    - destruct Hok as [H1 H2]. split; assumption.
    - reflexivity.
    - intros Hdet. rewrite (Hs (Hdet (e_dict st))). reflexivity.
  Qed.

  Lemma run_ehist_ok e U : forall (h : list eop) st,
    einv U st -> ehist_wf h -> incl (ehist_triples h (st_cfg (e_lg st))) U ->
    exists st' outs,
      run_ehist e h st = Ok (st', outs) /\ einv U st' /\ abs_of st' = abs_after h (abs_of st) /\
      (ekey_det U -> outs = espec_hist e h (abs_of st)).
  Proof.
    induction h as [|o h IH]; intros st Hinv Hwf HU.
    - exists st, []. cbn. auto.
    - cbn [C05Entry.run_ehist].
      destruct o as [c|d evs sevs|d l|hs| |dc c|keep skeep].
      + (* ESetCfg *)
        cbn [C05Entry.estep bind].
        destruct (IH (mkestate (e_dict st) (mkstate c (st_cache (e_lg st)) (st_spell (e_lg st))) (e_ign st)))
          as (st' & outs & E & Hinv' & Ha & Hs).
        { exact Hinv. } { exact Hwf. } { exact HU. }
        rewrite E. cbn [bind]. exists st', outs. split; [reflexivity|]. split; [assumption|]. split; [exact Ha|exact Hs].
      + (* ELint *)
        cbn [C05Entry.ehist_triples] in HU. destruct Hwf as [Hwfd Hwf].
        destruct (entry_lint_ok e U st d evs sevs Hinv Hwfd) as (st1 & out & flags & E1 & Hinv1 & Ha1 & Hs1).
        { intros x Hx. apply HU. apply in_or_app. now left. }
        cbn [C05Entry.estep]. rewrite E1. cbn [bind].
        assert (Hc1 : st_cfg (e_lg st1) = st_cfg (e_lg st)).
        { change (a_cfg (abs_of st1) = a_cfg (abs_of st)). now rewrite Ha1. }
        destruct (IH st1 Hinv1 Hwf) as (st' & outs & E & Hinv' & Ha & Hs).
        { rewrite Hc1. intros x Hx. apply HU. apply in_or_app. now right. }
        rewrite E. cbn [bind]. exists st', (out :: outs). split; [reflexivity|]. split; [assumption|]. split.
        * rewrite Ha, Ha1. reflexivity.
        * intros Hdet. cbn [C05Entry.espec_hist]. rewrite (Hs1 Hdet), (Hs Hdet), Ha1. reflexivity.
      + (* EIgnore *)
        cbn [C05Entry.estep bind].
        destruct (IH (mkestate (e_dict st) (e_lg st) (ctx d l :: e_ign st))) as (st' & outs & E & Hinv' & Ha & Hs).
        { exact Hinv. } { exact Hwf. } { exact HU. }
        rewrite E. cbn [bind]. exists st', outs. split; [reflexivity|]. split; [assumption|]. split; [exact Ha|exact Hs].
      + (* EImportIgnored *)
        cbn [C05Entry.estep bind].
        destruct (IH (mkestate (e_dict st) (e_lg st) (hs ++ e_ign st))) as (st' & outs & E & Hinv' & Ha & Hs).
        { exact Hinv. } { exact Hwf. } { exact HU. }
        rewrite E. cbn [bind]. exists st', outs. split; [reflexivity|]. split; [assumption|]. split; [exact Ha|exact Hs].
      + (* EClearIgnored *)
        cbn [C05Entry.estep bind].
        destruct (IH (mkestate (e_dict st) (e_lg st) [])) as (st' & outs & E & Hinv' & Ha & Hs).
        { exact Hinv. } { exact Hwf. } { exact HU. }
        rewrite E. cbn [bind]. exists st', outs. split; [reflexivity|]. split; [assumption|]. split; [exact Ha|exact Hs].
      + (* ERebuild: empty caches satisfy the invariant of the NEW dictionary *)
        cbn [C05Entry.estep bind].
        destruct (IH (mkestate dc (fresh c) (e_ign st))) as (st' & outs & E & Hinv' & Ha & Hs).
        { apply fresh_ok. } { exact Hwf. } { exact HU. }
        rewrite E. cbn [bind]. exists st', outs. split; [reflexivity|]. split; [assumption|]. split; [exact Ha|exact Hs].
      + (* EEvict *)
        cbn [C05Entry.estep bind].
        destruct (IH (mkestate (e_dict st)
                        (mkstate (st_cfg (e_lg st)) (evict keep (st_cache (e_lg st))) (evict skeep (st_spell (e_lg st))))
                        (e_ign st))) as (st' & outs & E & Hinv' & Ha & Hs).
        { destruct Hinv as [H1 H2]. split; [now apply entries_ok_evict|now apply spell_ok_evict]. }
        { exact Hwf. } { exact HU. }
        rewrite E. cbn [bind]. exists st', outs. split; [reflexivity|]. split; [assumption|]. split; [exact Ha|exact Hs].
  Qed.

  Lemma ekey_det_of_inj U :
    hash_inj_on cfg kind cfg_hash U -> tok_hash_inj_on cfg kind tok_hash U -> ekey_det U.
  Proof. intros H1 H2 dc. now apply code_key_det. Qed.

  Lemma ekey_det_incl U V : incl V U -> ekey_det U -> ekey_det V.
  Proof. intros Hi H dc ch1 t1 c1 ch2 t2 c2 H1 H2. apply (H dc); now apply Hi. Qed.

  (* THE refinement of the entry points *)
  Theorem entry_refinement e (h : list eop) dc0 c0 :
    ehist_wf h ->
    hash_inj_on cfg kind cfg_hash (ehist_triples h c0) ->
    tok_hash_inj_on cfg kind tok_hash (ehist_triples h c0) ->
    exists st,
      run_ehist e h (efresh dc0 c0) = Ok (st, espec_hist e h (mkastate dc0 c0 [])) /\
      abs_of st = abs_after h (mkastate dc0 c0 []).
  Proof.
    intros Hwf H1 H2.
    destruct (run_ehist_ok e (ehist_triples h c0) h (efresh dc0 c0)) as (st & outs & E & _ & Ha & Hs).
    { apply fresh_ok. } { exact Hwf. } { apply incl_refl. }
    exists st. rewrite (Hs (ekey_det_of_inj _ H1 H2)) in E. split; [exact E|exact Ha].
  Qed.

  (* a freshly built entry point in the same abstract state answers the specification too *)
  Theorem entry_fresh_spec e a d :
    doc_wf d ->
    hash_inj_on cfg kind cfg_hash (doc_triples cfg kind (fill (a_cfg a)) d) ->
    tok_hash_inj_on cfg kind tok_hash (doc_triples cfg kind (fill (a_cfg a)) d) ->
    efresh_lint e a d = Ok (espec_lint e a d).
  Proof.
    intros Hwf H1 H2. unfold C05Entry.efresh_lint.
    destruct (entry_lint_ok e (doc_triples cfg kind (fill (a_cfg a)) d) (mkestate (a_dict a) (fresh (a_cfg a)) (a_ign a)) d [] [])
      as (st1 & out & flags & E & _ & _ & Hs).
    { apply fresh_ok. } { exact Hwf. } { apply incl_refl. }
    rewrite E. cbn [bind]. f_equal. rewrite (Hs (ekey_det_of_inj _ H1 H2)). destruct a; reflexivity.
  Qed.

  Lemma espec_hist_app e : forall (h : list eop) a d evs sevs,
    espec_hist e (h ++ [ELint d evs sevs]) a = espec_hist e h a ++ [espec_lint e (abs_after h a) d].
  Proof.
    induction h as [|o h IH]; intros a d evs sevs; [reflexivity|].
    destruct o; cbn [app C05Entry.espec_hist]; unfold C05Entry.abs_after; cbn [fold_left C05Entry.astep];
      rewrite IH; reflexivity.
  Qed.

  Lemma ehist_wf_app : forall (h : list eop) d evs sevs, ehist_wf (h ++ [ELint d evs sevs]) -> ehist_wf h.
  Proof.
    induction h as [|o h IH]; intros d evs sevs H; [exact I|].
    destruct o; cbn [app C05Entry.ehist_wf] in *; try (now apply (IH d evs sevs)).
    destruct H as [Hd H]. split; [assumption|]. now apply (IH d evs sevs).
  Qed.

  (* HISTORY INDEPENDENCE.  Two histories (on one entry point each: other documents in other languages, other
     configurations toggled and toggled back, lints ignored and un-ignored, dictionaries rebuilt, any evictions),
     started from any dictionaries / configurations, that END in the same abstract state — dictionary, stored
     configuration, ignored context hashes — give the SAME answer for the document linted next. *)
  Theorem entry_history_independent e (h1 h2 : list eop) dc1 c1 dc2 c2 d evs1 sevs1 evs2 sevs2 :
    let g1 := h1 ++ [ELint d evs1 sevs1] in
    let g2 := h2 ++ [ELint d evs2 sevs2] in
    ehist_wf g1 -> ehist_wf g2 ->
    hash_inj_on cfg kind cfg_hash (ehist_triples g1 c1) -> tok_hash_inj_on cfg kind tok_hash (ehist_triples g1 c1) ->
    hash_inj_on cfg kind cfg_hash (ehist_triples g2 c2) -> tok_hash_inj_on cfg kind tok_hash (ehist_triples g2 c2) ->
    abs_after h1 (mkastate dc1 c1 []) = abs_after h2 (mkastate dc2 c2 []) ->
    exists st1 st2 o1 o2 out,
      run_ehist e g1 (efresh dc1 c1) = Ok (st1, o1 ++ [out]) /\
      run_ehist e g2 (efresh dc2 c2) = Ok (st2, o2 ++ [out]) /\
      out = espec_lint e (abs_after h1 (mkastate dc1 c1 [])) d.
  Proof.
    intros g1 g2 W1 W2 A1 B1 A2 B2 Habs.
    destruct (entry_refinement e g1 dc1 c1 W1 A1 B1) as (st1 & E1 & _).
    destruct (entry_refinement e g2 dc2 c2 W2 A2 B2) as (st2 & E2 & _).
    unfold g1, g2 in E1, E2. rewrite espec_hist_app in E1, E2. rewrite <- Habs in E2.
    eexists st1, st2, _, _, _. split; [exact E1|]. split; [exact E2|reflexivity].
  Qed.
End EntryFacts.

(* ---------- the concrete configuration operations: fill_with_curated is idempotent on its result's
   enabled-ness is C11's business; here only what C05 needs: they are FUNCTIONS of their arguments (by
   construction) and the restore step of the entry points makes the stored configuration survive a lint ---------- *)
Lemma entry_lint_restores_cfg cfg kind dict cfg_hash tok_hash fill pattern_rel struct_pre struct_post spell_on suggest spell_mk ctx
      e (st st' : estate cfg dict) d evs sevs out flags :
  entry_lint cfg kind dict cfg_hash tok_hash fill pattern_rel struct_pre struct_post spell_on suggest spell_mk ctx e st d evs sevs
    = Ok (st', out, flags) ->
  st_cfg (e_lg st') = st_cfg (e_lg st) /\ e_dict st' = e_dict st /\ e_ign st' = e_ign st.
Proof.
  unfold entry_lint. destruct (lint_group_lint _ _ _ _ _ _ _ _ _ _ _ _ _ _ _ _) as [[[lg2 o] f]|]; cbn [bind]; [|discriminate].
  intros E. injection E as <- _ _. cbn. auto.
Qed.

(* ---------- non-vacuity: a wasm-style and an ls-style history over the example rules of CacheProofs ---------- *)
(* dictionaries 0 and 1: under dictionary 1 the word kind 2 is known (no pattern lint on it) *)
Definition ee_rel (dc : N) (ch : text) (t : list (tok N)) (c : N) : list clint :=
  if N.eqb dc 1 then [] else ex_rel ch t c.
Definition ee_pre (dc c : N) (d : doc N) : list clint := [mkclint (mkspan 0 2) (d_rest d)].
Definition ee_post (dc c : N) (d : doc N) : list clint := [].
Definition ee_suggest (dc : N) (w : text) : list text := [w ++ [33 + dc]%N].
(* fill_with_curated: configuration 0 (nothing set) is filled to 1; others stay *)
Definition ee_fill (c : N) : N := if N.eqb c 0 then 1%N else c.
(* the context hash: body and length of the span (location-agnostic) *)
Definition ee_ctx (d : doc N) (l : clint) : N := (cl_body l * 100 + N.of_nat (send (cl_span l) - sstart (cl_span l)))%N.
Definition ee_run (e : entry) := run_ehist N N N (fun c => c) ex_tok_hash ee_fill ee_rel ee_pre ee_post (fun _ => true) ee_suggest ex_mk ee_ctx e.
Definition ee_spec (e : entry) := espec_hist N N N ee_fill ee_rel ee_pre ee_post (fun _ => true) ee_suggest ex_mk ee_ctx e.
Definition ee_hist : list (eop N N N) :=
  [ELint (ex_doc 0) [] [];                                   (* stored cfg 0 -> effective 1 *)
   EIgnore (ex_doc 0) (mkclint (mkspan 1 2) 7%N);            (* ignore the pattern lint with body 7 and length 1 *)
   ELint (ex_doc 0) [] [];                                   (* all hits; both occurrences filtered *)
   ESetCfg 2%N; ELint (ex_doc 1) [] [];
   ERebuild 1%N 0%N; ELint (ex_doc 0) [] [];                 (* new dictionary: empty caches, other rules *)
   EClearIgnored; EEvict (fun _ => false) (fun _ => false);
   ERebuild 0%N 0%N; ELint (ex_doc 0) [] []].                (* back: the lint is no longer ignored *)
Definition ee_outs (r : res (estate N N * list (list clint))) : list (list (nat * nat * N)) :=
  match r with
  | Ok (_, outs) => map (map (fun l => (sstart (cl_span l), send (cl_span l), cl_body l))) outs
  | Panic _ => []
  end.
