(* C14EditProofs.v — C14, phase 3: the context of a lint under an EDIT of the document, over Model/Ignore.v.
   An edit is seen at the level the code sees it: the token vector and the source of the new document.
       prepend :  (P ++ D,  tsA ++ shift |P| tsB)       tokens tsA end at or before |P|
       append  :  (D ++ S,  tsB ++ tsC)                 tokens tsC start at or after |D|
       edit    :  (X ++ M ++ Y, tsX ++ shift |X| (tsM ++ tsY))  vs  (X' ++ M ++ Y', tsX' ++ shift |X'| (tsM ++ tsY'))
   Tokens elsewhere are inserted / removed freely (tsX, tsY against tsX', tsY': ANY vectors with the stated
   position bounds); the premise about the edit is exactly: the middle part M keeps its tokens, and the lint
   (in M's coordinates, span [s,e)) has its two-character windows inside M:  2 <= s,  s <= |M|,  e + 2 <= |M|.
   Both bounds are needed (context_prepend_needs_two, context_append_needs_two).
   No proof here mentions twin_loc: re-pairing of quotation marks is dealt with in C14Prepend.v through
   blank_doc (IgnoreProofs.context_blank_doc) and C02's match_quotes_any. *)
Require Import Base Suggestion Ignore ListLemmas IgnoreProofs.

(* a token moved by n characters *)
Definition shift_tok (n : nat) (t : token) : token := mktok (push_by (tspan t) n) (tkd t).

(* ---------- token_indices_intersecting on glued vectors ---------- *)
Lemma overlaps_push a b n : overlaps (push_by a n) (push_by b n) = overlaps a b.
Proof.
  unfold overlaps, push_by. cbn [sstart send].
  destruct (Nat.ltb_spec (sstart a + n) (send b + n)), (Nat.ltb_spec (sstart a) (send b)); try lia;
  destruct (Nat.ltb_spec (sstart b + n) (send a + n)), (Nat.ltb_spec (sstart b) (send a)); try lia; reflexivity.
Qed.

Lemma indices_from_shift n ts w : forall i,
  indices_from i (map (shift_tok n) ts) (push_by w n) = indices_from i ts w.
Proof.
  induction ts as [|t r IH]; intros i; cbn [map indices_from]; [reflexivity|].
  unfold shift_tok at 1. cbn [tspan]. rewrite overlaps_push, !IH. reflexivity.
Qed.

Lemma indices_from_none ts w :
  (forall t, In t ts -> overlaps (tspan t) w = false) -> forall i, indices_from i ts w = [].
Proof.
  induction ts as [|t r IH]; intros H i; cbn [indices_from]; [reflexivity|].
  rewrite (H t (or_introl eq_refl)). apply IH. intros t' Ht'. apply H. right. exact Ht'.
Qed.

Lemma indices_from_app a b w : forall i,
  indices_from i (a ++ b) w = indices_from i a w ++ indices_from (i + length a) b w.
Proof.
  induction a as [|t r IH]; intros i; cbn [app indices_from length].
  - rewrite Nat.add_0_r. reflexivity.
  - rewrite IH. replace (S i + length r) with (i + S (length r)) by lia.
    destruct (overlaps (tspan t) w); reflexivity.
Qed.

Lemma indices_from_offset ts w k : forall i,
  indices_from (i + k) ts w = map (fun j => j + k) (indices_from i ts w).
Proof.
  induction ts as [|t r IH]; intros i; cbn [indices_from map]; [reflexivity|].
  change (S (i + k)) with (S i + k). rewrite IH. destruct (overlaps (tspan t) w); reflexivity.
Qed.

Lemma indices_from_lt ts w : forall i j, In j (indices_from i ts w) -> i <= j < i + length ts.
Proof.
  induction ts as [|t r IH]; intros i j H; cbn [indices_from length] in *; [destruct H|].
  destruct (overlaps (tspan t) w).
  - destruct H as [<-|H]; [lia|]. apply IH in H. lia.
  - apply IH in H. lia.
Qed.

Lemma get_tokens_app_r (a b : list token) idx :
  get_tokens (a ++ b) (map (fun j => j + length a) idx) = get_tokens b idx.
Proof.
  induction idx as [|i r IH]; cbn [map get_tokens]; [reflexivity|].
  rewrite nth_error_app2 by lia. replace (i + length a - length a) with i by lia. rewrite IH. reflexivity.
Qed.

Lemma get_tokens_app_l (a b : list token) idx :
  (forall j, In j idx -> j < length a) -> get_tokens (a ++ b) idx = get_tokens a idx.
Proof.
  induction idx as [|i r IH]; intros H; cbn [get_tokens]; [reflexivity|].
  rewrite nth_error_app1 by (apply H; left; reflexivity).
  rewrite IH by (intros j Hj; apply H; right; exact Hj). reflexivity.
Qed.

Lemma map_res_ext_in {A B} (f g : A -> res B) l : (forall x, In x l -> f x = g x) -> map_res f l = map_res g l.
Proof.
  induction l as [|x r IH]; intros H; cbn [map_res]; [reflexivity|].
  rewrite (H x (or_introl eq_refl)), IH by (intros y Hy; apply H; right; exact Hy). reflexivity.
Qed.

(* ---------- the source under the tokens ---------- *)
Lemma slice_prepend {A} (P D : list A) s e : slice (P ++ D) (s + length P) (e + length P) = slice D s e.
Proof.
  unfold slice. replace (e + length P - (s + length P)) with (e - s) by lia.
  rewrite skipn_app, skipn_all2 by lia. replace (s + length P - length P) with s by lia. reflexivity.
Qed.

Lemma slice_append {A} (D S : list A) s e : s <= e -> e <= length D -> slice (D ++ S) s e = slice D s e.
Proof.
  intros H1 H2. unfold slice. rewrite skipn_app. replace (s - length D) with 0 by lia. cbn [skipn].
  rewrite firstn_app, skipn_length. replace (e - s - (length D - s)) with 0 by lia. cbn [firstn].
  apply app_nil_r.
Qed.

Lemma to_fat_prepend P D t : span_in (length D) (tspan t) ->
  to_fat (P ++ D) (shift_tok (length P) t) = to_fat D t.
Proof.
  intros H. rewrite (to_fat_wf D t H). rewrite to_fat_wf.
  - unfold shift_tok, push_by. cbn [tspan tkd sstart send]. rewrite slice_prepend. reflexivity.
  - destruct H as [H1 H2]. unfold span_in, shift_tok, push_by. cbn [tspan sstart send]. rewrite app_length. lia.
Qed.

Lemma to_fat_append D S t : span_in (length D) (tspan t) -> to_fat (D ++ S) t = to_fat D t.
Proof.
  intros H. rewrite (to_fat_wf D t H). rewrite to_fat_wf.
  - destruct H as [H1 H2]. rewrite slice_append by assumption. reflexivity.
  - destruct H as [H1 H2]. unfold span_in. rewrite app_length. lia.
Qed.

(* ---------- one window ---------- *)
(* tokens in front of position n never meet a window that starts at or after n *)
Lemma window_prepend tsA tsB n w :
  Forall (fun t => send (tspan t) <= n) tsA ->
  get_tokens (tsA ++ map (shift_tok n) tsB) (indices_from 0 (tsA ++ map (shift_tok n) tsB) (push_by w n))
  = map (shift_tok n) (get_tokens tsB (indices_from 0 tsB w)).
Proof.
  intros HA. rewrite indices_from_app, indices_from_none.
  - cbn [app]. rewrite indices_from_shift, (indices_from_offset tsB w (length tsA) 0).
    rewrite get_tokens_app_r, get_tokens_map. reflexivity.
  - intros t Ht. rewrite Forall_forall in HA. specialize (HA t Ht).
    unfold overlaps, push_by. cbn [sstart send].
    destruct (Nat.ltb_spec (sstart w + n) (send (tspan t))) as [H|H]; [lia|]. apply andb_false_r.
Qed.

Lemma window_tokens_prepend P D tsA tsB w :
  doc_wf (mkdoc D tsB) -> Forall (fun t => send (tspan t) <= length P) tsA ->
  window_tokens (mkdoc (P ++ D) (tsA ++ map (shift_tok (length P)) tsB)) (push_by w (length P))
  = window_tokens (mkdoc D tsB) w.
Proof.
  intros Hwf HA. unfold window_tokens, token_indices_intersecting. cbn [dsrc dtoks].
  rewrite (window_prepend tsA tsB (length P) w HA), map_res_map.
  apply map_res_ext_in. intros t Ht. apply get_tokens_In in Ht.
  unfold doc_wf in Hwf. cbn [dsrc dtoks] in Hwf. rewrite Forall_forall in Hwf.
  apply to_fat_prepend, Hwf, Ht.
Qed.

(* tokens behind position |D| never meet a window that ends at or before |D| *)
Lemma window_tokens_append D S tsB tsC w :
  doc_wf (mkdoc D tsB) -> Forall (fun t => length D <= sstart (tspan t)) tsC -> send w <= length D ->
  window_tokens (mkdoc (D ++ S) (tsB ++ tsC)) w = window_tokens (mkdoc D tsB) w.
Proof.
  intros Hwf HC Hw. unfold window_tokens, token_indices_intersecting. cbn [dsrc dtoks].
  rewrite indices_from_app, (indices_from_none tsC), app_nil_r.
  - rewrite get_tokens_app_l by (intros j Hj; apply indices_from_lt in Hj; lia).
    apply map_res_ext_in. intros t Ht. apply get_tokens_In in Ht.
    unfold doc_wf in Hwf. cbn [dsrc dtoks] in Hwf. rewrite Forall_forall in Hwf.
    apply to_fat_append, Hwf, Ht.
  - intros t Ht. rewrite Forall_forall in HC. specialize (HC t Ht). unfold overlaps.
    destruct (Nat.ltb_spec (sstart (tspan t)) (send w)) as [H|H]; [lia|]. reflexivity.
Qed.

(* ---------- the neighbourhood, hence the context ---------- *)
Lemma before_window_push sp n : 2 <= sstart sp -> before_window (push_by sp n) = push_by (before_window sp) n.
Proof. intros H. unfold before_window, push_by. cbn [sstart send]. f_equal. lia. Qed.
Lemma after_window_push sp n : after_window (push_by sp n) = push_by (after_window sp) n.
Proof. unfold after_window, push_by. cbn [sstart send]. f_equal. lia. Qed.

Definition prepend_doc (P : text) (tsA : list token) (d : doc) : doc :=
  mkdoc (P ++ dsrc d) (tsA ++ map (shift_tok (length P)) (dtoks d)).
Definition append_doc (d : doc) (S : text) (tsC : list token) : doc :=
  mkdoc (dsrc d ++ S) (dtoks d ++ tsC).

Lemma nb_parts_prepend P tsA d l :
  doc_wf d -> Forall (fun t => send (tspan t) <= length P) tsA -> 2 <= sstart (il_span l) ->
  nb_parts (shift_lint (length P) l) (prepend_doc P tsA d) = nb_parts l d.
Proof.
  intros Hwf HA H2. destruct d as [D tsB]. unfold nb_parts, prepend_doc, shift_lint, shift_span. cbn [il_span dsrc dtoks].
  rewrite (before_window_push _ _ H2), after_window_push.
  rewrite !(window_tokens_prepend P D tsA tsB _ Hwf HA). reflexivity.
Qed.

Lemma nb_parts_append d S tsC l :
  doc_wf d -> Forall (fun t => length (dsrc d) <= sstart (tspan t)) tsC ->
  sstart (il_span l) <= length (dsrc d) -> send (il_span l) + 2 <= length (dsrc d) ->
  nb_parts l (append_doc d S tsC) = nb_parts l d.
Proof.
  intros Hwf HC H1 H2. destruct d as [D tsB]. unfold nb_parts, append_doc. cbn [dsrc dtoks] in *.
  rewrite !(window_tokens_append D S tsB tsC _ Hwf HC); [reflexivity| | |].
  - unfold after_window. cbn [send]. lia.
  - lia.
  - unfold before_window. cbn [send]. lia.
Qed.

Lemma context_of_nb_parts l d l' d' :
  same_report l l' -> nb_parts l d = nb_parts l' d' -> context l d = context l' d'.
Proof.
  intros [K [S [M P]]] E. unfold context. rewrite !context_tokens_nb. unfold nb_tokens.
  rewrite E, K, S, M, P. reflexivity.
Qed.

Lemma same_report_shift n l : same_report l (shift_lint n l).
Proof. unfold same_report, shift_lint. cbn. auto. Qed.

(* PREPEND: any tokens in front (they end at or before |P|), the document's own tokens moved by |P| *)
Theorem context_prepend P tsA d l :
  doc_wf d -> Forall (fun t => send (tspan t) <= length P) tsA -> 2 <= sstart (il_span l) ->
  context (shift_lint (length P) l) (prepend_doc P tsA d) = context l d.
Proof.
  intros Hwf HA H2. symmetry. apply context_of_nb_parts; [apply same_report_shift|].
  symmetry. apply nb_parts_prepend; assumption.
Qed.

(* APPEND: any tokens behind (they start at or after |D|) *)
Theorem context_append d S tsC l :
  doc_wf d -> Forall (fun t => length (dsrc d) <= sstart (tspan t)) tsC ->
  sstart (il_span l) <= length (dsrc d) -> send (il_span l) + 2 <= length (dsrc d) ->
  context l (append_doc d S tsC) = context l d.
Proof.
  intros Hwf HC H1 H2. apply context_of_nb_parts; [unfold same_report; auto|].
  apply nb_parts_append; assumption.
Qed.

(* EDIT: the document is X ++ M ++ Y with the tokens of X, then those of M and of Y (both in M's coordinates,
   moved by |X|).  Everything about X and Y may change. *)
Definition around (X : text) (tsX : list token) (M : text) (tsM : list token) (Y : text) (tsY : list token) : doc :=
  prepend_doc X tsX (append_doc (mkdoc M tsM) Y tsY).

Definition fits_before (X : text) (tsX : list token) : Prop := Forall (fun t => send (tspan t) <= length X) tsX.
Definition fits_after (M Y : text) (tsY : list token) : Prop :=
  Forall (fun t => length M <= sstart (tspan t) /\ span_in (length (M ++ Y)) (tspan t)) tsY.

Lemma around_context X tsX M tsM Y tsY l :
  doc_wf (mkdoc M tsM) -> fits_before X tsX -> fits_after M Y tsY ->
  2 <= sstart (il_span l) -> sstart (il_span l) <= length M -> send (il_span l) + 2 <= length M ->
  context (shift_lint (length X) l) (around X tsX M tsM Y tsY) = context l (mkdoc M tsM).
Proof.
  intros Hwf HX HY H2 H3 H4. unfold around. rewrite context_prepend; [| |exact HX|exact H2].
  - apply context_append; cbn [dsrc]; [exact Hwf| |exact H3|exact H4].
    eapply Forall_impl; [|exact HY]. cbn beta. intros t [Ht _]. exact Ht.
  - unfold doc_wf, append_doc. cbn [dsrc dtoks]. apply Forall_app. split.
    + eapply Forall_impl; [|exact Hwf]. cbn beta. cbn [dsrc dtoks]. intros t [Ha Hb]. split; [exact Ha|]. rewrite app_length. lia.
    + eapply Forall_impl; [|exact HY]. cbn beta. intros t [_ Ht]. exact Ht.
Qed.

Theorem context_edit X tsX X' tsX' M tsM Y tsY Y' tsY' l :
  doc_wf (mkdoc M tsM) ->
  fits_before X tsX -> fits_before X' tsX' -> fits_after M Y tsY -> fits_after M Y' tsY' ->
  2 <= sstart (il_span l) -> sstart (il_span l) <= length M -> send (il_span l) + 2 <= length M ->
  context (shift_lint (length X) l) (around X tsX M tsM Y tsY)
  = context (shift_lint (length X') l) (around X' tsX' M tsM Y' tsY').
Proof.
  intros Hwf HX HX' HY HY' H2 H3 H4.
  rewrite (around_context X tsX M tsM Y tsY l), (around_context X' tsX' M tsM Y' tsY' l); auto.
Qed.

(* hence: an ignored lint stays ignored across the edit — any hash, any history in between *)
Theorem stable_edit (hash : ctx -> N) X tsX X' tsX' M tsM Y tsY Y' tsY' l s s1 hist s2 :
  doc_wf (mkdoc M tsM) ->
  fits_before X tsX -> fits_before X' tsX' -> fits_after M Y tsY -> fits_after M Y' tsY' ->
  2 <= sstart (il_span l) -> sstart (il_span l) <= length M -> send (il_span l) + 2 <= length M ->
  ignore_lint context hash s (shift_lint (length X) l) (around X tsX M tsM Y tsY) = Ok s1 ->
  ignore_all context hash s1 hist = Ok s2 ->
  is_ignored context hash s2 (shift_lint (length X') l) (around X' tsX' M tsM Y' tsY') = Ok true.
Proof.
  intros Hwf HX HX' HY HY' H2 H3 H4 E1 E2.
  destruct (ignore_lint_inv context hash _ _ _ _ E1) as [c [Ec _]].
  apply (same_context_stays_ignored context hash s _ _ _ _ s1 hist s2 c Ec); [|exact E1|exact E2].
  rewrite <- (context_edit X tsX X' tsX' M tsM Y tsY Y' tsY' l); assumption.
Qed.

Ltac wf_tac :=
  unfold doc_wf, fits_before, fits_after;
  repeat (first [apply Forall_nil | apply Forall_cons]); vm_compute; lia.

(* ---------- the two bounds are needed ---------- *)
(* M = `ab cd`, the lint flags `b` at [1,2): in front of it only ONE character belongs to M.  Prepending the
   one-character token `x` puts a new token inside the two-character window: the context changes. *)
Definition w_tok (a b : nat) : token := mktok (mkspan a b) (KWord None).
Definition needs_M : text := [97; 98; 32; 99; 100]%N.
Definition needs_ts : list token := [w_tok 0 2; mktok (mkspan 2 3) (KSpace 1); w_tok 3 5].
Definition needs_l (a b : nat) : ilint := mkilint (mkspan a b) 0%N [] [] 0%N.

Example context_prepend_needs_two :
  doc_wf (mkdoc needs_M needs_ts) /\ fits_before [120%N] [w_tok 0 1] /\ sstart (il_span (needs_l 1 2)) = 1 /\
  context (shift_lint 1 (needs_l 1 2)) (prepend_doc [120%N] [w_tok 0 1] (mkdoc needs_M needs_ts))
  <> context (needs_l 1 2) (mkdoc needs_M needs_ts).
Proof.
  split; [wf_tac|]. split; [wf_tac|]. split; [reflexivity|].
  vm_compute. discriminate.
Qed.

(* the lint flags `c` at [3,4): behind its end only ONE character belongs to M; appending a token changes the context *)
Example context_append_needs_two :
  fits_after needs_M [120%N] [w_tok 5 6] /\ send (il_span (needs_l 3 4)) + 2 = S (length needs_M) /\
  context (needs_l 3 4) (append_doc (mkdoc needs_M needs_ts) [120%N] [w_tok 5 6])
  <> context (needs_l 3 4) (mkdoc needs_M needs_ts).
Proof.
  split; [wf_tac|]. split; [reflexivity|]. vm_compute. discriminate.
Qed.

(* non-vacuity of context_edit: `ab cd ef` with the lint on `cd`, other tokens in front and behind *)
Example context_edit_example :
  let M := [97; 98; 32; 99; 100; 32; 101; 102]%N in
  let tsM := [w_tok 0 2; mktok (mkspan 2 3) (KSpace 1); w_tok 3 5; mktok (mkspan 5 6) (KSpace 1); w_tok 6 8] in
  let l := needs_l 3 5 in
  doc_wf (mkdoc M tsM) /\ fits_before [120; 32]%N [w_tok 0 1; mktok (mkspan 1 2) (KSpace 1)] /\ fits_before [] [] /\
  fits_after M [32; 121]%N [mktok (mkspan 8 9) (KSpace 1); w_tok 9 10] /\ fits_after M [] [] /\
  2 <= sstart (il_span l) /\ sstart (il_span l) <= length M /\ send (il_span l) + 2 <= length M /\
  context (shift_lint 2 l) (around [120; 32]%N [w_tok 0 1; mktok (mkspan 1 2) (KSpace 1)] M tsM [32; 121]%N
                                    [mktok (mkspan 8 9) (KSpace 1); w_tok 9 10])
  = Ok (mkctx 0%N [] [] 0%N [(KWord None, [97; 98]%N); (KSpace 1, [32%N]); (KWord None, [99; 100]%N); (KSpace 1, [32%N]);
                             (KWord None, [101; 102]%N)]).
Proof.
  cbv zeta. split; [wf_tac|]. split; [wf_tac|]. split; [wf_tac|].
  split; [wf_tac|]. split; [wf_tac|].
  split; [vm_compute; lia|]. split; [vm_compute; lia|]. split; [vm_compute; lia|]. vm_compute. reflexivity.
Qed.
