(* C12CurrencyProofs.v — phase 7: the token well-formedness invariant under `g0_inside`, and g0_inside for
   CurrencyPlacement's body.

   C12MergeProofs.g0_inside quantifies over UNRELATED (slice, characters) pairs; a faithful body computes its spans from
   the slice's tokens and reports inside the characters only when the tokens are non-empty and lie inside them.  Here:
   (1) g0_inside_wf: the same demand for well-formed pairs only (wf_pairb: every token covers >= 1 character and ends
       inside the characters);
   (2) on token lists that are well-formed for the source (toks_wf) every slice `lift` hands to a body is a well-formed
       pair, so `schema_rule p (guard_wf g0)` and `schema_rule p g0` agree there (schema_guard_eq);
   (3) the tokens of every plain-English Document are well-formed (doc_tokens_wf, from C02's tiling theorem);
   (4) main_wf: C12CommaMain.main_complete with g0_inside weakened to g0_inside_wf for all ten bodies;
   (5) cp_body_inside_wf: CurrencyPlacement's body (C13's three generators on the slice) satisfies g0_inside_wf for ANY
       currency test / verdict; main_currency: nine bodies left. *)
From Coq Require Import List String Arith NArith Lia Bool Sorting.Permutation.
Require Import Base Overlap Lexer Condense TokenInv DocumentProofs ParaSplit ParaSplitProofs C12Doc LexSplitProofs C12CondSplit
  Tables_c12rules C12RuleShapes C12Merge C12MergeProofs C12Windows C12WindowsProofs C12Main C12Comma C12CommaProofs
  C12CommaMain C13Callers C12Currency.
Import ListNotations.
Open Scope list_scope.

(* ---------- (1) the invariant ---------- *)
Definition tok_wf (n : nat) (t : tok) : Prop := sstart (tspan t) < send (tspan t) /\ send (tspan t) <= n.
Definition toks_wf (n : nat) (ts : list tok) : Prop := Forall (tok_wf n) ts.

Definition g0_inside_wf (g0 : body) : Prop :=
  forall c chars, wf_pairb c chars = true -> Forall (lint_inside (length chars)) (g0 c chars).

Lemma tok_wfb_spec n t : tok_wfb n t = true <-> tok_wf n t.
Proof.
  unfold tok_wfb, tok_wf. rewrite andb_true_iff, Nat.ltb_lt, Nat.leb_le. reflexivity.
Qed.

Lemma wf_pairb_spec c chars : wf_pairb c chars = true <-> toks_wf (length chars) c.
Proof.
  unfold wf_pairb, toks_wf. rewrite forallb_forall, Forall_forall.
  split; intros H t Ht; apply tok_wfb_spec; now apply H.
Qed.

Lemma guard_wf_inside g0 : g0_inside_wf g0 -> g0_inside (guard_wf g0).
Proof.
  intros H c chars. unfold guard_wf. destruct (wf_pairb c chars) eqn:E; [now apply H|constructor].
Qed.

Lemma g0_inside_weaken g0 : g0_inside g0 -> g0_inside_wf g0.
Proof. intros H c chars _. apply H. Qed.

(* ---------- (2) slices of well-formed token lists are well-formed pairs ---------- *)
Lemma fold_min_le_init xs x : fold_left Nat.min xs x <= x.
Proof. revert x. induction xs as [|y xs IH]; intros x; cbn [fold_left]; [lia|]. specialize (IH (Nat.min x y)). lia. Qed.

Lemma fold_min_le_in xs x y : In y xs -> fold_left Nat.min xs x <= y.
Proof.
  revert x. induction xs as [|z xs IH]; intros x Hy; [destruct Hy|]. cbn [fold_left].
  destruct Hy as [->|Hy]; [|now apply IH]. pose proof (fold_min_le_init xs (Nat.min x y)). lia.
Qed.

Lemma fold_max_ge_init xs x : x <= fold_left Nat.max xs x.
Proof. revert x. induction xs as [|y xs IH]; intros x; cbn [fold_left]; [lia|]. specialize (IH (Nat.max x y)). lia. Qed.

Lemma fold_max_ge_in xs x y : In y xs -> y <= fold_left Nat.max xs x.
Proof.
  revert x. induction xs as [|z xs IH]; intros x Hy; [destruct Hy|]. cbn [fold_left].
  destruct Hy as [->|Hy]; [|now apply IH]. pose proof (fold_max_ge_init xs (Nat.max x y)). lia.
Qed.

Lemma endpoints_in c t : In t c -> In (sstart (tspan t)) (endpoints c) /\ In (send (tspan t)) (endpoints c).
Proof.
  intros Ht. unfold endpoints. split; apply in_flat_map; exists t; (split; [exact Ht|]); cbn; auto.
Qed.

(* the hull lies around every token of the slice *)
Lemma hull_around c sp t : hull c = Some sp -> In t c -> sstart sp <= sstart (tspan t) /\ send (tspan t) <= send sp.
Proof.
  unfold hull. intros H Ht. destruct (endpoints_in c t Ht) as [Hs He].
  destruct (endpoints c) as [|x xs]; [discriminate|]. injection H as <-. cbn [sstart send].
  split.
  - destruct Hs as [<-|Hs]; [apply fold_min_le_init|now apply fold_min_le_in].
  - destruct He as [<-|He]; [apply fold_max_ge_init|now apply fold_max_ge_in].
Qed.

Lemma wf_in_bounds n c : toks_wf n c -> in_bounds n c.
Proof. apply Forall_impl. intros t [H1 H2]. unfold tok_in. lia. Qed.

Lemma slice_length {A} (l : list A) s e : e <= length l -> length (slice l s e) = e - s.
Proof. intros H. unfold slice. rewrite firstn_length, skipn_length. lia. Qed.

Lemma lift_guard g0 c src : toks_wf (length src) c -> lift (guard_wf g0) c src = lift g0 c src.
Proof.
  intros Hc. unfold lift. destruct (hull c) as [sp|] eqn:Eh; [|reflexivity].
  destruct (hull_in_bounds _ _ _ (wf_in_bounds _ _ Hc) Eh) as [_ Hn].
  unfold guard_wf.
  replace (wf_pairb (rel_chunk (sstart sp) c) (slice src (sstart sp) (send sp))) with true; [reflexivity|].
  symmetry. apply wf_pairb_spec. rewrite slice_length by exact Hn.
  unfold toks_wf, rel_chunk. rewrite Forall_map. unfold toks_wf in Hc. rewrite Forall_forall in Hc |- *.
  intros t Ht. destruct (Hc t Ht) as [H1 H2]. destruct (hull_around c sp t Eh Ht) as [H3 H4].
  unfold tok_wf, rel_tok. cbn [tspan sstart send]. lia.
Qed.

Lemma wf_concat n cs : toks_wf n (concat cs) -> Forall (toks_wf n) cs.
Proof.
  induction cs as [|c cs IH]; intros H; [constructor|]. cbn [concat] in H.
  apply Forall_app in H. destruct H as [H1 H2]. constructor; [exact H1|now apply IH].
Qed.

Theorem schema_guard_eq p g0 ts src :
  toks_wf (length src) ts -> schema_rule p (guard_wf g0) ts src = schema_rule p g0 ts src.
Proof.
  intros H. unfold schema_rule. apply flat_map_ext_in. intros c Hc. apply lift_guard.
  assert (Hall : Forall (toks_wf (length src)) (iter_by p ts)) by (apply wf_concat; now rewrite concat_iter_by).
  rewrite Forall_forall in Hall. now apply Hall.
Qed.

(* ---------- (3) Document tokens are well-formed (C02: they tile the text) ---------- *)
Theorem doc_tokens_wf u s : toks_wf (length s) (doc_tokens u s).
Proof.
  destruct (document_plain_tiling u s) as (ts & E & T & _). unfold doc_tokens. rewrite E.
  pose proof (tiling_nonempty _ _ _ T) as N. pose proof (tiling_in_range _ _ _ T) as R.
  unfold toks_wf. rewrite Forall_map. rewrite Forall_forall in N, R |- *. intros t Ht.
  specialize (N t Ht). destruct (R t Ht) as [_ R2]. unfold tok_wf, to_ps, tstart, tend in *. cbn [ParaSplit.tspan]. lia.
Qed.

(* ---------- (4) the rule list with every remove_overlaps body guarded = the rule list, on well-formed tokens ---------- *)
Definition is_ro_body (n : string) : bool := existsb (String.eqb n) ro_bodies_expected.
Definition guard_ro (g0 : string -> body) : string -> body :=
  fun n => if is_ro_body n then guard_wf (g0 n) else g0 n.

Lemma guard_ro_schema p g0 n ts src :
  toks_wf (length src) ts -> schema_rule p (guard_ro g0 n) ts src = schema_rule p (g0 n) ts src.
Proof. intros H. unfold guard_ro. destruct (is_ro_body n); [now apply schema_guard_eq|reflexivity]. Qed.

(* rows that are neither Merge nor ThenRemoveOverlaps do not carry the name of a remove_overlaps body (table fact) *)
Definition row_plain (r : row) : bool :=
  match resolve (row_shape r) with
  | Merge | ThenRemoveOverlaps _ => true
  | _ => negb (is_ro_body (row_name r))
  end.
Lemma rows_plain : forallb row_plain struct_rules = true.
Proof. vm_compute. reflexivity. Qed.

Lemma row_rule_guard g0 r ts src :
  row_plain r = true -> toks_wf (length src) ts ->
  match row_rule (guard_ro g0) r with Some x => x ts src | None => [] end
  = match row_rule g0 r with Some x => x ts src | None => [] end
  /\ (row_rule (guard_ro g0) r = None <-> row_rule g0 r = None).
Proof.
  intros Hp Hw. unfold row_plain in Hp. unfold row_rule, guarded_row.
  destruct (resolve (row_shape r)) as [| | | | | |n|back fwd| |inner] eqn:Es;
    try (assert (En : guard_ro g0 (row_name r) = g0 (row_name r))
           by (unfold guard_ro; apply negb_true_iff in Hp; now rewrite Hp);
         try rewrite En; split; reflexivity).
  - (* Merge *)
    destruct (iter_pred (resolve ViaPatternLinter)) as [p|]; [|split; reflexivity].
    split; [|split; intros ?; discriminate].
    unfold merge_rule. f_equal. rewrite !flat_map_concat_map, !map_map. f_equal.
    apply map_ext. intros sub. now apply guard_ro_schema.
  - (* ThenRemoveOverlaps *)
    destruct (iter_pred (resolve inner)) as [p|]; [|split; reflexivity].
    split; [|split; intros ?; discriminate].
    unfold then_remove_overlaps. f_equal. now apply guard_ro_schema.
Qed.

Lemma curated_guard_eq unl g0 ts src :
  toks_wf (length src) ts ->
  flat_map (fun r : rule => r ts src) (curated_rules_all unl (guard_ro g0))
  = flat_map (fun r : rule => r ts src) (curated_rules_all unl g0).
Proof.
  intros Hw. unfold curated_rules_all, curated_rules. rewrite !flat_map_concat_map, !map_map. f_equal.
  apply map_ext_in. intros r Hr.
  pose proof rows_plain as Hall. rewrite forallb_forall in Hall. specialize (Hall r Hr).
  destruct (row_rule_guard g0 r ts src Hall Hw) as [E1 E2].
  destruct (row_rule (guard_ro g0) r) as [x|] eqn:Ea; destruct (row_rule g0 r) as [y|] eqn:Eb.
  - exact E1.
  - destruct E2 as [_ E2]. specialize (E2 eq_refl). discriminate.
  - destruct E2 as [E2 _]. specialize (E2 eq_refl). discriminate.
  - reflexivity.
Qed.

Lemma lints_guard_eq u chunk_fn unl g0 T :
  lints (doc_tokens u) chunk_fn (curated_rules_all unl (guard_ro g0)) T
  = lints (doc_tokens u) chunk_fn (curated_rules_all unl g0) T.
Proof.
  unfold lints, lint_group. f_equal. apply curated_guard_eq. apply doc_tokens_wf.
Qed.

Lemma guard_ro_inside g0 :
  (forall b, In b ro_bodies_expected -> g0_inside_wf (g0 b)) ->
  forall b, In b ro_bodies_expected -> g0_inside (guard_ro g0 b).
Proof.
  intros H b Hb. unfold guard_ro.
  assert (E : is_ro_body b = true).
  { unfold is_ro_body. apply existsb_exists. exists b. split; [exact Hb|apply String.eqb_refl]. }
  rewrite E. apply guard_wf_inside. now apply H.
Qed.

(* main_complete with the lints-inside-the-slice condition demanded for WELL-FORMED slices only *)
Theorem main_wf u :
  u_whitespace u NL = true -> u_numeric u NL = false -> u_alphabetic u NL = false -> u_lingual u NL = false ->
  forall (unl : tok -> bool), (forall n k t, unl (shift_tok n k t) = unl t) ->
  forall chunk_fn (g0 : string -> body),
  (forall b, In b ro_bodies_expected -> g0_inside_wf (g0 b)) ->
  forall P D, c12_premise P -> no_leading_nl D ->
    Permutation (lints (doc_tokens u) chunk_fn (curated_rules_all unl g0) (P ++ D))
                (lints (doc_tokens u) chunk_fn (curated_rules_all unl g0) P
                 ++ map (shift_lint (length P)) (lints (doc_tokens u) chunk_fn (curated_rules_all unl g0) D)).
Proof.
  intros H1 H2 H3 H4 unl Hunl chunk_fn g0 Hro P D HP HD.
  rewrite <- !(lints_guard_eq u chunk_fn unl g0).
  apply (main_complete u H1 H2 H3 H4 unl Hunl chunk_fn (guard_ro g0)); [|exact HP|exact HD].
  now apply guard_ro_inside.
Qed.

(* ---------- (5) CurrencyPlacement's body ---------- *)
(* every candidate span starts where a token of the slice starts and ends where a token of the slice ends *)
Definition from_toks (c : list ctok) (sp : span) : Prop :=
  (exists a, In a c /\ sstart sp = sstart (cspan a)) /\ (exists b, In b c /\ send sp = send (cspan b)).

Lemma gen_pair_from wrong a b sp c :
  In a c -> In b c -> gen_pair wrong a b = Ok (Some sp) -> from_toks c sp.
Proof.
  intros Ha Hb. unfold gen_pair.
  destruct (negb _); [discriminate|]. destruct (negb _); [discriminate|].
  unfold span_new. destruct (Nat.ltb (send (cspan b)) (sstart (cspan a))); cbn [bind]; [discriminate|].
  cbn [sstart send]. destruct (wrong _ _); [|discriminate]. intros [= <-].
  split; [exists a|exists b]; split; auto.
Qed.

Lemma from_toks_incl c c' sp : incl c c' -> from_toks c sp -> from_toks c' sp.
Proof. intros Hi [(a & Ha & Ea) (b & Hb & Eb)]. split; [exists a|exists b]; split; auto. Qed.

Lemma opt_list_from wrong a b c o :
  In a c -> In b c -> gen_pair wrong a b = Ok o -> Forall (from_toks c) (opt_list o).
Proof.
  intros Ha Hb E. destruct o as [sp|]; cbn [opt_list]; [|constructor].
  constructor; [|constructor]. exact (gen_pair_from wrong a b sp c Ha Hb E).
Qed.

Lemma windows2_from wrong c : forall l, C13Callers.windows2 wrong c = Ok l -> Forall (from_toks c) l.
Proof.
  induction c as [|a t IH]; intros l H; [injection H as <-; constructor|].
  destruct t as [|b t']; [injection H as <-; constructor|].
  change (C13Callers.windows2 wrong (a :: b :: t')) with
    (bind (gen_pair wrong a b) (fun o => bind (C13Callers.windows2 wrong (b :: t')) (fun r => Ok (opt_list o ++ r)))) in H.
  destruct (gen_pair wrong a b) as [o|] eqn:Eo; cbn [bind] in H; [|discriminate].
  destruct (C13Callers.windows2 wrong (b :: t')) as [r|] eqn:Er; cbn [bind] in H; [|discriminate].
  injection H as <-. apply Forall_app. split.
  - eapply opt_list_from; [| |exact Eo]; cbn; auto.
  - eapply Forall_impl; [|exact (IH r eq_refl)]. intros sp. apply from_toks_incl. apply incl_tl, incl_refl.
Qed.

Lemma first_triple_from wrong c l : first_triple wrong c = Ok l -> Forall (from_toks c) l.
Proof.
  unfold first_triple. destruct c as [|a [|b [|c' t]]]; try (intros [= <-]; constructor).
  destruct (ck_is_space (ck b)); [|intros [= <-]; constructor].
  destruct (gen_pair wrong a c') as [o|] eqn:Eo; cbn [bind]; [|discriminate]. intros [= <-].
  eapply opt_list_from; [| |exact Eo]; cbn; auto.
Qed.

Lemma windows4_from wrong c : forall l, windows4 wrong c = Ok l -> Forall (from_toks c) l.
Proof.
  induction c as [|p t IH]; intros l H; [injection H as <-; constructor|].
  destruct t as [|a [|b [|c' t']]]; try (injection H as <-; constructor).
  change (windows4 wrong (p :: a :: b :: c' :: t')) with
    (bind (if negb (ck_is_space (ck b)) || ck_is_currency (ck p) then Ok None else gen_pair wrong a c')
          (fun o => bind (windows4 wrong (a :: b :: c' :: t')) (fun r => Ok (opt_list o ++ r)))) in H.
  destruct (if negb (ck_is_space (ck b)) || ck_is_currency (ck p) then Ok None else gen_pair wrong a c') as [o|] eqn:Eo;
    cbn [bind] in H; [|discriminate].
  destruct (windows4 wrong (a :: b :: c' :: t')) as [r|] eqn:Er; cbn [bind] in H; [|discriminate].
  injection H as <-. apply Forall_app. split.
  - destruct (negb (ck_is_space (ck b)) || ck_is_currency (ck p)).
    + injection Eo as <-. constructor.
    + eapply opt_list_from; [| |exact Eo]; cbn; auto.
  - eapply Forall_impl; [|exact (IH r eq_refl)]. intros sp. apply from_toks_incl. apply incl_tl, incl_refl.
Qed.

Lemma chunk_cands_from wrong c l : chunk_cands wrong c = Ok l -> Forall (from_toks c) l.
Proof.
  unfold chunk_cands.
  destruct (C13Callers.windows2 wrong c) as [x|] eqn:Ex; cbn [bind]; [|discriminate].
  destruct (first_triple wrong c) as [y|] eqn:Ey; cbn [bind]; [|discriminate].
  destruct (windows4 wrong c) as [z|] eqn:Ez; cbn [bind]; [|discriminate]. intros [= <-].
  apply Forall_app. split; [exact (windows2_from wrong c x Ex)|]. apply Forall_app.
  split; [exact (first_triple_from wrong c y Ey)|exact (windows4_from wrong c z Ez)].
Qed.

Theorem cp_body_cls_inside_wf cls wrong : g0_inside_wf (cp_body_cls cls wrong).
Proof.
  intros c chars Hw. apply wf_pairb_spec in Hw. unfold cp_body_cls.
  destruct (chunk_cands _ _) as [spans|] eqn:E; [|constructor].
  apply chunk_cands_from in E. rewrite Forall_map. eapply Forall_impl; [|exact E].
  intros sp [(a & Ha & Ea) (b & Hb & Eb)].
  apply in_map_iff in Ha. destruct Ha as (ta & <- & Hta). apply in_map_iff in Hb. destruct Hb as (tb & <- & Htb).
  cbn [cspan] in Ea, Eb. unfold toks_wf in Hw. rewrite Forall_forall in Hw.
  destruct (Hw ta Hta) as [A1 A2]. destruct (Hw tb Htb) as [B1 B2].
  unfold lint_inside, lstart, lend. cbn [lspan]. lia.
Qed.

Theorem cp_body_inside_wf cur wrong : g0_inside_wf (cp_body cur wrong).
Proof. apply cp_body_cls_inside_wf. Qed.

(* the unguarded demand is FALSE for the faithful body: an amount `5$` as two zero-width tokens at the end of a
   one-character slice reports 1..1 — not inside (start < 1 fails); and tokens lying behind the characters report
   behind them.  (Neither pair is ever produced by `lift` on Document tokens.) *)
Lemma cp_body_needs_wf :
  let cur (t : tok) (_ : text) := true in let wrong (_ : text) (_ _ : nat) := true in
  cp_body cur wrong [mktok (mkspan 1 1) KNumber; mktok (mkspan 1 1) KPunct] [53%N] = [mklint (mkspan 1 1) 63] /\
  ~ g0_inside (cp_body cur wrong).
Proof.
  split; [vm_compute; reflexivity|]. intros H.
  specialize (H [mktok (mkspan 1 1) KNumber; mktok (mkspan 1 1) KPunct] [53%N]).
  vm_compute in H. inversion H as [|? ? [H1 _] _]; subst. cbn in H1. lia.
Qed.

(* the nine bodies that are left *)
Definition ro_bodies_left : list string :=
  ["ToHop"; "ToHope"; "GeneralCompoundNouns"; "ImpliedInstantiatedCompoundNouns"; "ImpliedOwnershipCompoundNouns";
   "ShouldContract"; "AvoidContraction"; "LetUsRedundancy"; "NoContractionWithVerb"]%string.

Definition with_currency (cur : tok -> text -> bool) (wrong : text -> nat -> nat -> bool) (g0 : string -> body)
  : string -> body :=
  fun n => if String.eqb n "CurrencyPlacement" then cp_body cur wrong else g0 n.

Theorem currency_pinned unl cur wrong g0 :
  ro_bodies_expected = firstn 7 ro_bodies_left ++ ["CurrencyPlacement"%string] ++ skipn 7 ro_bodies_left /\
  rule_of (with_currency cur wrong g0) "CurrencyPlacement"
  = Some (then_remove_overlaps (schema_rule is_chunk_terminator (cp_body cur wrong))) /\
  nth_error (curated_rules_all unl (with_currency cur wrong g0)) (row_index "CurrencyPlacement" struct_rules)
  = Some (then_remove_overlaps (schema_rule is_chunk_terminator (cp_body cur wrong))).
Proof. repeat split; reflexivity. Qed.

Theorem main_currency u :
  u_whitespace u NL = true -> u_numeric u NL = false -> u_alphabetic u NL = false -> u_lingual u NL = false ->
  forall (unl : tok -> bool), (forall n k t, unl (shift_tok n k t) = unl t) ->
  forall chunk_fn cur wrong (g0 : string -> body),
  (forall b, In b ro_bodies_left -> g0_inside_wf (g0 b)) ->
  forall P D, c12_premise P -> no_leading_nl D ->
    let rules := curated_rules_all unl (with_currency cur wrong g0) in
    Permutation (lints (doc_tokens u) chunk_fn rules (P ++ D))
                (lints (doc_tokens u) chunk_fn rules P
                 ++ map (shift_lint (length P)) (lints (doc_tokens u) chunk_fn rules D)).
Proof.
  intros H1 H2 H3 H4 unl Hunl chunk_fn cur wrong g0 Hro P D HP HD rules. subst rules.
  apply (main_wf u H1 H2 H3 H4 unl Hunl); [|exact HP|exact HD].
  intros b Hb. unfold with_currency.
  destruct (String.eqb b "CurrencyPlacement") eqn:E; [apply cp_body_inside_wf|].
  apply Hro. cbn in Hb. unfold ro_bodies_left.
  repeat (destruct Hb as [<-|Hb]; [try (cbn; tauto); try (cbn in E; discriminate)|]). destruct Hb.
Qed.

(* ---------- non-vacuity: `It cost 5 $ 5 more.` blank line | `A 7$, $7 b` through C02's lexer + Document::parse model ---------- *)
(* currency test: the character under the token is `$`; verdict: every amount is misformatted.  P's chunk yields the
   overlapping candidates 8..11 (`5 $`, windows4) and 10..13 (`$ 5`), remove_overlaps keeps the first; D yields 2..4 and
   6..8 in two chunks; glued = separately + moved by 21; every slice `lift` hands to the body is a well-formed pair, so
   the guarded body answers the same. *)
Definition ex_dollar (chars : text) (i : nat) : bool :=
  match nth_error chars i with Some c => N.eqb c 36 | None => false end.
Definition ex_cur (t : tok) (chars : text) : bool := ex_dollar chars (sstart (tspan t)).
Definition ex_wrong (chars : text) (s e : nat) : bool := true.
Definition ex_cp_P : text := [73;116;32;99;111;115;116;32;53;32;36;32;53;32;109;111;114;101;46;10;10]%N.
Definition ex_cp_D : text := [65;32;55;36;44;32;36;55;32;98]%N.

Lemma currency_example :
  let body := cp_body ex_cur ex_wrong in
  let R := then_remove_overlaps (schema_rule is_chunk_terminator body) in
  let Rg := then_remove_overlaps (schema_rule is_chunk_terminator (guard_wf body)) in
  let spans := map (fun l => (lstart l, lend l)) in
  let doc := doc_tokens c12_ascii_uni in
  g0_inside_wf body /\
  spans (schema_rule is_chunk_terminator body (doc ex_cp_P) ex_cp_P) = [(8, 11); (10, 13)] /\
  spans (R (doc ex_cp_P) ex_cp_P) = [(8, 11)] /\
  spans (R (doc ex_cp_D) ex_cp_D) = [(2, 4); (6, 8)] /\
  spans (R (doc (ex_cp_P ++ ex_cp_D)) (ex_cp_P ++ ex_cp_D)) = [(8, 11); (23, 25); (27, 29)] /\
  Rg (doc (ex_cp_P ++ ex_cp_D)) (ex_cp_P ++ ex_cp_D) = R (doc (ex_cp_P ++ ex_cp_D)) (ex_cp_P ++ ex_cp_D) /\
  forallb (fun c => match hull c with
                    | Some sp => wf_pairb (rel_chunk (sstart sp) c) (slice (ex_cp_P ++ ex_cp_D) (sstart sp) (send sp))
                    | None => false
                    end) (iter_chunks (doc (ex_cp_P ++ ex_cp_D))) = true.
Proof. cbv zeta. split; [apply cp_body_inside_wf|]. repeat split; vm_compute; reflexivity. Qed.

(* ---------- (6) the blanket PatternLinter body ---------- *)
Lemma hull_inside_wf n c sp : toks_wf n c -> hull c = Some sp -> sstart sp < n /\ send sp <= n.
Proof.
  intros Hw Eh. destruct (hull_in_bounds _ _ _ (wf_in_bounds _ _ Hw) Eh) as [_ H2]. split; [|exact H2].
  destruct c as [|t c']; [discriminate|].
  destruct (hull_around (t :: c') sp t Eh (or_introl eq_refl)) as [H3 _].
  inversion Hw as [|? ? [A1 A2] _]; subst. lia.
Qed.

Lemma wf_firstn n k c : toks_wf n c -> toks_wf n (firstn k c).
Proof. intros H. unfold toks_wf in *. rewrite <- (firstn_skipn k c) in H. now apply Forall_app in H. Qed.
Lemma wf_skipn n k c : toks_wf n c -> toks_wf n (skipn k c).
Proof. intros H. unfold toks_wf in *. rewrite <- (firstn_skipn k c) in H. now apply Forall_app in H. Qed.

Lemma sel_span_inside n m s sp : toks_wf n m -> sel_span m s = Some sp -> sstart sp < n /\ send sp <= n.
Proof.
  intros Hw. destruct s as [i|a b]; cbn [sel_span].
  - destruct (nth_error m i) as [t|] eqn:E; [|discriminate]. cbn [option_map]. intros [= <-].
    apply nth_error_In in E. unfold toks_wf in Hw. rewrite Forall_forall in Hw. destruct (Hw t E). lia.
  - apply hull_inside_wf. unfold slice. now apply wf_firstn, wf_skipn.
Qed.

Lemma pat_body_go_inside matches report chars fuel : forall rest,
  toks_wf (length chars) rest -> Forall (lint_inside (length chars)) (pat_body_go matches report fuel rest chars).
Proof.
  induction fuel as [|f IH]; intros rest Hw; [destruct rest; constructor|].
  destruct rest as [|t tl]; [constructor|]. cbn [pat_body_go].
  destruct (Nat.eqb _ 0).
  - apply IH. now inversion Hw.
  - destruct (Nat.ltb _ _); [constructor|]. apply Forall_app. split.
    + destruct (report _ chars) as [[s id]|]; [|constructor].
      destruct (sel_span _ s) as [sp|] eqn:Es; [|constructor]. constructor; [|constructor].
      apply (sel_span_inside (length chars)) in Es; [exact Es|now apply wf_firstn].
    + apply IH. now apply wf_skipn.
Qed.

Theorem pat_body_inside_wf matches report : g0_inside_wf (pat_body matches report).
Proof. intros c chars Hw. apply wf_pairb_spec in Hw. now apply pat_body_go_inside. Qed.

(* all ten bodies modelled: CurrencyPlacement + the blanket impl for the nine sub-rules, each with its own pattern
   (`matches b`) and match_to_lint (`report b`) *)
Definition all_bodies cur wrong (matches : string -> list tok -> text -> nat)
           (report : string -> list tok -> text -> option (pat_sel * nat)) (g0 : string -> body) : string -> body :=
  fun n => if String.eqb n "CurrencyPlacement" then cp_body cur wrong
           else if existsb (String.eqb n) ro_bodies_left then pat_body (matches n) (report n)
           else g0 n.

Theorem main_bodies u :
  u_whitespace u NL = true -> u_numeric u NL = false -> u_alphabetic u NL = false -> u_lingual u NL = false ->
  forall (unl : tok -> bool), (forall n k t, unl (shift_tok n k t) = unl t) ->
  forall chunk_fn cur wrong matches report (g0 : string -> body),
  forall P D, c12_premise P -> no_leading_nl D ->
    let rules := curated_rules_all unl (all_bodies cur wrong matches report g0) in
    Permutation (lints (doc_tokens u) chunk_fn rules (P ++ D))
                (lints (doc_tokens u) chunk_fn rules P
                 ++ map (shift_lint (length P)) (lints (doc_tokens u) chunk_fn rules D)).
Proof.
  intros H1 H2 H3 H4 unl Hunl chunk_fn cur wrong matches report g0 P D HP HD rules. subst rules.
  apply (main_wf u H1 H2 H3 H4 unl Hunl); [|exact HP|exact HD].
  intros b Hb. unfold all_bodies.
  destruct (String.eqb b "CurrencyPlacement") eqn:E; [apply cp_body_inside_wf|].
  destruct (existsb (String.eqb b) ro_bodies_left) eqn:E2; [apply pat_body_inside_wf|].
  exfalso. cbn in Hb.
  repeat (destruct Hb as [<-|Hb]; [try (cbn in E2; discriminate); try (cbn in E; discriminate)|]). destruct Hb.
Qed.

(* the table side: the nine sub-rules, each with the place its match_to_lint takes the lint span from (translator:
   raises on any other span expression, and unless run_on_chunk is the loop pat_body_go models) *)
Definition match_span_expected : list (string * pat_sel) :=
  [("ToHop", SelTok 0); ("ToHope", SelTok 2); ("GeneralCompoundNouns", SelHull 2 None);
   ("ImpliedInstantiatedCompoundNouns", SelHull 0 (Some 3)); ("ImpliedOwnershipCompoundNouns", SelHull 2 None);
   ("ShouldContract", SelTok 0); ("AvoidContraction", SelTok 0); ("LetUsRedundancy", SelHull 0 None);
   ("NoContractionWithVerb", SelTok 0)]%string.
(* a match_to_lint that takes the span from the table's place and decides only WHETHER to report (and what) *)
Definition table_report (decide : string -> list tok -> text -> option nat) (n : string) (m : list tok) (chars : text)
  : option (pat_sel * nat) :=
  match find (fun e => String.eqb (fst e) n) match_span_raw, decide n m chars with
  | Some (_, r), Some id => Some (decode_sel r, id)
  | _, _ => None
  end.

Theorem bodies_pinned unl cur wrong matches report g0 :
  map (fun e => (fst e, decode_sel (snd e))) match_span_raw = match_span_expected /\
  map fst match_span_raw = ro_bodies_left /\
  rule_of (all_bodies cur wrong matches report g0) "HopHope"
  = Some (merge_rule [schema_rule is_chunk_terminator (pat_body (matches "ToHop"%string) (report "ToHop"%string));
                      schema_rule is_chunk_terminator (pat_body (matches "ToHope"%string) (report "ToHope"%string))]) /\
  rule_of (all_bodies cur wrong matches report g0) "CurrencyPlacement"
  = Some (then_remove_overlaps (schema_rule is_chunk_terminator (cp_body cur wrong))) /\
  length (curated_rules_all unl (all_bodies cur wrong matches report g0)) = 74 /\
  forallb (fun b => String.eqb b "CurrencyPlacement" || existsb (String.eqb b) ro_bodies_left) ro_bodies_expected = true.
Proof. repeat split; reflexivity. Qed.

(* non-vacuity of the blanket body: `to hope on it.` blank line — a pattern "a word and the two tokens behind it" matches at
   cursor 0 and 4 (the cursor jumps over each match, steps over the blank at 3); span from matched token 2: 3..7 and
   11..13; from the hull of the whole match: 0..7 and 8..13; the guarded body answers the same on the Document *)
Definition ex_matches (rest : list tok) (_ : text) : nat :=
  match rest with
  | t :: _ => if is_word_kind (tkind t) && Nat.leb 3 (length rest) then 3 else 0
  | [] => 0
  end.
Definition ex_pat_P : text := [116;111;32;104;111;112;101;32;111;110;32;105;116;46;10;10]%N.
Lemma pattern_example :
  let spans := map (fun l => (lstart l, lend l)) in
  let doc := doc_tokens c12_ascii_uni ex_pat_P in
  let b1 := pat_body ex_matches (fun _ _ => Some (SelTok 2, 7)) in
  let b2 := pat_body ex_matches (fun _ _ => Some (SelHull 0 None, 7)) in
  g0_inside_wf b1 /\ g0_inside_wf b2 /\
  spans (schema_rule is_chunk_terminator b1 doc ex_pat_P) = [(3, 7); (11, 13)] /\
  spans (schema_rule is_chunk_terminator b2 doc ex_pat_P) = [(0, 7); (8, 13)] /\
  schema_rule is_chunk_terminator (guard_wf b2) doc ex_pat_P = schema_rule is_chunk_terminator b2 doc ex_pat_P.
Proof. cbv zeta. split; [apply pat_body_inside_wf|]. split; [apply pat_body_inside_wf|]. repeat split; vm_compute; reflexivity. Qed.
