(* TokenSeqProofs.v — span() (hull) never panics; iter_chunks / iter_sentences / iter_paragraphs never
   slice out of range and partition the token list; LongSentences (as fixed) is total. *)
Require Import Base TokenSeq ListLemmas.

(* ---------- small list facts ---------- *)
Lemma firstn_add {A} x y (l : list A) : firstn (x + y) l = firstn x l ++ firstn y (skipn x l).
Proof.
  revert l. induction x as [|x IH]; intros l; [reflexivity|].
  destruct l as [|h t]; cbn [Nat.add firstn skipn app].
  - now rewrite firstn_nil.
  - now rewrite IH.
Qed.

Lemma slice_adj {A} (l : list A) a b c : a <= b -> b <= c -> slice l a b ++ slice l b c = slice l a c.
Proof.
  intros H1 H2. unfold slice.
  replace (c - a) with ((b - a) + (c - b)) by lia.
  rewrite firstn_add, skipn_skipn. now replace (b - a + a) with b by lia.
Qed.

Lemma slice_0_skip {A} (l : list A) b : slice l 0 b ++ skipn b l = l.
Proof. unfold slice. cbn [skipn]. rewrite Nat.sub_0_r. apply firstn_skipn. Qed.

Lemma slice_chk_ok' {A} (l : list A) a b : a <= b -> b <= length l -> slice_chk l a b = Ok (slice l a b).
Proof.
  intros H1 H2. unfold slice_chk, slice.
  destruct (b <? a) eqn:E1; [apply Nat.ltb_lt in E1; lia|].
  destruct (length l <? b) eqn:E2; [apply Nat.ltb_lt in E2; lia|]. reflexivity.
Qed.

Lemma slice_from_ok {A} (l : list A) a : a <= length l -> slice_from l a = Ok (skipn a l).
Proof.
  intros H. unfold slice_from. destruct (length l <? a) eqn:E; [apply Nat.ltb_lt in E; lia|reflexivity].
Qed.

Lemma last_cons {A} (b : A) r a : last (b :: r) a = last r b.
Proof.
  revert b a. induction r as [|c r IH]; intros b a; [reflexivity|].
  change (last (b :: c :: r) a) with (last (c :: r) a). rewrite !IH. reflexivity.
Qed.

(* ---------- the hull ---------- *)
Lemma ep_min_le x l : ep_min x l <= x.
Proof.
  unfold ep_min. revert x. induction l as [|a l IH]; intros x; cbn [fold_left]; [lia|].
  specialize (IH (Nat.min x a)). lia.
Qed.
Lemma ep_max_ge x l : x <= ep_max x l.
Proof.
  unfold ep_max. revert x. induction l as [|a l IH]; intros x; cbn [fold_left]; [lia|].
  specialize (IH (Nat.max x a)). lia.
Qed.
Lemma ep_max_le n x l : x <= n -> Forall (fun e => e <= n) l -> ep_max x l <= n.
Proof.
  unfold ep_max. revert x. induction l as [|a l IH]; intros x Hx Hl; cbn [fold_left]; [lia|].
  inversion Hl; subst. apply IH; [lia|assumption].
Qed.

Lemma endpoints_le n ts :
  Forall (fun t => sstart (tspan t) <= n /\ send (tspan t) <= n) ts -> Forall (fun e => e <= n) (endpoints ts).
Proof.
  induction 1 as [|t r [H1 H2] _ IH]; cbn [endpoints]; [constructor|]. now repeat constructor.
Qed.

(* span() never panics, whatever the order of the tokens: min <= max *)
Theorem hull_total ts : ts <> [] -> exists sp, hull ts = Some (Ok sp) /\ sstart sp <= send sp.
Proof.
  destruct ts as [|t r]; [congruence|intros _].
  unfold hull. cbn [endpoints].
  set (x := sstart (tspan t)). set (l := send (tspan t) :: endpoints r).
  pose proof (ep_min_le x l) as H1. pose proof (ep_max_ge x l) as H2.
  unfold span_new. destruct (ep_max x l <? ep_min x l) eqn:E; [apply Nat.ltb_lt in E; lia|].
  eexists. split; [reflexivity|]. cbn [sstart send]. lia.
Qed.

Theorem hull_empty : hull [] = None.
Proof. reflexivity. Qed.

Lemma hull_unwrap_ok ts : ts <> [] -> exists sp, hull_unwrap ts = Ok sp /\ sstart sp <= send sp.
Proof.
  intros H. destruct (hull_total ts H) as [sp [E W]]. exists sp. unfold hull_unwrap. now rewrite E.
Qed.

(* the hull of tokens that lie inside the text lies inside the text *)
Lemma hull_unwrap_in n ts sp :
  Forall (fun t => sstart (tspan t) <= n /\ send (tspan t) <= n) ts ->
  hull_unwrap ts = Ok sp -> sstart sp <= send sp /\ send sp <= n.
Proof.
  intros HF. destruct ts as [|t r]; [discriminate|].
  unfold hull_unwrap, hull. cbn [endpoints].
  set (x := sstart (tspan t)). set (l := send (tspan t) :: endpoints r).
  unfold span_new. destruct (ep_max x l <? ep_min x l) eqn:E; [discriminate|].
  intros [= <-]. cbn [sstart send]. apply Nat.ltb_ge in E. split; [assumption|].
  inversion HF as [|? ? [H1 H2] HR]; subst.
  apply (ep_max_le n x l); [exact H1|]. subst l. constructor; [exact H2|now apply endpoints_le].
Qed.

(* for ordered tokens the hull is the span the old LongSentences computed *)
Fixpoint ordered_from (lo : nat) (ts : list tok) : Prop :=
  match ts with
  | [] => True
  | t :: r => lo <= sstart (tspan t) /\ sstart (tspan t) <= send (tspan t) /\ ordered_from (send (tspan t)) r
  end.

Lemma ordered_endpoints lo ts : ordered_from lo ts -> Forall (fun e => lo <= e) (endpoints ts).
Proof.
  revert lo. induction ts as [|t r IH]; intros lo H; cbn [endpoints]; [constructor|].
  destruct H as [H1 [H2 H3]]. constructor; [exact H1|]. constructor; [lia|].
  eapply Forall_impl; [|apply (IH _ H3)]. cbn. intros. lia.
Qed.

Lemma ep_min_id x l : Forall (fun e => x <= e) l -> ep_min x l = x.
Proof.
  unfold ep_min. revert x. induction l as [|a l IH]; intros x H; cbn [fold_left]; [reflexivity|].
  inversion H; subst. replace (Nat.min x a) with x by lia. now apply IH.
Qed.

Lemma ep_max_last_end x t r :
  x <= send (tspan t) -> ordered_from x (t :: r) ->
  ep_max x (send (tspan t) :: endpoints r) = send (tspan (last r t)).
Proof.
  unfold ep_max. revert x t. induction r as [|u r IH]; intros x t Hx H.
  - cbn. lia.
  - destruct H as [H1 [H2 [H3 [H4 H5]]]].
    cbn [endpoints fold_left].
    replace (Nat.max (Nat.max x (send (tspan t))) (sstart (tspan u))) with (sstart (tspan u)) by lia.
    rewrite last_cons.
    specialize (IH (sstart (tspan u)) u H4).
    cbn [fold_left] in IH. rewrite IH; [reflexivity|].
    repeat split; try lia; assumption.
Qed.

Theorem hull_ordered lo ts :
  ts <> [] -> ordered_from lo ts -> hull_unwrap ts = first_last_span ts.
Proof.
  destruct ts as [|t r]; [congruence|intros _ H].
  unfold hull_unwrap, hull, first_last_span. cbn [endpoints].
  destruct H as [H1 [H2 H3]].
  rewrite ep_min_id.
  2:{ constructor; [exact H2|]. eapply Forall_impl; [|apply (ordered_endpoints _ _ H3)]. cbn. intros. lia. }
  rewrite (ep_max_last_end (sstart (tspan t)) t r H2).
  - now rewrite last_cons.
  - repeat split; [lia|exact H2|exact H3].
Qed.

(* ---------- terminator indices ---------- *)
Fixpoint chain_lt (lo : nat) (idx : list nat) (n : nat) : Prop :=
  match idx with
  | [] => True
  | a :: r => lo <= a /\ a < n /\ chain_lt (S a) r n
  end.

Lemma indices_from_chain f i ts : chain_lt i (indices_from f i ts) (i + length ts).
Proof.
  revert i. induction ts as [|t r IH]; intros i; cbn [indices_from length]; [exact I|].
  specialize (IH (S i)). replace (S i + length r) with (i + S (length r)) in IH by lia.
  destruct (f t).
  - cbn [chain_lt]. repeat split; [lia|lia|exact IH].
  - clear -IH. revert IH. generalize (indices_from f (S i) r). intros l.
    destruct l as [|a l]; cbn [chain_lt]; [trivial|]. intros [H1 [H2 H3]]. repeat split; [lia|lia|exact H3].
Qed.

Lemma indices_from_app f i a b :
  indices_from f i (a ++ b) = indices_from f i a ++ indices_from f (i + length a) b.
Proof.
  revert i. induction a as [|x a IH]; intros i; cbn [app indices_from length].
  - now rewrite Nat.add_0_r.
  - rewrite IH. replace (S i + length a) with (i + S (length a)) by lia. now destruct (f x).
Qed.

Definition last_opt (l : list nat) : option nat :=
  match l with [] => None | a :: r => Some (last r a) end.

Lemma last_opt_app_single l x : last_opt (l ++ [x]) = Some x.
Proof.
  destruct l as [|a l]; [reflexivity|]. cbn [app last_opt]. f_equal.
  revert a. induction l as [|b l IH]; intros a; [reflexivity|]. cbn [app]. rewrite last_cons.
  rewrite <- (IH b) at 2. reflexivity.
Qed.

Lemma last_index_spec f ts : last_index f ts = Ok (last_opt (term_indices f ts)).
Proof.
  unfold last_index, term_indices.
  induction ts as [|x ts IH] using rev_ind; [reflexivity|].
  rewrite rev_unit, indices_from_app, app_length. cbn [position length indices_from Nat.add].
  destruct (f x) eqn:Fx.
  - rewrite last_opt_app_single. unfold sub_chk.
    replace (length ts + 1 <? 0) with false by (symmetry; apply Nat.ltb_ge; lia).
    cbn [bind]. replace (length ts + 1 - 0 <? 1) with false by (symmetry; apply Nat.ltb_ge; lia).
    cbn [bind]. do 2 f_equal. lia.
  - rewrite app_nil_r.
    destruct (position f (rev ts)) as [i|] eqn:P; cbn [option_map].
    + destruct (last_opt (indices_from f 0 ts)) as [L|] eqn:EL.
      * unfold sub_chk in *.
        destruct (length ts <? i) eqn:E1; [discriminate|]. cbn [bind] in IH.
        destruct (length ts - i <? 1) eqn:E2; [discriminate|]. cbn [bind] in IH.
        apply Nat.ltb_ge in E1. apply Nat.ltb_ge in E2.
        replace (length ts + 1 <? S i) with false by (symmetry; apply Nat.ltb_ge; lia).
        cbn [bind]. replace (length ts + 1 - S i <? 1) with false by (symmetry; apply Nat.ltb_ge; lia).
        cbn [bind]. injection IH as IH. do 2 f_equal. lia.
      * unfold sub_chk in IH. destruct (length ts <? i); [discriminate|]. cbn [bind] in IH.
        destruct (length ts - i <? 1); discriminate.
    + destruct (last_opt (indices_from f 0 ts)); [discriminate|reflexivity].
Qed.

(* ---------- windows ---------- *)
Lemma windows_spec ts a r :
  chain_lt a (a :: r) (length ts) ->
  exists ws, windows ts (a :: r) = Ok ws /\ concat ws = slice ts (S a) (S (last r a)).
Proof.
  revert a. induction r as [|b r IH]; intros a H.
  - exists []. split; [reflexivity|]. cbn [last concat]. unfold slice. now rewrite Nat.sub_diag.
  - destruct H as [_ [Ha [Hb1 [Hb2 Hr]]]].
    destruct (IH b) as [ws [E C]]; [cbn [chain_lt]; repeat split; [lia|lia|exact Hr]|].
    cbn [windows]. rewrite slice_chk_ok' by lia. cbn [bind].
    cbn [windows] in E. rewrite E. cbn [bind].
    eexists. split; [reflexivity|]. cbn [concat]. rewrite C.
    assert (b <= last r b) as HL.
    { clear -Hr. revert b Hr. induction r as [|c r IH]; intros b Hr; [cbn; lia|].
      destruct Hr as [H1 [H2 H3]]. specialize (IH c H3). rewrite last_cons. lia. }
    rewrite last_cons.
    apply slice_adj; lia.
Qed.

(* ---------- iter_chunks / iter_sentences / iter_paragraphs ---------- *)
Lemma chain_last_lt a r n : chain_lt a (a :: r) n -> last r a < n.
Proof.
  revert a. induction r as [|b r IH]; intros a H; [cbn in *; lia|].
  destruct H as [_ [_ [H1 [H2 H3]]]]. rewrite last_cons. apply IH. cbn [chain_lt]. repeat split; [lia|lia|exact H3].
Qed.

(* never slices out of range, and the pieces concatenate to the token list: nothing lost, nothing
   duplicated, order kept — for EVERY token list and terminator predicate *)
Theorem iter_by_total f ts : exists cs, iter_by f ts = Ok cs /\ concat cs = ts.
Proof.
  unfold iter_by. rewrite last_index_spec.
  pose proof (indices_from_chain f 0 ts) as HC. cbn [Nat.add] in HC. fold (term_indices f ts) in HC.
  destruct (term_indices f ts) as [|a r] eqn:EI.
  - cbn [windows bind last_opt]. exists [ts]. split; [reflexivity|]. cbn. apply app_nil_r.
  - assert (chain_lt a (a :: r) (length ts)) as HC'.
    { destruct HC as [_ [H2 H3]]. cbn [chain_lt]. repeat split; [lia|lia|exact H3]. }
    destruct HC as [_ [Ha _]].
    rewrite slice_chk_ok' by lia. cbn [bind].
    destruct (windows_spec ts a r HC') as [ws [EW CW]]. rewrite EW. cbn [bind last_opt].
    pose proof (chain_last_lt a r _ HC') as HL.
    assert (a <= last r a) as HA.
    { clear -HC'. revert a HC'. induction r as [|b r IH]; intros a H; [cbn; lia|].
      destruct H as [_ [_ [H1 [H2 H3]]]]. rewrite last_cons.
      assert (b <= last r b); [|lia]. apply IH. cbn [chain_lt]. repeat split; [lia|lia|exact H3]. }
    destruct (S (last r a) <? length ts) eqn:E.
    + apply Nat.ltb_lt in E. rewrite slice_from_ok by lia. cbn [bind].
      eexists. split; [reflexivity|].
      cbn [app]. rewrite concat_cons, concat_app, CW. cbn [concat]. rewrite app_nil_r, app_assoc.
      rewrite slice_adj by lia. apply slice_0_skip.
    + apply Nat.ltb_ge in E. cbn [bind].
      eexists. split; [reflexivity|].
      cbn [app]. rewrite concat_cons, app_nil_r, CW, slice_adj by lia.
      rewrite <- (slice_0_skip ts (S (last r a))) at 2.
      rewrite (skipn_all2 ts) by lia. now rewrite app_nil_r.
Qed.

(* an empty token list yields ONE empty chunk (the `Some(self)` arm) *)
Lemma iter_by_nil f : iter_by f [] = Ok [[]].
Proof. reflexivity. Qed.

Lemma Forall_concat {A} (Q : A -> Prop) (cs : list (list A)) :
  Forall Q (concat cs) -> Forall (Forall Q) cs.
Proof.
  induction cs as [|c cs IH]; intros H; [constructor|]. cbn [concat] in H.
  apply Forall_app in H. destruct H. constructor; [assumption|now apply IH].
Qed.


(* every piece is a slice of the list: a class of token lists closed under suffix and prefix
   contains all chunks / sentences / paragraphs of its members *)
Section Pieces.
  Variable Q : list tok -> Prop.
  Hypothesis Q_skipn : forall n l, Q l -> Q (skipn n l).
  Hypothesis Q_firstn : forall n l, Q l -> Q (firstn n l).

  Lemma slice_chk_piece ts a b s : Q ts -> slice_chk ts a b = Ok s -> Q s.
  Proof.
    intros H. unfold slice_chk. destruct ((b <? a) || (length ts <? b)); [discriminate|].
    intros [= <-]. now apply Q_firstn, Q_skipn.
  Qed.

  Lemma windows_pieces ts idx ws : Q ts -> windows ts idx = Ok ws -> Forall Q ws.
  Proof.
    intros H. revert ws. induction idx as [|a r IH]; intros ws; cbn [windows]; [intros [= <-]; constructor|].
    destruct r as [|b r']; [intros [= <-]; constructor|].
    destruct (slice_chk ts (S a) (S b)) as [s|] eqn:Es; [|discriminate]. cbn [bind].
    destruct (windows ts (b :: r')) as [rest|] eqn:Er; [|discriminate]. cbn [bind].
    intros [= <-]. constructor; [eapply slice_chk_piece; eassumption|now apply IH].
  Qed.

  Lemma iter_by_pieces f ts cs : Q ts -> iter_by f ts = Ok cs -> Forall Q cs.
  Proof.
    intros H. unfold iter_by.
    destruct (match term_indices f ts with [] => Ok [] | t :: _ => do s <- slice_chk ts 0 (S t); Ok [s] end) as [first|] eqn:E1; [|discriminate].
    cbn [bind]. destruct (windows ts (term_indices f ts)) as [rest|] eqn:E2; [|discriminate]. cbn [bind].
    destruct (last_index f ts) as [li|]; [|discriminate]. cbn [bind].
    destruct (match li with
              | Some last_i => if S last_i <? length ts then do s <- slice_from ts (S last_i); Ok [s] else Ok []
              | None => Ok [ts] end) as [lst|] eqn:E3; [|discriminate]. cbn [bind].
    intros [= <-]. apply Forall_app. split; [|apply Forall_app; split].
    - destruct (term_indices f ts) as [|t r]; [injection E1 as <-; constructor|].
      destruct (slice_chk ts 0 (S t)) as [s|] eqn:Es; [|discriminate]. cbn [bind] in E1. injection E1 as <-.
      constructor; [eapply slice_chk_piece; eassumption|constructor].
    - eapply windows_pieces; eassumption.
    - destruct li as [last_i|]; [|injection E3 as <-; now repeat constructor].
      destruct (S last_i <? length ts); [|injection E3 as <-; constructor].
      unfold slice_from in E3. destruct (length ts <? S last_i); [discriminate|]. cbn [bind] in E3.
      injection E3 as <-. constructor; [exact (Q_skipn (S last_i) ts H)|constructor].
  Qed.
End Pieces.

(* ---------- LongSentences ---------- *)
Lemma position_some_lt {A} (f : A -> bool) l i : position f l = Some i -> i < length l.
Proof.
  revert i. induction l as [|x r IH]; intros i; cbn [position]; [discriminate|].
  destruct (f x); [intros [= <-]; cbn [length]; lia|].
  destruct (position f r) as [j|]; cbn [option_map]; [|discriminate].
  intros [= <-]. specialize (IH j eq_refl). cbn [length]. lia.
Qed.

(* position = Some i: the first i elements fail f, element i satisfies it *)
Lemma position_some_spec {A} (f : A -> bool) l i :
  position f l = Some i ->
  Forall (fun x => f x = false) (firstn i l) /\ exists x r, skipn i l = x :: r /\ f x = true.
Proof.
  revert i. induction l as [|x r IH]; intros i; cbn [position]; [discriminate|].
  destruct (f x) eqn:Fx.
  - intros [= <-]. split; [constructor|]. exists x, r. now split.
  - destruct (position f r) as [j|]; cbn [option_map]; [|discriminate].
    intros [= <-]. destruct (IH j eq_refl) as [H1 H2]. cbn [firstn skipn]. split; [now constructor|exact H2].
Qed.

Lemma position_none_spec {A} (f : A -> bool) l : position f l = None -> Forall (fun x => f x = false) l.
Proof.
  induction l as [|x r IH]; cbn [position]; [constructor|].
  destruct (f x) eqn:Fx; [discriminate|].
  destruct (position f r); cbn [option_map]; [discriminate|]. intros _. constructor; [exact Fx|now apply IH].
Qed.

Lemma first_visible_lt s : s <> [] -> first_visible s < length s.
Proof.
  intros Hs. unfold first_visible.
  destruct (position _ s) as [i|] eqn:P; [eapply position_some_lt; eassumption|].
  destruct s; [congruence|cbn [length]; lia].
Qed.

(* sentence[first..] never slices out of range and is never empty for a non-empty sentence *)
Lemma visible_slice s : s <> [] ->
  slice_from s (first_visible s) = Ok (skipn (first_visible s) s) /\ skipn (first_visible s) s <> [].
Proof.
  intros Hs. pose proof (first_visible_lt s Hs) as HL. split; [apply slice_from_ok; lia|].
  intros E. apply (f_equal (@length tok)) in E. rewrite skipn_length in E. cbn [length] in E. lia.
Qed.

Lemma visible_hull_ok s : s <> [] -> exists sp, visible_hull s = Ok sp /\ sstart sp <= send sp.
Proof.
  intros Hs. destruct (visible_slice s Hs) as [E NE]. unfold visible_hull. rewrite E. cbn [bind].
  now apply hull_unwrap_ok.
Qed.

Lemma Forall_skipn {A} (Q : A -> Prop) n (l : list A) : Forall Q l -> Forall Q (skipn n l).
Proof.
  revert l. induction n as [|n IH]; intros l H; [exact H|]. destruct l as [|x r]; [constructor|].
  inversion H; subst. cbn [skipn]. now apply IH.
Qed.

Lemma visible_hull_in n s sp :
  Forall (fun t => sstart (tspan t) <= n /\ send (tspan t) <= n) s ->
  visible_hull s = Ok sp -> sstart sp <= send sp /\ send sp <= n.
Proof.
  intros HF. unfold visible_hull, slice_from. destruct (length s <? first_visible s); [discriminate|]. cbn [bind].
  apply hull_unwrap_in. now apply Forall_skipn.
Qed.

(* what 1bab09f is about: the flagged slice starts at the first token that is not whitespace (all tokens
   before it are whitespace); a sentence of whitespace only is flagged whole *)
Lemma visible_hull_spec s :
  (exists x r, skipn (first_visible s) s = x :: r /\ flag F_WS x = false /\
               Forall (fun t => flag F_WS t = true) (firstn (first_visible s) s) /\
               visible_hull s = hull_unwrap (x :: r)) \/
  (Forall (fun t => flag F_WS t = true) s /\ visible_hull s = hull_unwrap s).
Proof.
  unfold visible_hull, first_visible.
  destruct (position (fun t => negb (flag F_WS t)) s) as [i|] eqn:P.
  - left. destruct (position_some_spec _ _ _ P) as [H1 [x [r [E Fx]]]].
    exists x, r. split; [exact E|]. split; [now apply Bool.negb_true_iff in Fx|]. split.
    + eapply Forall_impl; [|exact H1]. cbn. intros t Ht. now apply Bool.negb_false_iff in Ht.
    + rewrite slice_from_ok by (apply position_some_lt in P; lia). cbn [bind]. now rewrite E.
  - right. split.
    + eapply Forall_impl; [|exact (position_none_spec _ _ P)]. cbn. intros t Ht. now apply Bool.negb_false_iff in Ht.
    + unfold slice_from. cbn [Nat.ltb Nat.leb skipn bind]. reflexivity.
Qed.

Lemma long_sentence_spans_total ss : exists l, long_sentence_spans visible_hull ss = Ok l.
Proof.
  induction ss as [|s r [l IH]]; [now exists []|]. cbn [long_sentence_spans].
  destruct (40 <? count_words s) eqn:E.
  - assert (s <> []) as Hs. { intros ->. cbn in E. discriminate. }
    destruct (visible_hull_ok s Hs) as [sp [Es _]]. rewrite Es, IH. cbn [bind]. eexists; reflexivity.
  - exists l. exact IH.
Qed.

(* LongSentences (as fixed by be8029b and 1bab09f) returns normally on every token list — ordered or not *)
Theorem long_sentences_total ts : exists l, long_sentences ts = Ok l.
Proof.
  unfold long_sentences, iter_sentences. destruct (iter_by_total (flag F_SENTTERM) ts) as [cs [E _]].
  rewrite E. cbn [bind]. apply long_sentence_spans_total.
Qed.

(* … and every span it reports lies inside the text when the tokens do *)
Lemma long_sentence_spans_in n ss l :
  Forall (Forall (fun t => sstart (tspan t) <= n /\ send (tspan t) <= n)) ss ->
  long_sentence_spans visible_hull ss = Ok l -> Forall (fun sp => sstart sp <= send sp /\ send sp <= n) l.
Proof.
  revert l. induction ss as [|s r IH]; intros l HF; cbn [long_sentence_spans].
  - intros [= <-]. constructor.
  - inversion HF as [|? ? Hs Hr]; subst. destruct (40 <? count_words s).
    + destruct (visible_hull s) as [sp|] eqn:Es; [|discriminate]. cbn [bind].
      destruct (long_sentence_spans visible_hull r) as [l'|] eqn:El; [|discriminate]. cbn [bind].
      intros [= <-]. constructor; [eapply visible_hull_in; eassumption|now apply IH].
    + now apply IH.
Qed.

Theorem long_sentences_in_bounds n ts l :
  Forall (fun t => sstart (tspan t) <= n /\ send (tspan t) <= n) ts ->
  long_sentences ts = Ok l -> Forall (fun sp => sstart sp <= send sp /\ send sp <= n) l.
Proof.
  unfold long_sentences, iter_sentences. intros HF.
  destruct (iter_by_total (flag F_SENTTERM) ts) as [cs [E C]]. rewrite E. cbn [bind].
  apply long_sentence_spans_in. apply Forall_concat. now rewrite C.
Qed.

(* ---------- History: the code before be8029b (F2) ---------- *)
Definition wtok (a b : nat) : tok := mktok (mkspan a b) 1 1%N 0.          (* a Word *)
Definition otok (a b : nat) : tok := mktok (mkspan a b) 2 0%N 0.          (* anything else *)
(* 41 words at 10.., then a token whose span lies BEFORE the first word (Markdown puts the
   ParagraphBreak of a paragraph at the start of its last event) *)
Definition f2_witness : list tok :=
  map (fun i => wtok (10 + 2 * i) (11 + 2 * i)) (seq 0 41) ++ [otok 3 4].

Theorem long_sentences_old_refuted :
  long_sentences_old f2_witness = Panic PSpanOrder /\ exists l, long_sentences f2_witness = Ok l /\ l = [mkspan 3 91].
Proof. split; [vm_compute; reflexivity|]. eexists. split; vm_compute; reflexivity. Qed.

(* ---------- the Go `go:` directive cut ---------- *)
Require Import GoDirective.
(* as it is now (017736b): whenever `actual` ends inside the source — without_initiators computes
   actual.end = source.len() - k — the cut never panics, for EVERY position of the first newline; and
   what is handed to the inner parser is exactly source[terminator..actual.end] *)
Theorem go_directive_total actual terminator (src : text) :
  send actual <= length src ->
  exists r, go_directive_cut actual terminator src = Ok r /\
            (r = None <-> send actual <= terminator) /\
            (forall c, r = Some c -> c = slice src terminator (send actual) /\ length c = send actual - terminator).
Proof.
  intros H. unfold go_directive_cut. destruct (send actual <=? terminator) eqn:E.
  - apply Nat.leb_le in E. exists None. split; [reflexivity|]. split; [tauto|discriminate].
  - apply Nat.leb_gt in E. unfold get_content, try_get_content. cbn [sstart send].
    replace (send actual <? terminator) with false by (symmetry; apply Nat.ltb_ge; lia).
    replace (length src <=? terminator) with false by (symmetry; apply Nat.leb_gt; lia).
    replace (length src <? send actual) with false by (symmetry; apply Nat.ltb_ge; lia).
    cbn [orb bind]. eexists. split; [reflexivity|]. split; [split; [discriminate|lia]|].
    intros c [= <-]. split; [reflexivity|]. unfold slice. rewrite firstn_length, skipn_length. lia.
Qed.

(* History (F30, before 017736b).  `//go:build x\n//` : without_initiators = 2..12, first newline at 12;
   14 > 12 and Span::is_empty() computes end - start *)
Lemma go_directive_old_refuted :
  go_directive_cut_old (mkspan 2 12) 12 (map N.of_nat [103; 111; 58; 98; 117; 105; 108; 100; 32; 120]) = Panic PUnderflow.
Proof. vm_compute. reflexivity. Qed.
(* the same input now: 12 >= 12, nothing to lint, no arithmetic at all *)
Lemma go_directive_now_ok :
  go_directive_cut (mkspan 2 12) 12 (map N.of_nat [47; 47; 103; 111; 58; 98; 117; 105; 108; 100; 32; 120; 10; 47; 47]) = Ok None /\
  go_directive_cut (mkspan 2 16) 12 (map N.of_nat [47; 47; 103; 111; 58; 98; 117; 105; 108; 100; 32; 120; 10; 47; 47; 97]) = Ok (Some (map N.of_nat [10; 47; 47; 97])).
Proof. split; vm_compute; reflexivity. Qed.
