(* C01EndToEndProofs.v — composition of C02's Document totality (DocumentProofs.document_plain_tiling, imported,
   not edited) with the pattern-framework theorems of C01: for EVERY text, Unicode tables, pattern of the inductive
   and dictionary view `abs`, Document::new_plain_english + PatternLinter::lint + LongSentences return normally —
   the fuel of every modelled loop (|s| for the lexer, |tokens|+2 for RepeatingPattern, |chunk|+1 for run_on_chunk)
   suffices, no checked operation fails.  For the rules of the generated table the literal uses of match_to_lint are
   in range on every slice handed over. *)
Require Import Base Overlap TokenSeq Pattern TokenSeqProofs PatternProofs C01Len C01LenProofs Tables_rulebodies C01RuleBodies C01EndToEnd.
Require Lexer Condense TokenInv DocumentProofs.
From Coq Require Import Lia.

Section E2E.
  Variable abs : Lexer.token -> tok.
  Hypothesis abs_span : forall t, tspan (abs t) = Lexer.tspan t.
  Variable leaf : nat -> tok -> text -> res bool.
  Variable oracle : nat -> list tok -> text -> res bool.
  Variable s : text.
  (* the closures of the blanket impl return normally on tokens that lie inside the text *)
  Hypothesis leaf_ok : forall t i, sstart (tspan t) <= send (tspan t) -> send (tspan t) <= length s -> exists b, leaf i t s = Ok b.

  Lemma tiling_ordered a b ts : TokenInv.Tiling a b ts -> b <= length s ->
    toks_good leaf s (map abs ts) /\ ordered_from a (map abs ts).
  Proof.
    induction 1 as [a|a b t ts Ha Hlt HT IH]; intros Hb; cbn [map].
    - split; [constructor|exact I].
    - destruct (IH Hb) as [G O]. pose proof (TokenInv.tiling_le _ _ _ HT) as Hle.
      unfold Lexer.tstart, Lexer.tend in *.
      split.
      + constructor; [|exact G]. unfold tok_good. rewrite abs_span.
        split; [lia|split; [lia|]]. intros i. apply leaf_ok; rewrite abs_span; lia.
      + cbn [ordered_from]. rewrite abs_span. split; [lia|split; [lia|exact O]].
  Qed.

  Lemma lint_chunks_inv p cs l : lint_chunks leaf oracle p cs s = Ok l ->
    Forall2 (fun c x => run_on_chunk leaf oracle p c s = Ok x) cs l.
  Proof.
    revert l. induction cs as [|c r IH]; intros l E; cbn [lint_chunks] in E.
    - injection E as <-. constructor.
    - apply bind_ok_inv in E as [x [Ex E]]. apply bind_ok_inv in E as [tl [Et E]]. injection E as <-.
      constructor; [exact Ex|exact (IH _ Et)].
  Qed.

  Theorem lint_plain_english_total u :
    oracle_total_on oracle s (D_ordered leaf s) ->
    forall p, exists ts cs l ls,
      Condense.document_plain u s = Ok ts /\
      iter_chunks (map abs ts) = Ok cs /\ concat cs = map abs ts /\
      lint_plain_english u abs leaf oracle p s = Ok (l, ls) /\
      Forall2 (fun c x => run_on_chunk leaf oracle p c s = Ok x /\ ranges_ok 0 x (length c)) cs l /\
      Forall (fun sp => sstart sp <= send sp /\ send sp <= length s) ls.
  Proof.
    intros HO p. destruct (DocumentProofs.document_plain_tiling u s) as [ts [Ed [T _]]].
    destruct (tiling_ordered _ _ _ T (le_n _)) as [G O].
    assert (D_ordered leaf s (map abs ts)) as HD by (split; assumption).
    destruct (iter_by_total (flag F_CHUNKTERM) (map abs ts)) as [cs [Ec Cc]].
    destruct (pattern_lint_total_ordered leaf oracle s HO p _ HD) as [l El].
    destruct (long_sentences_total (map abs ts)) as [ls Els].
    exists ts, cs, l, ls. unfold lint_plain_english. rewrite Ed. cbn [bind]. rewrite El. cbn [bind]. rewrite Els. cbn [bind].
    repeat split; try assumption; try reflexivity.
    - unfold pattern_lint in El. fold (iter_chunks (map abs ts)) in Ec. unfold iter_chunks in *. rewrite Ec in El. cbn [bind] in El.
      pose proof (lint_chunks_inv _ _ _ El) as F2.
      assert (Forall (D_ordered leaf s) cs) as Hcs.
      { apply (iter_by_pieces (D_ordered leaf s)) with (f := flag F_CHUNKTERM) (ts := map abs ts); try assumption.
        - intros n x [A B]. split; [now apply Forall_skipn|now apply ordered_from_skipn].
        - intros n x [A B]. split; [now apply Forall_firstn|now apply ordered_from_firstn]. }
      clear El Ec Cc. induction F2 as [|c x cs' l' Hx _ IH]; [constructor|].
      inversion Hcs as [|? ? Hc Hcs']; subst. constructor; [|exact (IH Hcs')].
      split; [exact Hx|]. destruct (run_on_chunk_total_ordered leaf oracle s HO p c Hc) as [x' [Ex' R]].
      rewrite Hx in Ex'. injection Ex' as <-. exact R.
    - apply (long_sentences_in_bounds (length s) (map abs ts) ls); [|exact Els].
      unfold toks_good in G. rewrite Forall_forall in *. intros t Ht. destruct (G t Ht) as [A [B _]]. lia.
  Qed.

  (* ... and for a rule of the generated table, every literal use of its match_to_lint stays inside every slice *)
  Theorem lint_plain_english_rule_bodies u :
    oracle_total_on oracle s (D_ordered leaf s) ->
    forall r, In r rule_table -> exists ts cs l ls,
      Condense.document_plain u s = Ok ts /\ iter_chunks (map abs ts) = Ok cs /\
      lint_plain_english u abs leaf oracle (r_pat r) s = Ok (l, ls) /\
      Forall2 (fun c x => Forall (fun ab => forall us, In us (r_uses r) -> use_run (slice c (fst ab) (snd ab)) us = Ok tt) x) cs l.
  Proof.
    intros HO r Hr. destruct (lint_plain_english_total u HO (r_pat r)) as [ts [cs [l [ls [A [B [_ [C [D _]]]]]]]]].
    exists ts, cs, l, ls. repeat split; try assumption.
    clear A B C. induction D as [|c x cs' l' [Hx _] _ IH]; constructor; [|exact IH].
    exact (rule_bodies_indices_safe leaf oracle s r Hr c x Hx).
  Qed.
End E2E.
