(* C18LexAlnum.v — the lexer half of C18 on a class with DIGITS, PERIODS and the straight APOSTROPHE (phase 5),
   over C02's frozen Lexer.v.

   With ASCII digits in the text lex_number, lex_hex_number, lex_long_decade and the digit branch of
   lex_plural_digit are alive, with the apostrophe the `'s` branch of lex_plural_digit.  This file proves that
   PlainEnglish::parse does not see the ASCII case of letters on such a text unless the text contains one of
   three patterns, each of which is witnessed by a pair of texts the lexer cuts differently (Properties/C18.v,
   C18_alnum_patterns_witnessed):

     Q_plural   [A-Za-z0-9] [sS] LA   where the first character is a DIGIT (`1s` is a Word, `1S` a Number and a
                Word; the decade `1990s` is this pattern at its `0s`), or lex_hostname_token answers on the text
                from that position (`as.b`: Word Period Word, `AS.B`: one Hostname — FC18c; stated with the
                model's own lex_hostname_token, so `as-is`, `as.` and `as.b.` are NOT excluded)
     Q_apos     [A-Za-z0-9] ['’] [sS] LA   (`a's` is one Word for the lexer, `A'S` Word Apostrophe Word; phase 6: also
                with U+2019 — `a’s` is Word Apostrophe Word — so that the class is closed under ’ -> ', C18LexCurly.v)
     Q_hex      0 [xX] [0-9A-Fa-f]      (`0x1` is a hexadecimal Number, `0X1` a Number and a Word)
     LA         = end of text, or a character that is neither a word character nor an ASCII digit of the class
     LOOK-BEHIND  a pattern only counts where the character BEFORE it is not a word character (or the text starts):
                the lexer never starts a token at an ASCII letter or digit that follows a word character
                (alnum_lex_binv: a Word ends before a character that is no ASCII letter or digit, so does a
                Hostname; a Number ends in a digit or a period — parse_f64_ends; blanks, punctuation and unclaimed
                characters are no word characters), so `John's`, `this.is`, `MP3s` are NOT excluded

     alnum text   every character is a word character (not an ASCII digit), an ASCII digit (that the tables call
                  numeric), a blank, a punctuation / quote character other than  @ [ ‘ ＇  (phase 7: the colon is inside, `://` excluded: q_url) — period,
                  straight apostrophe and (phase 6) U+2019 allowed —, or a character no sub-lexer claims; none of the patterns occurs
     Rl u a c     as in C18LexDots (equal, or word characters with the same ASCII-letter key, or both unclaimed);
                  an ASCII digit is only related to itself
     plain_parse_alnum : Forall2 (Rl u) s s' -> Alnum u s -> Alnum u s' -> plain_parse u s' = plain_parse u s

   New against C18LexDots: lex_number is a CONGRUENCE for Rl (the float grammar reads `e` and `E` alike:
   parse_f64_congr, longest_float_congr, lex_number_congr — unbounded, by induction); lex_hex_number,
   lex_long_decade and lex_plural_digit on a digit decline on the class (hex3, decade3, plural3).
   The class contains the plain and the dotted class (plain_alnum, dotted_alnum). *)
Require Import Base Overlap OverlapProofs Tables_lexer Lexer Condense ListLemmas LexerProofs Shape C18LexStable C18PassesIC C18LexDots.
From Coq Require Import Lia ZArith.

Definition bad3 : list N := [64; 91; 8216; 65287]%N.
(* an apostrophe for the lexer: the straight one and U+2019, both Punctuation::Apostrophe; title-casing may
   write the first over the second (phase 6) *)
Definition is_apo39 (c : N) : bool := ceq c 39 || ceq c 8217.
Definition dch (u : uni) (c : N) : bool := is_ascii_digit c && u_numeric u c.
Definition char3 (u : uni) (c : N) : bool :=
  negb (mem_n c bad3) && (wch u c || dch u c || ichar u c || ochar u c).

(* the look-ahead of lex_plural_digit / lex_long_decade, as the class sees it *)
Definition la3 (u : uni) (r : text) : bool :=
  match r with [] => true | d :: _ => negb (wch u d || dch u d) end.
Definition is_some {A} (o : option A) : bool := match o with Some _ => true | None => false end.
Definition is_x (c : N) : bool := ceq c 120 || ceq c 88.

Definition q_plural (u : uni) (s : text) : bool :=
  match s with
  | c0 :: c1 :: r =>
      is_ascii_alphanumeric c0 && is_s c1 && la3 u r && (is_ascii_digit c0 || is_some (lex_hostname_token s))
  | _ => false
  end.
Definition q_apos (u : uni) (s : text) : bool :=
  match s with
  | c0 :: c1 :: c2 :: r => is_ascii_alphanumeric c0 && is_apo39 c1 && is_s c2 && la3 u r
  | _ => false
  end.
Definition q_hex (s : text) : bool :=
  match s with
  | c0 :: c1 :: c2 :: _ => ceq c0 48 && is_x c1 && is_ascii_hexdigit c2
  | _ => false
  end.
Definition q_here (u : uni) (s : text) : bool := q_plural u s || q_apos u s || q_hex s.
(* phase 7: the colon is a character of the class; excluded, at EVERY position (no look-behind), is `://` —
   where lex_url's lex_ip_schemepart starts.  Without it lex_url declines on every suffix (url_none3) and
   `:` is the punctuation character Colon and nothing else *)
Definition q_url (s : text) : bool :=
  match s with c0 :: c1 :: c2 :: _ => ceq c0 58 && ceq c1 47 && ceq c2 47 | _ => false end.
(* look-behind: the character before a pattern is not a word character *)
Definition start_ok (u : uni) (prev : option N) : bool :=
  match prev with None => true | Some p => negb (wch u p) end.
Fixpoint ctx_ok3 (u : uni) (prev : option N) (s : text) : bool :=
  match s with [] => true | c :: r => negb (q_url s) && negb (start_ok u prev && q_here u s) && ctx_ok3 u (Some c) r end.
Definition alnum_text (u : uni) (s : text) : bool := forallb (char3 u) s && ctx_ok3 u None s.

(* ---------- keys of x and of the hexadecimal letters, the float characters ---------- *)
Lemma is_x_key c : is_x c = (ickey c =? 120)%N.
Proof.
  unfold is_x, ceq. destruct (ickey_cases c) as [[H ->]|[[H ->]|[H ->]]].
  - apply nonalpha_range in H. repeat brkeq; try reflexivity; lia.
  - repeat brkeq; try reflexivity; lia.
  - repeat brkeq; try reflexivity; lia.
Qed.

Lemma is_e_key c : (N.eqb c 101 || N.eqb c 69) = (ickey c =? 101)%N.
Proof.
  destruct (ickey_cases c) as [[H ->]|[[H ->]|[H ->]]].
  - apply nonalpha_range in H. repeat brkeq; try reflexivity; lia.
  - repeat brkeq; try reflexivity; lia.
  - repeat brkeq; try reflexivity; lia.
Qed.

Lemma hexdigit_key c :
  is_ascii_hexdigit c = is_ascii_digit c || ((97 <=? ickey c) && (ickey c <=? 102))%N.
Proof.
  unfold is_ascii_hexdigit. destruct (is_ascii_digit c); [reflexivity|]. cbn [orb]. unfold in_range.
  destruct (ickey_cases c) as [[H ->]|[[H ->]|[H ->]]]; [apply nonalpha_range in H| |];
    repeat brk1; cbn [andb orb]; try reflexivity; lia.
Qed.

Lemma float_char_form c :
  is_float_char c = is_ascii_digit c || (ceq 46 c || ceq 43 c || ceq 45 c || (ickey c =? 101)%N).
Proof.
  unfold is_float_char, mem_n, float_extra_chars, ceq. cbn [existsb]. rewrite <- (is_e_key c).
  rewrite (N.eqb_sym 46 c), (N.eqb_sym 43 c), (N.eqb_sym 45 c).
  destruct (is_ascii_digit c), (N.eqb c 46), (N.eqb c 101), (N.eqb c 69), (N.eqb c 43), (N.eqb c 45); reflexivity.
Qed.

(* ---------- ASCII digits ---------- *)
Lemma digit_cases c : is_ascii_digit c = true ->
  (c = 48 \/ c = 49 \/ c = 50 \/ c = 51 \/ c = 52 \/ c = 53 \/ c = 54 \/ c = 55 \/ c = 56 \/ c = 57)%N.
Proof.
  unfold is_ascii_digit, in_range. intros H. apply andb_prop in H. destruct H as [H1 H2].
  apply N.leb_le in H1, H2. lia.
Qed.

Lemma digit_facts c : is_ascii_digit c = true ->
  nopunct c = true /\ ws3 c = false /\ is_ascii_alphabetic c = false /\ is_ascii_alphanumeric c = true /\ ceq c 91 = false.
Proof.
  intros H. apply digit_cases in H.
  repeat match goal with X : _ \/ _ |- _ => destruct X as [->|X] end; subst; vm_compute; repeat split; reflexivity.
Qed.

(* ---------- generic list facts ---------- *)
Lemma rposition_congr {A} (p : A -> bool) : forall l l', Forall2 (fun a c => p a = p c) l l' ->
  rposition p l' = rposition p l.
Proof.
  intros l l' H. induction H as [|a c l l' Hac _ IH]; [reflexivity|]. cbn [rposition]. rewrite IH, Hac. reflexivity.
Qed.
Lemma position_congr {A} (p : A -> bool) : forall l l', Forall2 (fun a c => p a = p c) l l' ->
  position p l' = position p l.
Proof.
  intros l l' H. induction H as [|a c l l' Hac _ IH]; [reflexivity|]. cbn [position]. rewrite IH, Hac. reflexivity.
Qed.
Lemma Forall2_rev_c18 {A B} (R : A -> B -> Prop) l l' : Forall2 R l l' -> Forall2 R (rev l) (rev l').
Proof.
  intros H. induction H as [|a c l l' Hac _ IH]; [constructor|]. cbn [rev]. apply Forall2_app; [exact IH|].
  constructor; [exact Hac|constructor].
Qed.

(* parse_f64 with its two inner matches named *)
Definition frac_part (r1 : text) : text * text :=
  match r1 with
  | c :: t => if ceq c 46 then span_digits t else ([], r1)
  | [] => ([], [])
  end.
Definition f64_tail (neg : bool) (ip fp r2 : text) : option (bool * N * Z) :=
  match ip, fp with
  | [], [] => None
  | _, _ =>
      let mant := digits_val (ip ++ fp) in
      let e0 := (- Z.of_nat (length fp))%Z in
      match r2 with
      | [] => Some (neg, mant, e0)
      | c :: t => if ceq c 101 || ceq c 69 then
                    match parse_exp t with Some e => Some (neg, mant, (e + e0)%Z) | None => None end
                  else None
      end
  end.
Lemma parse_f64_alt s :
  parse_f64 s = let (neg, s1) := split_sign s in let (ip, r1) := span_digits s1 in
                let '(fp, r2) := frac_part r1 in f64_tail neg ip fp r2.
Proof. reflexivity. Qed.

(* ---------- a string that parses as a float ends in a digit or a period ---------- *)
Definition ends_ok (l : text) : Prop := exists q x, l = q ++ [x] /\ (is_ascii_digit x = true \/ x = 46%N).
Lemma ends_ok_app l1 l2 : ends_ok l2 -> ends_ok (l1 ++ l2).
Proof. intros (q & x & -> & H). exists (l1 ++ q), x. split; [apply app_assoc|exact H]. Qed.
Lemma ends_ok_cons a l : ends_ok l -> ends_ok (a :: l).
Proof. intros H. apply (ends_ok_app [a] l H). Qed.

Lemma span_digits_app : forall l, l = fst (span_digits l) ++ snd (span_digits l) /\
  Forall (fun x => is_ascii_digit x = true) (fst (span_digits l)).
Proof.
  induction l as [|c t [IH1 IH2]]; [split; [reflexivity|constructor]|]. cbn [span_digits].
  destruct (is_ascii_digit c) eqn:D.
  - destruct (span_digits t) as [d r]. cbn [fst snd] in *. split; [cbn [app]; f_equal; exact IH1|constructor; assumption].
  - cbn [fst snd]. split; [reflexivity|constructor].
Qed.

Lemma digits_ends d : d <> [] -> Forall (fun x => is_ascii_digit x = true) d -> ends_ok d.
Proof.
  intros Hne HF. destruct (exists_last Hne) as [q [x E]]. subst d. exists q, x. split; [reflexivity|left].
  rewrite Forall_forall in HF. apply HF. apply in_or_app. right. now left.
Qed.

Lemma split_sign_app l : l = snd (split_sign l) \/ exists x, l = x :: snd (split_sign l).
Proof.
  destruct l as [|c t]; [left; reflexivity|]. unfold split_sign.
  destruct (ceq c 43); [right; eexists; reflexivity|]. destruct (ceq c 45); [right; eexists; reflexivity|left; reflexivity].
Qed.

Lemma ends_ok_sign l : ends_ok (snd (split_sign l)) -> ends_ok l.
Proof. intros H. destruct (split_sign_app l) as [E|[x E]]; rewrite E; [exact H|apply ends_ok_cons; exact H]. Qed.

Lemma parse_exp_ends t e : parse_exp t = Some e -> ends_ok t.
Proof.
  unfold parse_exp. intros H. apply ends_ok_sign. destruct (split_sign t) as [neg l1]. cbn [snd].
  destruct (span_digits_app l1) as [DA DF]. destruct (span_digits l1) as [ds r]. cbn [fst snd] in DA, DF.
  destruct ds as [|y ds]; [discriminate|]. destruct r; [|discriminate]. rewrite app_nil_r in DA. rewrite DA.
  apply digits_ends; [discriminate|exact DF].
Qed.

Lemma frac_part_app r1 :
  (fst (frac_part r1) = [] /\ snd (frac_part r1) = r1) \/
  (r1 = 46%N :: fst (frac_part r1) ++ snd (frac_part r1) /\ Forall (fun x => is_ascii_digit x = true) (fst (frac_part r1))).
Proof.
  destruct r1 as [|c t]; [left; split; reflexivity|]. unfold frac_part. destruct (ceq c 46) eqn:E.
  - right. unfold ceq in E. apply N.eqb_eq in E. subst c. destruct (span_digits_app t) as [A F]. split; [f_equal; exact A|exact F].
  - left. split; reflexivity.
Qed.

Lemma f64_tail_some neg ip fp r2 v : f64_tail neg ip fp r2 = Some v ->
  (ip <> [] \/ fp <> []) /\ (r2 = [] \/ exists c t e, r2 = c :: t /\ parse_exp t = Some e).
Proof.
  unfold f64_tail. intros H.
  assert (X : r2 = [] \/ exists c t e, r2 = c :: t /\ parse_exp t = Some e \/ ip = [] /\ fp = []).
  { destruct r2 as [|c t]; [now left|right]. exists c, t.
    destruct ip, fp; cbv zeta in H; try discriminate;
      (destruct (ceq c 101 || ceq c 69); [|discriminate]); (destruct (parse_exp t) as [e|]; [|discriminate]);
      exists e; left; split; reflexivity. }
  split.
  - destruct ip; [|left; discriminate]. destruct fp; [discriminate|right; discriminate].
  - destruct X as [->|(c & t & e & [[-> E]|[-> ->]])]; [now left| |discriminate]. right. exists c, t, e. split; [reflexivity|exact E].
Qed.

Lemma parse_f64_ends p v : parse_f64 p = Some v -> ends_ok p.
Proof.
  rewrite parse_f64_alt. intros H. apply ends_ok_sign. destruct (split_sign p) as [neg s1]. cbn [snd].
  destruct (span_digits_app s1) as [DA DF]. destruct (span_digits s1) as [ip r1]. cbn [fst snd] in DA, DF.
  pose proof (frac_part_app r1) as FA. destruct (frac_part r1) as [fp r2]. cbn [fst snd] in FA.
  destruct (f64_tail_some _ _ _ _ _ H) as [Hne Hr2]. rewrite DA.
  assert (R2 : r2 <> [] -> ends_ok r2).
  { intros Hn. destruct Hr2 as [E0|(c & t & e & -> & E)]; [congruence|]. apply ends_ok_cons. apply (parse_exp_ends t e E). }
  destruct FA as [[-> E2]|[-> FF]].
  - subst r1. destruct r2 as [|c t].
    + rewrite app_nil_r. apply digits_ends; [|exact DF]. destruct Hne as [Hne|Hne]; [exact Hne|congruence].
    + apply ends_ok_app. apply R2. discriminate.
  - apply ends_ok_app. destruct r2 as [|c t].
    + rewrite app_nil_r. destruct fp as [|y fp]; [exists [], 46%N; split; [reflexivity|now right]|].
      apply ends_ok_cons. apply digits_ends; [discriminate|exact FF].
    + apply ends_ok_cons. apply ends_ok_app. apply R2. discriminate.
Qed.

Lemma nth_error_firstn_lt {A} : forall n i (l : list A), i < n -> nth_error (firstn n l) i = nth_error l i.
Proof.
  induction n as [|n IH]; intros i l Hi; [lia|]. destruct l as [|x l]; [destruct i; reflexivity|].
  destruct i as [|i]; [reflexivity|]. cbn [firstn nth_error]. apply IH. lia.
Qed.

Lemma longest_float_some : forall n0 s1 n k, longest_float n0 s1 = Some (n, k) ->
  exists m v, n = S m /\ n <= n0 /\ parse_finite (firstn n s1) = Some v.
Proof.
  induction n0 as [|m0 IH]; intros s1 n k H; [discriminate|]. cbn [longest_float] in H. cbv zeta in H.
  destruct (parse_finite (firstn (S m0) s1)) as [[[neg mant] ex]|] eqn:E.
  - injection H as <- _. exists m0, (neg, mant, ex). split; [reflexivity|]. split; [lia|exact E].
  - destruct (IH s1 n k H) as (m & v & -> & Hle & Hv). exists m, v. split; [reflexivity|]. split; [lia|exact Hv].
Qed.

Lemma skipn_count_while {A} (p : A -> bool) : forall s c' t, skipn (count_while p s) s = c' :: t -> p c' = false.
Proof.
  induction s as [|x s IH]; intros c' t H; [discriminate|]. cbn [count_while] in H. destruct (p x) eqn:E.
  - cbn [skipn] in H. eapply IH. exact H.
  - cbn [skipn] in H. injection H as -> _. exact E.
Qed.

Lemma count_while_nth {A} (p : A -> bool) : forall s i x, i < count_while p s -> nth_error s i = Some x -> p x = true.
Proof.
  induction s as [|y s IH]; intros i x Hi Hx; [cbn in Hi; lia|]. cbn [count_while] in Hi. destruct (p y) eqn:E; [|lia].
  destruct i as [|i]; [cbn in Hx; injection Hx as <-; exact E|]. cbn [nth_error] in Hx. apply (IH i x); [lia|exact Hx].
Qed.

Lemma hostname_token_len s n k : lex_hostname_token s = Some (n, k) -> n = count_while host_char s.
Proof.
  unfold lex_hostname_token, lex_hostname. destruct s as [|c r]; [discriminate|].
  destruct (is_ascii_alphanumeric c); [|discriminate].
  destruct (count_while host_char (c :: r) <=? 1); [discriminate|].
  destruct (negb _); [discriminate|].
  destruct (nth_error _ _) as [x|]; [destruct (ceq x 46); [discriminate|]|]; intros H; injection H as <- _; reflexivity.
Qed.

Section Alnum.
  Variable u : uni.
  Definition Alnum (s : text) : Prop := Forall (fun c => char3 u c = true) s /\ ctx_ok3 u None s = true.
  (* the state of the parse loop: the remaining text, the character before it, and the invariant that a token
     never starts at an ASCII letter or digit right after a word character *)
  Definition binv (prev : option N) (s : text) : Prop :=
    match prev with
    | Some p => match s with c :: _ => wch u p = true -> is_ascii_alphanumeric c = false | [] => True end
    | None => True
    end.
  Definition St (prev : option N) (s : text) : Prop :=
    Forall (fun c => char3 u c = true) s /\ ctx_ok3 u prev s = true /\ binv prev s.
  Definition adv (prev : option N) (n : nat) (s : text) : option N :=
    match n with 0 => prev | S m => nth_error s m end.

  Lemma Alnum_St s : Alnum s -> St None s.
  Proof. intros [H1 H2]. split; [exact H1|]. split; [exact H2|exact I]. Qed.

  Lemma alnum_text_Alnum s : alnum_text u s = true <-> Alnum s.
  Proof.
    unfold alnum_text, Alnum. rewrite Bool.andb_true_iff, forallb_forall, Forall_forall. reflexivity.
  Qed.

  Lemma ctx_ok3_adv : forall n prev s, ctx_ok3 u prev s = true -> ctx_ok3 u (adv prev n s) (skipn n s) = true.
  Proof.
    induction n as [|n IH]; intros prev s H; [exact H|]. destruct s as [|c r]; [reflexivity|].
    cbn [ctx_ok3] in H. apply andb_prop in H. destruct H as [_ H].
    specialize (IH (Some c) r H). cbn [skipn]. destruct n as [|m]; exact IH.
  Qed.

  (* no pattern at a position the lexer can reach *)
  Lemma ctx_ok3_here prev c r : St prev (c :: r) ->
    q_plural u (c :: r) = false /\ q_apos u (c :: r) = false /\ q_hex (c :: r) = false.
  Proof.
    intros [_ [H HB]]. cbn [ctx_ok3] in H. apply andb_prop in H. destruct H as [H _].
    apply andb_prop in H. destruct H as [_ H]. apply negb_true_iff in H.
    destruct (start_ok u prev) eqn:SO.
    - cbn [andb] in H. unfold q_here in H. apply orb_false_elim in H. destruct H as [H H3]. apply orb_false_elim in H. tauto.
    - destruct prev as [p|]; [|discriminate]. cbn [start_ok] in SO. apply negb_false_iff in SO.
      cbn [binv] in HB. specialize (HB SO).
      assert (C48 : ceq c 48 = false).
      { unfold ceq. destruct (N.eqb_spec c 48) as [->|_]; [discriminate HB|reflexivity]. }
      unfold q_plural, q_apos, q_hex. rewrite HB, C48.
      destruct r as [|c1 [|c2 r']]; repeat split; reflexivity.
  Qed.

  (* phase 7: no `://` anywhere behind the cursor, so lex_url declines: its first colon is not followed by `//` *)
  Lemma ctx_ok3_no_url : forall n prev s, ctx_ok3 u prev s = true -> q_url (skipn n s) = false.
  Proof.
    intros n prev s H. pose proof (ctx_ok3_adv n prev s H) as H'.
    destruct (skipn n s) as [|c r]; [reflexivity|].
    cbn [ctx_ok3] in H'. apply andb_prop in H'. destruct H' as [H' _]. apply andb_prop in H'. destruct H' as [H' _].
    apply negb_true_iff in H'. exact H'.
  Qed.

  Lemma position_skipn_c18 (p : N -> bool) : forall (l : list N) i, position p l = Some i ->
    exists x t, skipn i l = x :: t /\ p x = true.
  Proof.
    induction l as [|x t IH]; intros i H; [discriminate|]. cbn [position] in H.
    destruct (p x) eqn:Px.
    - injection H as <-. exists x, t. split; [reflexivity|exact Px].
    - destruct (position p t) as [j|] eqn:Pj; [|discriminate]. injection H as <-.
      destruct (IH j eq_refl) as (y & t' & E & Py). exists y, t'. split; [exact E|exact Py].
  Qed.

  Lemma url_none3 prev (s : list N) : St prev s -> lex_url u s = None.
  Proof.
    intros [_ [HC _]]. unfold lex_url. destruct (position (ceq 58) s) as [sep|] eqn:P; [|reflexivity].
    match goal with |- (if ?b then _ else _) = _ => destruct b; [reflexivity|] end.
    destruct (position_skipn_c18 _ _ _ P) as (x & t & E & Px).
    pose proof (ctx_ok3_no_url sep prev s HC) as Q. unfold text, char in *. rewrite E in Q.
    assert (E1 : skipn (sep + 1) s = t).
    { rewrite Nat.add_comm. rewrite <- (ListLemmas.skipn_skipn 1 sep s), E. reflexivity. }
    rewrite E1. unfold ceq in Px. apply N.eqb_eq in Px. subst x.
    unfold lex_ip_schemepart. destruct t as [|a [|b rest]]; try reflexivity.
    cbn [q_url] in Q. change (ceq 58 58) with true in Q. cbn [andb] in Q. rewrite Q. reflexivity.
  Qed.

  Lemma dch_parts c : dch u c = true -> is_ascii_digit c = true /\ u_numeric u c = true.
  Proof. unfold dch. intros H. apply andb_prop in H. exact H. Qed.

  Lemma char3_parts c : char3 u c = true ->
    mem_n c bad3 = false /\ (wch u c = true \/ dch u c = true \/ ichar u c = true \/ ochar u c = true).
  Proof.
    unfold char3. intros H. apply andb_prop in H. destruct H as [H1 H3]. apply negb_true_iff in H1.
    split; [exact H1|].
    apply orb_prop in H3. destruct H3 as [H3|H3]; [|auto].
    apply orb_prop in H3. destruct H3 as [H3|H3]; [|auto].
    apply orb_prop in H3. destruct H3 as [H3|H3]; auto.
  Qed.

  Lemma char3_not_bad c b : char3 u c = true -> In b bad3 -> N.eqb b c = false.
  Proof.
    intros H Hb. destruct (char3_parts c H) as [Hm _]. unfold mem_n in Hm.
    destruct (N.eqb b c) eqn:E; [|reflexivity]. apply N.eqb_eq in E. subst c.
    assert (existsb (N.eqb b) bad3 = true) as X.
    { apply existsb_exists. exists b. split; [exact Hb|apply N.eqb_refl]. }
    congruence.
  Qed.

  Lemma Alnum_noc s b : Forall (fun c => char3 u c = true) s -> In b bad3 -> noc b s.
  Proof. intros H Hb x Hx. rewrite Forall_forall in H. apply char3_not_bad; auto. Qed.

  Lemma alnum_digit_split c : is_ascii_alphanumeric c = false -> is_ascii_alphabetic c = false /\ is_ascii_digit c = false.
  Proof. unfold is_ascii_alphanumeric. intros H. apply orb_false_elim in H. exact H. Qed.

  (* the characters of the class by their ASCII nature *)
  Lemma char3_alpha c : char3 u c = true -> is_ascii_alphanumeric c = true -> is_ascii_digit c = false -> wch u c = true.
  Proof.
    intros H A D. destruct (char3_parts c H) as [_ [W|[X|[I|O]]]]; [exact W| | |].
    - destruct (dch_parts c X) as [X1 _]. congruence.
    - destruct (ichar_parts u c I) as [_ [_ [I3 _]]]. congruence.
    - destruct (ochar_parts u c O) as [_ [_ [O3 _]]]. congruence.
  Qed.

  Lemma char3_digit c : char3 u c = true -> is_ascii_digit c = true -> dch u c = true.
  Proof.
    intros H D. destruct (char3_parts c H) as [_ [W|[X|[I|O]]]]; [|exact X| |].
    - destruct (wch_parts u c W) as [_ W2]. congruence.
    - destruct (ichar_parts u c I) as [_ [_ [I3 _]]]. destruct (alnum_digit_split c I3). congruence.
    - destruct (ochar_parts u c O) as [_ [_ [O3 _]]]. destruct (alnum_digit_split c O3). congruence.
  Qed.

  (* a word character or digit of the class is alphanumeric for the tables; what is not is no part of a word *)
  Lemma la_alnum d : wch u d || dch u d = true -> u_alphanumeric u d = true.
  Proof.
    intros H. unfold u_alphanumeric. apply orb_prop in H. destruct H as [W|X].
    - destruct (wch_parts u d W) as [W1 _]. destruct (wchar_parts u d W1) as [_ [-> _]]. reflexivity.
    - destruct (dch_parts d X) as [_ ->]. apply orb_true_r.
  Qed.

  Lemma not_alnum_la d : u_alphanumeric u d = false -> wch u d || dch u d = false.
  Proof.
    intros H. destruct (wch u d || dch u d) eqn:E; [|reflexivity]. apply la_alnum in E. congruence.
  Qed.

  Lemma char3_not_alnum c : char3 u c = true -> u_alphanumeric u c = false -> lw u c = false.
  Proof.
    intros H A. pose proof (not_alnum_la c A) as N. apply orb_false_elim in N. destruct N as [N1 N2].
    destruct (char3_parts c H) as [_ [W|[X|[I|O]]]]; [congruence|congruence| |].
    - destruct (ichar_parts u c I) as [I1 [_ [I3 _]]]. destruct (alnum_digit_split c I3) as [_ D].
      unfold lw. rewrite I1, D. reflexivity.
    - destruct (ochar_not_w u c O) as [_ L]. exact L.
  Qed.

  Lemma wch_lw c : wch u c = true -> lw u c = true.
  Proof. intros W. destruct (wch_parts u c W) as [W1 _]. apply wchar_lw. exact W1. Qed.

  (* ================= lex_plural_digit on the class ================= *)
  Lemma plural3 prev (c : N) (r : list N) : St prev (c :: r) ->
    lex_plural_digit u (c :: r) = None \/
    (is_ascii_digit c = false /\ lex_plural_digit u (c :: r) = Some (2, KWord) /\
     lex_hostname_token (c :: r) = None /\ count_while (lw u) (c :: r) = 2).
  Proof.
    intros HD. pose proof HD as [HP [HC _]]. destruct (ctx_ok3_here prev c r HD) as [Q1 [Q2 _]].
    unfold lex_plural_digit.
    destruct (is_ascii_alphanumeric c) eqn:Ac; cbn [negb]; [|now left].
    inversion HP as [|c' r' Pc Pr]; subst.
    destruct r as [|c1 t]; [now left|].
    destruct (ceq c1 39) eqn:E39.
    - (* the 's branch: excluded by q_apos *)
      left. destruct t as [|c2 t2]; [reflexivity|].
      destruct (ceq c2 115) eqn:E115; [|reflexivity].
      assert (S2 : is_s c2 = true) by (unfold is_s; rewrite E115; reflexivity).
      unfold q_apos, is_apo39 in Q2. rewrite Ac, E39, S2 in Q2. cbn [andb orb] in Q2.
      destruct t2 as [|d t3]; [cbn [la3] in Q2; discriminate|].
      destruct (u_alphanumeric u d) eqn:Ad; cbn [negb]; [reflexivity|].
      cbn [la3] in Q2. rewrite (not_alnum_la d Ad) in Q2. discriminate.
    - destruct (ceq c1 115) eqn:E115; [|now left].
      assert (S1 : is_s c1 = true) by (unfold is_s; rewrite E115; reflexivity).
      unfold ceq in E115. apply N.eqb_eq in E115. subst c1.
      inversion Pr as [|c1' t' Ps Pt]; subst.
      assert (Ws : wch u 115 = true) by (apply char3_alpha; [exact Ps|reflexivity|reflexivity]).
      unfold q_plural in Q1. rewrite Ac, S1 in Q1. cbn [andb] in Q1.
      assert (Fin : la3 u t = true -> is_ascii_digit c = false /\ lex_hostname_token (c :: 115%N :: t) = None).
      { intros L. rewrite L in Q1. cbn [andb] in Q1. apply orb_false_elim in Q1. destruct Q1 as [Q1a Q1b].
        split; [exact Q1a|]. match type of Q1b with is_some ?x = false => destruct x eqn:EH end; [cbn [is_some] in Q1b; discriminate|exact EH]. }
      destruct t as [|d t2].
      + destruct (Fin eq_refl) as [Dc Hn]. right. split; [exact Dc|]. split; [reflexivity|]. split; [exact Hn|].
        pose proof (char3_alpha c Pc Ac Dc) as Wc.
        cbn [count_while]. rewrite (wch_lw c Wc), (wch_lw _ Ws). reflexivity.
      + destruct (u_alphanumeric u d) eqn:Ad; cbn [negb]; [now left|].
        assert (L : la3 u (d :: t2) = true) by (cbn [la3]; rewrite (not_alnum_la d Ad); reflexivity).
        destruct (Fin L) as [Dc Hn]. right. split; [exact Dc|]. split; [reflexivity|]. split; [exact Hn|].
        pose proof (char3_alpha c Pc Ac Dc) as Wc.
        inversion Pt as [|d' t2' Pd _]; subst.
        cbn [count_while]. rewrite (wch_lw c Wc), (wch_lw _ Ws), (char3_not_alnum d Pd Ad). reflexivity.
  Qed.

  (* ================= lex_hex_number, lex_long_decade decline on the class ================= *)
  Lemma hex3 prev (c : N) (r : list N) : St prev (c :: r) -> lex_hex_number u (c :: r) = None.
  Proof.
    intros HD. destruct (ctx_ok3_here prev c r HD) as [_ [_ Q3]].
    unfold lex_hex_number. destruct r as [|c1 [|c2 r]]; try reflexivity.
    unfold q_hex, is_x in Q3.
    destruct (ceq c 48); cbn [negb orb andb] in *; [|reflexivity].
    destruct (ceq c1 120); cbn [negb orb andb] in *; [|reflexivity].
    rewrite Q3. reflexivity.
  Qed.

  Lemma decade3 prev (c : N) (r : list N) : St prev (c :: r) -> lex_long_decade u (c :: r) = None.
  Proof.
    intros [_ [HC _]]. unfold lex_long_decade.
    destruct r as [|c1 [|c2 [|c3 [|c4 rest]]]]; try reflexivity.
    destruct (negb (ceq c 49) && negb (ceq c 50)); [reflexivity|].
    destruct (negb (is_ascii_digit c1)); [reflexivity|].
    destruct (is_ascii_digit c2) eqn:D2; cbn [negb]; [|reflexivity].
    destruct (ceq c3 48) eqn:E3; cbn [negb]; [|reflexivity].
    destruct (ceq c4 115) eqn:E4; cbn [negb]; [|reflexivity].
    unfold ceq in E3, E4. apply N.eqb_eq in E3, E4. subst c3 c4.
    pose proof (ctx_ok3_adv 3 prev _ HC) as H3. cbn [adv nth_error skipn] in H3.
    cbn [ctx_ok3] in H3. apply andb_prop in H3. destruct H3 as [H3 _].
    apply andb_prop in H3. destruct H3 as [_ H3]. apply negb_true_iff in H3.
    assert (W2 : wch u c2 = false) by (unfold wch; rewrite D2; apply andb_false_r).
    cbn [start_ok] in H3. rewrite W2 in H3. cbn [negb andb] in H3.
    unfold q_here in H3. apply orb_false_elim in H3. destruct H3 as [H3 _]. apply orb_false_elim in H3.
    destruct H3 as [Q1 _]. unfold q_plural in Q1.
    change (is_ascii_alphanumeric 48) with true in Q1. change (is_s 115) with true in Q1.
    change (is_ascii_digit 48) with true in Q1. cbn [andb orb] in Q1. rewrite andb_true_r in Q1.
    destruct rest as [|d t]; [cbn [la3] in Q1; discriminate|].
    cbn [la3] in Q1. apply negb_false_iff in Q1. rewrite (la_alnum d Q1). reflexivity.
  Qed.

  (* ================= lex_token on the class ================= *)
  Definition alnum_lex (src : text) : option (nat * tkind) :=
    match src with
    | [] => None
    | c0 :: _ =>
        if wch u c0 then or_else (lex_hostname_token src) (Some (count_while (lw u) src, KWord))
        else if dch u c0 then
          or_else (lex_number u src) (or_else (lex_hostname_token src) (Some (count_while (lw u) src, KWord)))
        else if ceq 9 c0 then Some (count_while (ceq 9) src, KSpace (count_while (ceq 9) src * 2))
        else if ceq 32 c0 then Some (count_while (ceq 32) src, KSpace (count_while (ceq 32) src))
        else if ceq 10 c0 then Some (count_while (ceq 10) src, KNewline (count_while (ceq 10) src))
        else if mem_n c0 quote_chars then Some (1, KPunct (PQuote None))
        else match punct_from_char c0 with Some p => Some (1, KPunct p) | None => Some (1, KUnlintable) end
    end.

  Lemma not_alnum_not_dch c : is_ascii_alphanumeric c = false -> dch u c = false.
  Proof. intros H. destruct (alnum_digit_split c H) as [_ D]. unfold dch. rewrite D. reflexivity. Qed.

  Lemma lex_token_alnum prev (c : N) (r : list N) : St prev (c :: r) -> lex_token u (c :: r) = alnum_lex (c :: r).
  Proof.
    intros HD. pose proof HD as [HP _]. inversion HP as [|c' r' Pc Pr]; subst.
    assert (N91 : ceq c 91 = false).
    { unfold ceq. rewrite N.eqb_sym. apply (char3_not_bad c 91 Pc). cbn; tauto. }
    assert (U : lex_url u (c :: r) = None) by (apply (url_none3 prev), HD).
    assert (E : lex_email_address u (c :: r) = None) by (apply email_none, Alnum_noc; [exact HP|cbn; tauto]).
    pose proof (hex3 prev c r HD) as HX. pose proof (decade3 prev c r HD) as DX.
    destruct (char3_parts c Pc) as [_ Hcl].
    unfold lex_token. rewrite (regexish_none u c r N91), HX, DX, U, E.
    cbn [or_else].
    destruct (wch u c) eqn:W.
    - destruct (wch_parts u c W) as [Wc Dc].
      destruct (wchar_parts u c Wc) as [L [_ [Nn [Np Nw]]]]. destruct (ws3_false c Nw) as [T [Nl S]].
      rewrite (punctuation_none c r Np), (tabs_none c r T), (spaces_none c r S), (newlines_none c r Nl),
        (number_none u c r Nn).
      cbn [or_else]. unfold alnum_lex. rewrite W.
      assert (LW : lex_word u (c :: r) = Some (count_while (lw u) (c :: r), KWord)).
      { unfold lex_word. fold (lw u). rewrite (count_while_first_true (lw u) c r (wchar_lw u c Wc)). reflexivity. }
      destruct (plural3 prev c r HD) as [P|[_ [P [H0 C2]]]]; rewrite P; cbn [or_else].
      + rewrite LW. reflexivity.
      + rewrite H0, C2. reflexivity.
    - destruct Hcl as [W'|[X|[I|O]]]; [congruence| | |].
      + (* an ASCII digit *)
        destruct (dch_parts c X) as [Dc Nc]. destruct (digit_facts c Dc) as [Np [Nw [_ [Ac _]]]].
        destruct (ws3_false c Nw) as [T [Nl S]].
        rewrite (punctuation_none c r Np), (tabs_none c r T), (spaces_none c r S), (newlines_none c r Nl).
        cbn [or_else]. unfold alnum_lex. rewrite W, X.
        assert (LW : lex_word u (c :: r) = Some (count_while (lw u) (c :: r), KWord)).
        { unfold lex_word. fold (lw u).
          assert (Lc : lw u c = true) by (unfold lw; rewrite Dc; apply orb_true_r).
          rewrite (count_while_first_true (lw u) c r Lc). reflexivity. }
        destruct (plural3 prev c r HD) as [P|[Dn _]]; [|congruence]. rewrite P, LW. cbn [or_else]. reflexivity.
      + destruct (ichar_parts u c I) as [_ [_ [Na Hk]]]. unfold alnum_lex. rewrite W, (not_alnum_not_dch c Na).
        destruct (ws3 c) eqn:B.
        * apply ws3_true in B. destruct B as [->|[->| ->]]; reflexivity.
        * destruct Hk as [Hk|Hk]; [discriminate|]. destruct (ws3_false c B) as [T [Nl S]].
          rewrite T, S, Nl. unfold lex_punctuation, lex_quote.
          unfold nopunct in Hk. destruct (mem_n c quote_chars); [reflexivity|]. cbn [negb andb] in Hk.
          destruct (punct_from_char c); [reflexivity|discriminate].
      + destruct (ochar_parts u c O) as [Nl [Nn [Na [Np Nw]]]]. destruct (ws3_false c Nw) as [T [Nnl S]].
        destruct (alnum_digit_split c Na) as [_ Hd].
        rewrite (punctuation_none c r Np), (tabs_none c r T), (spaces_none c r S), (newlines_none c r Nnl),
          (number_none u c r Nn), (plural_not_alnum u c r Na), (hostname_none_first c r Na).
        cbn [or_else]. unfold alnum_lex. rewrite W, (not_alnum_not_dch c Na), T, S, Nnl.
        destruct (nopunct_parts c Np) as [Q Pn]. rewrite Q, Pn.
        unfold lex_word.
        assert (Z : count_while (fun c0 => u_lingual u c0 || is_ascii_digit c0) (c :: r) = 0).
        { apply count_while_first_false. rewrite Nl, Hd. reflexivity. }
        rewrite Z. reflexivity.
  Qed.

  (* ================= what Rl preserves, beyond C18LexDots ================= *)
  Lemma Rl_digit a c : Rl u a c -> is_ascii_digit a = is_ascii_digit c /\ (is_ascii_digit a = true -> a = c).
  Proof.
    intros HR. destruct (Rl_neq_parts u a c HR) as [->|(_ & _ & Da & _ & _ & Dc)]; [tauto|].
    rewrite Da, Dc. split; [reflexivity|discriminate].
  Qed.

  Lemma Rl_dch a c : Rl u a c -> dch u c = dch u a.
  Proof.
    intros HR. destruct (Rl_neq_parts u a c HR) as [->|(_ & _ & Da & _ & _ & Dc)]; [reflexivity|].
    unfold dch. rewrite Da, Dc. reflexivity.
  Qed.

  Lemma Rl_numeric a c : Rl u a c -> u_numeric u c = u_numeric u a.
  Proof.
    intros [->|[[H1 [H2 _]]|[H1 H2]]]; [reflexivity| |].
    - destruct (wch_parts u a H1) as [A _]. destruct (wch_parts u c H2) as [C _].
      destruct (wchar_parts u a A) as [_ [_ [-> _]]]. destruct (wchar_parts u c C) as [_ [_ [-> _]]]. reflexivity.
    - destruct (ochar_parts u a H1) as [_ [-> _]]. destruct (ochar_parts u c H2) as [_ [-> _]]. reflexivity.
  Qed.

  Lemma Rl_ceqr k a c : (ws3 k = true \/ nopunct k = false) -> Rl u a c -> ceq a k = ceq c k.
  Proof.
    intros Hk HR. unfold ceq. rewrite (N.eqb_sym a k), (N.eqb_sym c k). apply (Rl_ceq_const u k a c Hk HR).
  Qed.

  Lemma Rl_ceq_digit k a c : is_ascii_digit k = true -> Rl u a c -> ceq a k = ceq c k.
  Proof.
    intros Hk HR. destruct (Rl_neq_parts u a c HR) as [->|(_ & _ & Da & _ & _ & Dc)]; [reflexivity|].
    unfold ceq. destruct (N.eqb_spec a k) as [->|_]; [congruence|]. destruct (N.eqb_spec c k) as [->|_]; [congruence|].
    reflexivity.
  Qed.

  Lemma Rl_key a c : Rl u a c -> ickey a = ickey c.
  Proof. intros HR. exact (Rl_Ric u a c HR). Qed.

  Lemma Rl_is_s a c : Rl u a c -> is_s a = is_s c.
  Proof. intros HR. rewrite !is_s_key, (Rl_key a c HR). reflexivity. Qed.

  Lemma Rl_float a c : Rl u a c -> is_float_char a = is_float_char c.
  Proof.
    intros HR. rewrite !float_char_form, (Rl_key a c HR), (proj1 (Rl_digit a c HR)).
    rewrite (Rl_ceq_const u 46 a c (or_intror eq_refl) HR), (Rl_ceq_const u 43 a c (or_intror eq_refl) HR),
      (Rl_ceq_const u 45 a c (or_intror eq_refl) HR). reflexivity.
  Qed.

  Lemma Rl_la r r' : Forall2 (Rl u) r r' -> la3 u r' = la3 u r.
  Proof.
    intros H. destruct H as [|a c l l' Hac _]; [reflexivity|]. cbn [la3].
    rewrite (Rl_wch u a c Hac), (Rl_dch a c Hac). reflexivity.
  Qed.

  (* ================= lex_number is a congruence ================= *)
  Lemma span_digits_congr : forall l l', Forall2 (Rl u) l l' ->
    fst (span_digits l') = fst (span_digits l) /\ Forall2 (Rl u) (snd (span_digits l)) (snd (span_digits l')).
  Proof.
    intros l l' H. induction H as [|a c l l' Hac Hl IH]; [split; [reflexivity|constructor]|].
    cbn [span_digits]. destruct (Rl_digit a c Hac) as [D1 D2]. rewrite <- D1.
    destruct (is_ascii_digit a) eqn:Da.
    - rewrite <- (D2 eq_refl). destruct IH as [IH1 IH2].
      destruct (span_digits l) as [d r]. destruct (span_digits l') as [d' r']. cbn [fst snd] in *.
      subst d'. split; [reflexivity|exact IH2].
    - cbn [fst snd]. split; [reflexivity|constructor; assumption].
  Qed.

  Lemma split_sign_congr l l' : Forall2 (Rl u) l l' ->
    fst (split_sign l') = fst (split_sign l) /\ Forall2 (Rl u) (snd (split_sign l)) (snd (split_sign l')).
  Proof.
    intros H. destruct H as [|a c l l' Hac Hl]; [split; [reflexivity|constructor]|].
    unfold split_sign.
    rewrite <- (Rl_ceqr 43 a c (or_intror eq_refl) Hac), <- (Rl_ceqr 45 a c (or_intror eq_refl) Hac).
    destruct (ceq a 43); [split; [reflexivity|exact Hl]|].
    destruct (ceq a 45); [split; [reflexivity|exact Hl]|].
    split; [reflexivity|constructor; assumption].
  Qed.

  Lemma parse_exp_congr l l' : Forall2 (Rl u) l l' -> parse_exp l' = parse_exp l.
  Proof.
    intros H. unfold parse_exp. destruct (split_sign_congr l l' H) as [S1 S2].
    destruct (split_sign l) as [neg l1]. destruct (split_sign l') as [neg' l1']. cbn [fst snd] in S1, S2. subst neg'.
    destruct (span_digits_congr l1 l1' S2) as [D1 D2].
    destruct (span_digits l1) as [ds r]. destruct (span_digits l1') as [ds' r']. cbn [fst snd] in D1, D2. subst ds'.
    destruct ds as [|x ds]; [reflexivity|]. destruct D2; reflexivity.
  Qed.

  Lemma Rl_is_e a c : Rl u a c -> (ceq a 101 || ceq a 69) = (ceq c 101 || ceq c 69).
  Proof. intros HR. unfold ceq. rewrite !is_e_key, (Rl_key a c HR). reflexivity. Qed.

  Lemma f64_tail_congr neg ip fp r2 r2' : Forall2 (Rl u) r2 r2' -> f64_tail neg ip fp r2' = f64_tail neg ip fp r2.
  Proof.
    intros H. unfold f64_tail.
    assert (X : forall (mant : N) (e0 : Z),
      match r2' with
      | [] => Some (neg, mant, e0)
      | c :: t => if ceq c 101 || ceq c 69 then
                    match parse_exp t with Some e => Some (neg, mant, (e + e0)%Z) | None => None end
                  else None
      end =
      match r2 with
      | [] => Some (neg, mant, e0)
      | c :: t => if ceq c 101 || ceq c 69 then
                    match parse_exp t with Some e => Some (neg, mant, (e + e0)%Z) | None => None end
                  else None
      end).
    { intros mant e0. destruct H as [|a c l l' Hac Hl]; [reflexivity|].
      rewrite <- (Rl_is_e a c Hac), (parse_exp_congr l l' Hl). reflexivity. }
    destruct ip, fp; cbv zeta; try reflexivity; apply X.
  Qed.

  Lemma frac_part_congr r1 r1' : Forall2 (Rl u) r1 r1' ->
    fst (frac_part r1') = fst (frac_part r1) /\ Forall2 (Rl u) (snd (frac_part r1)) (snd (frac_part r1')).
  Proof.
    intros H. destruct H as [|a c l l' Hac Hl]; [split; [reflexivity|constructor]|].
    unfold frac_part. rewrite <- (Rl_ceqr 46 a c (or_intror eq_refl) Hac).
    destruct (ceq a 46); [apply span_digits_congr; exact Hl|].
    cbn [fst snd]. split; [reflexivity|constructor; assumption].
  Qed.

  Lemma parse_f64_congr s s' : Forall2 (Rl u) s s' -> parse_f64 s' = parse_f64 s.
  Proof.
    intros H. rewrite !parse_f64_alt. destruct (split_sign_congr s s' H) as [S1 S2].
    destruct (split_sign s) as [neg s1]. destruct (split_sign s') as [neg' s1']. cbn [fst snd] in S1, S2. subst neg'.
    destruct (span_digits_congr s1 s1' S2) as [D1 D2].
    destruct (span_digits s1) as [ip r1]. destruct (span_digits s1') as [ip' r1']. cbn [fst snd] in D1, D2. subst ip'.
    destruct (frac_part_congr r1 r1' D2) as [F1 F2].
    destruct (frac_part r1) as [fp r2]. destruct (frac_part r1') as [fp' r2']. cbn [fst snd] in F1, F2. subst fp'.
    apply f64_tail_congr. exact F2.
  Qed.

  Lemma parse_finite_congr s s' : Forall2 (Rl u) s s' -> parse_finite s' = parse_finite s.
  Proof. intros H. unfold parse_finite. rewrite (parse_f64_congr s s' H). reflexivity. Qed.

  Lemma precision_of_congr s s' : Forall2 (Rl u) s s' -> precision_of s' = precision_of s.
  Proof.
    intros H. unfold precision_of.
    match goal with |- match ?x with _ => _ end = match ?y with _ => _ end => replace x with y; [reflexivity|symmetry] end.
    apply position_congr. apply Forall2_rev_c18. eapply Forall2_impl_c18; [|exact H]. intros a c Hac.
    apply (Rl_ceq_const u 46 a c (or_intror eq_refl) Hac).
  Qed.

  Lemma longest_float_congr s s' : Forall2 (Rl u) s s' -> forall n, longest_float n s' = longest_float n s.
  Proof.
    intros H. induction n as [|m IH]; [reflexivity|]. cbn [longest_float]. cbv zeta.
    assert (HF : Forall2 (Rl u) (firstn (S m) s) (firstn (S m) s')) by (apply Forall2_firstn_ic; exact H).
    pose proof (parse_finite_congr _ _ HF) as E1. pose proof (precision_of_congr _ _ HF) as E2.
    unfold text, char in *. rewrite E1, E2, IH. reflexivity.
  Qed.

  Theorem lex_number_congr s s' : Forall2 (Rl u) s s' -> lex_number u s' = lex_number u s.
  Proof.
    intros H. destruct H as [|a c l l' Hac Hl]; [reflexivity|].
    assert (HF : Forall2 (Rl u) (a :: l) (c :: l')) by (constructor; assumption).
    unfold lex_number. rewrite (Rl_numeric a c Hac). destruct (negb (u_numeric u a)); [reflexivity|]. cbv zeta.
    assert (CW : count_while is_float_char (c :: l') = count_while is_float_char (a :: l)).
    { apply count_while_congr. eapply Forall2_impl_c18; [|exact HF]. intros x y Hxy. apply Rl_float. exact Hxy. }
    unfold text, char in *. rewrite CW.
    set (limit := count_while is_float_char (a :: l)).
    assert (RP : rposition is_ascii_digit (firstn limit (c :: l')) = rposition is_ascii_digit (firstn limit (a :: l))).
    { apply rposition_congr. apply Forall2_firstn_ic. eapply Forall2_impl_c18; [|exact HF].
      intros x y Hxy. apply (Rl_digit x y Hxy). }
    rewrite RP.
    destruct (rposition is_ascii_digit (firstn limit (a :: l))) as [e|]; [|reflexivity].
    assert (HE : Forall2 (Rl u) (firstn (S e) (a :: l)) (firstn (S e) (c :: l'))) by (apply Forall2_firstn_ic; exact HF).
    rewrite <- (Forall2_length_c18 _ _ _ HE). apply longest_float_congr. exact HE.
  Qed.

  (* ================= alnum_lex, plain_loop, plain_parse are congruences ================= *)
  Lemma alnum_lex_congr s s' : Forall2 (Rl u) s s' -> alnum_lex s' = alnum_lex s.
  Proof.
    intros H. destruct H as [|a c l l' Hac Hl]; [reflexivity|].
    assert (HF : Forall2 (Rl u) (a :: l) (c :: l')) by (constructor; assumption).
    assert (CW : count_while (lw u) (c :: l') = count_while (lw u) (a :: l)).
    { apply count_while_congr. eapply Forall2_impl_c18; [|exact HF]. intros x y Hxy. apply Rl_lw. exact Hxy. }
    unfold alnum_lex. rewrite (Rl_wch u a c Hac), (Rl_dch a c Hac). destruct (wch u a) eqn:W.
    - rewrite (hostname_token_congr u _ _ HF), CW. reflexivity.
    - destruct (dch u a) eqn:X.
      + rewrite (lex_number_congr _ _ HF), (hostname_token_congr u _ _ HF), CW. reflexivity.
      + rewrite (count_while_congr (ceq 9) (a :: l) (c :: l'))
          by (eapply Forall2_impl_c18; [|exact HF]; intros x y Hxy; apply (Rl_ws u); [cbn; tauto|exact Hxy]).
        rewrite (count_while_congr (ceq 32) (a :: l) (c :: l'))
          by (eapply Forall2_impl_c18; [|exact HF]; intros x y Hxy; apply (Rl_ws u); [cbn; tauto|exact Hxy]).
        rewrite (count_while_congr (ceq 10) (a :: l) (c :: l'))
          by (eapply Forall2_impl_c18; [|exact HF]; intros x y Hxy; apply (Rl_ws u); [cbn; tauto|exact Hxy]).
        rewrite <- (Rl_ws u 9 a c ltac:(cbn; tauto) Hac), <- (Rl_ws u 32 a c ltac:(cbn; tauto) Hac),
          <- (Rl_ws u 10 a c ltac:(cbn; tauto) Hac).
        rewrite (Rl_tail_kind u a c Hac W). reflexivity.
  Qed.

  (* ================= where a token ends ================= *)
  Lemma lex_number_last s n k : lex_number u s = Some (n, k) ->
    exists m p, n = S m /\ nth_error s m = Some p /\ (is_ascii_digit p = true \/ p = 46%N).
  Proof.
    unfold lex_number. destruct s as [|c0 r]; [discriminate|]. destruct (negb (u_numeric u c0)); [discriminate|]. cbv zeta.
    set (src := c0 :: r). set (limit := count_while is_float_char src).
    destruct (rposition is_ascii_digit (firstn limit src)) as [e|]; [|discriminate].
    set (s1 := firstn (S e) src). intros H.
    destruct (longest_float_some _ _ _ _ H) as (m & v & -> & Hle & Hv).
    assert (Hp : exists v', parse_f64 (firstn (S m) s1) = Some v').
    { unfold parse_finite in Hv. destruct (parse_f64 (firstn (S m) s1)) as [v'|]; [eauto|discriminate]. }
    destruct Hp as [v' Hp]. destruct (parse_f64_ends _ _ Hp) as (q & x & E & Hx).
    assert (Lq : length q = m).
    { assert (L : length (firstn (S m) s1) = S m) by (rewrite firstn_length; lia).
      rewrite E, app_length in L. cbn [length] in L. lia. }
    exists m, x. split; [reflexivity|]. split; [|exact Hx].
    assert (N1 : nth_error (firstn (S m) s1) m = Some x).
    { rewrite E, nth_error_app2 by lia. rewrite Lq, Nat.sub_diag. reflexivity. }
    rewrite nth_error_firstn_lt in N1 by lia. unfold s1 in N1. rewrite nth_error_firstn_lt in N1; [exact N1|].
    assert (length s1 <= S e) by (unfold s1; apply firstn_le_length). lia.
  Qed.

  Lemma wch_digit_false p : is_ascii_digit p = true -> wch u p = false.
  Proof. intros D. unfold wch. rewrite D. apply andb_false_r. Qed.
  Lemma wch_nopunct p : nopunct p = false -> wch u p = false.
  Proof.
    intros Np. destruct (wch u p) eqn:W; [|reflexivity]. destruct (wch_parts u p W) as [W1 _].
    destruct (wchar_parts u p W1) as [_ [_ [_ [X _]]]]. congruence.
  Qed.
  Lemma wch_ws p : ws3 p = true -> wch u p = false.
  Proof.
    intros Np. destruct (wch u p) eqn:W; [|reflexivity]. destruct (wch_parts u p W) as [W1 _].
    destruct (wchar_parts u p W1) as [_ [_ [_ [_ X]]]]. congruence.
  Qed.

  Lemma binv_next p' s' : (forall c' t, s' = c' :: t -> is_ascii_alphanumeric c' = false) -> binv p' s'.
  Proof.
    intros H. destruct p' as [p|]; [|exact I]. destruct s' as [|c' t]; [exact I|]. cbn [binv]. intros _. apply (H c' t eq_refl).
  Qed.
  Lemma binv_last p s' : wch u p = false -> binv (Some p) s'.
  Proof. intros H. cbn [binv]. destruct s'; [exact I|]. intros W. congruence. Qed.

  Lemma char3_not_lw c : char3 u c = true -> lw u c = false -> is_ascii_alphanumeric c = false.
  Proof.
    intros H L. destruct (char3_parts c H) as [_ [W|[X|[I|O]]]].
    - rewrite (wch_lw c W) in L. discriminate.
    - destruct (dch_parts c X) as [D _]. unfold lw in L. rewrite D, orb_true_r in L. discriminate.
    - destruct (ichar_parts u c I) as [_ [_ [I3 _]]]. exact I3.
    - destruct (ochar_parts u c O) as [_ [_ [O3 _]]]. exact O3.
  Qed.

  (* a Hostname ends before a character that is no host character, a Word before one that is no part of a word *)
  Lemma host_or_word_binv prev s n k : Forall (fun c => char3 u c = true) s ->
    or_else (lex_hostname_token s) (Some (count_while (lw u) s, KWord)) = Some (n, k) ->
    binv (adv prev n s) (skipn n s).
  Proof.
    intros HP H. apply binv_next. intros c' t E.
    destruct (lex_hostname_token s) as [[n' k']|] eqn:HT; cbn [or_else] in H; injection H as Hn _; subst n.
    - rewrite (hostname_token_len s n' k' HT) in E. apply skipn_count_while in E.
      unfold host_char in E. apply orb_false_elim in E. destruct E as [E _]. apply orb_false_elim in E. apply E.
    - pose proof E as E'. apply skipn_count_while in E. apply char3_not_lw; [|exact E].
      assert (Hin : In c' s) by (eapply In_skipn_c18; rewrite E'; now left).
      rewrite Forall_forall in HP. apply HP. exact Hin.
  Qed.

  (* the token-end invariant: after every token of the class, the next token does not start at an ASCII letter or digit
     that follows a word character *)
  Lemma alnum_lex_binv prev s n k : Forall (fun c => char3 u c = true) s -> alnum_lex s = Some (n, k) ->
    binv (adv prev n s) (skipn n s).
  Proof.
    intros HP H. destruct s as [|c0 r]; [discriminate|]. unfold alnum_lex in H.
    destruct (wch u c0) eqn:W; [apply host_or_word_binv with (k := k); assumption|].
    destruct (dch u c0) eqn:X.
    - destruct (lex_number u (c0 :: r)) as [[n' k']|] eqn:LN; cbn [or_else] in H.
      + injection H as Hn _. subst n'. destruct (lex_number_last _ _ _ LN) as (m & p & -> & Np & Hp).
        cbn [adv]. rewrite Np. apply binv_last.
        destruct Hp as [D| ->]; [apply wch_digit_false; exact D|apply wch_nopunct; reflexivity].
      + apply host_or_word_binv with (k := k); assumption.
    - assert (Blank : forall kk, ws3 kk = true -> ceq kk c0 = true -> forall k0,
                Some (count_while (ceq kk) (c0 :: r), k0) = Some (n, k) -> binv (adv prev n (c0 :: r)) (skipn n (c0 :: r))).
      { intros kk Hk Hc k0 E. injection E as Hn _. subst n. cbn [count_while]. rewrite Hc. cbn [adv]. unfold text, char in *.
        destruct (nth_error (c0 :: r) (count_while (ceq kk) r)) as [x|] eqn:Nx; [|exact I].
        apply binv_last. assert (Px : ceq kk x = true).
        { apply (count_while_nth (ceq kk) (c0 :: r) (count_while (ceq kk) r) x); [cbn [count_while]; rewrite Hc; lia|exact Nx]. }
        unfold ceq in Px. apply N.eqb_eq in Px. subst x. apply wch_ws. exact Hk. }
      destruct (ceq 9 c0) eqn:E9; [apply (Blank 9%N eq_refl E9 _ H)|].
      destruct (ceq 32 c0) eqn:E32; [apply (Blank 32%N eq_refl E32 _ H)|].
      destruct (ceq 10 c0) eqn:E10; [apply (Blank 10%N eq_refl E10 _ H)|].
      assert (One : n = 1).
      { destruct (mem_n c0 quote_chars); [injection H as <- _; reflexivity|].
        destruct (punct_from_char c0); injection H as <- _; reflexivity. }
      subst n. cbn [adv nth_error]. apply binv_last. exact W.
  Qed.

  Lemma St_adv prev s n k : St prev s -> alnum_lex s = Some (n, k) -> St (adv prev n s) (skipn n s).
  Proof.
    intros [HP [HC _]] H. split; [apply Forall_skipn_c18; exact HP|].
    split; [apply ctx_ok3_adv; exact HC|apply (alnum_lex_binv prev s n k HP H)].
  Qed.

  Definition orel (p p' : option N) : Prop :=
    match p, p' with None, None => True | Some a, Some c => Rl u a c | _, _ => False end.
  Lemma adv_rel prev prev' n s s' : orel prev prev' -> Forall2 (Rl u) s s' -> orel (adv prev n s) (adv prev' n s').
  Proof.
    intros Ho HF. destruct n as [|m]; [exact Ho|]. cbn [adv]. pose proof (nth_error_Forall2 _ _ _ HF m) as X. unfold text, char in *.
    destruct (nth_error s m); destruct (nth_error s' m); cbn [orel]; try contradiction; try exact X; exact I.
  Qed.

  Lemma plain_loop_alnum : forall fuel cursor prev prev' s s',
    orel prev prev' -> Forall2 (Rl u) s s' -> St prev s -> St prev' s' ->
    plain_loop u fuel cursor s' = plain_loop u fuel cursor s.
  Proof.
    induction fuel as [|f IH]; intros cursor prev prev' s s' Ho HR HP HP'.
    - destruct HR; reflexivity.
    - destruct HR as [|a c l l' Hac Hl]; [reflexivity|].
      assert (HF : Forall2 (Rl u) (a :: l) (c :: l')) by (constructor; assumption).
      cbn [plain_loop]. rewrite (lex_token_alnum prev' c l' HP'), (lex_token_alnum prev a l HP).
      pose proof (alnum_lex_congr _ _ HF) as EL. rewrite EL.
      destruct (alnum_lex (a :: l)) as [[n k]|] eqn:AL; [|reflexivity].
      destruct (span_new cursor (cursor + n)) as [sp|]; [|reflexivity]. cbn [bind].
      match goal with |- bind ?x _ = bind ?y _ => replace x with y; [reflexivity|] end.
      symmetry. apply (IH _ (adv prev n (a :: l)) (adv prev' n (c :: l'))).
      + apply adv_rel; assumption.
      + apply Forall2_skipn_c18. exact HF.
      + apply (St_adv prev _ n k HP AL).
      + apply (St_adv prev' _ n k HP'). exact EL.
  Qed.

  Theorem plain_parse_alnum (s s' : text) : Forall2 (Rl u) s s' -> Alnum s -> Alnum s' -> plain_parse u s' = plain_parse u s.
  Proof.
    intros HR HP HP'. unfold plain_parse.
    assert (L : length s' = length s) by (symmetry; exact (Forall2_length_c18 _ _ _ HR)).
    rewrite L. apply (plain_loop_alnum _ _ None None); [exact I|exact HR|apply Alnum_St; exact HP|apply Alnum_St; exact HP'].
  Qed.

  Theorem document_plain_alnum (s s' : text) : Forall2 (Rl u) s s' -> Alnum s -> Alnum s' ->
    document_plain u s' = document_plain u s.
  Proof.
    intros HR HP HP'. unfold document_plain. rewrite (plain_parse_alnum s s' HR HP HP').
    destruct (plain_parse u s) as [t0|]; cbn [bind]; [|reflexivity].
    apply document_passes_ic. eapply Forall2_impl_c18; [|exact HR]. intros a c. apply Rl_Ric.
  Qed.

  (* ================= the patterns are closed under Rl ================= *)
  Lemma q_plural_congr s s' : Forall2 (Rl u) s s' -> q_plural u s' = q_plural u s.
  Proof.
    intros H. pose proof (hostname_token_congr u s s' H) as HH. unfold q_plural.
    destruct H as [|c0 d0 l l' H0 H]; [reflexivity|]. destruct H as [|c1 d1 l l' H1 H]; [reflexivity|].
    rewrite HH, <- (Rl_alnum u c0 d0 H0), <- (Rl_is_s c1 d1 H1), (Rl_la l l' H), <- (proj1 (Rl_digit c0 d0 H0)).
    reflexivity.
  Qed.

  Lemma q_apos_congr s s' : Forall2 (Rl u) s s' -> q_apos u s' = q_apos u s.
  Proof.
    intros H. unfold q_apos.
    destruct H as [|c0 d0 l l' H0 H]; [reflexivity|]. destruct H as [|c1 d1 l l' H1 H]; [reflexivity|].
    destruct H as [|c2 d2 l l' H2 H]; [reflexivity|].
    unfold is_apo39.
    rewrite <- (Rl_alnum u c0 d0 H0), <- (Rl_ceqr 39 c1 d1 (or_intror eq_refl) H1),
      <- (Rl_ceqr 8217 c1 d1 (or_intror eq_refl) H1), <- (Rl_is_s c2 d2 H2), (Rl_la l l' H).
    reflexivity.
  Qed.

  Lemma q_hex_congr s s' : Forall2 (Rl u) s s' -> q_hex s' = q_hex s.
  Proof.
    intros H. unfold q_hex.
    destruct H as [|c0 d0 l l' H0 H]; [reflexivity|]. destruct H as [|c1 d1 l l' H1 H]; [reflexivity|].
    destruct H as [|c2 d2 l l' H2 H]; [reflexivity|].
    rewrite <- (Rl_ceq_digit 48 c0 d0 eq_refl H0), !is_x_key, !hexdigit_key, (Rl_key c1 d1 H1), (Rl_key c2 d2 H2),
      (proj1 (Rl_digit c2 d2 H2)). reflexivity.
  Qed.

  Lemma q_url_congr s s' : Forall2 (Rl u) s s' -> q_url s' = q_url s.
  Proof.
    intros H. unfold q_url.
    destruct H as [|c0 d0 l l' H0 H]; [reflexivity|]. destruct H as [|c1 d1 l l' H1 H]; [reflexivity|].
    destruct H as [|c2 d2 l l' H2 H]; [reflexivity|].
    rewrite (Rl_ceqr 58 c0 d0 (or_intror eq_refl) H0), (Rl_ceqr 47 c1 d1 (or_intror eq_refl) H1),
      (Rl_ceqr 47 c2 d2 (or_intror eq_refl) H2). reflexivity.
  Qed.

  Lemma start_ok_congr p p' : orel p p' -> start_ok u p' = start_ok u p.
  Proof.
    destruct p as [a|]; destruct p' as [c|]; cbn [orel start_ok]; try contradiction; [|reflexivity].
    intros H. rewrite (Rl_wch u a c H). reflexivity.
  Qed.

  Lemma ctx_ok3_congr : forall s s', Forall2 (Rl u) s s' -> forall p p', orel p p' -> ctx_ok3 u p' s' = ctx_ok3 u p s.
  Proof.
    intros s s' H. induction H as [|a c l l' Hac Hl IH]; intros p p' Ho; [reflexivity|].
    assert (HF : Forall2 (Rl u) (a :: l) (c :: l')) by (constructor; assumption).
    cbn [ctx_ok3]. unfold q_here.
    pose proof (IH (Some a) (Some c) Hac) as E0. pose proof (q_plural_congr _ _ HF) as E1.
    pose proof (q_apos_congr _ _ HF) as E2. pose proof (q_hex_congr _ _ HF) as E3.
    pose proof (q_url_congr _ _ HF) as E4.
    unfold text, char in *. rewrite E0, (start_ok_congr p p' Ho), E1, E2, E3, E4. reflexivity.
  Qed.

  Lemma ctx_ok3_congr0 s s' : Forall2 (Rl u) s s' -> ctx_ok3 u None s' = ctx_ok3 u None s.
  Proof. intros H. apply (ctx_ok3_congr s s' H None None I). Qed.
End Alnum.

Theorem lex_alnum_stable u (s s' : text) : Forall2 (Rl u) s s' -> Alnum u s -> Alnum u s' ->
  plain_parse u s' = plain_parse u s /\ document_plain u s' = document_plain u s.
Proof. intros HR HP HP'. split; [apply plain_parse_alnum|apply document_plain_alnum]; assumption. Qed.

(* ================= the class contains the plain and the dotted class ================= *)
Lemma q_rest_false u c r : is_ascii_digit c = false -> (forall c1 t, r = c1 :: t -> is_apo39 c1 = false) ->
  q_apos u (c :: r) = false /\ q_hex (c :: r) = false.
Proof.
  intros D A. split.
  - unfold q_apos. destruct r as [|c1 [|c2 t]]; try reflexivity. rewrite (A c1 _ eq_refl), andb_false_r. reflexivity.
  - unfold q_hex. destruct r as [|c1 [|c2 t]]; try reflexivity. destruct (not_digit_consts c D) as [-> _]. reflexivity.
Qed.

Lemma is_s_cases c : is_s c = true -> c = 115%N \/ c = 83%N.
Proof.
  unfold is_s, ceq. intros H. apply orb_prop in H. destruct H as [H|H]; apply N.eqb_eq in H; auto.
Qed.

(* a host run of two characters, or of three that ends in `.` / `-`, is no Hostname *)
Lemma hostname_two_none c0 c1 r : is_ascii_alphanumeric c0 = true -> is_s c1 = true ->
  match r with
  | [] => True
  | d :: r2 => host_char d = false \/
               ((ceq d 46 || ceq d 45) = true /\ match r2 with [] => True | c3 :: _ => host_char c3 = false end)
  end ->
  lex_hostname_token (c0 :: c1 :: r) = None.
Proof.
  intros A0 S1 H. unfold lex_hostname_token, lex_hostname. rewrite A0.
  assert (H0 : host_char c0 = true) by (unfold host_char; rewrite A0; reflexivity).
  assert (H1 : host_char c1 = true) by (destruct (is_s_cases c1 S1) as [->| ->]; reflexivity).
  assert (N1 : N.eqb 46 c1 = false) by (destruct (is_s_cases c1 S1) as [->| ->]; reflexivity).
  cbn [count_while]. rewrite H0, H1.
  destruct r as [|d r2]; [reflexivity|]. cbn [count_while].
  destruct H as [Hd|[Hd H3]]; [rewrite Hd; reflexivity|].
  assert (Hh : host_char d = true).
  { unfold host_char. apply orb_prop in Hd. destruct Hd as [-> | ->]; rewrite ?orb_true_r; reflexivity. }
  rewrite Hh.
  assert (C0 : count_while host_char r2 = 0).
  { destruct r2 as [|c3 r3]; [reflexivity|]. cbn [count_while]. rewrite H3. reflexivity. }
  rewrite C0. cbn [Nat.leb Nat.sub slice skipn firstn]. unfold mem_n. cbn [existsb]. rewrite N1. reflexivity.
Qed.

Lemma char2_char3 u c : char2 u c = true -> char3 u c = true.
Proof.
  intros H. destruct (char2_parts u c H) as [_ [_ Hcl]].
  assert (M : mem_n c bad3 = false).
  { unfold mem_n, bad3. cbn [existsb]. rewrite !(N.eqb_sym c).
    rewrite (char2_not_bad u c 64 H), (char2_not_bad u c 91 H),
      (char2_not_bad u c 8216 H), (char2_not_bad u c 65287 H); cbn; tauto. }
  unfold char3. rewrite M. cbn [negb andb].
  destruct Hcl as [W|[I|O]]; [rewrite W; reflexivity|rewrite I|rewrite O]; rewrite ?orb_true_r; reflexivity.
Qed.

Lemma dotted_ctx3 u : forall s prev, Forall (fun c => char2 u c = true) s -> ctx_ok s = true -> ctx_ok3 u prev s = true.
Proof.
  induction s as [|c r IH]; intros prev HP HC; [reflexivity|].
  inversion HP as [|c' r' Pc Pr]; subst. cbn [ctx_ok] in HC. apply andb_prop in HC. destruct HC as [HC0 HC1].
  apply negb_true_iff in HC0. cbn [ctx_ok3]. pose proof (IH (Some c) Pr HC1) as E0. unfold text, char in *. rewrite E0, andb_true_r.
  assert (QU : q_url (c :: r) = false).
  { unfold q_url. destruct r as [|c1 [|c2 t]]; try reflexivity. unfold ceq at 1. rewrite N.eqb_sym.
    rewrite (char2_not_bad u c 58 Pc); [reflexivity|cbn; tauto]. }
  rewrite QU. cbn [negb andb]. apply negb_true_iff.
  apply andb_false_intro2.
  destruct (char2_parts u c Pc) as [_ [Dc _]].
  assert (A39 : forall c1 t, r = c1 :: t -> is_apo39 c1 = false).
  { intros c1 t ->. inversion Pr; subst. unfold is_apo39, ceq. rewrite !(N.eqb_sym c1).
    rewrite (char2_not_bad u c1 39), (char2_not_bad u c1 8217); [reflexivity|assumption|cbn; tauto|assumption|cbn; tauto]. }
  unfold q_here. destruct (q_rest_false u c r Dc A39) as [E1 E2]. unfold text, char in *. rewrite E1, E2, !orb_false_r.
  unfold q_plural. destruct r as [|c1 t]; [reflexivity|]. rewrite Dc. cbn [orb].
  destruct (is_ascii_alphanumeric c) eqn:Ac; [|reflexivity]. destruct (is_s c1) eqn:S1; [|reflexivity].
  destruct (la3 u t) eqn:L; [|reflexivity]. cbn [andb].
  rewrite (hostname_two_none c c1 t Ac S1); [reflexivity|].
  destruct t as [|d r2]; [exact I|].
  destruct (host_char d) eqn:Hd; [right|now left].
  inversion Pr as [|x1 t1 P1 Pt]; subst. inversion Pt as [|x2 t2 Pd Pr2]; subst.
  cbn [la3] in L. apply negb_true_iff in L. apply orb_false_elim in L. destruct L as [Lw _].
  assert (Nd : is_ascii_alphanumeric d = false).
  { destruct (is_ascii_alphanumeric d) eqn:Ad; [|reflexivity].
    destruct (char2_ascii_alnum u d Pd Ad) as [Wd _]. congruence. }
  pose proof (host_char_cases d Hd Nd) as Hdd. split; [exact Hdd|].
  destruct r2 as [|c3 t3]; [exact I|].
  unfold fc18c_here in HC0. rewrite S1, Hdd in HC0.
  assert (Alc : is_ascii_alphabetic c = true).
  { unfold is_ascii_alphanumeric in Ac. rewrite Dc, orb_false_r in Ac. exact Ac. }
  rewrite Alc in HC0. cbn [andb] in HC0. exact HC0.
Qed.

Theorem dotted_alnum u s : dotted_text u s = true -> alnum_text u s = true.
Proof.
  intros H. apply dotted_text_Dotted in H. destruct H as [HP HC]. apply alnum_text_Alnum. split.
  - eapply Forall_impl; [|exact HP]. intros a. apply char2_char3.
  - apply dotted_ctx3; assumption.
Qed.

Lemma plain_char_char3 u c : plain_char u c = true -> char3 u c = true.
Proof.
  intros H. destruct (plain_parts u c H) as [_ [Hd Hcl]].
  assert (M : mem_n c bad3 = false).
  { unfold mem_n, bad3. cbn [existsb]. rewrite !(N.eqb_sym c).
    rewrite (plain_not_bad u c 64 H), (plain_not_bad u c 91 H),
      (plain_not_bad u c 8216 H), (plain_not_bad u c 65287 H); cbn; tauto. }
  unfold char3, wch. rewrite M, Hd. cbn [negb andb]. rewrite andb_true_r.
  destruct Hcl as [W|[I|O]]; [rewrite W; reflexivity|rewrite I|rewrite O]; rewrite ?orb_true_r; reflexivity.
Qed.

Lemma plain_ctx3 u : forall s prev, Plain u s -> ctx_ok3 u prev s = true.
Proof.
  induction s as [|c r IH]; intros prev HP; [reflexivity|].
  pose proof HP as HP0. inversion HP0 as [|c' r' Pc Pr]; subst.
  cbn [ctx_ok3]. pose proof (IH (Some c) Pr) as E0. unfold text, char in *. rewrite E0, andb_true_r.
  assert (QU : q_url (c :: r) = false).
  { unfold q_url. destruct r as [|c1 [|c2 t]]; try reflexivity. unfold ceq at 1. rewrite N.eqb_sym.
    rewrite (plain_not_bad u c 58 Pc); [reflexivity|cbn; tauto]. }
  rewrite QU. cbn [negb andb]. apply negb_true_iff. apply andb_false_intro2.
  destruct (plain_parts u c Pc) as [_ [Dc _]].
  assert (A39 : forall c1 t, r = c1 :: t -> is_apo39 c1 = false).
  { intros c1 t ->. inversion Pr; subst. unfold is_apo39, ceq. rewrite !(N.eqb_sym c1).
    rewrite (plain_not_bad u c1 39), (plain_not_bad u c1 8217); [reflexivity|assumption|cbn; tauto|assumption|cbn; tauto]. }
  unfold q_here. destruct (q_rest_false u c r Dc A39) as [E1 E2]. unfold text, char in *. rewrite E1, E2, !orb_false_r.
  unfold q_plural. destruct r as [|c1 t]; [reflexivity|]. rewrite Dc. cbn [orb].
  rewrite (hostname_none (c :: c1 :: t)); [cbn [is_some]; rewrite andb_false_r; reflexivity|].
  apply (Plain_noc u); [exact HP|cbn; tauto].
Qed.

Theorem plain_alnum u s : plain_text u s = true -> alnum_text u s = true.
Proof.
  intros H. apply plain_text_Plain in H. apply alnum_text_Alnum. split.
  - eapply Forall_impl; [|exact H]. intros a. apply plain_char_char3.
  - apply plain_ctx3. exact H.
Qed.

Theorem alnum_contains u s : plain_text u s = true \/ dotted_text u s = true -> alnum_text u s = true.
Proof. intros [H|H]; [apply plain_alnum|apply dotted_alnum]; exact H. Qed.
