(* C05ThreadProofs.v — the per-thread and per-process state of Model/C05Thread.v is unobservable:
   once cells return their initialiser's value whatever their state, build_dfa is served by a builder of exactly
   the requested distance and never panics, edit_distance_min_alloc does not read what its buffers held, and the
   world (process cells, thread states, linter) refines the thread-free entry-point model of C05Entry.v — hence,
   with C05EntryProofs.entry_refinement, the cache-free specification. *)
Require Import Base Overlap Cache CacheProofs C05Entry C05EntryProofs C05Thread Tables_c05statics.
From Coq Require Import List Arith NArith Bool Lia.
Import ListNotations.

(* ---------- once cells ---------- *)
Definition cell_ok {A} (init : unit -> A) (c : option A) : Prop := c = None \/ c = Some (init tt).

Lemma once_get_spec A (init : unit -> A) c :
  cell_ok init c -> exists c', once_get init c = (init tt, c') /\ cell_ok init c'.
Proof.
  intros [E|E]; subst c; cbn; eexists; (split; [reflexivity|right; reflexivity]).
Qed.

(* ---------- AUTOMATON_BUILDERS ---------- *)
Section BuildersFacts.
  Variables B DFA : Type.
  Variable builder_new : nat -> B.
  Variable build : B -> text -> DFA.
  Definition builders_ok (v : builders B) : Prop := Forall (fun e => snd e = builder_new (fst e)) v.

  Lemma builders_init_ok : builders_ok (builders_init builder_new).
  Proof. repeat constructor. Qed.

  Lemma find_builder_ok d : forall v b, builders_ok v -> find_builder d v = Some b -> b = builder_new d.
  Proof.
    induction v as [|[d' b'] v IH]; intros b Hok Hf; cbn in Hf; [discriminate|].
    inversion Hok as [|? ? Hh Ht]; subst. destruct (d' =? d) eqn:E.
    - apply Nat.eqb_eq in E. subst d'. inversion Hf; subst. exact Hh.
    - apply IH; assumption.
  Qed.

  Lemma find_builder_some d : forall v, existsb (fun t : nat * B => fst t =? d) v = true -> exists b, find_builder d v = Some b.
  Proof.
    induction v as [|[d' b'] v IH]; cbn; intros H; [discriminate|].
    destruct (d' =? d); [eexists; reflexivity|]. apply IH. exact H.
  Qed.

  Lemma find_builder_app_new d x : forall v, existsb (fun t : nat * B => fst t =? d) v = false -> find_builder d (v ++ [(d, x)]) = Some x.
  Proof.
    induction v as [|[d' b'] v IH]; cbn; intros H.
    - rewrite Nat.eqb_refl. reflexivity.
    - destruct (d' =? d); [discriminate|]. apply IH. exact H.
  Qed.

  (* the unwrap of build_dfa never panics, whatever the vector holds *)
  Lemma build_dfa_total d q v : exists b v', build_dfa builder_new build d q v = Ok (build b q, v').
  Proof.
    unfold build_dfa. destruct (existsb (fun t => fst t =? d) v) eqn:E.
    - destruct (find_builder_some d v E) as [b Hb]. rewrite Hb. eexists _, _. reflexivity.
    - rewrite (find_builder_app_new d (builder_new d) v E). eexists _, _. reflexivity.
  Qed.

  (* under the invariant it is served by a builder of exactly the requested distance *)
  Lemma build_dfa_ok d q v :
    builders_ok v -> exists v', build_dfa builder_new build d q v = Ok (build (builder_new d) q, v') /\ builders_ok v'.
  Proof.
    intros Hok. unfold build_dfa. destruct (existsb (fun t => fst t =? d) v) eqn:E.
    - destruct (find_builder_some d v E) as [b Hb]. rewrite Hb.
      rewrite (find_builder_ok d v b Hok Hb). eexists. split; [reflexivity|exact Hok].
    - rewrite (find_builder_app_new d (builder_new d) v E). eexists. split; [reflexivity|].
      apply Forall_app. split; [exact Hok|repeat constructor].
  Qed.
End BuildersFacts.
Arguments builders_ok {B}.

(* ---------- edit_distance_min_alloc does not read what its buffers held ---------- *)
Definition res_rel {A} (R : A -> A -> Prop) (ra rb : res A) : Prop :=
  match ra, rb with
  | Ok a, Ok b => R a b
  | Panic p, Panic q => p = q
  | _, _ => False
  end.
Lemma res_rel_refl A (R : A -> A -> Prop) r : (forall a, R a a) -> res_rel R r r.
Proof. intros H. destruct r; cbn; auto. Qed.

Definition agree (k : nat) (a b : list N) : Prop := length a = length b /\ firstn k a = firstn k b.

Lemma nth_error_firstn_lt A : forall k (l : list A) i, i < k -> nth_error (firstn k l) i = nth_error l i.
Proof.
  induction k as [|k IH]; intros l i Hi; [lia|].
  destruct l as [|x l]; [reflexivity|]. destruct i as [|i]; [reflexivity|]. cbn. apply IH. lia.
Qed.

Lemma nth_chk_agree k a b i : agree k a b -> i < k -> nth_chk a i = nth_chk b i.
Proof.
  intros [_ H] Hi. unfold nth_chk.
  rewrite <- (nth_error_firstn_lt N k a i Hi), <- (nth_error_firstn_lt N k b i Hi), H. reflexivity.
Qed.

Lemma set_nth_agree x : forall i a b, agree i a b -> res_rel (agree (S i)) (set_nth a i x) (set_nth b i x).
Proof.
  induction i as [|i IH]; intros a b [Hl Hf].
  - destruct a as [|ha a], b as [|hb b]; cbn in Hl; try discriminate; cbn; [reflexivity|].
    split; [cbn; lia|reflexivity].
  - destruct a as [|ha a], b as [|hb b]; cbn in Hl; try discriminate; [cbn; reflexivity|].
    cbn [firstn] in Hf. inversion Hf as [[Hh Ht]]. subst hb.
    assert (Hab : agree i a b) by (split; [lia|exact Ht]).
    specialize (IH a b Hab). cbn [set_nth].
    destruct (set_nth a i x) as [a'|p], (set_nth b i x) as [b'|q]; cbn in IH |- *; try contradiction; [|exact IH].
    destruct IH as [Hl' Hf']. split; [cbn; lia|]. cbn [firstn]. cbn [firstn] in Hf'. rewrite Hf'. reflexivity.
Qed.

Lemma set_nth_length A x : forall (l : list A) i l', set_nth l i x = Ok l' -> length l' = length l.
Proof.
  induction l as [|h l IH]; intros i l' H; [discriminate|].
  destruct i as [|i]; cbn in H.
  - inversion H; subst. reflexivity.
  - destruct (set_nth l i x) as [t|p] eqn:E; cbn in H; [|discriminate]. inversion H; subst. cbn. rewrite (IH i t E). reflexivity.
Qed.

Lemma ed_inner_length src tj prev : forall is_ cur cur', ed_inner src tj prev is_ cur = Ok cur' -> length cur' = length cur.
Proof.
  induction is_ as [|i r IH]; intros cur cur' H; cbn [ed_inner] in H; [inversion H; reflexivity|].
  destruct (nth_chk src (i - 1)) as [si|]; cbn [bind] in H; [|discriminate].
  destruct (nth_chk prev i) as [pi|]; cbn [bind] in H; [|discriminate].
  destruct (u8_add pi 1) as [a|]; cbn [bind] in H; [|discriminate].
  destruct (nth_chk cur (i - 1)) as [ci1|]; cbn [bind] in H; [|discriminate].
  destruct (u8_add ci1 1) as [b|]; cbn [bind] in H; [|discriminate].
  destruct (nth_chk prev (i - 1)) as [pi1|]; cbn [bind] in H; [|discriminate].
  destruct (u8_add pi1 _) as [c|]; cbn [bind] in H; [|discriminate].
  destruct (set_nth cur i _) as [cur1|] eqn:E; cbn [bind] in H; [|discriminate].
  rewrite (IH _ _ H). exact (set_nth_length _ _ _ _ _ E).
Qed.

Lemma ed_inner_agree src tj prev : forall n i0 c1 c2, 1 <= i0 -> agree i0 c1 c2 ->
  res_rel (agree (i0 + n)) (ed_inner src tj prev (seq i0 n) c1) (ed_inner src tj prev (seq i0 n) c2).
Proof.
  induction n as [|n IH]; intros i0 c1 c2 Hi Hag.
  - cbn. rewrite Nat.add_0_r. exact Hag.
  - cbn [seq ed_inner].
    destruct (nth_chk src (i0 - 1)) as [si|]; cbn [bind]; [|reflexivity].
    destruct (nth_chk prev i0) as [pi|]; cbn [bind]; [|reflexivity].
    destruct (u8_add pi 1) as [a|]; cbn [bind]; [|reflexivity].
    rewrite (nth_chk_agree i0 c1 c2 (i0 - 1) Hag) by lia.
    destruct (nth_chk c2 (i0 - 1)) as [ci1|]; cbn [bind]; [|reflexivity].
    destruct (u8_add ci1 1) as [b|]; cbn [bind]; [|reflexivity].
    destruct (nth_chk prev (i0 - 1)) as [pi1|]; cbn [bind]; [|reflexivity].
    destruct (u8_add pi1 _) as [c|]; cbn [bind]; [|reflexivity].
    pose proof (set_nth_agree (N.min (N.min a b) c) i0 c1 c2 Hag) as Hs.
    destruct (set_nth c1 i0 _) as [c1'|p], (set_nth c2 i0 _) as [c2'|q]; cbn in Hs; try contradiction; cbn [bind]; [|exact Hs].
    replace (i0 + S n) with (S i0 + n) by lia. apply IH; [lia|exact Hs].
Qed.

Lemma agree_full k a b : agree k a b -> length a <= k -> a = b.
Proof.
  intros [Hl Hf] Hk. rewrite <- (firstn_all2 a Hk), <- (firstn_all2 (n := k) b) by lia. exact Hf.
Qed.

Lemma ed_outer_indep src tgt w : forall js prev c1 c2, length c1 = S w -> length c2 = S w ->
  res_rel (fun r1 r2 => fst r1 = fst r2 /\ (js <> [] -> r1 = r2))
          (ed_outer src tgt w js prev c1) (ed_outer src tgt w js prev c2).
Proof.
  intros [|j r] prev c1 c2 H1 H2.
  - cbn. split; [reflexivity|intros H; contradiction H; reflexivity].
  - cbn [ed_outer].
    assert (Hag : agree 0 c1 c2) by (split; [lia|reflexivity]).
    pose proof (set_nth_agree (N.of_nat j) 0 c1 c2 Hag) as Hs.
    destruct (set_nth c1 0 _) as [a1|p] eqn:E1, (set_nth c2 0 _) as [a2|q] eqn:E2; cbn in Hs; try contradiction; cbn [bind]; [|exact Hs].
    destruct (nth_chk tgt (j - 1)) as [tj|]; cbn [bind]; [|reflexivity].
    pose proof (ed_inner_agree src tj prev w 1 a1 a2 (le_n 1) Hs) as Hi.
    destruct (ed_inner src tj prev (seq 1 w) a1) as [b1|p] eqn:F1, (ed_inner src tj prev (seq 1 w) a2) as [b2|q] eqn:F2;
      cbn in Hi; try contradiction; cbn [bind]; [|exact Hi].
    assert (b1 = b2).
    { apply (agree_full (1 + w)); [exact Hi|].
      rewrite (ed_inner_length _ _ _ _ _ _ F1), (set_nth_length _ _ _ _ _ E1). lia. }
    subst b2. apply res_rel_refl. intros a. split; [reflexivity|intros _; reflexivity].
Qed.

Lemma resize0_length l n : length (resize0 l n) = n.
Proof. unfold resize0. rewrite app_length, firstn_length, repeat_length. lia. Qed.

(* the distance (or the panic) edit_distance_min_alloc returns is the same for any two pairs of buffers *)
Theorem ed_buffers_unobservable src tgt p1 c1 p2 c2 :
  res_rel (fun r1 r2 => fst r1 = fst r2) (ed_min_alloc src tgt p1 c1) (ed_min_alloc src tgt p2 c2).
Proof.
  unfold ed_min_alloc. destruct ((254 <? length src) || (254 <? length tgt)); [cbn; reflexivity|].
  pose proof (ed_outer_indep src tgt (length src) (seq 1 (length tgt)) (upto (S (length src)) 0%N)
                (resize0 c1 (S (length src))) (resize0 c2 (S (length src))) (resize0_length _ _) (resize0_length _ _)) as H.
  destruct (ed_outer _ _ _ _ _ (resize0 c1 _)) as [[pa ca]|p], (ed_outer _ _ _ _ _ (resize0 c2 _)) as [[pb cb]|q];
    cbn in H; try contradiction; cbn [bind]; [|exact H].
  destruct H as [H _]. cbn in H. subst pb.
  destruct (nth_chk pa (length src)); cbn; reflexivity.
Qed.

Theorem wed_buffers_unobservable content word k b1 b2 :
  res_rel (fun r1 r2 => fst r1 = fst r2) (wed_matches content word k b1) (wed_matches content word k b2).
Proof.
  unfold wed_matches.
  pose proof (ed_buffers_unobservable content word (fst b1) (snd b1) (fst b2) (snd b2)) as H.
  destruct (ed_min_alloc content word (fst b1) (snd b1)) as [[d1 x1]|p], (ed_min_alloc content word (fst b2) (snd b2)) as [[d2 x2]|q];
    cbn in H; try contradiction; cbn; [|exact H]. subst d2. reflexivity.
Qed.

(* ---------- the world refines the thread-free entry-point model ---------- *)
Section WorldFacts.
  Variables cfg kind dict : Type.
  Variables B DFA pat MD FD lang : Type.
  Notation K := (text * N * N)%type.
  Notation toks := (list (tok kind)).
  Variable cfg_hash : cfg -> N.
  Variable tok_hash : toks -> N.
  Variable fill : cfg -> cfg.
  Variable pattern_rel : dict -> text -> toks -> cfg -> list clint.
  Variables struct_pre struct_post : dict -> cfg -> doc kind -> list clint.
  Variable spell_on : cfg -> bool.
  Variable spell_mk : text -> span -> list text -> clint.
  Variable ctx : doc kind -> clint -> N.
  Variable builder_new : nat -> B.
  Variable build : B -> text -> DFA.
  Variable sdist : dict -> text -> nat.
  Variables snorm slower : text -> text.
  Variable sfinish : dict -> text -> DFA -> DFA -> list text.
  Variables contraction_init ellipsis_init latin_init article_init wordnum_init : unit -> pat.
  Variable mut_new : unit -> MD.
  Variable fst_from : MD -> FD.
  Variable mkdict : FD -> list text -> dict.
  Variable uses_collapse : lang -> bool.
  Variable doc_body : dict -> lang -> option pat -> pat -> pat -> pat -> pat -> text -> list toks * list (span * text) * N.

  Notation tstate := (tstate B pat).
  Notation pstate := (pstate MD FD).
  Notation world := (world cfg dict B pat MD FD).
  Notation wop := (wop cfg kind dict lang).
  Notation eop := (eop cfg kind dict).
  Notation suggest_pure := (suggest_pure dict B DFA builder_new build sdist snorm slower sfinish).
  Notation suggest_t := (suggest_t dict B DFA builder_new build sdist snorm slower sfinish).
  Notation lint_words_t := (lint_words_t dict B DFA spell_mk builder_new build sdist snorm slower sfinish).
  Notation lint_doc_t := (lint_doc_t cfg kind dict B DFA cfg_hash tok_hash pattern_rel struct_pre struct_post spell_on spell_mk builder_new build sdist snorm slower sfinish).
  Notation entry_lint_t := (entry_lint_t cfg kind dict B DFA cfg_hash tok_hash fill pattern_rel struct_pre struct_post spell_on spell_mk ctx builder_new build sdist snorm slower sfinish).
  Notation estep_t := (estep_t cfg kind dict B DFA cfg_hash tok_hash fill pattern_rel struct_pre struct_post spell_on spell_mk ctx builder_new build sdist snorm slower sfinish).
  Notation estep_pure := (estep_pure cfg kind dict B DFA cfg_hash tok_hash fill pattern_rel struct_pre struct_post spell_on spell_mk ctx builder_new build sdist snorm slower sfinish).
  Notation entry_lint_pure := (entry_lint cfg kind dict cfg_hash tok_hash fill pattern_rel struct_pre struct_post spell_on suggest_pure spell_mk ctx).
  Notation run_ehist_pure := (run_ehist cfg kind dict cfg_hash tok_hash fill pattern_rel struct_pre struct_post spell_on suggest_pure spell_mk ctx).
  Notation espec_hist_pure := (espec_hist cfg kind dict fill pattern_rel struct_pre struct_post spell_on suggest_pure spell_mk ctx).
  Notation build_doc := (build_doc kind dict B pat lang contraction_init ellipsis_init latin_init article_init wordnum_init uses_collapse doc_body).
  Notation doc_pure := (doc_pure kind dict pat lang contraction_init ellipsis_init latin_init article_init wordnum_init uses_collapse doc_body).
  Notation fst_curated := (fst_curated MD FD mut_new fst_from).
  Notation curated_pure := (curated_pure MD FD mut_new fst_from).
  Notation tfresh := (tfresh B pat builder_new).
  Notation tget := (tget B pat builder_new).
  Notation wstep := (wstep cfg kind dict B DFA pat MD FD lang cfg_hash tok_hash fill pattern_rel struct_pre struct_post spell_on spell_mk ctx builder_new build sdist snorm slower sfinish contraction_init ellipsis_init latin_init article_init wordnum_init mut_new fst_from mkdict uses_collapse doc_body).
  Notation wrun := (wrun cfg kind dict B DFA pat MD FD lang cfg_hash tok_hash fill pattern_rel struct_pre struct_post spell_on spell_mk ctx builder_new build sdist snorm slower sfinish contraction_init ellipsis_init latin_init article_init wordnum_init mut_new fst_from mkdict uses_collapse doc_body).
  Notation erase := (erase cfg kind dict pat MD FD lang contraction_init ellipsis_init latin_init article_init wordnum_init mut_new fst_from mkdict uses_collapse doc_body).
  Notation wdocs_ok := (wdocs_ok cfg kind dict pat MD FD lang contraction_init ellipsis_init latin_init article_init wordnum_init mut_new fst_from mkdict uses_collapse doc_body).

  (* the invariants: every cell is empty or holds its initialiser's value; every builder is the builder of its
     distance; BUFFERS may hold anything *)
  Definition tinv (ts : tstate) : Prop :=
    cell_ok contraction_init (t_contraction ts) /\ cell_ok ellipsis_init (t_ellipsis ts) /\
    cell_ok latin_init (t_latin ts) /\ cell_ok article_init (t_article ts) /\ cell_ok wordnum_init (t_wordnum ts) /\
    builders_ok builder_new (t_builders ts).
  Definition pinv (p : pstate) : Prop :=
    cell_ok mut_new (p_mut p) /\ (p_fst p = None \/ p_fst p = Some curated_pure).
  Definition winv (w : world) : Prop := pinv (w_p w) /\ Forall (fun e => tinv (snd e)) (w_ts w).

  Lemma tfresh_inv : tinv tfresh.
  Proof. unfold tinv, C05Thread.tfresh; cbn. repeat split; try (left; reflexivity). apply builders_init_ok. Qed.
  Lemma pfresh_inv : pinv (pfresh MD FD).
  Proof. split; left; reflexivity. Qed.
  Lemma wfresh_inv st : winv (mkworld (pfresh MD FD) [] st).
  Proof. split; [apply pfresh_inv|constructor]. Qed.

  Lemma tget_inv tid : forall m, Forall (fun e : nat * tstate => tinv (snd e)) m -> tinv (tget tid m).
  Proof.
    unfold C05Thread.tget. induction m as [|[t ts] m IH]; intros H; cbn; [apply tfresh_inv|].
    inversion H as [|? ? Hh Ht]; subst. destruct (Nat.eqb tid t); [exact Hh|apply IH; exact Ht].
  Qed.

  Lemma fst_curated_ok p : pinv p -> exists p', fst_curated p = (curated_pure, p') /\ pinv p'.
  Proof.
    intros [Hm Hf]. unfold C05Thread.fst_curated. destruct Hf as [Hf|Hf]; rewrite Hf.
    - unfold mut_curated. destruct (once_get_spec MD mut_new (p_mut p) Hm) as (c' & E & Hc'). rewrite E.
      eexists. split; [reflexivity|]. split; [exact Hc'|right; reflexivity].
    - eexists. split; [reflexivity|]. split; [exact Hm|right; exact Hf].
  Qed.

  Lemma build_doc_ok dc l src ts d :
    tinv ts -> doc_pure dc l src = Ok d ->
    exists ts', build_doc dc l src ts = Ok (d, ts') /\ tinv ts' /\ t_builders ts' = t_builders ts.
  Proof.
    intros (H1 & H2 & H3 & H4 & H5 & H6) Hd. unfold C05Thread.build_doc, C05Thread.doc_pure in *.
    destruct (once_get_spec pat contraction_init _ H1) as (c1 & E1 & K1).
    destruct (once_get_spec pat ellipsis_init _ H2) as (c2 & E2 & K2).
    destruct (once_get_spec pat latin_init _ H3) as (c3 & E3 & K3).
    destruct (once_get_spec pat article_init _ H4) as (c4 & E4 & K4).
    destruct (once_get_spec pat wordnum_init _ H5) as (c5 & E5 & K5).
    destruct (uses_collapse l).
    - rewrite E5, E1, E2, E3, E4.
      destruct (doc_body dc l _ _ _ _ _ src) as [[chunks miss] rest]. rewrite Hd. cbn [bind].
      eexists. split; [reflexivity|]. split; [repeat split; assumption|reflexivity].
    - rewrite E1, E2, E3, E4.
      destruct (doc_body dc l _ _ _ _ _ src) as [[chunks miss] rest]. rewrite Hd. cbn [bind].
      eexists. split; [reflexivity|]. split; [repeat split; assumption|reflexivity].
  Qed.

  Lemma doc_pure_wf dc l src d : doc_pure dc l src = Ok d -> doc_wf d.
  Proof.
    unfold C05Thread.doc_pure. destruct (doc_body dc l _ _ _ _ _ src) as [[chunks miss] rest].
    apply code_doc_of_wf.
  Qed.

  Lemma suggest_t_ok dc w v :
    builders_ok builder_new v -> exists v', suggest_t dc w v = Ok (suggest_pure dc w, v') /\ builders_ok builder_new v'.
  Proof.
    intros Hv. unfold C05Thread.suggest_t, C05Thread.suggest_pure.
    destruct (build_dfa_ok B DFA builder_new build (sdist dc w) (snorm w) v Hv) as (v1 & E1 & H1). rewrite E1. cbn [bind].
    destruct (build_dfa_ok B DFA builder_new build (sdist dc w) (slower (snorm w)) v1 H1) as (v2 & E2 & H2). rewrite E2. cbn [bind].
    eexists. split; [reflexivity|exact H2].
  Qed.

  Lemma lint_words_t_ok dc : forall ws sevs sm v,
    builders_ok builder_new v ->
    exists v', lint_words_t dc ws sevs sm v = Ok (lint_words (suggest_pure dc) spell_mk ws sevs sm, v') /\ builders_ok builder_new v'.
  Proof.
    induction ws as [|[sp w] ws IH]; intros sevs sm v Hv.
    - eexists. split; [reflexivity|exact Hv].
    - cbn [C05Thread.lint_words_t lint_words].
      destruct (lookup text_eqb w (evict (hd keep_all sevs) sm)) as [x|] eqn:E.
      + cbn [bind]. destruct (IH (tl sevs) (evict (hd keep_all sevs) sm) v Hv) as (v' & E' & Hv'). rewrite E'. cbn [bind].
        destruct (lint_words (suggest_pure dc) spell_mk ws (tl sevs) (evict (hd keep_all sevs) sm)) as [[a b] c].
        eexists. split; [reflexivity|exact Hv'].
      + destruct (suggest_t_ok dc w v Hv) as (v1 & E1 & Hv1). rewrite E1. cbn [bind].
        destruct (IH (tl sevs) (put text_eqb w (suggest_pure dc w) (evict (hd keep_all sevs) sm)) v1 Hv1) as (v' & E' & Hv'). rewrite E'. cbn [bind].
        destruct (lint_words (suggest_pure dc) spell_mk ws (tl sevs) _) as [[a b] c].
        eexists. split; [reflexivity|exact Hv'].
  Qed.

  Definition lift {A} (r : res A) (v : builders B) : res (A * builders B) :=
    match r with Ok a => Ok (a, v) | Panic p => Panic p end.

  Lemma entry_lint_t_ok e st d evs sevs v :
    builders_ok builder_new v ->
    exists v', entry_lint_t e st d evs sevs v = lift (entry_lint_pure e st d evs sevs) v' /\ builders_ok builder_new v'.
  Proof.
    intros Hv. unfold C05Thread.entry_lint_t, C05Thread.lint_doc_t, entry_lint, lint_group_lint, lint_doc. cbn [st_cfg st_cache st_spell].
    destruct (spell_on (fill (st_cfg (e_lg st)))).
    - destruct (lint_words_t_ok (e_dict st) (d_miss d) sevs (st_spell (e_lg st)) v Hv) as (v' & E & Hv'). rewrite E. cbn [bind].
      exists v'. split; [|exact Hv'].
      destruct (lint_words (suggest_pure (e_dict st)) spell_mk (d_miss d) sevs (st_spell (e_lg st))) as [[sm spell] whits].
      destruct (lint_chunks _ _ _ _ _ _ _ _ _ _) as [[[m pt] hits]|p]; cbn; reflexivity.
    - exists v. split; [|exact Hv]. cbn [bind].
      destruct (lint_chunks _ _ _ _ _ _ _ _ _ _) as [[[m pt] hits]|p]; cbn; reflexivity.
  Qed.

  Lemma estep_t_ok e st o v :
    builders_ok builder_new v ->
    exists v', estep_t e st o v = lift (estep_pure e st o) v' /\ builders_ok builder_new v'.
  Proof.
    intros Hv. destruct o; try (exists v; split; [|exact Hv]; unfold C05Thread.estep_t;
      match goal with |- context [estep_pure ?a ?b ?c] => destruct (estep_pure a b c) as [[s o']|p] end; reflexivity).
    unfold C05Thread.estep_t, C05Thread.estep_pure, estep.
    destruct (entry_lint_t_ok e st d evs sevs v Hv) as (v' & E & Hv'). rewrite E.
    exists v'. split; [|exact Hv'].
    destruct (entry_lint_pure e st d evs sevs) as [[[s o'] f]|p]; reflexivity.
  Qed.

  (* the dictionary after a step *)
  Definition dict_after (o : eop) (dc : dict) : dict := match o with ERebuild dc' _ => dc' | _ => dc end.
  Lemma estep_dict e st o st' out : estep_pure e st o = Ok (st', out) -> e_dict st' = dict_after o (e_dict st).
  Proof.
    unfold C05Thread.estep_pure, estep. destruct o; cbn [dict_after]; intros H; try (inversion H; subst; reflexivity).
    unfold entry_lint in H. destruct (lint_group_lint _ _ _ _ _ _ _ _ _ _ _ _ _ _ _ _) as [[[lg2 o2] fl]|p]; cbn in H; [|discriminate].
    inversion H; subst. reflexivity.
  Qed.

  Lemma run_ehist_step_inv e o h st st' outs :
    run_ehist_pure e (o :: h) st = Ok (st', outs) ->
    exists st1 out1 outs1, estep_pure e st o = Ok (st1, out1) /\ run_ehist_pure e h st1 = Ok (st', outs1) /\
                           outs = match out1 with Some l => l :: outs1 | None => outs1 end.
  Proof.
    unfold C05Thread.estep_pure. cbn [run_ehist]. intros H.
    destruct (estep _ _ _ _ _ _ _ _ _ _ _ _ _ e st o) as [[st1 out1]|p]; cbn [bind] in H; [|discriminate].
    destruct (run_ehist _ _ _ _ _ _ _ _ _ _ _ _ _ e h st1) as [[st2 outs1]|p] eqn:E2; cbn [bind] in H; [|discriminate].
    inversion H; subst. eexists _, _, _. split; [reflexivity|]. split; [exact E2|reflexivity].
  Qed.

  Lemma wrun_sim e : forall (h : list (nat * wop)) (w : world) st' outs,
    winv w -> wdocs_ok (map snd h) (e_dict (w_e w)) ->
    run_ehist_pure e (erase (map snd h) (e_dict (w_e w))) (w_e w) = Ok (st', outs) ->
    exists w', wrun e h w = Ok (w', outs) /\ w_e w' = st' /\ winv w'.
  Proof.
    induction h as [|[tid o] h IH]; intros w st' outs Hw Hd Hr.
    - cbn in Hr. inversion Hr; subst. eexists. split; [reflexivity|]. split; [reflexivity|exact Hw].
    - destruct Hw as [Hp Hts]. pose proof (tget_inv tid _ Hts) as Ht.
      cbn [map snd] in Hd, Hr. cbn [C05Thread.wrun].
      destruct o as [o'|l src evs sevs bufs'|uw c].
      + (* WOp *)
        cbn [C05Thread.erase C05Thread.wdocs_ok] in Hd, Hr. destruct Hd as [_ Hd]. cbn [run_ehist] in Hr.
        destruct (run_ehist_step_inv e o' _ _ _ _ Hr) as (st1 & out1 & outs1 & E1 & Er & Eo).
        cbn [C05Thread.wstep].
        destruct Ht as (T1 & T2 & T3 & T4 & T5 & T6).
        destruct (estep_t_ok e (w_e w) o' _ T6) as (v' & Et & Hv'). rewrite Et. rewrite E1. cbn [lift bind].
        pose proof (estep_dict _ _ _ _ _ E1) as Edc.
        set (w1 := mkworld _ _ st1).
        destruct (IH w1 st' outs1) as (w' & Ew & Es & Hw').
        { split; [exact Hp|]. constructor; [|exact Hts]. cbn. repeat split; assumption. }
        { cbn [w_e w1]. rewrite Edc. exact Hd. }
        { cbn [w_e w1]. rewrite Edc. exact Er. }
        rewrite Ew. cbn [bind]. eexists. split; [rewrite Eo; reflexivity|]. split; assumption.
      + (* WLint *)
        cbn [C05Thread.erase C05Thread.wdocs_ok] in Hd, Hr. destruct Hd as [[d Hdoc] Hd]. rewrite Hdoc in Hr.
        destruct (run_ehist_step_inv e _ _ _ _ _ Hr) as (st1 & out1 & outs1 & E1 & Er & Eo).
        cbn [C05Thread.wstep].
        destruct (build_doc_ok _ l src _ d Ht Hdoc) as (ts1 & Eb & Ht1 & Evb). rewrite Eb. cbn [bind].
        destruct Ht1 as (T1 & T2 & T3 & T4 & T5 & T6).
        destruct (estep_t_ok e (w_e w) (ELint d evs sevs) _ T6) as (v' & Et & Hv'). rewrite Et. rewrite E1. cbn [lift bind].
        pose proof (estep_dict _ _ _ _ _ E1) as Edc. cbn [dict_after] in Edc.
        set (w1 := mkworld _ _ st1).
        destruct (IH w1 st' outs1) as (w' & Ew & Es & Hw').
        { split; [exact Hp|]. constructor; [|exact Hts]. cbn. repeat split; assumption. }
        { cbn [w_e w1]. rewrite Edc. exact Hd. }
        { cbn [w_e w1]. rewrite Edc. exact Er. }
        rewrite Ew. cbn [bind]. eexists. split; [rewrite Eo; reflexivity|]. split; assumption.
      + (* WRebuild *)
        cbn [C05Thread.erase C05Thread.wdocs_ok] in Hd, Hr.
        destruct (run_ehist_step_inv e _ _ _ _ _ Hr) as (st1 & out1 & outs1 & E1 & Er & Eo).
        cbn [C05Thread.wstep].
        destruct (fst_curated_ok _ Hp) as (p' & Ec & Hp'). rewrite Ec.
        destruct Ht as (T1 & T2 & T3 & T4 & T5 & T6).
        destruct (estep_t_ok e (w_e w) (ERebuild (mkdict curated_pure uw) c) _ T6) as (v' & Et & Hv'). rewrite Et. rewrite E1. cbn [lift bind].
        pose proof (estep_dict _ _ _ _ _ E1) as Edc. cbn [dict_after] in Edc.
        set (w1 := mkworld _ _ st1).
        destruct (IH w1 st' outs1) as (w' & Ew & Es & Hw').
        { split; [exact Hp'|]. constructor; [|exact Hts]. cbn. repeat split; assumption. }
        { cbn [w_e w1]. rewrite Edc. exact Hd. }
        { cbn [w_e w1]. rewrite Edc. exact Er. }
        rewrite Ew. cbn [bind]. eexists. split; [rewrite Eo; reflexivity|]. split; assumption.
  Qed.
  Lemma erase_wf : forall (h : list wop) dc, wdocs_ok h dc -> ehist_wf cfg kind dict (erase h dc).
  Proof.
    induction h as [|o h IH]; intros dc H; [exact I|].
    destruct o as [o'|l src evs sevs b|uw c]; cbn [C05Thread.erase C05Thread.wdocs_ok] in *.
    - destruct H as [H1 H2]. destruct o'; cbn [ehist_wf]; try (apply IH; exact H2). split; [exact H1|apply IH; exact H2].
    - destruct H as [[d Hd] H2]. rewrite Hd. cbn [ehist_wf]. split; [exact (doc_pure_wf _ _ _ _ Hd)|apply IH; exact H2].
    - cbn [ehist_wf]. apply IH. exact H.
  Qed.

  (* THE WORLD REFINES THE SPECIFICATION: whatever the process cells and the thread states hold (within the
     invariant — a fresh process, fresh threads, or whatever earlier work of any linter left there), whichever
     thread executes which operation, a history on a freshly built linter answers the cache-free, thread-free,
     cell-free specification of its erasure *)
  Theorem world_refinement e (h : list (nat * wop)) (w : world) dc0 c0 :
    winv w -> w_e w = efresh dc0 c0 -> wdocs_ok (map snd h) dc0 ->
    hash_inj_on cfg kind cfg_hash (ehist_triples cfg kind dict fill (erase (map snd h) dc0) c0) ->
    tok_hash_inj_on cfg kind tok_hash (ehist_triples cfg kind dict fill (erase (map snd h) dc0) c0) ->
    exists w', wrun e h w = Ok (w', espec_hist_pure e (erase (map snd h) dc0) (mkastate dc0 c0 [])) /\ winv w' /\
               abs_of cfg dict (w_e w') = abs_after cfg kind dict ctx (erase (map snd h) dc0) (mkastate dc0 c0 []).
  Proof.
    intros Hw He Hd Hc Ht.
    destruct (entry_refinement cfg kind dict cfg_hash tok_hash fill pattern_rel struct_pre struct_post spell_on suggest_pure
                spell_mk ctx e (erase (map snd h) dc0) dc0 c0 (erase_wf _ _ Hd) Hc Ht) as (st & Er & Ea).
    destruct (wrun_sim e h w st (espec_hist_pure e (erase (map snd h) dc0) (mkastate dc0 c0 [])) Hw) as (w' & Ew & Es & Hw').
    { rewrite He. exact Hd. } { rewrite He. exact Er. }
    exists w'. split; [exact Ew|]. split; [exact Hw'|]. rewrite Es. exact Ea.
  Qed.

  (* ... in particular two runs of the same operations — other thread assignment, other process, other past of
     the threads — answer the same *)
  Theorem thread_assignment_independent e (h1 h2 : list (nat * wop)) (w1 w2 : world) dc0 c0 :
    map snd h1 = map snd h2 -> winv w1 -> winv w2 -> w_e w1 = efresh dc0 c0 -> w_e w2 = efresh dc0 c0 ->
    wdocs_ok (map snd h1) dc0 ->
    hash_inj_on cfg kind cfg_hash (ehist_triples cfg kind dict fill (erase (map snd h1) dc0) c0) ->
    tok_hash_inj_on cfg kind tok_hash (ehist_triples cfg kind dict fill (erase (map snd h1) dc0) c0) ->
    exists w1' w2' outs, wrun e h1 w1 = Ok (w1', outs) /\ wrun e h2 w2 = Ok (w2', outs) /\
                         outs = espec_hist_pure e (erase (map snd h1) dc0) (mkastate dc0 c0 []).
  Proof.
    intros Eh H1 H2 E1 E2 Hd Hc Ht.
    destruct (world_refinement e h1 w1 dc0 c0 H1 E1 Hd Hc Ht) as (w1' & R1 & _).
    rewrite Eh in Hd, Hc, Ht.
    destruct (world_refinement e h2 w2 dc0 c0 H2 E2 Hd Hc Ht) as (w2' & R2 & _).
    rewrite <- Eh in R2. eexists _, _, _. split; [exact R1|]. split; [exact R2|reflexivity].
  Qed.
End WorldFacts.

(* ---------- non-vacuity: a world over the example rules of CacheProofs / C05EntryProofs ----------
   builders are their distance, an automaton is (distance of its builder, query); the suggestion of a word shows
   the distance of the builder that served it; the five pattern cells hold 11..15, the curated dictionaries 7
   and 8; Document::new yields the example document only when handed exactly these pattern values; language 0 =
   plain text, 1 = Markdown, 2 = a language whose parser is wrapped in CollapseIdentifiers; the dictionary is the
   number of user words over the curated FST dictionary 8 *)
Definition ew_sfinish (dc : N) (w : text) (a b : nat * text) : list text := [w ++ [33 + dc + N.of_nat (fst a) + N.of_nat (fst b)]%N].
Definition ew_mkdict (fd : N) (uw : list text) : N := if N.eqb fd 8 then N.of_nat (length uw) else 99%N.
Definition ew_doc_body (dc l : N) (wn : option N) (pc pe pl pa : N) (src : text) : list (list (tok N)) * list (span * text) * N :=
  if (N.eqb pc 11 && N.eqb pe 12 && N.eqb pl 13 && N.eqb pa 14 &&
      match wn with None => negb (N.eqb l 2) | Some v => N.eqb l 2 && N.eqb v 15 end)%bool
  then ([ex_toks 0 (if N.eqb l 1 then 1 else 0); []; ex_toks 10 (if N.eqb l 1 then 1 else 0)]%N,
        [(mkspan 4 6, [120; 120]%N); (mkspan 14 16, [120; 120]%N)], 5%N)
  else ([], [], 0%N).
Definition ew_run (e : entry) :=
  wrun N N N nat (nat * text) N N N N (fun c => c) ex_tok_hash ee_fill ee_rel ee_pre ee_post (fun _ => true) ex_mk ee_ctx
       (fun d => d) (fun b q => (b, q)) (fun _ _ => 2) (fun w => w) (fun w => w) ew_sfinish
       (fun _ => 11%N) (fun _ => 12%N) (fun _ => 13%N) (fun _ => 14%N) (fun _ => 15%N) (fun _ => 7%N) (fun m => (m + 1)%N)
       ew_mkdict (fun l => N.eqb l 2) ew_doc_body e.
Definition ew_erase :=
  erase N N N N N N N (fun _ => 11%N) (fun _ => 12%N) (fun _ => 13%N) (fun _ => 14%N) (fun _ => 15%N) (fun _ => 7%N) (fun m => (m + 1)%N)
        ew_mkdict (fun l => N.eqb l 2) ew_doc_body.
Definition ew_docs_ok :=
  wdocs_ok N N N N N N N (fun _ => 11%N) (fun _ => 12%N) (fun _ => 13%N) (fun _ => 14%N) (fun _ => 15%N) (fun _ => 7%N) (fun m => (m + 1)%N)
        ew_mkdict (fun l => N.eqb l 2) ew_doc_body.
Definition ew_inv := winv N N nat N N N (fun d => d) (fun _ => 11%N) (fun _ => 12%N) (fun _ => 13%N) (fun _ => 14%N) (fun _ => 15%N) (fun _ => 7%N) (fun m => (m + 1)%N).
Definition ew_spec (e : entry) :=
  espec_hist N N N ee_fill ee_rel ee_pre ee_post (fun _ => true)
             (suggest_pure N nat (nat * text) (fun d => d) (fun b q => (b, q)) (fun _ _ => 2) (fun w => w) (fun w => w) ew_sfinish) ex_mk ee_ctx e.
(* the operations: lint as plain text, ignore one lint, lint again, another configuration, lint as Markdown, a
   rebuild with one user word (curated dictionary through the process cells), lint in the language that uses
   CollapseIdentifiers, clear, rebuild back, lint *)
Definition ew_ops : list (wop N N N N) :=
  [WLint 0%N ex_src [] [] ([1; 2; 3]%N, [4]%N);
   WOp (EIgnore (ex_doc 0) (mkclint (mkspan 1 2) 7%N));
   WLint 0%N ex_src [] [] ([], []);
   WOp (ESetCfg 2%N); WLint 1%N ex_src [] [] ([], [9; 9]%N);
   WRebuild [[122]%N] 0%N; WLint 2%N ex_src [] [] ([], []);
   WOp EClearIgnored; WOp (EEvict (fun _ => false) (fun _ => false));
   WRebuild [] 0%N; WLint 0%N ex_src [] [] ([], [])].
(* everything on thread 0 of a fresh process / handed round five threads of a process whose cells are set, whose
   thread 0 has already served distances 1 and 2 and holds garbage in BUFFERS, and whose thread 3 is fresh *)
Definition ew_hist_a : list (nat * wop N N N N) := map (fun o => (0, o)) ew_ops.
Definition ew_hist_b : list (nat * wop N N N N) := combine [0; 1; 2; 3; 4; 0; 1; 2; 3; 4; 0] ew_ops.
Definition ew_world_a : world N N nat N N N := mkworld (mkpstate None None) [] (efresh 0%N 0%N).
Definition ew_world_b : world N N nat N N N :=
  mkworld (mkpstate (Some 7%N) (Some 8%N))
          [(0, mktstate (Some 11%N) None (Some 13%N) None None [(3, 3); (1, 1); (2, 2)] ([7; 7; 7; 7; 7; 7; 7]%N, [8; 8]%N));
           (1, mktstate None None None None (Some 15%N) [(3, 3)] ([], []))]
          (efresh 0%N 0%N).
Definition ew_outs (r : res (world N N nat N N N * list (list clint))) : list (list (nat * nat * N)) :=
  match r with
  | Ok (_, outs) => map (map (fun l => (sstart (cl_span l), send (cl_span l), cl_body l))) outs
  | Panic _ => []
  end.

(* ---------- the table generated from the Rust sources (Model/Tables_c05statics.v) ---------- *)
Definition count_kind (k : static_kind) : nat :=
  length (filter (fun e => match snd e, k with
                           | OnceCell, OnceCell | BuilderVec, BuilderVec | ScratchBuf, ScratchBuf | Const, Const => true
                           | _, _ => false end) c05_statics).
(* the statics the code has NOW are: once cells and constants, exactly one builder vector, exactly one pair of
   scratch buffers — the three mechanisms of Model/C05Thread.v; a fresh thread's builder vector is the model's *)
Lemma statics_table_ok :
  count_kind BuilderVec = 1 /\ count_kind ScratchBuf = 1 /\
  count_kind OnceCell + count_kind Const + 2 = length c05_statics /\
  (forall B (f : nat -> B), builders_init f = [(c05_expected_distance, f c05_expected_distance)]).
Proof. repeat split. Qed.
(* beyond the u8 rows (threshold read from the source) the call leaves both buffers as it found them *)
Lemma ed_long_path_keeps_buffers src tgt p c :
  c05_u8_row_threshold < length src \/ c05_u8_row_threshold < length tgt ->
  ed_min_alloc src tgt p c = Ok (N.of_nat (Nat.min (ed_long src tgt) 255), (p, c)).
Proof.
  intros H. unfold ed_min_alloc. change c05_u8_row_threshold with 254 in H.
  destruct H as [H|H]; apply Nat.ltb_lt in H; rewrite H; [reflexivity|rewrite orb_true_r; reflexivity].
Qed.
