(* C13Algebra.v — algebra of remove_overlaps its callers rely on: the output is sorted, the function
   is idempotent, the kept SPANS do not depend on the order of the input, with pairwise distinct
   (start, end) pairs the kept LIST does not either, and in a tie the stable sort decides: of a class
   of lints with one non-empty span only the first in input order can survive. *)
Require Import Base Overlap ListLemmas OverlapProofs.
From Coq Require Import Sorting.Sorted Sorting.Permutation.

Definition lkey (l : lint) : nat * nat := (lstart l, lend l).
Definition same_key (k y : lint) : bool := (lstart y =? lstart k) && (lend y =? lend k).

Lemma same_key_spec k y : same_key k y = true <-> lkey y = lkey k.
Proof.
  unfold same_key, lkey. rewrite andb_true_iff, !Nat.eqb_eq. split.
  - intros [-> ->]. reflexivity.
  - intros H. injection H as -> ->. split; reflexivity.
Qed.

Lemma kle_keys a b a' b' : lkey a = lkey a' -> lkey b = lkey b' -> kle a b -> kle a' b'.
Proof.
  unfold lkey, kle. rewrite !key_le_spec. intros Ha Hb. injection Ha as Ha1 Ha2. injection Hb as Hb1 Hb2. lia.
Qed.

Lemma kle_antisym a b : kle a b -> kle b a -> lkey a = lkey b.
Proof.
  unfold kle, lkey. rewrite !key_le_spec. intros H1 H2.
  assert (lstart a = lstart b /\ lend a = lend b) as [-> ->] by lia. reflexivity.
Qed.

(* ---------- subsequences ---------- *)
Lemma subseq_sorted {A} (R : A -> A -> Prop) (l1 l2 : list A) :
  subseq l1 l2 -> StronglySorted R l2 -> StronglySorted R l1.
Proof.
  induction 1 as [|x l1 l2 H IH|x l1 l2 H IH]; intros S.
  - constructor.
  - inversion S; subst. now apply IH.
  - inversion S as [|? ? S' Hall]; subst. constructor; [now apply IH|].
    apply Forall_forall. intros y Hy. rewrite Forall_forall in Hall. apply Hall.
    eapply subseq_In; eassumption.
Qed.

Lemma subseq_refl {A} (l : list A) : subseq l l.
Proof. induction l; constructor; assumption. Qed.

Lemma subseq_trans {A} (l1 l2 l3 : list A) : subseq l1 l2 -> subseq l2 l3 -> subseq l1 l3.
Proof.
  intros H12 H23. revert l1 H12. induction H23 as [|x l2 l3 H IH|x l2 l3 H IH]; intros l1 H12.
  - exact H12.
  - apply sub_skip. now apply IH.
  - inversion H12; subst; [apply sub_skip|apply sub_take]; now apply IH.
Qed.

Lemma filter_subseq {A} (p : A -> bool) (l : list A) : subseq (filter p l) l.
Proof.
  induction l as [|x l IH]; cbn [filter]; [constructor|].
  destruct (p x); [apply sub_take|apply sub_skip]; exact IH.
Qed.

Lemma subseq_FOP {A} (R : A -> A -> Prop) (l1 l2 : list A) :
  subseq l1 l2 -> ForallOrdPairs R l2 -> ForallOrdPairs R l1.
Proof.
  induction 1 as [|x l1 l2 H IH|x l1 l2 H IH]; intros F.
  - constructor.
  - inversion F; subst. now apply IH.
  - inversion F as [|? ? Hall F']; subst. constructor; [|now apply IH].
    apply Forall_forall. intros y Hy. rewrite Forall_forall in Hall. apply Hall.
    eapply subseq_In; eassumption.
Qed.

(* ---------- the output is sorted ---------- *)
Lemma ro_sorted_key ls : StronglySorted kle (remove_overlaps ls).
Proof.
  rewrite remove_overlaps_spec by (now right).
  eapply subseq_sorted; [apply sweep_kept_subseq|apply sort_sorted].
Qed.

Lemma ro_sorted_start ls : StronglySorted (fun a b => lstart a <= lstart b) (remove_overlaps ls).
Proof.
  pose proof (ro_sorted_key ls) as S. induction S as [|a l S IH Hall]; constructor; [exact IH|].
  eapply Forall_impl; [|exact Hall]. intros b Hb. now apply key_le_start.
Qed.

Lemma ro_sorted ls :
  StronglySorted kle (remove_overlaps ls) /\ StronglySorted (fun a b => lstart a <= lstart b) (remove_overlaps ls).
Proof. split; [apply ro_sorted_key|apply ro_sorted_start]. Qed.

(* ---------- sorting a sorted list changes nothing; idempotence ---------- *)
Lemma lsort_sorted_id l : StronglySorted kle l -> lsort l = l.
Proof.
  induction 1 as [|x l S IH Hall]; cbn [lsort]; [reflexivity|]. rewrite IH.
  destruct l as [|y ys]; cbn [linsert]; [reflexivity|].
  inversion Hall as [|? ? Hxy _]; subst. unfold kle in Hxy. now rewrite Hxy.
Qed.

Lemma sweep_kept_idem ls : forall cur, sweep_kept cur (sweep_kept cur ls) = sweep_kept cur ls.
Proof.
  induction ls as [|l rest IH]; intros cur; cbn [sweep_kept]; [reflexivity|].
  destruct (lstart l <? cur) eqn:E; [apply IH|].
  cbn [sweep_kept]. rewrite E. f_equal. apply IH.
Qed.

Theorem ro_idempotent ls : remove_overlaps (remove_overlaps ls) = remove_overlaps ls.
Proof.
  rewrite (remove_overlaps_spec (remove_overlaps ls)) by (now right).
  rewrite lsort_sorted_id by apply ro_sorted_key.
  rewrite remove_overlaps_spec by (now right). apply sweep_kept_idem.
Qed.

(* ---------- the kept spans do not depend on the order of the input ---------- *)
Lemma sorted_keys_unique l1 : forall l2,
  StronglySorted kle l1 -> StronglySorted kle l2 ->
  Permutation (map lkey l1) (map lkey l2) -> map lkey l1 = map lkey l2.
Proof.
  induction l1 as [|a l1 IH]; intros l2 S1 S2 P.
  - cbn in P. apply Permutation_nil in P. now rewrite P.
  - destruct l2 as [|b l2]; [apply Permutation_sym, Permutation_nil in P; discriminate|].
    inversion S1 as [|? ? S1' H1]; subst. inversion S2 as [|? ? S2' H2]; subst.
    assert (lkey a = lkey b) as Hab.
    { assert (kle b a) as Hba.
      { assert (In (lkey a) (map lkey (b :: l2))) as Hin
          by (eapply Permutation_in; [exact P|now left]).
        cbn [map] in Hin. destruct Hin as [Hin|Hin].
        - apply (kle_keys b b b a eq_refl Hin). unfold kle. apply key_le_spec. lia.
        - apply in_map_iff in Hin as [a' [Ha' Hin]]. rewrite Forall_forall in H2.
          apply (kle_keys b a' b a eq_refl Ha'). now apply H2. }
      assert (kle a b) as Hab'.
      { assert (In (lkey b) (map lkey (a :: l1))) as Hin
          by (eapply Permutation_in; [symmetry; exact P|now left]).
        cbn [map] in Hin. destruct Hin as [Hin|Hin].
        - apply (kle_keys a a a b eq_refl Hin). unfold kle. apply key_le_spec. lia.
        - apply in_map_iff in Hin as [b' [Hb' Hin]]. rewrite Forall_forall in H1.
          apply (kle_keys a b' a b eq_refl Hb'). now apply H1. }
      now apply kle_antisym. }
    cbn [map] in *. rewrite Hab in *. f_equal. apply IH; try assumption.
    eapply Permutation_cons_inv; exact P.
Qed.

Lemma sweep_kept_keys : forall l1 l2 cur, map lkey l1 = map lkey l2 ->
  map lkey (sweep_kept cur l1) = map lkey (sweep_kept cur l2).
Proof.
  induction l1 as [|a l1 IH]; intros l2 cur H; destruct l2 as [|b l2]; try discriminate; [reflexivity|].
  cbn [map] in H. injection H as Hs He Ht. cbn [sweep_kept]. rewrite Hs.
  destruct (lstart b <? cur); [now apply IH|].
  cbn [map]. f_equal; [unfold lkey; now rewrite Hs, He|]. rewrite He. now apply IH.
Qed.

(* any permutation of the input, ties included: the same spans survive, in the same order *)
Theorem ro_perm_spans l1 l2 : Permutation l1 l2 ->
  map lkey (remove_overlaps l1) = map lkey (remove_overlaps l2).
Proof.
  intros P. rewrite !remove_overlaps_spec by (now right). apply sweep_kept_keys.
  apply sorted_keys_unique; try apply sort_sorted.
  apply Permutation_map. rewrite !sort_perm. exact P.
Qed.

(* distinct (start, end) pairs (equivalently distinct (start, length) pairs): the same LINTS survive *)
Lemma NoDup_map_inj_on {A B} (f : A -> B) (l : list A) a b :
  NoDup (map f l) -> In a l -> In b l -> f a = f b -> a = b.
Proof.
  induction l as [|x l IH]; intros N Ha Hb E; [destruct Ha|].
  cbn [map] in N. inversion N as [|? ? Hx N']; subst.
  destruct Ha as [<-|Ha], Hb as [<-|Hb]; try reflexivity.
  - exfalso. apply Hx. rewrite E. now apply in_map.
  - exfalso. apply Hx. rewrite <- E. now apply in_map.
  - now apply IH.
Qed.

Lemma map_inj_on {A B} (f : A -> B) : forall (l1 l2 : list A),
  (forall a b, In a l1 -> In b l2 -> f a = f b -> a = b) -> map f l1 = map f l2 -> l1 = l2.
Proof.
  induction l1 as [|a l1 IH]; intros l2 Inj H; destruct l2 as [|b l2]; try discriminate; [reflexivity|].
  cbn [map] in H. injection H as Hab Ht. f_equal.
  - apply Inj; [now left|now left|exact Hab].
  - apply IH; [|exact Ht]. intros x y Hx Hy. apply Inj; now right.
Qed.

Theorem ro_perm_distinct l1 l2 : NoDup (map lkey l1) -> Permutation l1 l2 ->
  remove_overlaps l1 = remove_overlaps l2.
Proof.
  intros N P. apply (map_inj_on lkey); [|now apply ro_perm_spans].
  intros a b Ha Hb E. apply (NoDup_map_inj_on lkey l1); try assumption.
  - now apply ro_kept_in.
  - eapply Permutation_in; [symmetry; exact P|]. now apply ro_kept_in.
Qed.

(* ---------- ties: the stable sort decides ---------- *)
Lemma filter_none {A} (p : A -> bool) (l : list A) : (forall y, In y l -> p y = false) -> filter p l = [].
Proof.
  induction l as [|x l IH]; intros H; cbn [filter]; [reflexivity|].
  rewrite (H x (or_introl eq_refl)). apply IH. intros y Hy. apply H. now right.
Qed.

(* once the frontier is beyond the start of x, no later member of x's class survives *)
Lemma sweep_kept_class_dead x : forall rest cur,
  StronglySorted kle rest -> Forall (kle x) rest -> lstart x < cur ->
  filter (same_key x) (sweep_kept cur rest) = [].
Proof.
  induction rest as [|z rest IH]; intros cur S Hx Hc; cbn [sweep_kept]; [reflexivity|].
  inversion S as [|? ? S' Hz]; subst. inversion Hx as [|? ? Hxz Hx']; subst.
  destruct (lstart z <? cur) eqn:E; [now apply IH|].
  apply Nat.ltb_ge in E. apply filter_none. intros y [<-|Hy].
  - apply not_true_is_false. intros C. apply same_key_spec in C. unfold lkey in C. injection C as C1 C2. lia.
  - apply not_true_is_false. intros C. apply same_key_spec in C. unfold lkey in C. injection C as C1 C2.
    assert (In y rest) as Hy' by (eapply subseq_In; [apply sweep_kept_subseq|exact Hy]).
    rewrite Forall_forall in Hz. specialize (Hz y Hy'). apply key_le_start in Hz. lia.
Qed.

Lemma sweep_kept_tie k : lstart k < lend k -> forall s cur, StronglySorted kle s ->
  filter (same_key k) (sweep_kept cur s) = [] \/
  exists x rest, filter (same_key k) s = x :: rest /\ filter (same_key k) (sweep_kept cur s) = [x].
Proof.
  intros Hk. induction s as [|x s IH]; intros cur S; [left; reflexivity|].
  inversion S as [|? ? S' Hx]; subst. cbn [sweep_kept filter].
  destruct (same_key k x) eqn:P.
  - assert (lkey x = lkey k) as Kx by (now apply same_key_spec).
    assert (forall y, same_key k y = same_key x y) as Same.
    { intros y. unfold same_key. unfold lkey in Kx. injection Kx as -> ->. reflexivity. }
    destruct (lstart x <? cur) eqn:E.
    + left. apply Nat.ltb_lt in E. rewrite (filter_ext _ _ Same). now apply sweep_kept_class_dead.
    + right. exists x, (filter (same_key k) s). split; [reflexivity|].
      cbn [filter]. rewrite P. f_equal. rewrite (filter_ext _ _ Same).
      apply sweep_kept_class_dead; try assumption. unfold lkey in Kx. injection Kx as K1 K2. lia.
  - destruct (lstart x <? cur); [apply IH; exact S'|].
    cbn [filter]. rewrite P. apply IH. exact S'.
Qed.

(* of the lints that carry one and the same NON-EMPTY span at most one survives, and if one does it
   is the first of them in the order of the input *)
Theorem ro_tie_first ls k : lstart k < lend k ->
  filter (same_key k) (remove_overlaps ls) = [] \/
  exists x rest, filter (same_key k) ls = x :: rest /\ filter (same_key k) (remove_overlaps ls) = [x].
Proof.
  intros Hk. rewrite remove_overlaps_spec by (now right).
  destruct (sweep_kept_tie k Hk (lsort ls) 0 (sort_sorted ls)) as [H|[x [rest [H1 H2]]]]; [now left|].
  right. exists x, rest. split; [|exact H2].
  rewrite <- H1. symmetry. apply (sort_stable k ls).
Qed.

(* hence permutation invariance of the kept LIST fails in general: swapping two lints with the
   same span changes which of them is reported *)
Theorem ro_perm_ties_counterexample :
  exists l1 l2, Permutation l1 l2 /\ map lkey (remove_overlaps l1) = map lkey (remove_overlaps l2) /\
    ~ Permutation (remove_overlaps l1) (remove_overlaps l2).
Proof.
  exists [mklint (mkspan 0 4) 1; mklint (mkspan 0 4) 2], [mklint (mkspan 0 4) 2; mklint (mkspan 0 4) 1].
  split; [apply perm_swap|]. split; [vm_compute; reflexivity|].
  vm_compute. intros C. apply Permutation_length_1_inv in C. discriminate.
Qed.
