(* ServerVer.v — C09, what the version check of update_document guarantees (fix "an update with an older
   document version never replaces a newer text"): any number of didChange notifications, for any
   documents doc_state holds, with versions that increase per document, may be in flight together (up to
   four at a time) and complete in ANY order, at await granularity: when all have been handled, the last
   word for every document is the check of the newest text.
   Where no version is compared (didOpen / didClose / didSave / commands / configuration changes in flight
   with them) this fails: Proofs/ServerProofs.v. *)
Require Import Base Server ServerLemmas ServerSeq ServerConc ServerClose.

(* ---------- the schedules considered ---------- *)
Definition ver_safeb (w : world) (o : op) : bool :=
  match o with
  | Change u t v => match lookup u (w_open w) with Some cd => cd_ver cd <? v | None => false end
  | _ => false
  end.

(* the dispatcher, restricted at admission: the next message is a didChange of an open document whose
   version is larger than that of the last message sent for the document *)
Definition vstep (c : choice) (y : sys) : option sys :=
  match c with
  | CAdmit =>
      match y_todo y with
      | o :: _ => if ver_safeb (y_world y) o then step CAdmit y else None
      | [] => None
      end
  | CRun id => step (CRun id) y
  end.
Fixpoint vrun (cs : list choice) (y : sys) : option sys :=
  match cs with
  | [] => Some y
  | c :: cs' => match vstep c y with Some y' => vrun cs' y' | None => None end
  end.

Lemma vstep_step : forall c y y', vstep c y = Some y' -> step c y = Some y'.
Proof.
  intros [|id] y y' H; cbn [vstep] in H; [|exact H].
  destruct (y_todo y) as [|o r] eqn:E; [discriminate|].
  destruct (ver_safeb (y_world y) o); [exact H|discriminate].
Qed.

Lemma vrun_run : forall cs y y', vrun cs y = Some y' -> run cs y = Some y'.
Proof.
  induction cs as [|c cs IH]; intros y y' H; cbn in *; [exact H|].
  destruct (vstep c y) as [y1|] eqn:E; [|discriminate]. rewrite (vstep_step _ _ _ E). apply IH, H.
Qed.

(* ---------- the entry for text t at version v ---------- *)
Definition vgood (w : world) (u : url) (cd : cdoc) (t : text) (v : nat) : entry :=
  good_entry w u (mkcdoc (cd_lang cd) t (cd_ign cd) v).

Lemma vgood_self : forall w u cd, vgood w u cd (cd_text cd) (cd_ver cd) = good_entry w u cd.
Proof. intros w u [lg t ig v]. reflexivity. Qed.

(* ---------- what a handler's program says about where it is ---------- *)
Definition is_ident (hs : hstate) : Prop := In IIdentFinish (h_prog hs).
Definition pre_install (hs : hstate) : Prop := In IUpdate (h_prog hs) \/ In IIdentFinish (h_prog hs).
Definition will_publish (hs : hstate) : Prop := In IPublish (h_prog hs).
Definition hver (hs : hstate) : option nat := l_ver (h_loc hs).

(* ---------- per handler ---------- *)
Definition hclient (w : world) (l : locals) (cd : cdoc) (t : text) (v : nat) : Prop :=
  lookup (l_url l) (w_open w) = Some cd /\ l_text l = Some t /\ l_ver l = Some v /\ l_lang l = None /\
  v <= cd_ver cd /\ (v = cd_ver cd -> t = cd_text cd).

Definition hstage (w : world) (l : locals) (cd : cdoc) (t : text) (v : nat) (s : stage) : Prop :=
  let u := l_url l in
  match s with
  | SUpd n => n <= 6 /\ (n = 2 -> l_ans l = w_ccfg w) /\ (4 <= n -> l_snap l = w_ccfg w) /\
              (5 <= n -> l_ud l = w_udict w) /\ (6 <= n -> l_fd l = fdict_of w u)
  | SIdent k => k <= 2 /\ s_lock w = true /\ l_snap l = w_ccfg w /\ (1 <= k -> l_ud l = w_udict w) /\
                (2 <= k -> l_fd l = fdict_of w u) /\
                exists e2, lookup u (s_docs w) = Some (e_set_ident (t_ident t) e2) /\ ident_final w u t e2 = vgood w u cd t v
  | SPub => True
  | _ => False
  end.

Definition hpred (w : world) (hs : hstate) : Prop :=
  exists s cd t v, h_prog hs = prog_of s /\ hclient w (h_loc hs) cd t v /\ hstage w (h_loc hs) cd t v s.

(* ---------- per document ---------- *)
Definition no_ident (fl : list hstate) (u : url) : Prop := forall x, In x fl -> hurl x = u -> ~ is_ident x.
Definition newest_pending (fl : list hstate) (u : url) (cd : cdoc) : Prop :=
  exists x, In x fl /\ hurl x = u /\ hver x = Some (cd_ver cd) /\ pre_install x.

(* the newest text is installed; its check has been published or will be *)
Definition S1 (w : world) (fl : list hstate) (u : url) (cd : cdoc) : Prop :=
  lookup u (s_docs w) = Some (good_entry w u cd) /\ no_ident fl u /\
  (fresh w u \/ exists x, In x fl /\ hurl x = u /\ will_publish x).
(* an older text is installed; the handler of the newest has not reached the critical section *)
Definition S2 (w : world) (fl : list hstate) (u : url) (cd : cdoc) : Prop :=
  exists t' v', lookup u (s_docs w) = Some (vgood w u cd t' v') /\ v' < cd_ver cd /\ no_ident fl u /\ newest_pending fl u cd.
(* a handler of the document is inside use_ident_dict; the newest has not completed its critical section *)
Definition S3 (fl : list hstate) (u : url) (cd : cdoc) : Prop :=
  (exists x, In x fl /\ hurl x = u /\ is_ident x) /\ newest_pending fl u cd.

Definition dinv (w : world) (fl : list hstate) (u : url) : Prop :=
  match lookup u (w_open w) with
  | Some cd =>
      match kind (cd_lang cd) with
      | KNone => lookup u (s_docs w) = None /\ fresh w u
      | _ => S1 w fl u cd \/ S2 w fl u cd \/ S3 fl u cd
      end
  | None => lookup u (s_docs w) = None /\ fresh w u
  end.

Record VInv (y : sys) : Prop := mkVInv {
  vi_cfg : s_cfg (y_world y) = w_ccfg (y_world y);
  vi_ids : NoDup (map h_id (y_flight y));
  vi_next : forall hs, In hs (y_flight y) -> h_id hs < y_next y;
  vi_stage : forall hs, In hs (y_flight y) -> hpred (y_world y) hs;
  vi_lock : s_lock (y_world y) = false -> forall hs, In hs (y_flight y) -> ~ is_ident hs;
  vi_uniq : forall a b, In a (y_flight y) -> In b (y_flight y) -> is_ident a -> is_ident b -> h_id a = h_id b;
  vi_doc : forall u, dinv (y_world y) (y_flight y) u
}.

(* ---------- programs of the stages ---------- *)
Lemma prog_upd : forall n, n <= 6 ->
  In IUpdate (prog_of (SUpd n)) /\ In IPublish (prog_of (SUpd n)) /\ ~ In IIdentFinish (prog_of (SUpd n)).
Proof.
  intros n Hn. destruct n as [|[|[|[|[|[|[|n]]]]]]]; [| | | | | | |exfalso; lia]; cbn;
    (split; [tauto|]); (split; [tauto|]); intuition discriminate.
Qed.

Lemma prog_ident : forall k, k <= 2 ->
  In IIdentFinish (prog_of (SIdent k)) /\ In IPublish (prog_of (SIdent k)) /\ ~ In IUpdate (prog_of (SIdent k)).
Proof.
  intros k Hk. destruct k as [|[|[|k]]]; [| | |exfalso; lia]; cbn;
    (split; [tauto|]); (split; [tauto|]); intuition discriminate.
Qed.

(* ---------- the dinv of a document only sees the document and its handlers ---------- *)
Lemma vgood_same : forall w w' u cd t v, same_at u w w' -> vgood w' u cd t v = vgood w u cd t v.
Proof.
  intros w w' u cd t v (A & B & C & D & E & F & G & H). unfold vgood, good_entry, cur_dict. rewrite C, D, E. reflexivity.
Qed.
Lemma good_same : forall w w' u cd, same_at u w w' -> good_entry w' u cd = good_entry w u cd.
Proof.
  intros w w' u cd (A & B & C & D & E & F & G & H). unfold good_entry, cur_dict. rewrite C, D, E. reflexivity.
Qed.

Lemma dinv_transfer : forall w w' fl fl' u,
  same_at u w w' ->
  (forall x, In x fl' -> hurl x = u -> is_ident x -> exists x0, In x0 fl /\ hurl x0 = u /\ is_ident x0) ->
  (forall x, In x fl -> hurl x = u -> exists x1, In x1 fl' /\ hurl x1 = u /\ hver x1 = hver x /\
      (is_ident x -> is_ident x1) /\ (pre_install x -> pre_install x1) /\ (will_publish x -> will_publish x1)) ->
  dinv w fl u -> dinv w' fl' u.
Proof.
  intros w w' fl fl' u S Hback Hfwd D. pose proof S as (A & B & C & DD & E & F & G & H).
  assert (NI : no_ident fl u -> no_ident fl' u).
  { intros N x Hx Hu Hi. destruct (Hback x Hx Hu Hi) as (x0 & H0 & U0 & I0). exact (N x0 H0 U0 I0). }
  assert (NP : forall cd, newest_pending fl u cd -> newest_pending fl' u cd).
  { intros cd (x & Hx & Hu & Hv & Hp). destruct (Hfwd x Hx Hu) as (x1 & H1 & U1 & V1 & _ & P1 & _).
    exists x1. split; [exact H1|]. split; [exact U1|]. split; [congruence|exact (P1 Hp)]. }
  unfold dinv in *. rewrite A.
  assert (D0 : lookup u (s_docs w) = None /\ fresh w u -> lookup u (s_docs w') = None /\ fresh w' u).
  { intros [X Y]. split; [rewrite B; exact X|eapply same_at_fresh; eassumption]. }
  destruct (lookup u (w_open w)) as [cd|]; [|exact (D0 D)].
  destruct (kind (cd_lang cd)); [| |exact (D0 D)].
  all: destruct D as [(X1 & X2 & X3)|[(t' & v' & X1 & X2 & X3 & X4)|((x & Hx & Hu & Hi) & X2)]].
  all: try (left; split; [rewrite B, (good_same _ _ _ _ S); exact X1|]; split; [exact (NI X2)|];
            destruct X3 as [X3|(x & Hx & Hu & Hp)]; [left; eapply same_at_fresh; eassumption|];
            right; destruct (Hfwd x Hx Hu) as (x1 & H1 & U1 & _ & _ & _ & P1); exists x1; split; [exact H1|]; split; [exact U1|exact (P1 Hp)]).
  all: try (right; left; exists t', v'; split; [rewrite B, (vgood_same _ _ _ _ _ _ S); exact X1|]; split; [exact X2|]; split; [exact (NI X3)|exact (NP _ X4)]).
  all: right; right; split; [|exact (NP _ X2)];
       destruct (Hfwd x Hx Hu) as (x1 & H1 & U1 & _ & I1 & _); exists x1; split; [exact H1|]; split; [exact U1|exact (I1 Hi)].
Qed.

(* ---------- what the steps considered here leave alone ---------- *)
Definition same_env (w w' : world) : Prop :=
  w_open w' = w_open w /\ w_ccfg w' = w_ccfg w /\ w_udict w' = w_udict w /\ w_fdict w' = w_fdict w /\
  s_cfg w' = s_cfg w /\ w_disk w' = w_disk w.
Definition others_same (u : url) (w w' : world) : Prop :=
  forall u', u' <> u -> lookup u' (s_docs w') = lookup u' (s_docs w) /\ lastword w' u' = lastword w u'.

Lemma env_same_at : forall u u' w w', same_env w w' -> others_same u w w' -> u' <> u -> same_at u' w w'.
Proof.
  intros u u' w w' (A & B & C & D & E & F) O Hne. destruct (O u' Hne) as [O1 O2].
  unfold same_at, fdict_of. rewrite A, B, C, D, E, F. repeat split; assumption.
Qed.

Lemma ident_final_env : forall w w' u t e2,
  w_ccfg w' = w_ccfg w -> w_udict w' = w_udict w -> w_fdict w' = w_fdict w -> ident_final w' u t e2 = ident_final w u t e2.
Proof. intros w w' u t e2 B C D. unfold ident_final, cur_dict, fdict_of. rewrite B, C, D. reflexivity. Qed.
Lemma vgood_env : forall w w' u cd t v,
  w_ccfg w' = w_ccfg w -> w_udict w' = w_udict w -> w_fdict w' = w_fdict w -> vgood w' u cd t v = vgood w u cd t v.
Proof. intros w w' u cd t v B C D. unfold vgood, good_entry, cur_dict, fdict_of. rewrite B, C, D. reflexivity. Qed.

Lemma hpred_ident : forall w hs, hpred w hs -> is_ident hs ->
  exists k cd t v, h_prog hs = prog_of (SIdent k) /\ hclient w (h_loc hs) cd t v /\ hstage w (h_loc hs) cd t v (SIdent k).
Proof.
  intros w hs (s & cd & t & v & P & C & S) I. unfold is_ident in I. rewrite P in I.
  destruct s; cbn [hstage] in S; try contradiction.
  - destruct S as (Hn & _). destruct (prog_upd n Hn) as (_ & _ & X). contradiction.
  - exists k, cd, t, v. split; [exact P|split; [exact C|exact S]].
  - cbn in I. intuition discriminate.
Qed.

Lemma hpred_not_ident : forall w hs, hpred w hs -> ~ is_ident hs ->
  exists s cd t v, h_prog hs = prog_of s /\ hclient w (h_loc hs) cd t v /\ hstage w (h_loc hs) cd t v s /\
                   (forall k, s <> SIdent k).
Proof.
  intros w hs (s & cd & t & v & P & C & S) NI. exists s, cd, t, v. split; [exact P|]. split; [exact C|]. split; [exact S|].
  intros k E. subst s. cbn [hstage] in S. destruct S as (Hk & _). apply NI. unfold is_ident. rewrite P.
  apply (prog_ident k Hk).
Qed.

(* a handler only looks at the client's copy of its document and at the files; inside use_ident_dict also
   at the doc_state mutex and at its entry *)
Lemma hpred_transfer : forall w w' hs,
  lookup (hurl hs) (w_open w') = lookup (hurl hs) (w_open w) ->
  w_ccfg w' = w_ccfg w -> w_udict w' = w_udict w -> w_fdict w' = w_fdict w ->
  (is_ident hs -> s_lock w' = s_lock w /\ lookup (hurl hs) (s_docs w') = lookup (hurl hs) (s_docs w)) ->
  hpred w hs -> hpred w' hs.
Proof.
  intros w w' hs A B CC D HI (s & cd & t & v & P & C & S).
  exists s, cd, t, v. split; [exact P|]. split.
  - unfold hclient in *. unfold hurl in A. rewrite A. exact C.
  - destruct s; cbn [hstage] in *; try contradiction; try exact Logic.I.
    + unfold fdict_of. rewrite B, CC, D. exact S.
    + destruct S as (Hk & L & S1 & S2 & S3 & e2 & S4 & S5).
      assert (I : is_ident hs) by (unfold is_ident; rewrite P; apply (prog_ident k Hk)).
      destruct (HI I) as [L' D']. unfold hurl in D'.
      split; [exact Hk|]. split; [congruence|]. unfold fdict_of. rewrite B, CC, D.
      split; [exact S1|]. split; [exact S2|]. split; [exact S3|].
      exists e2. split; [rewrite D'; exact S4|]. rewrite (ident_final_env _ _ _ _ _ B CC D), (vgood_env _ _ _ _ _ _ B CC D). exact S5.
Qed.

(* ---------- the critical section, on an entry that is good for some (text, version) ---------- *)
Lemma exec_update_good : forall w l cd t v t' v' push l' w',
  l_text l = Some t -> l_ver l = Some v -> l_snap l = w_ccfg w -> l_ud l = w_udict w -> l_fd l = fdict_of w (l_url l) ->
  kind (cd_lang cd) <> KNone ->
  lookup (l_url l) (s_docs w) = Some (vgood w (l_url l) cd t' v') ->
  exec IUpdate l w = Some (push, l', w') ->
  s_lock w = false /\ l' = l /\
  ((v < v' /\ push = [] /\ w' = w) \/
   (v' <= v /\ push = [] /\ w' = set_docs (upsert (l_url l) (vgood w (l_url l) cd t v) (s_docs w)) w) \/
   (v' <= v /\ push = [IIdentUD; IIdentFD; IIdentFinish] /\ idof (cd_lang cd) t' <> idof (cd_lang cd) t /\
    exists e2, w' = set_lock true (set_docs (upsert (l_url l) (e_set_ident (t_ident t) e2) (s_docs w)) w) /\
               ident_final w (l_url l) t e2 = vgood w (l_url l) cd t v)).
Proof.
  intros w l cd t v t' v' push l' w' Ht Hv Hs Hu Hf Hk He H.
  cbn [exec] in H. destruct (s_lock w); [discriminate|]. split; [reflexivity|].
  rewrite Ht, Hv, Hs, Hu, Hf, He in H. fold (cur_dict w (l_url l)) in H.
  unfold vgood, good_entry in H. cbn [e_ver stale cd_lang cd_text cd_ign cd_ver] in H.
  destruct (v <? v') eqn:Ev.
  - apply Nat.ltb_lt in Ev. inversion H. split; [reflexivity|]. left. split; [exact Ev|]. split; reflexivity.
  - apply Nat.ltb_ge in Ev. unfold rebase in H. cbn [bump e_set_ver e_base] in H. rewrite dictv_eqb_refl in H.
    cbn [e_set_ver e_lang e_ident] in H.
    unfold ident_final, vgood, good_entry, idof in *. cbn [cd_lang cd_text cd_ign cd_ver].
    destruct (kind (cd_lang cd)) eqn:Ek; [| |congruence].
    + inversion H. split; [reflexivity|]. right. left. split; [exact Ev|]. split; reflexivity.
    + destruct (t_ident t' =? t_ident t) eqn:Ei.
      * apply Nat.eqb_eq in Ei. inversion H. split; [reflexivity|]. right. left. split; [exact Ev|]. split; [reflexivity|].
        rewrite Ei. reflexivity.
      * apply Nat.eqb_neq in Ei. inversion H. split; [reflexivity|]. right. right. split; [exact Ev|]. split; [reflexivity|].
        split; [exact Ei|]. eexists. split; reflexivity.
Qed.

Lemma exec_update_none : forall w l t push l' w',
  l_text l = Some t -> l_lang l = None -> l_snap l = w_ccfg w -> l_ud l = w_udict w -> l_fd l = fdict_of w (l_url l) ->
  lookup (l_url l) (s_docs w) = None ->
  exec IUpdate l w = Some (push, l', w') ->
  s_lock w = false /\ l' = l /\ push = [] /\ w' = set_docs (remove (l_url l) (s_docs w)) w.
Proof.
  intros w l t push l' w' Ht Hl Hs Hu Hf He H.
  cbn [exec] in H. destruct (s_lock w); [discriminate|]. split; [reflexivity|].
  rewrite Ht, Hl, Hs, Hu, Hf, He in H. cbn [new_entry e_ver] in H.
  assert (St : stale (l_ver l) None = false) by (destruct (l_ver l); reflexivity). rewrite St in H. unfold rebase in H.
  destruct (l_ver l); cbn [bump e_set_ver e_base new_entry] in H; rewrite dictv_eqb_refl in H; cbn [e_set_ver e_lang new_entry] in H;
    inversion H; repeat split.
Qed.

Lemma set_scfg_id : forall w, set_scfg (s_cfg w) w = w.
Proof. intros []; reflexivity. Qed.

(* ---------- the in-flight list when one handler is replaced ---------- *)
Lemma in_flight_unique : forall fl a b, NoDup (map h_id fl) -> In a fl -> In b fl -> h_id a = h_id b -> a = b.
Proof. intros fl a b ND Ha Hb E. eapply (NoDup_map_inj h_id); eassumption. Qed.

Lemma replace_back : forall h' fl x, NoDup (map h_id fl) -> In x (replace_h h' fl) ->
  (x = h' /\ h_prog h' <> []) \/ (In x fl /\ h_id x <> h_id h').
Proof.
  intros h' fl x ND Hin. destruct (replace_h_In h' fl ND x Hin) as [(A & B & _)|(A & B)]; [left; split; assumption|right; split; assumption].
Qed.

Section Replace.
  Variables (y : sys) (hs : hstate) (p' : list instr) (l' : locals).
  Hypothesis V : VInv y.
  Hypothesis Hin : In hs (y_flight y).
  Let h' := mkh (h_id hs) p' l'.
  Let fl := y_flight y.
  Let fl' := replace_h h' fl.

  Lemma rp_keep : forall x, In x fl -> h_id x <> h_id hs -> In x fl'.
  Proof. intros x Hx Hne. apply replace_h_keeps; [exact Hx|exact Hne]. Qed.
  Lemma rp_new : p' <> [] -> In h' fl'.
  Proof. intro Hp. apply replace_h_new; [cbn [h_id h']; apply in_map, Hin|exact Hp]. Qed.
  Lemma rp_back : forall x, In x fl' -> (x = h' /\ p' <> []) \/ (In x fl /\ h_id x <> h_id hs).
  Proof. intros x Hx. exact (replace_back h' fl x (vi_ids y V) Hx). Qed.
  Lemma rp_same : forall x, In x fl -> h_id x = h_id hs -> x = hs.
  Proof. intros x Hx E. exact (in_flight_unique fl x hs (vi_ids y V) Hx Hin E). Qed.
  Lemma rp_ids : NoDup (map h_id fl').
  Proof. apply replace_h_NoDup_ids, (vi_ids y V). Qed.
  Lemma rp_next : forall x, In x fl' -> h_id x < y_next y.
  Proof.
    intros x Hx. destruct (rp_back x Hx) as [[-> _]|[A _]]; [cbn [h_id h']; exact (vi_next y V hs Hin)|exact (vi_next y V x A)].
  Qed.

  (* a step that changes neither the world nor what dinv sees of the handler *)
  Lemma vinv_local :
    p' <> [] -> l_url l' = hurl hs -> l_ver l' = hver hs ->
    (In IIdentFinish p' <-> In IIdentFinish (h_prog hs)) -> (In IUpdate p' <-> In IUpdate (h_prog hs)) ->
    (In IPublish (h_prog hs) -> In IPublish p') ->
    hpred (y_world y) h' ->
    VInv (mksys (y_world y) fl' (y_todo y) (y_next y)).
  Proof.
    intros Hp Hu Hv Hi Hupd Hpub HP.
    assert (Ii : is_ident h' <-> is_ident hs) by exact Hi.
    constructor; cbn [y_world y_flight y_next].
    - exact (vi_cfg y V).
    - exact rp_ids.
    - exact rp_next.
    - intros x Hx. destruct (rp_back x Hx) as [[-> _]|[A _]]; [exact HP|exact (vi_stage y V x A)].
    - intros L x Hx I. destruct (rp_back x Hx) as [[-> _]|[A _]].
      + apply (vi_lock y V L hs Hin). apply Ii, I.
      + exact (vi_lock y V L x A I).
    - intros a b Ha Hb Ia Ib.
      assert (M : forall x, In x fl' -> is_ident x -> exists x0, In x0 fl /\ h_id x0 = h_id x /\ is_ident x0).
      { intros x Hx I. destruct (rp_back x Hx) as [[-> _]|[A _]]; [exists hs; split; [exact Hin|split; [reflexivity|apply Ii, I]]|exists x; auto]. }
      destruct (M a Ha Ia) as (a0 & A1 & A2 & A3). destruct (M b Hb Ib) as (b0 & B1 & B2 & B3).
      rewrite <- A2, <- B2. exact (vi_uniq y V a0 b0 A1 B1 A3 B3).
    - intro u. apply (dinv_transfer (y_world y) (y_world y) fl fl' u (same_at_refl u _)); [| |exact (vi_doc y V u)].
      + intros x Hx Hxu I. destruct (rp_back x Hx) as [[-> _]|[A _]].
        * exists hs. split; [exact Hin|]. split; [rewrite <- Hxu; symmetry; exact Hu|apply Ii, I].
        * exists x. auto.
      + intros x Hx Hxu. destruct (Nat.eq_dec (h_id x) (h_id hs)) as [E|E].
        * apply rp_same in E; [|exact Hx]. subst x. exists h'. split; [exact (rp_new Hp)|].
          split; [rewrite <- Hxu; exact Hu|]. split; [exact Hv|].
          split; [intro I; apply Ii, I|]. split; [|exact Hpub].
          intros [Q|Q]; [left; apply Hupd, Q|right; apply Hi, Q].
        * exists x. split; [exact (rp_keep x Hx E)|]. auto.
  Qed.

  (* a step of hs that changes doc_state / the log at its own document only, while no other handler is
     inside use_ident_dict *)
  Lemma vinv_nonlocal : forall w',
    (forall x, In x fl -> h_id x <> h_id hs -> ~ is_ident x) ->
    same_env (y_world y) w' -> others_same (hurl hs) (y_world y) w' -> l_url l' = hurl hs ->
    (p' <> [] -> hpred w' h') -> (s_lock w' = false -> ~ In IIdentFinish p') ->
    dinv w' fl' (hurl hs) ->
    VInv (mksys w' fl' (y_todo y) (y_next y)).
  Proof.
    intros w' Hoth E O Hu HP HL HD. pose proof E as (E1 & E2 & E3 & E4 & E5 & E6).
    constructor; cbn [y_world y_flight y_next].
    - rewrite E5, E2. exact (vi_cfg y V).
    - exact rp_ids.
    - exact rp_next.
    - intros x Hx. destruct (rp_back x Hx) as [[-> Hp]|[A B]]; [exact (HP Hp)|].
      apply (hpred_transfer (y_world y) w' x); [rewrite E1; reflexivity|exact E2|exact E3|exact E4| |exact (vi_stage y V x A)].
      intro I. exfalso. exact (Hoth x A B I).
    - intros L x Hx I. destruct (rp_back x Hx) as [[-> _]|[A B]]; [exact (HL L I)|exact (Hoth x A B I)].
    - intros a b Ha Hb Ia Ib.
      destruct (rp_back a Ha) as [[-> _]|[A B]]; [|exfalso; exact (Hoth a A B Ia)].
      destruct (rp_back b Hb) as [[-> _]|[A B]]; [reflexivity|exfalso; exact (Hoth b A B Ib)].
    - intro u. destruct (url_eq_dec u (hurl hs)) as [->|Hne]; [exact HD|].
      apply (dinv_transfer (y_world y) w' fl fl' u (env_same_at (hurl hs) u _ _ E O Hne)); [| |exact (vi_doc y V u)].
      + intros x Hx Hxu I. destruct (rp_back x Hx) as [[-> _]|[A _]]; [exfalso; apply Hne; rewrite <- Hxu; exact Hu|exists x; auto].
      + intros x Hx Hxu. exists x. split; [|auto]. apply rp_keep; [exact Hx|].
        intro Eid. apply rp_same in Eid; [|exact Hx]. subst x. exact (Hne (eq_sym Hxu)).
  Qed.

  Lemma no_ident_replace : forall u, no_ident fl u -> ~ In IIdentFinish p' -> no_ident fl' u.
  Proof.
    intros u N NI x Hx Hxu I. destruct (rp_back x Hx) as [[-> _]|[A _]]; [exact (NI I)|exact (N x A Hxu I)].
  Qed.

  Lemma no_ident_others : forall u, (forall x, In x fl -> h_id x <> h_id hs -> ~ is_ident x) -> ~ In IIdentFinish p' -> no_ident fl' u.
  Proof.
    intros u N NI x Hx Hxu I. destruct (rp_back x Hx) as [[-> _]|[A B]]; [exact (NI I)|exact (N x A B I)].
  Qed.

  (* the handler of the newest message is still pending: it is another one, or hs itself still is *)
  Lemma pending_replace : forall u cd, newest_pending fl u cd ->
    (hver hs <> Some (cd_ver cd) \/ (p' <> [] /\ l_url l' = hurl hs /\ l_ver l' = hver hs /\ (In IUpdate p' \/ In IIdentFinish p'))) ->
    newest_pending fl' u cd.
  Proof.
    intros u cd (x & Hx & Hxu & Hv & Hp) Hor.
    destruct (Nat.eq_dec (h_id x) (h_id hs)) as [E|E].
    - apply rp_same in E; [|exact Hx]. subst x. destruct Hor as [Hne|(Hp' & Hu & Hv' & Hpi)]; [congruence|].
      exists h'. split; [exact (rp_new Hp')|]. split; [rewrite <- Hxu; exact Hu|]. split; [unfold hver; cbn [h_loc h']; rewrite Hv'; exact Hv|exact Hpi].
    - exists x. split; [exact (rp_keep x Hx E)|]. auto.
  Qed.
End Replace.

Lemma dinv_parser : forall w fl u cd, lookup u (w_open w) = Some cd -> kind (cd_lang cd) <> KNone ->
  (dinv w fl u <-> S1 w fl u cd \/ S2 w fl u cd \/ S3 fl u cd).
Proof. intros w fl u cd H Hk. unfold dinv. rewrite H. destruct (kind (cd_lang cd)); [reflexivity|reflexivity|congruence]. Qed.

Lemma dinv_noparser : forall w fl u cd, lookup u (w_open w) = Some cd -> kind (cd_lang cd) = KNone ->
  (dinv w fl u <-> lookup u (s_docs w) = None /\ fresh w u).
Proof. intros w fl u cd H Hk. unfold dinv. rewrite H, Hk. reflexivity. Qed.

Lemma dinv_parser_intro : forall w fl u cd, lookup u (w_open w) = Some cd -> kind (cd_lang cd) <> KNone ->
  S1 w fl u cd \/ S2 w fl u cd \/ S3 fl u cd -> dinv w fl u.
Proof. intros w fl u cd H Hk X. apply (dinv_parser w fl u cd H Hk). exact X. Qed.
Lemma dinv_noparser_intro : forall w fl u cd, lookup u (w_open w) = Some cd -> kind (cd_lang cd) = KNone ->
  lookup u (s_docs w) = None /\ fresh w u -> dinv w fl u.
Proof. intros w fl u cd H Hk X. apply (dinv_noparser w fl u cd H Hk). exact X. Qed.

Lemma not_in_pub : ~ In IIdentFinish [IPublish].
Proof. intros [E|[]]. discriminate E. Qed.

(* the critical section is over (the handler did not enter use_ident_dict): doc_state is d *)
Lemma upd_done : forall y hs d cd t v w',
  VInv y -> In hs (y_flight y) -> s_lock (y_world y) = false ->
  hclient (y_world y) (h_loc hs) cd t v ->
  w' = set_docs d (y_world y) ->
  (forall u', u' <> hurl hs -> lookup u' d = lookup u' (s_docs (y_world y))) ->
  dinv w' (replace_h (mkh (h_id hs) [IPublish] (h_loc hs)) (y_flight y)) (hurl hs) ->
  VInv (mksys w' (replace_h (mkh (h_id hs) [IPublish] (h_loc hs)) (y_flight y)) (y_todo y) (y_next y)).
Proof.
  intros y hs d cd t v w' V Hin L C -> Hd HD. apply (vinv_nonlocal y hs [IPublish] (h_loc hs) V Hin).
  - intros x Hx _. exact (vi_lock y V L x Hx).
  - repeat split.
  - intros u' Hne. split; [cbn [s_docs set_docs]; apply Hd, Hne|reflexivity].
  - reflexivity.
  - intros _. exists SPub, cd, t, v. split; [reflexivity|]. split; [exact C|exact Logic.I].
  - intros _. exact not_in_pub.
  - exact HD.
Qed.

Lemma upsert_others : forall {V} u (e : V) m u', u' <> u -> lookup u' (upsert u e m) = lookup u' m.
Proof. intros V u e m u' H. apply lookup_upsert_neq. apply url_eqb_neq, H. Qed.

(* ---------- a handler advances ---------- *)
Lemma vinv_run_step : forall id y y', VInv y -> step (CRun id) y = Some y' -> VInv y'.
Proof.
  intros id y y' V H. cbn [step] in H.
  destruct (find_h id (y_flight y)) as [hs|] eqn:Ef; [|discriminate].
  destruct (h_prog hs) as [|i p] eqn:Ep; [discriminate|].
  destruct (exec i (h_loc hs) (y_world y)) as [[[push l'] w']|] eqn:Ee; [|discriminate].
  inversion H; subst y'; clear H.
  destruct (find_h_In _ _ _ Ef) as [Hin Hid]. subst id. clear Ef.
  destruct (vi_stage y V hs Hin) as (s & cd & t & v & P & C & S).
  rewrite Ep in P. pose proof C as (C1 & C2 & C3 & C4 & C5 & C6).
  destruct s as [n|k| | | | |k|]; cbn [hstage] in S; try contradiction.
  - (* update_document *)
    destruct S as (Hn & A2 & A4 & A5 & A6).
    destruct n as [|[|[|[|[|[|[|n]]]]]]]; [| | | | | | |exfalso; lia];
      cbn [prog_of skipn update_seq app] in P; inversion P; subst i p; clear P.
    + cbn [exec] in Ee. inversion Ee; subst push l' w'. cbn [app].
      apply (vinv_local y hs _ _ V Hin);
        [discriminate|reflexivity|reflexivity|rewrite Ep; cbn; intuition discriminate|rewrite Ep; cbn; intuition discriminate|rewrite Ep; cbn; intuition|].
      exists (SUpd 1), cd, t, v. split; [reflexivity|]. split; [exact C|]. cbn [hstage h_loc]. repeat split; intros; lia.
    + cbn [exec] in Ee. inversion Ee; subst push l' w'. cbn [app].
      apply (vinv_local y hs _ _ V Hin);
        [discriminate|reflexivity|reflexivity|rewrite Ep; cbn; intuition discriminate|rewrite Ep; cbn; intuition discriminate|rewrite Ep; cbn; intuition|].
      exists (SUpd 2), cd, t, v. split; [reflexivity|]. split; [exact C|]. cbn [hstage h_loc l_ans lset_ans]. repeat split; intros; try lia.
    + cbn [exec] in Ee. inversion Ee; subst push l' w'. cbn [app].
      rewrite (A2 eq_refl), <- (vi_cfg y V), set_scfg_id.
      apply (vinv_local y hs _ _ V Hin);
        [discriminate|reflexivity|reflexivity|rewrite Ep; cbn; intuition discriminate|rewrite Ep; cbn; intuition discriminate|rewrite Ep; cbn; intuition|].
      exists (SUpd 3), cd, t, v. split; [reflexivity|]. split; [exact C|]. cbn [hstage h_loc]. repeat split; intros; lia.
    + cbn [exec] in Ee. inversion Ee; subst push l' w'. cbn [app].
      apply (vinv_local y hs _ _ V Hin);
        [discriminate|reflexivity|reflexivity|rewrite Ep; cbn; intuition discriminate|rewrite Ep; cbn; intuition discriminate|rewrite Ep; cbn; intuition|].
      exists (SUpd 4), cd, t, v. split; [reflexivity|]. split; [exact C|]. cbn [hstage h_loc l_snap lset_snap]. repeat split; intros; try lia; try exact (vi_cfg y V).
    + cbn [exec] in Ee. inversion Ee; subst push l' w'. cbn [app].
      apply (vinv_local y hs _ _ V Hin);
        [discriminate|reflexivity|reflexivity|rewrite Ep; cbn; intuition discriminate|rewrite Ep; cbn; intuition discriminate|rewrite Ep; cbn; intuition|].
      exists (SUpd 5), cd, t, v. split; [reflexivity|]. split; [exact C|]. cbn [hstage h_loc l_snap l_ud lset_ud]. repeat split; intros; try lia; try reflexivity; try (apply A4; lia).
    + cbn [exec] in Ee. inversion Ee; subst push l' w'. cbn [app].
      apply (vinv_local y hs _ _ V Hin);
        [discriminate|reflexivity|reflexivity|rewrite Ep; cbn; intuition discriminate|rewrite Ep; cbn; intuition discriminate|rewrite Ep; cbn; intuition|].
      exists (SUpd 6), cd, t, v. split; [reflexivity|]. split; [exact C|]. cbn [hstage h_loc l_snap l_ud l_fd l_url lset_fd]. repeat split; intros; try lia; try reflexivity; try (apply A4; lia); try (apply A5; lia).
    + (* the critical section *)
      assert (B4 := A4 ltac:(lia)). assert (B5 := A5 ltac:(lia)). assert (B6 := A6 ltac:(lia)).
      assert (L : s_lock (y_world y) = false) by (cbn [exec] in Ee; destruct (s_lock (y_world y)); [discriminate|reflexivity]).
      assert (NIO : forall x, In x (y_flight y) -> h_id x <> h_id hs -> ~ is_ident x) by (intros x Hx _; exact (vi_lock y V L x Hx)).
      pose proof (vi_doc y V (hurl hs)) as D.
      destruct (kind (cd_lang cd)) eqn:Ek'.
      1,2: assert (Ek : kind (cd_lang cd) <> KNone) by congruence; clear Ek'.
      1,2: apply (dinv_parser _ _ _ cd C1 Ek) in D.
      1,2: destruct D as [(X1 & X2 & X3)|[(t' & v' & X1 & X2 & X3 & X4)|((x & Hx & _ & Hi) & _)]]; [| |exfalso; exact (vi_lock y V L x Hx Hi)].
      (* S1: the newest text is installed *)
      1,3: rewrite <- vgood_self in X1; unfold hurl in X1;
           destruct (exec_update_good _ _ cd t v _ _ _ _ _ C2 C3 B4 B5 B6 Ek X1 Ee) as (_ & -> & [(Hlt & -> & ->)|[(Hle & -> & ->)|(Hle & -> & Hid & _)]]).
      1,4: (* an older version: doc_state is left alone *)
           cbn [app]; apply (upd_done y hs (s_docs (y_world y)) cd t v _ V Hin L C (eq_sym (set_docs_id _))); [intros u' Hne; reflexivity|];
           apply dinv_parser_intro with (cd := cd); [exact C1|exact Ek|]; left; split; [unfold hurl; rewrite X1, vgood_self; reflexivity|];
           split; [exact (no_ident_others y hs _ _ V _ NIO not_in_pub)|];
           right; eexists; split; [exact (rp_new y hs [IPublish] (h_loc hs) Hin ltac:(discriminate))|]; split; [reflexivity|left; reflexivity].
      1,3: (* the newest itself (again) *)
           assert (Ev : v = cd_ver cd) by lia; pose proof (C6 Ev) as Et; subst v t;
           cbn [app]; apply (upd_done y hs _ cd _ _ _ V Hin L C eq_refl); [intros u' Hne; apply upsert_others, Hne|];
           apply dinv_parser_intro with (cd := cd); [exact C1|exact Ek|]; left; split; [cbn [s_docs set_docs]; rewrite lookup_upsert_eq, vgood_self; reflexivity|];
           split; [exact (no_ident_others y hs _ _ V _ NIO not_in_pub)|];
           right; eexists; split; [exact (rp_new y hs [IPublish] (h_loc hs) Hin ltac:(discriminate))|]; split; [reflexivity|left; reflexivity].
      1,2: (* use_ident_dict cannot be entered: the identifiers are those of the installed text *)
           assert (Ev : v = cd_ver cd) by lia; pose proof (C6 Ev) as Et; subst t; exfalso; apply Hid; reflexivity.
      (* S2: an older text is installed *)
      1,2: unfold hurl in X1;
           destruct (exec_update_good _ _ cd t v _ _ _ _ _ C2 C3 B4 B5 B6 Ek X1 Ee) as (_ & -> & [(Hlt & -> & ->)|[(Hle & -> & ->)|(Hle & -> & Hid & e2 & -> & E2)]]).
      1,4: (* older than the installed one: doc_state is left alone *)
           cbn [app]; apply (upd_done y hs (s_docs (y_world y)) cd t v _ V Hin L C (eq_sym (set_docs_id _))); [intros u' Hne; reflexivity|];
           apply dinv_parser_intro with (cd := cd); [exact C1|exact Ek|]; right; left; exists t', v';
           split; [exact X1|]; split; [exact X2|];
           split; [exact (no_ident_others y hs _ _ V _ NIO not_in_pub)|];
           apply (pending_replace y hs _ _ V Hin _ _ X4); left; unfold hver; rewrite C3; intro E; inversion E; lia.
      1,3: (* installs its text *)
           cbn [app]; apply (upd_done y hs _ cd t v _ V Hin L C eq_refl); [intros u' Hne; apply upsert_others, Hne|];
           apply dinv_parser_intro with (cd := cd); [exact C1|exact Ek|];
           destruct (Nat.eq_dec v (cd_ver cd)) as [Ev|Ev];
           [ pose proof (C6 Ev) as Et; subst v t; left;
             split; [cbn [s_docs set_docs]; rewrite lookup_upsert_eq, vgood_self; reflexivity|];
             split; [exact (no_ident_others y hs _ _ V _ NIO not_in_pub)|];
             right; eexists; split; [exact (rp_new y hs [IPublish] (h_loc hs) Hin ltac:(discriminate))|]; split; [reflexivity|left; reflexivity]
           | right; left; exists t, v;
             split; [cbn [s_docs set_docs]; rewrite lookup_upsert_eq; reflexivity|]; split; [lia|];
             split; [exact (no_ident_others y hs _ _ V _ NIO not_in_pub)|];
             apply (pending_replace y hs _ _ V Hin _ _ X4); left; unfold hver; rewrite C3; intro E; inversion E; lia ].
      1,2: (* enters use_ident_dict *)
           apply (vinv_nonlocal y hs _ (h_loc hs) V Hin _ NIO);
           [ repeat split
           | intros u' Hne; split; [cbn [s_docs set_lock set_docs]; apply upsert_others, Hne|reflexivity]
           | reflexivity
           | intros _; exists (SIdent 0), cd, t, v; split; [reflexivity|]; split; [exact C|];
             cbn [hstage h_loc]; split; [lia|]; split; [reflexivity|]; split; [exact B4|]; split; [intros; lia|]; split; [intros; lia|];
             exists e2; split; [cbn [s_docs set_lock set_docs]; apply lookup_upsert_eq|exact E2]
           | intro Hl; discriminate Hl
           | apply dinv_parser_intro with (cd := cd); [exact C1|exact Ek|]; right; right; split;
             [ eexists; split; [exact (rp_new y hs ([IIdentUD; IIdentFD; IIdentFinish] ++ [IPublish]) (h_loc hs) Hin ltac:(cbn; discriminate))|]; split; [reflexivity|]; cbn; tauto
             | apply (pending_replace y hs _ _ V Hin _ _ X4); right; split; [discriminate|]; split; [reflexivity|]; split; [reflexivity|]; right; cbn; tauto ] ].
      (* a document without parser: the entry is inserted and removed again *)
      apply (dinv_noparser _ _ _ cd C1 Ek') in D. destruct D as [D1 D2]. unfold hurl in D1.
      destruct (exec_update_none _ _ t _ _ _ C2 C4 B4 B5 B6 D1 Ee) as (_ & -> & -> & ->). cbn [app].
      apply (upd_done y hs _ cd t v _ V Hin L C eq_refl).
      * intros u' Hne. apply lookup_remove_neq. apply url_eqb_neq, Hne.
      * apply dinv_noparser_intro with (cd := cd); [exact C1|exact Ek'|]. split; [cbn [s_docs set_docs]; apply lookup_remove_eq|exact D2].
  - (* use_ident_dict *)
    destruct S as (Hk & L & S1' & S2' & S3' & e2 & S4 & S5).
    assert (Ihs : is_ident hs) by (unfold is_ident; rewrite Ep, P; apply (prog_ident k Hk)).
    destruct k as [|[|[|k]]]; [| | |exfalso; lia]; cbn [prog_of skipn] in P; inversion P; subst i p; clear P.
    + cbn [exec] in Ee. inversion Ee; subst push l' w'. cbn [app].
      apply (vinv_local y hs _ _ V Hin);
        [discriminate|reflexivity|reflexivity|rewrite Ep; cbn; intuition discriminate|rewrite Ep; cbn; intuition discriminate|rewrite Ep; cbn; intuition|].
      exists (SIdent 1), cd, t, v. split; [reflexivity|]. split; [exact C|]. cbn [hstage h_loc l_snap l_ud l_fd l_url lset_ud].
      split; [lia|]. split; [exact L|]. split; [exact S1'|]. split; [intros; reflexivity|]. split; [intros; lia|]. exists e2. split; assumption.
    + cbn [exec] in Ee. inversion Ee; subst push l' w'. cbn [app].
      apply (vinv_local y hs _ _ V Hin);
        [discriminate|reflexivity|reflexivity|rewrite Ep; cbn; intuition discriminate|rewrite Ep; cbn; intuition discriminate|rewrite Ep; cbn; intuition|].
      exists (SIdent 2), cd, t, v. split; [reflexivity|]. split; [exact C|]. cbn [hstage h_loc l_snap l_ud l_fd l_url lset_fd].
      split; [lia|]. split; [exact L|]. split; [exact S1'|]. split; [intros; apply S2'; lia|]. split; [intros; reflexivity|]. exists e2. split; assumption.
    + (* the merged dictionary, the new linter and the document are installed; the mutex is released *)
      cbn [exec] in Ee. rewrite C2, S4 in Ee. inversion Ee; subst push l' w'. clear Ee. cbn [app].
      assert (NIO : forall x, In x (y_flight y) -> h_id x <> h_id hs -> ~ is_ident x).
      { intros x Hx Hne I. apply Hne. exact (vi_uniq y V x hs Hx Hin I Ihs). }
      assert (Efin : e_set_doc t (l_snap (h_loc hs))
                       (e_set_dict (mkdict (l_ud (h_loc hs)) (l_fd (h_loc hs)) (t_ident t)) (l_snap (h_loc hs)) (e_set_ident (t_ident t) e2))
                     = vgood (y_world y) (l_url (h_loc hs)) cd t v).
      { rewrite <- S5. unfold ident_final, with_ident, cur_dict. cbn [e_ident e_set_ident dv_user dv_file].
        rewrite S1', (S2' ltac:(lia)), (S3' ltac:(lia)). reflexivity. }
      rewrite Efin.
      pose proof (vi_doc y V (hurl hs)) as D.
      assert (Ek : kind (cd_lang cd) <> KNone).
      { intro Ek. apply (dinv_noparser _ _ _ cd C1 Ek) in D. destruct D as [D1 _]. unfold hurl in D1. congruence. }
      apply (dinv_parser _ _ _ cd C1 Ek) in D.
      destruct D as [(_ & X2 & _)|[(_ & _ & _ & _ & X3 & _)|(_ & X4)]]; [exfalso; exact (X2 hs Hin eq_refl Ihs)|exfalso; exact (X3 hs Hin eq_refl Ihs)|].
      apply (vinv_nonlocal y hs [IPublish] (h_loc hs) V Hin _ NIO).
      * repeat split.
      * intros u' Hne. split; [cbn [s_docs set_lock set_docs]; apply upsert_others, Hne|reflexivity].
      * reflexivity.
      * intros _. exists SPub, cd, t, v. split; [reflexivity|]. split; [exact C|exact Logic.I].
      * intros _. exact not_in_pub.
      * apply dinv_parser_intro with (cd := cd); [exact C1|exact Ek|].
        destruct (Nat.eq_dec v (cd_ver cd)) as [Ev|Ev].
        -- pose proof (C6 Ev) as Et. subst v t. left.
           split; [cbn [s_docs set_lock set_docs]; unfold hurl; rewrite lookup_upsert_eq, vgood_self; reflexivity|].
           split; [exact (no_ident_others y hs _ _ V _ NIO not_in_pub)|].
           right. eexists. split; [exact (rp_new y hs [IPublish] (h_loc hs) Hin ltac:(discriminate))|]. split; [reflexivity|left; reflexivity].
        -- right. left. exists t, v.
           split; [cbn [s_docs set_lock set_docs]; unfold hurl; rewrite lookup_upsert_eq; reflexivity|]. split; [lia|].
           split; [exact (no_ident_others y hs _ _ V _ NIO not_in_pub)|].
           apply (pending_replace y hs _ _ V Hin _ _ X4). left. unfold hver. rewrite C3. intro E. inversion E. lia.
  - (* publish_diagnostics *)
    cbn [prog_of] in P. inversion P; subst i p; clear P.
    cbn [exec] in Ee. destruct (s_lock (y_world y)) eqn:L; [discriminate|]. inversion Ee; subst push l' w'. clear Ee. cbn [app].
    assert (NIO : forall x, In x (y_flight y) -> h_id x <> h_id hs -> ~ is_ident x) by (intros x Hx _; exact (vi_lock y V L x Hx)).
    assert (Hnp : ~ pre_install hs) by (unfold pre_install; rewrite Ep; cbn; intuition discriminate).
    pose proof (vi_doc y V (hurl hs)) as D.
    apply (vinv_nonlocal y hs [] (h_loc hs) V Hin _ NIO).
    + repeat split.
    + intros u' Hne. split; [reflexivity|]. rewrite lastword_send. apply url_eqb_neq in Hne. unfold hurl in Hne. rewrite Hne. reflexivity.
    + reflexivity.
    + intro F. exfalso. apply F. reflexivity.
    + intros _ [].
    + destruct (kind (cd_lang cd)) eqn:Ek'.
      1,2: assert (Ek : kind (cd_lang cd) <> KNone) by congruence; clear Ek'.
      1,2: apply (dinv_parser _ _ _ cd C1 Ek) in D; apply dinv_parser_intro with (cd := cd); [exact C1|exact Ek|].
      1,2: destruct D as [(X1 & X2 & X3)|[(t' & v' & X1 & X2 & X3 & X4)|((x & Hx & _ & Hi) & _)]]; [| |exfalso; exact (vi_lock y V L x Hx Hi)].
      1,3: left; split; [exact X1|]; split; [apply (no_ident_others y hs _ _ V _ NIO); intros []|];
           left; unfold fresh; rewrite lastword_send; unfold hurl; rewrite url_eqb_refl;
           change (expected (send (l_url (h_loc hs)) (pubval (y_world y) (l_url (h_loc hs))) (y_world y)) (l_url (h_loc hs)))
             with (expected (y_world y) (l_url (h_loc hs)));
           apply coh_pubval; [exact (vi_cfg y V)|]; unfold coh, want_entry; rewrite C1; unfold hurl in X1; rewrite X1;
           destruct (kind (cd_lang cd)); [reflexivity|reflexivity|congruence].
      1,2: right; left; exists t', v'; split; [exact X1|]; split; [exact X2|]; split; [apply (no_ident_others y hs _ _ V _ NIO); intros []|];
           destruct X4 as (x & Hx & Hxu & Hxv & Hxp); exists x; split; [|auto];
           apply (rp_keep y hs [] (h_loc hs) x Hx); intro Eid; apply (rp_same y hs V Hin) in Eid; [subst x; exact (Hnp Hxp)|exact Hx].
      apply (dinv_noparser _ _ _ cd C1 Ek') in D. apply dinv_noparser_intro with (cd := cd); [exact C1|exact Ek'|]. destruct D as [D1 D2].
      split; [exact D1|]. unfold fresh. rewrite lastword_send. unfold hurl. rewrite url_eqb_refl.
      unfold pubval. unfold hurl in D1. rewrite D1. unfold expected. cbn [w_open send set_log]. rewrite C1, Ek'. reflexivity.
Qed.

(* ---------- a didChange is admitted ---------- *)
Lemma vinv_admit : forall y y', VInv y -> vstep CAdmit y = Some y' -> VInv y'.
Proof.
  intros y y' V H. cbn [vstep] in H. destruct (y_todo y) as [|o rest] eqn:Et; [discriminate|].
  destruct (ver_safeb (y_world y) o) eqn:Hs; [|discriminate].
  cbn [step] in H. rewrite Et in H. destruct (length (y_flight y) <? max_in_flight); [|discriminate].
  inversion H; subst y'; clear H.
  destruct o as [|u t v| | | | | | | |]; cbn [ver_safeb] in Hs; try discriminate.
  destruct (lookup u (w_open (y_world y))) as [cd|] eqn:Eo; [|discriminate]. apply Nat.ltb_lt in Hs.
  cbn [client_effect prog locals_of]. rewrite Eo.
  set (cd' := mkcdoc (cd_lang cd) t (cd_ign cd) v).
  set (hn := mkh (y_next y) (update_seq ++ [IPublish]) (lset_ver (Some v) (lset_text (Some t) (loc0 u)))).
  assert (Hni : ~ is_ident hn) by (unfold is_ident; cbn; intuition discriminate).
  assert (Hnu : hurl hn = u) by reflexivity.
  assert (Hpend : newest_pending (y_flight y ++ [hn]) u cd').
  { exists hn. split; [apply in_or_app; right; left; reflexivity|]. split; [reflexivity|]. split; [reflexivity|]. left. cbn. tauto. }
  assert (Hnoid : no_ident (y_flight y) u -> no_ident (y_flight y ++ [hn]) u).
  { intros N x Hx Hxu I. apply in_app_or in Hx as [Hx|[<-|[]]]; [exact (N x Hx Hxu I)|exact (Hni I)]. }
  constructor; cbn [y_world y_flight y_next].
  - exact (vi_cfg y V).
  - rewrite map_app. cbn [map h_id hn]. apply NoDup_app_intro.
    + exact (vi_ids y V).
    + constructor; [intros []|constructor].
    + intros x Hx [<-|[]]. apply in_map_iff in Hx as (hs & E & Hin). pose proof (vi_next y V hs Hin). lia.
  - intros hs Hin. apply in_app_or in Hin as [Hin|[<-|[]]]; [pose proof (vi_next y V hs Hin); lia|cbn; lia].
  - intros hs Hin. apply in_app_or in Hin as [Hin|[<-|[]]].
    + destruct (url_eq_dec (hurl hs) u) as [Eu|Eu].
      * destruct (vi_stage y V hs Hin) as (s & cd0 & t0 & v0 & P & C & S).
        destruct C as (C1 & C2 & C3 & C4 & C5 & C6). unfold hurl in Eu. rewrite Eu, Eo in C1. inversion C1; subst cd0.
        exists s, cd', t0, v0. split; [exact P|]. split.
        -- unfold hclient. cbn [w_open set_open]. rewrite Eu, lookup_upsert_eq. cbn [cd_ver cd' cd_text].
           split; [reflexivity|]. split; [exact C2|]. split; [exact C3|]. split; [exact C4|]. split; [lia|intro; lia].
        -- destruct s; cbn [hstage] in *; try contradiction; exact S.
      * apply (hpred_transfer (y_world y) _ hs); try reflexivity; [|intros _; split; reflexivity|exact (vi_stage y V hs Hin)].
        cbn [w_open set_open]. apply lookup_upsert_neq. apply url_eqb_neq, Eu.
    + exists (SUpd 0), cd', t, v. split; [reflexivity|]. split.
      * unfold hclient. cbn [h_loc hn l_url l_text l_ver l_lang lset_ver lset_text loc0 w_open set_open]. rewrite lookup_upsert_eq.
        repeat split. cbn. lia.
      * cbn [hstage]. repeat split; intros; lia.
  - intros L hs Hin I. apply in_app_or in Hin as [Hin|[<-|[]]]; [exact (vi_lock y V L hs Hin I)|exact (Hni I)].
  - intros a b Ha Hb Ia Ib.
    apply in_app_or in Ha as [Ha|[<-|[]]]; [|exfalso; exact (Hni Ia)].
    apply in_app_or in Hb as [Hb|[<-|[]]]; [|exfalso; exact (Hni Ib)].
    exact (vi_uniq y V a b Ha Hb Ia Ib).
  - intro u'. destruct (url_eq_dec u' u) as [->|Hne].
    + pose proof (vi_doc y V u) as D.
      destruct (kind (cd_lang cd)) eqn:Ek'.
      1,2: assert (Ek : kind (cd_lang cd) <> KNone) by congruence; clear Ek'.
      1,2: apply (dinv_parser _ _ _ cd Eo Ek) in D; apply dinv_parser_intro with (cd := cd'); [cbn [w_open set_open]; apply lookup_upsert_eq|exact Ek|].
      1,2: destruct D as [(X1 & X2 & X3)|[(t' & v' & X1 & X2 & X3 & X4)|((x & Hx & Hxu & Hi) & X4)]].
      1,4: right; left; exists (cd_text cd), (cd_ver cd); rewrite <- vgood_self in X1;
           split; [exact X1|]; split; [exact Hs|]; split; [exact (Hnoid X2)|exact Hpend].
      1,3: right; left; exists t', v'; split; [exact X1|]; split; [cbn [cd_ver cd']; lia|]; split; [exact (Hnoid X3)|exact Hpend].
      1,2: right; right; split; [exists x; split; [apply in_or_app; left; exact Hx|]; split; assumption|exact Hpend].
      apply (dinv_noparser _ _ _ cd Eo Ek') in D. destruct D as [D1 D2].
      apply dinv_noparser_intro with (cd := cd'); [cbn [w_open set_open]; apply lookup_upsert_eq|exact Ek'|].
      split; [exact D1|]. unfold fresh, expected in *. cbn [w_open set_open]. rewrite lookup_upsert_eq. cbn [cd_lang cd']. rewrite Ek'.
      rewrite Eo, Ek' in D2. exact D2.
    + apply (dinv_transfer (y_world y) _ (y_flight y) (y_flight y ++ [hn]) u' (same_at_open_upsert _ u cd' u' Hne)); [| |exact (vi_doc y V u')].
      * intros x Hx Hxu I. apply in_app_or in Hx as [Hx|[<-|[]]]; [exists x; auto|exfalso; exact (Hni I)].
      * intros x Hx Hxu. exists x. split; [apply in_or_app; left; exact Hx|auto].
Qed.

(* ---------- schedules ---------- *)
Lemma vinv_vstep : forall c y y', VInv y -> vstep c y = Some y' -> VInv y'.
Proof. intros [|id] y y' V H; [eapply vinv_admit|eapply vinv_run_step]; eassumption. Qed.

Lemma vinv_vrun : forall cs y y', VInv y -> vrun cs y = Some y' -> VInv y'.
Proof.
  induction cs as [|c cs IH]; intros y y' V H; cbn in H; [inversion H; subst; exact V|].
  destruct (vstep c y) as [y1|] eqn:E; [|discriminate]. eapply IH; [eapply vinv_vstep; eassumption|exact H].
Qed.

Lemma vinv_init : forall h w, Inv w -> VInv (init h w).
Proof.
  intros h w I. constructor; cbn [init y_world y_flight y_next].
  - exact (inv_cfg w I).
  - constructor.
  - intros hs [].
  - intros hs [].
  - intros _ hs [].
  - intros a b [].
  - intro u. pose proof (inv_coh w I u) as C. pose proof (inv_fresh w I u) as F.
    unfold dinv. unfold coh, want_entry in C.
    destruct (lookup u (w_open w)) as [cd|]; [|split; assumption].
    destruct (kind (cd_lang cd)); [| |split; assumption].
    all: left; split; [exact C|]; split; [intros x []|left; exact F].
Qed.

(* C09: what the version check guarantees, for every interleaving *)
Theorem versioned_changes : forall h w0 cs y,
  Inv w0 -> vrun cs (init h w0) = Some y -> quiescent y ->
  forall u, lastword (y_world y) u = expected (y_world y) u /\ pubval (y_world y) u = expected (y_world y) u.
Proof.
  intros h w0 cs y I H [Hf _] u. pose proof (vinv_vrun cs _ _ (vinv_init h w0 I) H) as V.
  pose proof (vi_doc y V u) as D. rewrite Hf in D. unfold dinv in D.
  assert (D0 : lookup u (s_docs (y_world y)) = None /\ fresh (y_world y) u ->
               expected (y_world y) u = PEmpty ->
               lastword (y_world y) u = expected (y_world y) u /\ pubval (y_world y) u = expected (y_world y) u).
  { intros [D1 D2] E. split; [exact D2|]. unfold pubval. rewrite D1, E. reflexivity. }
  destruct (lookup u (w_open (y_world y))) as [cd|] eqn:Eo.
  - destruct (kind (cd_lang cd)) eqn:Ek.
    3: apply (D0 D); unfold expected; rewrite Eo, Ek; reflexivity.
    all: destruct D as [(X1 & _ & [X3|(x & [] & _)])|[(_ & _ & _ & _ & _ & (x & [] & _))|(_ & (x & [] & _))]].
    all: split; [exact X3|]; apply coh_pubval; [exact (vi_cfg y V)|]; unfold coh, want_entry; rewrite Eo, Ek; exact X1.
  - apply (D0 D). unfold expected. rewrite Eo. reflexivity.
Qed.

(* such a schedule is a schedule of the unrestricted dispatcher *)
Theorem versioned_is_schedule : forall cs y y', vrun cs y = Some y' -> run cs y = Some y'.
Proof. exact vrun_run. Qed.

(* non-vacuity: four didChange in flight together, three of them for one source file whose identifiers
   change twice; the first sent enters use_ident_dict and holds the doc_state mutex while the others
   advance; the newest completes before the second, which then returns early *)
Definition ver_setup : list op := [Open (UFile 0 0) LCode (mktext 0 7) 1; Open (UFile 0 1) LPlain (mktext 1 0) 1].
Definition ver_history : list op :=
  [Change (UFile 0 0) (mktext 2 8) 2; Change (UFile 0 0) (mktext 3 9) 3; Change (UFile 0 1) (mktext 4 0) 2; Change (UFile 0 0) (mktext 5 9) 4].
Definition ver_schedule : list choice :=
  [CAdmit; CAdmit; CAdmit; CAdmit] ++ repeat (CRun 0) 7 ++ repeat (CRun 3) 6 ++ repeat (CRun 1) 6 ++ repeat (CRun 0) 4 ++
  repeat (CRun 3) 5 ++ repeat (CRun 1) 2 ++ repeat (CRun 2) 8.

Example ver_schedule_runs :
  exists w0 y, run_seq ver_setup (world0 0) = Some w0 /\ Inv w0 /\
    vrun ver_schedule (init ver_history w0) = Some y /\ quiescentb y = true /\
    lastword (y_world y) (UFile 0 0) = PDiag (mkargs (mktext 5 9) LCode (mkdict [] [] 9) (mkdict [] [] 9) 0 0 0 []) /\
    lastword (y_world y) (UFile 0 1) = PDiag (mkargs (mktext 4 0) LPlain (mkdict [] [] 0) (mkdict [] [] 0) 0 0 0 []) /\
    length (s_log (y_world y)) = 6.
Proof.
  eexists. eexists. split; [vm_compute; reflexivity|]. split.
  - eapply (inv_seq ver_setup (world0 0)); [apply inv_world0|vm_compute; reflexivity|vm_compute; reflexivity].
  - split; [vm_compute; reflexivity|]. repeat split; vm_compute; reflexivity.
Qed.
