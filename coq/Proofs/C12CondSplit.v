(* C12CondSplit.v — condense_split (the hypothesis of C12_main_lexer_partial about the passes of
   Document::parse) is a THEOREM of the model: for P = P0 ++ [terminator; '\n'; '\n'] free of double quotes and D
   not starting with a newline, every pass run on the glued raw tokens gives the glued result of the pass
   run on the two sides (passes_split), pass by pass:
       condense_spaces            sp_spec_app        needs: neither of the last two raw tokens of P is a Space
                                                      (true because P ends terminator, newline run: raw_ends)
       condense_newlines          nl_spec_app        needs: the tokens of D do not start with a Newline
       newlines_to_breaks         map
       condense_number_suffixes   sfx_spec_app       needs: the last token of P is not a Number (it is a break)
       condense_contractions      condense_pattern_split + contraction_HL    (P's tokens end in a break)
       condense_dotted_initialisms di_go_app         (P's tokens end in a break)
       condense_ellipsis / condense_latin             condense_pattern_split + ellipsis_HL / latin_HL
       match_quotes               match_quotes_split needs: no Quote token in P (premise), no twins yet in D
   The invariants between the passes (tiling, "ends in a break", "no quote token", "no twin") are carried
   through C02's Grouped relation (CondenseInv). *)
Require ParaSplit ParaSplitProofs.
Require Import Base Overlap OverlapProofs Tables_lexer Lexer Condense ListLemmas TokenInv CondenseInv LexerProofs
  CondPatterns3 CondPattern CondSpaces CondInitialisms CondSuffixQuotes Shape DocumentProofs C12Doc LexSplitProofs
  C12CondSpaces C12CondSuffix C12CondPattern C12CondPatterns3 C12CondInit C12CondQuotes C12LexEnds.
From Coq Require Import List Arith Lia.
Import ListNotations.

(* ================= Grouped: first / last group, quote tokens ================= *)
Lemma grouped_nil_inv (G : list token -> tkind -> Prop) ts' : Grouped G [] ts' -> ts' = [].
Proof.
  intros H. remember (@nil token) as l eqn:El. destruct H as [|g k rest rest' Hne HG Hr]; [reflexivity|].
  destruct g; [contradiction|discriminate El].
Qed.

Lemma grouped_last (G : list token -> tkind -> Prop) ts ts' : Grouped G ts ts' -> forall l0 t, ts = l0 ++ [t] ->
  exists l0' g0 k, ts' = l0' ++ [group_token (g0 ++ [t]) k] /\ G (g0 ++ [t]) k.
Proof.
  induction 1 as [|g k rest rest' Hne HG Hrest IH]; intros l0 t E.
  - destruct l0; discriminate.
  - destruct rest as [|x rest1].
    + rewrite app_nil_r in E. subst g. apply grouped_nil_inv in Hrest. subst rest'.
      exists [], l0, k. split; [reflexivity|exact HG].
    + assert (Hne2 : x :: rest1 <> []) by discriminate.
      destruct (exists_last Hne2) as [rest0 [y Ey]]. rewrite Ey in E. rewrite app_assoc in E.
      apply app_inj_tail in E. destruct E as [_ ->].
      destruct (IH rest0 t Ey) as (l0' & g0 & k0 & -> & HG0).
      exists (group_token g k :: l0'), g0, k0. split; [reflexivity|exact HG0].
Qed.

Lemma grouped_head (G : list token -> tkind -> Prop) t r ts' : Grouped G (t :: r) ts' ->
  exists g0 k rest', ts' = group_token (t :: g0) k :: rest' /\ G (t :: g0) k.
Proof.
  intros H. remember (t :: r) as l eqn:El. destruct H as [|g k rest rest' Hne HG Hr]; [discriminate|].
  destruct g as [|t0 g0]; [contradiction|]. cbn [app] in El. injection El as <- _.
  exists g0, k, rest'. split; [reflexivity|exact HG].
Qed.

Lemma grouped_qf (G : list token -> tkind -> Prop) ts ts' :
  (forall g k, g <> [] -> G g k -> quote_free_toks g -> is_quote k = false) ->
  Grouped G ts ts' -> quote_free_toks ts -> quote_free_toks ts'.
Proof.
  intros HG H. induction H as [|g k rest rest' Hne Hg Hrest IH]; intros HQ; [constructor|].
  apply Forall_app in HQ. destruct HQ as [Qg Qr].
  constructor; [exact (HG g k Hne Hg Qg)|exact (IH Qr)].
Qed.

Lemma grouped_ends_break (G : list token -> tkind -> Prop) ts ts' :
  (forall g0 t k, G (g0 ++ [t]) k -> tkind_of t = KParagraphBreak -> g0 = [] /\ k = tkind_of t) ->
  Grouped G ts ts' -> ends_break ts -> ends_break ts'.
Proof.
  intros HG H (A0 & t & E & Ht). destruct (grouped_last G ts ts' H A0 t E) as (l0' & g0 & k & -> & Hg).
  destruct (HG g0 t k Hg Ht) as [-> ->]. cbn [app]. rewrite group_token_single.
  exists l0', t. split; [reflexivity|exact Ht].
Qed.

(* ---------- per rule: no pass invents a quote token ---------- *)
Lemma qf_single t : quote_free_toks [t] -> is_quote (tkind_of t) = false.
Proof. intros H. inversion H; assumption. Qed.

Lemma qf_hd g : g <> [] -> quote_free_toks g -> is_quote (tkind_of (hd dummy_tok g)) = false.
Proof. destruct g as [|t r]; [contradiction|]. intros _ H. inversion H; assumption. Qed.

Lemma qf_spaces g k : g <> [] -> G_spaces g k -> quote_free_toks g -> is_quote k = false.
Proof. intros _ [[t [-> ->]]|[t1 [t2 [n1 [n2 [-> [_ [_ ->]]]]]]]] H; [apply qf_single; exact H|reflexivity]. Qed.
Lemma qf_newlines g k : g <> [] -> G_newlines g k -> quote_free_toks g -> is_quote k = false.
Proof. intros _ [[t [-> ->]]|[ns [_ [_ ->]]]] H; [apply qf_single; exact H|reflexivity]. Qed.
Lemma qf_breaks g k : g <> [] -> G_breaks g k -> quote_free_toks g -> is_quote k = false.
Proof.
  intros _ [t [-> ->]] H. apply qf_single in H. unfold newline_to_break.
  destruct (tkind_of t) eqn:E; try (rewrite E; exact H).
  destruct (2 <=? n); [reflexivity|rewrite E; reflexivity].
Qed.
Lemma qf_suffix src g k : g <> [] -> G_suffix src g k -> quote_free_toks g -> is_quote k = false.
Proof.
  intros _ [[t [-> ->]]|[x [y [nb [cs [sfx [-> [_ [_ [_ [_ [_ ->]]]]]]]]]]]] H; [apply qf_single; exact H|reflexivity].
Qed.
Lemma qf_pattern_id m g k : g <> [] -> G_pattern m (fun k => k) g k -> quote_free_toks g -> is_quote k = false.
Proof. intros Hne [[t [-> ->]]|[rest [_ ->]]] H; [apply qf_single; exact H|apply qf_hd; assumption]. Qed.
Lemma qf_pattern_in_id ts m g k : g <> [] -> G_pattern_in ts m (fun k => k) g k -> quote_free_toks g -> is_quote k = false.
Proof. intros Hne [[t [-> ->]]|[pre [rest [_ [_ ->]]]]] H; [apply qf_single; exact H|apply qf_hd; assumption]. Qed.
Lemma qf_ellipsis m g k : g <> [] -> G_pattern m (fun _ => KPunct PEllipsis) g k -> quote_free_toks g -> is_quote k = false.
Proof. intros _ [[t [-> ->]]|[rest [_ ->]]] H; [apply qf_single; exact H|reflexivity]. Qed.
Lemma qf_initialism g k : g <> [] -> G_initialism g k -> quote_free_toks g -> is_quote k = false.
Proof. intros _ [[t [-> ->]]|[_ [_ ->]]] H; [apply qf_single; exact H|reflexivity]. Qed.

(* ---------- per rule: the group of a final Newline / ParagraphBreak ---------- *)
Lemma single_last (g0 : list token) t t' : g0 ++ [t] = [t'] -> g0 = [] /\ t' = t.
Proof. destruct g0 as [|a [|b g]]; cbn [app]; intros E; try discriminate. injection E as <-. auto. Qed.

Lemma pair_last (g0 : list token) t a b : g0 ++ [t] = [a; b] -> t = b.
Proof. change [a; b] with ([a] ++ [b]). intros E. apply app_inj_tail in E. tauto. Qed.

Lemma lb_spaces g0 t k m : G_spaces (g0 ++ [t]) k -> tkind_of t = KNewline m -> g0 = [] /\ k = tkind_of t.
Proof.
  intros [[t' [E ->]]|[t1 [t2 [n1 [n2 [E [_ [H2 _]]]]]]]] Ht.
  - apply single_last in E. destruct E as [-> ->]. auto.
  - apply pair_last in E. subst t2. congruence.
Qed.

Lemma in_list_sum x l : In x l -> x <= list_sum l.
Proof.
  induction l as [|y l IH]; [intros []|]. change (list_sum (y :: l)) with (y + list_sum l).
  intros [->|H]; [lia|]. specialize (IH H). lia.
Qed.

Lemma lb_newlines g0 t k m : G_newlines (g0 ++ [t]) k -> tkind_of t = KNewline m -> exists m', k = KNewline m' /\ m <= m'.
Proof.
  intros [[t' [E ->]]|[ns [_ [Hm ->]]]] Ht.
  - apply single_last in E. destruct E as [_ ->]. exists m. split; [exact Ht|lia].
  - exists (list_sum ns). split; [reflexivity|]. apply in_list_sum.
    assert (In (KNewline m) (map KNewline ns)) as Hin.
    { rewrite <- Hm, map_app. apply in_or_app. right. cbn [map]. rewrite Ht. left. reflexivity. }
    apply in_map_iff in Hin. destruct Hin as [m' [E Hin]]. injection E as ->. exact Hin.
Qed.

Lemma lb_suffix src g0 t k : G_suffix src (g0 ++ [t]) k -> tkind_of t = KParagraphBreak -> g0 = [] /\ k = tkind_of t.
Proof.
  intros [[t' [E ->]]|[x [y [nb [cs [sfx [E [_ [Hy _]]]]]]]]] Ht.
  - apply single_last in E. destruct E as [-> ->]. auto.
  - apply pair_last in E. subst y. congruence.
Qed.

Lemma last_of3 (g0 : list token) t a b c : g0 ++ [t] = [a; b; c] -> t = c.
Proof. change [a; b; c] with ([a; b] ++ [c]). intros E. apply app_inj_tail in E. tauto. Qed.

Lemma lb_contraction src g0 t k :
  G_pattern (contraction_matches src) (fun k => k) (g0 ++ [t]) k -> tkind_of t = KParagraphBreak ->
  g0 = [] /\ k = tkind_of t.
Proof.
  intros [[t' [E ->]]|[rest [Hm _]]] Ht.
  - apply single_last in E. destruct E as [-> ->]. auto.
  - exfalso. destruct (contraction_match_inv src (g0 ++ [t]) rest ltac:(destruct g0; discriminate) Hm)
      as (a & b & c & E & _ & _ & Hc).
    apply last_of3 in E. subst c. rewrite Ht in Hc. discriminate.
Qed.

Lemma lb_ellipsis src g0 t k :
  G_pattern (ellipsis_matches src) (fun _ => KPunct PEllipsis) (g0 ++ [t]) k -> tkind_of t = KParagraphBreak ->
  g0 = [] /\ k = tkind_of t.
Proof.
  intros [[t' [E ->]]|[rest [Hm _]]] Ht.
  - apply single_last in E. destruct E as [-> ->]. auto.
  - exfalso. destruct (ellipsis_match_inv src (g0 ++ [t]) rest ltac:(destruct g0; discriminate) Hm) as [_ HF].
    rewrite Forall_forall in HF. specialize (HF t ltac:(apply in_or_app; right; left; reflexivity)).
    cbn beta in HF. rewrite Ht in HF. discriminate.
Qed.

Lemma lb_latin src ts g0 t k : Tiling 0 (length src) ts ->
  G_pattern_in ts (latin_matches src) (fun k => k) (g0 ++ [t]) k -> tkind_of t = KParagraphBreak ->
  g0 = [] /\ k = tkind_of t.
Proof.
  intros HT [[t' [E ->]]|[pre [rest [Ets [Hm _]]]]] Ht.
  - apply single_last in E. destruct E as [-> ->]. auto.
  - exfalso. pose proof (tiling_tok_ok src ts HT) as Hok. rewrite Ets in Hok.
    apply Forall_app in Hok. destruct Hok as [_ Hok].
    destruct (latin_match_inv src (g0 ++ [t]) rest ltac:(destruct g0; discriminate) Hok Hm)
      as [(w & p & E & _ & Hp & _)|(w1 & ws & w2 & p & E & _ & _ & _ & _ & Hp & _)].
    + apply pair_last in E. subst p. rewrite Ht in Hp. discriminate.
    + change (w1 :: ws ++ [w2; p]) with ((w1 :: ws) ++ [w2] ++ [p]) in E. rewrite !app_assoc in E.
      apply app_inj_tail in E. destruct E as [_ ->]. rewrite Ht in Hp. discriminate.
Qed.

Lemma initpairs_last g : InitPairs g -> forall g0 t, g = g0 ++ [t] -> is_period (tkind_of t) = true.
Proof.
  induction 1 as [w p Hw Hl Hp|w p r Hw Hl Hp Hr IH]; intros g0 t E.
  - symmetry in E. apply pair_last in E. subst t. exact Hp.
  - pose proof (initpairs_len r Hr) as L. destruct g0 as [|a [|b g0']]; cbn [app] in E.
    + injection E as _ E. discriminate.
    + injection E as _ _ E. subst r. cbn [length] in L. lia.
    + injection E as _ _ E. exact (IH g0' t E).
Qed.

Lemma lb_initialism g0 t k : G_initialism (g0 ++ [t]) k -> tkind_of t = KParagraphBreak -> g0 = [] /\ k = tkind_of t.
Proof.
  intros [[t' [E ->]]|[HIP _]] Ht.
  - apply single_last in E. destruct E as [-> ->]. auto.
  - exfalso. pose proof (initpairs_last _ HIP g0 t eq_refl) as Hp. rewrite Ht in Hp. discriminate.
Qed.

Lemma grouped_head_nn ts ts' : Grouped G_spaces ts ts' -> head_not_newline ts -> head_not_newline ts'.
Proof.
  intros H Hh. destruct ts as [|t r]; [apply grouped_nil_inv in H; subst; exact I|].
  destruct (grouped_head _ _ _ _ H) as (g0 & k & rest' & -> & HG). cbn [head_not_newline] in *.
  change (tkind_of (group_token (t :: g0) k)) with k.
  destruct HG as [[t' [E ->]]|[t1 [t2 [n1 [n2 [_ [_ [_ ->]]]]]]]]; [|reflexivity].
  injection E as <- _. exact Hh.
Qed.

(* ---------- small facts ---------- *)
Lemma ends_break_sfx_closed A : ends_break A -> sfx_closed A.
Proof.
  intros (A0 & t & -> & Ht) pre x E. apply app_inj_tail in E. destruct E as [_ <-]. rewrite Ht. reflexivity.
Qed.

Lemma match_quotes_free A : quote_free_toks A -> match_quotes A = Ok A.
Proof. intros H. unfold match_quotes. rewrite (quote_indices_free A 0 H). reflexivity. Qed.

Lemma tiling_tok_ok_in src a b ts : Tiling a b ts -> b <= length src -> Forall (tok_ok src) ts.
Proof.
  intros HT Hb. pose proof (tiling_nonempty _ _ _ HT) as N. pose proof (tiling_in_range _ _ _ HT) as R.
  rewrite Forall_forall in *. intros t Hin. specialize (N t Hin). specialize (R t Hin). unfold tok_ok. cbn beta in *. lia.
Qed.

Lemma head_nn_shift k l : head_not_newline l -> head_not_newline (map (shift_tk k) l).
Proof. destruct l; [exact (fun H => H)|]. cbn [map head_not_newline]. rewrite shift_tk_kind. exact (fun H => H). Qed.

Lemma tiling_glue n d A B : Tiling 0 n A -> Tiling 0 d B -> Tiling 0 (d + n) (A ++ map (shift_tk n) B).
Proof. intros HA HB. eapply tiling_app; [exact HA|]. exact (tiling_shift n 0 d B HB). Qed.

(* ================= the theorem ================= *)
Section Split.
  Variable u : uni.
  Hypothesis nl_whitespace : u_whitespace u NL = true.
  Hypothesis nl_not_numeric : u_numeric u NL = false.
  Hypothesis nl_not_alphabetic : u_alphabetic u NL = false.
  Hypothesis nl_not_lingual : u_lingual u NL = false.

  Theorem passes_split P D tp td :
    c12_premise P -> no_leading_nl D -> plain_parse u P = Ok tp -> plain_parse u D = Ok td ->
    exists A B,
      document_passes P tp = Ok A /\ document_passes D td = Ok B /\
      document_passes (P ++ D) (tp ++ map (shift_tk (length P)) td)
        = Ok (A ++ map (shift_tk2 (length P) (length A)) B) /\
      ends_break A /\ Tiling 0 (length P) A.
  Proof.
    intros HP HD Hp Hd.
    destruct (plain_tiling u P) as [tp' [Hp' TA0]]. rewrite Hp in Hp'. injection Hp' as <-.
    destruct (plain_tiling u D) as [td' [Hd' TB0]]. rewrite Hd in Hd'. injection Hd' as <-.
    pose proof (plain_loop_notwins u _ _ _ _ Hd) as NB0. change (NoTwins td) with (Forall notwin td) in NB0.
    destruct (raw_ends u nl_whitespace nl_not_numeric nl_not_alphabetic nl_not_lingual P tp HP Hp)
      as (tp0 & x & nl & m & Etp & Hx & Hnl & Hm).
    pose proof (raw_quote_free u P tp (proj1 HP) Hp) as QA0.
    pose proof (raw_head u D td HD Hd) as HB0.
    destruct (passes_exist P tp TA0) as [a8 RA].
    destruct RA as [a1 a2 a4 a5 a6 a7 Ea1 Ga1 Ea2 Ga2 Ga3 Ea4 Ga4 Ea5 Ga5 Ea6 Ga6 Ea7 Ga7 Ea8 Ga8 TA1 TA2 TA3 TA4 TA5 TA6 TA7 TA8].
    destruct (passes_exist D td TB0) as [b8 RB].
    destruct RB as [b1 b2 b4 b5 b6 b7 Eb1 Gb1 Eb2 Gb2 Gb3 Eb4 Gb4 Eb5 Gb5 Eb6 Gb6 Eb7 Gb7 Eb8 Gb8 TB1 TB2 TB3 TB4 TB5 TB6 TB7 TB8].
    set (n := length P) in *.
    assert (EN : length (P ++ D) = length D + n) by (rewrite app_length; unfold n; lia).
    (* the passes as functions *)
    pose proof (condense_spaces_fun _ _ _ TA0) as Fa1. rewrite Ea1 in Fa1. injection Fa1 as Fa1.
    pose proof (condense_spaces_fun _ _ _ TB0) as Fb1. rewrite Eb1 in Fb1. injection Fb1 as Fb1.
    pose proof (condense_newlines_fun _ _ _ TA1) as Fa2. rewrite Ea2 in Fa2. injection Fa2 as Fa2.
    pose proof (condense_newlines_fun _ _ _ TB1) as Fb2. rewrite Eb2 in Fb2. injection Fb2 as Fb2.
    pose proof (condense_number_suffixes_fun _ _ TA3) as Fa4. rewrite Ea4 in Fa4. injection Fa4 as Fa4.
    pose proof (condense_number_suffixes_fun _ _ TB3) as Fb4. rewrite Eb4 in Fb4. injection Fb4 as Fb4.
    pose proof (condense_dotted_initialisms_fun _ _ _ TA5) as Fa6. rewrite Ea6 in Fa6. injection Fa6 as Fa6.
    pose proof (condense_dotted_initialisms_fun _ _ _ TB5) as Fb6. rewrite Eb6 in Fb6. injection Fb6 as Fb6.
    (* the end of P's tokens, pass by pass *)
    assert (Etp' : tp = (tp0 ++ [x]) ++ [nl]) by (rewrite Etp, <- app_assoc; reflexivity).
    destruct (grouped_last _ _ _ Ga1 _ _ Etp') as (l1 & g1 & k1 & El1 & HG1).
    destruct (lb_spaces _ _ _ _ HG1 Hnl) as [-> ->]. cbn [app] in El1. rewrite group_token_single in El1.
    destruct (grouped_last _ _ _ Ga2 _ _ El1) as (l2 & g2 & k2 & El2 & HG2).
    destruct (lb_newlines _ _ _ _ HG2 Hnl) as (m2 & -> & Hm2).
    assert (EB3 : ends_break (newlines_to_breaks a2)).
    { exists (newlines_to_breaks l2), (newline_to_break (group_token (g2 ++ [nl]) (KNewline m2))).
      split; [rewrite El2; unfold newlines_to_breaks; rewrite map_app; reflexivity|].
      unfold newline_to_break. cbn [tkind_of group_token].
      replace (2 <=? m2) with true by (symmetry; apply Nat.leb_le; lia). reflexivity. }
    pose proof (grouped_ends_break _ _ _ (lb_suffix P) Ga4 EB3) as EB4.
    pose proof (grouped_ends_break _ _ _ (lb_contraction P) Ga5 EB4) as EB5.
    pose proof (grouped_ends_break _ _ _ lb_initialism Ga6 EB5) as EB6.
    pose proof (grouped_ends_break _ _ _ (lb_ellipsis P) Ga7 EB6) as EB7.
    pose proof (grouped_ends_break _ _ _ (fun g0 t k => lb_latin P a7 g0 t k TA7) Ga8 EB7) as EB8.
    (* no quote token on P's side *)
    pose proof (grouped_qf _ _ _ qf_spaces Ga1 QA0) as QA1.
    pose proof (grouped_qf _ _ _ qf_newlines Ga2 QA1) as QA2.
    pose proof (grouped_qf _ _ _ qf_breaks Ga3 QA2) as QA3.
    pose proof (grouped_qf _ _ _ (qf_suffix P) Ga4 QA3) as QA4.
    pose proof (grouped_qf _ _ _ (qf_pattern_id _) Ga5 QA4) as QA5.
    pose proof (grouped_qf _ _ _ qf_initialism Ga6 QA5) as QA6.
    pose proof (grouped_qf _ _ _ (qf_ellipsis _) Ga7 QA6) as QA7.
    pose proof (grouped_qf _ _ _ (qf_pattern_in_id _ _) Ga8 QA7) as QA8.
    (* no twin yet on D's side *)
    pose proof (grouped_inv _ _ _ nt_spaces _ _ Gb1 _ _ TB0 NB0) as NB1.
    pose proof (grouped_inv _ _ _ nt_newlines _ _ Gb2 _ _ TB1 NB1) as NB2.
    pose proof (grouped_inv _ _ _ nt_breaks _ _ Gb3 _ _ TB2 NB2) as NB3.
    pose proof (grouped_inv _ _ _ (nt_suffix D) _ _ Gb4 _ _ TB3 NB3) as NB4.
    pose proof (grouped_inv _ _ _ (nt_pattern_id _) _ _ Gb5 _ _ TB4 NB4) as NB5.
    pose proof (grouped_inv _ _ _ nt_initialism _ _ Gb6 _ _ TB5 NB5) as NB6.
    pose proof (grouped_inv _ _ _ (nt_ellipsis _) _ _ Gb7 _ _ TB6 NB6) as NB7.
    pose proof (grouped_inv _ _ _ (nt_pattern_in_id _ _) _ _ Gb8 _ _ TB7 NB7) as NB8.
    destruct (match_quotes_spec b8 NB8) as [b9 [Eb9 [SB _]]].
    assert (TB9 : Tiling 0 (length D) b9) by (destruct SB as [S1 _]; eapply same_spans_tiling; [exact S1|exact TB8]).
    pose proof (grouped_head_nn _ _ Gb1 HB0) as HB1.
    (* ---- the glued run, pass by pass ---- *)
    (* 1 condense_spaces *)
    assert (S1 : condense_spaces (tp ++ map (shift_tk n) td) = Ok (a1 ++ map (shift_tk n) b1)).
    { rewrite (condense_spaces_fun _ _ _ (tiling_glue n _ _ _ TA0 TB0)).
      rewrite (sp_spec_app (length tp) tp _ (le_n _)).
      - rewrite (sp_spec_shift n (length td) td (le_n _)). rewrite <- Fa1, <- Fb1. reflexivity.
      - rewrite Etp. apply sp_closed_end; [exact Hx|rewrite Hnl; reflexivity]. }
    (* 2 condense_newlines *)
    assert (S2 : condense_newlines (a1 ++ map (shift_tk n) b1) = Ok (a2 ++ map (shift_tk n) b2)).
    { rewrite (condense_newlines_fun _ _ _ (tiling_glue n _ _ _ TA1 TB1)).
      rewrite nl_spec_app by (apply head_nn_shift; exact HB1).
      rewrite nl_spec_shift, <- Fa2, <- Fb2. reflexivity. }
    (* 3 newlines_to_breaks *)
    assert (S3 : newlines_to_breaks (a2 ++ map (shift_tk n) b2) = newlines_to_breaks a2 ++ map (shift_tk n) (newlines_to_breaks b2))
      by (rewrite breaks_app; rewrite breaks_shift; reflexivity).
    (* 4 condense_number_suffixes *)
    assert (TG3 : Tiling 0 (length (P ++ D)) (newlines_to_breaks a2 ++ map (shift_tk n) (newlines_to_breaks b2)))
      by (rewrite EN; apply tiling_glue; assumption).
    assert (S4 : condense_number_suffixes (P ++ D) (newlines_to_breaks a2 ++ map (shift_tk n) (newlines_to_breaks b2))
                 = Ok (a4 ++ map (shift_tk n) b4)).
    { rewrite (condense_number_suffixes_fun _ _ TG3).
      rewrite (sfx_spec_app (P ++ D) (length (newlines_to_breaks a2)) _ _ (le_n _) (ends_break_sfx_closed _ EB3)).
      rewrite (sfx_spec_src_l P D (length (newlines_to_breaks a2)) _ (le_n _)).
      - unfold n. rewrite (sfx_spec_shift P D (length (newlines_to_breaks b2)) _ (le_n _)).
        rewrite <- Fa4, <- Fb4. reflexivity.
      - pose proof (tiling_in_range _ _ _ TA3) as R. eapply Forall_impl; [|exact R]. cbn beta. intros t Ht. unfold n in Ht. lia. }
    (* 5 condense_contractions *)
    assert (S5 : condense_contractions (P ++ D) (a4 ++ map (shift_tk n) b4) = Ok (a5 ++ map (shift_tk n) b5)).
    { destruct (contraction_ok P a4) as [okA monoA].
      exact (condense_pattern_split (contraction_matches (P ++ D)) (contraction_matches P) (contraction_matches D)
               (fun k => k) n a4 b4 (contraction_HL (P ++ D) P a4 _ EB4) (contraction_HR (P ++ D) D n)
               okA monoA a5 b5 Ea5 Eb5). }
    (* 6 condense_dotted_initialisms *)
    assert (S6 : condense_dotted_initialisms (a5 ++ map (shift_tk n) b5) = Ok (a6 ++ map (shift_tk n) b6)).
    { rewrite (condense_dotted_initialisms_fun _ _ _ (tiling_glue n _ _ _ TA5 TB5)).
      rewrite (di_go_app (map (shift_tk n) b5) (length a5) a5 None (le_n _) EB5).
      pose proof (di_go_shift n (length b5) b5 None (le_n _)) as Hsh. cbn [option_map] in Hsh. rewrite Hsh.
      rewrite <- Fa6, <- Fb6. reflexivity. }
    (* 7 condense_ellipsis *)
    assert (S7 : condense_ellipsis (P ++ D) (a6 ++ map (shift_tk n) b6) = Ok (a7 ++ map (shift_tk n) b7)).
    { destruct (ellipsis_ok P a6) as [okA monoA].
      exact (condense_pattern_split (ellipsis_matches (P ++ D)) (ellipsis_matches P) (ellipsis_matches D)
               (fun _ => KPunct PEllipsis) n a6 b6 (ellipsis_HL (P ++ D) P a6 _ EB6) (ellipsis_HR (P ++ D) D n)
               okA monoA a7 b7 Ea7 Eb7). }
    (* 8 condense_latin *)
    assert (S8 : condense_latin (P ++ D) (a7 ++ map (shift_tk n) b7) = Ok (a8 ++ map (shift_tk n) b8)).
    { destruct (latin_ok P a7 TA7) as [okA monoA].
      assert (HokB : Forall (tok_ok (P ++ D)) (map (shift_tk n) b7)).
      { apply (tiling_tok_ok_in (P ++ D) (0 + n) (length D + n)); [exact (tiling_shift n _ _ _ TB7)|rewrite EN; lia]. }
      exact (condense_pattern_split (latin_matches (P ++ D)) (latin_matches P) (latin_matches D)
               (fun k => k) n a7 b7 (latin_HL P D a7 _ EB7 TA7 HokB) (latin_HR P D)
               okA monoA a8 b8 Ea8 Eb8). }
    (* 9 match_quotes *)
    assert (S9 : match_quotes (a8 ++ map (shift_tk n) b8) = Ok (a8 ++ map (shift_tk2 n (length a8)) b9))
      by (exact (match_quotes_split n a8 b8 b9 QA8 NB8 Eb9)).
    (* 10 the dictionary loop *)
    assert (TG9 : Tiling 0 (length (P ++ D)) (a8 ++ map (shift_tk2 n (length a8)) b9)).
    { rewrite EN. eapply same_spans_tiling; [|exact (tiling_glue n _ _ _ TA8 TB8)].
      rewrite !map_app. f_equal. destruct SB as [S1' _]. rewrite !map_map.
      change (fun t => tspan (shift_tk2 n (length a8) t)) with (fun t => push_by (tspan t) n).
      change (fun t => tspan (shift_tk n t)) with (fun t => push_by (tspan t) n).
      rewrite <- (map_map tspan (fun s => push_by s n) b9), <- (map_map tspan (fun s => push_by s n) b8).
      rewrite S1'. reflexivity. }
    exists a8, b9. split; [|split; [|split; [|split]]].
    - unfold document_passes. rewrite Ea1. cbn [bind]. rewrite Ea2. cbn [bind]. cbv zeta.
      rewrite Ea4. cbn [bind]. rewrite Ea5. cbn [bind]. rewrite Ea6. cbn [bind]. rewrite Ea7. cbn [bind].
      rewrite Ea8. cbn [bind]. rewrite (match_quotes_free a8 QA8). cbn [bind].
      rewrite (word_lookup_ok P a8 TA8). reflexivity.
    - unfold document_passes. rewrite Eb1. cbn [bind]. rewrite Eb2. cbn [bind]. cbv zeta.
      rewrite Eb4. cbn [bind]. rewrite Eb5. cbn [bind]. rewrite Eb6. cbn [bind]. rewrite Eb7. cbn [bind].
      rewrite Eb8. cbn [bind]. rewrite Eb9. cbn [bind].
      rewrite (word_lookup_ok D b9 TB9). reflexivity.
    - unfold document_passes. rewrite S1. cbn [bind]. rewrite S2. cbn [bind]. cbv zeta.
      rewrite S3, S4. cbn [bind]. rewrite S5. cbn [bind]. rewrite S6. cbn [bind]. rewrite S7. cbn [bind].
      rewrite S8. cbn [bind]. rewrite S9. cbn [bind].
      rewrite (word_lookup_ok (P ++ D) _ TG9). reflexivity.
    - exact EB8.
    - exact TA8.
  Qed.

  (* C12: the hypothesis condense_split of main_lexer_partial holds *)
  Theorem condense_split_holds : condense_split u.
  Proof.
    intros P D tp td HP HD Hp Hd.
    destruct (passes_split P D tp td HP HD Hp Hd) as (A & B & HA & HB & HAB & (A0 & t & EA & Ht) & TA).
    exists A, B. split; [exact HA|]. split; [exact HB|]. split; [exact HAB|]. split.
    - exists (map to_ps A0), (to_ps t). split; [rewrite EA, map_app; reflexivity|].
      unfold to_ps. cbn [ParaSplit.tkind]. rewrite Ht. reflexivity.
    - unfold ParaSplitProofs.in_bounds. apply Forall_forall. intros t' Hin. apply in_map_iff in Hin.
      destruct Hin as [t0 [<- Hin]]. pose proof (tiling_in_range _ _ _ TA) as R. rewrite Forall_forall in R.
      specialize (R t0 Hin). pose proof (tiling_nonempty _ _ _ TA) as Nn. rewrite Forall_forall in Nn.
      specialize (Nn t0 Hin). unfold ParaSplitProofs.tok_in, to_ps. cbn [ParaSplit.tspan].
      unfold tstart, tend in *. cbn beta in *. lia.
  Qed.
End Split.

(* ================= the property for the lexer + condense model, condense_split discharged ================= *)
Theorem doc_tokens_split_holds u :
  u_whitespace u NL = true -> u_numeric u NL = false -> u_alphabetic u NL = false -> u_lingual u NL = false ->
  forall P D, c12_premise P -> no_leading_nl D ->
    doc_tokens u (P ++ D)
    = doc_tokens u P ++ map (ParaSplit.shift_tok (length P) (length (doc_tokens u P))) (doc_tokens u D) /\
    ParaSplitProofs.ends_in_break (doc_tokens u P) /\ ParaSplitProofs.in_bounds (length P) (doc_tokens u P).
Proof.
  intros H1 H2 H3 H4 P D HP HD.
  exact (doc_tokens_split u H1 H2 H3 H4 (condense_split_holds u H1 H2 H3 H4) P D HP HD).
Qed.

Theorem main_lexer_rules u :
  u_whitespace u NL = true -> u_numeric u NL = false -> u_alphabetic u NL = false -> u_lingual u NL = false ->
  forall chunk_fn rules, Forall ParaSplitProofs.para_local rules ->
  forall P D, c12_premise P -> no_leading_nl D ->
    Permutation.Permutation (ParaSplitProofs.lints (doc_tokens u) chunk_fn rules (P ++ D))
                (ParaSplitProofs.lints (doc_tokens u) chunk_fn rules P
                 ++ map (ParaSplit.shift_lint (length P)) (ParaSplitProofs.lints (doc_tokens u) chunk_fn rules D)).
Proof.
  intros H1 H2 H3 H4 chunk_fn rules HR P D HP HD.
  exact (main_lexer_partial u H1 H2 H3 H4 chunk_fn rules (condense_split_holds u H1 H2 H3 H4) HR P D HP HD).
Qed.
