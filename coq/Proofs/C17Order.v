(* C17Order.v — C17: the coordinate invariant of the first six passes of Document::parse.
   `J n l`: the token starts are sorted, every token has start <= end <= n.  Whenever a pass returns, it preserves J
   (ANY token list; every new span takes its start from the token it replaces and its end from a token at or
   behind it, removals keep the order). *)
Require Import Base Overlap Suggestion Tables_number Number NumberArith ListLemmas SuggestionProofs.
Require Import NumberLex NumberPasses NumberProofs C17Texts C17MultiText C17Later C17LaterProofs C17Bounds.
From Coq Require Import List Arith NArith Bool Lia Sorted.
Import ListNotations.
Local Open Scope list_scope.

Ltac dbind HE x E :=
  match type of HE with bind ?e _ = _ => destruct e as [x|] eqn:E; cbn [bind] in HE; [|discriminate] end.

(* ---- order-preserving sublists ---- *)
Inductive subl {A} : list A -> list A -> Prop :=
| subl_nil : subl [] []
| subl_skip x l' l : subl l' l -> subl l' (x :: l)
| subl_keep x l' l : subl l' l -> subl (x :: l') (x :: l).
Lemma subl_refl {A} (l : list A) : subl l l.
Proof. induction l; [apply subl_nil | apply subl_keep; assumption]. Qed.
Lemma subl_nil_l {A} (l : list A) : subl [] l.
Proof. induction l; [apply subl_nil | apply subl_skip; assumption]. Qed.
Lemma subl_in {A} (l' l : list A) : subl l' l -> forall x, In x l' -> In x l.
Proof. induction 1; intros y Hy; [contradiction | right; auto | destruct Hy as [<-|Hy]; [left; reflexivity | right; auto]]. Qed.
Lemma subl_forall {A} (P : A -> Prop) (l' l : list A) : subl l' l -> Forall P l -> Forall P l'.
Proof. intros Hs H. rewrite Forall_forall in *. intros x Hx. apply H. eapply subl_in; eassumption. Qed.
Lemma subl_map {A B} (f : A -> B) (l' l : list A) : subl l' l -> subl (map f l') (map f l).
Proof. induction 1; cbn [map]; constructor; assumption. Qed.
Lemma subl_sorted (l' l : list nat) : subl l' l -> StronglySorted le l -> StronglySorted le l'.
Proof.
  induction 1 as [|x l' l Hs IH|x l' l Hs IH]; intros H; [constructor | |].
  - inversion H; subst. apply IH. assumption.
  - inversion H; subst. constructor; [apply IH; assumption|]. eapply subl_forall; eassumption.
Qed.
Lemma subl_app {A} (a' a b' b : list A) : subl a' a -> subl b' b -> subl (a' ++ b') (a ++ b).
Proof. induction 1; intros Hb; cbn [app]; [exact Hb | apply subl_skip; auto | apply subl_keep; auto]. Qed.
Lemma subl_skipn {A} (k : nat) (l : list A) : subl (skipn k l) l.
Proof.
  revert l. induction k as [|k IH]; intros l; [apply subl_refl|]. destruct l as [|x r]; [apply subl_nil|].
  cbn [skipn]. apply subl_skip. apply IH.
Qed.
Lemma subl_firstn {A} (k : nat) (l : list A) : subl (firstn k l) l.
Proof.
  revert l. induction k as [|k IH]; intros l; [apply subl_nil_l|]. destruct l as [|x r]; [apply subl_nil|].
  cbn [firstn]. apply subl_keep. apply IH.
Qed.
Lemma subl_trans {A} (l1 l2 l3 : list A) : subl l1 l2 -> subl l2 l3 -> subl l1 l3.
Proof.
  intros H12 H23. revert l1 H12. induction H23 as [|x l2 l3 H IH|x l2 l3 H IH]; intros l1 H12.
  - exact H12.
  - apply subl_skip. apply IH. exact H12.
  - inversion H12; subst; [apply subl_skip; apply IH; assumption | apply subl_keep; apply IH; assumption].
Qed.
Lemma subl_ri {A} : forall (l : list A) (i : nat) (q : list nat), subl (remove_indices i q l) l.
Proof.
  induction l as [|x r IH]; intros i q; cbn [remove_indices]; [apply subl_nil|].
  destruct q as [|j q0]; [apply subl_keep; apply IH|]. destruct (i =? j); [apply subl_skip | apply subl_keep]; apply IH.
Qed.

(* ---- the invariant ---- *)
Definition inr (n : nat) (t : token) : Prop := sstart (tspan t) <= send (tspan t) /\ send (tspan t) <= n.
Definition starts (l : list token) : list nat := map (fun t => sstart (tspan t)) l.
Definition J (n : nat) (l : list token) : Prop := StronglySorted le (starts l) /\ Forall (inr n) l.

Lemma J_subl n l' l : subl l' l -> J n l -> J n l'.
Proof.
  intros Hs [H1 H2]. split; [|eapply subl_forall; eassumption].
  eapply subl_sorted; [|exact H1]. apply subl_map. exact Hs.
Qed.
Lemma J_tokok n l : J n l -> tokok n l.
Proof. intros [_ H]. eapply Forall_impl; [|exact H]. intros t [H1 H2]. unfold good. repeat split; lia. Qed.
Lemma J_tspan n l' l : map tspan l' = map tspan l -> J n l -> J n l'.
Proof.
  intros E [H1 H2]. split.
  - unfold starts in *. rewrite <- (map_map tspan sstart) in *. rewrite E. exact H1.
  - assert (H3 : Forall (fun s => sstart s <= send s /\ send s <= n) (map tspan l)) by (apply Forall_map; exact H2).
    rewrite <- E in H3. apply Forall_map in H3. exact H3.
Qed.
Lemma sorted_nth : forall (l : list nat) (i j a b : nat), StronglySorted le l -> i <= j ->
  nth_error l i = Some a -> nth_error l j = Some b -> a <= b.
Proof.
  induction l as [|x r IH]; intros i j a b H Hij Ha Hb; [destruct i; discriminate|].
  inversion H as [|? ? Hr Hx]; subst. destruct i as [|i], j as [|j]; cbn [nth_error] in *.
  - injection Ha as <-. injection Hb as <-. lia.
  - injection Ha as <-. rewrite Forall_forall in Hx. apply Hx. eapply nth_error_In; exact Hb.
  - lia.
  - eapply IH; [exact Hr | | exact Ha | exact Hb]. lia.
Qed.
Lemma J_nth_le n l i j a b : J n l -> i <= j -> nth_error l i = Some a -> nth_error l j = Some b ->
  sstart (tspan a) <= sstart (tspan b).
Proof.
  intros [H _] Hij Ha Hb. eapply (sorted_nth (starts l) i j); [exact H | exact Hij | |]; unfold starts;
    rewrite nth_error_map; [rewrite Ha | rewrite Hb]; reflexivity.
Qed.
Lemma J_nth_inr n l i a : J n l -> nth_error l i = Some a -> inr n a.
Proof. intros [_ H] Ha. rewrite Forall_forall in H. apply H. eapply nth_error_In; exact Ha. Qed.
Lemma starts_mid (a b : list token) (y y' : token) :
  sstart (tspan y') = sstart (tspan y) -> starts (a ++ y' :: b) = starts (a ++ y :: b).
Proof. intros E. unfold starts. rewrite !map_app. cbn [map]. rewrite E. reflexivity. Qed.
Lemma set_nth_inv {A} : forall (l : list A) (i : nat) (x : A) (l' : list A), set_nth l i x = Ok l' ->
  exists y a b, nth_error l i = Some y /\ l = a ++ y :: b /\ length a = i /\ l' = a ++ x :: b.
Proof.
  intros l i x l' H. destruct (nth_error l i) as [y|] eqn:E.
  - destruct (set_nth_ok l i y x E) as (a & b & Hl & Ha & Hs). rewrite Hs in H. injection H as <-.
    exists y, a, b. repeat split; assumption.
  - exfalso. revert i l' H E. induction l as [|h t IH]; intros i l' H E; cbn [set_nth] in H; [destruct i; discriminate|].
    destruct i as [|i]; [discriminate|]. cbn [nth_error] in E.
    destruct (set_nth t i x) as [t'|] eqn:Et; cbn [bind] in H; [|discriminate]. eapply IH; eassumption.
Qed.
(* replacing a token by one with the same start that is in range keeps J *)
Lemma J_replace n (a b : list token) (y y' : token) :
  J n (a ++ y :: b) -> sstart (tspan y') = sstart (tspan y) -> inr n y' -> J n (a ++ y' :: b).
Proof.
  intros [H1 H2] E Hy. split; [rewrite (starts_mid a b y y' E); exact H1|].
  apply Forall_app in H2. destruct H2 as [HA HB]. inversion HB; subst. apply Forall_app. split; [exact HA|].
  constructor; assumption.
Qed.
Lemma nth_chk_inv {A} (l : list A) (i : nat) (x : A) : nth_chk l i = Ok x -> nth_error l i = Some x.
Proof. unfold nth_chk. destruct (nth_error l i); [intros H; injection H as <-; reflexivity | discriminate]. Qed.
Lemma sub_chk_inv a b c : sub_chk a b = Ok c -> b <= a /\ c = a - b.
Proof. unfold sub_chk. destruct (a <? b) eqn:E; [discriminate|]. apply Nat.ltb_ge in E. intros H. injection H as <-. lia. Qed.
Lemma slice_chk_inv {A} (l : list A) (a b : nat) (x : list A) :
  slice_chk l a b = Ok x -> a <= b /\ b <= length l /\ x = firstn (b - a) (skipn a l).
Proof.
  unfold slice_chk. destruct ((b <? a) || (length l <? b)) eqn:E; [discriminate|].
  apply orb_false_iff in E. destruct E as [E1 E2]. apply Nat.ltb_ge in E1, E2. intros H. injection H as <-. repeat split; lia.
Qed.
(* set_span_end with the end of a token at or behind *)
Lemma J_set_end n l i j e l' : J n l -> nth_error l j = Some e -> i <= j ->
  set_span_end l i (send (tspan e)) = Ok l' -> J n l'.
Proof.
  intros HJ He Hij H. unfold set_span_end in H. dbind H t Et. apply nth_chk_inv in Et.
  apply set_nth_inv in H. destruct H as (y & a & b & Hy & Hl & Ha & ->).
  rewrite Hy in Et. injection Et as ->. rewrite Hl in HJ. eapply J_replace; [exact HJ | reflexivity|].
  rewrite <- Hl in HJ. pose proof (J_nth_le n l i j t e HJ Hij Hy He). destruct (J_nth_inr n l j e HJ He).
  split; cbn [tspan sstart send]; lia.
Qed.

(* ---- condense_spaces / condense_newlines ---- *)
Section Copy.
  Variable n : nat.
  Variable copy : list token.
  Hypothesis HJ : J n copy.

  Lemma cs_inner_J : forall fuel start cursor rm r idx c0,
    nth_error copy idx = Some c0 -> sstart (tspan start) = sstart (tspan c0) -> idx <= cursor -> inr n start ->
    cs_inner fuel copy start cursor rm = Ok r ->
    inr n (fst (fst r)) /\ sstart (tspan (fst (fst r))) = sstart (tspan start).
  Proof.
    induction fuel as [|f IH]; intros start cursor rm r idx c0 Hc Hs Hle Hin HE; cbn [cs_inner] in HE; [discriminate|].
    destruct (nth_error copy (S cursor)) as [child|] eqn:En; [|injection HE as <-; split; [exact Hin | reflexivity]].
    destruct (negb (send (tspan start) =? sstart (tspan child))); [injection HE as <-; split; [exact Hin | reflexivity]|].
    destruct (tkind child); try (injection HE as <-; split; [exact Hin | reflexivity]).
    destruct (tkind start); try (injection HE as <-; split; [exact Hin | reflexivity]).
    eapply IH in HE; [| exact Hc | cbn [tspan sstart]; exact Hs | lia |].
    - cbn [tspan sstart] in HE. exact HE.
    - pose proof (J_nth_le n copy idx (S cursor) c0 child HJ ltac:(lia) Hc En).
      destruct (J_nth_inr n copy (S cursor) child HJ En). split; cbn [tspan sstart send]; lia.
  Qed.
  Lemma cn_inner_J : forall fuel start cursor rm r idx c0,
    nth_error copy idx = Some c0 -> sstart (tspan start) = sstart (tspan c0) -> idx <= cursor -> inr n start ->
    cn_inner fuel copy start cursor rm = Ok r ->
    inr n (fst (fst r)) /\ sstart (tspan (fst (fst r))) = sstart (tspan start).
  Proof.
    induction fuel as [|f IH]; intros start cursor rm r idx c0 Hc Hs Hle Hin HE; cbn [cn_inner] in HE; [discriminate|].
    destruct (nth_error copy (S cursor)) as [child|] eqn:En; [|injection HE as <-; split; [exact Hin | reflexivity]].
    destruct (tkind child); try (injection HE as <-; split; [exact Hin | reflexivity]).
    destruct (tkind start); try (injection HE as <-; split; [exact Hin | reflexivity]).
    eapply IH in HE; [| exact Hc | cbn [tspan sstart]; exact Hs | lia |].
    - cbn [tspan sstart] in HE. exact HE.
    - pose proof (J_nth_le n copy idx (S cursor) c0 child HJ ltac:(lia) Hc En).
      destruct (J_nth_inr n copy (S cursor) child HJ En). split; cbn [tspan sstart send]; lia.
  Qed.

  Definition same (toks : list token) : Prop := starts toks = starts copy /\ Forall (inr n) toks.
  Lemma same_nth toks i t : same toks -> nth_error toks i = Some t ->
    exists c0, nth_error copy i = Some c0 /\ sstart (tspan t) = sstart (tspan c0) /\ inr n t.
  Proof.
    intros [E F] Ht. assert (Hs : nth_error (starts toks) i = Some (sstart (tspan t))) by (unfold starts; rewrite nth_error_map, Ht; reflexivity).
    rewrite E in Hs. unfold starts in Hs. rewrite nth_error_map in Hs. destruct (nth_error copy i) as [c0|]; [|discriminate].
    injection Hs as Hs. exists c0. split; [reflexivity|]. split; [congruence|]. rewrite Forall_forall in F. apply F. eapply nth_error_In; exact Ht.
  Qed.
  Lemma same_set toks i t' toks' : same toks -> set_nth toks i t' = Ok toks' ->
    (forall y, nth_error toks i = Some y -> sstart (tspan t') = sstart (tspan y)) -> inr n t' -> same toks'.
  Proof.
    intros [E F] H Hs Hi. apply set_nth_inv in H. destruct H as (y & a & b & Hy & -> & Ha & ->). split.
    - rewrite (starts_mid a b y t' (Hs y Hy)). exact E.
    - apply Forall_app in F. destruct F as [FA FB]. inversion FB; subst. apply Forall_app. split; [exact FA|]. constructor; assumption.
  Qed.

  Lemma cs_outer_J : forall fuel toks cursor rm r, same toks -> cs_outer fuel copy toks cursor rm = Ok r -> same (fst r).
  Proof.
    induction fuel as [|f IH]; intros toks cursor rm r Hs HE; cbn [cs_outer] in HE; [discriminate|].
    destruct (nth_error toks cursor) as [st|] eqn:Est; [|injection HE as <-; exact Hs].
    destruct (is_space st); [|eapply IH; eassumption].
    dbind HE r1 E1. destruct r1 as [[st' cur'] rm']. dbind HE toks' E2.
    destruct (same_nth toks cursor st Hs Est) as (c0 & Hc0 & Hst & Hin).
    destruct (cs_inner_J _ _ _ _ _ cursor c0 Hc0 Hst (le_n _) Hin E1) as [Hin' Hst']. cbn [fst] in *.
    eapply IH; [|exact HE]. eapply same_set; [exact Hs | exact E2 | | exact Hin'].
    intros y Hy. rewrite Est in Hy. injection Hy as <-. exact Hst'.
  Qed.
  Lemma cn_outer_J : forall fuel toks cursor rm r, same toks -> cn_outer fuel copy toks cursor rm = Ok r -> same (fst r).
  Proof.
    induction fuel as [|f IH]; intros toks cursor rm r Hs HE; cbn [cn_outer] in HE; [discriminate|].
    destruct (nth_error toks cursor) as [st|] eqn:Est; [|injection HE as <-; exact Hs].
    destruct (is_newline st); [|eapply IH; eassumption].
    dbind HE r1 E1. destruct r1 as [[st' cur'] rm']. dbind HE toks' E2.
    destruct (same_nth toks cursor st Hs Est) as (c0 & Hc0 & Hst & Hin).
    destruct (cn_inner_J _ _ _ _ _ cursor c0 Hc0 Hst (le_n _) Hin E1) as [Hin' Hst']. cbn [fst] in *.
    eapply IH; [|exact HE]. eapply same_set; [exact Hs | exact E2 | | exact Hin'].
    intros y Hy. rewrite Est in Hy. injection Hy as <-. exact Hst'.
  Qed.
  Lemma same_J toks : same toks -> J n toks.
  Proof. intros [E F]. split; [rewrite E; exact (proj1 HJ) | exact F]. Qed.
End Copy.

Lemma condense_spaces_J n toks l' : J n toks -> condense_spaces toks = Ok l' -> J n l'.
Proof.
  intros HJ HE. unfold condense_spaces in HE. dbind HE r E. injection HE as <-.
  eapply J_subl; [apply subl_ri|]. apply (same_J n toks HJ). eapply cs_outer_J; [exact HJ | | exact E].
  split; [reflexivity | exact (proj2 HJ)].
Qed.
Lemma condense_newlines_J n toks l' : J n toks -> condense_newlines toks = Ok l' -> J n l'.
Proof.
  intros HJ HE. unfold condense_newlines in HE. dbind HE r E. injection HE as <-.
  eapply J_subl; [apply subl_ri|]. apply (same_J n toks HJ). eapply cn_outer_J; [exact HJ | | exact E].
  split; [reflexivity | exact (proj2 HJ)].
Qed.
Lemma breaks_J n toks : J n toks -> J n (newlines_to_breaks toks).
Proof.
  apply J_tspan. unfold newlines_to_breaks. rewrite map_map. apply map_ext. intros t.
  destruct (tkind t); try reflexivity. destruct (2 <=? n0); reflexivity.
Qed.

(* ---- condense_number_suffixes ---- *)
Lemma cns_scan_tspan src : forall l idx r, cns_scan src idx l = Ok r -> map tspan (fst r) = map tspan l.
Proof.
  induction l as [|a tl IH]; intros idx r HE; [cbn in HE; injection HE as <-; reflexivity|].
  destruct tl as [|b tl']; [cbn in HE; injection HE as <-; reflexivity|].
  cbn [cns_scan] in HE. dbind HE hd0 Eh. dbind HE r' Er. injection HE as <-. cbn [fst map]. f_equal; [|exact (IH _ _ Er)].
  destruct (tkind a); try (injection Eh as <-; reflexivity).
  destruct (tkind b); try (injection Eh as <-; reflexivity).
  dbind Eh len El. destruct (negb (len =? 2)); [injection Eh as <-; reflexivity|].
  dbind Eh content Ec. destruct (from_chars content); injection Eh as <-; reflexivity.
Qed.
Lemma ci_spans_J n : forall indices stretch toks r, 1 <= stretch -> J n toks -> ci_spans indices stretch toks = Ok r -> J n r.
Proof.
  induction indices as [|i rest IH]; intros stretch toks r Hst HJ HE; cbn [ci_spans] in HE; [injection HE as <-; exact HJ|].
  dbind HE j Ej. dbind HE e Ee. dbind HE toks' Et. apply sub_chk_inv in Ej. destruct Ej as [Hj ->]. apply nth_chk_inv in Ee.
  eapply IH; [exact Hst | | exact HE]. eapply (J_set_end n toks i (i + stretch - 1)); [exact HJ | exact Ee | clear - Hst; lia | exact Et].
Qed.
Lemma skipn_nth_cons {A} : forall (l : list A) (a : nat) (x : A), nth_error l a = Some x -> skipn a l = x :: skipn (S a) l.
Proof.
  induction l as [|h t IH]; intros a x H; [destruct a; discriminate|]. destruct a as [|a]; cbn [nth_error] in H.
  - injection H as <-. reflexivity.
  - cbn [skipn]. rewrite (IH a x H). reflexivity.
Qed.
Lemma skipn_split {A} (l : list A) (a b : nat) : a <= b -> skipn a l = firstn (b - a) (skipn a l) ++ skipn b l.
Proof. intros H. rewrite <- (firstn_skipn (b - a) (skipn a l)) at 1. rewrite skipn_skipn. replace (b - a + a) with b by lia. reflexivity. Qed.
Lemma ci_mid_subl (old : list token) (stretch : nat) : 1 <= stretch -> forall indices a r v,
  ci_mid old stretch (a :: indices) = Ok r -> last_error (a :: indices) = Some v ->
  subl (r ++ skipn (v + stretch) old) (skipn a old).
Proof.
  intros Hst. induction indices as [|b rest IH]; intros a r v HE Hv.
  - cbn [ci_mid] in HE. dbind HE ta Ea. injection HE as <-. cbn in Hv. injection Hv as <-. apply nth_chk_inv in Ea.
    rewrite (skipn_nth_cons old a ta Ea). cbn [app]. apply subl_keep.
    replace (a + stretch) with ((stretch - 1) + S a) by lia. rewrite <- skipn_skipn. apply subl_skipn.
  - cbn [ci_mid] in HE. dbind HE ta Ea. dbind HE mid Em. dbind HE more Eo. injection HE as <-. apply nth_chk_inv in Ea.
    apply slice_chk_inv in Em. destruct Em as (H1 & H2 & ->).
    rewrite last_error_cons in Hv by discriminate.
    specialize (IH b more v Eo Hv).
    rewrite (skipn_nth_cons old a ta Ea). cbn [app]. apply subl_keep. rewrite <- app_assoc.
    eapply subl_trans; [|apply (subl_skipn (stretch - 1) (skipn (S a) old))]. rewrite skipn_skipn.
    replace (stretch - 1 + S a) with (a + stretch) by lia.
    rewrite (skipn_split old (a + stretch) b H1) at 2. apply subl_app; [apply subl_refl | exact IH].
Qed.
Lemma condense_indices_J n indices stretch toks r : 1 <= stretch -> J n toks ->
  condense_indices indices stretch toks = Ok r -> J n r.
Proof.
  intros Hst HJ HE. unfold condense_indices in HE. dbind HE old Eo. apply (ci_spans_J n _ _ _ _ Hst HJ) in Eo.
  dbind HE first0 Ef. dbind HE mid Em. dbind HE last0 El. injection HE as <-.
  apply slice_chk_inv in Ef, El. destruct Ef as (_ & _ & ->). destruct El as (_ & _ & ->).
  eapply J_subl; [|exact Eo]. destruct indices as [|a rest].
  - cbn [ci_mid] in Em. injection Em as <-. cbn [hd length firstn app last_error]. eapply subl_trans; [apply subl_firstn | apply subl_skipn].
  - cbn [hd]. rewrite Nat.sub_0_r. cbn [skipn].
    destruct (last_error (a :: rest)) as [v|] eqn:Ev; [|apply last_error_none in Ev; discriminate].
    apply (subl_trans _ (firstn a old ++ skipn a old)); [|rewrite firstn_skipn; apply subl_refl]. apply subl_app; [apply subl_refl|].
    eapply subl_trans; [|exact (ci_mid_subl old stretch Hst rest a mid v Em Ev)].
    apply subl_app; [apply subl_refl | apply subl_firstn].
Qed.
Lemma condense_number_suffixes_J n src toks r : J n toks -> condense_number_suffixes src toks = Ok r -> J n r.
Proof.
  intros HJ HE. unfold condense_number_suffixes in HE. destruct (length toks <? 2); [injection HE as <-; exact HJ|].
  dbind HE r1 E1. eapply condense_indices_J; [| |exact HE]; [lia|].
  eapply J_tspan; [|exact HJ]. eapply cns_scan_tspan. exact E1.
Qed.

(* ---- condense_pattern (contractions; also ellipsis / latin) ---- *)
Lemma fold_min_eq : forall (cs : list nat) (c : nat), Forall (fun x => c <= x) cs -> fold_left Nat.min cs c = c.
Proof.
  induction cs as [|x cs IH]; intros c H; cbn [fold_left]; [reflexivity|]. inversion H; subst.
  replace (Nat.min c x) with c by lia. apply IH. assumption.
Qed.
Lemma hull_J n (t : token) (r : list token) (h : span) : J n (t :: r) -> hull (t :: r) = Some h ->
  sstart h = sstart (tspan t) /\ sstart h <= send h /\ send h <= n.
Proof.
  intros HJ Hh. assert (Hok : tokok n (t :: r)) by (apply J_tokok; exact HJ).
  destruct (hull_good (repeat 0%N n) (t :: r)) as (h' & Hh' & H1 & H2); [discriminate | rewrite repeat_length; exact Hok|].
  rewrite repeat_length in H2. rewrite Hh in Hh'. injection Hh' as <-. split; [|split; assumption].
  unfold hull in Hh. cbn [flat_map app] in Hh. injection Hh as <-. cbn [sstart].
  destruct HJ as [HS HF]. inversion HF as [|? ? [Ht1 _] HFr]; subst.
  replace (Nat.min (sstart (tspan t)) (send (tspan t))) with (sstart (tspan t)) by lia. apply fold_min_eq.
  unfold starts in HS. cbn [map] in HS. inversion HS as [|? ? _ Hle]; subst. clear - Hle HFr.
  induction r as [|y r IH]; cbn [flat_map app]; [constructor|]. inversion HFr as [|? ? [Hy _] HFr']; subst.
  cbn [map] in Hle. inversion Hle; subst. constructor; [assumption|]. constructor; [lia|]. apply IH; assumption.
Qed.
Lemma cp_apply_g_J n (edit : token -> token) : (forall t, tspan (edit t) = tspan t) ->
  forall (ms : list span) (toks : list token) (rm : list nat) r,
  J n toks -> cp_apply_g edit ms toks rm = Ok r -> J n (fst r).
Proof.
  intros Hedit. induction ms as [|s ms IH]; intros toks rm r HJ HE; cbn [cp_apply_g] in HE; [injection HE as <-; exact HJ|].
  dbind HE sl Es. apply slice_chk_inv in Es. destruct Es as (H1 & H2 & ->).
  destruct (hull (firstn (send s - sstart s) (skipn (sstart s) toks))) as [h|] eqn:Eh; [|discriminate].
  dbind HE t Et. apply nth_chk_inv in Et. dbind HE toks' Ets.
  apply set_nth_inv in Ets. destruct Ets as (y & a & b & Hy & Hl & Ha & ->). rewrite Hy in Et. injection Et as ->.
  eapply IH; [|exact HE].
  assert (Hne : send s - sstart s <> 0).
  { intros E0. rewrite E0 in Eh. cbn in Eh. discriminate. }
  rewrite (skipn_nth_cons toks (sstart s) t Hy) in Eh.
  destruct (send s - sstart s) as [|k] eqn:Ek; [contradiction|]. cbn [firstn] in Eh.
  destruct (hull_J n t (firstn k (skipn (S (sstart s)) toks)) h) as (Hh0 & Hh1 & Hh2); [|exact Eh|].
  { eapply J_subl; [|exact HJ]. rewrite <- (firstn_skipn (sstart s) toks) at 2. rewrite (skipn_nth_cons toks (sstart s) t Hy).
    eapply subl_trans; [|apply subl_app; [apply subl_nil_l | apply subl_refl]]. cbn [app]. apply subl_keep. apply subl_firstn. }
  rewrite Hl in HJ. eapply J_replace; [exact HJ | rewrite Hedit; exact Hh0 | unfold inr; rewrite Hedit; cbn [tspan]; lia].
Qed.
Lemma condense_pattern_g_J n (m : matcher) (edit : token -> token) toks r : (forall t, tspan (edit t) = tspan t) ->
  J n toks -> condense_pattern_g m edit toks = Ok r -> J n r.
Proof.
  intros Hedit HJ HE. unfold condense_pattern_g in HE. dbind HE ms Em. dbind HE r1 E1. injection HE as <-.
  eapply J_subl; [apply subl_ri|]. eapply cp_apply_g_J; eassumption.
Qed.
Lemma condense_contractions_J n toks r : J n toks -> condense_contractions toks = Ok r -> J n r.
Proof.
  intros HJ HE. rewrite <- condense_contractions_generic in HE. unfold condense_contractions_g in HE.
  eapply (condense_pattern_g_J n); [|exact HJ | exact HE]. reflexivity.
Qed.

(* ---- condense_dotted_initialisms ---- *)
Definition di_ok (cursor : nat) (rm : list nat) (st : option nat) : Prop :=
  match st with Some s => s + 2 <= cursor /\ exists x, last_error rm = Some x /\ s < x | None => True end.
Lemma di_loop_J n : forall fuel cursor toks rm st r, J n toks -> di_ok cursor rm st ->
  di_loop fuel cursor toks rm st = Ok r ->
  J n (fst (fst r)) /\ (forall s, snd r = Some s -> exists x, last_error (snd (fst r)) = Some x /\ s < x).
Proof.
  induction fuel as [|f IH]; intros cursor toks rm st r HJ Hok HE; cbn [di_loop] in HE; [discriminate|].
  destruct (length toks <=? cursor).
  { injection HE as <-. cbn [fst snd]. split; [exact HJ|]. intros s ->. destruct Hok as [_ Hx]. exact Hx. }
  dbind HE c1 E1. dbind HE a Ea. dbind HE b Eb. dbind HE chunk Ec. apply sub_chk_inv in E1. destruct E1 as [Hc1 ->].
  destruct chunk.
  - destruct st as [s|]; (eapply IH; [exact HJ | | exact HE]); unfold di_ok in *.
    + destruct Hok as [Hs _]. split; [lia|]. exists cursor. split; [apply last_error_app | lia].
    + split; [lia|]. exists cursor. split; [apply last_error_app | lia].
  - destruct st as [s|]; [|eapply IH; [exact HJ | | exact HE]; exact I].
    dbind HE c2 E2. apply sub_chk_inv in E2. destruct E2 as [Hc2 ->]. destruct Hok as [Hs _].
    destruct (cursor - 2 =? s + 1); [eapply IH; [exact HJ | | exact HE]; exact I|].
    dbind HE e Ee. dbind HE toks' Et. apply nth_chk_inv in Ee.
    eapply IH; [| | exact HE]; [|exact I]. eapply (J_set_end n toks s (cursor - 2)); [exact HJ | exact Ee | clear - Hs; lia | exact Et].
Qed.
Lemma condense_dotted_initialisms_J n toks r : J n toks -> condense_dotted_initialisms toks = Ok r -> J n r.
Proof.
  intros HJ HE. unfold condense_dotted_initialisms in HE. destruct (length toks <? 2); [injection HE as <-; exact HJ|].
  dbind HE r1 E1. destruct (di_loop_J n _ 1 toks [] None r1 HJ I E1) as [HJ1 Hst]. destruct r1 as [[toks1 rm] st]. cbn [fst snd] in *.
  dbind HE r2 E2. injection HE as <-. eapply J_subl; [apply subl_ri|].
  destruct st as [s|]; [|injection E2 as <-; exact HJ1].
  destruct (Hst s eq_refl) as (x & Hx & Hsx). rewrite Hx in E2.
  destruct (x =? s + 1); [injection E2 as <-; exact HJ1|].
  dbind E2 e Ee. dbind E2 toks2 Et. injection E2 as <-. cbn [fst]. apply nth_chk_inv in Ee.
  eapply (J_set_end n toks1 s x); [exact HJ1 | exact Ee | clear - Hsx; lia | exact Et].
Qed.

(* ---- the six passes ---- *)
Theorem doc_tokens_J (U : uni) (ut : text -> nat) (et : text -> nat -> option nat) (src : text) (n : nat) (T0 T : list token) :
  lex_doc U ut et src = Ok T0 -> J n T0 -> doc_tokens U ut et src = Ok T -> J n T.
Proof.
  intros HL HJ HE. unfold doc_tokens in HE. rewrite HL in HE. cbn [bind] in HE.
  dbind HE t1 E1. dbind HE t2 E2. dbind HE t3 E3. dbind HE t4 E4.
  eapply condense_dotted_initialisms_J; [|exact HE]. eapply condense_contractions_J; [|exact E4].
  eapply condense_number_suffixes_J; [|exact E3]. apply breaks_J.
  eapply condense_newlines_J; [|exact E2]. eapply condense_spaces_J; [|exact E1]. exact HJ.
Qed.

(* decidable form of J (non-vacuity Examples) *)
Fixpoint sortedb (l : list nat) : bool :=
  match l with [] => true | x :: r => forallb (Nat.leb x) r && sortedb r end.
Definition Jb (n : nat) (l : list token) : bool :=
  sortedb (starts l) && forallb (fun t => (sstart (tspan t) <=? send (tspan t)) && (send (tspan t) <=? n)) l.
Lemma sortedb_spec : forall l, sortedb l = true -> StronglySorted le l.
Proof.
  induction l as [|x r IH]; intros H; [constructor|]. cbn [sortedb] in H. apply andb_true_iff in H. destruct H as [H1 H2].
  constructor; [apply IH; exact H2|]. rewrite forallb_forall in H1. apply Forall_forall. intros y Hy.
  apply Nat.leb_le. apply H1. exact Hy.
Qed.
Lemma Jb_spec n l : Jb n l = true -> J n l.
Proof.
  unfold Jb. rewrite andb_true_iff. intros [H1 H2]. split; [apply sortedb_spec; exact H1|].
  rewrite forallb_forall in H2. apply Forall_forall. intros t Ht. specialize (H2 t Ht).
  rewrite andb_true_iff, !Nat.leb_le in H2. exact H2.
Qed.
