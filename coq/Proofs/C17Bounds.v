(* C17Bounds.v — C17: freedom from panics of the passes after condense_dotted_initialisms (Model/C17Later.v).
   `tokok n l`: every coordinate of every token is <= n and every Word token has start <= end.  For ANY source
   and ANY token list with `tokok (length src)`, condense_ellipsis, condense_latin and the metadata loop return
   (no Span::get_content / span.len() / index / slice / unwrap panics) and the result is `tokok` again. *)
Require Import Base Overlap Suggestion Tables_number Number NumberArith ListLemmas SuggestionProofs.
Require Import NumberLex NumberPasses NumberProofs C17Texts C17MultiText C17Later C17LaterProofs.
From Coq Require Import List Arith NArith Bool Lia.
Import ListNotations.
Local Open Scope list_scope.

Definition good (n : nat) (t : token) : Prop :=
  sstart (tspan t) <= n /\ send (tspan t) <= n /\ (is_word t = true -> sstart (tspan t) <= send (tspan t)).
Definition tokok (n : nat) (l : list token) : Prop := Forall (good n) l.

Lemma tokok_skipn n k l : tokok n l -> tokok n (skipn k l).
Proof.
  revert l. induction k as [|k IH]; intros l H; [exact H|]. destruct l as [|x r]; [exact H|].
  cbn [skipn]. apply IH. inversion H; assumption.
Qed.
Lemma tokok_firstn n k l : tokok n l -> tokok n (firstn k l).
Proof.
  revert l. induction k as [|k IH]; intros l H; [constructor|]. destruct l as [|x r]; [constructor|].
  cbn [firstn]. inversion H; subst. constructor; [assumption | apply IH; assumption].
Qed.
Lemma tokok_ri n : forall (l : list token) (i : nat) (q : list nat), tokok n l -> tokok n (remove_indices i q l).
Proof.
  intros l i q H. apply Forall_forall. intros x Hx. apply ri_in in Hx.
  unfold tokok in H. rewrite Forall_forall in H. apply H. exact Hx.
Qed.
Lemma tokok_wordwf n l : tokok n l -> wordwf l.
Proof. intros H. eapply Forall_impl; [|exact H]. intros t (_ & _ & Hw). exact Hw. Qed.

(* Span::get_content / Span::len on a span inside the source *)
Lemma get_content_ok (s : span) (src : text) :
  sstart s <= send s -> send s <= length src -> exists v, get_content s src = Ok v.
Proof.
  intros H1 H2. unfold get_content, try_get_content.
  destruct ((send s <? sstart s) || (length src <=? sstart s) || (length src <? send s)) eqn:E.
  - unfold span_len, sub_chk. destruct (send s <? sstart s) eqn:E1; [apply Nat.ltb_lt in E1; lia|].
    cbn [bind].
    assert (H0 : send s - sstart s = 0).
    { rewrite !orb_true_iff in E. destruct E as [[E|E]|E]; [congruence | apply Nat.leb_le in E; lia | apply Nat.ltb_lt in E; lia]. }
    rewrite H0. cbn [Nat.eqb bind]. eexists; reflexivity.
  - cbn [bind]. eexists; reflexivity.
Qed.
Lemma span_len_ok (s : span) : sstart s <= send s -> span_len s = Ok (send s - sstart s).
Proof.
  intros H. unfold span_len, sub_chk. destruct (send s <? sstart s) eqn:E; [apply Nat.ltb_lt in E; lia | reflexivity].
Qed.

(* ---- the matchers return ---- *)
Section Src.
  Variable src : text.
  Notation n := (length src).

  Lemma wordset_at_ok ws l : tokok n l -> exists k, wordset_at src ws l = Ok k.
  Proof.
    intros H. destruct l as [|t r]; cbn [wordset_at]; [eexists; reflexivity|].
    destruct (negb (is_word t)) eqn:E; [eexists; reflexivity|]. apply negb_false_iff in E.
    inversion H as [|? ? (_ & Hb & Hw) _]; subst.
    destruct (get_content_ok (tspan t) src (Hw E) Hb) as [v Hv]. rewrite Hv. cbn [bind]. eexists; reflexivity.
  Qed.
  Lemma anycap_at_ok w l : tokok n l -> exists k, anycap_at src w l = Ok k.
  Proof.
    intros H. destruct l as [|t r]; cbn [anycap_at]; [eexists; reflexivity|].
    destruct (negb (is_word t)) eqn:E; [eexists; reflexivity|]. apply negb_false_iff in E.
    inversion H as [|? ? (_ & Hb & Hw) _]; subst.
    rewrite (span_len_ok _ (Hw E)). cbn [bind].
    destruct (negb (send (tspan t) - sstart (tspan t) =? length w)); [eexists; reflexivity|].
    destruct (get_content_ok (tspan t) src (Hw E) Hb) as [v Hv]. rewrite Hv. cbn [bind]. eexists; reflexivity.
  Qed.
  Lemma latin_at_ok l : tokok n l -> exists k, latin_at src l = Ok k.
  Proof.
    intros H. unfold latin_at.
    assert (H1 : exists a, latin_alt1 src l = Ok a).
    { unfold latin_alt1. destruct (wordset_at_ok latin_wordset l H) as [k ->]. cbn [bind].
      destruct (k =? 0); [eexists; reflexivity|]. destruct (period_at (skipn 1 l) =? 0); eexists; reflexivity. }
    assert (H2 : exists b, latin_alt2 src l = Ok b).
    { unfold latin_alt2. destruct (anycap_at_ok latin_first l H) as [k ->]. cbn [bind].
      destruct (k =? 0); [eexists; reflexivity|].
      destruct (count_while is_whitespace_tok (skipn 1 l) =? 0); [eexists; reflexivity|].
      destruct (anycap_at_ok latin_second (skipn (1 + count_while is_whitespace_tok (skipn 1 l)) l)) as [m ->];
        [apply tokok_skipn; exact H|]. cbn [bind].
      destruct (m =? 0); [eexists; reflexivity|].
      destruct (period_at (skipn (2 + count_while is_whitespace_tok (skipn 1 l)) l) =? 0); eexists; reflexivity. }
    destruct H1 as [a ->]. destruct H2 as [b ->]. cbn [bind]. eexists; reflexivity.
  Qed.

  (* ---- Document::condense_pattern returns, generic ---- *)
  Section Gen.
    Variable m : matcher.
    Variable edit : token -> token.
    Variable K : token -> bool.
    Hypothesis m_total : forall l, tokok n l -> exists k, m l = Ok k.
    Hypothesis m_good : forall l k, m l = Ok k -> 0 < k -> forall j, j < k -> at_ K l j.
    Hypothesis edit_span : forall t, tspan (edit t) = tspan t.

    Lemma matches_from_g_ok : forall (l : list token) (i : nat), tokok n l -> exists found, matches_from_g m i l = Ok found.
    Proof.
      induction l as [|x tl IH]; intros i H; cbn [matches_from_g]; [eexists; reflexivity|].
      destruct (m_total _ H) as [k ->]. cbn [bind].
      destruct (IH (S i)) as [r ->]; [inversion H; assumption|]. cbn [bind]. eexists; reflexivity.
    Qed.
    Lemma find_all_matches_g_ok (l : list token) : tokok n l -> exists found, find_all_matches_g m l = Ok found.
    Proof.
      intros H. unfold find_all_matches_g. destruct (matches_from_g_ok l 0 H) as [f ->]. cbn [bind]. eexists; reflexivity.
    Qed.

    Lemma hull_good (sl : list token) : sl <> [] -> tokok n sl ->
      exists h, hull sl = Some h /\ sstart h <= send h /\ send h <= n.
    Proof.
      intros Hne H. destruct sl as [|t r]; [contradiction|]. unfold hull. cbn [flat_map app].
      eexists. split; [reflexivity|]. cbn [sstart send].
      set (cs := send (tspan t) :: flat_map (fun t0 => [sstart (tspan t0); send (tspan t0)]) r).
      assert (Hcs : Forall (fun c => c <= n) cs).
      { unfold cs. inversion H as [|? ? (Ha & Hb & _) Hr]; subst. constructor; [exact Hb|].
        clear - Hr. induction Hr as [|y r (Ha & Hb & _) Hr IH]; cbn [flat_map app]; [constructor|].
        constructor; [exact Ha|]. constructor; [exact Hb | exact IH]. }
      assert (Hmin : forall cs c, fold_left Nat.min cs c <= c).
      { induction cs0 as [|x cs0 IH]; intros c; cbn [fold_left]; [lia|]. specialize (IH (Nat.min c x)). lia. }
      assert (Hmax : forall cs c, c <= fold_left Nat.max cs c).
      { induction cs0 as [|x cs0 IH]; intros c; cbn [fold_left]; [lia|]. specialize (IH (Nat.max c x)). lia. }
      assert (Hb : forall cs c, c <= n -> Forall (fun c => c <= n) cs -> fold_left Nat.max cs c <= n).
      { induction cs0 as [|x cs0 IH]; intros c Hc HF; cbn [fold_left]; [exact Hc|].
        inversion HF; subst. apply IH; [lia | assumption]. }
      inversion H as [|? ? (Ha & _ & _) _]; subst.
      specialize (Hmin cs (sstart (tspan t))). specialize (Hmax cs (sstart (tspan t))).
      specialize (Hb cs (sstart (tspan t)) Ha Hcs). lia.
    Qed.

    Lemma cp_apply_g_ok : forall (ms : list span) (toks : list token) (rm : list nat),
      tokok n toks -> (forall s, In s ms -> sstart s < send s <= length toks) ->
      exists toks' rm', cp_apply_g edit ms toks rm = Ok (toks', rm') /\ tokok n toks'.
    Proof.
      induction ms as [|s ms IH]; intros toks rm H Hms; cbn [cp_apply_g]; [eexists; eexists; split; [reflexivity | exact H]|].
      destruct (Hms s (or_introl eq_refl)) as [Hlt Hle].
      unfold slice_chk.
      destruct ((send s <? sstart s) || (length toks <? send s)) eqn:E.
      { rewrite orb_true_iff in E. destruct E as [E|E]; apply Nat.ltb_lt in E; lia. }
      cbn [bind].
      destruct (hull_good (firstn (send s - sstart s) (skipn (sstart s) toks))) as (h & -> & Hh1 & Hh2).
      { intros Hnil. apply (f_equal (@length token)) in Hnil. rewrite firstn_length, skipn_length in Hnil.
        cbn [length] in Hnil. lia. }
      { apply tokok_firstn, tokok_skipn. exact H. }
      unfold nth_chk. destruct (nth_error toks (sstart s)) as [t|] eqn:Et; [|apply nth_error_None in Et; lia].
      cbn [bind].
      destruct (set_nth_ok toks (sstart s) t (edit (mktok h (tkind t))) Et) as (pa & pb & Htoks & Hpa & Hset).
      rewrite Hset. cbn [bind]. apply IH.
      - rewrite Htoks in H. unfold tokok in *. apply Forall_app in H. destruct H as [HA HB].
        apply Forall_app. split; [exact HA|]. inversion HB; subst. constructor; [|assumption].
        unfold good. rewrite edit_span. cbn [tspan]. repeat split; lia.
      - intros s' Hs'. rewrite app_length. cbn [length].
        specialize (Hms s' (or_intror Hs')). rewrite Htoks, app_length in Hms. cbn [length] in Hms. exact Hms.
    Qed.

    Lemma condense_pattern_g_ok (toks : list token) :
      tokok n toks -> exists toks', condense_pattern_g m edit toks = Ok toks' /\ tokok n toks'.
    Proof.
      intros H. unfold condense_pattern_g.
      destruct (find_all_matches_g_ok toks H) as [ms Ems]. rewrite Ems. cbn [bind].
      destruct (cp_apply_g_ok ms toks [] H) as (t1 & rm & -> & H1).
      { intros s Hs. destruct (find_all_matches_g_spec m K m_good toks ms Ems s Hs) as (Hlt & Hat).
        split; [exact Hlt|]. pose proof (at_len K toks (send s - 1) (Hat (send s - 1) ltac:(lia))). lia. }
      cbn [bind fst snd]. eexists. split; [reflexivity|]. apply tokok_ri. exact H1.
    Qed.
  End Gen.

  Lemma meta_loop_ok (toks : list token) : tokok n toks -> meta_loop src toks = Ok tt.
  Proof.
    induction 1 as [|t r (_ & Hb & Hw) _ IH]; cbn [meta_loop]; [reflexivity|].
    destruct (is_word t) eqn:E.
    - destruct (get_content_ok (tspan t) src (Hw eq_refl) Hb) as [v ->]. cbn [bind]. exact IH.
    - cbn [bind]. exact IH.
  Qed.

  (* the later passes never panic on a token list whose coordinates lie inside the source *)
  Theorem later_passes_total (toks : list token) :
    tokok n toks -> exists toks', later_passes src toks = Ok toks' /\ tokok n toks'.
  Proof.
    intros H. unfold later_passes, condense_ellipsis, condense_latin.
    destruct (condense_pattern_g_ok ellipsis_at to_ellipsis is_period) with (toks := toks) as (t1 & -> & H1).
    - intros l _. eexists; reflexivity.
    - exact ellipsis_good.
    - intros t. reflexivity.
    - exact H.
    - cbn [bind].
      destruct (condense_pattern_g_ok (latin_at src) (fun t => t) wsp) with (toks := t1) as (t2 & -> & H2).
      + exact latin_at_ok.
      + intros l k. exact (latin_good src l k).
      + intros t. reflexivity.
      + exact H1.
      + cbn [bind]. rewrite (meta_loop_ok t2 H2). cbn [bind]. eexists. split; [reflexivity | exact H2].
  Qed.
End Src.

(* decidable form (for the non-vacuity Examples and the extracted monitor) *)
Definition goodb (n : nat) (t : token) : bool :=
  (sstart (tspan t) <=? n) && (send (tspan t) <=? n) && (negb (is_word t) || (sstart (tspan t) <=? send (tspan t))).
Definition tokokb (n : nat) (l : list token) : bool := forallb (goodb n) l.
Lemma tokokb_spec n l : tokokb n l = true -> tokok n l.
Proof.
  unfold tokokb, tokok. rewrite forallb_forall, Forall_forall. intros H t Ht. specialize (H t Ht).
  unfold goodb in H. rewrite !andb_true_iff, orb_true_iff, negb_true_iff, !Nat.leb_le in H.
  destruct H as [[H1 H2] H3]. repeat split; [exact H1 | exact H2 |]. intros Hw. destruct H3 as [H3|H3]; [congruence | exact H3].
Qed.

(* TEXT level: for a text of the class, once the token list the first six passes return lies inside the text
   (tokok), the whole modelled Document::parse returns and the rule reports exactly the promised lints.
   `_partial`: tokok of doc_tokens' result is a premise here (true on every generated text; proving it needs the
   order of the token coordinates through the six passes). *)
Theorem lint_list_total_partial :
  forall (U : uni) (ut : text -> nat) (et : text -> nat -> option nat),
  ascii_laws U ->
  forall (l : list inst) (post : text),
  mctx_ok U l post = true ->
  forall T, doc_tokens U ut et (mtext l post) = Ok T -> tokok (length (mtext l post)) T ->
  (exists T', doc_final U ut et (mtext l post) = Ok T' /\ filter is_number T' = mlist 0 l
              /\ tokok (length (mtext l post)) T')
  /\ lint_doc U ut et (mtext l post) = Ok (Some (mexpected 0 l)).
Proof.
  intros U ut et HU l post Hctx T HT Hok.
  destruct (lint_list_doc_thm U ut et HU l post Hctx) as (_ & Hn & Hr).
  destruct (later_passes_total (mtext l post) T Hok) as (T' & HL & Hok').
  assert (HF : doc_final U ut et (mtext l post) = Ok T') by (unfold doc_final; rewrite HT; cbn [bind]; exact HL).
  split.
  - exists T'. split; [exact HF|]. split; [apply Hn; exact HF | exact Hok'].
  - assert (HR : lint_doc U ut et (mtext l post) = Ok (rule T')) by (unfold lint_doc; rewrite HF; reflexivity).
    rewrite HR. f_equal. apply Hr. exact HR.
Qed.
