(* C19LexerFinite.v — the `lexer` contract of C19 as a theorem about C02's (frozen) Model/Lexer.v:
   every Number the modelled lexer makes — lex_number (b5c1992: only a parse that `is_finite()` is accepted),
   lex_hex_number (a u64), hence lex_token and PlainEnglish::parse as a whole — has a value whose correctly rounded
   f64 is finite (Lexer.f64_finite; its meaning `mant * 10^ex < 2^1024 - 2^970` is C02_f64_finite_spec). *)
Require Import Base Overlap Tables_lexer Lexer LexerProofs.
From Coq Require Import Lia ZArith.

Definition number_finite (n : number) : Prop := f64_finite (n_mant n) (n_exp10 n) = true.
Definition kind_finite (k : tkind) : Prop := forall nb, k = KNumber nb -> number_finite nb.
Definition token_finite (t : token) : Prop := kind_finite (tkind_of t).

Lemma longest_float_finite s : forall n m k, longest_float n s = Some (m, k) -> kind_finite k.
Proof.
  induction n as [|n IH]; intros m k H; cbn [longest_float] in H; [discriminate|].
  cbv zeta in H. destruct (parse_finite (firstn (S n) s)) as [[[neg mant] ex]|] eqn:E.
  - apply parse_finite_some in E. destruct E as [_ Fin]. injection H as _ <-.
    intros nb Hk. injection Hk as <-. exact Fin.
  - apply IH in H. exact H.
Qed.

Theorem lex_number_finite u src n k : lex_number u src = Some (n, k) -> kind_finite k.
Proof.
  unfold lex_number. destruct src as [|c0 r]; [discriminate|].
  destruct (negb _); [discriminate|]. cbv zeta.
  destruct (rposition _ _); [|discriminate]. apply longest_float_finite.
Qed.

Lemma two64_below_bound : (two_pow_64 < f64_overflow_bound)%N.
Proof. vm_compute. reflexivity. Qed.

Theorem lex_hex_number_finite u src n k : lex_hex_number u src = Some (n, k) -> kind_finite k.
Proof.
  unfold lex_hex_number. destruct src as [|c0 [|c1 [|c2 r]]]; try discriminate.
  destruct (_ || _ || _); [discriminate|]. cbv zeta.
  destruct (negb _); [discriminate|].
  destruct (N.ltb_spec (hex_digits_val (firstn (count_while is_ascii_hexdigit (skipn 2 (c0 :: c1 :: c2 :: r))) (skipn 2 (c0 :: c1 :: c2 :: r)))) two_pow_64) as [L|L];
    [|discriminate].
  intros H. injection H as _ <-. intros nb Hk. injection Hk as <-. unfold number_finite. cbn [n_mant n_exp10].
  unfold f64_finite. destruct (_ =? 0)%N; [reflexivity|]. cbv beta iota. apply N.ltb_lt.
  eapply N.lt_trans; [exact L|exact two64_below_bound].
Qed.

(* every sub-lexer of lex_token: only lex_hex_number and lex_number make a Number *)
Theorem lex_token_finite u src n k : lex_token u src = Some (n, k) -> kind_finite k.
Proof.
  unfold lex_token.
  repeat match goal with
         | |- or_else ?a _ = Some _ -> _ =>
             let E := fresh "E" in destruct a as [[n' k']|] eqn:E; cbn [or_else];
             [intros H; assert (n' = n /\ k' = k) as [-> ->] by (split; congruence); clear H|]
         end.
  - intros tw Hk. unfold lex_regexish in E. destruct src as [|c r]; [discriminate|]. destruct (ceq c 91); [|discriminate].
    destruct (regex_loop u r 1); [|discriminate]. congruence.
  - intros tw Hk. unfold lex_punctuation, lex_quote in E0. destruct src as [|c r]; [discriminate|].
    destruct (mem_n c quote_chars); [congruence|].
    destruct (punct_from_char c) as [p|] eqn:P; [|discriminate]. congruence.
  - intros tw Hk. unfold lex_tabs in E1. cbv zeta in E1. destruct (_ =? 0); congruence.
  - intros tw Hk. unfold lex_spaces in E2. cbv zeta in E2. destruct (_ =? 0); congruence.
  - intros tw Hk. unfold lex_newlines in E3. cbv zeta in E3. destruct (_ =? 0); congruence.
  - intros tw Hk. unfold lex_plural_digit in E4.
    destruct src as [|c0 r1]; [discriminate|]. destruct (negb _); [discriminate|].
    destruct r1 as [|c t]; [discriminate|]. cbv zeta in E4.
    destruct (ceq c 39).
    + destruct t as [|c' t']; [discriminate|]. destruct (ceq c' 115); [|discriminate].
      destruct t' as [|d t'']; [congruence|]. destruct (negb _); congruence.
    + destruct (ceq c 115); [|discriminate].
      destruct t as [|d t'']; [congruence|]. destruct (negb _); congruence.
  - exact (lex_hex_number_finite u src n k E5).
  - intros tw Hk. unfold lex_long_decade in E6.
    destruct src as [|c0 [|c1 [|c2 [|c3 [|c4 rest]]]]]; try discriminate.
    repeat match type of E6 with (if ?b then None else _) = _ => destruct b; [discriminate|] end.
    destruct rest as [|c5 r]; [congruence|]. destruct (u_alphanumeric u c5); congruence.
  - exact (lex_number_finite u src n k E7).
  - intros tw Hk. unfold lex_url in E8. destruct (position (ceq 58) src); [|discriminate].
    destruct (negb _); [discriminate|]. destruct (lex_ip_schemepart u _); congruence.
  - intros tw Hk. unfold lex_email_address in E9. cbv zeta in E9.
    destruct (rposition _ _); [|discriminate]. destruct (negb _); [discriminate|].
    destruct (lex_hostname _); [|discriminate]. destruct (_ =? 0); congruence.
  - intros tw Hk. unfold lex_hostname_token in E10. destruct (lex_hostname src); [|discriminate].
    destruct (_ <=? 1); [discriminate|]. destruct (negb _); [discriminate|].
    destruct (nth_error _ _); [destruct (ceq _ 46); [discriminate|]|]; congruence.
  - intros tw Hk. unfold lex_word in E11. cbv zeta in E11. destruct (_ =? 0); congruence.
  - unfold lex_catch. intros H tw Hk. congruence.
Qed.

(* PlainEnglish::parse: every token of the result *)
Lemma plain_loop_finite u : forall fuel cursor rest ts, plain_loop u fuel cursor rest = Ok ts -> Forall token_finite ts.
Proof.
  induction fuel as [|f IH]; intros cursor rest ts H.
  - destruct rest; cbn in H; [|discriminate]. injection H as <-. constructor.
  - destruct rest as [|c r]; [cbn in H; injection H as <-; constructor|].
    cbn [plain_loop] in H. destruct (lex_token u (c :: r)) as [[n k]|] eqn:E; [|discriminate].
    destruct (span_new cursor (cursor + n)) as [sp|] eqn:Es; [|discriminate]. cbn [bind] in H.
    destruct (plain_loop u f (cursor + n) (skipn n (c :: r))) as [tl|] eqn:Etl; [|discriminate]. cbn [bind] in H.
    injection H as <-. constructor; [|exact (IH _ _ _ Etl)].
    unfold token_finite. cbn [tkind_of]. exact (lex_token_finite u _ n k E).
Qed.

Theorem plain_parse_finite u s ts : plain_parse u s = Ok ts -> Forall token_finite ts.
Proof. unfold plain_parse. apply plain_loop_finite. Qed.

(* the Number values of a token list; a lint's context is a sub-list of the document's tokens *)
Definition token_numbers (t : token) : list number := match tkind_of t with KNumber nb => [nb] | _ => [] end.
Lemma token_numbers_finite ts : Forall token_finite ts -> Forall number_finite (flat_map token_numbers ts).
Proof.
  induction 1 as [|t ts H _ IH]; [constructor|]. cbn [flat_map]. apply Forall_app. split; [|exact IH].
  unfold token_numbers, token_finite in *. destruct (tkind_of t); try constructor. { apply H. reflexivity. } constructor.
Qed.

(* non-vacuity and the history of F16: `1e308` is one finite Number; `1e999` is NOT accepted whole (the finite
   prefix `1e99` is) ; 0xFFFFFFFFFFFFFFFF is finite, one more hex digit is no Number *)
Definition ascii_digits_uni : uni := mkuni (fun _ => false) is_ascii_digit (fun _ => false) (fun _ => false).
Example lexer_finite_examples :
  lex_number ascii_digits_uni [49; 101; 51; 48; 56]%N = Some (5, KNumber (mknumber false 1 308%Z None 10 0)) /\
  lex_number ascii_digits_uni [49; 101; 57; 57; 57]%N = Some (4, KNumber (mknumber false 1 99%Z None 10 0)) /\
  f64_finite 1 999 = false /\
  lex_hex_number ascii_digits_uni [48; 120; 70; 70; 70; 70; 70; 70; 70; 70; 70; 70; 70; 70; 70; 70; 70; 70]%N
    = Some (18, KNumber (mknumber false 18446744073709551615 0%Z None 16 0)) /\
  lex_hex_number ascii_digits_uni [48; 120; 70; 70; 70; 70; 70; 70; 70; 70; 70; 70; 70; 70; 70; 70; 70; 70; 70]%N = None.
Proof. vm_compute. repeat split; reflexivity. Qed.
