(* C06SentenceContrDotProofs.v — phase 7, step 1: sentences with contractions AND a final period (Model/C06SentenceContrDot.v).
     lexes_expand_dot    PlainEnglish::parse: one token per part (contraction = Word Apostrophe Word), then a Period token
                         (lex_plural_digit / lex_word / dispatch in front of an apostrophe inside a text that ends with `.`)
     front_id4           condense_spaces / newlines / breaks / number suffixes: identity on kinds Word, Space, separator, apostrophe, period
     found_snoc / regroup_tail + C06CondFun.condense_pattern_fun: condense_contractions merges every Word ' Word, the Period stays
     passes 6-9          from C06SentenceDotProofs.passes_identity_dot on the MERGED vector (its first five passes are the identity
                         there: front_id4, contr_id2)
     sentcp_document     document_plain u (sentcp_text cs) = Ok (sentcp_tokens cs)
   and C06 on such sentences with NO premise about tokens. *)
Require Import Base Overlap Tables_lexer Lexer Condense ListLemmas TokenInv CondenseInv LexerProofs
  CondPatterns3 CondPattern CondSpaces CondInitialisms CondSuffixQuotes.
Require Import Tables_spellnorm SpellDecision SpellDecisionProofs C06Words C06WordsProofs C06AlnumProofs C06TextProofs
  C06Sentence C06SentenceProofs C06CondFun C06SentenceDot C06SentenceDotProofs C06SentenceContr C06SentenceContrProofs
  C06SentenceContrDot.
From Coq Require Import Lia.

Definition dot_it : sitem := SPunct 46%N.

Lemma sent_text_dot its : sent_text (its ++ [dot_it]) = sent_text its ++ [46%N].
Proof. rewrite sent_text_app. reflexivity. Qed.

Lemma sent_tokens_dot its : sent_tokens 0 (its ++ [dot_it]) = sent_tokens 0 its ++ [period_tok (length (sent_text its))].
Proof. rewrite sent_tokens_app. reflexivity. Qed.

Lemma app_tail4 (a' : text) q b rest0 d : (a' ++ q :: b ++ rest0) ++ [d] = a' ++ q :: b ++ rest0 ++ [d].
Proof. rewrite <- app_assoc. cbn [app]. rewrite <- app_assoc. reflexivity. Qed.

(* ================= the lexer ================= *)
Section ContrDotLexer.
  Variable u : uni.
  Hypothesis laws : letter_laws u.
  Hypothesis dlaw : digit_law u.

  (* plural_digit_apos of phase 6 does not look at what follows the contraction *)
  Lemma plural_digit_apos_any a q b rest : word_body u a = true -> is_apostrophe_char q = true -> word_body u b = true ->
    glued a q b = false ->
    lex_plural_digit u (a ++ q :: b ++ rest) = None \/ lex_plural_digit u (a ++ q :: b ++ rest) = Some (length a, KWord).
  Proof.
    intros Ha Hq Hb Hg. destruct (body_inv u a Ha) as (c0 & a' & -> & H0 & Ha'). cbn [app]. unfold lex_plural_digit.
    destruct (negb (is_ascii_alphanumeric c0)); [left; reflexivity|].
    destruct a' as [|c1 a''].
    - cbn [app]. destruct (body_inv u b Hb) as (d0 & b' & -> & Hd0 & Hb'). cbn [app].
      destruct (ceq q 39) eqn:E39.
      + destruct (ceq d0 115) eqn:E115; [|left; reflexivity].
        destruct b' as [|d1 b''].
        * exfalso. unfold glued in Hg. cbn [length Nat.eqb] in Hg. rewrite E39, E115 in Hg. discriminate.
        * cbn [app forallb] in *. apply andb_true_iff in Hb' as [Hd1 _]. rewrite (wordc_alnum u laws dlaw d1 Hd1).
          left; reflexivity.
      + destruct (apos_cases q Hq) as [->| ->]; [vm_compute in E39; discriminate|]. left; reflexivity.
    - cbn [app forallb] in *. apply andb_true_iff in Ha' as [H1 Ha''].
      rewrite (wordc_not_39 u laws c1 H1).
      destruct (ceq c1 115); [|left; reflexivity].
      destruct a'' as [|d a3].
      + cbn [app]. destruct (negb (u_alphanumeric u q)); [right; reflexivity|left; reflexivity].
      + cbn [app forallb] in *. apply andb_true_iff in Ha'' as [Hd _]. rewrite (wordc_alnum u laws dlaw d Hd).
        left; reflexivity.
  Qed.

  Lemma lex_token_word_apos_dot a q b rest0 : word_body u a = true -> is_apostrophe_char q = true -> word_body u b = true ->
    glued a q b = false -> forallb safe (a ++ q :: b ++ rest0) = true ->
    lex_token u (a ++ q :: b ++ rest0 ++ [46%N]) = Some (length a, KWord).
  Proof.
    intros Ha Hq Hb Hg Hs.
    assert (D : lex_token u (a ++ q :: b ++ rest0 ++ [46%N]) =
                or_else (lex_plural_digit u (a ++ q :: b ++ rest0 ++ [46%N]))
                        (or_else (lex_word u (a ++ q :: b ++ rest0 ++ [46%N])) (lex_catch (a ++ q :: b ++ rest0 ++ [46%N])))).
    { destruct (body_inv u a Ha) as (c0 & a' & E & H0 & _). rewrite E in *. cbn [app] in *.
      pose proof (dispatch_dot u laws c0 (a' ++ q :: b ++ rest0) H0 Hs) as X. rewrite !app_tail4 in X. exact X. }
    rewrite D, (lex_word_apos u laws a q _ Ha Hq).
    destruct (plural_digit_apos_any a q b (rest0 ++ [46%N]) Ha Hq Hb Hg) as [E|E]; rewrite E; reflexivity.
  Qed.

  Lemma after_cs_dot n r : sentc_ok u (CS n :: r) = true ->
    match sent_text (expand r) ++ [46%N] with [] => True | c :: _ => c <> 32%N end.
  Proof.
    intros H. pose proof (after_cs u laws n r H) as A. destruct (sent_text (expand r)) as [|c t]; cbn [app]; [discriminate|exact A].
  Qed.

  Lemma lexes_expand_dot : forall cs, sentc_ok u cs = true -> lexes u (expand cs ++ [dot_it]).
  Proof.
    induction cs as [|c r IH]; intros H.
    - change (expand [] ++ [dot_it]) with [dot_it]. cbn [lexes]. split; [discriminate|]. split; [|exact I].
      exact (lex_token_dot u).
    - pose proof (sentc_safe u laws _ H) as Hs. rewrite expand_cons, sent_text_app in Hs.
      pose proof H as H'. cbn [sentc_ok] in H'. apply andb_true_iff in H' as [H' Hr]. apply andb_true_iff in H' as [Hi _].
      specialize (IH Hr).
      pose proof (sent_text_dot (expand r)) as Et.
      destruct c as [w|w1 q w2|n|x]; cbn [citem_ok] in Hi.
      + change (expand (CW w :: r) ++ [dot_it]) with (SWord w :: (expand r ++ [dot_it])). cbn [lexes item_text item_kind].
        rewrite sword_body in Hi. split; [intros ->; discriminate Hi|]. split; [|exact IH].
        rewrite Et. cbn [expand1 sent_text flat_map item_text] in Hs. rewrite app_nil_r in Hs.
        apply (lex_token_word_dot u laws dlaw); [exact Hi|exact (after_wordlike u _ r H eq_refl)|exact Hs].
      + change (expand (CC w1 q w2 :: r) ++ [dot_it]) with (SWord w1 :: SPunct q :: SWord w2 :: (expand r ++ [dot_it])).
        apply andb_true_iff in Hi as [Hi Hg]. apply andb_true_iff in Hi as [Hi Hq]. apply andb_true_iff in Hi as [H1 H2].
        rewrite sword_body in H1, H2. apply negb_true_iff in Hg.
        pose proof (after_wordlike u _ r H eq_refl) as Aft.
        change (sent_text (expand1 (CC w1 q w2))) with (w1 ++ [q] ++ w2 ++ []) in Hs.
        rewrite app_nil_r in Hs. rewrite <- !app_assoc in Hs. cbn [app] in Hs.
        cbn [lexes item_text item_kind].
        change (sent_text (SPunct q :: SWord w2 :: (expand r ++ [dot_it]))) with (q :: w2 ++ sent_text (expand r ++ [dot_it])).
        change (sent_text (SWord w2 :: (expand r ++ [dot_it]))) with (w2 ++ sent_text (expand r ++ [dot_it])).
        rewrite Et.
        split; [intros ->; discriminate H1|]. split.
        { apply lex_token_word_apos_dot; assumption. }
        split; [discriminate|]. split.
        { cbn [app length]. fold (item_kind (SPunct q)). rewrite (apos_item_kind q Hq).
          apply (lex_token_apostrophe u q _ Hq). }
        split; [intros ->; discriminate H2|]. split; [|exact IH].
        apply (lex_token_word_dot u laws dlaw); [exact H2|exact Aft|].
        rewrite forallb_app in Hs. apply andb_true_iff in Hs as [_ Hs]. cbn [forallb] in Hs.
        apply andb_true_iff in Hs as [_ Hs]. exact Hs.
      + change (expand (CS n :: r) ++ [dot_it]) with (SSpace n :: (expand r ++ [dot_it])). cbn [lexes item_text item_kind].
        split; [destruct n; [discriminate|cbn [repeat]; discriminate]|]. split; [|exact IH].
        rewrite repeat_length, Et. apply lex_token_spaces; [apply Nat.ltb_lt; exact Hi|exact (after_cs_dot n r H)].
      + change (expand (CP x :: r) ++ [dot_it]) with (SPunct x :: (expand r ++ [dot_it])). cbn [lexes item_text].
        split; [discriminate|]. split; [|exact IH]. cbn [app length]. apply (lex_token_punct u x _ Hi).
  Qed.

  Lemma plain_parse_contr_dot cs : sentc_ok u cs = true ->
    plain_parse u (sentcp_text cs) = Ok (sent_tokens 0 (expand cs ++ [dot_it])).
  Proof.
    intros H. unfold plain_parse, sentcp_text. rewrite <- sent_text_dot.
    apply plain_lexes; [exact (lexes_expand_dot cs H)|lia].
  Qed.
End ContrDotLexer.

(* ================= passes 1-4 and 5 on kinds Word / Space / separator / apostrophe / period ================= *)
Definition simple4 (k : tkind) : bool := simple_kind k || is_apostrophe k || is_period k.

Lemma simple3_4 k : simple3 k = true -> simple4 k = true.
Proof. unfold simple3, simple4. intros ->. reflexivity. Qed.
Lemma simple2_4 k : simple2 k = true -> simple4 k = true.
Proof. unfold simple2, simple4. intros H. apply orb_prop in H as [H|H]; rewrite H; [reflexivity|apply orb_true_r]. Qed.

Lemma simple4_in ts pre g rest t : Forall (fun t => simple4 (tkind_of t) = true) ts -> ts = pre ++ g ++ rest -> In t g ->
  simple4 (tkind_of t) = true.
Proof.
  intros F -> Hin. rewrite Forall_forall in F. apply F. apply in_or_app. right. apply in_or_app. left. exact Hin.
Qed.

Lemma front_id4 src ts : Tiling 0 (length src) ts -> Forall (fun t => simple4 (tkind_of t) = true) ts -> no_adj_spaces ts ->
  condense_spaces ts = Ok ts /\ condense_newlines ts = Ok ts /\ newlines_to_breaks ts = ts /\
  condense_number_suffixes src ts = Ok ts.
Proof.
  intros T F2 NA.
  destruct (condense_spaces_grouped _ _ ts T) as (t1 & E1 & G1).
  assert (t1 = ts) as ->.
  { apply (grouped_id _ _ _ G1 []). cbn [app]. intros pre g rest k E Hne [S|(a & b & n1 & n2 & -> & Ka & Kb & _)]; [exact S|].
    exfalso. rewrite E in NA. cbn [app] in NA. apply (no_adj_at pre a b rest NA). rewrite Ka, Kb. split; reflexivity. }
  destruct (condense_newlines_grouped _ _ ts T) as (t2 & E2 & G2).
  assert (t2 = ts) as ->.
  { apply (grouped_id _ _ _ G2 []). cbn [app]. intros pre g rest k E Hne [S|(ns & L & M & _)]; [exact S|].
    exfalso. destruct g as [|t g']; [contradiction|]. destruct ns as [|n ns']; [discriminate|].
    cbn [map] in M. injection M as M _. pose proof (simple4_in ts pre (t :: g') rest t F2 E (or_introl eq_refl)) as K.
    rewrite M in K. discriminate. }
  destruct (condense_number_suffixes_grouped src ts T) as (t4 & E4 & G4).
  assert (t4 = ts) as ->.
  { apply (grouped_id _ _ _ G4 []). cbn [app]. intros pre g rest k E Hne [S|(a & b & nb & cs & sfx & -> & Ka & _)]; [exact S|].
    exfalso. pose proof (simple4_in ts pre [a; b] rest a F2 E (or_introl eq_refl)) as K. rewrite Ka in K. discriminate. }
  split; [exact E1|]. split; [exact E2|]. split; [|exact E4].
  unfold newlines_to_breaks. clear - F2. induction F2 as [|t r Ht _ IH]; [reflexivity|]. cbn [map]. rewrite IH. f_equal.
  unfold newline_to_break. destruct (tkind_of t) eqn:K; try reflexivity. discriminate.
Qed.

Lemma contr_id2 src ts : Tiling 0 (length src) ts -> Forall (fun t => simple2 (tkind_of t) = true) ts ->
  condense_contractions src ts = Ok ts.
Proof.
  intros T F2.
  destruct (contraction_ok src ts) as [Ok5 Mo5].
  destruct (condense_pattern_grouped_in (contraction_matches src) (fun k => k) _ _ ts T Ok5 Mo5) as (t5 & E5 & G5).
  assert (t5 = ts) as ->.
  { apply (grouped_id _ _ _ G5 []). cbn [app]. intros pre g rest k E Hne [S|(pre' & rest' & _ & M & _)]; [exact S|].
    exfalso. destruct (contraction_match_inv src g rest' Hne M) as (a & b & c & -> & _ & Ab & _).
    pose proof (simple2_in ts pre [a; b; c] rest b F2 E (or_intror (or_introl eq_refl))) as K.
    destruct (tkind_of b) as [|q| | | | | | | | | |]; try discriminate. destruct q; discriminate. }
  unfold condense_contractions. exact E5.
Qed.

(* ================= condense_contractions on  tokens ++ [Period] ================= *)
Lemma pat_snoc d a r : is_word_item d = false -> pat (a :: (r ++ [d])) = pat (a :: r).
Proof.
  intros Hd. destruct r as [|b [|c r']]; cbn [app pat]; rewrite ?Hd;
    destruct (is_word_item a); try destruct (is_apos_item b); try destruct (is_apos_item d); reflexivity.
Qed.

Lemma found_snoc d : is_word_item d = false -> forall its i, found (its ++ [d]) i = found its i.
Proof.
  intros Hd. induction its as [|a r IH]; intros i.
  - cbn [app found pat]. rewrite Hd. reflexivity.
  - change ((a :: r) ++ [d]) with (a :: (r ++ [d])). cbn [found]. rewrite (pat_snoc d a r Hd), IH. reflexivity.
Qed.

Lemma chain_mono n n' : n <= n' -> forall l lo, Chain n lo l -> Chain n' lo l.
Proof.
  intros Hn. induction l as [|s r IH]; intros lo C; [exact I|]. cbn [Chain] in *. destruct C as (A & B & C & D).
  split; [exact A|]. split; [exact B|]. split; [lia|]. apply IH. exact D.
Qed.

Lemma firstn_app_le {A} (l x : list A) k : k <= length l -> firstn k (l ++ x) = firstn k l.
Proof. intros Hk. rewrite firstn_app. replace (k - length l) with 0 by lia. cbn [firstn]. apply app_nil_r. Qed.
Lemma skipn_app_le {A} (l x : list A) k : k <= length l -> skipn k (l ++ x) = skipn k l ++ x.
Proof. intros Hk. rewrite skipn_app. replace (k - length l) with 0 by lia. reflexivity. Qed.

(* tokens behind the last match are left alone *)
Lemma regroup_tail e : forall kept lo ts x, Chain (lo + length ts) lo kept ->
  regroup e lo kept (ts ++ x) = regroup e lo kept ts ++ x.
Proof.
  induction kept as [|[st en] r IH]; intros lo ts x C; [reflexivity|].
  cbn [Chain sstart send] in C. destruct C as (A & B & C & D).
  cbn [regroup sstart send].
  rewrite (firstn_app_le ts x (st - lo)) by lia.
  rewrite (skipn_app_le ts x (st - lo)) by lia.
  rewrite (skipn_app_le ts x (en - lo)) by lia.
  rewrite (firstn_app_le (skipn (st - lo) ts) x (en - st)) by (rewrite skipn_length; lia).
  rewrite IH.
  - rewrite <- app_assoc. reflexivity.
  - rewrite skipn_length. replace (en + (length ts - (en - lo))) with (lo + length ts) by lia. exact D.
Qed.

(* the token before the period is no word condense_latin looks for (sentp_last_ok of phase 6 for any item list) *)
Lemma last_ok_hit its ts1 w : last_word_ok its = true -> sent_tokens 0 its = ts1 ++ [w] -> is_word (tkind_of w) = true ->
  latin_hit (sent_text its ++ [46%N]) w = false.
Proof.
  intros HLw E Ww.
  destruct (exists_last (l := its)) as (pre & it & ->).
  { intros ->. cbn [sent_tokens] in E. destruct ts1; discriminate. }
  rewrite sent_tokens_app in E. cbn [sent_tokens Nat.add] in E. apply app_inj_tail in E as [_ <-].
  destruct it as [ww|n|c]; cbn [tkind_of item_kind is_word] in Ww; [|discriminate|destruct (punct_from_char c); discriminate].
  pose proof (last_word_ok_snoc pre ww HLw) as Hn.
  apply (latin_word_hit _ ww); [| |exact Hn].
  - unfold word_text. cbn [tstart tend tspan sstart send item_text].
    rewrite sent_text_app. cbn [sent_text flat_map item_text]. rewrite app_nil_r, <- !app_assoc.
    apply word_text_mid.
  - cbn [tstart tend tspan sstart send item_text]. lia.
Qed.

(* ================= the sentence theorems ================= *)
Section SentenceContrDot.
  Variable u : uni.
  Hypothesis laws : letter_laws u.
  Hypothesis dlaw : digit_law u.

  Theorem sentcp_document cs : sentcp_ok u cs = true -> document_plain u (sentcp_text cs) = Ok (sentcp_tokens cs).
  Proof.
    intros H0. pose proof H0 as H'. unfold sentcp_ok in H'. apply andb_true_iff in H' as [H HLw].
    unfold document_plain. pose proof (plain_parse_contr_dot u laws dlaw cs H) as E.
    set (src := sentcp_text cs) in *. set (ts := sent_tokens 0 (expand cs ++ [dot_it])) in *.
    destruct (plain_tiling u src) as (ts' & E' & T). rewrite E in E'. injection E' as <-.
    rewrite E. cbn [bind].
    destruct (expand_kinds u cs H) as [K3 NAk].
    assert (F4 : Forall (fun t => simple4 (tkind_of t) = true) ts).
    { apply forall_kinds. unfold ts. rewrite sent_tokens_kinds, map_app. apply Forall_app. split.
      - eapply Forall_impl; [|exact K3]. intros k Hk. cbn beta in Hk. exact (simple3_4 k Hk).
      - constructor; [reflexivity|constructor]. }
    assert (NA : no_adj_spaces ts).
    { unfold ts. rewrite sent_tokens_dot. apply no_adj_snoc; [|reflexivity].
      apply no_adjk_spaces. rewrite sent_tokens_kinds. exact NAk. }
    destruct (front_id4 src ts T F4 NA) as (E1 & E2 & E3 & E4).
    unfold document_passes. rewrite E1. cbn [bind]. rewrite E2. cbn [bind]. rewrite E3, E4. cbn [bind].
    (* condense_contractions: every Word ' Word is merged, the Period stays *)
    assert (E5 : condense_contractions src ts = Ok (sentcp_tokens cs)).
    { unfold condense_contractions.
      rewrite (condense_pattern_fun (fun k => k) ts 0 (length src) T (contraction_matches src) (found (expand cs) 0)).
      - unfold ts, sentcp_tokens. rewrite sent_tokens_dot, regroup_tail.
        + rewrite (regroup_collapse u cs 0 0 H), collapse_text. reflexivity.
        + rewrite sent_tokens_length. exact (found_chain u cs 0 H).
      - unfold ts. rewrite fam_found. rewrite (found_snoc dot_it eq_refl). reflexivity.
      - unfold ts. rewrite sent_tokens_length, app_length. cbn [length].
        apply (chain_mono (0 + length (expand cs))); [lia|]. exact (found_chain u cs 0 H). }
    rewrite E5. cbn [bind].
    assert (T5 : Tiling 0 (length src) (sentcp_tokens cs)).
    { destruct (contraction_ok src ts) as [Ok5 Mo5].
      destruct (condense_pattern_grouped_in (contraction_matches src) (fun k => k) _ _ ts T Ok5 Mo5) as (t5 & E5' & G5).
      unfold condense_contractions in E5. rewrite E5 in E5'. injection E5' as <-.
      exact (grouped_tiling _ _ _ G5 _ _ T). }
    (* the remaining passes: passes_identity_dot on the merged vector, whose first five passes are the identity *)
    destruct (collapse_kinds u cs H) as [K1 NA1k].
    unfold sentcp_tokens in *.
    set (ts0 := sent_tokens 0 (collapse cs)) in *. set (p := period_tok (length (sent_text (collapse cs)))) in *.
    assert (F1 : simple_toks ts0).
    { unfold simple_toks. apply forall_kinds. unfold ts0. rewrite sent_tokens_kinds. exact K1. }
    assert (NA1 : no_adj_spaces ts0) by (apply no_adjk_spaces; unfold ts0; rewrite sent_tokens_kinds; exact NA1k).
    assert (HL : forall ts1 w, ts0 = ts1 ++ [w] -> is_word (tkind_of w) = true -> latin_hit src w = false).
    { intros ts1 w Ets Ww. unfold src, sentcp_text. rewrite <- collapse_text. exact (last_ok_hit (collapse cs) ts1 w HLw Ets Ww). }
    pose proof (passes_identity_dot src ts0 p T5 F1 NA1 eq_refl HL) as X.
    pose proof (simple2_all ts0 p F1 eq_refl) as F2.
    assert (F4' : Forall (fun t => simple4 (tkind_of t) = true) (ts0 ++ [p])).
    { eapply Forall_impl; [|exact F2]. intros t Ht. cbn beta in Ht. exact (simple2_4 _ Ht). }
    pose proof (no_adj_snoc ts0 p NA1 eq_refl) as NA5.
    destruct (front_id4 src _ T5 F4' NA5) as (E1' & E2' & E3' & E4').
    pose proof (contr_id2 src _ T5 F2) as E5'.
    unfold document_passes in X. rewrite E1' in X. cbn [bind] in X. rewrite E2' in X. cbn [bind] in X.
    rewrite E3', E4' in X. cbn [bind] in X. rewrite E5' in X. cbn [bind] in X. exact X.
  Qed.

  Theorem sentcp_doc_words cs : sentcp_ok u cs = true -> doc_words u (sentcp_text cs) = Ok (sent_words 0 (collapse cs)).
  Proof.
    intros H. unfold doc_words. rewrite (sentcp_document cs H). cbn [bind]. unfold sentcp_tokens.
    rewrite word_spans_app, sent_word_spans. cbn. rewrite app_nil_r. reflexivity.
  Qed.
End SentenceContrDot.

(* ================= C06 on a sentence with contractions and a final period: no premise about tokens ================= *)
Section SentenceContrDotLint.
  Variable u : uni.
  Variable lc uc : char -> list char.
  Variable is_lower is_upper : char -> bool.
  Variable fuzzy : dict -> text -> nat -> list text.
  Hypothesis laws : letter_laws u.
  Hypothesis dlaw : digit_law u.

  Lemma word_item_token_cd cs pre w post : sentcp_ok u cs = true -> collapse cs = pre ++ SWord w :: post ->
    doc_words u (sentcp_text cs) = Ok (sent_words 0 (collapse cs)) /\
    In (word_at pre w) (sent_words 0 (collapse cs)) /\
    get_content (word_at pre w) (sentcp_text cs) = Ok w.
  Proof.
    intros H E. split; [exact (sentcp_doc_words u laws dlaw cs H)|].
    unfold sentcp_ok in H. apply andb_true_iff in H as [H _].
    unfold sentcp_text. rewrite <- (collapse_text cs), E.
    split; [exact (sent_words_in pre w post 0)|].
    rewrite sent_text_mid, <- !app_assoc. apply get_content_mid. exact (collapse_word_nonempty u cs pre w post H E).
  Qed.

  Theorem sentcp_unlisted_reported (H_uc : forall c, uc c <> []) (HF : fuzzy_listed fuzzy) D d cs pre w post :
    dict_nodup lc is_lower D -> sentcp_ok u cs = true -> collapse cs = pre ++ SWord w :: post ->
    (forall e, In e D -> word_id lc is_lower (canon e) <> word_id lc is_lower w) ->
    exists ls sg, lint_text u lc uc is_lower is_upper fuzzy D d (sentcp_text cs) = Ok ls /\
                  In (mkslint (word_at pre w) sg) ls.
  Proof.
    intros ND H E Hun. destruct (word_item_token_cd cs pre w post H E) as (Ew & Hin & G).
    exact (text_unlisted_reported u lc uc is_lower is_upper fuzzy H_uc HF D d _ _ _ w ND Ew Hin G Hun).
  Qed.

  Theorem sentcp_listed_accepted (HL : lower_fix lc is_lower) D d e cs pre w post ls :
    dict_nodup lc is_lower D -> In e D -> dialect_ok (edialect e) d = true ->
    sentcp_ok u cs = true -> collapse cs = pre ++ SWord w :: post -> listed_form lc uc is_lower e w ->
    lint_text u lc uc is_lower is_upper fuzzy D d (sentcp_text cs) = Ok ls ->
    forall l, In l ls -> sl_span l <> word_at pre w.
  Proof.
    intros ND Hin Hd H E Hw L. destruct (word_item_token_cd cs pre w post H E) as (Ew & Hsp & G).
    exact (text_listed_accepted u lc uc is_lower is_upper fuzzy HL D d e _ _ _ w ls ND Hin Hd Ew Hsp G Hw L).
  Qed.

  Theorem sentcp_lints_on_words (HF : fuzzy_listed fuzzy) D d cs ls l :
    dict_nodup lc is_lower D -> sentcp_ok u cs = true ->
    lint_text u lc uc is_lower is_upper fuzzy D d (sentcp_text cs) = Ok ls -> In l ls ->
    exists pre w post, collapse cs = pre ++ SWord w :: post /\ sl_span l = word_at pre w.
  Proof.
    intros ND H L Hl.
    destruct (text_suggestions_in_dictionary u lc uc is_lower is_upper fuzzy HF D d _ ls l ND L Hl) as ((words & Ew & Hin) & _).
    rewrite (sentcp_doc_words u laws dlaw cs H) in Ew. injection Ew as <-.
    destruct (sent_words_from (collapse cs) 0 _ Hin) as (pre & w & post & E & Es). exists pre, w, post. split; [exact E|exact Es].
  Qed.
End SentenceContrDotLint.
