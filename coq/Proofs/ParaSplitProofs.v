(* ParaSplitProofs.v — lemmas about Model/ParaSplit.v (property C12). *)
Require Import Base Overlap ParaSplit ListLemmas.
From Coq Require Import Sorting.Permutation.

(* ================================================================================================ *)
(* 1. small list facts                                                                              *)
(* ================================================================================================ *)
Lemma flat_map_map {A B C} (f : B -> list C) (g : A -> B) (l : list A) :
  flat_map f (map g l) = flat_map (fun x => f (g x)) l.
Proof. induction l as [|x l IH]; cbn; [reflexivity|now rewrite IH]. Qed.

Lemma map_flat_map {A B C} (h : B -> C) (f : A -> list B) (l : list A) :
  map h (flat_map f l) = flat_map (fun x => map h (f x)) l.
Proof. induction l as [|x l IH]; cbn; [reflexivity|now rewrite map_app, IH]. Qed.

Lemma flat_map_ext_in {A B} (f g : A -> list B) (l : list A) :
  (forall x, In x l -> f x = g x) -> flat_map f l = flat_map g l.
Proof.
  induction l as [|x l IH]; intros H; cbn; [reflexivity|].
  rewrite (H x (or_introl eq_refl)), IH; [reflexivity|]. intros y Hy. apply H. now right.
Qed.

Lemma flat_map_app_perm {A B} (f g : A -> list B) (l : list A) :
  Permutation (flat_map (fun x => f x ++ g x) l) (flat_map f l ++ flat_map g l).
Proof.
  induction l as [|x l IH]; cbn; [constructor|].
  rewrite IH. rewrite <- !app_assoc. apply Permutation_app_head. apply Permutation_app_swap_app.
Qed.

Lemma last_opt_map {A B} (g : A -> B) (l : list A) :
  last_opt (map g l) = option_map g (last_opt l).
Proof.
  induction l as [|x l IH]; [reflexivity|].
  destruct l as [|y l]; [reflexivity|]. cbn [map last_opt] in *. exact IH.
Qed.

Lemma last_opt_cons {A} (x y : A) (l : list A) : last_opt (x :: y :: l) = last_opt (y :: l).
Proof. reflexivity. Qed.

Lemma last_opt_nonempty {A} (x : A) (l : list A) : exists y, last_opt (x :: l) = Some y.
Proof.
  revert x. induction l as [|y l IH]; intros x; [now exists x|].
  rewrite last_opt_cons. apply IH.
Qed.

Lemma windows2_map {A B} (g : A -> B) (l : list A) :
  windows2 (map g l) = map (fun ab => (g (fst ab), g (snd ab))) (windows2 l).
Proof.
  destruct l as [|x l]; [reflexivity|]. unfold windows2. cbn [map].
  revert x. induction l as [|y l IH]; intros x; [reflexivity|].
  cbn [map combine]. f_equal. apply IH.
Qed.

Lemma map_res_ok {A B} (f : A -> res B) (g : A -> B) (l : list A) :
  Forall (fun x => f x = Ok (g x)) l -> map_res f l = Ok (map g l).
Proof.
  induction 1 as [|x l Hx _ IH]; [reflexivity|]. cbn [map_res map]. rewrite Hx, IH. reflexivity.
Qed.

Lemma slice_cons_SS {A} (t : A) (r : list A) a b : slice (t :: r) (S a) (S b) = slice r a b.
Proof. reflexivity. Qed.

Lemma slice_cons_0S {A} (t : A) (r : list A) b : slice (t :: r) 0 (S b) = t :: slice r 0 b.
Proof. unfold slice. cbn [skipn]. rewrite !Nat.sub_0_r. reflexivity. Qed.

Lemma slice_chk_ok {A} (l : list A) a b : a <= b -> b <= length l -> slice_chk l a b = Ok (slice l a b).
Proof.
  intros H1 H2. unfold slice_chk.
  destruct (b <? a) eqn:E1; [apply Nat.ltb_lt in E1; lia|].
  destruct (length l <? b) eqn:E2; [apply Nat.ltb_lt in E2; lia|]. reflexivity.
Qed.

Lemma slice_to_end {A} (l : list A) a : slice l a (length l) = skipn a l.
Proof. unfold slice. apply firstn_all2. rewrite skipn_length. lia. Qed.

(* ================================================================================================ *)
(* 2. the iterators: index arithmetic = cutting after every terminator                              *)
(* ================================================================================================ *)
Lemma term_indices_S p i ts : term_indices p (S i) ts = map S (term_indices p i ts).
Proof.
  revert i. induction ts as [|t r IH]; intros i; [reflexivity|].
  cbn [term_indices]. destruct (p (tkind t)); cbn [map]; now rewrite IH.
Qed.

Lemma term_indices_bounds p i ts :
  Forall (fun j => i <= j < i + length ts) (term_indices p i ts).
Proof.
  revert i. induction ts as [|t r IH]; intros i; [constructor|].
  cbn [term_indices length].
  assert (H : Forall (fun j => i <= j < i + S (length r)) (term_indices p (S i) r)).
  { eapply Forall_impl; [|apply IH]. cbn. intros j Hj. lia. }
  destruct (p (tkind t)); [constructor; [lia|exact H]|exact H].
Qed.

Lemma windows2_term_indices p i ts :
  Forall (fun ab => i <= fst ab /\ fst ab < snd ab /\ snd ab < i + length ts)
         (windows2 (term_indices p i ts)).
Proof.
  revert i. induction ts as [|t r IH]; intros i; [constructor|].
  cbn [term_indices length].
  assert (H : Forall (fun ab => i <= fst ab /\ fst ab < snd ab /\ snd ab < i + S (length r))
                     (windows2 (term_indices p (S i) r))).
  { eapply Forall_impl; [|apply IH]. cbn. intros ab Hab. lia. }
  destruct (p (tkind t)); [|exact H].
  pose proof (term_indices_bounds p (S i) r) as Hb.
  destruct (term_indices p (S i) r) as [|f idx] eqn:E; [constructor|].
  change (windows2 (i :: f :: idx)) with ((i, f) :: windows2 (f :: idx)).
  constructor; [|exact H]. inversion Hb; subst. cbn. lia.
Qed.

(* the assembly of first / rest / last from an index list *)
Definition asm (ts : list tok) (idx : list nat) : list (list tok) :=
  (match idx with [] => [] | f :: _ => [slice ts 0 (S f)] end)
  ++ map (fun ab => slice ts (S (fst ab)) (S (snd ab))) (windows2 idx)
  ++ (match last_opt idx with
      | Some l => if S l <? length ts then [skipn (S l) ts] else []
      | None => [ts]
      end).

Lemma iter_by_asm p ts : iter_by p ts = asm ts (term_indices p 0 ts).
Proof. reflexivity. Qed.

Definition cons_first (t : tok) (cs : list (list tok)) : list (list tok) :=
  match cs with [] => [[t]] | c :: cs' => (t :: c) :: cs' end.

Lemma asm_shift t r idx : asm (t :: r) (map S idx) = cons_first t (asm r idx).
Proof.
  unfold asm. rewrite windows2_map, map_map, last_opt_map.
  destruct idx as [|f idx]; [reflexivity|].
  cbn [map]. rewrite slice_cons_0S. cbn [app cons_first]. f_equal.
  f_equal.
  destruct (last_opt_nonempty f idx) as [l ->]. cbn [option_map length skipn]. reflexivity.
Qed.

Lemma asm_zero t r idx :
  (r = [] -> idx = []) ->
  asm (t :: r) (0 :: map S idx) = [t] :: (match r with [] => [] | _ => asm r idx end).
Proof.
  intros Hr. unfold asm.
  destruct idx as [|f idx].
  - cbn [map windows2 combine last_opt app length]. destruct r as [|x r']; reflexivity.
  - destruct r as [|x r']; [specialize (Hr eq_refl); discriminate|].
    change (windows2 (0 :: map S (f :: idx))) with ((0, S f) :: windows2 (map S (f :: idx))).
    rewrite windows2_map. cbn [map fst snd]. rewrite map_map.
    change (last_opt (0 :: S f :: map S idx)) with (last_opt (map S (f :: idx))).
    rewrite last_opt_map.
    cbn [app]. f_equal. f_equal.
    destruct (last_opt_nonempty f idx) as [l ->]. cbn [option_map]. reflexivity.
Qed.

Lemma iter_by_cons_term p t r :
  p (tkind t) = true ->
  iter_by p (t :: r) = [t] :: (match r with [] => [] | _ => iter_by p r end).
Proof.
  intros H. rewrite !iter_by_asm. cbn [term_indices]. rewrite H, term_indices_S.
  destruct r as [|x r'].
  - reflexivity.
  - rewrite asm_zero; [reflexivity|discriminate].
Qed.

Lemma iter_by_cons_nonterm p t r :
  p (tkind t) = false -> iter_by p (t :: r) = cons_first t (iter_by p r).
Proof.
  intros H. rewrite !iter_by_asm. cbn [term_indices]. rewrite H, term_indices_S. apply asm_shift.
Qed.

Lemma split_after_nonempty p t r : split_after p (t :: r) <> [].
Proof. cbn [split_after]. destruct (p (tkind t)); [discriminate|]. destruct (split_after p r); discriminate. Qed.

(* the index arithmetic of token_string_ext.rs computes "cut after every terminator"; the empty token list
   yields ONE empty slice (`None => Some(self)`), everything else yields non-empty slices *)
Lemma iter_by_spec p ts :
  iter_by p ts = match ts with [] => [[]] | _ => split_after p ts end.
Proof.
  induction ts as [|t r IH]; [reflexivity|].
  destruct (p (tkind t)) eqn:E.
  - rewrite iter_by_cons_term by exact E. cbn [split_after]. rewrite E.
    destruct r as [|x r']; [reflexivity|]. now rewrite IH.
  - rewrite iter_by_cons_nonterm by exact E. cbn [split_after]. rewrite E, IH.
    destruct r as [|x r']; [reflexivity|].
    destruct (split_after p (x :: r')) eqn:E2; [exfalso; eapply split_after_nonempty, E2|reflexivity].
Qed.

(* the checked slices never panic *)
Lemma iter_by_chk_ok p ts : iter_by_chk p ts = Ok (iter_by p ts).
Proof.
  unfold iter_by_chk, iter_by.
  pose proof (term_indices_bounds p 0 ts) as Hb.
  pose proof (windows2_term_indices p 0 ts) as Hw.
  set (idx := term_indices p 0 ts) in *.
  assert (H1 : (match idx with [] => Ok [] | f :: _ => do s <- slice_chk ts 0 (S f); Ok [s] end)
               = Ok (match idx with [] => [] | f :: _ => [slice ts 0 (S f)] end)).
  { destruct idx as [|f idx']; [reflexivity|]. inversion Hb; subst.
    rewrite slice_chk_ok by lia. reflexivity. }
  rewrite H1. cbn [bind].
  rewrite (map_res_ok _ (fun ab => slice ts (S (fst ab)) (S (snd ab)))).
  2:{ eapply Forall_impl; [|exact Hw]. intros ab Hab. cbv beta in Hab |- *. apply slice_chk_ok; lia. }
  cbn [bind].
  assert (H3 : (match last_opt idx with
                | Some l => if S l <? length ts then (do s <- slice_chk ts (S l) (length ts); Ok [s]) else Ok []
                | None => Ok [ts] end)
               = Ok (match last_opt idx with
                     | Some l => if S l <? length ts then [skipn (S l) ts] else []
                     | None => [ts] end)).
  { destruct (last_opt idx) as [l|]; [|reflexivity].
    destruct (S l <? length ts) eqn:E; [|reflexivity]. apply Nat.ltb_lt in E.
    rewrite slice_chk_ok by lia. rewrite slice_to_end. reflexivity. }
  rewrite H3. reflexivity.
Qed.

Lemma concat_split_after p ts : concat (split_after p ts) = ts.
Proof.
  induction ts as [|t r IH]; [reflexivity|]. cbn [split_after].
  destruct (p (tkind t)); [cbn; now rewrite IH|].
  destruct (split_after p r) as [|c cs]; cbn in *; now rewrite <- IH.
Qed.

Lemma concat_iter_by p ts : concat (iter_by p ts) = ts.
Proof. rewrite iter_by_spec. destruct ts; [reflexivity|apply concat_split_after]. Qed.

(* ---------- the split ---------- *)
(* "A ends in a token satisfying p": the exact side condition of each iterator's split *)
Definition ends_in (p : kind -> bool) (A : list tok) : Prop :=
  exists A0 b, A = A0 ++ [b] /\ p (tkind b) = true.
Definition ends_in_break (A : list tok) : Prop := ends_in is_paragraph_break A.

Lemma split_after_app p A B :
  ends_in p A -> split_after p (A ++ B) = split_after p A ++ split_after p B.
Proof.
  intros (A0 & b & -> & Hb). induction A0 as [|a A0 IH].
  - cbn [app split_after]. rewrite Hb. reflexivity.
  - cbn [app split_after]. destruct (p (tkind a)).
    + cbn [app]. f_equal. exact IH.
    + rewrite IH. destruct (split_after p (A0 ++ [b])) eqn:E.
      * exfalso. destruct A0; cbn [app] in E; eapply split_after_nonempty, E.
      * reflexivity.
Qed.

Lemma ends_in_nonempty p A : ends_in p A -> A <> [].
Proof. intros (A0 & b & -> & _). destruct A0; discriminate. Qed.

Lemma iter_by_app p A B :
  ends_in p A -> B <> [] -> iter_by p (A ++ B) = iter_by p A ++ iter_by p B.
Proof.
  intros HA HB. rewrite !iter_by_spec.
  pose proof (ends_in_nonempty _ _ HA) as HA'.
  destruct A as [|a A']; [contradiction|]. destruct B as [|b B']; [contradiction|].
  cbn [app]. change (a :: A' ++ b :: B') with ((a :: A') ++ b :: B'). now apply split_after_app.
Qed.

Lemma split_after_map p (f : tok -> tok) ts :
  (forall t, p (tkind (f t)) = p (tkind t)) ->
  split_after p (map f ts) = map (map f) (split_after p ts).
Proof.
  intros Hf. induction ts as [|t r IH]; [reflexivity|].
  cbn [map split_after]. rewrite Hf, IH. destruct (p (tkind t)); [reflexivity|].
  destruct (split_after p r); reflexivity.
Qed.

Lemma iter_by_map p (f : tok -> tok) ts :
  (forall t, p (tkind (f t)) = p (tkind t)) ->
  iter_by p (map f ts) = map (map f) (iter_by p ts).
Proof.
  intros Hf. rewrite !iter_by_spec. destruct ts as [|t r]; [reflexivity|].
  cbn [map]. change (f t :: map f r) with (map f (t :: r)). now apply split_after_map.
Qed.

Lemma shift_keeps_sentence n k t :
  is_sentence_terminator (tkind (shift_tok n k t)) = is_sentence_terminator (tkind t).
Proof. destruct t as [sp [| | | | | | | | | |[j|]| |]]; reflexivity. Qed.
Lemma shift_keeps_chunk n k t :
  is_chunk_terminator (tkind (shift_tok n k t)) = is_chunk_terminator (tkind t).
Proof. destruct t as [sp [| | | | | | | | | |[j|]| |]]; reflexivity. Qed.
Lemma shift_keeps_break n k t :
  is_paragraph_break (tkind (shift_tok n k t)) = is_paragraph_break (tkind t).
Proof. destruct t as [sp [| | | | | | | | | |[j|]| |]]; reflexivity. Qed.

Lemma break_is_sentence_term k : is_paragraph_break k = true -> is_sentence_terminator k = true.
Proof. destruct k; try discriminate; reflexivity. Qed.
Lemma sentence_is_chunk_term k : is_sentence_terminator k = true -> is_chunk_terminator k = true.
Proof. unfold is_chunk_terminator. now intros ->. Qed.

Lemma ends_in_weaken (p q : kind -> bool) A :
  (forall k, p k = true -> q k = true) -> ends_in p A -> ends_in q A.
Proof. intros H (A0 & b & E & Hb). exists A0, b. auto. Qed.

(* C12_iter_split, general form: any predicate that the shift leaves alone *)
Lemma iter_by_split p A B n k :
  (forall t, p (tkind (shift_tok n k t)) = p (tkind t)) ->
  ends_in p A -> B <> [] ->
  iter_by p (A ++ map (shift_tok n k) B) = iter_by p A ++ map (map (shift_tok n k)) (iter_by p B).
Proof.
  intros Hp HA HB. rewrite iter_by_app; [|exact HA|destruct B; [contradiction|discriminate]].
  now rewrite iter_by_map.
Qed.

Lemma iter_split A B n k :
  ends_in_break A -> B <> [] ->
  iter_chunks (A ++ map (shift_tok n k) B) = iter_chunks A ++ map (map (shift_tok n k)) (iter_chunks B) /\
  iter_sentences (A ++ map (shift_tok n k) B) = iter_sentences A ++ map (map (shift_tok n k)) (iter_sentences B) /\
  iter_paragraphs (A ++ map (shift_tok n k) B) = iter_paragraphs A ++ map (map (shift_tok n k)) (iter_paragraphs B).
Proof.
  intros HA HB. repeat split.
  - apply iter_by_split; [apply shift_keeps_chunk| |exact HB].
    eapply ends_in_weaken; [|exact HA]. intros kd H. now apply sentence_is_chunk_term, break_is_sentence_term.
  - apply iter_by_split; [apply shift_keeps_sentence| |exact HB].
    eapply ends_in_weaken; [|exact HA]. apply break_is_sentence_term.
  - apply iter_by_split; [apply shift_keeps_break|exact HA|exact HB].
Qed.

(* ================================================================================================ *)
(* 3. the hull and the chunk-relative view                                                          *)
(* ================================================================================================ *)
Lemma fold_min_le_max xs x : fold_left Nat.min xs x <= fold_left Nat.max xs x.
Proof.
  assert (H : forall a b, a <= b -> fold_left Nat.min xs a <= fold_left Nat.max xs b).
  { induction xs as [|y xs IH]; intros a b Hab; cbn [fold_left]; [exact Hab|]. apply IH. lia. }
  now apply H.
Qed.

Lemma hull_chk_ok c : hull_chk c = Ok (hull c).
Proof.
  unfold hull_chk, hull. destruct (endpoints c) as [|x xs]; [reflexivity|].
  unfold span_new. pose proof (fold_min_le_max xs x) as H.
  destruct (fold_left Nat.max xs x <? fold_left Nat.min xs x) eqn:E; [apply Nat.ltb_lt in E; lia|reflexivity].
Qed.

Lemma fold_min_add xs x n : fold_left Nat.min (map (fun y => y + n) xs) (x + n) = fold_left Nat.min xs x + n.
Proof.
  revert x. induction xs as [|y xs IH]; intros x; [reflexivity|].
  cbn [map fold_left]. rewrite Nat.add_min_distr_r. apply IH.
Qed.
Lemma fold_max_add xs x n : fold_left Nat.max (map (fun y => y + n) xs) (x + n) = fold_left Nat.max xs x + n.
Proof.
  revert x. induction xs as [|y xs IH]; intros x; [reflexivity|].
  cbn [map fold_left]. rewrite Nat.add_max_distr_r. apply IH.
Qed.

Lemma endpoints_shift n k c : endpoints (map (shift_tok n k) c) = map (fun y => y + n) (endpoints c).
Proof.
  unfold endpoints. induction c as [|t c IH]; [reflexivity|].
  cbn [map flat_map]. rewrite IH, map_app. reflexivity.
Qed.

Lemma hull_shift n k c : hull (map (shift_tok n k) c) = option_map (fun s => push_by s n) (hull c).
Proof.
  unfold hull. rewrite endpoints_shift. destruct (endpoints c) as [|x xs]; [reflexivity|].
  cbn [map option_map]. rewrite fold_min_add, fold_max_add. reflexivity.
Qed.

Lemma rel_chunk_shift s n k c : rel_chunk (s + n) (map (shift_tok n k) c) = rel_chunk s c.
Proof.
  unfold rel_chunk. rewrite map_map. apply map_ext. intros [[a b] kd].
  unfold rel_tok, shift_tok. cbn [tspan tkind push_by sstart send]. f_equal.
  - f_equal; lia.
  - destruct kd as [| | | | | | | | | |[j|]| |]; reflexivity.
Qed.

Lemma shift_lint_add a b l : shift_lint (a + b) l = shift_lint b (shift_lint a l).
Proof.
  destruct l as [[x y] i]. unfold shift_lint, push_by. cbn [lspan lid sstart send].
  now rewrite !Nat.add_assoc.
Qed.

Lemma skipn_app_ge {A} (l1 l2 : list A) m : skipn (m + length l1) (l1 ++ l2) = skipn m l2.
Proof.
  rewrite skipn_app. rewrite skipn_all2 by lia. cbn [app]. f_equal. lia.
Qed.

Lemma slice_app_shift {A} (P D : list A) s e :
  slice (P ++ D) (s + length P) (e + length P) = slice D s e.
Proof. unfold slice. rewrite skipn_app_ge. f_equal. lia. Qed.

Lemma slice_app_prefix {A} (P D : list A) s e : e <= length P -> slice (P ++ D) s e = slice P s e.
Proof.
  intros He. unfold slice. rewrite skipn_app, firstn_app.
  rewrite skipn_length.
  replace (e - s - (length P - s)) with 0 by lia. cbn [firstn]. now rewrite app_nil_r.
Qed.

Lemma lift_shift g0 c P D k :
  lift g0 (map (shift_tok (length P) k) c) (P ++ D) = map (shift_lint (length P)) (lift g0 c D).
Proof.
  unfold lift. rewrite hull_shift. destruct (hull c) as [[s e]|]; [|reflexivity].
  cbn [option_map push_by sstart send]. rewrite rel_chunk_shift, slice_app_shift.
  rewrite map_map. apply map_ext. intros l. apply shift_lint_add.
Qed.

(* tokens lie inside a text of n characters *)
Definition tok_in (n : nat) (t : tok) : Prop := sstart (tspan t) <= n /\ send (tspan t) <= n.
Definition in_bounds (n : nat) (c : list tok) : Prop := Forall (tok_in n) c.

Lemma fold_max_le xs x n : x <= n -> Forall (fun y => y <= n) xs -> fold_left Nat.max xs x <= n.
Proof.
  intros Hx H. revert x Hx. induction H as [|y xs Hy _ IH]; intros x Hx; [exact Hx|].
  cbn [fold_left]. apply IH. lia.
Qed.

Lemma endpoints_le n c : in_bounds n c -> Forall (fun y => y <= n) (endpoints c).
Proof.
  induction 1 as [|t c [H1 H2] _ IH]; [constructor|]. cbn. constructor; [exact H1|]. constructor; [exact H2|exact IH].
Qed.

Lemma hull_in_bounds n c sp : in_bounds n c -> hull c = Some sp -> sstart sp <= send sp /\ send sp <= n.
Proof.
  intros Hc. unfold hull. pose proof (endpoints_le n c Hc) as He.
  destruct (endpoints c) as [|x xs]; [discriminate|]. intros [= <-]. cbn [sstart send].
  split; [apply fold_min_le_max|]. inversion He; subst. now apply fold_max_le.
Qed.

Lemma lift_prefix g0 c P D : in_bounds (length P) c -> lift g0 c (P ++ D) = lift g0 c P.
Proof.
  intros Hc. unfold lift. destruct (hull c) as [sp|] eqn:E; [|reflexivity].
  destruct (hull_in_bounds _ _ _ Hc E) as [_ H]. now rewrite slice_app_prefix.
Qed.

Lemma in_bounds_concat n cs : in_bounds n (concat cs) -> Forall (in_bounds n) cs.
Proof.
  induction cs as [|c cs IH]; intros H; [constructor|]. cbn [concat] in H.
  apply Forall_app in H. destruct H as [H1 H2]. constructor; [exact H1|now apply IH].
Qed.

Lemma iter_by_in_bounds p n ts : in_bounds n ts -> Forall (in_bounds n) (iter_by p ts).
Proof. intros H. apply in_bounds_concat. now rewrite concat_iter_by. Qed.

(* ================================================================================================ *)
(* 4. schemas: flat_map f (iter_X doc) with f reading only the slice's own data is paragraph-local *)
(* ================================================================================================ *)
Lemma schema_prefix p g0 A P D :
  in_bounds (length P) A -> schema_rule p g0 A (P ++ D) = schema_rule p g0 A P.
Proof.
  intros HA. unfold schema_rule. apply flat_map_ext_in. intros c Hc.
  apply lift_prefix. pose proof (iter_by_in_bounds p _ _ HA) as H.
  rewrite Forall_forall in H. now apply H.
Qed.

Lemma schema_empty p g0 src : schema_rule p g0 [] src = [].
Proof. reflexivity. Qed.

Lemma schema_local_gen p g0 A B P D k :
  (forall t, p (tkind (shift_tok (length P) k t)) = p (tkind t)) ->
  ends_in p A -> in_bounds (length P) A ->
  schema_rule p g0 (A ++ map (shift_tok (length P) k) B) (P ++ D)
  = schema_rule p g0 A P ++ map (shift_lint (length P)) (schema_rule p g0 B D).
Proof.
  intros Hp HA Hin. destruct B as [|b B'].
  - cbn [map]. rewrite app_nil_r, schema_empty. cbn [map]. rewrite app_nil_r. now apply schema_prefix.
  - unfold schema_rule at 1. rewrite iter_by_split; [|exact Hp|exact HA|discriminate].
    rewrite flat_map_app. f_equal.
    + apply flat_map_ext_in. intros c Hc. apply lift_prefix.
      pose proof (iter_by_in_bounds p _ _ Hin) as H. rewrite Forall_forall in H. now apply H.
    + rewrite flat_map_map. unfold schema_rule. rewrite map_flat_map.
      apply flat_map_ext. intros c. apply lift_shift.
Qed.

(* a struct rule is paragraph-local when the relation of the property holds for it on token level *)
Definition para_local (r : list tok -> text -> list lint) : Prop :=
  forall A B P D,
    ends_in_break A -> in_bounds (length P) A ->
    r (A ++ map (shift_tok (length P) (length A)) B) (P ++ D)
    = r A P ++ map (shift_lint (length P)) (r B D).

Lemma schema_local g0 :
  para_local (schema_rule is_chunk_terminator g0) /\
  para_local (schema_rule is_sentence_terminator g0) /\
  para_local (schema_rule is_paragraph_break g0).
Proof.
  repeat split; intros A B P D HA Hin.
  - apply schema_local_gen; [apply shift_keeps_chunk| |exact Hin].
    eapply ends_in_weaken; [|exact HA]. intros kd H. now apply sentence_is_chunk_term, break_is_sentence_term.
  - apply schema_local_gen; [apply shift_keeps_sentence| |exact Hin].
    eapply ends_in_weaken; [|exact HA]. apply break_is_sentence_term.
  - apply schema_local_gen; [apply shift_keeps_break|exact HA|exact Hin].
Qed.

(* the pattern-rule half, cache-free reading, for ANY chunk function *)
Lemma pattern_rules_local chunk_fn A B P D :
  ends_in_break A -> in_bounds (length P) A ->
  pat_spec chunk_fn (iter_chunks (A ++ map (shift_tok (length P) (length A)) B)) (P ++ D)
  = pat_spec chunk_fn (iter_chunks A) P ++ map (shift_lint (length P)) (pat_spec chunk_fn (iter_chunks B) D).
Proof.
  intros HA Hin. exact (proj1 (schema_local chunk_fn) A B P D HA Hin).
Qed.

(* ================================================================================================ *)
(* 5. the chunk cache is transparent                                                                *)
(* ================================================================================================ *)
Lemma text_eqb_eq a b : text_eqb a b = true -> a = b.
Proof.
  revert b. induction a as [|x a IH]; intros [|y b] H; try discriminate; [reflexivity|].
  cbn [text_eqb] in H. apply andb_true_iff in H. destruct H as [H1 H2].
  apply N.eqb_eq in H1. subst. f_equal. now apply IH.
Qed.

Lemma pull_shift_lint s l : pull_lint (shift_lint s l) s = Ok l.
Proof.
  destruct l as [[a b] i]. unfold pull_lint, shift_lint, pull_by, push_by, sub_chk.
  cbn [lspan lid sstart send].
  destruct (a + s <? s) eqn:E1; [apply Nat.ltb_lt in E1; lia|]. cbn [bind].
  destruct (b + s <? s) eqn:E2; [apply Nat.ltb_lt in E2; lia|]. cbn [bind].
  now rewrite !Nat.add_sub.
Qed.

Lemma get_content_ok (sp : span) (src : text) :
  sstart sp <= send sp -> send sp <= length src -> get_content sp src = Ok (slice src (sstart sp) (send sp)).
Proof.
  intros H1 H2. unfold get_content, try_get_content.
  destruct (send sp <? sstart sp) eqn:E1; [apply Nat.ltb_lt in E1; lia|].
  destruct (length src <? send sp) eqn:E3; [apply Nat.ltb_lt in E3; lia|].
  destruct (length src <=? sstart sp) eqn:E2; cbn [orb].
  - apply Nat.leb_le in E2. unfold span_len, sub_chk.
    destruct (send sp <? sstart sp) eqn:E4; [discriminate|]. cbn [bind].
    replace (send sp - sstart sp) with 0 by lia. cbn [Nat.eqb bind]. unfold slice.
    replace (send sp - sstart sp) with 0 by lia. reflexivity.
  - reflexivity.
Qed.

Section CacheTransparent.
  Variable chunk_fn : list tok -> text -> list lint.
  (* the chunk views (relative tokens, characters) that occur; the cache key is the characters alone, so
     the cache is only sound where the characters determine what the rules report (C05's business;
     monitored here by comparing a long-lived linter with a fresh one) *)
  Variable U : list tok -> text -> Prop.
  Hypothesis U_key : forall v1 v2 k, U v1 k -> U v2 k -> chunk_fn v1 k = chunk_fn v2 k.

  Definition coherent (cch : cache) : Prop :=
    forall k v, lookup k cch = Some v -> exists vw, U vw k /\ v = chunk_fn vw k.
  Definition views_in_U (chunks : list (list tok)) (src : text) : Prop :=
    Forall (fun c => forall sp, hull c = Some sp ->
                     U (rel_chunk (sstart sp) c) (slice src (sstart sp) (send sp))) chunks.

  Lemma coherent_nil : coherent [].
  Proof. intros k v H. discriminate. Qed.

  Lemma pat_loop_ok chunks src : forall cch,
    coherent cch -> Forall (in_bounds (length src)) chunks -> views_in_U chunks src ->
    exists cch', pat_loop chunk_fn cch chunks src = Ok (pat_spec chunk_fn chunks src, cch') /\ coherent cch'.
  Proof.
    induction chunks as [|c rest IH]; intros cch Hc Hb Hu.
    - exists cch. split; [reflexivity|exact Hc].
    - inversion Hb as [|? ? Hb1 Hb2]; subst. inversion Hu as [|? ? Hu1 Hu2]; subst.
      cbn [pat_loop]. rewrite hull_chk_ok. cbn [bind].
      unfold pat_spec. cbn [flat_map]. unfold lift at 1.
      destruct (hull c) as [sp|] eqn:Eh.
      + destruct (hull_in_bounds _ _ _ Hb1 Eh) as [Hw Hle].
        rewrite get_content_ok by assumption. cbn [bind].
        set (chars := slice src (sstart sp) (send sp)).
        specialize (Hu1 sp eq_refl). fold chars in Hu1.
        destruct (lookup chars cch) as [hit|] eqn:El.
        * cbn [bind fst snd].
          destruct (Hc _ _ El) as (vw & Hvw & ->).
          destruct (IH cch Hc Hb2 Hu2) as (cch' & Hrun & Hc').
          rewrite Hrun. cbn [bind fst snd]. exists cch'. split; [|exact Hc'].
          rewrite (U_key _ _ _ Hvw Hu1). reflexivity.
        * unfold run_chunk_abs.
          rewrite (map_res_ok _ (fun l => mklint (mkspan (lstart l - sstart sp) (lend l - sstart sp)) (lid l))).
          2:{ apply Forall_forall. intros l Hl. apply in_map_iff in Hl. destruct Hl as (l0 & <- & _).
              rewrite pull_shift_lint. destruct l0 as [[a b] i]. unfold shift_lint, push_by, lstart, lend.
              cbn [lspan lid sstart send]. now rewrite !Nat.add_sub. }
          cbn [bind fst snd]. rewrite map_map.
          assert (Hid : map (fun x => mklint (mkspan (lstart (shift_lint (sstart sp) x) - sstart sp)
                                                     (lend (shift_lint (sstart sp) x) - sstart sp))
                                             (lid (shift_lint (sstart sp) x)))
                            (chunk_fn (rel_chunk (sstart sp) c) chars)
                        = chunk_fn (rel_chunk (sstart sp) c) chars).
          { rewrite <- (map_id (chunk_fn (rel_chunk (sstart sp) c) chars)) at 2. apply map_ext.
            intros [[a b] i]. unfold shift_lint, push_by, lstart, lend. cbn [lspan lid sstart send].
            now rewrite !Nat.add_sub. }
          rewrite Hid.
          assert (Hc2 : coherent ((chars, chunk_fn (rel_chunk (sstart sp) c) chars) :: cch)).
          { intros k v Hk. cbn [lookup] in Hk. destruct (text_eqb k chars) eqn:Ek.
            - apply text_eqb_eq in Ek. subst k. injection Hk as <-. eexists; split; [exact Hu1|reflexivity].
            - now apply Hc. }
          destruct (IH _ Hc2 Hb2 Hu2) as (cch' & Hrun & Hc').
          rewrite Hrun. cbn [bind fst snd]. exists cch'. split; [reflexivity|exact Hc'].
      + cbn [app]. apply IH; assumption.
  Qed.

  (* LintGroup::lint, checked and cached, equals its cache-free reading *)
  Lemma lint_group_chk_ok rules cch ts src :
    coherent cch -> in_bounds (length src) ts -> views_in_U (iter_chunks ts) src ->
    exists cch', lint_group_chk chunk_fn rules cch ts src = Ok (lint_group chunk_fn rules ts src, cch')
                 /\ coherent cch'.
  Proof.
    intros Hc Hb Hu. unfold lint_group_chk. rewrite iter_by_chk_ok. cbn [bind].
    destruct (pat_loop_ok (iter_chunks ts) src cch Hc (iter_by_in_bounds _ _ _ Hb) Hu) as (cch' & Hrun & Hc').
    unfold iter_chunks in Hrun. rewrite Hrun. cbn [bind fst snd]. exists cch'. split; [reflexivity|exact Hc'].
  Qed.
End CacheTransparent.

(* ================================================================================================ *)
(* 6. adjacent-token windows that never report across a ParagraphBreak                              *)
(* ================================================================================================ *)
Lemma windows_short w ts : length ts < w -> windows w ts = [].
Proof.
  destruct ts as [|t r]; [reflexivity|]. intros H. cbn [windows].
  destruct (w <=? length (t :: r)) eqn:E; [apply Nat.leb_le in E; lia|reflexivity].
Qed.

Lemma windows_map w (f : tok -> tok) ts : windows w (map f ts) = map (map f) (windows w ts).
Proof.
  induction ts as [|t r IH]; [reflexivity|].
  change (map f (t :: r)) with (f t :: map f r) at 1. cbn [windows]. rewrite IH.
  change (f t :: map f r) with (map f (t :: r)). rewrite map_length.
  destruct (w <=? length (t :: r)); [|reflexivity].
  rewrite firstn_map. reflexivity.
Qed.

Lemma has_break_shift n k c : has_break (map (shift_tok n k) c) = has_break c.
Proof.
  unfold has_break. induction c as [|t c IH]; [reflexivity|].
  cbn [map existsb]. now rewrite shift_keeps_break, IH.
Qed.

Lemma has_break_app a b : has_break (a ++ b) = has_break a || has_break b.
Proof. unfold has_break. apply existsb_app. Qed.

Lemma in_bounds_firstn n w c : in_bounds n c -> in_bounds n (firstn w c).
Proof.
  unfold in_bounds. intros H. revert w. induction H as [|t c Ht _ IH]; intros w.
  - rewrite firstn_nil. constructor.
  - destruct w as [|w']; cbn [firstn]; [constructor|]. constructor; [exact Ht|apply IH].
Qed.

Definition wfun (w : nat) (g0 : list tok -> text -> list lint) (src : text) (c : list tok) : list lint :=
  if has_break c then [] else lift g0 c src.

Lemma window_rule_shift w g0 B P D k :
  window_rule w g0 (map (shift_tok (length P) k) B) (P ++ D)
  = map (shift_lint (length P)) (window_rule w g0 B D).
Proof.
  unfold window_rule. rewrite windows_map, flat_map_map, map_flat_map.
  apply flat_map_ext. intros c. rewrite has_break_shift.
  destruct (has_break c); [reflexivity|apply lift_shift].
Qed.

Lemma window_local w g0 : 1 <= w -> para_local (window_rule w g0).
Proof.
  intros Hw A B P D (A0 & b & -> & Hb) Hin.
  rewrite <- window_rule_shift with (k := length (A0 ++ [b])).
  set (B' := map (shift_tok (length P) (length (A0 ++ [b]))) B). clearbody B'.
  assert (Hbk : is_paragraph_break (tkind b) = true) by exact Hb.
  revert Hin. induction A0 as [|a A0 IH]; intros Hin.
  - (* A = [b] *)
    cbn [app]. unfold window_rule. cbn [windows].
    assert (Hfirst : has_break (firstn w (b :: B')) = true).
    { destruct w as [|w']; [lia|]. cbn [firstn]. unfold has_break. cbn [existsb]. now rewrite Hbk. }
    destruct (w <=? length (b :: B')) eqn:E1.
    + cbn [flat_map]. rewrite Hfirst. cbn [app].
      destruct (w <=? length [b]) eqn:E2; [|reflexivity].
      cbn [flat_map windows]. apply Nat.leb_le in E2. cbn [length] in E2.
      assert (Hx : has_break (firstn w [b]) = true).
      { destruct w as [|w']; [lia|]. cbn [firstn]. unfold has_break. cbn [existsb]. now rewrite Hbk. }
      rewrite Hx. reflexivity.
    + apply Nat.leb_gt in E1. cbn [length] in E1.
      rewrite (windows_short w B') by lia.
      destruct (w <=? length [b]) eqn:E2; [apply Nat.leb_le in E2; cbn [length] in *; lia|]. reflexivity.
  - (* A = a :: A0 ++ [b] *)
    inversion Hin as [|? ? Ha Hin']; subst.
    specialize (IH Hin').
    change ((a :: A0) ++ [b]) with (a :: (A0 ++ [b])) in *.
    set (A1 := A0 ++ [b]) in *.
    assert (HA1 : has_break A1 = true).
    { unfold A1. rewrite has_break_app. unfold has_break at 2. cbn [existsb]. rewrite Hbk. now rewrite !orb_true_r. }
    unfold window_rule in *. cbn [app windows].
    destruct (w <=? length (a :: A1)) eqn:E2.
    + apply Nat.leb_le in E2.
      assert (E1 : w <=? length (a :: A1 ++ B') = true).
      { apply Nat.leb_le. cbn [length] in *. rewrite app_length. lia. }
      rewrite E1. cbn [flat_map]. rewrite IH. rewrite <- app_assoc. f_equal.
      change (a :: A1 ++ B') with ((a :: A1) ++ B').
      rewrite firstn_app. replace (w - length (a :: A1)) with 0 by lia. cbn [firstn]. rewrite app_nil_r.
      destruct (has_break (firstn w (a :: A1))); [reflexivity|].
      apply lift_prefix. apply in_bounds_firstn. exact Hin.
    + apply Nat.leb_gt in E2.
      rewrite (windows_short w A1) in IH by (cbn [length] in E2; lia). cbn [flat_map app] in IH |- *.
      destruct (w <=? length (a :: A1 ++ B')) eqn:E1.
      * cbn [flat_map]. rewrite IH.
        change (a :: A1 ++ B') with ((a :: A1) ++ B').
        rewrite firstn_app, has_break_app.
        rewrite (firstn_all2 (a :: A1)) by lia.
        assert (Hx : has_break (a :: A1) = true).
        { unfold has_break in *. cbn [existsb]. now rewrite HA1, orb_true_r. }
        rewrite Hx. reflexivity.
      * apply Nat.leb_gt in E1. cbn [length] in E1. rewrite app_length in E1.
        rewrite (windows_short w B') by lia. reflexivity.
Qed.

(* ================================================================================================ *)
(* 7. the main theorem, under the two hypotheses the harness monitors                               *)
(* ================================================================================================ *)
Definition no_leading_newline (D : text) : Prop :=
  match D with c :: _ => c <> 10%N | [] => True end.

Section Main.
  Variable tokens : text -> list tok.          (* Document::new_plain_english(text).tokens, kind classes *)
  Variable premise : text -> Prop.             (* P: quote-free, ends in terminator + blank line *)
  Variable chunk_fn : list tok -> text -> list lint.
  Variable rules : list (list tok -> text -> list lint).

  Definition lints (t : text) : list lint := lint_group chunk_fn rules (tokens t) t.

  Hypothesis H_lex_split : forall P D, premise P -> no_leading_newline D ->
    tokens (P ++ D) = tokens P ++ map (shift_tok (length P) (length (tokens P))) (tokens D).
  Hypothesis H_P_tokens : forall P, premise P ->
    ends_in_break (tokens P) /\ in_bounds (length P) (tokens P).
  Hypothesis H_rules_local : Forall para_local rules.

  (* per rule, and for the pattern half, even the order is preserved *)
  Lemma main_parts P D : premise P -> no_leading_newline D ->
    Forall (fun r => r (tokens (P ++ D)) (P ++ D)
                     = r (tokens P) P ++ map (shift_lint (length P)) (r (tokens D) D)) rules /\
    pat_spec chunk_fn (iter_chunks (tokens (P ++ D))) (P ++ D)
    = pat_spec chunk_fn (iter_chunks (tokens P)) P
      ++ map (shift_lint (length P)) (pat_spec chunk_fn (iter_chunks (tokens D)) D).
  Proof.
    intros HP HD. destruct (H_P_tokens P HP) as [Hend Hin]. rewrite (H_lex_split P D HP HD). split.
    - eapply Forall_impl; [|exact H_rules_local]. intros r Hr. now apply Hr.
    - now apply pattern_rules_local.
  Qed.

  Lemma main_partial P D : premise P -> no_leading_newline D ->
    Permutation (lints (P ++ D)) (lints P ++ map (shift_lint (length P)) (lints D)).
  Proof.
    intros HP HD. destruct (main_parts P D HP HD) as [Hr Hp].
    unfold lints, lint_group. rewrite Hp.
    rewrite (flat_map_ext_in (fun r => r (tokens (P ++ D)) (P ++ D))
                             (fun r => r (tokens P) P ++ map (shift_lint (length P)) (r (tokens D) D))).
    2:{ rewrite Forall_forall in Hr. exact Hr. }
    rewrite flat_map_app_perm.
    rewrite map_app, map_flat_map.
    rewrite <- !app_assoc. apply Permutation_app_head.
    rewrite !app_assoc. apply Permutation_app_tail. apply Permutation_app_comm.
  Qed.

  (* "editing one paragraph": whatever follows P, the lints of P++D are the same lints of P plus lints
     that all lie behind P *)
  Lemma edit_corollary P : premise P ->
    exists LP, forall D, no_leading_newline D ->
      exists R, Permutation (lints (P ++ D)) (LP ++ map (shift_lint (length P)) R).
  Proof.
    intros HP. exists (lints P). intros D HD. exists (lints D). now apply main_partial.
  Qed.
End Main.

(* ================================================================================================ *)
(* 8. the hypotheses are satisfiable: a character-level toy lexer and two schema rules              *)
(* ================================================================================================ *)
Definition toy_kind (c : N) : kind :=
  if N.eqb c 10 then KBreak else if N.eqb c 46 then KPeriod else if N.eqb c 44 then KComma
  else if N.eqb c 32 then KSpace else KWord.
Fixpoint toy_tokens_from (i : nat) (t : text) : list tok :=
  match t with [] => [] | c :: r => mktok (mkspan i (S i)) (toy_kind c) :: toy_tokens_from (S i) r end.
Definition toy_tokens (t : text) : list tok := toy_tokens_from 0 t.
Definition toy_premise (P : text) : Prop := exists P0, P = P0 ++ [46%N; 10%N].

Lemma toy_from_shift i n k t : toy_tokens_from (i + n) t = map (shift_tok n k) (toy_tokens_from i t).
Proof.
  revert i. induction t as [|c r IH]; intros i; [reflexivity|].
  cbn [toy_tokens_from map]. f_equal.
  - unfold shift_tok, push_by. cbn [tspan tkind sstart send]. f_equal.
    unfold toy_kind. destruct (N.eqb c 10), (N.eqb c 46), (N.eqb c 44), (N.eqb c 32); reflexivity.
  - apply (IH (S i)).
Qed.

Lemma toy_from_app i P D : toy_tokens_from i (P ++ D) = toy_tokens_from i P ++ toy_tokens_from (i + length P) D.
Proof.
  revert i. induction P as [|c r IH]; intros i; cbn [app toy_tokens_from length].
  - now rewrite Nat.add_0_r.
  - f_equal. rewrite IH. f_equal. f_equal. lia.
Qed.

Lemma toy_from_bounds i t : in_bounds (i + length t) (toy_tokens_from i t).
Proof.
  revert i. induction t as [|c r IH]; intros i; [constructor|].
  cbn [toy_tokens_from length]. constructor.
  - unfold tok_in. cbn. lia.
  - replace (i + S (length r)) with (S i + length r) by lia. apply IH.
Qed.

Lemma toy_split P D k : toy_tokens (P ++ D) = toy_tokens P ++ map (shift_tok (length P) k) (toy_tokens D).
Proof. unfold toy_tokens. rewrite toy_from_app. f_equal. apply (toy_from_shift 0). Qed.

Lemma toy_P_tokens P : toy_premise P -> ends_in_break (toy_tokens P) /\ in_bounds (length P) (toy_tokens P).
Proof.
  intros [P0 ->]. split.
  - unfold toy_tokens. rewrite toy_from_app. cbn [toy_tokens_from].
    exists (toy_tokens_from 0 P0 ++ [mktok (mkspan (0 + length P0) (S (0 + length P0))) (toy_kind 46)]),
           (mktok (mkspan (S (0 + length P0)) (S (S (0 + length P0)))) (toy_kind 10)).
    split; [now rewrite <- app_assoc|reflexivity].
  - apply (toy_from_bounds 0).
Qed.
