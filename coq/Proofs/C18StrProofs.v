(* C18StrProofs.v — the property C18 about STRINGS: theorems on C18Str.title_case_str
   (= make_title_case_str with the PlainEnglish parser), obtained by composing
     * C02's theorems on Document::new_plain_english (never panics, its tokens tile the text),
     * the token-level theorems of TitleCaseProofs.v (no panic, length, case-only, first-upper,
       idempotence on a fixed token list),
     * C18LexStable.document_plain_congr (re-lexing a plain text after its word characters were
       replaced by word characters gives the same tokens).
   Totality, length, case-only and first-upper hold for EVERY text.  Idempotence is proved outright for
   plain texts (str_idempotent_plain); for arbitrary texts it is proved from the residue
   "the title-cased text yields the same document tokens" (str_idempotent_partial), which is what stays
   monitored — it is genuinely false for some texts (relex_unstable_witness: `ss.s` -> `SS.S`, three
   tokens become one Hostname), although idempotence itself holds there. *)
Require Import Base Overlap OverlapProofs Tables_lexer Lexer Condense ListLemmas TokenInv CondenseInv LexerProofs
  DocumentProofs C18LexStable C18PassesIC C18LexDots C18LexAlnum.
Require Import Tables_titlecase TitleCase TitleCaseProofs C18Str C18LexCurly.
From Coq Require Import Lia Sorting.Sorted.

(* ================= the attached token list ================= *)
Lemma attach_tok_span dm src t : tspan (attach_tok dm src t) = Lexer.tspan t.
Proof. reflexivity. Qed.

Lemma attach_nil_iff dm src ts : attach dm src ts = [] <-> ts = [].
Proof. unfold attach. split; [apply map_eq_nil|intros ->; reflexivity]. Qed.

Lemma tiling_attach dm src : forall ts a b, Tiling a b ts ->
  StronglySorted (fun x y => tend x <= tstart y) (attach dm src ts) /\
  Forall (fun t => a <= tstart t /\ tstart t < tend t /\ tend t <= b) (attach dm src ts).
Proof.
  intros ts a b H. induction H as [a|a b t ts Hs Hlt Hts [IH1 IH2]]; [split; constructor|].
  cbn [attach map]. fold (attach dm src ts).
  assert (S1 : tstart (attach_tok dm src t) = a) by exact Hs.
  assert (S2 : tend (attach_tok dm src t) = Lexer.tend t) by reflexivity.
  pose proof (tiling_le _ _ _ Hts) as Hle.
  split.
  - constructor; [exact IH1|]. eapply Forall_impl; [|exact IH2]. cbn beta. intros x Hx. rewrite S2. lia.
  - constructor; [rewrite S1, S2; lia|]. eapply Forall_impl; [|exact IH2]. cbn beta. intros x Hx. lia.
Qed.

Lemma tiling_toks_ok dm src ts n : Tiling 0 n ts -> toks_ok n (attach dm src ts).
Proof.
  intros H. destruct (tiling_attach dm src ts 0 n H) as [H1 H2]. split; [exact H1|].
  eapply Forall_impl; [|exact H2]. cbn beta. intros t Ht. lia.
Qed.

Lemma tiling_last_end : forall ts a b, Tiling a b ts -> ts <> [] -> exists t, In t ts /\ Lexer.tend t = b.
Proof.
  intros ts a b H. induction H as [a|a b t ts Hs Hlt Hts IH]; intros Hne; [contradiction|].
  destruct ts as [|t2 ts2].
  - inversion Hts; subst. exists t. split; [now left|reflexivity].
  - destruct (IH ltac:(discriminate)) as [x [Hx Ex]]. exists x. split; [now right|exact Ex].
Qed.

Lemma tiling_hull dm src ts n : Tiling 0 n ts -> ts <> [] ->
  hull_start (attach dm src ts) = 0 /\ hull_end (attach dm src ts) = n.
Proof.
  intros HT Hne. pose proof (tiling_toks_ok dm src ts n HT) as Hok.
  destruct ts as [|t0 rest]; [contradiction|].
  cbn [attach map] in *. fold (attach dm src rest) in *.
  destruct (toks_ok_hull _ _ _ Hok) as (Hs & He & Hall). split.
  - rewrite Hs. inversion HT; subst. assumption.
  - destruct (tiling_last_end _ _ _ HT ltac:(discriminate)) as [x [Hx Ex]].
    assert (Hin : In (attach_tok dm src x) (attach_tok dm src t0 :: attach dm src rest)).
    { change (attach_tok dm src t0 :: attach dm src rest) with (attach dm src (t0 :: rest)).
      unfold attach. apply in_map. exact Hx. }
    destruct (Hall _ Hin) as [_ Hle]. change (tend (attach_tok dm src x)) with (Lexer.tend x) in Hle. lia.
Qed.

Lemma tiling_empty n : Tiling 0 n [] -> n = 0.
Proof. intros H. inversion H. reflexivity. Qed.

(* where the look-up loop's get_content answers, it answers the slice the model hands to the dictionary *)
Lemma get_content_slice {A} sp (src v : list A) : get_content sp src = Ok v -> v = slice src (sstart sp) (send sp).
Proof.
  unfold get_content, try_get_content.
  destruct ((send sp <? sstart sp) || (length src <=? sstart sp) || (length src <? send sp)) eqn:C.
  - unfold span_len, sub_chk. destruct (send sp <? sstart sp) eqn:C1; cbn [bind]; [discriminate|].
    destruct (send sp - sstart sp =? 0) eqn:Z; cbn; [|discriminate].
    intros H. injection H as <-. apply Nat.eqb_eq in Z. unfold slice. rewrite Z. reflexivity.
  - cbn [bind]. intros H. injection H as <-. reflexivity.
Qed.

(* ================= slices of pointwise related texts ================= *)
Lemma Forall2_firstn_c18 {A B} (R : A -> B -> Prop) n : forall l l', Forall2 R l l' -> Forall2 R (firstn n l) (firstn n l').
Proof.
  induction n as [|n IH]; intros l l' H; [constructor|]. destruct H; [constructor|]. cbn [firstn]. constructor; auto.
Qed.
Lemma Forall2_slice_c18 {A B} (R : A -> B -> Prop) a b l l' : Forall2 R l l' -> Forall2 R (slice l a b) (slice l' a b).
Proof. intros H. unfold slice. apply Forall2_firstn_c18. apply Forall2_skipn_c18. exact H. Qed.

Section Str.
  Variable u : uni.
  Variable lower : char -> list char.
  Variable upper : char -> list char.
  Variable is_lowercase : char -> bool.
  Variable dict_canon : text -> option text.
  Variable dict_meta : text -> option wmeta.

  Notation tcs := (title_case_str u lower upper is_lowercase dict_canon dict_meta).
  Notation doc := (document_tokens u dict_meta).
  Notation mtc := (make_title_case lower upper is_lowercase dict_canon dict_meta).

  (* Document::new_from_vec(_, &PlainEnglish, dict) never panics; its tokens satisfy the invariant the
     token-level theorems assume and tile the text *)
  Lemma doc_ok (src : text) : exists toks,
    doc src = Ok toks /\ toks_ok (length src) toks /\
    (toks = [] -> src = []) /\ (toks <> [] -> hull_start toks = 0 /\ hull_end toks = length src).
  Proof.
    destruct (document_plain_tiling u src) as [ts [E [T _]]].
    exists (attach dict_meta src ts). unfold document_tokens. rewrite E. cbn [bind].
    split; [reflexivity|]. split; [apply tiling_toks_ok; exact T|]. split.
    - intros Hn. apply attach_nil_iff in Hn. subst ts. apply tiling_empty in T.
      destruct src; [reflexivity|discriminate].
    - intros Hne. apply tiling_hull; [exact T|]. intros ->. apply Hne. reflexivity.
  Qed.

  Lemma tcs_unfold src out : tcs src = Ok out -> exists toks, doc src = Ok toks /\ mtc toks src = Ok out.
  Proof.
    unfold title_case_str. destruct (doc src) as [toks|]; cbn [bind]; [|discriminate]. eauto.
  Qed.

  Lemma doc_hull src toks : doc src = Ok toks -> hull_start toks = 0 /\ hull_end toks = length src.
  Proof.
    intros E. destruct (doc_ok src) as (toks' & E' & _ & Hnil & Hh). rewrite E in E'. injection E' as <-.
    destruct toks as [|t0 r]; [|apply Hh; discriminate].
    rewrite (Hnil eq_refl). split; reflexivity.
  Qed.

  Lemma doc_toks_ok src toks : doc src = Ok toks -> toks_ok (length src) toks.
  Proof. intros E. destruct (doc_ok src) as (toks' & E' & Hok & _). rewrite E in E'. injection E' as <-. exact Hok. Qed.

  (* ---------- no panic ---------- *)
  Theorem str_total (src : text) :
    (forall w cc, dict_canon w = Some cc -> length w <= length cc) ->
    exists out, tcs src = Ok out.
  Proof.
    intros Hc. destruct (doc_ok src) as (toks & E & Hok & _).
    destruct (mtc_total lower upper is_lowercase dict_canon dict_meta toks src Hok Hc) as [out H].
    exists out. unfold title_case_str. rewrite E. cbn [bind]. exact H.
  Qed.

  (* ---------- same length ---------- *)
  Theorem str_length (src out : text) : tcs src = Ok out -> length out = length src.
  Proof.
    intros H. destruct (tcs_unfold _ _ H) as (toks & E & Hm). destruct (doc_hull _ _ E) as [H0 H1].
    apply (mtc_length_tiling _ _ _ _ _ _ _ _ Hm H0 H1).
  Qed.

  (* ---------- only the case of letters changes (or a curly apostrophe becomes the straight one) ---------- *)
  Theorem str_case_only (src out : text) :
    lower_ascii_law lower -> upper_ascii_law upper -> apostrophes_caseless lower upper ->
    tcs src = Ok out ->
    forall k c, nth_error out k = Some c -> exists a, nth_error src k = Some a /\ tc_rel lower upper a c.
  Proof.
    intros Hla Hua Hapo H k c Hc. destruct (tcs_unfold _ _ H) as (toks & E & Hm).
    destruct (doc_hull _ _ E) as [H0 _].
    destruct (mtc_case_only _ _ _ _ _ Hla Hua Hapo _ _ _ Hm _ _ Hc) as (a & Ha & Hr).
    rewrite H0 in Ha. exists a. split; [exact Ha|].
    destruct Hr as [Hv|(R1 & R2 & _)]; [now left|right; split; assumption].
  Qed.

  Lemma str_rel (src out : text) :
    lower_ascii_law lower -> upper_ascii_law upper -> apostrophes_caseless lower upper ->
    tcs src = Ok out -> Forall2 (tc_rel lower upper) src out.
  Proof.
    intros Hla Hua Hapo H. apply Forall2_of_nth.
    - symmetry. apply (str_length _ _ H).
    - intros k a c Ha Hc. destruct (str_case_only _ _ Hla Hua Hapo H k c Hc) as (a' & Ha' & Hr).
      rewrite Ha in Ha'. injection Ha' as <-. exact Hr.
  Qed.

  (* ---------- the first word-like token starts upper-case ---------- *)
  Theorem str_first_upper (src out : text) toks w0 rest :
    ascii_variant_closed lower upper ->
    tcs src = Ok out -> doc src = Ok toks -> filter tok_word_like toks = w0 :: rest ->
    exists a c, nth_error src (tstart w0) = Some a /\ nth_error out (tstart w0) = Some c /\
                is_ascii_lower c = false /\ (is_ascii_alpha a = true -> is_ascii_upper c = true).
  Proof.
    intros Hcl H E Hf. destruct (tcs_unfold _ _ H) as (toks' & E' & Hm). rewrite E in E'. injection E' as <-.
    pose proof (doc_toks_ok _ _ E) as Hok.
    destruct (mtc_first_upper _ _ _ _ _ _ _ _ _ _ Hcl Hok Hm Hf) as (a & c & Ha & Hc & H1 & H2).
    exists a, c. repeat split; try assumption.
    destruct toks as [|t0 r0]; [discriminate|]. destruct (toks_ok_hull _ _ _ Hok) as (Hs & _).
    destruct (doc_hull _ _ E) as [H0 _].
    cbn [first_start] in Hc. rewrite <- Hs, H0, Nat.sub_0_r in Hc. exact Hc.
  Qed.

  (* ---------- idempotence, from the residue "the output yields the same document tokens" ---------- *)
  Theorem str_idempotent_partial (src out : text) :
    lower_ascii_law lower -> upper_ascii_law upper -> apostrophes_caseless lower upper ->
    lowercase_fixed lower is_lowercase -> apostrophes_lower_fixed lower ->
    dict_case_insensitive lower upper is_lowercase dict_canon dict_meta ->
    tcs src = Ok out ->
    doc out = doc src ->
    tcs out = Ok out.
  Proof.
    intros Hla Hua Hapo Hf Hfix Hd H Hrelex. destruct (tcs_unfold _ _ H) as (toks & E & Hm).
    destruct (doc_hull _ _ E) as [H0 H1]. pose proof (doc_toks_ok _ _ E) as Hok.
    unfold title_case_str. rewrite Hrelex, E. cbn [bind].
    apply (mtc_idempotent_tokens _ _ _ _ _ Hla Hua toks src out Hapo Hf Hfix Hd Hok H0 H1 Hm).
  Qed.

  (* ================= plain texts: the residue is a theorem ================= *)
  (* a character is CASE-STABLE when the lexer cannot tell it from its case variants: every case variant is the
     character itself, or both are word characters, or both are characters no sub-lexer claims (Greek,
     Cyrillic, ... letters: Unlintable in either case).  With the real tables every character of the plain
     class is case-stable except U+A7D2..U+A7D5 (std knows their case pairs, unicode-script does not know
     their script yet): the harness computes the exceptions from all code points on every run *)
  Definition case_stable (a : char) : Prop :=
    forall c, case_variant lower upper a c ->
      c = a \/ (wchar u a = true /\ wchar u c = true /\ plain_char u c = true)
            \/ (ochar u a = true /\ ochar u c = true /\ plain_char u c = true).
  (* the class of the string-level idempotence theorem *)
  Definition plain_stable_text (s : text) : Prop :=
    Forall (fun a => plain_char u a = true /\ case_stable a) s.
  (* where every plain character is case-stable (e.g. the ASCII restriction) the class is plain_text *)
  Definition plain_case_closed : Prop := forall a, plain_char u a = true -> case_stable a.

  Lemma plain_stable_of_closed s : plain_case_closed -> plain_text u s = true -> plain_stable_text s.
  Proof.
    intros Hcc Hp. apply plain_text_Plain in Hp. unfold plain_stable_text. eapply Forall_impl; [|exact Hp].
    cbn beta. intros a Ha. split; [exact Ha|apply Hcc; exact Ha].
  Qed.

  Lemma plain_stable_Plain s : plain_stable_text s -> Plain u s.
  Proof. intros H. eapply Forall_impl; [|exact H]. cbn beta. intros a [Ha _]. exact Ha. Qed.

  (* Dictionary::get_word_metadata itself (not only after to_lower) does not see case / apostrophe style *)
  Definition dict_meta_case_insensitive : Prop :=
    forall v w, Forall2 (tc_rel lower upper) v w -> dict_meta w = dict_meta v.

  Lemma plain_not_apo_from a : plain_char u a = true -> ~ In a tc_canonical_apostrophe_from.
  Proof.
    intros Hp Hin. assert (Hb : In a bad_chars).
    { cbn in Hin. cbn. destruct Hin as [<-|[<-|[<-|[]]]]; tauto. }
    pose proof (plain_not_bad u a a Hp Hb) as X. rewrite N.eqb_refl in X. discriminate.
  Qed.

  Lemma plain_rel_Rw (src out : text) : plain_stable_text src ->
    Forall2 (tc_rel lower upper) src out -> Forall2 (Rw u) src out /\ Plain u out.
  Proof.
    intros HP HR. induction HR as [|a c l l' Hac _ IH]; [split; constructor|].
    inversion HP as [|a' l0 [Pa Hcs] Pl]; subst. destruct (IH Pl) as [IH1 IH2].
    destruct Hac as [Hv|[Hin _]]; [|exfalso; exact (plain_not_apo_from a Pa Hin)].
    destruct (Hcs c Hv) as [->|[(W1 & W2 & Pc)|(W1 & W2 & Pc)]].
    - split; constructor; try assumption. now left.
    - split; constructor; try assumption. right. left. split; assumption.
    - split; constructor; try assumption. right. right. split; assumption.
  Qed.

  Lemma attach_congr (src out : text) ts : dict_meta_case_insensitive ->
    Forall2 (tc_rel lower upper) src out -> attach dict_meta out ts = attach dict_meta src ts.
  Proof.
    intros Hd HR. unfold attach. apply map_ext. intros t. unfold attach_tok.
    destruct (Lexer.tkind_of t); try reflexivity.
    rewrite (Hd (slice src (Lexer.tstart t) (Lexer.tend t)) (slice out (Lexer.tstart t) (Lexer.tend t))); [reflexivity|].
    apply Forall2_slice_c18. exact HR.
  Qed.

  (* RE-LEXING: the title-cased plain text yields the same document tokens, metadata included *)
  Theorem str_relex_plain (src out : text) :
    lower_ascii_law lower -> upper_ascii_law upper -> apostrophes_caseless lower upper ->
    dict_meta_case_insensitive ->
    plain_stable_text src ->
    tcs src = Ok out ->
    doc out = doc src /\ plain_text u out = true.
  Proof.
    intros Hla Hua Hapo Hdm Hps H. pose proof (plain_stable_Plain _ Hps) as Hp.
    pose proof (str_rel _ _ Hla Hua Hapo H) as HR.
    destruct (plain_rel_Rw _ _ Hps HR) as [HRw Hp'].
    split; [|apply plain_text_Plain; exact Hp'].
    unfold document_tokens. rewrite (document_plain_congr u src out HRw Hp Hp').
    destruct (document_plain u src) as [ts|]; cbn [bind]; [|reflexivity].
    rewrite (attach_congr src out ts Hdm HR). reflexivity.
  Qed.

  (* IDEMPOTENCE of make_title_case_str on plain texts: no premise about the lexer is left *)
  Theorem str_idempotent_plain (src out : text) :
    lower_ascii_law lower -> upper_ascii_law upper -> apostrophes_caseless lower upper ->
    lowercase_fixed lower is_lowercase -> apostrophes_lower_fixed lower ->
    dict_case_insensitive lower upper is_lowercase dict_canon dict_meta ->
    dict_meta_case_insensitive ->
    plain_stable_text src ->
    tcs src = Ok out ->
    tcs out = Ok out.
  Proof.
    intros Hla Hua Hapo Hf Hfix Hd Hdm Hp H.
    destruct (str_relex_plain _ _ Hla Hua Hapo Hdm Hp H) as [Hre _].
    apply (str_idempotent_partial src out Hla Hua Hapo Hf Hfix Hd H Hre).
  Qed.

  (* the whole property text for a plain text, about strings *)
  Theorem str_property_plain (src : text) :
    lower_ascii_law lower -> upper_ascii_law upper -> apostrophes_caseless lower upper ->
    ascii_variant_closed lower upper -> lowercase_fixed lower is_lowercase -> apostrophes_lower_fixed lower ->
    dict_case_insensitive lower upper is_lowercase dict_canon dict_meta ->
    (forall w cc, dict_canon w = Some cc -> length w <= length cc) ->
    dict_meta_case_insensitive ->
    plain_stable_text src ->
    exists out,
      tcs src = Ok out /\
      length out = length src /\
      (forall k c, nth_error out k = Some c -> exists a, nth_error src k = Some a /\ case_variant lower upper a c) /\
      (forall toks w0 rest, doc src = Ok toks -> filter tok_word_like toks = w0 :: rest ->
         exists a c, nth_error src (tstart w0) = Some a /\ nth_error out (tstart w0) = Some c /\
                     is_ascii_lower c = false /\ (is_ascii_alpha a = true -> is_ascii_upper c = true)) /\
      tcs out = Ok out.
  Proof.
    intros Hla Hua Hapo Hcl Hf Hfix Hd Hlen Hdm Hp.
    destruct (str_total src Hlen) as [out H]. exists out. split; [exact H|].
    split; [apply (str_length _ _ H)|]. split; [|split].
    - intros k c Hc. destruct (str_case_only _ _ Hla Hua Hapo H k c Hc) as (a & Ha & Hr).
      exists a. split; [exact Ha|]. destruct Hr as [Hv|[Hin _]]; [exact Hv|].
      exfalso. apply plain_stable_Plain in Hp. unfold Plain in Hp. rewrite Forall_forall in Hp.
      apply (plain_not_apo_from a); [apply Hp; eapply nth_error_In; exact Ha|exact Hin].
    - intros toks w0 rest E Hfl. apply (str_first_upper src out toks w0 rest Hcl H E Hfl).
    - apply (str_idempotent_plain src out Hla Hua Hapo Hf Hfix Hd Hdm Hp H).
  Qed.
  (* ================= phase 4: the residue shrinks to the LEXER, for every text ================= *)
  (* one more law of the case mappings (monitored over all code points): case variants have the same ASCII-letter
     key — an ASCII letter has only its own two cases as variants, no other character has an ASCII letter as one *)
  Definition ascii_case_faithful : Prop := forall a c, case_variant lower upper a c -> ickey a = ickey c.

  Lemma tc_rel_Ric : ascii_case_faithful -> forall a c, tc_rel lower upper a c -> Ric a c.
  Proof.
    intros Hf a c [Hv|[Hin ->]]; [exact (Hf a c Hv)|].
    cbn in Hin. destruct Hin as [<-|[<-|[<-|[]]]]; vm_compute; reflexivity.
  Qed.

  (* the passes of Document::parse do not see what title-casing changes: for EVERY text and EVERY token list *)
  Theorem str_passes_blind (src out : text) :
    lower_ascii_law lower -> upper_ascii_law upper -> apostrophes_caseless lower upper -> ascii_case_faithful ->
    tcs src = Ok out -> forall t0, document_passes out t0 = document_passes src t0.
  Proof.
    intros Hla Hua Hapo Hf H t0. apply document_passes_ic.
    eapply Forall2_impl_c18; [|exact (str_rel _ _ Hla Hua Hapo H)]. intros a c. apply tc_rel_Ric. exact Hf.
  Qed.

  (* H_relex reduced to H_relex_lex: when PlainEnglish::parse — the lexer alone, before any pass, without the
     dictionary — cuts the title-cased text like the text, the document tokens (passes, metadata) are the same *)
  Theorem str_relex_of_lexer (src out : text) :
    lower_ascii_law lower -> upper_ascii_law upper -> apostrophes_caseless lower upper -> ascii_case_faithful ->
    dict_meta_case_insensitive ->
    tcs src = Ok out ->
    plain_parse u out = plain_parse u src ->
    doc out = doc src.
  Proof.
    intros Hla Hua Hapo Hf Hdm H Hlex. unfold document_tokens, document_plain. rewrite Hlex.
    destruct (plain_parse u src) as [t0|]; cbn [bind]; [|reflexivity].
    rewrite (str_passes_blind src out Hla Hua Hapo Hf H t0).
    destruct (document_passes src t0) as [ts|]; cbn [bind]; [|reflexivity].
    rewrite (attach_congr src out ts Hdm (str_rel _ _ Hla Hua Hapo H)). reflexivity.
  Qed.

  (* idempotence for EVERY text from the residue about the lexer alone *)
  Theorem str_idempotent_lexer_partial (src out : text) :
    lower_ascii_law lower -> upper_ascii_law upper -> apostrophes_caseless lower upper ->
    lowercase_fixed lower is_lowercase -> apostrophes_lower_fixed lower -> ascii_case_faithful ->
    dict_case_insensitive lower upper is_lowercase dict_canon dict_meta ->
    dict_meta_case_insensitive ->
    tcs src = Ok out ->
    plain_parse u out = plain_parse u src ->
    tcs out = Ok out.
  Proof.
    intros Hla Hua Hapo Hfx Hfix Hf Hd Hdm H Hlex.
    apply (str_idempotent_partial src out Hla Hua Hapo Hfx Hfix Hd H).
    apply (str_relex_of_lexer src out Hla Hua Hapo Hf Hdm H Hlex).
  Qed.
  (* ================= phase 4: texts with PERIODS ================= *)
  (* case_stable for the class of C18LexDots: every case variant of a is a itself, or both are word characters
     other than ASCII digits, or both characters no sub-lexer claims — and the variant is in the class *)
  Definition case_stable2 (a : char) : Prop :=
    forall c, case_variant lower upper a c ->
      c = a \/ (wch u a = true /\ wch u c = true /\ char2 u c = true)
            \/ (ochar u a = true /\ ochar u c = true /\ char2 u c = true).
  Definition dotted_stable_text (s : text) : Prop :=
    Forall (fun a => char2 u a = true /\ case_stable2 a) s /\ ctx_ok s = true.
  Definition dotted_case_closed : Prop := forall a, char2 u a = true -> case_stable2 a.

  Lemma dotted_stable_of_closed s : dotted_case_closed -> dotted_text u s = true -> dotted_stable_text s.
  Proof.
    intros Hcc Hp. apply dotted_text_Dotted in Hp. destruct Hp as [Hp Hc]. split; [|exact Hc].
    eapply Forall_impl; [|exact Hp]. cbn beta. intros a Ha. split; [exact Ha|apply Hcc; exact Ha].
  Qed.

  Lemma dotted_stable_Dotted s : dotted_stable_text s -> Dotted u s.
  Proof. intros [H Hc]. split; [|exact Hc]. eapply Forall_impl; [|exact H]. cbn beta. intros a [Ha _]. exact Ha. Qed.

  Lemma char2_not_apo_from a : char2 u a = true -> ~ In a tc_canonical_apostrophe_from.
  Proof.
    intros Hp Hin. assert (Hb : In a bad2).
    { cbn in Hin. cbn. destruct Hin as [<-|[<-|[<-|[]]]]; tauto. }
    pose proof (char2_not_bad u a a Hp Hb) as X. rewrite N.eqb_refl in X. discriminate.
  Qed.

  Lemma dotted_rel_Rl (src out : text) : ascii_case_faithful ->
    Forall (fun a => char2 u a = true /\ case_stable2 a) src ->
    Forall2 (tc_rel lower upper) src out -> Forall2 (Rl u) src out /\ Forall (fun c => char2 u c = true) out.
  Proof.
    intros Hf HP HR. induction HR as [|a c l l' Hac _ IH]; [split; constructor|].
    inversion HP as [|a' l0 [Pa Hcs] Pl]; subst. destruct (IH Pl) as [IH1 IH2].
    destruct Hac as [Hv|[Hin _]]; [|exfalso; exact (char2_not_apo_from a Pa Hin)].
    destruct (Hcs c Hv) as [->|[(W1 & W2 & Pc)|(W1 & W2 & Pc)]].
    - split; constructor; try assumption. now left.
    - split; constructor; try assumption. right. left. repeat split; try assumption. exact (Hf a c Hv).
    - split; constructor; try assumption. right. right. split; assumption.
  Qed.

  (* RE-LEXING a dotted text: same document tokens, metadata included; the output is dotted again *)
  Theorem str_relex_dotted (src out : text) :
    lower_ascii_law lower -> upper_ascii_law upper -> apostrophes_caseless lower upper -> ascii_case_faithful ->
    dict_meta_case_insensitive ->
    dotted_stable_text src ->
    tcs src = Ok out ->
    doc out = doc src /\ dotted_text u out = true.
  Proof.
    intros Hla Hua Hapo Hf Hdm Hps H. pose proof (dotted_stable_Dotted _ Hps) as Hp. destruct Hps as [Hps Hctx].
    pose proof (str_rel _ _ Hla Hua Hapo H) as HR.
    destruct (dotted_rel_Rl _ _ Hf Hps HR) as [HRl Hp'].
    assert (Hd' : Dotted u out).
    { split; [exact Hp'|]. rewrite (ctx_ok_congr u src out HRl). exact Hctx. }
    split; [|apply dotted_text_Dotted; exact Hd'].
    apply (str_relex_of_lexer src out Hla Hua Hapo Hf Hdm H).
    apply plain_parse_dots; assumption.
  Qed.

  Theorem str_idempotent_dotted (src out : text) :
    lower_ascii_law lower -> upper_ascii_law upper -> apostrophes_caseless lower upper ->
    lowercase_fixed lower is_lowercase -> apostrophes_lower_fixed lower -> ascii_case_faithful ->
    dict_case_insensitive lower upper is_lowercase dict_canon dict_meta ->
    dict_meta_case_insensitive ->
    dotted_stable_text src ->
    tcs src = Ok out ->
    tcs out = Ok out.
  Proof.
    intros Hla Hua Hapo Hfx Hfix Hf Hd Hdm Hp H.
    destruct (str_relex_dotted _ _ Hla Hua Hapo Hf Hdm Hp H) as [Hre _].
    apply (str_idempotent_partial src out Hla Hua Hapo Hfx Hfix Hd H Hre).
  Qed.

  (* the whole property text for a dotted text, about strings *)
  Theorem str_property_dotted (src : text) :
    lower_ascii_law lower -> upper_ascii_law upper -> apostrophes_caseless lower upper ->
    ascii_variant_closed lower upper -> lowercase_fixed lower is_lowercase -> apostrophes_lower_fixed lower ->
    ascii_case_faithful ->
    dict_case_insensitive lower upper is_lowercase dict_canon dict_meta ->
    (forall w cc, dict_canon w = Some cc -> length w <= length cc) ->
    dict_meta_case_insensitive ->
    dotted_stable_text src ->
    exists out,
      tcs src = Ok out /\
      length out = length src /\
      (forall k c, nth_error out k = Some c -> exists a, nth_error src k = Some a /\ case_variant lower upper a c) /\
      (forall toks w0 rest, doc src = Ok toks -> filter tok_word_like toks = w0 :: rest ->
         exists a c, nth_error src (tstart w0) = Some a /\ nth_error out (tstart w0) = Some c /\
                     is_ascii_lower c = false /\ (is_ascii_alpha a = true -> is_ascii_upper c = true)) /\
      tcs out = Ok out.
  Proof.
    intros Hla Hua Hapo Hcl Hfx Hfix Hf Hd Hlen Hdm Hp.
    destruct (str_total src Hlen) as [out H]. exists out. split; [exact H|].
    split; [apply (str_length _ _ H)|]. split; [|split].
    - intros k c Hc. destruct (str_case_only _ _ Hla Hua Hapo H k c Hc) as (a & Ha & Hr).
      exists a. split; [exact Ha|]. destruct Hr as [Hv|[Hin _]]; [exact Hv|].
      exfalso. apply dotted_stable_Dotted in Hp. destruct Hp as [Hp _]. rewrite Forall_forall in Hp.
      apply (char2_not_apo_from a); [apply Hp; eapply nth_error_In; exact Ha|exact Hin].
    - intros toks w0 rest E Hfl. apply (str_first_upper src out toks w0 rest Hcl H E Hfl).
    - apply (str_idempotent_dotted src out Hla Hua Hapo Hfx Hfix Hf Hd Hdm Hp H).
  Qed.
  (* ================= phase 5: texts with DIGITS, periods and the straight apostrophe ================= *)
  (* case_stable for the class of C18LexAlnum: as case_stable2, the variant lies in the larger class (an ASCII
     digit, a period, an apostrophe have no case variant but themselves under the monitored laws) *)
  Definition case_stable3 (a : char) : Prop :=
    forall c, case_variant lower upper a c ->
      c = a \/ (wch u a = true /\ wch u c = true /\ char3 u c = true)
            \/ (ochar u a = true /\ ochar u c = true /\ char3 u c = true).
  Definition alnum_stable_text (s : text) : Prop :=
    Forall (fun a => char3 u a = true /\ case_stable3 a) s /\ ctx_ok3 u None s = true.
  Definition alnum_case_closed : Prop := forall a, char3 u a = true -> case_stable3 a.

  Lemma alnum_stable_of_closed s : alnum_case_closed -> alnum_text u s = true -> alnum_stable_text s.
  Proof.
    intros Hcc Hp. apply alnum_text_Alnum in Hp. destruct Hp as [Hp Hc]. split; [|exact Hc].
    eapply Forall_impl; [|exact Hp]. cbn beta. intros a Ha. split; [exact Ha|apply Hcc; exact Ha].
  Qed.

  Lemma alnum_stable_Alnum s : alnum_stable_text s -> Alnum u s.
  Proof. intros [H Hc]. split; [|exact Hc]. eapply Forall_impl; [|exact H]. cbn beta. intros a [Ha _]. exact Ha. Qed.

  (* phase 6: U+2019 is a character of the class; the guarded copy may write ' over it *)
  Definition apostrophe_in_class : Prop := char3 u 39 = true.

  Lemma char3_apo_from a : char3 u a = true -> In a tc_canonical_apostrophe_from -> a = 8217%N.
  Proof.
    intros Hp Hin. cbn in Hin. destruct Hin as [<-|[<-|[<-|[]]]]; [reflexivity| |].
    - pose proof (char3_not_bad u 8216%N 8216%N Hp ltac:(cbn; tauto)) as X. rewrite N.eqb_refl in X. discriminate.
    - pose proof (char3_not_bad u 65287%N 65287%N Hp ltac:(cbn; tauto)) as X. rewrite N.eqb_refl in X. discriminate.
  Qed.

  Lemma alnum_rel_Rl4 (src out : text) : ascii_case_faithful -> apostrophe_in_class ->
    Forall (fun a => char3 u a = true /\ case_stable3 a) src ->
    Forall2 (tc_rel lower upper) src out -> Forall2 (Rl4 u) src out /\ Forall (fun c => char3 u c = true) out.
  Proof.
    intros Hf H39 HP HR. induction HR as [|a c l l' Hac _ IH]; [split; constructor|].
    inversion HP as [|a' l0 [Pa Hcs] Pl]; subst. destruct (IH Pl) as [IH1 IH2].
    destruct Hac as [Hv|[Hin Hc]].
    - destruct (Hcs c Hv) as [->|[(W1 & W2 & Pc)|(W1 & W2 & Pc)]].
      + split; constructor; try assumption. left. now left.
      + split; constructor; try assumption. left. right. left. repeat split; try assumption. exact (Hf a c Hv).
      + split; constructor; try assumption. left. right. right. split; assumption.
    - pose proof (char3_apo_from a Pa Hin) as ->. change tc_canonical_apostrophe_to with 39%N in Hc. subst c.
      split; constructor; try assumption. right. split; reflexivity.
  Qed.

  (* RE-LEXING a text of the class: same document tokens, metadata included; the output is in the class again *)
  Theorem str_relex_alnum (src out : text) :
    lower_ascii_law lower -> upper_ascii_law upper -> apostrophes_caseless lower upper -> ascii_case_faithful ->
    dict_meta_case_insensitive -> apostrophe_in_class ->
    alnum_stable_text src ->
    tcs src = Ok out ->
    doc out = doc src /\ alnum_text u out = true.
  Proof.
    intros Hla Hua Hapo Hf Hdm H39 Hps H. pose proof (alnum_stable_Alnum _ Hps) as Hp. destruct Hps as [Hps Hctx].
    pose proof (str_rel _ _ Hla Hua Hapo H) as HR.
    destruct (alnum_rel_Rl4 _ _ Hf H39 Hps HR) as [HRl Hp'].
    assert (Hd' : Alnum u out) by (apply (alnum_closed_rl4 u src out HRl Hp Hp')).
    split; [|apply alnum_text_Alnum; exact Hd'].
    apply (str_relex_of_lexer src out Hla Hua Hapo Hf Hdm H).
    apply (proj1 (plain_parse_alnum4 u src out HRl Hp Hd')).
  Qed.

  Theorem str_idempotent_alnum (src out : text) :
    lower_ascii_law lower -> upper_ascii_law upper -> apostrophes_caseless lower upper ->
    lowercase_fixed lower is_lowercase -> apostrophes_lower_fixed lower -> ascii_case_faithful ->
    dict_case_insensitive lower upper is_lowercase dict_canon dict_meta ->
    dict_meta_case_insensitive -> apostrophe_in_class ->
    alnum_stable_text src ->
    tcs src = Ok out ->
    tcs out = Ok out.
  Proof.
    intros Hla Hua Hapo Hfx Hfix Hf Hd Hdm H39 Hp H.
    destruct (str_relex_alnum _ _ Hla Hua Hapo Hf Hdm H39 Hp H) as [Hre _].
    apply (str_idempotent_partial src out Hla Hua Hapo Hfx Hfix Hd H Hre).
  Qed.

  (* the whole property text for a text of the class, about strings *)
  Theorem str_property_alnum (src : text) :
    lower_ascii_law lower -> upper_ascii_law upper -> apostrophes_caseless lower upper ->
    ascii_variant_closed lower upper -> lowercase_fixed lower is_lowercase -> apostrophes_lower_fixed lower ->
    ascii_case_faithful ->
    dict_case_insensitive lower upper is_lowercase dict_canon dict_meta ->
    (forall w cc, dict_canon w = Some cc -> length w <= length cc) ->
    dict_meta_case_insensitive -> apostrophe_in_class ->
    alnum_stable_text src ->
    exists out,
      tcs src = Ok out /\
      length out = length src /\
      (forall k c, nth_error out k = Some c -> exists a, nth_error src k = Some a /\
         (case_variant lower upper a c \/ (a = 8217%N /\ c = 39%N))) /\
      (forall toks w0 rest, doc src = Ok toks -> filter tok_word_like toks = w0 :: rest ->
         exists a c, nth_error src (tstart w0) = Some a /\ nth_error out (tstart w0) = Some c /\
                     is_ascii_lower c = false /\ (is_ascii_alpha a = true -> is_ascii_upper c = true)) /\
      tcs out = Ok out.
  Proof.
    intros Hla Hua Hapo Hcl Hfx Hfix Hf Hd Hlen Hdm H39 Hp.
    destruct (str_total src Hlen) as [out H]. exists out. split; [exact H|].
    split; [apply (str_length _ _ H)|]. split; [|split].
    - intros k c Hc. destruct (str_case_only _ _ Hla Hua Hapo H k c Hc) as (a & Ha & Hr).
      exists a. split; [exact Ha|]. destruct Hr as [Hv|[Hin Hto]]; [left; exact Hv|right].
      apply alnum_stable_Alnum in Hp. destruct Hp as [Hp _]. rewrite Forall_forall in Hp.
      split; [apply (char3_apo_from a); [apply Hp; eapply nth_error_In; exact Ha|exact Hin]|exact Hto].
    - intros toks w0 rest E Hfl. apply (str_first_upper src out toks w0 rest Hcl H E Hfl).
    - apply (str_idempotent_alnum src out Hla Hua Hapo Hfx Hfix Hf Hd Hdm H39 Hp H).
  Qed.
End Str.

(* ================= non-vacuity: the ASCII restriction of Unicode + the example dictionary ================= *)
Lemma ex_plain_case_closed : plain_case_closed ascii_uni ex_lower ex_upper.
Proof.
  intros a Pa c Hv. apply ex_variant_inv in Hv. destruct Hv as [H1 H2].
  destruct (N.eq_dec c a) as [->|Hne]; [now left|right; left].
  (* a and c differ but agree after ascii_lower and after ascii_upper: both are ASCII letters *)
  assert (Hab : ((65 <= a <= 90) \/ (97 <= a <= 122))%N /\ ((65 <= c <= 90) \/ (97 <= c <= 122))%N).
  { destruct (ascii_lower_cases a) as [[Ea Ra]|[Ea Ra]]; destruct (ascii_lower_cases c) as [[Ec Rc]|[Ec Rc]];
      destruct (ascii_upper_cases a) as [[Ua Sa]|[Ua Sa]]; destruct (ascii_upper_cases c) as [[Uc Sc]|[Uc Sc]];
      rewrite ?Ea, ?Ec in H1; rewrite ?Ua, ?Uc in H2; lia. }
  destruct Hab as [Ha Hc].
  assert (W : forall x, ((65 <= x <= 90) \/ (97 <= x <= 122))%N -> wchar ascii_uni x = true /\ plain_char ascii_uni x = true).
  { intros x Hx.
    assert (Al : Lexer.is_ascii_alphabetic x = true).
    { unfold Lexer.is_ascii_alphabetic, Lexer.is_ascii_upper, Lexer.is_ascii_lower, in_range.
      apply Bool.orb_true_iff. destruct Hx as [Hx|Hx]; [left|right]; apply andb_true_intro; split; apply N.leb_le; lia. }
    assert (Dg : is_ascii_digit x = false).
    { unfold is_ascii_digit, in_range. apply Bool.andb_false_iff. destruct Hx; [right|right]; apply N.leb_gt; lia. }
    assert (Np : nopunct x = true).
    { unfold nopunct, mem_n, quote_chars, punct_from_char, currency_from_char. cbn [existsb].
      repeat match goal with |- context [N.eqb x ?k] => destruct (N.eqb_spec x k); [lia|] end. reflexivity. }
    assert (Ws : ws3 x = false).
    { unfold ws3, mem_n. cbn [existsb].
      repeat match goal with |- context [N.eqb x ?k] => destruct (N.eqb_spec x k); [lia|] end. reflexivity. }
    assert (Wx : wchar ascii_uni x = true).
    { unfold wchar, ascii_uni. cbn [u_lingual u_alphabetic u_numeric]. rewrite Al, Dg, Np, Ws. reflexivity. }
    split; [exact Wx|]. unfold plain_char. rewrite Wx, Dg.
    assert (Bd : mem_n x bad_chars = false).
    { unfold mem_n, bad_chars. cbn [existsb].
      repeat match goal with |- context [N.eqb x ?k] => destruct (N.eqb_spec x k); [lia|] end. reflexivity. }
    rewrite Bd. reflexivity. }
  destruct (W a Ha) as [Wa _]. destruct (W c Hc) as [Wc Pc]. repeat split; assumption.
Qed.

Lemma ex_dict_meta_case_insensitive : dict_meta_case_insensitive ex_lower ex_upper ex_meta.
Proof. intros v w H. apply ex_key_rel in H. unfold ex_meta. rewrite H. reflexivity. Qed.

(* "the wordpress of a" is a plain text; the string function gives "The WordPress of A", and again *)
Lemma ex_plain_stable : plain_stable_text ascii_uni ex_lower ex_upper ex_src.
Proof. apply plain_stable_of_closed; [exact ex_plain_case_closed|vm_compute; reflexivity]. Qed.

Lemma ex_str_run :
  plain_text ascii_uni ex_src = true /\
  document_tokens ascii_uni ex_meta ex_src = Ok ex_toks /\
  title_case_str ascii_uni ex_lower ex_upper ex_islower ex_canon ex_meta ex_src = Ok ex_out /\
  title_case_str ascii_uni ex_lower ex_upper ex_islower ex_canon ex_meta ex_out = Ok ex_out.
Proof. repeat split; vm_compute; reflexivity. Qed.

(* ================= the residue is not vacuous: the lexer IS case-sensitive =================
   dictionary: `ss` is a proper noun with canonical spelling `SS`.  `ss.s` lexes as Word Period Word
   (lex_plural_digit takes `ss` because of the lower-case s before the dot), the title-cased text
   `SS.S` as ONE Hostname.  The premise `doc out = doc src` of str_idempotent_partial fails — and yet the
   second conversion changes nothing (a Hostname only has its first character upper-cased). *)
Definition wit_canon (w : text) : option text :=
  if text_eqb (ex_key w) [115; 115]%N then Some [83; 83]%N else None.
Definition wit_meta (w : text) : option wmeta :=
  if text_eqb (ex_key w) [115; 115]%N then Some (mkmeta true false false) else None.
Definition wit_src : text := [115; 115; 46; 115]%N.
Definition wit_out : text := [83; 83; 46; 83]%N.

Lemma relex_unstable_witness :
  title_case_str ascii_uni ex_lower ex_upper ex_islower wit_canon wit_meta wit_src = Ok wit_out /\
  document_tokens ascii_uni wit_meta wit_src
    = Ok [mktok (mkspan 0 2) (KWord (Some (mkmeta true false false))); mktok (mkspan 2 3) KPunct;
          mktok (mkspan 3 4) (KWord None)] /\
  document_tokens ascii_uni wit_meta wit_out = Ok [mktok (mkspan 0 4) KHostname] /\
  plain_text ascii_uni wit_src = false /\
  title_case_str ascii_uni ex_lower ex_upper ex_islower wit_canon wit_meta wit_out = Ok wit_out.
Proof. repeat split; vm_compute; reflexivity. Qed.

(* ================= FC18c: make_title_case_str is NOT idempotent on every text =================
   Same dictionary (`ss` is a proper noun spelt `SS`).  "ss.a'b" lexes as Word(ss) Period Word(a'b) — the
   contraction pass joins a ' b — and becomes "SS.A'b".  That text lexes as Hostname(SS.A) Apostrophe Word(b):
   the second conversion sees a NEW word-like token starting at `b` (the last one, so it is capitalised) and
   returns "SS.A'B".  Every contract the theorems assume holds for this instance (the laws of the case
   mappings, both case-insensitivity contracts of the dictionary, H_canon_len): what fails is exactly the
   residue H_relex of str_idempotent_partial.  The real make_title_case_str does the same with the curated
   dictionary (corpus/C18/relex.json; known finding FC18c; proposed patch fixes/FC18c_plural_digit_case.diff). *)
Definition ref_src : text := [115; 115; 46; 97; 39; 98]%N.
Definition ref_out : text := [83; 83; 46; 65; 39; 98]%N.
Definition ref_out2 : text := [83; 83; 46; 65; 39; 66]%N.

Lemma wit_dict_case_insensitive : dict_case_insensitive ex_lower ex_upper ex_islower wit_canon wit_meta.
Proof.
  intros v w H. apply ex_key_rel in H. unfold wit_canon, wit_meta. rewrite !ex_key_to_lower, H. split; reflexivity.
Qed.
Lemma wit_dict_meta_case_insensitive : dict_meta_case_insensitive ex_lower ex_upper wit_meta.
Proof. intros v w H. apply ex_key_rel in H. unfold wit_meta. rewrite H. reflexivity. Qed.
Lemma wit_canon_len : forall w cc, wit_canon w = Some cc -> length w <= length cc.
Proof.
  intros w cc. unfold wit_canon. destruct (text_eqb (ex_key w) [115; 115]%N) eqn:E; [|discriminate].
  intros H. inversion H; subst cc. apply text_eqb_eq in E.
  apply (f_equal (@length char)) in E. unfold ex_key in E. rewrite map_length in E. rewrite E. cbn. lia.
Qed.

Theorem str_idempotent_refuted :
  exists u lower upper is_lowercase dict_canon dict_meta (src out out2 : text),
    lower_ascii_law lower /\ upper_ascii_law upper /\ apostrophes_caseless lower upper /\
    ascii_variant_closed lower upper /\ lowercase_fixed lower is_lowercase /\ apostrophes_lower_fixed lower /\
    dict_case_insensitive lower upper is_lowercase dict_canon dict_meta /\
    dict_meta_case_insensitive lower upper dict_meta /\
    (forall w cc, dict_canon w = Some cc -> length w <= length cc) /\
    title_case_str u lower upper is_lowercase dict_canon dict_meta src = Ok out /\
    title_case_str u lower upper is_lowercase dict_canon dict_meta out = Ok out2 /\
    out2 <> out /\
    document_tokens u dict_meta out <> document_tokens u dict_meta src.
Proof.
  exists ascii_uni, ex_lower, ex_upper, ex_islower, wit_canon, wit_meta, ref_src, ref_out, ref_out2.
  split; [exact ex_lower_ascii_law|]. split; [exact ex_upper_ascii_law|]. split; [exact ex_apostrophes_caseless|].
  split; [exact ex_ascii_variant_closed|]. split; [exact ex_lowercase_fixed|].
  split; [exact ex_apostrophes_lower_fixed|]. split; [exact wit_dict_case_insensitive|].
  split; [exact wit_dict_meta_case_insensitive|]. split; [exact wit_canon_len|].
  split; [vm_compute; reflexivity|]. split; [vm_compute; reflexivity|]. split; [discriminate|].
  vm_compute. discriminate.
Qed.

(* ================= phase 4: non-vacuity of the new contract and of the dotted class ================= *)
Lemma ex_ascii_case_faithful : ascii_case_faithful ex_lower ex_upper.
Proof.
  intros a c Hv. apply ex_variant_inv in Hv. destruct Hv as [H1 H2]. revert H1 H2.
  unfold ascii_lower, ascii_upper, ickey, to_ascii_lower, Lexer.is_ascii_alphabetic, Lexer.is_ascii_upper,
    Lexer.is_ascii_lower, in_range.
  repeat brkle; cbn [andb orb]; intros; try reflexivity; lia.
Qed.

Lemma plain_char_char2 u c : plain_char u c = true -> char2 u c = true.
Proof.
  intros H. destruct (plain_parts u c H) as [_ [Hd Hcl]].
  assert (Hb : mem_n c bad2 = false).
  { unfold mem_n, bad2. cbn [existsb].
    rewrite !(N.eqb_sym c). 
    rewrite (plain_not_bad u c 64 H), (plain_not_bad u c 58 H), (plain_not_bad u c 91 H), (plain_not_bad u c 39 H),
      (plain_not_bad u c 8217 H), (plain_not_bad u c 8216 H), (plain_not_bad u c 65287 H); cbn; tauto. }
  unfold char2, wch. rewrite Hb, Hd. cbn [negb andb]. rewrite andb_true_r.
  destruct Hcl as [->|[->| ->]]; rewrite ?orb_true_r; reflexivity.
Qed.

Lemma ex_dotted_case_closed : dotted_case_closed ascii_uni ex_lower ex_upper.
Proof.
  intros a Pa c Hv. destruct (N.eq_dec c a) as [->|Hne]; [now left|right; left].
  pose proof (ex_ascii_case_faithful a c Hv) as K. apply ex_variant_inv in Hv. destruct Hv as [H1 H2].
  assert (Hab : ((65 <= a <= 90) \/ (97 <= a <= 122))%N /\ ((65 <= c <= 90) \/ (97 <= c <= 122))%N).
  { destruct (ascii_lower_cases a) as [[Ea Ra]|[Ea Ra]]; destruct (ascii_lower_cases c) as [[Ec Rc]|[Ec Rc]];
      destruct (ascii_upper_cases a) as [[Ua Sa]|[Ua Sa]]; destruct (ascii_upper_cases c) as [[Uc Sc]|[Uc Sc]];
      rewrite ?Ea, ?Ec in H1; rewrite ?Ua, ?Uc in H2; lia. }
  destruct Hab as [Ha Hc].
  assert (W : forall x, ((65 <= x <= 90) \/ (97 <= x <= 122))%N -> wch ascii_uni x = true /\ char2 ascii_uni x = true).
  { intros x Hx.
    assert (Al : Lexer.is_ascii_alphabetic x = true) by (apply alpha_spec; exact Hx).
    assert (Dg : is_ascii_digit x = false).
    { unfold is_ascii_digit, in_range. apply Bool.andb_false_iff. destruct Hx; [right|right]; apply N.leb_gt; lia. }
    assert (Np : nopunct x = true).
    { unfold nopunct, mem_n, quote_chars, punct_from_char, currency_from_char. cbn [existsb].
      repeat match goal with |- context [N.eqb x ?k] => destruct (N.eqb_spec x k); [lia|] end. reflexivity. }
    assert (Ws : ws3 x = false).
    { unfold ws3, mem_n. cbn [existsb].
      repeat match goal with |- context [N.eqb x ?k] => destruct (N.eqb_spec x k); [lia|] end. reflexivity. }
    assert (Wx : wchar ascii_uni x = true).
    { unfold wchar, ascii_uni. cbn [u_lingual u_alphabetic u_numeric]. rewrite Al, Dg, Np, Ws. reflexivity. }
    assert (Wc : wch ascii_uni x = true) by (unfold wch; rewrite Wx, Dg; reflexivity).
    split; [exact Wc|]. unfold char2. rewrite Wc, Dg.
    assert (Bd : mem_n x bad2 = false).
    { unfold mem_n, bad2. cbn [existsb].
      repeat match goal with |- context [N.eqb x ?k] => destruct (N.eqb_spec x k); [lia|] end. reflexivity. }
    rewrite Bd. reflexivity. }
  destruct (W a Ha) as [Wa _]. destruct (W c Hc) as [Wc Pc]. repeat split; assumption.
Qed.

(* "the wordpress. a.b is. etc." : periods, a hostname, a sentence end after `is`, a Latin abbreviation *)
Definition dot_src : text :=
  [116; 104; 101; 32; 119; 111; 114; 100; 112; 114; 101; 115; 115; 46; 32; 97; 46; 98; 32; 105; 115; 46; 32; 101; 116; 99; 46]%N.

Lemma ex_dotted_stable : dotted_stable_text ascii_uni ex_lower ex_upper dot_src.
Proof. apply dotted_stable_of_closed; [exact ex_dotted_case_closed|vm_compute; reflexivity]. Qed.

Lemma ex_dotted_run : exists out,
  plain_text ascii_uni dot_src = false /\ dotted_text ascii_uni dot_src = true /\
  title_case_str ascii_uni ex_lower ex_upper ex_islower ex_canon ex_meta dot_src = Ok out /\ out <> dot_src /\
  title_case_str ascii_uni ex_lower ex_upper ex_islower ex_canon ex_meta out = Ok out /\
  document_tokens ascii_uni ex_meta out = document_tokens ascii_uni ex_meta dot_src /\
  dotted_text ascii_uni out = true /\
  existsb (fun t => match tkind_ t with KHostname => true | _ => false end)
          (match document_tokens ascii_uni ex_meta dot_src with Ok ts => ts | Panic _ => [] end) = true.
Proof.
  eexists. split; [vm_compute; reflexivity|]. split; [vm_compute; reflexivity|].
  split; [vm_compute; reflexivity|]. split; [discriminate|].
  repeat split; vm_compute; reflexivity.
Qed.

(* the FC18c witnesses carry the excluded pattern: they are outside the dotted class (and outside the plain one) *)
Lemma fc18c_outside :
  dotted_text ascii_uni ref_src = false /\ ctx_ok ref_src = false /\ forallb (char2 ascii_uni) wit_src = true /\
  dotted_text ascii_uni wit_src = false /\ ctx_ok wit_src = false.
Proof. repeat split; vm_compute; reflexivity. Qed.

(* case_stable is needed: a toy Unicode table in which U+A7D3 is a word character (lingual) and U+A7D2 a character
   no sub-lexer claims (alphabetic, not lingual) — both plain — makes the lexer tell them apart: a case mapping
   that pairs them (as std pairs characters whose script unicode-script does not know) would let a proper noun's
   canonical spelling turn a Word into an Unlintable token *)
Definition toy_uni : uni :=
  mkuni (fun _ => false) (fun _ => false) (fun c => ((c =? 42963) || (c =? 42962))%N) (fun c => (c =? 42963)%N).
Lemma case_stable_needed :
  plain_text toy_uni [42963%N] = true /\ plain_text toy_uni [42962%N] = true /\
  wchar toy_uni 42963 = true /\ ochar toy_uni 42962 = true /\
  document_plain toy_uni [42963%N] = Ok [Lexer.mktok (mkspan 0 1) Lexer.KWord] /\
  document_plain toy_uni [42962%N] = Ok [Lexer.mktok (mkspan 0 1) Lexer.KUnlintable].
Proof. repeat split; vm_compute; reflexivity. Qed.

(* ================= phase 5: non-vacuity of the class with digits, periods and the apostrophe ================= *)
(* under the ASCII example mappings a case variant other than the character itself is the other case of a letter *)
Lemma ex_variant_wch a c : case_variant ex_lower ex_upper a c ->
  c = a \/ (wch ascii_uni a = true /\ wch ascii_uni c = true /\ char2 ascii_uni c = true).
Proof.
  intros Hv. destruct (N.eq_dec c a) as [->|Hne]; [now left|right].
  assert (Pa : char2 ascii_uni a = true -> case_stable2 ascii_uni ex_lower ex_upper a) by apply ex_dotted_case_closed.
  pose proof (ex_ascii_case_faithful a c Hv) as K. pose proof Hv as Hv0. apply ex_variant_inv in Hv. destruct Hv as [H1 H2].
  assert (Hab : ((65 <= a <= 90) \/ (97 <= a <= 122))%N).
  { destruct (ascii_lower_cases a) as [[Ea Ra]|[Ea Ra]]; destruct (ascii_lower_cases c) as [[Ec Rc]|[Ec Rc]];
      destruct (ascii_upper_cases a) as [[Ua Sa]|[Ua Sa]]; destruct (ascii_upper_cases c) as [[Uc Sc]|[Uc Sc]];
      rewrite ?Ea, ?Ec in H1; rewrite ?Ua, ?Uc in H2; lia. }
  assert (Ca : char2 ascii_uni a = true).
  { assert (Al : Lexer.is_ascii_alphabetic a = true) by (apply alpha_spec; exact Hab).
    assert (Dg : is_ascii_digit a = false).
    { unfold is_ascii_digit, in_range. apply Bool.andb_false_iff. destruct Hab; [right|right]; apply N.leb_gt; lia. }
    assert (Np : nopunct a = true).
    { unfold nopunct, mem_n, quote_chars, punct_from_char, currency_from_char. cbn [existsb].
      repeat match goal with |- context [N.eqb a ?k] => destruct (N.eqb_spec a k); [lia|] end. reflexivity. }
    assert (Ws : ws3 a = false).
    { unfold ws3, mem_n. cbn [existsb].
      repeat match goal with |- context [N.eqb a ?k] => destruct (N.eqb_spec a k); [lia|] end. reflexivity. }
    assert (Wx : wchar ascii_uni a = true).
    { unfold wchar, ascii_uni. cbn [u_lingual u_alphabetic u_numeric]. rewrite Al, Dg, Np, Ws. reflexivity. }
    unfold char2, wch. rewrite Wx, Dg.
    assert (Bd : mem_n a bad2 = false).
    { unfold mem_n, bad2. cbn [existsb].
      repeat match goal with |- context [N.eqb a ?k] => destruct (N.eqb_spec a k); [lia|] end. reflexivity. }
    rewrite Bd. reflexivity. }
  destruct (Pa Ca c Hv0) as [->|[X|(O1 & _)]]; [congruence|exact X|].
  exfalso. destruct (ochar_parts ascii_uni a O1) as [_ [_ [Na _]]].
  assert (Al : Lexer.is_ascii_alphabetic a = true) by (apply alpha_spec; exact Hab).
  unfold is_ascii_alphanumeric in Na. rewrite Al in Na. discriminate.
Qed.

Lemma ex_alnum_case_closed : alnum_case_closed ascii_uni ex_lower ex_upper.
Proof.
  intros a _ c Hv. destruct (ex_variant_wch a c Hv) as [->|(W1 & W2 & P)]; [now left|right; left].
  repeat split; try assumption. apply char2_char3. exact P.
Qed.

(* "the 2nd wordpress isn't v1.5e3. a.b 0xg 3's" : digits (a suffix, a float with exponent, a digit-led word, 0x that is
   no hexadecimal number), a contraction, a possessive of a number that is not the pattern (no look-ahead match),
   periods and a hostname *)
Definition alnum_src : text :=
  [116; 104; 101; 32; 50; 110; 100; 32; 119; 111; 114; 100; 112; 114; 101; 115; 115; 32; 105; 115; 110; 39; 116; 32;
   118; 49; 46; 53; 101; 51; 46; 32; 97; 46; 98; 32; 48; 120; 103; 32; 49; 101; 53; 32; 111; 102; 32; 51; 39; 115; 97]%N.

Lemma ex_alnum_stable : alnum_stable_text ascii_uni ex_lower ex_upper alnum_src.
Proof. apply alnum_stable_of_closed; [exact ex_alnum_case_closed|vm_compute; reflexivity]. Qed.

Lemma ex_alnum_run : exists out,
  plain_text ascii_uni alnum_src = false /\ dotted_text ascii_uni alnum_src = false /\ alnum_text ascii_uni alnum_src = true /\
  title_case_str ascii_uni ex_lower ex_upper ex_islower ex_canon ex_meta alnum_src = Ok out /\ out <> alnum_src /\
  title_case_str ascii_uni ex_lower ex_upper ex_islower ex_canon ex_meta out = Ok out /\
  document_tokens ascii_uni ex_meta out = document_tokens ascii_uni ex_meta alnum_src /\
  alnum_text ascii_uni out = true /\
  existsb (fun t => match tkind_ t with KNumber => true | _ => false end)
          (match document_tokens ascii_uni ex_meta alnum_src with Ok ts => ts | Panic _ => [] end) = true.
Proof.
  eexists. split; [vm_compute; reflexivity|]. split; [vm_compute; reflexivity|]. split; [vm_compute; reflexivity|].
  split; [vm_compute; reflexivity|]. split; [discriminate|].
  repeat split; vm_compute; reflexivity.
Qed.

(* every excluded pattern is witnessed: two texts related by ASCII case that PlainEnglish::parse cuts differently —
   `1s` / `1S` (Q_plural, digit), `as.b` / `AS.B` (Q_plural, hostname = FC18c), `a's` / `A'S` (Q_apos),
   `0x1` / `0X1` (Q_hex); all four lower-case texts consist of class characters only *)
Lemma alnum_patterns_witnessed :
  (forallb (char3 ascii_uni) [49; 115]%N = true /\ q_plural ascii_uni [49; 115]%N = true /\
   plain_parse ascii_uni [49; 83]%N <> plain_parse ascii_uni [49; 115]%N) /\
  (forallb (char3 ascii_uni) [97; 115; 46; 98]%N = true /\ q_plural ascii_uni [97; 115; 46; 98]%N = true /\
   plain_parse ascii_uni [65; 83; 46; 66]%N <> plain_parse ascii_uni [97; 115; 46; 98]%N) /\
  (forallb (char3 ascii_uni) [97; 39; 115]%N = true /\ q_apos ascii_uni [97; 39; 115]%N = true /\
   plain_parse ascii_uni [65; 39; 83]%N <> plain_parse ascii_uni [97; 39; 115]%N) /\
  (forallb (char3 ascii_uni) [48; 120; 49]%N = true /\ q_hex [48; 120; 49]%N = true /\
   plain_parse ascii_uni [48; 88; 49]%N <> plain_parse ascii_uni [48; 120; 49]%N).
Proof. repeat split; try (vm_compute; reflexivity); vm_compute; discriminate. Qed.

(* what the refined hostname clause of Q_plural no longer excludes (C18LexDots' pattern did): `as-is`, `as.b.`;
   what the look-behind admits: `john's` (Q_apos at `n's`, after a word character), `this.is` (Q_plural at `is.is`),
   `mp3s` (Q_plural at `3s`) — while `a's`, `is.is`, `3s` at the start of the text or after a blank stay excluded *)
Lemma alnum_refines_dotted :
  alnum_text ascii_uni [97; 115; 45; 105; 115]%N = true /\ dotted_text ascii_uni [97; 115; 45; 105; 115]%N = false /\
  alnum_text ascii_uni [97; 115; 46; 98; 46]%N = true /\ dotted_text ascii_uni [97; 115; 46; 98; 46]%N = false /\
  alnum_text ascii_uni [106; 111; 104; 110; 39; 115]%N = true /\
  alnum_text ascii_uni [116; 104; 105; 115; 46; 105; 115]%N = true /\ dotted_text ascii_uni [116; 104; 105; 115; 46; 105; 115]%N = false /\
  alnum_text ascii_uni [109; 112; 51; 115]%N = true /\
  alnum_text ascii_uni [32; 97; 39; 115]%N = false /\ alnum_text ascii_uni [105; 115; 46; 105; 115]%N = false /\
  alnum_text ascii_uni [32; 51; 115]%N = false.
Proof. repeat split; vm_compute; reflexivity. Qed.
