(* CondenseInv.v — what every pass of Document::parse does to a token vector, abstractly:
   the vector is cut into consecutive non-empty GROUPS and each group is replaced by ONE token that spans
   from the start of the group's first token to the end of its last, with a kind given by a rule G.
   (`Grouped G ts ts'`).  Grouping preserves tilings whatever G is (grouped_tiling); what a pass means for
   the lexical shape is decided by its G alone.  The per-pass files prove
        Tiling a b ts -> exists ts', pass ts = Ok ts' /\ Grouped G_pass ts ts'. *)
Require Import Base Overlap OverlapProofs Tables_lexer Lexer Condense ListLemmas TokenInv.
From Coq Require Import Lia.

(* ---------- groups ---------- *)
Definition group_start (g : list token) : nat := match g with t :: _ => tstart t | [] => 0 end.
Definition group_end (g : list token) : nat := tend (last g (mktok (mkspan 0 0) KUnlintable)).
Definition group_token (g : list token) (k : tkind) : token := mktok (mkspan (group_start g) (group_end g)) k.

Inductive Grouped (G : list token -> tkind -> Prop) : list token -> list token -> Prop :=
| Grouped_nil : Grouped G [] []
| Grouped_cons : forall g k rest rest',
    g <> [] -> G g k -> Grouped G rest rest' -> Grouped G (g ++ rest) (group_token g k :: rest').

(* the rule "a single token is kept as it is" *)
Definition Gsingle (g : list token) (k : tkind) : Prop := exists t, g = [t] /\ k = tkind_of t.

Lemma group_token_single t : group_token [t] (tkind_of t) = t.
Proof. destruct t as [[a b] k]. reflexivity. Qed.

Lemma grouped_refl (G : list token -> tkind -> Prop) ts :
  (forall t, G [t] (tkind_of t)) -> Grouped G ts ts.
Proof.
  intros HG. induction ts as [|t ts IH]; [constructor|].
  pose proof (Grouped_cons G [t] (tkind_of t) ts ts ltac:(discriminate) (HG t) IH) as H.
  rewrite group_token_single in H. exact H.
Qed.

Lemma grouped_weaken (G G' : list token -> tkind -> Prop) ts ts' :
  (forall g k, G g k -> G' g k) -> Grouped G ts ts' -> Grouped G' ts ts'.
Proof. intros HGG H. induction H; constructor; auto. Qed.

Lemma grouped_app G xs xs' ys ys' : Grouped G xs xs' -> Grouped G ys ys' -> Grouped G (xs ++ ys) (xs' ++ ys').
Proof.
  intros H1 H2. induction H1; [exact H2|]. rewrite <- app_assoc. cbn [app]. constructor; auto.
Qed.

Lemma tiling_group a b g : g <> [] -> Tiling a b g -> group_start g = a /\ group_end g = b /\ a < b.
Proof.
  intros Hne H. induction H as [a|a b t ts Hs Hlt Hts IH]; [contradiction|].
  cbn [group_start]. split; [exact Hs|].
  destruct ts as [|t2 ts2].
  - inversion Hts; subst. unfold group_end. cbn. split; [reflexivity|lia].
  - destruct (IH ltac:(discriminate)) as [_ [He Hl]]. unfold group_end in *. cbn [last] in *.
    split; [exact He|]. lia.
Qed.

(* grouping preserves tilings, whatever the rule *)
Theorem grouped_tiling G ts ts' : Grouped G ts ts' -> forall a b, Tiling a b ts -> Tiling a b ts'.
Proof.
  induction 1 as [|g k rest rest' Hne HG Hrest IH]; intros a b HT; [exact HT|].
  apply tiling_app_inv in HT. destruct HT as [m [Hg Hr]].
  destruct (tiling_group a m g Hne Hg) as [Hs [He Hlt]].
  constructor; unfold group_token, tstart, tend; cbn; [exact Hs|rewrite He; exact Hlt|].
  rewrite He. apply IH. exact Hr.
Qed.

(* ---------- VecExt::remove_indices over a vector built segment by segment ---------- *)
(* a queue whose indices are strictly increasing and all fall inside the first segment is used up there *)
Inductive QueueIn : nat -> nat -> list nat -> Prop :=      (* QueueIn lo hi q : lo <= q0 < q1 < ... < hi *)
| QI_nil : forall lo hi, QueueIn lo hi []
| QI_cons : forall lo hi r q, lo <= r -> r < hi -> QueueIn (S r) hi q -> QueueIn lo hi (r :: q).

Lemma queue_in_weaken lo lo' hi q : lo' <= lo -> QueueIn lo hi q -> QueueIn lo' hi q.
Proof. intros Hl H. destruct H; constructor; auto; lia. Qed.

Lemma remove_indices_ge {A} : forall (xs : list A) i q,
  (forall r, In r q -> i + length xs <= r) -> remove_indices i q xs = xs.
Proof.
  induction xs as [|x xs IH]; intros i q Hq; [reflexivity|].
  destruct q as [|r q']; [apply remove_indices_nil|]. cbn [remove_indices].
  assert (i + length (x :: xs) <= r) as Hr by (apply Hq; left; reflexivity).
  cbn [length] in Hr. replace (i =? r) with false by (symmetry; apply Nat.eqb_neq; lia).
  f_equal. apply IH. intros r' Hin. specialize (Hq r' Hin). cbn [length] in Hq. lia.
Qed.

Lemma remove_indices_app {A} : forall (l1 l2 : list A) i q1 q2,
  QueueIn i (i + length l1) q1 ->
  (forall r, In r q2 -> i + length l1 <= r) ->
  remove_indices i (q1 ++ q2) (l1 ++ l2) = remove_indices i q1 l1 ++ remove_indices (i + length l1) q2 l2.
Proof.
  induction l1 as [|x l1 IH]; intros l2 i q1 q2 HQ Hq2.
  - cbn [length] in *. rewrite Nat.add_0_r in *. inversion HQ; subst; [reflexivity|lia].
  - cbn [app length] in *. destruct q1 as [|r q1'].
    + cbn [app]. rewrite (remove_indices_nil i (x :: l1)). destruct q2 as [|r2 q2'].
      * rewrite !remove_indices_nil. reflexivity.
      * cbn [remove_indices]. assert (i + S (length l1) <= r2) as Hr by (apply Hq2; left; reflexivity).
        replace (i =? r2) with false by (symmetry; apply Nat.eqb_neq; lia).
        specialize (IH l2 (S i) [] (r2 :: q2')). cbn [app] in IH. rewrite IH.
        -- rewrite remove_indices_nil. replace (S i + length l1) with (i + S (length l1)) by lia. reflexivity.
        -- constructor.
        -- intros r' Hin. specialize (Hq2 r' Hin). lia.
    + cbn [app remove_indices]. inversion HQ; subst.
      destruct (i =? r) eqn:E.
      * apply Nat.eqb_eq in E. subst r. rewrite IH.
        -- replace (S i + length l1) with (i + S (length l1)) by lia. reflexivity.
        -- replace (S i + length l1) with (i + S (length l1)) by lia. assumption.
        -- intros r' Hin. specialize (Hq2 r' Hin). lia.
      * apply Nat.eqb_neq in E. specialize (IH l2 (S i) (r :: q1') q2). cbn [app] in IH. rewrite IH.
        -- replace (S i + length l1) with (i + S (length l1)) by lia. reflexivity.
        -- replace (S i + length l1) with (i + S (length l1)) by lia. constructor; auto; lia.
        -- intros r' Hin. specialize (Hq2 r' Hin). lia.
Qed.

(* ================= the grouping rule of each pass ================= *)
Definition dummy_tok : token := mktok (mkspan 0 0) KUnlintable.
Definition tlen (t : token) : nat := tend t - tstart t.

(* condense_spaces on a tiling: a Space token absorbs at most the Space token that follows it *)
Definition G_spaces (g : list token) (k : tkind) : Prop :=
  Gsingle g k \/
  exists t1 t2 n1 n2, g = [t1; t2] /\ tkind_of t1 = KSpace n1 /\ tkind_of t2 = KSpace n2 /\ k = KSpace (n1 + n2).

(* condense_newlines: a maximal run of Newline tokens becomes one Newline with the summed count *)
Definition G_newlines (g : list token) (k : tkind) : Prop :=
  Gsingle g k \/
  exists ns, 2 <= length g /\ map tkind_of g = map KNewline ns /\ k = KNewline (list_sum ns).

(* newlines_to_breaks *)
Definition G_breaks (g : list token) (k : tkind) : Prop :=
  exists t, g = [t] /\ k = tkind_of (newline_to_break t).

(* condense_pattern: a kept match becomes one token whose kind is `edit` of the first token's kind *)
Definition G_pattern (m : list token -> res nat) (edit : tkind -> tkind) (g : list token) (k : tkind) : Prop :=
  Gsingle g k \/
  exists rest, m (g ++ rest) = Ok (length g) /\ k = edit (tkind_of (hd dummy_tok g)).

(* condense_dotted_initialisms: two or more (one-letter word, period) pairs become one Word *)
Inductive InitPairs : list token -> Prop :=
| IP_last : forall w p,
    is_word (tkind_of w) = true -> tlen w = 1 -> is_period (tkind_of p) = true -> InitPairs [w; p]
| IP_more : forall w p r,
    is_word (tkind_of w) = true -> tlen w = 1 -> is_period (tkind_of p) = true -> InitPairs r ->
    InitPairs (w :: p :: r).
Definition G_initialism (g : list token) (k : tkind) : Prop :=
  Gsingle g k \/ (InitPairs g /\ 4 <= length g /\ k = KWord).

(* condense_number_suffixes: Number + two-letter Word that is a suffix *)
Definition with_suffix (nb : number) (s : num_suffix) : number :=
  mknumber (n_neg nb) (n_mant nb) (n_exp10 nb) (Some s) (n_radix nb) (n_precision nb).
Definition G_suffix (src : text) (g : list token) (k : tkind) : Prop :=
  Gsingle g k \/
  exists a b nb cs sfx,
    g = [a; b] /\ tkind_of a = KNumber nb /\ tkind_of b = KWord /\ tlen b = 2 /\
    get_content (tspan b) src = Ok cs /\ suffix_of_chars cs = Some sfx /\ k = KNumber (with_suffix nb sfx).

(* ---------- premises of the generic condense_pattern theorem ---------- *)
(* on every suffix of ts the matcher answers (no panic) and never claims more tokens than there are *)
Definition matcher_ok (m : list token -> res nat) (ts : list token) : Prop :=
  forall i, i <= length ts -> exists n, m (skipn i ts) = Ok n /\ n <= length ts - i.
Definition match_len (m : list token -> res nat) (ts : list token) (i : nat) : nat :=
  match m (skipn i ts) with Ok n => n | Panic _ => 0 end.
(* a later match never ends before an earlier one: what makes find_all_matches' neighbour-only overlap
   removal leave pairwise disjoint matches *)
Definition monotone_ends (m : list token -> res nat) (ts : list token) : Prop :=
  forall i j, i < j -> j < length ts -> 0 < match_len m ts i -> 0 < match_len m ts j ->
              i + match_len m ts i <= j + match_len m ts j.

(* ---------- match_quotes ---------- *)
Definition quote_twin (t : token) : option (option nat) :=
  match tkind_of t with KPunct (PQuote tw) => Some tw | _ => None end.
(* before match_quotes no quote token has a twin (lex_quote emits None, no pass touches it) *)
Definition NoTwins (ts : list token) : Prop :=
  Forall (fun t => forall tw, quote_twin t = Some tw -> tw = None) ts.
Definition strip_twin (k : tkind) : tkind :=
  match k with KPunct (PQuote _) => KPunct (PQuote None) | _ => k end.
(* same spans, same kinds except the twin_loc field of quote tokens *)
Definition SameButTwins (ts ts' : list token) : Prop :=
  map tspan ts' = map tspan ts /\
  map (fun t => strip_twin (tkind_of t)) ts' = map (fun t => strip_twin (tkind_of t)) ts.
(* quote tokens point at existing twin quotes *)
Definition QuotesOk (ts : list token) : Prop :=
  forall i t j, nth_error ts i = Some t -> quote_twin t = Some (Some j) ->
    j <> i /\ exists t', nth_error ts j = Some t' /\ quote_twin t' = Some (Some i).

(* G_pattern with the context: the group and what follows it are a part of the vector ts the pass ran on
   (so facts known for every token of ts are available for `rest` too) *)
Definition G_pattern_in (ts : list token) (m : list token -> res nat) (edit : tkind -> tkind)
  (g : list token) (k : tkind) : Prop :=
  Gsingle g k \/
  exists pre rest, ts = pre ++ g ++ rest /\ m (g ++ rest) = Ok (length g) /\ k = edit (tkind_of (hd dummy_tok g)).
