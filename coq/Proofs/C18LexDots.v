(* C18LexDots.v — the lexer half of C18 on a class with PERIODS (phase 4), over C02's frozen Lexer.v.

   Phase 3 proved that PlainEnglish::parse does not see which word character stands at a position of a
   PLAIN text, a class without `.`.  With `.` in the text lex_hostname_token is alive and the lexer IS
   case-sensitive: lex_plural_digit cuts `[A-Za-z0-9]s` before a non-alphanumeric character only for a
   LOWER-case s, so `as.b` is Word Period Word while `AS.B` is one Hostname (FC18c).  This file proves that
   this is the ONLY way a period makes the lexer case-sensitive:

     dotted text   every character is a word character (not an ASCII digit), a blank, a punctuation / quote
                   character other than  @ : [ ' ’ ‘ ＇  — the period is allowed —, or a character no sub-lexer
                   claims; no ASCII digit; and the text has no occurrence of the FC18c pattern
                        [A-Za-z] [sS] [.-] [A-Za-z0-9.-]
     Rl u a c      a = c, or both word characters with the same ASCII-letter key (an ASCII letter may only
                   change its case, a non-ASCII word character may become any non-ASCII word character), or
                   both characters no sub-lexer claims
     plain_parse_dots : Forall2 (Rl u) s s' -> Dotted u s -> Dotted u s' -> plain_parse u s' = plain_parse u s

   (hostnames, initialisms, ellipses, Latin abbreviations included: sub-lexer by sub-lexer; the passes are
   C18PassesIC.document_passes_ic, which needs no class at all). *)
Require Import Base Overlap OverlapProofs Tables_lexer Lexer Condense ListLemmas LexerProofs Shape C18LexStable C18PassesIC.
From Coq Require Import Lia.

Definition bad2 : list N := [64; 58; 91; 39; 8217; 8216; 65287]%N.
Definition wch (u : uni) (c : N) : bool := wchar u c && negb (is_ascii_digit c).
Definition char2 (u : uni) (c : N) : bool :=
  negb (mem_n c bad2) && negb (is_ascii_digit c) && (wch u c || ichar u c || ochar u c).

Definition is_s (c : N) : bool := ceq c 115 || ceq c 83.
(* the FC18c pattern at the head of a text *)
Definition fc18c_here (s : text) : bool :=
  match s with
  | c0 :: c1 :: c2 :: c3 :: _ => is_ascii_alphabetic c0 && is_s c1 && (ceq c2 46 || ceq c2 45) && host_char c3
  | _ => false
  end.
Fixpoint ctx_ok (s : text) : bool :=
  match s with [] => true | _ :: r => negb (fc18c_here s) && ctx_ok r end.
Definition dotted_text (u : uni) (s : text) : bool := forallb (char2 u) s && ctx_ok s.

Definition Rl (u : uni) (a c : N) : Prop :=
  a = c \/ (wch u a = true /\ wch u c = true /\ ickey a = ickey c) \/ (ochar u a = true /\ ochar u c = true).

Lemma ctx_ok_skipn n : forall s, ctx_ok s = true -> ctx_ok (skipn n s) = true.
Proof.
  induction n as [|n IH]; intros s H; [exact H|]. destruct s as [|c r]; [exact H|].
  cbn [skipn]. apply IH. cbn [ctx_ok] in H. apply andb_prop in H. apply H.
Qed.

(* ---------- keys ---------- *)
Lemma alpha_key c : is_ascii_alphabetic c = negb (ickey c =? 0)%N.
Proof.
  destruct (is_ascii_alphabetic c) eqn:H.
  - pose proof (ickey_alpha c H) as K. destruct (N.eqb_spec (ickey c) 0); [lia|reflexivity].
  - rewrite (ickey_nonalpha c H). reflexivity.
Qed.

Lemma is_s_key c : is_s c = (ickey c =? 115)%N.
Proof.
  unfold is_s, ceq. destruct (ickey_cases c) as [[H ->]|[[H ->]|[H ->]]].
  - apply nonalpha_range in H. repeat brkeq; try reflexivity; lia.
  - repeat brkeq; try reflexivity; lia.
  - repeat brkeq; try reflexivity; lia.
Qed.

Section Dots.
  Variable u : uni.
  Definition Dotted (s : text) : Prop := Forall (fun c => char2 u c = true) s /\ ctx_ok s = true.

  Lemma dotted_text_Dotted s : dotted_text u s = true <-> Dotted s.
  Proof.
    unfold dotted_text, Dotted. rewrite Bool.andb_true_iff, forallb_forall, Forall_forall. reflexivity.
  Qed.

  Lemma Dotted_skipn n s : Dotted s -> Dotted (skipn n s).
  Proof. intros [H1 H2]. split; [apply Forall_skipn_c18; exact H1|apply ctx_ok_skipn; exact H2]. Qed.

  Lemma wch_parts c : wch u c = true -> wchar u c = true /\ is_ascii_digit c = false.
  Proof. unfold wch. intros H. apply andb_prop in H. destruct H as [H1 H2]. apply negb_true_iff in H2. auto. Qed.

  Lemma char2_parts c : char2 u c = true ->
    mem_n c bad2 = false /\ is_ascii_digit c = false /\ (wch u c = true \/ ichar u c = true \/ ochar u c = true).
  Proof.
    unfold char2. intros H. apply andb_prop in H. destruct H as [H H3]. apply andb_prop in H. destruct H as [H1 H2].
    apply negb_true_iff in H1, H2. split; [exact H1|]. split; [exact H2|].
    apply orb_prop in H3. destruct H3 as [H3|H3]; [apply orb_prop in H3; destruct H3 as [H3|H3]|]; auto.
  Qed.

  Lemma char2_not_bad c b : char2 u c = true -> In b bad2 -> N.eqb b c = false.
  Proof.
    intros H Hb. destruct (char2_parts c H) as [Hm _]. unfold mem_n in Hm.
    destruct (N.eqb b c) eqn:E; [|reflexivity]. apply N.eqb_eq in E. subst c.
    assert (existsb (N.eqb b) bad2 = true) as X.
    { apply existsb_exists. exists b. split; [exact Hb|apply N.eqb_refl]. }
    congruence.
  Qed.

  Lemma Dotted_noc s b : Dotted s -> In b bad2 -> noc b s.
  Proof. intros [H _] Hb x Hx. rewrite Forall_forall in H. apply char2_not_bad; auto. Qed.

  (* a character of the class that is an ASCII letter or digit is a word character (an ASCII letter) *)
  Lemma char2_ascii_alnum c : char2 u c = true -> is_ascii_alphanumeric c = true ->
    wch u c = true /\ is_ascii_alphabetic c = true.
  Proof.
    intros H L. destruct (char2_parts c H) as [_ [Hd [W|[I|O]]]].
    - split; [exact W|]. unfold is_ascii_alphanumeric in L. rewrite Hd, orb_false_r in L. exact L.
    - destruct (ichar_parts u c I) as [_ [_ [I3 _]]]. congruence.
    - destruct (ochar_parts u c O) as [_ [_ [O3 _]]]. congruence.
  Qed.

  (* a character of the class that is not alphanumeric is no part of a word and not an ASCII letter or digit *)
  Lemma char2_not_alnum c : char2 u c = true -> u_alphanumeric u c = false ->
    lw u c = false /\ is_ascii_alphanumeric c = false.
  Proof.
    intros H A. destruct (char2_parts c H) as [_ [Hd [W|[I|O]]]].
    - destruct (wch_parts c W) as [W1 _]. destruct (wchar_parts u c W1) as [_ [Al _]].
      unfold u_alphanumeric in A. rewrite Al in A. discriminate.
    - destruct (ichar_parts u c I) as [I1 [_ [I3 _]]]. split; [|exact I3]. unfold lw. rewrite I1, Hd. reflexivity.
    - destruct (ochar_parts u c O) as [O1 [_ [O3 _]]]. split; [|exact O3]. unfold lw. rewrite O1, Hd. reflexivity.
  Qed.

  Lemma host_char_cases d : host_char d = true -> is_ascii_alphanumeric d = false -> ceq d 46 || ceq d 45 = true.
  Proof.
    unfold host_char. intros H N. rewrite N in H. cbn [orb] in H. rewrite orb_comm. exact H.
  Qed.

  (* ================= lex_plural_digit on a dotted text =================
     it declines, or it cuts a two-character word that lex_hostname_token does not claim and lex_word cuts alike *)
  Lemma plural_dotted (c : N) (r : list N) : Dotted (c :: r) -> wch u c = true ->
    lex_plural_digit u (c :: r) = None \/
    (lex_plural_digit u (c :: r) = Some (2, KWord) /\ lex_hostname_token (c :: r) = None /\ count_while (lw u) (c :: r) = 2).
  Proof.
    intros HD W. destruct (wch_parts c W) as [Wc Dc]. pose proof HD as [HP HC].
    unfold lex_plural_digit.
    destruct (is_ascii_alphanumeric c) eqn:Ac; cbn [negb]; [|now left].
    assert (Hn39 : noc 39 (c :: r)) by (apply Dotted_noc; [exact HD|cbn; tauto]).
    inversion HP as [|c' r' Pc Pr]; subst.
    destruct (char2_ascii_alnum c Pc Ac) as [_ Alc].
    destruct r as [|c1 t]; [now left|].
    assert (E39 : ceq c1 39 = false).
    { unfold ceq. rewrite N.eqb_sym. apply Hn39. right. now left. }
    rewrite E39. destruct (ceq c1 115) eqn:E115; [|now left].
    unfold ceq in E115. apply N.eqb_eq in E115. subst c1.
    inversion Pr as [|c1' t' Ps Pt]; subst.
    destruct (char2_ascii_alnum 115 Ps eq_refl) as [Ws _]. destruct (wch_parts _ Ws) as [Ws1 _].
    assert (Hc : host_char c = true) by (unfold host_char; rewrite Ac; reflexivity).
    assert (LH : lex_hostname (c :: 115%N :: t) = Some (S (S (count_while host_char t)))).
    { unfold lex_hostname. rewrite Ac. cbn [count_while]. rewrite Hc. reflexivity. }
    destruct t as [|d t2].
    - right. split; [reflexivity|]. split.
      + unfold lex_hostname_token. rewrite LH. reflexivity.
      + cbn [count_while]. rewrite (wchar_lw u c Wc), (wchar_lw u _ Ws1). reflexivity.
    - destruct (u_alphanumeric u d) eqn:Ad; cbn [negb]; [now left|].
      right. split; [reflexivity|].
      inversion Pt as [|d' t2' Pd Pt2]; subst. destruct (char2_not_alnum d Pd Ad) as [Ld Nd].
      split.
      + (* no hostname: the run of host characters ends after `s`, or after one `.` / `-` *)
        unfold lex_hostname_token. rewrite LH. cbn [count_while].
        destruct (host_char d) eqn:Hd; [|reflexivity].
        pose proof (host_char_cases d Hd Nd) as Hdd.
        cbn [ctx_ok] in HC. apply andb_prop in HC. destruct HC as [HC0 _]. apply negb_true_iff in HC0.
        destruct t2 as [|c3 t3]; [destruct (ceq d 46) eqn:E46; reflexivity|].
        unfold fc18c_here in HC0. rewrite Alc, Hdd in HC0. cbn [is_s ceq] in HC0.
        change (is_s 115) with true in HC0. cbn [andb] in HC0. cbn [count_while]. rewrite HC0. reflexivity.
      + cbn [count_while]. rewrite (wchar_lw u c Wc), (wchar_lw u _ Ws1), Ld. reflexivity.
  Qed.

  (* ================= lex_token on a dotted text ================= *)
  Definition dots_lex (src : text) : option (nat * tkind) :=
    match src with
    | [] => None
    | c0 :: _ =>
        if wch u c0 then or_else (lex_hostname_token src) (Some (count_while (lw u) src, KWord))
        else if ceq 9 c0 then Some (count_while (ceq 9) src, KSpace (count_while (ceq 9) src * 2))
        else if ceq 32 c0 then Some (count_while (ceq 32) src, KSpace (count_while (ceq 32) src))
        else if ceq 10 c0 then Some (count_while (ceq 10) src, KNewline (count_while (ceq 10) src))
        else if mem_n c0 quote_chars then Some (1, KPunct (PQuote None))
        else match punct_from_char c0 with Some p => Some (1, KPunct p) | None => Some (1, KUnlintable) end
    end.

  Lemma hostname_none_first (c : N) (r : list N) : is_ascii_alphanumeric c = false -> lex_hostname_token (c :: r) = None.
  Proof. intros H. unfold lex_hostname_token, lex_hostname. rewrite H. reflexivity. Qed.

  Lemma lex_token_dotted (c : N) (r : list N) : Dotted (c :: r) -> lex_token u (c :: r) = dots_lex (c :: r).
  Proof.
    intros HD. pose proof HD as [HP _]. inversion HP as [|c' r' Pc Pr]; subst.
    assert (N91 : ceq c 91 = false).
    { unfold ceq. rewrite N.eqb_sym. apply (char2_not_bad c 91 Pc). cbn; tauto. }
    assert (U : lex_url u (c :: r) = None) by (apply url_none, Dotted_noc; [exact HD|cbn; tauto]).
    assert (E : lex_email_address u (c :: r) = None) by (apply email_none, Dotted_noc; [exact HD|cbn; tauto]).
    destruct (char2_parts c Pc) as [_ [Hd Hcl]].
    unfold lex_token. rewrite (regexish_none u c r N91), (hex_none u c r Hd), (decade_none u c r Hd), U, E.
    cbn [or_else].
    destruct (wch u c) eqn:W.
    - destruct (wch_parts c W) as [Wc _].
      destruct (wchar_parts u c Wc) as [L [_ [Nn [Np Nw]]]]. destruct (ws3_false c Nw) as [T [Nl S]].
      rewrite (punctuation_none c r Np), (tabs_none c r T), (spaces_none c r S), (newlines_none c r Nl),
        (number_none u c r Nn).
      cbn [or_else]. unfold dots_lex. rewrite W.
      assert (LW : lex_word u (c :: r) = Some (count_while (lw u) (c :: r), KWord)).
      { unfold lex_word. fold (lw u). rewrite (count_while_first_true (lw u) c r (wchar_lw u c Wc)). reflexivity. }
      destruct (plural_dotted c r HD W) as [P|[P [H0 C2]]]; rewrite P; cbn [or_else].
      + rewrite LW. reflexivity.
      + rewrite H0, C2. reflexivity.
    - destruct Hcl as [W'|[I|O]]; [congruence| |].
      + destruct (ichar_parts u c I) as [_ [_ [Na Hk]]]. unfold dots_lex. rewrite W.
        destruct (ws3 c) eqn:B.
        * apply ws3_true in B. destruct B as [->|[->| ->]]; reflexivity.
        * destruct Hk as [Hk|Hk]; [discriminate|]. destruct (ws3_false c B) as [T [Nl S]].
          rewrite T, S, Nl. unfold lex_punctuation, lex_quote.
          unfold nopunct in Hk. destruct (mem_n c quote_chars); [reflexivity|]. cbn [negb andb] in Hk.
          destruct (punct_from_char c); [reflexivity|discriminate].
      + destruct (ochar_parts u c O) as [Nl [Nn [Na [Np Nw]]]]. destruct (ws3_false c Nw) as [T [Nnl S]].
        rewrite (punctuation_none c r Np), (tabs_none c r T), (spaces_none c r S), (newlines_none c r Nnl),
          (number_none u c r Nn), (plural_not_alnum u c r Na), (hostname_none_first c r Na).
        cbn [or_else]. unfold dots_lex. rewrite W, T, S, Nnl.
        destruct (nopunct_parts c Np) as [Q Pn]. rewrite Q, Pn.
        unfold lex_word.
        assert (Z : count_while (fun c0 => u_lingual u c0 || is_ascii_digit c0) (c :: r) = 0).
        { apply count_while_first_false. rewrite Nl, Hd. reflexivity. }
        rewrite Z. reflexivity.
  Qed.

  (* ================= what Rl preserves ================= *)
  Lemma Rl_Ric a c : Rl u a c -> Ric a c.
  Proof.
    intros [->|[[_ [_ H]]|[H1 H2]]]; [reflexivity|exact H|].
    destruct (ochar_parts u a H1) as [_ [_ [Na _]]]. destruct (ochar_parts u c H2) as [_ [_ [Nc _]]].
    unfold is_ascii_alphanumeric in Na, Nc. apply orb_false_elim in Na, Nc.
    unfold Ric. rewrite (ickey_nonalpha a (proj1 Na)), (ickey_nonalpha c (proj1 Nc)). reflexivity.
  Qed.

  Lemma ochar_not_wch c : ochar u c = true -> wch u c = false.
  Proof. intros O. unfold wch. destruct (ochar_not_w u c O) as [-> _]. reflexivity. Qed.

  Lemma Rl_wch a c : Rl u a c -> wch u c = wch u a.
  Proof.
    intros [->|[[H1 [H2 _]]|[H1 H2]]]; [reflexivity|congruence|].
    rewrite (ochar_not_wch a H1), (ochar_not_wch c H2). reflexivity.
  Qed.

  Lemma Rl_lw a c : Rl u a c -> lw u a = lw u c.
  Proof.
    intros [->|[[H1 [H2 _]]|[H1 H2]]]; [reflexivity| |].
    - destruct (wch_parts a H1) as [A _]. destruct (wch_parts c H2) as [C _].
      rewrite (wchar_lw u a A), (wchar_lw u c C). reflexivity.
    - destruct (ochar_not_w u a H1) as [_ ->]. destruct (ochar_not_w u c H2) as [_ ->]. reflexivity.
  Qed.

  (* two different related characters are neither blanks nor punctuation, and no ASCII digits *)
  Lemma Rl_neq_parts a c : Rl u a c -> a = c \/
    (nopunct a = true /\ ws3 a = false /\ is_ascii_digit a = false /\
     nopunct c = true /\ ws3 c = false /\ is_ascii_digit c = false).
  Proof.
    intros [->|[[H1 [H2 _]]|[H1 H2]]]; [now left| |]; right.
    - destruct (wch_parts a H1) as [A Da]. destruct (wch_parts c H2) as [C Dc].
      destruct (wchar_parts u a A) as [_ [_ [_ [Pa Wa]]]]. destruct (wchar_parts u c C) as [_ [_ [_ [Pc Wc]]]]. tauto.
    - destruct (ochar_parts u a H1) as [_ [_ [Na [Pa Wa]]]]. destruct (ochar_parts u c H2) as [_ [_ [Nc [Pc Wc]]]].
      unfold is_ascii_alphanumeric in Na, Nc. apply orb_false_elim in Na, Nc. tauto.
  Qed.

  (* a constant that is a blank or a punctuation character is met by both or by neither *)
  Lemma Rl_ceq_const k a c : (ws3 k = true \/ nopunct k = false) -> Rl u a c -> ceq k a = ceq k c.
  Proof.
    intros Hk HR. destruct (Rl_neq_parts a c HR) as [->|(Pa & Wa & _ & Pc & Wc & _)]; [reflexivity|].
    unfold ceq. destruct (N.eqb_spec k a) as [->|_]; [destruct Hk; congruence|].
    destruct (N.eqb_spec k c) as [->|_]; [destruct Hk; congruence|]. reflexivity.
  Qed.

  Lemma Rl_alnum a c : Rl u a c -> is_ascii_alphanumeric a = is_ascii_alphanumeric c.
  Proof.
    intros HR. pose proof (Rl_Ric a c HR) as K. unfold Ric in K.
    destruct (Rl_neq_parts a c HR) as [->|(_ & _ & Da & _ & _ & Dc)]; [reflexivity|].
    unfold is_ascii_alphanumeric. rewrite Da, Dc, !alpha_key, K. reflexivity.
  Qed.

  Lemma Rl_host a c : Rl u a c -> host_char a = host_char c.
  Proof.
    intros HR. unfold host_char. rewrite (Rl_alnum a c HR).
    assert (E : forall k, (ws3 k = true \/ nopunct k = false) -> ceq a k = ceq c k).
    { intros k Hk. unfold ceq. rewrite (N.eqb_sym a k), (N.eqb_sym c k). apply (Rl_ceq_const k a c Hk HR). }
    rewrite (E 45%N), (E 46%N); [reflexivity| |]; right; reflexivity.
  Qed.

  Lemma Rl_tail_kind a c : Rl u a c -> wch u a = false ->
    (if mem_n c quote_chars then Some (1, KPunct (PQuote None))
     else match punct_from_char c with Some p => Some (1, KPunct p) | None => Some (1, KUnlintable) end)
    = (if mem_n a quote_chars then Some (1, KPunct (PQuote None))
       else match punct_from_char a with Some p => Some (1, KPunct p) | None => Some (1, KUnlintable) end).
  Proof.
    intros [->|[[H1 _]|[H1 H2]]] W; [reflexivity|congruence|].
    destruct (ochar_parts u a H1) as [_ [_ [_ [Pa _]]]]. destruct (ochar_parts u c H2) as [_ [_ [_ [Pc _]]]].
    destruct (nopunct_parts a Pa) as [-> ->]. destruct (nopunct_parts c Pc) as [-> ->]. reflexivity.
  Qed.

  (* ================= lex_hostname_token is a congruence ================= *)
  Lemma mem46_congr l l' : Forall2 (Rl u) l l' -> mem_n 46 l' = mem_n 46 l.
  Proof.
    intros H. unfold mem_n. induction H as [|a c l l' Hac _ IH]; [reflexivity|]. cbn [existsb].
    change (N.eqb 46 c) with (ceq 46 c). change (N.eqb 46 a) with (ceq 46 a).
    rewrite <- (Rl_ceq_const 46 a c (or_intror eq_refl) Hac), IH. reflexivity.
  Qed.

  Lemma nth_error_Forall2 {A B} (R : A -> B -> Prop) l l' : Forall2 R l l' -> forall n,
    match nth_error l n, nth_error l' n with
    | Some a, Some c => R a c
    | None, None => True
    | _, _ => False
    end.
  Proof.
    intros H. induction H as [|a c l l' Hac _ IH]; intros [|n]; cbn; auto. apply IH.
  Qed.

  Lemma hostname_token_congr s s' : Forall2 (Rl u) s s' -> lex_hostname_token s' = lex_hostname_token s.
  Proof.
    intros H. unfold lex_hostname_token, lex_hostname.
    destruct H as [|a c l l' Hac Hl]; [reflexivity|].
    assert (HF : Forall2 (Rl u) (a :: l) (c :: l')) by (constructor; assumption).
    rewrite <- (Rl_alnum a c Hac). destruct (is_ascii_alphanumeric a); [|reflexivity].
    rewrite (count_while_congr host_char (a :: l) (c :: l'))
      by (eapply Forall2_impl_c18; [|exact HF]; intros x y Hxy; apply Rl_host; exact Hxy).
    set (len := count_while host_char (a :: l)).
    destruct (len <=? 1); [reflexivity|].
    match goal with |- (if negb ?x then _ else _) = (if negb ?y then _ else _) =>
      replace x with y by (symmetry; apply mem46_congr; apply Forall2_slice_ic; exact HF); destruct (negb y); [reflexivity|] end.
    unfold text, char in *. pose proof (nth_error_Forall2 _ _ _ HF (len - 1)) as N.
    destruct (nth_error (a :: l) (len - 1)) as [x|]; destruct (nth_error (c :: l') (len - 1)) as [y|]; try contradiction; [|reflexivity].
    assert (E : ceq y 46 = ceq x 46).
    { unfold ceq. rewrite (N.eqb_sym y 46), (N.eqb_sym x 46). symmetry. apply (Rl_ceq_const 46 x y (or_intror eq_refl) N). }
    rewrite E. reflexivity.
  Qed.

  (* ================= dots_lex, plain_loop, plain_parse are congruences ================= *)
  Lemma Rl_ws k a c : In k [9; 10; 32]%N -> Rl u a c -> ceq k a = ceq k c.
  Proof.
    intros Hk. apply Rl_ceq_const. left. cbn in Hk. destruct Hk as [<-|[<-|[<-|[]]]]; reflexivity.
  Qed.

  Lemma dots_lex_congr s s' : Forall2 (Rl u) s s' -> dots_lex s' = dots_lex s.
  Proof.
    intros H. destruct H as [|a c l l' Hac Hl]; [reflexivity|].
    assert (HF : Forall2 (Rl u) (a :: l) (c :: l')) by (constructor; assumption).
    unfold dots_lex. rewrite (Rl_wch a c Hac). destruct (wch u a) eqn:W.
    - rewrite (hostname_token_congr _ _ HF).
      rewrite (count_while_congr (lw u) (a :: l) (c :: l')); [reflexivity|].
      eapply Forall2_impl_c18; [|exact HF]. intros x y Hxy. apply Rl_lw. exact Hxy.
    - rewrite (count_while_congr (ceq 9) (a :: l) (c :: l'))
        by (eapply Forall2_impl_c18; [|exact HF]; intros x y Hxy; apply Rl_ws; [cbn; tauto|exact Hxy]).
      rewrite (count_while_congr (ceq 32) (a :: l) (c :: l'))
        by (eapply Forall2_impl_c18; [|exact HF]; intros x y Hxy; apply Rl_ws; [cbn; tauto|exact Hxy]).
      rewrite (count_while_congr (ceq 10) (a :: l) (c :: l'))
        by (eapply Forall2_impl_c18; [|exact HF]; intros x y Hxy; apply Rl_ws; [cbn; tauto|exact Hxy]).
      rewrite <- (Rl_ws 9 a c ltac:(cbn; tauto) Hac), <- (Rl_ws 32 a c ltac:(cbn; tauto) Hac),
        <- (Rl_ws 10 a c ltac:(cbn; tauto) Hac).
      rewrite (Rl_tail_kind a c Hac W). reflexivity.
  Qed.

  Lemma plain_loop_dots : forall fuel cursor s s',
    Forall2 (Rl u) s s' -> Dotted s -> Dotted s' ->
    plain_loop u fuel cursor s' = plain_loop u fuel cursor s.
  Proof.
    induction fuel as [|f IH]; intros cursor s s' HR HP HP'.
    - destruct HR; reflexivity.
    - destruct HR as [|a c l l' Hac Hl]; [reflexivity|].
      assert (HF : Forall2 (Rl u) (a :: l) (c :: l')) by (constructor; assumption).
      cbn [plain_loop]. rewrite (lex_token_dotted c l' HP'), (lex_token_dotted a l HP), (dots_lex_congr _ _ HF).
      destruct (dots_lex (a :: l)) as [[n k]|]; [|reflexivity].
      destruct (span_new cursor (cursor + n)) as [sp|]; [|reflexivity]. cbn [bind].
      match goal with |- bind ?x _ = bind ?y _ => replace x with y; [reflexivity|] end.
      symmetry. apply IH.
      + apply Forall2_skipn_c18. exact HF.
      + apply Dotted_skipn. exact HP.
      + apply Dotted_skipn. exact HP'.
  Qed.

  Theorem plain_parse_dots (s s' : text) : Forall2 (Rl u) s s' -> Dotted s -> Dotted s' -> plain_parse u s' = plain_parse u s.
  Proof.
    intros HR HP HP'. unfold plain_parse.
    assert (L : length s' = length s) by (symmetry; exact (Forall2_length_c18 _ _ _ HR)).
    rewrite L. apply plain_loop_dots; assumption.
  Qed.

  (* Document::new_plain_english: lexer (this file) + passes (C18PassesIC, any token list) *)
  Theorem document_plain_dots (s s' : text) : Forall2 (Rl u) s s' -> Dotted s -> Dotted s' ->
    document_plain u s' = document_plain u s.
  Proof.
    intros HR HP HP'. unfold document_plain. rewrite (plain_parse_dots s s' HR HP HP').
    destruct (plain_parse u s) as [t0|]; cbn [bind]; [|reflexivity].
    apply document_passes_ic. eapply Forall2_impl_c18; [|exact HR]. intros a c. apply Rl_Ric.
  Qed.

  (* the pattern is closed under Rl: a related text of the same characters' classes has it at the same places *)
  Lemma fc18c_here_congr s s' : Forall2 (Rl u) s s' -> fc18c_here s' = fc18c_here s.
  Proof.
    intros H. unfold fc18c_here.
    destruct H as [|c0 d0 l l' H0 H]; [reflexivity|]. destruct H as [|c1 d1 l l' H1 H]; [reflexivity|].
    destruct H as [|c2 d2 l l' H2 H]; [reflexivity|]. destruct H as [|c3 d3 l l' H3 H]; [reflexivity|].
    pose proof (Rl_Ric _ _ H0) as K0. pose proof (Rl_Ric _ _ H1) as K1. unfold Ric in K0, K1.
    rewrite !alpha_key, !is_s_key, K0, K1, (Rl_host _ _ H3).
    assert (E : forall k, (ws3 k = true \/ nopunct k = false) -> ceq d2 k = ceq c2 k).
    { intros k Hk. unfold ceq. rewrite (N.eqb_sym d2 k), (N.eqb_sym c2 k). symmetry. apply (Rl_ceq_const k c2 d2 Hk H2). }
    rewrite (E 45%N), (E 46%N); [reflexivity| |]; right; reflexivity.
  Qed.

  Lemma ctx_ok_congr s s' : Forall2 (Rl u) s s' -> ctx_ok s' = ctx_ok s.
  Proof.
    intros H. induction H as [|a c l l' Hac Hl IH]; [reflexivity|].
    cbn [ctx_ok]. rewrite IH, (fc18c_here_congr (a :: l) (c :: l')); [reflexivity|constructor; assumption].
  Qed.
End Dots.

Theorem lex_dots_stable u (s s' : text) : Forall2 (Rl u) s s' -> Dotted u s -> Dotted u s' ->
  plain_parse u s' = plain_parse u s /\ document_plain u s' = document_plain u s.
Proof. intros HR HP HP'. split; [apply plain_parse_dots|apply document_plain_dots]; assumption. Qed.
