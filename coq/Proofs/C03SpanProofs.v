(* C03SpanProofs.v — the algebra of harper-core/src/span.rs (model: Model/C03Span.v, debug-build arithmetic
   with a 64-bit usize) that rules, LintGroup::lint and the front-ends rely on, and the statement that the
   nat-level span operations of Base.v ARE this model whenever nothing overflows. *)
Require Import Base C03Span.
From Coq Require Import List Arith NArith Bool Lia.
Import ListNotations.

Definition res_map {A B} (f : A -> B) (r : res A) : res B := match r with Ok a => Ok (f a) | Panic w => Panic w end.

Ltac ucase :=
  repeat match goal with
  | |- context [N.ltb ?a ?b] => destruct (N.ltb_spec a b)
  | |- context [N.leb ?a ?b] => destruct (N.leb_spec a b)
  | |- context [N.eqb ?a ?b] => destruct (N.eqb_spec a b)
  | |- context [Nat.ltb ?a ?b] => destruct (Nat.ltb_spec a b)
  | |- context [Nat.leb ?a ?b] => destruct (Nat.leb_spec a b)
  | |- context [Nat.eqb ?a ?b] => destruct (Nat.eqb_spec a b)
  end.

Ltac uunf := unfold u_from_range, u_with_offset, u_with_len, u_is_empty, u_new, u_new_with_len, u_len, u_contains, u_overlaps_with, u_set_len,
  u_push_by, u_pull_by, u_pushed_by, u_pulled_by, uadd, usub, urep, uwf in *.

Lemma uspan_eta s : mkuspan (ustart s) (uend s) = s.
Proof. now destruct s. Qed.

(* ---------- new / new_with_len / len / is_empty / contains ---------- *)
Lemma u_new_spec a b : (a <= b)%N -> u_new a b = Ok (mkuspan a b).
Proof. intros H. uunf. ucase; cbn [bind andb orb]; try reflexivity; lia. Qed.
Lemma u_new_panics a b : (b < a)%N -> u_new a b = Panic PSpanOrder.
Proof. intros H. uunf. ucase; cbn [bind andb orb]; try reflexivity; lia. Qed.
Lemma u_new_wf a b s : u_new a b = Ok s -> uwf s /\ ustart s = a /\ uend s = b.
Proof. uunf. ucase; [discriminate|]. intros E. injection E as <-. cbn. lia. Qed.

Lemma u_new_with_len_spec a l s :
  u_new_with_len a l = Ok s -> uwf s /\ ustart s = a /\ uend s = (a + l)%N /\ u_len s = Ok l /\ urep s.
Proof.
  intros H. unfold u_new_with_len, uadd in H. revert H. ucase; cbn [bind]; [discriminate|]. intros E. injection E as <-.
  uunf. cbn [ustart uend]. repeat split; try lia. ucase; [lia|]. f_equal. lia.
Qed.
Lemma u_new_with_len_total a l : (a + l <= usize_max)%N -> u_new_with_len a l = Ok (mkuspan a (a + l)).
Proof. intros H. uunf. ucase; cbn [bind andb orb]; try reflexivity; lia. Qed.
Lemma u_new_with_len_overflows a l : (usize_max < a + l)%N -> u_new_with_len a l = Panic POverflow.
Proof. intros H. uunf. ucase; cbn [bind andb orb]; try reflexivity; lia. Qed.

Lemma u_len_wf s : uwf s -> u_len s = Ok (uend s - ustart s)%N.
Proof. intros H. uunf. ucase; cbn [bind andb orb]; try reflexivity; lia. Qed.
Lemma u_len_illformed s : (uend s < ustart s)%N -> u_len s = Panic PUnderflow /\ u_is_empty s = Panic PUnderflow.
Proof. intros H. uunf. ucase; cbn [bind andb orb]; try (split; reflexivity); lia. Qed.
Lemma u_is_empty_wf s : uwf s -> u_is_empty s = Ok (ustart s =? uend s)%N.
Proof. intros H. unfold u_is_empty. pose proof H as H0. unfold uwf in H0. rewrite u_len_wf by assumption. cbn [bind]. f_equal. ucase; try reflexivity; lia. Qed.

Lemma u_contains_spec s i : uwf s -> (u_contains s i = Ok true <-> (ustart s <= i < uend s)%N).
Proof.
  intros H. uunf. ucase; try lia; cbn [andb]; split; intros; try discriminate; try reflexivity; lia.
Qed.
Lemma u_contains_illformed s i : (uend s < ustart s)%N -> u_contains s i = Panic PSpanOrder.
Proof. intros H. uunf. ucase; cbn [bind andb orb]; try reflexivity; lia. Qed.

(* ---------- overlaps_with ---------- *)
Lemma u_overlaps_sym a b : u_overlaps_with a b = u_overlaps_with b a.
Proof. unfold u_overlaps_with. apply andb_comm. Qed.

(* two non-empty well-formed spans overlap exactly when they share a character position *)
Lemma u_overlaps_iff_shared a b :
  (ustart a < uend a)%N -> (ustart b < uend b)%N ->
  (u_overlaps_with a b = true <-> exists i, u_contains a i = Ok true /\ u_contains b i = Ok true).
Proof.
  intros Ha Hb. unfold u_overlaps_with. rewrite andb_true_iff, !N.ltb_lt. split.
  - intros [H1 H2]. exists (N.max (ustart a) (ustart b)).
    split; apply u_contains_spec; unfold uwf; lia.
  - intros (i & H1 & H2). apply u_contains_spec in H1; [|unfold uwf; lia]. apply u_contains_spec in H2; [|unfold uwf; lia]. lia.
Qed.
(* sharing a position implies overlapping for every pair of well-formed spans; the converse needs both
   non-empty: [3,3) and [1,5) "overlap" although [3,3) contains nothing (u_overlaps_empty_quirk) *)
Lemma u_shared_overlaps a b i : uwf a -> uwf b -> u_contains a i = Ok true -> u_contains b i = Ok true -> u_overlaps_with a b = true.
Proof.
  intros Wa Wb H1 H2. apply u_contains_spec in H1; [|assumption]. apply u_contains_spec in H2; [|assumption].
  unfold u_overlaps_with. rewrite andb_true_iff, !N.ltb_lt. lia.
Qed.
Lemma u_overlaps_empty_quirk :
  u_overlaps_with (mkuspan 3 3) (mkuspan 1 5) = true /\ forall i, u_contains (mkuspan 3 3) i = Ok false.
Proof. split; [reflexivity|]. intros i. uunf. cbn [ustart uend]. ucase; try lia; reflexivity. Qed.

(* ---------- set_len / with_len ---------- *)
Lemma u_with_len_spec s l s' :
  u_with_len s l = Ok s' -> ustart s' = ustart s /\ uend s' = (ustart s + l)%N /\ u_len s' = Ok l /\ uwf s'.
Proof.
  intros H. unfold u_with_len, u_set_len, uadd in H. revert H. ucase; cbn [bind]; [discriminate|]. intros E. injection E as <-.
  uunf. cbn [ustart uend]. repeat split; try lia. ucase; [lia|]. f_equal. lia.
Qed.
Lemma u_with_len_total s l : (ustart s + l <= usize_max)%N -> u_with_len s l = Ok (mkuspan (ustart s) (ustart s + l)).
Proof. intros H. uunf. ucase; cbn [bind andb orb]; try reflexivity; lia. Qed.
Lemma u_with_len_overflows s l : (usize_max < ustart s + l)%N -> u_with_len s l = Panic POverflow.
Proof. intros H. uunf. ucase; cbn [bind andb orb]; try reflexivity; lia. Qed.
Lemma u_set_len_is_with_len s l : u_set_len s l = u_with_len s l.
Proof. reflexivity. Qed.
(* with_len(len()) is the identity on well-formed representable spans *)
Lemma u_with_len_len s l : uwf s -> urep s -> u_len s = Ok l -> u_with_len s l = Ok s.
Proof.
  intros W [R1 R2] H. rewrite u_len_wf in H by assumption. injection H as <-. unfold uwf in W.
  unfold u_with_len, u_set_len, uadd. ucase; [lia|].
  cbn [bind]. replace (ustart s + (uend s - ustart s))%N with (uend s) by lia. now rewrite uspan_eta.
Qed.

(* ---------- push_by / pull_by / pushed_by / pulled_by / with_offset ---------- *)
Lemma u_pushed_by_is_push_by s k : u_pushed_by s k = u_push_by s k /\ u_with_offset s k = u_push_by s k.
Proof. split; reflexivity. Qed.

Lemma u_push_by_spec s k s' :
  u_push_by s k = Ok s' -> ustart s' = (ustart s + k)%N /\ uend s' = (uend s + k)%N /\ urep s'.
Proof.
  uunf. ucase; cbn [bind]; try discriminate. intros E. injection E as <-. cbn [ustart uend]. lia.
Qed.
Lemma u_push_by_total s k :
  (ustart s + k <= usize_max)%N -> (uend s + k <= usize_max)%N -> u_push_by s k = Ok (mkuspan (ustart s + k) (uend s + k)).
Proof. intros H1 H2. uunf. ucase; try lia. reflexivity. Qed.
Lemma u_push_by_overflows s k :
  (usize_max < ustart s + k)%N \/ (usize_max < uend s + k)%N -> u_push_by s k = Panic POverflow.
Proof. intros H. uunf. ucase; cbn [bind]; try reflexivity; lia. Qed.

Lemma u_pull_by_spec s k s' :
  u_pull_by s k = Ok s' -> (k <= ustart s)%N /\ (k <= uend s)%N /\ ustart s' = (ustart s - k)%N /\ uend s' = (uend s - k)%N.
Proof.
  uunf. ucase; cbn [bind]; try discriminate. intros E. injection E as <-. cbn [ustart uend]. lia.
Qed.
Lemma u_pull_by_total s k : (k <= ustart s)%N -> (k <= uend s)%N -> u_pull_by s k = Ok (mkuspan (ustart s - k) (uend s - k)).
Proof. intros H1 H2. uunf. ucase; try lia. reflexivity. Qed.
Lemma u_pull_by_underflows s k : (ustart s < k)%N \/ (uend s < k)%N -> u_pull_by s k = Panic PUnderflow.
Proof. intros H. uunf. ucase; cbn [bind]; try reflexivity; lia. Qed.

(* pull_by undoes push_by, always; push_by undoes pull_by on spans a Span can hold *)
Lemma u_push_pull s k s' : u_push_by s k = Ok s' -> u_pull_by s' k = Ok s.
Proof.
  intros H. destruct (u_push_by_spec _ _ _ H) as (H1 & H2 & _).
  rewrite u_pull_by_total by lia. rewrite H1, H2, !N.add_sub. apply f_equal, uspan_eta.
Qed.
Lemma u_pull_push s k s' : urep s -> u_pull_by s k = Ok s' -> u_push_by s' k = Ok s.
Proof.
  intros [R1 R2] H. destruct (u_pull_by_spec _ _ _ H) as (H1 & H2 & H3 & H4).
  rewrite u_push_by_total by lia. rewrite H3, H4, !N.sub_add by assumption. apply f_equal, uspan_eta.
Qed.

(* pulled_by: None exactly when by > start; on a well-formed span never a panic *)
Lemma u_pulled_by_none s k : (ustart s < k)%N -> u_pulled_by s k = Ok None.
Proof. intros H. uunf. ucase; cbn [bind andb orb]; try reflexivity; lia. Qed.
Lemma u_pulled_by_some s k :
  (k <= ustart s)%N -> (k <= uend s)%N -> u_pulled_by s k = Ok (Some (mkuspan (ustart s - k) (uend s - k))).
Proof. intros H1 H2. uunf. ucase; try lia. reflexivity. Qed.
Lemma u_pulled_by_wf_total s k : uwf s -> exists o, u_pulled_by s k = Ok o.
Proof.
  intros W. destruct (N.lt_ge_cases (ustart s) k); [rewrite u_pulled_by_none by assumption|rewrite u_pulled_by_some by (uunf; lia)]; now eexists.
Qed.
(* the unguarded second subtraction: an ill-formed span with end < by <= start makes pulled_by panic *)
Lemma u_pulled_by_illformed_panics s k : (uend s < k)%N -> (k <= ustart s)%N -> u_pulled_by s k = Panic PUnderflow.
Proof. intros H1 H2. uunf. ucase; try lia. reflexivity. Qed.

(* pushed_by and pulled_by are inverse wherever both are defined *)
Lemma u_pushed_pulled s k s' : u_pushed_by s k = Ok s' -> u_pulled_by s' k = Ok (Some s).
Proof.
  intros H. destruct (u_push_by_spec _ _ _ H) as (H1 & H2 & _).
  rewrite u_pulled_by_some by lia. rewrite H1, H2, !N.add_sub. do 2 apply f_equal. apply uspan_eta.
Qed.
Lemma u_pulled_pushed s k s' : urep s -> u_pulled_by s k = Ok (Some s') -> u_pushed_by s' k = Ok s.
Proof.
  intros [R1 R2] H.
  destruct (N.lt_ge_cases (ustart s) k) as [L|L]; [rewrite u_pulled_by_none in H by assumption; discriminate|].
  destruct (N.lt_ge_cases (uend s) k) as [L2|L2]; [rewrite u_pulled_by_illformed_panics in H by assumption; discriminate|].
  rewrite u_pulled_by_some in H by assumption. injection H as <-.
  change (u_pushed_by ?x ?y) with (u_push_by x y). rewrite u_push_by_total; cbn [ustart uend]; try lia.
  rewrite !N.sub_add by assumption. apply f_equal, uspan_eta.
Qed.
(* re-basing keeps the length *)
Lemma u_push_by_len s k s' : uwf s -> u_push_by s k = Ok s' -> u_len s' = u_len s /\ uwf s'.
Proof.
  intros W H. destruct (u_push_by_spec _ _ _ H) as (H1 & H2 & _). unfold uwf in *. split; [|lia].
  rewrite !u_len_wf by (unfold uwf; lia). f_equal. lia.
Qed.
Lemma u_pull_by_len s k s' : uwf s -> u_pull_by s k = Ok s' -> u_len s' = u_len s /\ uwf s'.
Proof.
  intros W H. destruct (u_pull_by_spec _ _ _ H) as (H1 & H2 & H3 & H4). unfold uwf in *. split; [|lia].
  rewrite !u_len_wf by (unfold uwf; lia). f_equal. lia.
Qed.

(* ---------- try_get_content / get_content ---------- *)
Section Content.
  Context {A : Type}.
  Implicit Types src : list A.

  (* get_content is the slice for every well-formed span inside the source *)
  Lemma u_get_content_slice s src :
    uwf s -> (uend s <= N.of_nat (length src))%N ->
    u_get_content s src = Ok (slice src (N.to_nat (ustart s)) (N.to_nat (uend s))).
  Proof.
    intros W H. unfold u_get_content, u_try_get_content. unfold uwf in W.
    destruct (N.ltb_spec (uend s) (ustart s)); [lia|].
    destruct (N.ltb_spec (N.of_nat (length src)) (uend s)); [lia|].
    destruct (N.leb_spec (N.of_nat (length src)) (ustart s)); cbn [orb bind]; [|reflexivity].
    rewrite u_is_empty_wf by assumption. cbn [bind].
    destruct (N.eqb_spec (ustart s) (uend s)) as [E|E]; [|lia]. cbn [bind]. f_equal.
    unfold slice. rewrite E, Nat.sub_diag. reflexivity.
  Qed.
  (* ... also for an empty span anywhere (even beyond the source): the empty slice *)
  Lemma u_get_content_empty s src : ustart s = uend s -> u_get_content s src = Ok [].
  Proof.
    intros E. unfold u_get_content, u_try_get_content.
    destruct ((uend s <? ustart s)%N || (N.of_nat (length src) <=? ustart s)%N || (N.of_nat (length src) <? uend s)%N) eqn:C.
    - rewrite u_is_empty_wf by (unfold uwf; lia). cbn [bind]. destruct (N.eqb_spec (ustart s) (uend s)); [reflexivity|contradiction].
    - cbn [bind]. f_equal. unfold slice. rewrite E, Nat.sub_diag. reflexivity.
  Qed.
  (* the panics: an ill-formed span (underflow inside is_empty), a non-empty span reaching beyond the source *)
  Lemma u_get_content_illformed s src :
    (uend s < ustart s)%N -> u_try_get_content s src = Panic PUnderflow /\ u_get_content s src = Panic PUnderflow.
  Proof.
    intros H. unfold u_get_content, u_try_get_content.
    destruct (N.ltb_spec (uend s) (ustart s)); [|lia]. cbn [orb].
    destruct (u_len_illformed s H) as [_ ->]. now split.
  Qed.
  Lemma u_get_content_outside s src :
    (ustart s < uend s)%N -> (N.of_nat (length src) < uend s)%N ->
    u_try_get_content s src = Ok None /\ u_get_content s src = Panic PIndex.
  Proof.
    intros H1 H2. unfold u_get_content, u_try_get_content.
    destruct (N.ltb_spec (N.of_nat (length src)) (uend s)); [|lia]. rewrite orb_true_r.
    rewrite u_is_empty_wf by (unfold uwf; lia). cbn [bind].
    destruct (N.eqb_spec (ustart s) (uend s)); [lia|]. now split.
  Qed.
  Lemma u_get_content_length s src t : uwf s -> u_get_content s src = Ok t -> N.of_nat (length t) = (uend s - ustart s)%N.
  Proof.
    intros W H. unfold uwf in W. destruct (N.eq_dec (ustart s) (uend s)) as [E|E].
    - rewrite u_get_content_empty in H by assumption. injection H as <-. cbn [length]. lia.
    - destruct (N.lt_ge_cases (N.of_nat (length src)) (uend s)) as [L|L].
      + destruct (u_get_content_outside s src) as [_ P]; [lia|assumption|]. rewrite P in H. discriminate.
      + rewrite u_get_content_slice in H by assumption. injection H as <-. unfold slice.
        rewrite firstn_length, skipn_length. lia.
  Qed.

  (* Base.v's nat-level function is this one *)
  Lemma u_try_get_content_base s src : u_try_get_content s src = try_get_content (to_base s) src.
  Proof.
    unfold u_try_get_content, try_get_content, to_base, u_is_empty, u_len, span_len, usub, sub_chk. cbn [sstart send].
    destruct (N.ltb_spec (uend s) (ustart s)); destruct (Nat.ltb_spec (N.to_nat (uend s)) (N.to_nat (ustart s))); try lia;
    destruct (N.leb_spec (N.of_nat (length src)) (ustart s)); destruct (Nat.leb_spec (length src) (N.to_nat (ustart s))); try lia;
    destruct (N.ltb_spec (N.of_nat (length src)) (uend s)); destruct (Nat.ltb_spec (length src) (N.to_nat (uend s))); try lia;
    cbn [orb bind]; try reflexivity;
    destruct (N.eqb_spec (uend s - ustart s) 0); destruct (Nat.eqb_spec (N.to_nat (uend s) - N.to_nat (ustart s)) 0); try lia; reflexivity.
  Qed.
  Lemma u_get_content_base s src : u_get_content s src = get_content (to_base s) src.
  Proof. unfold u_get_content, get_content. now rewrite u_try_get_content_base. Qed.
End Content.

(* ---------- Range / IntoIterator ---------- *)
Lemma u_into_iter_spec s i : In i (u_into_iter s) <-> (ustart s <= i < uend s)%N.
Proof.
  unfold u_into_iter. rewrite in_map_iff. split.
  - intros (j & <- & Hj). apply in_seq in Hj. lia.
  - intros H. exists (N.to_nat (i - ustart s)). split; [lia|]. apply in_seq. lia.
Qed.
Lemma u_into_iter_length s : N.of_nat (length (u_into_iter s)) = (uend s - ustart s)%N.
Proof. unfold u_into_iter. rewrite map_length, seq_length. lia. Qed.
Lemma u_into_iter_contains s i : uwf s -> (In i (u_into_iter s) <-> u_contains s i = Ok true).
Proof. intros W. now rewrite u_into_iter_spec, u_contains_spec. Qed.

(* ---------- Base.v's operations are this model when nothing overflows ---------- *)
Lemma u_new_base a b : res_map to_base (u_new a b) = span_new (N.to_nat a) (N.to_nat b).
Proof. unfold u_new, span_new. ucase; try lia; reflexivity. Qed.
Lemma u_pull_by_base s k : res_map to_base (u_pull_by s k) = pull_by (to_base s) (N.to_nat k).
Proof.
  unfold u_pull_by, pull_by, usub, sub_chk, to_base. cbn [sstart send].
  ucase; cbn [bind res_map]; try lia; try reflexivity. unfold to_base. cbn [ustart uend]. f_equal. f_equal; lia.
Qed.
Lemma u_push_by_base s k s' : u_push_by s k = Ok s' -> push_by (to_base s) (N.to_nat k) = to_base s'.
Proof.
  intros H. destruct (u_push_by_spec _ _ _ H) as (H1 & H2 & _). unfold push_by, to_base. cbn [sstart send].
  rewrite H1, H2. f_equal; lia.
Qed.
Lemma u_with_len_base s l s' : u_with_len s l = Ok s' -> with_len (to_base s) (N.to_nat l) = to_base s'.
Proof.
  intros H. destruct (u_with_len_spec _ _ _ H) as (H1 & H2 & _). unfold with_len, to_base. cbn [sstart send].
  rewrite H1, H2. f_equal; lia.
Qed.
Lemma u_new_with_len_base a l s : u_new_with_len a l = Ok s -> span_new_with_len (N.to_nat a) (N.to_nat l) = to_base s.
Proof.
  intros H. destruct (u_new_with_len_spec _ _ _ H) as (_ & H1 & H2 & _). unfold span_new_with_len, to_base.
  rewrite H1, H2. f_equal; lia.
Qed.
Lemma u_pulled_by_base s k o : uwf s -> u_pulled_by s k = Ok o -> pulled_by (to_base s) (N.to_nat k) = option_map to_base o.
Proof.
  unfold uwf, u_pulled_by, pulled_by, usub, to_base. cbn [sstart send]. intros W.
  ucase; cbn [bind]; try lia; intros E; try discriminate; injection E as <-; cbn [option_map]; try reflexivity.
  unfold to_base. cbn [ustart uend]. do 2 f_equal; lia.
Qed.
Lemma u_overlaps_base a b : u_overlaps_with a b = overlaps (to_base a) (to_base b).
Proof. unfold u_overlaps_with, overlaps, to_base. cbn [sstart send]. ucase; try lia; reflexivity. Qed.
Lemma u_len_base s : u_len s = res_map N.of_nat (span_len (to_base s)).
Proof. unfold u_len, span_len, usub, sub_chk, to_base. cbn [sstart send]. ucase; cbn [res_map]; try lia; try reflexivity. f_equal. lia. Qed.
(* the only panics Base.v does not have are the overflows, and they need numbers above usize::MAX *)
Lemma u_overflow_only s k w : u_push_by s k = Panic w -> w = POverflow /\ (usize_max < uend s + k \/ usize_max < ustart s + k)%N.
Proof. unfold u_push_by, uadd. ucase; cbn [bind]; intros E; try discriminate; injection E as <-; split; try reflexivity; lia. Qed.

(* ---------- non-vacuity ---------- *)
Example u_examples :
  u_pushed_by (mkuspan 3 7) 5 = Ok (mkuspan 8 12) /\ u_pulled_by (mkuspan 8 12) 5 = Ok (Some (mkuspan 3 7)) /\
  u_pulled_by (mkuspan 3 7) 4 = Ok None /\ u_pulled_by (mkuspan 5 2) 3 = Panic PUnderflow /\
  u_with_len (mkuspan 3 7) 1 = Ok (mkuspan 3 4) /\ u_with_len (mkuspan 3 7) usize_max = Panic POverflow /\
  u_overlaps_with (mkuspan 1 4) (mkuspan 3 9) = true /\ u_overlaps_with (mkuspan 1 3) (mkuspan 3 9) = false /\
  u_get_content (mkuspan 1 3) [10; 11; 12; 13]%N = Ok [11; 12]%N /\ u_get_content (mkuspan 4 4) [10; 11; 12; 13]%N = Ok [] /\
  u_get_content (mkuspan 9 9) [10; 11]%N = Ok [] /\ u_get_content (mkuspan 1 5) [10; 11; 12; 13]%N = Panic PIndex /\
  u_get_content (mkuspan 3 1) [10; 11; 12; 13]%N = Panic PUnderflow /\ u_into_iter (mkuspan 2 5) = [2; 3; 4]%N /\
  u_push_by (mkuspan 1 usize_max) 1 = Panic POverflow /\ u_pull_by (mkuspan 2 5) 3 = Panic PUnderflow.
Proof. vm_compute. repeat split. Qed.

(* ---------- the statements pinned in Properties/C03.v ---------- *)
(* re-basing: pull undoes push always; push undoes pull on every span a `Span` can hold; same for the copying
   variants, pulled_by being defined (Some) exactly when by <= start *)
Lemma span_rebase_inverse :
  (forall s k s', u_push_by s k = Ok s' -> u_pull_by s' k = Ok s) /\
  (forall s k s', urep s -> u_pull_by s k = Ok s' -> u_push_by s' k = Ok s) /\
  (forall s k s', u_pushed_by s k = Ok s' -> u_pulled_by s' k = Ok (Some s)) /\
  (forall s k s', urep s -> u_pulled_by s k = Ok (Some s') -> u_pushed_by s' k = Ok s) /\
  (forall s k, uwf s -> (ustart s < k)%N -> u_pulled_by s k = Ok None) /\
  (forall s k, uwf s -> (k <= ustart s)%N -> u_pulled_by s k = Ok (Some (mkuspan (ustart s - k) (uend s - k)))).
Proof.
  repeat split.
  - exact u_push_pull.
  - exact u_pull_push.
  - exact u_pushed_pulled.
  - exact u_pulled_pushed.
  - intros s k _ H. now apply u_pulled_by_none.
  - intros s k W H. apply u_pulled_by_some; [assumption|unfold uwf in W; lia].
Qed.

(* with_len / set_len keep the start, give exactly the requested length, and panic exactly on overflow *)
Lemma span_with_len_keeps_start :
  (forall s l s', u_with_len s l = Ok s' -> ustart s' = ustart s /\ uend s' = (ustart s + l)%N /\ u_len s' = Ok l /\ uwf s') /\
  (forall s l, (ustart s + l <= usize_max)%N -> u_with_len s l = Ok (mkuspan (ustart s) (ustart s + l))) /\
  (forall s l, (usize_max < ustart s + l)%N -> u_with_len s l = Panic POverflow) /\
  (forall s l, u_set_len s l = u_with_len s l).
Proof. repeat split; [apply (u_with_len_spec s l s' H)..|exact u_with_len_total|exact u_with_len_overflows]. Qed.

(* overlaps_with is symmetric and, for non-empty spans, is sharing a character position *)
Lemma span_overlaps_shared :
  (forall a b, u_overlaps_with a b = u_overlaps_with b a) /\
  (forall a b, (ustart a < uend a)%N -> (ustart b < uend b)%N ->
     (u_overlaps_with a b = true <-> exists i, u_contains a i = Ok true /\ u_contains b i = Ok true)) /\
  (forall a b i, uwf a -> uwf b -> u_contains a i = Ok true -> u_contains b i = Ok true -> u_overlaps_with a b = true).
Proof. exact (conj u_overlaps_sym (conj u_overlaps_iff_shared u_shared_overlaps)). Qed.

(* get_content is the slice — and exactly when it panics instead *)
Lemma span_get_content_is_slice :
  (forall (s : uspan) (src : text), uwf s -> (uend s <= N.of_nat (length src))%N ->
     u_get_content s src = Ok (slice src (N.to_nat (ustart s)) (N.to_nat (uend s)))) /\
  (forall (s : uspan) (src : text), ustart s = uend s -> u_get_content s src = Ok []) /\
  (forall (s : uspan) (src : text), (uend s < ustart s)%N -> u_get_content s src = Panic PUnderflow) /\
  (forall (s : uspan) (src : text), (ustart s < uend s)%N -> (N.of_nat (length src) < uend s)%N -> u_get_content s src = Panic PIndex) /\
  (forall (s : uspan) (src : text), u_get_content_string s src = u_get_content s src).
Proof.
  repeat split.
  - intros. now apply u_get_content_slice.
  - intros. now apply u_get_content_empty.
  - intros s src H. now destruct (u_get_content_illformed s src H).
  - intros s src H1 H2. now destruct (u_get_content_outside s src H1 H2).
Qed.

(* len, is_empty, contains, new, new_with_len, the Range conversions: values and panics *)
Lemma span_basic_ops :
  (forall a b, (a <= b)%N -> u_new a b = Ok (mkuspan a b)) /\ (forall a b, (b < a)%N -> u_new a b = Panic PSpanOrder) /\
  (forall a b, u_from_range a b = u_new a b) /\
  (forall a l, (a + l <= usize_max)%N -> u_new_with_len a l = Ok (mkuspan a (a + l))) /\
  (forall a l, (usize_max < a + l)%N -> u_new_with_len a l = Panic POverflow) /\
  (forall s, uwf s -> u_len s = Ok (uend s - ustart s)%N /\ u_is_empty s = Ok (ustart s =? uend s)%N) /\
  (forall s, (uend s < ustart s)%N -> u_len s = Panic PUnderflow /\ u_is_empty s = Panic PUnderflow) /\
  (forall s i, uwf s -> (u_contains s i = Ok true <-> (ustart s <= i < uend s)%N)) /\
  (forall s i, (uend s < ustart s)%N -> u_contains s i = Panic PSpanOrder) /\
  (forall s i, In i (u_into_iter s) <-> (ustart s <= i < uend s)%N).
Proof.
  exact (conj u_new_spec (conj u_new_panics (conj (fun a b => eq_refl) (conj u_new_with_len_total (conj u_new_with_len_overflows
        (conj (fun s W => conj (u_len_wf s W) (u_is_empty_wf s W)) (conj u_len_illformed
        (conj (fun s i W => u_contains_spec s i W) (conj u_contains_illformed u_into_iter_spec))))))))).
Qed.

(* Base.v's unbounded nat operations (used by every other model) are this model up to the overflow panics *)
Lemma span_base_refines :
  (forall a b, res_map to_base (u_new a b) = span_new (N.to_nat a) (N.to_nat b)) /\
  (forall s k, res_map to_base (u_pull_by s k) = pull_by (to_base s) (N.to_nat k)) /\
  (forall s k s', u_push_by s k = Ok s' -> push_by (to_base s) (N.to_nat k) = to_base s') /\
  (forall s k w, u_push_by s k = Panic w -> w = POverflow /\ (usize_max < uend s + k \/ usize_max < ustart s + k)%N) /\
  (forall s l s', u_with_len s l = Ok s' -> with_len (to_base s) (N.to_nat l) = to_base s') /\
  (forall a l s, u_new_with_len a l = Ok s -> span_new_with_len (N.to_nat a) (N.to_nat l) = to_base s) /\
  (forall s k o, uwf s -> u_pulled_by s k = Ok o -> pulled_by (to_base s) (N.to_nat k) = option_map to_base o) /\
  (forall a b, u_overlaps_with a b = overlaps (to_base a) (to_base b)) /\
  (forall s, u_len s = res_map N.of_nat (span_len (to_base s))) /\
  (forall (s : uspan) (src : text), u_try_get_content s src = try_get_content (to_base s) src) /\
  (forall (s : uspan) (src : text), u_get_content s src = get_content (to_base s) src).
Proof.
  repeat split.
  - exact u_new_base.
  - exact u_pull_by_base.
  - exact u_push_by_base.
  - now destruct (u_overflow_only s k w H).
  - now destruct (u_overflow_only s k w H).
  - exact u_with_len_base.
  - exact u_new_with_len_base.
  - exact u_pulled_by_base.
  - exact u_overlaps_base.
  - exact u_len_base.
  - intros. apply u_try_get_content_base.
  - intros. apply u_get_content_base.
Qed.
