(* C12CondInit.v — Document::condense_dotted_initialisms (Model/Condense.v, frozen) as a FUNCTION of the token
   list and its behaviour on a glued list.
     di_go st l : st = the run of (one-letter word, period) pairs being collected (None outside a run);
     condense_dotted_initialisms_fun : on every tiling the pass answers Ok (di_go None ts)
       (proof = the two claims NClaim / RClaim of CondInitialisms (C02) with an equation as conclusion);
     di_go_app : splits behind A when A ends in a ParagraphBreak (the pair (x, break) closes any run, the pair
       (break, first token of B) cannot open one);
     di_go_shift : the pass reads spans only through their lengths and ends. *)
Require Import Base Overlap OverlapProofs Tables_lexer Lexer Condense ListLemmas TokenInv CondenseInv LexerProofs
  CondInitialisms C12CondSpaces C12CondSuffix C12CondPattern C12CondPatterns3.
From Coq Require Import List Arith Lia.
Import ListNotations.

(* what the closing step leaves of a finished run *)
Definition di_run (run : list token) : list token :=
  match run with
  | [] => []
  | [w] => [w]
  | [w; p] => [w; p]
  | w :: _ => [with_end w (tend (last run dummy_tok))]
  end.
Definition di_flush (st : option (list token)) : list token :=
  match st with Some run => di_run run | None => [] end.
Definition di_cur (st : option (list token)) : list token :=
  match st with Some run => run | None => [] end.

Fixpoint di_go (st : option (list token)) (l : list token) {struct l} : list token :=
  match l with
  | t0 :: ((t1 :: rest') as tr) =>
      if chunkb t0 t1 then di_go (Some (di_cur st ++ [t0; t1])) rest'
      else di_flush st ++ t0 :: di_go None tr
  | _ => di_flush st ++ l
  end.

Lemma di_go_short st l : length l <= 1 -> di_go st l = di_flush st ++ l.
Proof. destruct l as [|a [|b r]]; cbn [length]; [reflexivity|reflexivity|lia]. Qed.

Lemma di_go_chunk st t0 t1 r : chunkb t0 t1 = true ->
  di_go st (t0 :: t1 :: r) = di_go (Some (di_cur st ++ [t0; t1])) r.
Proof. intros H. cbn [di_go]. rewrite H. reflexivity. Qed.

Lemma di_go_nochunk st t0 t1 r : chunkb t0 t1 = false ->
  di_go st (t0 :: t1 :: r) = di_flush st ++ t0 :: di_go None (t1 :: r).
Proof. intros H. cbn [di_go]. rewrite H. reflexivity. Qed.

(* the closing step on a complete run (CondInitialisms.close_run with an equation) *)
Lemma close_run_fun pre run rest q :
  InitPairs run ->
  exists U0 Q0,
    di_closing (pre ++ run ++ rest) (length pre) (length pre + length run - 1)
               (rev (seq (length pre + 1) (length run - 1)) ++ q) = Ok (pre ++ U0 ++ rest, rev Q0 ++ q) /\
    length U0 = length run /\
    QueueIn (length pre) (length pre + length run) Q0 /\
    remove_indices (length pre) Q0 U0 = di_run run.
Proof.
  intros HIP. inversion HIP as [w p Hw Hl Hp Erun|w p r Hw Hl Hp Hr Erun]; subst run.
  - exists [w; p], []. unfold di_closing. cbn [length].
    replace (length pre + 2 - 1 =? length pre + 1) with true by (symmetry; apply Nat.eqb_eq; lia).
    split; [reflexivity|]. split; [reflexivity|]. split; [constructor|].
    rewrite remove_indices_nil. reflexivity.
  - pose proof (initpairs_len r Hr) as Hr2.
    set (run0 := w :: p :: r) in *.
    set (pe := last run0 dummy_tok).
    assert (nth_error (pre ++ run0 ++ rest) (length pre + length run0 - 1) = Some pe) as Hlast.
    { replace (length pre + length run0 - 1) with (length pre + (length run0 - 1))
        by (unfold run0; cbn [length]; lia).
      rewrite nth_error_off. rewrite nth_error_app1 by (unfold run0; cbn [length]; lia).
      apply last_nth. unfold run0. discriminate. }
    exists (with_end w (tend pe) :: p :: r), (seq (length pre + 1) (length run0 - 1)).
    split; [|split; [|split]].
    + unfold di_closing.
      replace (length pre + length run0 - 1 =? length pre + 1) with false
        by (symmetry; apply Nat.eqb_neq; unfold run0; cbn [length]; lia).
      unfold nth_chk. rewrite Hlast. cbn [bind].
      unfold run0 at 1 2. cbn [app]. rewrite nth_error_mid. cbn [bind].
      rewrite set_nth_mid. cbn [bind]. reflexivity.
    + reflexivity.
    + eapply queue_in_both; [| |apply queue_in_seq]; unfold run0; cbn [length]; lia.
    + rewrite (remove_indices_skip (length pre + 1) (length pre + 1 + (length run0 - 1)))
        by (try apply queue_in_seq; lia).
      replace (length run0 - 1) with (length (p :: r)) by (unfold run0; cbn [length]; lia).
      replace (length pre + 1) with (S (length pre)) by lia.
      rewrite remove_indices_seq. fold pe.
      unfold run0 at 1. destruct r as [|x r']; [cbn [length] in Hr2; lia|]. reflexivity.
Qed.

Lemma glue_fun {X} s (U0 : list X) Q0 n U1 Q1 hi :
  length U0 = n -> QueueIn s (s + n) Q0 -> QueueIn (s + n) hi Q1 ->
  remove_indices s (Q0 ++ Q1) (U0 ++ U1) = remove_indices s Q0 U0 ++ remove_indices (s + n) Q1 U1.
Proof.
  intros HL HQ0 HQ1. rewrite remove_indices_app.
  - rewrite HL. reflexivity.
  - rewrite HL. exact HQ0.
  - intros r Hin. rewrite HL. eapply queue_in_In; eassumption.
Qed.

Definition NClaimF (ss : list token) : Prop :=
  forall pre q fuel, Forall twf ss -> 1 <= fuel -> length ss <= fuel ->
  exists U Q,
    di_final fuel (pre ++ ss) (length pre + 1) None q = Ok (pre ++ U, rev Q ++ q) /\
    length U = length ss /\
    QueueIn (length pre) (length pre + length ss) Q /\
    remove_indices (length pre) Q U = di_go None ss.

Definition RClaimF (rest : list token) : Prop :=
  forall pre run q fuel, InitPairs run -> Forall twf rest -> 1 <= fuel -> length rest <= fuel ->
  exists U Q,
    di_final fuel (pre ++ run ++ rest) (length pre + length run + 1) (Some (length pre))
             (rev (seq (length pre + 1) (length run - 1)) ++ q) = Ok (pre ++ U, rev Q ++ q) /\
    length U = length run + length rest /\
    QueueIn (length pre) (length pre + (length run + length rest)) Q /\
    remove_indices (length pre) Q U = di_go (Some run) rest.

Lemma N_stepF n :
  (forall ss, length ss < n -> NClaimF ss) -> (forall rest, length rest < n -> RClaimF rest) ->
  forall ss, length ss < S n -> NClaimF ss.
Proof.
  intros IHN IHR ss Hlen pre q fuel Hwf Hf1 Hfl.
  destruct fuel as [|f]; [lia|].
  destruct ss as [|w [|p r]].
  - exists [], []. rewrite di_final_exit by (rewrite app_length; cbn [length]; lia).
    split; [reflexivity|]. split; [reflexivity|]. split; [constructor|reflexivity].
  - exists [w], []. rewrite di_final_exit by (rewrite app_length; cbn [length]; lia).
    split; [reflexivity|]. split; [reflexivity|]. split; [constructor|].
    rewrite remove_indices_nil. reflexivity.
  - cbn [length] in Hlen, Hfl.
    assert (twf w) as Hww by (inversion Hwf; assumption).
    assert (Forall twf (p :: r)) as Hwpr by (inversion Hwf; assumption).
    assert (Forall twf r) as Hwr by (inversion Hwpr; assumption).
    rewrite (di_final_step f _ _ _ _ w p);
      [ | lia | rewrite app_length; cbn [length]; lia
        | replace (length pre + 1 - 1) with (length pre) by lia; apply nth_error_mid
        | rewrite nth_error_off; reflexivity | exact Hww ].
    destruct (chunkb w p) eqn:Hch.
    + destruct (chunkb_true _ _ Hch) as [Hw [Hl Hp]].
      destruct (IHR r ltac:(lia) pre [w; p] q f (IP_last w p Hw Hl Hp) Hwr ltac:(lia) ltac:(lia))
        as (U & Q & HE & HL & HQ & HG).
      exists U, Q. split; [|split; [|split]].
      * replace (length pre + 1 + 1 + 1) with (length pre + length [w; p] + 1) by (cbn [length]; lia).
        replace (length pre + 1 - 1) with (length pre) by lia. exact HE.
      * exact HL.
      * exact HQ.
      * rewrite HG. rewrite (di_go_chunk None w p r Hch). reflexivity.
    + cbn [bind].
      destruct (IHN (p :: r) ltac:(cbn [length]; lia) (pre ++ [w]) q f Hwpr ltac:(lia) ltac:(cbn [length]; lia))
        as (U' & Q' & HE & HL & HQ & HG).
      rewrite <- !app_assoc in HE. cbn [app] in HE. rewrite app_length in HE, HQ, HG. cbn [length] in HE, HL, HQ, HG.
      exists (w :: U'), Q'. split; [exact HE|]. split; [cbn [length]; lia|]. split.
      * eapply queue_in_both; [| |exact HQ]; cbn [length]; lia.
      * rewrite (remove_indices_skip _ _ _ _ _ _ HQ) by lia.
        replace (S (length pre)) with (length pre + 1) by lia. rewrite HG.
        rewrite (di_go_nochunk None w p r Hch). reflexivity.
Qed.

Lemma R_stepF n :
  (forall ss, length ss < n -> NClaimF ss) -> (forall rest, length rest < n -> RClaimF rest) ->
  forall rest, length rest < S n -> RClaimF rest.
Proof.
  intros IHN IHR rest Hlen pre run q fuel HIP Hwf Hf1 Hfl.
  pose proof (initpairs_len _ HIP) as HL2.
  destruct fuel as [|f]; [lia|].
  assert (length rest <= 1 \/ exists t0 t1 rest', rest = t0 :: t1 :: rest') as [Hshort|(t0 & t1 & rest' & ->)].
  { destruct rest as [|t0 [|t1 rest']]; cbn [length]; [left; lia|left; lia|right; eauto]. }
  - rewrite di_final_exit by (rewrite !app_length; lia).
    rewrite di_close_run by exact HL2.
    destruct (close_run_fun pre run rest q HIP) as (U0 & Q0 & HC & HL0 & HQ0 & HG0).
    rewrite HC. exists (U0 ++ rest), Q0. split; [reflexivity|]. split; [rewrite app_length; lia|]. split.
    + eapply queue_in_both; [| |exact HQ0]; lia.
    + rewrite <- (app_nil_r Q0).
      rewrite (glue_fun (length pre) U0 Q0 (length run) rest [] (length pre + length run) HL0 HQ0 (QI_nil _ _)).
      rewrite HG0, remove_indices_nil. rewrite (di_go_short (Some run) rest Hshort). reflexivity.
  - cbn [length] in Hlen, Hfl.
    assert (twf t0) as Hw0 by (inversion Hwf; assumption).
    assert (Forall twf (t1 :: rest')) as Hw1 by (inversion Hwf; assumption).
    assert (Forall twf rest') as Hwr by (inversion Hw1; assumption).
    rewrite (di_final_step f _ _ _ _ t0 t1);
      [ | lia | rewrite !app_length; cbn [length]; lia
        | replace (length pre + length run + 1 - 1) with (length pre + length run + 0) by lia;
          rewrite nth_error_off2; reflexivity
        | rewrite nth_error_off2; reflexivity | exact Hw0 ].
    destruct (chunkb t0 t1) eqn:Hch.
    + destruct (chunkb_true _ _ Hch) as [Hw [Hl Hp]].
      destruct (IHR rest' ltac:(lia) pre (run ++ [t0; t1]) q f (initpairs_snoc _ _ _ HIP Hw Hl Hp) Hwr
                    ltac:(lia) ltac:(lia)) as (U & Q & HE & HL & HQ & HG).
      rewrite <- app_assoc in HE. cbn [app] in HE.
      rewrite app_length in HE, HL, HQ. cbn [length] in HE, HL, HQ.
      exists U, Q. split; [|split; [|split]].
      * replace (length pre + length run + 1 + 1 + 1) with (length pre + (length run + 2) + 1) by lia.
        replace (length run + 2 - 1) with (S (S (length run - 1))) in HE by lia.
        rewrite !rev_seq_head in HE. cbn [app] in HE.
        replace (length pre + 1 + S (length run - 1)) with (length pre + length run + 1) in HE by lia.
        replace (length pre + 1 + (length run - 1)) with (length pre + length run + 1 - 1) in HE by lia.
        exact HE.
      * cbn [length]. lia.
      * eapply queue_in_both; [| |exact HQ]; cbn [length]; lia.
      * rewrite HG. rewrite (di_go_chunk (Some run) t0 t1 rest' Hch). reflexivity.
    + assert (sub_chk (length pre + length run + 1) 2 = Ok (length pre + length run - 1)) as E2.
      { unfold sub_chk. replace (length pre + length run + 1 <? 2) with false by (symmetry; apply Nat.ltb_ge; lia).
        f_equal. lia. }
      rewrite E2. cbn [bind].
      destruct (close_run_fun pre run (t0 :: t1 :: rest') q HIP) as (U0 & Q0 & HC & HL0 & HQ0 & HG0).
      rewrite HC. cbn [bind].
      destruct (IHN (t1 :: rest') ltac:(cbn [length]; lia) (pre ++ U0 ++ [t0]) (rev Q0 ++ q) f Hw1
                    ltac:(lia) ltac:(cbn [length]; lia)) as (U' & Q' & HE & HL & HQ & HG).
      rewrite !app3_assoc in HE. rewrite !app_length in HE, HQ, HG. cbn [length] in HE, HL, HQ, HG.
      rewrite HL0 in HE, HQ, HG.
      exists (U0 ++ t0 :: U'), (Q0 ++ Q'). split; [|split; [|split]].
      * replace (length pre + length run + 1 + 1) with (length pre + (length run + 1) + 1) by lia.
        rewrite HE. rewrite rev_app_distr, <- app_assoc. reflexivity.
      * rewrite app_length. cbn [length]. lia.
      * eapply (queue_in_app _ (length pre + length run)); [lia|cbn [length]; lia|exact HQ0|].
        eapply queue_in_both; [| |exact HQ]; cbn [length]; lia.
      * assert (HQ' : QueueIn (length pre + length run) (length pre + (length run + 1) + S (length rest')) Q')
          by (eapply queue_in_both; [| |exact HQ]; lia).
        rewrite (glue_fun (length pre) U0 Q0 (length run) (t0 :: U') Q' _ HL0 HQ0 HQ').
        rewrite HG0. rewrite (remove_indices_skip _ _ _ _ _ _ HQ) by lia.
        replace (S (length pre + length run)) with (length pre + (length run + 1)) by lia. rewrite HG.
        rewrite (di_go_nochunk (Some run) t0 t1 rest' Hch). reflexivity.
Qed.

Lemma di_claimsF : forall n,
  (forall ss, length ss < n -> NClaimF ss) /\ (forall rest, length rest < n -> RClaimF rest).
Proof.
  induction n as [|n [IHN IHR]].
  - split; intros l Hl; lia.
  - split; [apply N_stepF|apply R_stepF]; assumption.
Qed.

Lemma di_NF ss : NClaimF ss.
Proof. apply (proj1 (di_claimsF (S (length ss)))). lia. Qed.

Theorem condense_dotted_initialisms_fun : forall a b ts, Tiling a b ts ->
  condense_dotted_initialisms ts = Ok (di_go None ts).
Proof.
  intros a b ts HT. rewrite cdi_unfold.
  destruct (length ts <? 2) eqn:E.
  - apply Nat.ltb_lt in E. rewrite di_go_short by lia. reflexivity.
  - apply Nat.ltb_ge in E.
    assert (Forall twf ts) as Hwf.
    { eapply Forall_impl; [|exact (tiling_nonempty _ _ _ HT)]. intros t Ht. unfold twf. cbn beta in Ht. lia. }
    destruct (di_NF ts [] [] (length ts) Hwf ltac:(lia) ltac:(lia)) as (U & Q & HE & HL & HQ & HG).
    cbn [app length Nat.add] in HE, HQ, HG. rewrite HE. cbn [bind].
    rewrite app_nil_r, rev_involutive. rewrite HG. reflexivity.
Qed.

(* ---------- the split ---------- *)
Lemma chunkb_break_l t b : tkind_of t = KParagraphBreak -> chunkb t b = false.
Proof. intros H. unfold chunkb. rewrite H. reflexivity. Qed.
Lemma chunkb_break_r a t : tkind_of t = KParagraphBreak -> chunkb a t = false.
Proof. intros H. unfold chunkb. rewrite H. cbn [is_period]. apply andb_false_r. Qed.

Lemma di_go_app B : forall n A st, length A <= n -> ends_break A ->
  di_go st (A ++ B) = di_go st A ++ di_go None B.
Proof.
  induction n as [|n IH]; intros A st Hlen HE.
  - destruct A; [|cbn [length] in Hlen; lia]. destruct HE as (A0 & t & E & _). destruct A0; discriminate.
  - destruct A as [|t0 [|t1 rest']].
    + destruct HE as (A0 & t & E & _). destruct A0; discriminate.
    + assert (Ht : tkind_of t0 = KParagraphBreak).
      { destruct HE as (A0 & t & E & Ht). destruct A0 as [|x [|y A0']]; try discriminate.
        cbn [app] in E. congruence. }
      cbn [app]. rewrite (di_go_short st [t0]) by (cbn [length]; lia).
      destruct B as [|b B']; [cbn [di_go]; rewrite !app_nil_r; reflexivity|].
      rewrite (di_go_nochunk st t0 b B' (chunkb_break_l t0 b Ht)). rewrite <- app_assoc. reflexivity.
    + cbn [length] in Hlen. cbn [app]. destruct (chunkb t0 t1) eqn:Hch.
      * rewrite !(di_go_chunk st t0 t1 _ Hch).
        assert (Hne : rest' <> []).
        { intros ->. destruct HE as (A0 & t & E & Ht). destruct A0 as [|x [|y [|z A0']]]; try discriminate.
          cbn [app] in E. injection E as _ E. subst t. rewrite (chunkb_break_r t0 t1 Ht) in Hch. discriminate. }
        apply IH; [lia|]. destruct (suffix_ends_break _ [t0; t1] rest' HE eq_refl Hne) as (s0 & t & -> & Ht).
        exists s0, t. split; [reflexivity|exact Ht].
      * rewrite !(di_go_nochunk st t0 t1 _ Hch). rewrite <- app_assoc. cbn [app]. f_equal. f_equal.
        apply (IH (t1 :: rest') None); [cbn [length]; lia|].
        destruct (suffix_ends_break _ [t0] (t1 :: rest') HE eq_refl ltac:(discriminate)) as (s0 & t & -> & Ht).
        exists s0, t. split; [reflexivity|exact Ht].
Qed.

(* ---------- moving the tokens ---------- *)
Lemma chunkb_shift k a b : chunkb (shift_tk k a) (shift_tk k b) = chunkb a b.
Proof.
  unfold chunkb, tlen. rewrite !shift_tk_kind, shift_tk_start, shift_tk_end.
  replace (tend a + k - (tstart a + k)) with (tend a - tstart a) by lia. reflexivity.
Qed.

Lemma last_map_ne {X Y} (f : X -> Y) : forall l d d', l <> [] -> last (map f l) d' = f (last l d).
Proof.
  induction l as [|x l IH]; intros d d' Hne; [contradiction|]. destruct l as [|y l']; [reflexivity|].
  cbn [map last] in *. apply IH. discriminate.
Qed.

Lemma di_run_shift k run : di_run (map (shift_tk k) run) = map (shift_tk k) (di_run run).
Proof.
  destruct run as [|w [|p [|x r]]]; try reflexivity.
  cbn [map di_run].
  change (shift_tk k w :: shift_tk k p :: shift_tk k x :: map (shift_tk k) r)
    with (map (shift_tk k) (w :: p :: x :: r)).
  rewrite (last_map_ne (shift_tk k) (w :: p :: x :: r) dummy_tok dummy_tok) by discriminate.
  reflexivity.
Qed.

Lemma di_go_shift k : forall n l st, length l <= n ->
  di_go (option_map (map (shift_tk k)) st) (map (shift_tk k) l) = map (shift_tk k) (di_go st l).
Proof.
  assert (Hfl : forall st, di_flush (option_map (map (shift_tk k)) st) = map (shift_tk k) (di_flush st))
    by (intros [run|]; [apply di_run_shift|reflexivity]).
  induction n as [|n IH]; intros l st Hlen.
  - destruct l; [|cbn [length] in Hlen; lia]. cbn [map di_go]. rewrite Hfl, !app_nil_r. reflexivity.
  - destruct l as [|t0 [|t1 rest']].
    + cbn [map di_go]. rewrite Hfl, !app_nil_r. reflexivity.
    + cbn [map di_go]. rewrite Hfl, map_app. reflexivity.
    + cbn [length] in Hlen. cbn [map]. destruct (chunkb t0 t1) eqn:Hch.
      * rewrite di_go_chunk by (rewrite chunkb_shift; exact Hch). rewrite (di_go_chunk st t0 t1 rest' Hch).
        rewrite <- (IH rest' (Some (di_cur st ++ [t0; t1]))) by lia. cbn [option_map].
        rewrite map_app. cbn [map]. destruct st; reflexivity.
      * rewrite di_go_nochunk by (rewrite chunkb_shift; exact Hch). rewrite (di_go_nochunk st t0 t1 rest' Hch).
        rewrite Hfl, map_app. cbn [map]. f_equal. f_equal.
        apply (IH (t1 :: rest') None). cbn [length]. lia.
Qed.

(* ---------- the statements without the induction bounds ---------- *)
Theorem di_spec_split A B : ends_break A -> di_go None (A ++ B) = di_go None A ++ di_go None B.
Proof. intros H. exact (di_go_app B (length A) A None (le_n _) H). Qed.

Theorem di_spec_moves k l : di_go None (map (shift_tk k) l) = map (shift_tk k) (di_go None l).
Proof. exact (di_go_shift k (length l) l None (le_n _)). Qed.
