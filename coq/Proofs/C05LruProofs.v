(* C05LruProofs.v — the concrete LRU word cache (Model/C05Lru.v) is transparent and bounded. *)
Require Import Base Cache CacheProofs C05Lru.
From Coq Require Import List Arith NArith Bool Lia.
Import ListNotations.

Lemma filter_len_le {A} (f : A -> bool) (l : list A) : length (filter f l) <= length l.
Proof. induction l as [|x l IH]; [apply le_n|]. cbn [filter]. destruct (f x); cbn [length]; lia. Qed.

Section LruFacts.
  Context {K V : Type}.
  Variable eqb : K -> K -> bool.

  Lemma In_remove_key k (m : list (K * V)) kv : In kv (remove_key eqb k m) -> In kv m.
  Proof. unfold remove_key. intros H. apply filter_In in H. tauto. Qed.

  Lemma In_removelast (m : list (K * V)) kv : In kv (removelast m) -> In kv m.
  Proof.
    induction m as [|x m IH]; [intros []|].
    cbn [removelast]. destruct m as [|y m']; [intros []|].
    intros [E|H]; [now left|right; now apply IH].
  Qed.

  Lemma length_remove_key k (m : list (K * V)) : length (remove_key eqb k m) <= length m.
  Proof. unfold remove_key. apply filter_len_le. Qed.

  (* removing a key that is present shortens the list *)
  Lemma length_remove_key_lt k (m : list (K * V)) v :
    (forall a b, eqb a b = true <-> a = b) -> lookup eqb k m = Some v -> length (remove_key eqb k m) < length m.
  Proof.
    intros Hspec. induction m as [|[k' v'] m IH]; cbn [lookup]; [discriminate|].
    unfold remove_key. cbn [filter fst].
    destruct (eqb k k') eqn:E.
    - intros _. cbn [negb]. pose proof (filter_len_le (fun kv => negb (eqb k (fst kv))) m). cbn [length]. lia.
    - intros L. cbn [negb length]. specialize (IH L). unfold remove_key in IH. lia.
  Qed.

  Lemma length_removelast (m : list (K * V)) : m <> [] -> S (length (removelast m)) = length m.
  Proof.
    induction m as [|x m IH]; [congruence|]. intros _.
    cbn [removelast]. destruct m as [|y m']; [reflexivity|].
    cbn [length]. rewrite IH by congruence. reflexivity.
  Qed.
End LruFacts.

Section SpellLruFacts.
  Variable suggest : text -> list text.
  Variable spell_mk : text -> span -> list text -> clint.
  Variable cap : nat.
  Notation spell_ok := (spell_ok suggest).
  Notation lru_suggest := (lru_suggest suggest cap).
  Notation lru_lint_words := (lru_lint_words suggest spell_mk cap).
  Notation spec_words := (spec_words suggest spell_mk).

  (* one lookup: the answer is the uncached one; the invariant and the bound are kept *)
  Lemma lru_suggest_ok w sm :
    spell_ok sm ->
    exists sm' hit, lru_suggest w sm = (sm', suggest w, hit) /\ spell_ok sm' /\
      (1 <= cap -> length sm <= cap -> length sm' <= cap).
  Proof.
    intros Hok. unfold C05Lru.lru_suggest, lru_get.
    destruct (lookup text_eqb w sm) as [v|] eqn:L.
    - assert (v = suggest w) by (apply (Hok w v); now apply (lookup_In text_eqb text_eqb_spec)). subst v.
      eexists _, true. split; [reflexivity|]. split.
      + intros w' v' [E|H]; [injection E as <- <-; reflexivity|]. apply (Hok w' v'). now apply In_remove_key in H.
      + intros _ Hlen. cbn [length]. pose proof (length_remove_key_lt text_eqb w sm _ text_eqb_spec L). lia.
    - unfold lru_put. rewrite L. eexists _, false. split; [reflexivity|]. split.
      + intros w' v' [E|H]; [injection E as <- <-; reflexivity|]. apply (Hok w' v').
        destruct (cap <=? length sm); [now apply In_removelast in H|exact H].
      + intros Hcap Hlen. cbn [length]. destruct (cap <=? length sm) eqn:C.
        * apply Nat.leb_le in C. assert (Hne : sm <> []) by (destruct sm; [cbn in C; lia|congruence]).
          pose proof (length_removelast sm Hne). lia.
        * apply Nat.leb_gt in C. lia.
  Qed.

  (* TRANSPARENCY of the real replacement policy: for every capacity (0 included: nothing is ever kept longer
     than one lookup), every cache content that satisfies the invariant, every word sequence, the lints are
     those of the cache-free specification; the invariant and the capacity bound are kept *)
  Theorem lru_words_transparent : forall ws sm,
    spell_ok sm ->
    exists sm' hits, lru_lint_words ws sm = (sm', spec_words ws, hits) /\ spell_ok sm' /\
      length hits = length ws /\ (1 <= cap -> length sm <= cap -> length sm' <= cap).
  Proof.
    induction ws as [|[sp w] ws IH]; intros sm Hok.
    - exists sm, []. cbn. auto.
    - cbn [C05Lru.lru_lint_words].
      destruct (lru_suggest_ok w sm Hok) as (sm2 & hit & E & Hok2 & Hb2). rewrite E.
      destruct (IH sm2 Hok2) as (sm3 & hits & E3 & Hok3 & Hl & Hb3). rewrite E3.
      exists sm3, (hit :: hits). split; [reflexivity|]. split; [assumption|]. split; [cbn [length]; now rewrite Hl|].
      intros Hcap Hlen. apply Hb3; [assumption|]. now apply Hb2.
  Qed.

  (* a long-lived SpellCheck answers every document as the specification does, from empty caches *)
  Theorem lru_run_transparent : forall docs sm,
    spell_ok sm -> lru_run suggest spell_mk cap docs sm = map spec_words docs.
  Proof.
    induction docs as [|ws docs IH]; intros sm Hok; [reflexivity|].
    cbn [C05Lru.lru_run map].
    destruct (lru_words_transparent ws sm Hok) as (sm' & hits & E & Hok' & _). rewrite E. f_equal. now apply IH.
  Qed.
End SpellLruFacts.

(* non-vacuity: capacity 2, words a b a c b a — `a` is promoted by its hit, so `c` evicts `b` (not `a`), `b`
   misses again and evicts `a`, `a` misses again *)
Definition lx_words : list (span * text) :=
  [(mkspan 0 1, [97]%N); (mkspan 2 3, [98]%N); (mkspan 4 5, [97]%N); (mkspan 6 7, [99]%N); (mkspan 8 9, [98]%N); (mkspan 10 11, [97]%N)].
