(* OverlapProofs.v — lemmas about Model/Overlap.v (remove_overlaps, remove_indices). *)
Require Import Base Overlap.
From Coq Require Import Sorting.Sorted Sorting.Permutation.

Definition lwf (l : lint) : Prop := lstart l <= lend l.
Definition kle (a b : lint) : Prop := key_le a b = true.

(* ---------- the key order ---------- *)
Lemma key_le_spec a b :
  key_le a b = true <-> lstart a < lstart b \/ (lstart a = lstart b /\ lend b <= lend a).
Proof.
  unfold key_le. rewrite orb_true_iff, andb_true_iff, Nat.ltb_lt, Nat.eqb_eq, Nat.leb_le. tauto.
Qed.

Lemma key_le_total a b : key_le a b = false -> key_le b a = true.
Proof.
  intros H. apply key_le_spec.
  destruct (key_le a b) eqn:E; [discriminate|].
  assert (~ (lstart a < lstart b \/ (lstart a = lstart b /\ lend b <= lend a))) as N.
  { intros C. apply key_le_spec in C. congruence. }
  lia.
Qed.

Lemma key_le_trans a b c : kle a b -> kle b c -> kle a c.
Proof. unfold kle. rewrite !key_le_spec. lia. Qed.

Lemma key_le_start a b : kle a b -> lstart a <= lstart b.
Proof. unfold kle. rewrite key_le_spec. lia. Qed.

(* ---------- sort is a sorted permutation ---------- *)
Lemma insert_perm x l : Permutation (linsert x l) (x :: l).
Proof.
  induction l as [|y ys IH]; cbn [linsert]; [reflexivity|].
  destruct (key_le x y); [reflexivity|].
  rewrite IH. apply perm_swap.
Qed.

Lemma sort_perm l : Permutation (lsort l) l.
Proof.
  induction l as [|x xs IH]; cbn [lsort]; [reflexivity|].
  rewrite insert_perm. now constructor.
Qed.

Lemma insert_sorted x l : StronglySorted kle l -> StronglySorted kle (linsert x l).
Proof.
  induction l as [|y ys IH]; cbn [linsert]; intros S.
  - constructor; [constructor|constructor].
  - destruct (key_le x y) eqn:E.
    + constructor; [exact S|]. constructor; [exact E|].
      inversion S as [|? ? _ Hall]; subst.
      eapply Forall_impl; [|exact Hall]. intros z Hz. eapply key_le_trans; [exact E|exact Hz].
    + inversion S as [|? ? Sys Hall]; subst. constructor; [now apply IH|].
      eapply Permutation_Forall; [symmetry; apply insert_perm|].
      constructor; [now apply key_le_total|exact Hall].
Qed.

Lemma sort_sorted l : StronglySorted kle (lsort l).
Proof.
  induction l as [|x xs IH]; cbn [lsort]; [constructor|now apply insert_sorted].
Qed.

Lemma sort_length l : length (lsort l) = length l.
Proof. apply Permutation_length, sort_perm. Qed.

(* stability: elements with equal keys keep their relative order.  We state it as: the sub-list of
   elements satisfying any predicate that is a union of key classes is preserved in order. *)
Definition key_eq (a b : lint) : Prop := lstart a = lstart b /\ lend a = lend b.

Lemma insert_filter_stable (p : lint -> bool) x l :
  (forall y, In y l -> p y = true -> p x = true -> key_le x y = true) ->
  filter p (linsert x l) = filter p (x :: l).
Proof.
  induction l as [|y ys IH]; intros H; cbn [linsert]; [reflexivity|].
  destruct (key_le x y) eqn:E; [reflexivity|].
  cbn [filter]. rewrite IH by (intros z Hz; apply H; now right).
  cbn [filter]. destruct (p x) eqn:Px; [|reflexivity].
  destruct (p y) eqn:Py; [|reflexivity].
  rewrite (H y (or_introl eq_refl) Py eq_refl) in E. discriminate.
Qed.

(* for the class of one key (same start, same end) the order of the members is unchanged *)
Lemma sort_stable (k : lint) l :
  let p := fun y => (lstart y =? lstart k) && (lend y =? lend k) in
  filter p (lsort l) = filter p l.
Proof.
  intros p. induction l as [|x xs IH]; cbn [lsort]; [reflexivity|].
  rewrite insert_filter_stable.
  - cbn [filter]. now rewrite IH.
  - intros y _ Py Px. unfold p in *.
    apply andb_true_iff in Py as [Py1 Py2]. apply andb_true_iff in Px as [Px1 Px2].
    apply Nat.eqb_eq in Py1, Py2, Px1, Px2. apply key_le_spec. lia.
Qed.

(* ---------- remove_indices ---------- *)
Lemma sweep_ge cur i ls r : In r (sweep cur i ls) -> i <= r.
Proof.
  revert cur i. induction ls as [|l rest IH]; intros cur i; cbn [sweep]; [intros []|].
  destruct (lstart l <? cur).
  - intros [<-|H]; [lia|]. apply IH in H. lia.
  - intros H. apply IH in H. lia.
Qed.

Lemma remove_indices_nil {A} i (xs : list A) : remove_indices i [] xs = xs.
Proof. revert i. induction xs as [|x xs IH]; intros i; cbn [remove_indices]; [reflexivity|now rewrite IH]. Qed.

Lemma remove_indices_sweep cur i ls :
  remove_indices i (sweep cur i ls) ls = sweep_kept cur ls.
Proof.
  revert cur i. induction ls as [|l rest IH]; intros cur i; cbn [sweep sweep_kept]; [reflexivity|].
  destruct (lstart l <? cur) eqn:E.
  - cbn [remove_indices]. rewrite Nat.eqb_refl. apply IH.
  - cbn [remove_indices]. destruct (sweep (lend l) (S i) rest) as [|r q'] eqn:Q.
    + f_equal. rewrite <- (IH (lend l) (S i)), Q. reflexivity.
    + assert (S i <= r) as Hr by (eapply sweep_ge; rewrite Q; now left).
      destruct (i =? r) eqn:Eir; [apply Nat.eqb_eq in Eir; lia|].
      f_equal. rewrite <- Q. apply IH.
Qed.

(* the early return is an optimisation: the function is sweep_kept 0 ∘ sort on every input *)
Lemma remove_overlaps_spec ls : Forall lwf ls \/ True -> remove_overlaps ls = sweep_kept 0 (lsort ls).
Proof.
  intros _. unfold remove_overlaps. destruct (length ls <? 2) eqn:E.
  - apply Nat.ltb_lt in E. destruct ls as [|x [|y t]]; cbn in E; try lia; reflexivity.
  - cbn zeta. apply remove_indices_sweep.
Qed.

Lemma dropped_spec ls : Permutation (dropped ls) (sweep_dropped 0 (lsort ls)) /\ dropped ls = sweep_dropped 0 (lsort ls).
Proof.
  unfold dropped. destruct (length ls <? 2) eqn:E; [|split; reflexivity].
  apply Nat.ltb_lt in E. destruct ls as [|x [|y t]]; cbn in E; try lia; split; reflexivity.
Qed.

(* specification of remove_indices for a strictly increasing queue: filter by position *)
Fixpoint filter_idx {A} (i : nat) (q : list nat) (xs : list A) : list A :=
  match xs with
  | [] => []
  | x :: xs' => if existsb (Nat.eqb i) q then filter_idx (S i) q xs' else x :: filter_idx (S i) q xs'
  end.

Lemma filter_idx_skip {A} i r q (xs : list A) : r < i -> filter_idx i (r :: q) xs = filter_idx i q xs.
Proof.
  revert i. induction xs as [|x xs IH]; intros i Hr; cbn [filter_idx existsb]; [reflexivity|].
  destruct (i =? r) eqn:E; [apply Nat.eqb_eq in E; lia|]. cbn [orb].
  rewrite !IH by lia. reflexivity.
Qed.

Lemma remove_indices_filter {A} i q (xs : list A) :
  StronglySorted lt q -> Forall (le i) q -> remove_indices i q xs = filter_idx i q xs.
Proof.
  revert i q. induction xs as [|x xs IH]; intros i q Sq Hq; cbn [remove_indices filter_idx]; [reflexivity|].
  destruct q as [|r q'].
  - cbn [existsb]. f_equal. apply IH; constructor.
  - cbn [existsb]. inversion Sq as [|? ? Sq' Hlt]; subst. inversion Hq as [|? ? Hir Hq']; subst.
    destruct (i =? r) eqn:E.
    + cbn [orb]. apply Nat.eqb_eq in E; subst r.
      rewrite IH; [|exact Sq'|eapply Forall_impl; [|exact Hlt]; cbn; intros; lia].
      symmetry. apply filter_idx_skip. lia.
    + cbn [orb]. apply Nat.eqb_neq in E.
      assert (existsb (Nat.eqb i) q' = false) as ->.
      { apply not_true_is_false. intros C. apply existsb_exists in C as [z [Hz Ez]].
        apply Nat.eqb_eq in Ez; subst z. rewrite Forall_forall in Hlt. specialize (Hlt _ Hz). lia. }
      f_equal. apply IH; [exact Sq|]. constructor; [lia|].
      eapply Forall_impl; [|exact Hlt]. cbn; intros; lia.
Qed.

Lemma sweep_sorted cur i ls : StronglySorted lt (sweep cur i ls).
Proof.
  revert cur i. induction ls as [|l rest IH]; intros cur i; cbn [sweep]; [constructor|].
  destruct (lstart l <? cur); [|apply IH].
  constructor; [apply IH|]. apply Forall_forall. intros r Hr. apply sweep_ge in Hr. lia.
Qed.

(* ---------- nothing invented, nothing altered ---------- *)
Inductive subseq {A} : list A -> list A -> Prop :=
| sub_nil : subseq [] []
| sub_skip x l1 l2 : subseq l1 l2 -> subseq l1 (x :: l2)
| sub_take x l1 l2 : subseq l1 l2 -> subseq (x :: l1) (x :: l2).

Lemma sweep_kept_subseq cur ls : subseq (sweep_kept cur ls) ls.
Proof.
  revert cur. induction ls as [|l rest IH]; intros cur; cbn [sweep_kept]; [constructor|].
  destruct (lstart l <? cur); [apply sub_skip|apply sub_take]; apply IH.
Qed.

Lemma sweep_partition cur ls : Permutation (sweep_kept cur ls ++ sweep_dropped cur ls) ls.
Proof.
  revert cur. induction ls as [|l rest IH]; intros cur; cbn [sweep_kept sweep_dropped]; [reflexivity|].
  destruct (lstart l <? cur).
  - rewrite <- Permutation_middle. constructor. apply IH.
  - cbn [app]. constructor. apply IH.
Qed.

Lemma subseq_In {A} (l1 l2 : list A) x : subseq l1 l2 -> In x l1 -> In x l2.
Proof. induction 1; cbn; intuition. Qed.

(* ---------- kept lints are pairwise disjoint ---------- *)
Lemma sweep_kept_ge cur ls :
  Forall lwf ls -> Forall (fun k => cur <= lstart k) (sweep_kept cur ls).
Proof.
  revert cur. induction ls as [|l rest IH]; intros cur W; cbn [sweep_kept]; [constructor|].
  inversion W as [|? ? Wl Wr]; subst.
  destruct (lstart l <? cur) eqn:E; [now apply IH|].
  apply Nat.ltb_ge in E. constructor; [exact E|].
  eapply Forall_impl; [|apply (IH (lend l) Wr)]. cbn. unfold lwf in Wl. intros; lia.
Qed.

Lemma sweep_kept_chain cur ls :
  Forall lwf ls -> ForallOrdPairs (fun a b => lend a <= lstart b) (sweep_kept cur ls).
Proof.
  revert cur. induction ls as [|l rest IH]; intros cur W; cbn [sweep_kept]; [constructor|].
  inversion W as [|? ? Wl Wr]; subst.
  destruct (lstart l <? cur); [now apply IH|].
  constructor; [|now apply IH]. now apply sweep_kept_ge.
Qed.

Lemma chain_no_overlap a b : lend a <= lstart b -> overlaps (lspan a) (lspan b) = false /\ overlaps (lspan b) (lspan a) = false.
Proof.
  unfold overlaps, lend, lstart. intros H. split.
  - apply andb_false_iff. right. apply Nat.ltb_ge. exact H.
  - apply andb_false_iff. left. apply Nat.ltb_ge. exact H.
Qed.

Definition covers (l : lint) (c : nat) : Prop := lstart l <= c < lend l.

(* ---------- every dropped lint starts inside a kept one ---------- *)
Lemma sweep_dropped_inside ls : forall cur,
  StronglySorted kle ls ->
  forall d, In d (sweep_dropped cur ls) ->
    lstart d < cur \/ exists k, In k (sweep_kept cur ls) /\ lstart k <= lstart d < lend k.
Proof.
  induction ls as [|l rest IH]; intros cur S d; cbn [sweep_dropped sweep_kept]; [intros []|].
  inversion S as [|? ? Sr Hall]; subst.
  destruct (lstart l <? cur) eqn:E.
  - intros [<-|Hd]; [left; now apply Nat.ltb_lt|]. now apply IH.
  - intros Hd. right. destruct (IH (lend l) Sr d Hd) as [Hlt|[k [Hk Hin]]].
    + exists l. split; [now left|]. split; [|exact Hlt].
      apply key_le_start. rewrite Forall_forall in Hall. apply Hall.
      eapply Permutation_in; [apply sweep_partition|]. apply in_or_app. right. exact Hd.
    + exists k. split; [now right|exact Hin].
Qed.

(* ---------- statements in the form the property file pins ---------- *)
Lemma ro_sublist ls :
  subseq (remove_overlaps ls) (lsort ls) /\ Permutation (lsort ls) ls /\
  Permutation (remove_overlaps ls ++ dropped ls) ls.
Proof.
  rewrite remove_overlaps_spec by (now right). destruct (dropped_spec ls) as [_ ->].
  split; [apply sweep_kept_subseq|]. split; [apply sort_perm|].
  rewrite sweep_partition. apply sort_perm.
Qed.

Definition disjoint_pair (a b : lint) : Prop :=
  lend a <= lstart b /\ overlaps (lspan a) (lspan b) = false /\ overlaps (lspan b) (lspan a) = false
  /\ forall c, ~ (covers a c /\ covers b c).

Lemma ro_disjoint ls : Forall lwf ls -> ForallOrdPairs disjoint_pair (remove_overlaps ls).
Proof.
  intros W. rewrite remove_overlaps_spec by (now right).
  assert (Forall lwf (lsort ls)) as W' by (eapply Permutation_Forall; [symmetry; apply sort_perm|exact W]).
  pose proof (sweep_kept_chain 0 _ W') as C.
  induction C as [|a l Ha C IH]; constructor; [|exact IH].
  eapply Forall_impl; [|exact Ha]. intros b Hab. cbn beta in Hab. unfold disjoint_pair.
  destruct (chain_no_overlap a b Hab) as [H1 H2]. repeat split; try assumption.
  unfold covers. intros c. lia.
Qed.

Lemma ro_dropped_inside ls d :
  In d (dropped ls) -> exists k, In k (remove_overlaps ls) /\ lstart k <= lstart d < lend k.
Proof.
  rewrite remove_overlaps_spec by (now right). destruct (dropped_spec ls) as [_ ->]. intros H.
  destruct (sweep_dropped_inside (lsort ls) 0 (sort_sorted ls) d H) as [C|C]; [lia|exact C].
Qed.

Lemma ro_short ls : length ls < 2 -> remove_overlaps ls = ls.
Proof. intros H. unfold remove_overlaps. apply Nat.ltb_lt in H. now rewrite H. Qed.

Lemma ro_kept_in ls k : In k (remove_overlaps ls) -> In k ls.
Proof.
  intros H. destruct (ro_sublist ls) as [S [P _]].
  eapply Permutation_in; [exact P|]. eapply subseq_In; eassumption.
Qed.

Lemma remove_indices_filter0 {A} q (xs : list A) :
  StronglySorted lt q -> remove_indices 0 q xs = filter_idx 0 q xs.
Proof. intros S. apply remove_indices_filter; [exact S|]. apply Forall_forall. intros; lia. Qed.

Lemma sort_is_stable_sort ls :
  Permutation (lsort ls) ls /\ StronglySorted kle (lsort ls) /\
  forall k, filter (fun y => (lstart y =? lstart k) && (lend y =? lend k)) (lsort ls)
          = filter (fun y => (lstart y =? lstart k) && (lend y =? lend k)) ls.
Proof. split; [apply sort_perm|]. split; [apply sort_sorted|]. intros k. apply sort_stable. Qed.
