(* MaskFrontends.v — the per-front-end offset glue of C04: Typst cursor, Markdown cursor, Mask
   well-formedness (push_allowed / merge_whitespace_sep), comment leaders and line loops, ignore
   markers, Literate Haskell masker, git-commit cut. *)
Require Import Base Mask ListLemmas MaskProofs Tables_masks.
From Coq Require Import ZArith Lia.

(* ====================================================================================== *)
(** * G. Typst: OffsetCursor *)

Definition cur_ok (doc : list N) (c : cursor) : Prop :=
  cchar c = char_index doc (cbyte c) /\ is_boundary doc (cbyte c) = true.

Lemma cur_ok_start doc : cur_ok doc (mkcur 0 0).
Proof. split; reflexivity. Qed.

Lemma push_to_spec doc c nb c' : cur_ok doc c -> push_to doc c nb = Ok c' ->
  cbyte c' = nb /\ cbyte c <= nb /\ cur_ok doc c'.
Proof.
  intros [Hc Hb]. unfold push_to.
  destruct (Nat.ltb_spec nb (cbyte c)); [discriminate|].
  destruct (Nat.eqb_spec nb (cbyte c)) as [->|Hne].
  - intros H'. inversion H'; subst. repeat split; auto.
  - rewrite str_slice_ok. destruct ((cbyte c <=? nb) && is_boundary doc (cbyte c) && is_boundary doc nb) eqn:E; [|discriminate].
    intros H'. inversion H'; subst. cbn [cbyte cchar]. apply andb_true_iff in E as [_ E].
    repeat split; try lia; [|assumption]. rewrite Hc. symmetry. apply char_index_split. lia.
Qed.

(* exact success condition *)
Lemma push_to_ok doc c nb : cur_ok doc c ->
  (exists c', push_to doc c nb = Ok c') <-> cbyte c <= nb /\ is_boundary doc nb = true.
Proof.
  intros [Hc Hb]. unfold push_to. split.
  - intros [c' H]. destruct (Nat.ltb_spec nb (cbyte c)); [discriminate|].
    destruct (Nat.eqb_spec nb (cbyte c)) as [->|Hne]; [split; [lia|assumption]|].
    rewrite str_slice_ok in H. destruct ((cbyte c <=? nb) && is_boundary doc (cbyte c) && is_boundary doc nb) eqn:E; [|discriminate].
    apply andb_true_iff in E as [_ E]. split; [lia|assumption].
  - intros [Hle Hnb]. destruct (Nat.ltb_spec nb (cbyte c)); [lia|].
    destruct (Nat.eqb_spec nb (cbyte c)); [eauto|]. rewrite str_slice_ok, Hb, Hnb.
    destruct (Nat.leb_spec (cbyte c) nb); [|lia]. cbn. eauto.
Qed.

Lemma push_to_all_spec doc : forall bytes c c', cur_ok doc c -> push_to_all doc c bytes = Ok c' -> cur_ok doc c' /\ cbyte c <= cbyte c'.
Proof.
  induction bytes as [|b t IH]; intros c c' Hc H; cbn in H.
  - inversion H; subst. split; [assumption|lia].
  - destruct (push_to doc c b) as [c1|] eqn:E; cbn in H; [|discriminate].
    destruct (push_to_spec _ _ _ _ Hc E) as (H1 & H2 & H3). destruct (IH _ _ H3 H) as [H4 H5]. split; [assumption|lia].
Qed.

(* C04_offset_cursor: whatever sequence of pushes led to the cursor, its char field is the number of
   chars before its byte field; hence def_token! places a node at its true char span *)
Theorem offset_cursor (t : text) bytes c : Forall valid_char t ->
  push_to_all (encode t) (mkcur 0 0) bytes = Ok c ->
  cchar c <= length t /\ firstn (cbyte c) (encode t) = encode (firstn (cchar c) t).
Proof.
  intros Hv H. destruct (push_to_all_spec _ _ _ _ (cur_ok_start _) H) as [[Hc Hb] _].
  destruct (utf8_index t _ Hv Hb) as (k & Hk & Hf & Hi & _). rewrite Hc, Hi. auto.
Qed.

Theorem def_token_denotes (t : text) off a b kind tk : Forall valid_char t ->
  cur_ok (encode t) off -> def_token (encode t) off a b kind = Ok tk ->
  tkind tk = kind /\ cbyte off <= a <= b /\
  sstart (tspan tk) <= send (tspan tk) <= length t /\
  encode (slice t (sstart (tspan tk)) (send (tspan tk))) = slice (encode t) a b.
Proof.
  intros Hv Hoff H. unfold def_token in H.
  destruct (push_to (encode t) off a) as [s|] eqn:E1; cbn [bind] in H; [|discriminate].
  destruct (push_to (encode t) s b) as [e|] eqn:E2; cbn [bind] in H; [|discriminate].
  inversion H; subst tk. cbn [tkind tspan sstart send].
  destruct (push_to_spec _ _ _ _ Hoff E1) as (Hs1 & Hs2 & [Hs3 Hs4]).
  destruct (push_to_spec _ _ _ _ (conj Hs3 Hs4) E2) as (He1 & He2 & [He3 He4]).
  split; [reflexivity|]. split; [lia|].
  assert (Hwf : span_wf (mkspan a b)) by (unfold span_wf; cbn; lia).
  assert (Hob : on_boundaries (encode t) (mkspan a b)) by (split; cbn; congruence).
  destruct (cidx_denotes t _ Hv Hwf Hob) as (H1 & H2 & _). cbn [cidx sstart send] in H1, H2.
  rewrite Hs3, He3, Hs1, He1. split; assumption.
Qed.

(* ====================================================================================== *)
(** * H. Markdown: traversed_bytes / traversed_chars *)

Lemma md_advance_spec bs tb tc rs tb' tc' : tc = char_index bs tb -> is_boundary bs tb = true ->
  md_advance bs tb tc rs = Ok (tb', tc') ->
  tb' = Nat.max tb rs /\ tc' = char_index bs tb' /\ is_boundary bs tb' = true.
Proof.
  intros Hc Hb. unfold md_advance. destruct (Nat.ltb_spec tb rs).
  - rewrite str_slice_ok. destruct ((tb <=? rs) && is_boundary bs tb && is_boundary bs rs) eqn:E; cbn [bind]; [|discriminate].
    intros H'. inversion H'; subst. apply andb_true_iff in E as [_ E]. repeat split; try lia; [|assumption].
    symmetry. apply char_index_split. lia.
  - intros H'. inversion H'; subst. repeat split; try lia; assumption.
Qed.

Lemma md_advance_ok bs tb tc rs : is_boundary bs tb = true -> is_boundary bs rs = true ->
  exists r, md_advance bs tb tc rs = Ok r.
Proof.
  intros Hb Hr. unfold md_advance. destruct (Nat.ltb_spec tb rs); [|eauto].
  rewrite str_slice_ok, Hb, Hr. destruct (Nat.leb_spec tb rs); [|lia]. cbn. eauto.
Qed.

(* the same loop (guard of 8b26ba4 included) with the char cursor computed absolutely, from the event's own byte start *)
Fixpoint md_loop_abs (lex : text -> list tok) (ilt : bool) (src : text) (bs : list N)
         (evs : list (md_event * nat)) (cu : nat) (lastend : option nat) (stack : list md_tag) : res (list tok) :=
  match evs with
  | [] => Ok []
  | (ev, rs) :: rest =>
      let tc := char_index bs rs in
      let cu := md_cu_top cu lastend in
      if md_is_leaf ev && (tc <? cu) then md_loop_abs lex ilt src bs rest cu lastend stack
      else
        do '(out, stack) <- md_event_step lex ilt src bs rs stack tc ev;
        do r <- md_loop_abs lex ilt src bs rest cu (md_last_end out lastend) stack;
        Ok (out ++ r)
  end.

Fixpoint starts_from (lo : nat) (l : list nat) : Prop :=
  match l with [] => True | x :: t => lo <= x /\ starts_from x t end.

(* the same loop with the char cursor computed absolutely from the running maximum of the range starts *)
Fixpoint md_loop_max (lex : text -> list tok) (ilt : bool) (src : text) (bs : list N)
         (evs : list (md_event * nat)) (tb cu : nat) (lastend : option nat) (stack : list md_tag) : res (list tok) :=
  match evs with
  | [] => Ok []
  | (ev, rs) :: rest =>
      let tb' := Nat.max tb rs in
      let tc := char_index bs tb' in
      let cu := md_cu_top cu lastend in
      if md_is_leaf ev && ((rs <? tb) || (tc <? cu)) then md_loop_max lex ilt src bs rest tb' cu lastend stack
      else
        do '(out, stack) <- md_event_step lex ilt src bs rs stack tc ev;
        do r <- md_loop_max lex ilt src bs rest tb' cu (md_last_end out lastend) stack;
        Ok (out ++ r)
  end.

(* C04_md_offsets (general form; End events carry the range of the whole element, so starts DO go
   backwards): when every range starts on a char boundary the bookkeeping never panics and each event
   is handled — or skipped by the covered_until guard — at the true char offset of the furthest range
   start seen so far *)
Theorem md_offsets_max lex ilt src bs : forall evs tb tc cu lastend stack,
  tc = char_index bs tb -> is_boundary bs tb = true ->
  Forall (fun e => is_boundary bs (snd e) = true) evs ->
  md_loop lex ilt src bs evs tb tc cu lastend stack = md_loop_max lex ilt src bs evs tb cu lastend stack.
Proof.
  induction evs as [|[ev rs] rest IH]; intros tb tc cu lastend stack Hc Hb Hbs; [reflexivity|].
  pose proof (Forall_inv Hbs) as Hrs. pose proof (Forall_inv_tail Hbs) as Hbs'. cbn [snd] in Hrs.
  cbn [md_loop md_loop_max]. destruct (md_advance_ok bs tb tc rs Hb Hrs) as [[tb' tc'] E]. rewrite E. cbn [bind].
  destruct (md_advance_spec _ _ _ _ _ _ Hc Hb E) as (H1 & H2 & H3). subst tb'. rewrite H2.
  destruct (md_is_leaf ev && ((rs <? tb) || (char_index bs (Nat.max tb rs) <? md_cu_top cu lastend))).
  - apply IH; [reflexivity|assumption|assumption].
  - destruct (md_event_step lex ilt src bs rs stack (char_index bs (Nat.max tb rs)) ev) as [[out st]|]; cbn [bind]; [|reflexivity].
    rewrite (IH (Nat.max tb rs) (char_index bs (Nat.max tb rs)) _ _ st eq_refl H3 Hbs'). reflexivity.
Qed.

(* C04_md_offsets: when the event ranges start on char boundaries in non-decreasing order, the incremental
   bookkeeping never panics and every event is handled (or skipped by the guard) with traversed_chars = the
   true char offset of its range start *)
Theorem md_offsets lex ilt src bs : forall evs tb tc cu lastend stack,
  tc = char_index bs tb -> is_boundary bs tb = true ->
  starts_from tb (map snd evs) -> Forall (fun e => is_boundary bs (snd e) = true) evs ->
  md_loop lex ilt src bs evs tb tc cu lastend stack = md_loop_abs lex ilt src bs evs cu lastend stack.
Proof.
  induction evs as [|[ev rs] rest IH]; intros tb tc cu lastend stack Hc Hb Hs Hbs; [reflexivity|].
  cbn [map snd starts_from] in Hs. destruct Hs as [Hle Hs]. pose proof (Forall_inv Hbs) as Hrs. pose proof (Forall_inv_tail Hbs) as Hbs'. cbn [snd] in Hrs.
  cbn [md_loop md_loop_abs]. destruct (md_advance_ok bs tb tc rs Hb Hrs) as [[tb' tc'] E]. rewrite E. cbn [bind].
  destruct (md_advance_spec _ _ _ _ _ _ Hc Hb E) as (H1 & H2 & H3).
  subst tb'. replace (Nat.max tb rs) with rs in * by lia. rewrite H2.
  destruct (Nat.ltb_spec rs tb) as [Hlt|_]; [lia|]. cbn [orb].
  destruct (md_is_leaf ev && (char_index bs rs <? md_cu_top cu lastend)).
  - apply IH; [reflexivity|assumption|assumption|assumption].
  - destruct (md_event_step lex ilt src bs rs stack (char_index bs rs) ev) as [[out st]|]; cbn [bind]; [|reflexivity].
    rewrite (IH rs (char_index bs rs) _ _ st eq_refl H3 Hs Hbs'). reflexivity.
Qed.

Theorem md_cursors_spec bs : forall starts tb tc,
  tc = char_index bs tb -> is_boundary bs tb = true ->
  starts_from tb starts -> Forall (fun s => is_boundary bs s = true) starts ->
  md_cursors bs starts tb tc = Ok (map (fun s => (s, char_index bs s)) starts).
Proof.
  induction starts as [|rs rest IH]; intros tb tc Hc Hb Hs Hbs; [reflexivity|].
  cbn [starts_from] in Hs. destruct Hs as [Hle Hs]. pose proof (Forall_inv Hbs) as Hrs. pose proof (Forall_inv_tail Hbs) as Hbs'.
  cbn [md_cursors map]. destruct (md_advance_ok bs tb tc rs Hb Hrs) as [[tb' tc'] E]. rewrite E. cbn [bind].
  destruct (md_advance_spec _ _ _ _ _ _ Hc Hb E) as (H1 & H2 & H3).
  subst tb'. replace (Nat.max tb rs) with rs in * by lia. rewrite (IH rs tc' H2 H3 Hs Hbs'). cbn [bind]. now rewrite H2.
Qed.

(* a Text event that is lexed: its tokens are the lexer's tokens of exactly source[tc .. tc+n], shifted by tc *)
Lemma md_text_lexed lex ilt src stack tc n out :
  md_text lex ilt src stack tc n = Ok out ->
  (forall tk, In tk out -> tkind tk = K_UNLINTABLE /\ tspan tk = mkspan tc (tc + n)) \/
  out = [] \/
  (tc + n <= length src /\ out = map (tpush tc) (lex (slice src tc (tc + n)))).
Proof.
  unfold md_text, slice_chk, span_new_with_len.
  assert (Hlex : (do chunk <- (if (tc + n <? tc) || (length src <? tc + n) then Panic PIndex
                               else Ok (firstn (tc + n - tc) (skipn tc src))); Ok (map (tpush tc) (lex chunk))) = Ok out ->
                 tc + n <= length src /\ out = map (tpush tc) (lex (slice src tc (tc + n)))).
  { destruct (Nat.ltb_spec (tc + n) tc); [lia|]. destruct (Nat.ltb_spec (length src) (tc + n)); cbn; [discriminate|].
    intros H'. inversion H'. split; [lia|reflexivity]. }
  assert (Hunl : forall tk, In tk [mktok (mkspan tc (tc + n)) K_UNLINTABLE] -> tkind tk = K_UNLINTABLE /\ tspan tk = mkspan tc (tc + n)).
  { intros tk [<-|[]]. split; reflexivity. }
  destruct stack as [|tag st]; [intros H; right; right; now apply Hlex|].
  destruct tag; cbn [tag_is_prose]; intros H;
    try (right; right; now apply Hlex);
    try (inversion H; subst; left; exact Hunl);
    try (inversion H; subst; right; left; reflexivity).
  destruct ilt; cbn in H.
  - inversion H; subst. left. exact Hunl.
  - right. right. now apply Hlex.
Qed.

(* md_text never panics when the chunk lies inside the source, and pushes nothing, ONE Unlintable token over
   exactly the chunk, or the lexer's tokens of exactly the chunk *)
Lemma md_text_cases lex ilt (src : text) stack tc n : tc + n <= length src ->
  exists out, md_text lex ilt src stack tc n = Ok out /\
    (out = [] \/ out = [mktok (mkspan tc (tc + n)) K_UNLINTABLE] \/
     out = map (tpush tc) (lex (slice src tc (tc + n)))).
Proof.
  intros Hb. unfold md_text, slice_chk, span_new_with_len, slice.
  destruct (Nat.ltb_spec (tc + n) tc); [lia|]. destruct (Nat.ltb_spec (length src) (tc + n)); [lia|]. cbn [orb bind].
  destruct stack as [|tag st]; [eexists; split; [reflexivity|right; right; reflexivity]|].
  destruct tag; cbn [tag_is_prose];
    try (eexists; split; [reflexivity|]; first [left; reflexivity|right; left; reflexivity|right; right; reflexivity]).
  destruct ilt; cbn [negb]; eexists; (split; [reflexivity|]); first [right; left; reflexivity|right; right; reflexivity].
Qed.

(* C04_md_code_unlintable: Code / InlineMath / DisplayMath / Html / InlineHtml events, Text inside a
   code block, and (with ignore_link_title) Text directly inside a link only ever produce Unlintable;
   Text under any tag outside the prose list produces nothing *)
Theorem md_code_unlintable lex ilt src bs rs stack tc ev out st :
  md_event_step lex ilt src bs rs stack tc ev = Ok (out, st) ->
  (match ev with
   | ECodeLike _ | EHtml _ => True
   | EText _ _ => match stack with
                  | TCodeBlock :: _ => True
                  | TLink :: _ => ilt = true
                  | _ => False
                  end
   | _ => False
   end) ->
  forall tk, In tk out -> tkind tk = K_UNLINTABLE.
Proof.
  intros H Hev tk Hin. destruct ev; try contradiction; cbn [md_event_step] in H.
  - destruct (n =? 0); inversion H; subst; [destruct Hin|]. destruct Hin as [<-|[]]. reflexivity.
  - destruct (md_chunk_len bs rs re n) as [cl|]; cbn [bind] in H; [|discriminate].
    destruct (cl =? 0); [inversion H; subst; destruct Hin|].
    destruct stack as [|tag s']; [contradiction|]. destruct tag; try contradiction.
    + subst ilt. cbn in H. inversion H; subst. destruct Hin as [<-|[]]. reflexivity.
    + cbn in H. inversion H; subst. destruct Hin as [<-|[]]. reflexivity.
  - inversion H; subst. destruct Hin as [<-|[]]. reflexivity.
Qed.

(* C04_md_text_clamped (F27 / FC04f fixed): a Text event whose source range [rs, re) lies on char
   boundaries, handled at the true char offset of its range start, never panics; the chunk it claims is
   at most the event's text length AND at most the number of chars its source range holds, so it ends
   at or before the true char offset of range.end — inside the source whatever text pulldown-cmark
   synthesised; what is pushed is nothing, one Unlintable token over exactly that chunk, or the lexer's
   tokens of exactly that chunk of the source *)
Theorem md_text_clamped lex ilt (src : text) rs re stack n :
  Forall valid_char src -> rs <= re ->
  is_boundary (encode src) rs = true -> is_boundary (encode src) re = true ->
  let bs := encode src in
  let tc := char_index bs rs in
  exists cl out, md_event_step lex ilt src bs rs stack tc (EText n re) = Ok (out, stack) /\
    cl <= n /\ tc + cl <= char_index bs re /\ char_index bs re <= length src /\
    (out = [] \/
     (0 < cl /\ out = [mktok (mkspan tc (tc + cl)) K_UNLINTABLE]) \/
     (0 < cl /\ out = map (tpush tc) (lex (slice src tc (tc + cl))))).
Proof.
  intros Hv Hle Hbs Hbe bs tc. cbn [md_event_step]. unfold md_chunk_len.
  rewrite str_slice_ok. fold bs. subst bs. rewrite Hbs, Hbe. destruct (Nat.leb_spec rs re); [|lia]. cbn [andb bind].
  set (bs := encode src) in *.
  pose proof (char_index_split bs rs re Hle) as Hsp.
  destruct (utf8_index src re Hv Hbe) as (k & Hk & _ & Hik & _). fold bs in Hik.
  set (cl := Nat.min n (count_chars (slice bs rs re))).
  assert (Hcl1 : cl <= n) by (unfold cl; lia).
  assert (Hcl2 : tc + cl <= char_index bs re) by (unfold cl, tc; lia).
  assert (Hlen : char_index bs re <= length src) by lia.
  destruct (Nat.eqb_spec cl 0) as [Hz|Hnz].
  - exists cl, []. repeat split; try assumption. now left.
  - assert (Hpos : 0 < cl) by lia.
    destruct (md_text_cases lex ilt src stack tc cl ltac:(lia)) as (o & Ho & Hcases). rewrite Ho. cbn [bind].
    exists cl, o. repeat split; try assumption.
    destruct Hcases as [Hc | [Hc | Hc] ]; subst o; [now left|right; left; now split|right; right; now split].
Qed.

Theorem md_nonprose_tag_silent lex ilt src tag stack tc n out :
  tag_is_prose ilt tag = false -> tag <> TCodeBlock -> tag <> TLink ->
  md_text lex ilt src (tag :: stack) tc n = Ok out -> out = [].
Proof.
  intros Hp H1 H2. unfold md_text. destruct tag; cbn in Hp; try discriminate; try congruence; intros H; now inversion H.
Qed.

(* ---- the covered_until guard (8b26ba4) and the empty Code / Math body (a37d1cc) ---- *)

(* the two zero-width tokens of the unguarded arms: Start(List) and the breaking End events *)
Definition md_structural (t : tok) : Prop :=
  sstart (tspan t) = send (tspan t) /\ (tkind t = K_PARBREAK \/ tkind t = K_NEWLINE2).

(* an empty Code / InlineMath / DisplayMath body pushes nothing (`$$$$`) *)
Lemma md_empty_code_silent lex ilt src bs rs stack tc :
  md_event_step lex ilt src bs rs stack tc (ECodeLike 0) = Ok ([], stack).
Proof. reflexivity. Qed.

(* what one handled event pushes starts at or after the cursor, or is one of the two zero-width tokens of an
   unguarded arm *)
Lemma md_event_step_from lex ilt src bs rs stack tc ev out st :
  md_event_step lex ilt src bs rs stack tc ev = Ok (out, st) ->
  (md_is_leaf ev = true -> Forall (fun t => tc <= sstart (tspan t)) out) /\
  (md_is_leaf ev = false -> Forall md_structural out).
Proof.
  intros H. destruct ev; cbn [md_event_step md_is_leaf] in *; (split; intros Hl; try discriminate).
  - destruct t; inversion H; subst; try apply Forall_nil.
    constructor; [|constructor]. split; [cbn; lia|now right].
  - inversion H; subst. constructor; [|constructor]. split; [cbn; lia|now left].
  - inversion H; subst. constructor.
  - inversion H; subst. constructor; [cbn; lia|constructor].
  - inversion H; subst. constructor; [cbn; lia|constructor].
  - destruct (n =? 0); inversion H; subst; [constructor|]. constructor; [cbn; lia|constructor].
  - destruct (md_chunk_len bs rs re n) as [cl|]; cbn [bind] in H; [|discriminate].
    destruct (cl =? 0); [inversion H; subst; constructor|].
    destruct (md_text lex ilt src stack tc cl) as [o|] eqn:E; cbn [bind] in H; [|discriminate]. inversion H; subst o st.
    destruct (md_text_lexed _ _ _ _ _ _ _ E) as [Hu | [-> | [_ ->] ] ].
    + apply Forall_forall. intros t Ht. destruct (Hu t Ht) as [_ ->]. cbn. lia.
    + constructor.
    + apply Forall_forall. intros t Ht. apply in_map_iff in Ht as (t0 & <- & _). unfold tpush, push_by. cbn. lia.
  - inversion H; subst. constructor; [cbn; lia|constructor].
  - inversion H; subst. constructor.
Qed.

Lemma md_cu_top_mono cu lastend out : md_cu_top cu lastend <= md_cu_top (md_cu_top cu lastend) (md_last_end out lastend).
Proof. generalize (md_cu_top cu lastend). intros c. unfold md_cu_top. destruct (md_last_end out lastend); lia. Qed.

(* C04_md_guard: in the output of the loop from any state (cu, lastend) every token starts at or after
   max(covered_until, end of the token pushed last) or is a zero-width ParagraphBreak / Newline(2) of an unguarded
   Start(List) / End arm: an event that repeats source text already tokenised makes no second token over it.  The
   statement holds from every intermediate state, i.e. for every suffix of the event list. *)
Theorem md_guard_covered lex ilt src bs : forall evs tb cu lastend stack toks,
  md_loop_max lex ilt src bs evs tb cu lastend stack = Ok toks ->
  Forall (fun t => md_structural t \/ md_cu_top cu lastend <= sstart (tspan t)) toks.
Proof.
  induction evs as [|[ev rs] rest IH]; intros tb cu lastend stack toks H; cbn [md_loop_max] in H.
  - inversion H. constructor.
  - destruct (md_is_leaf ev && ((rs <? tb) || (char_index bs (Nat.max tb rs) <? md_cu_top cu lastend))) eqn:G.
    + specialize (IH _ _ _ _ _ H). eapply Forall_impl; [|exact IH]. cbn beta. intros t [Ht|Ht]; [now left|right].
      unfold md_cu_top in *. destruct lastend; lia.
    + destruct (md_event_step lex ilt src bs rs stack (char_index bs (Nat.max tb rs)) ev) as [[out st]|] eqn:E; cbn [bind] in H; [|discriminate].
      destruct (md_loop_max lex ilt src bs rest (Nat.max tb rs) (md_cu_top cu lastend) (md_last_end out lastend) st) as [r|] eqn:R; cbn [bind] in H; [|discriminate].
      inversion H; subst toks. apply Forall_app. split.
      * destruct (md_event_step_from _ _ _ _ _ _ _ _ _ _ E) as [Hleaf Hnl].
        destruct (md_is_leaf ev) eqn:L.
        -- cbn [andb] in G. apply orb_false_iff in G as [_ G]. apply Nat.ltb_ge in G. eapply Forall_impl; [|exact (Hleaf eq_refl)]. cbn beta. intros t Ht. right. lia.
        -- eapply Forall_impl; [|exact (Hnl eq_refl)]. intros t Ht. now left.
      * specialize (IH _ _ _ _ _ R). eapply Forall_impl; [|exact IH]. cbn beta. intros t [Ht|Ht]; [now left|right].
        pose proof (md_cu_top_mono cu lastend out). lia.
Qed.

(* FC02c (found in phase 4 by C04's contract monitor and independently by C02; interaction of a37d1cc and 8b26ba4; FIXED by
   b736ef8: a leaf event whose range starts behind the cursor is skipped).  pulldown-cmark replays the events behind
   `[[a|]]`; an empty `$$$$` moves the cursor but pushes no token, so before the fix the replayed Text("river stone ") passed
   the covered_until guard, was handled at the cursor of `$$$$` and `source[tc .. tc + chunk_len]` ran past the end of
   the file.  The event stream of `[[a|]]river stone $$$$`: *)
Definition fc02c_src : text := [91;91;97;124;93;93;114;105;118;101;114;32;115;116;111;110;101;32;36;36;36;36]%N.
Definition fc02c_evs : list (md_event * nat) :=
  [(EStart TParagraph, 0); (EStart TLink, 0); (EText 1 5, 4); (EText 1 6, 5); (EText 12 18, 6); (ECodeLike 0, 18);
   (EEndOther, 0); (EText 12 18, 6); (ECodeLike 0, 18); (EEndBreaking, 0)].
Definition md_text_ranges_ok (bs : list N) (evs : list (md_event * nat)) : Prop :=
  Forall (fun e => match fst e with
                   | EText _ re => snd e <= re /\ is_boundary bs re = true
                   | _ => True
                   end) evs.

Lemma md_event_step_nontext_ok lex ilt src bs rs stack tc ev :
  (forall n re, ev <> EText n re) -> exists r, md_event_step lex ilt src bs rs stack tc ev = Ok r.
Proof.
  intros H. destruct ev; cbn [md_event_step]; try (eexists; reflexivity).
  - destruct t; eexists; reflexivity.
  - destruct (n =? 0); eexists; reflexivity.
  - exfalso. eapply H. reflexivity.
Qed.

(* C04_md_loop_total (the former C04_md_loop_total_refuted, now positive): when every range starts on a char boundary
   and every Text range is ordered and ends on a char boundary — pulldown-cmark's contract, monitored — the whole loop of
   Markdown::parse never panics, for ANY lexer, from any consistent cursor state.  A Text event that is not skipped does
   not start behind the cursor (b736ef8), so it is handled at the true offset of its own range start and the clamp of
   548c418 keeps its chunk inside the source (md_text_clamped). *)
Theorem md_loop_total lex ilt (src : text) : Forall valid_char src ->
  forall evs tb tc cu lastend stack,
  tc = char_index (encode src) tb -> is_boundary (encode src) tb = true ->
  Forall (fun e => is_boundary (encode src) (snd e) = true) evs ->
  md_text_ranges_ok (encode src) evs ->
  exists toks, md_loop lex ilt src (encode src) evs tb tc cu lastend stack = Ok toks.
Proof.
  intros Hv. induction evs as [|[ev rs] rest IH]; intros tb tc cu lastend stack Hc Hb Hbs Hr; [eexists; reflexivity|].
  pose proof (Forall_inv Hbs) as Hrs. pose proof (Forall_inv_tail Hbs) as Hbs'. cbn [snd] in Hrs.
  pose proof (Forall_inv Hr) as Hr0. pose proof (Forall_inv_tail Hr) as Hr'. cbn [fst snd] in Hr0.
  cbn [md_loop]. destruct (md_advance_ok (encode src) tb tc rs Hb Hrs) as [[tb' tc'] E]. rewrite E. cbn [bind].
  destruct (md_advance_spec _ _ _ _ _ _ Hc Hb E) as (H1 & H2 & H3).
  destruct (md_is_leaf ev && ((rs <? tb) || (tc' <? md_cu_top cu lastend))) eqn:G.
  - apply IH; assumption.
  - assert (Hstep : exists out st, md_event_step lex ilt src (encode src) rs stack tc' ev = Ok (out, st)).
    { destruct ev as [t| | | | |n|n re|n|];
        try (match goal with |- exists out st, md_event_step _ _ _ _ _ _ _ ?e = _ =>
               assert (Hnt : forall n0 re0, e <> EText n0 re0) by (intros; discriminate);
               destruct (md_event_step_nontext_ok lex ilt src (encode src) rs stack tc' e Hnt) as [[o s'] Ho];
               exists o, s'; exact Ho end).
      cbn [md_is_leaf andb] in G. apply orb_false_iff in G as [G _]. apply Nat.ltb_ge in G.
      destruct Hr0 as [Hle Hre].
      destruct (md_text_clamped lex ilt src rs re stack n Hv Hle Hrs Hre) as (cl & out & Hs & _).
      cbv zeta in Hs. replace tc' with (char_index (encode src) rs); [eauto|].
      subst tb' tc'. f_equal. lia. }
    destruct Hstep as (out & st & Hs). rewrite Hs. cbn [bind].
    destruct (IH tb' tc' (md_cu_top cu lastend) (md_last_end out lastend) st H2 H3 Hbs' Hr') as [r Hrr]. rewrite Hrr. cbn [bind].
    eexists; reflexivity.
Qed.

(* History (FC02c): the NEW loop on the old failing stream — both replayed events are skipped, nothing panics —, and what
   the code before b736ef8 did with the replayed Text: handled at the cursor of `$$$$` (char 18), it slices source[18..30)
   of a 22-char file *)
Example fc02c_replayed_event_skipped :
  let lex := fun c : text => [mktok (mkspan 0 (length c)) 5%N] in
  md_loop lex false fc02c_src (encode fc02c_src) fc02c_evs 0 0 0 None []
  = Ok [mktok (mkspan 4 5) 5%N; mktok (mkspan 5 6) 5%N; mktok (mkspan 6 18) 5%N; mktok (mkspan 18 18) K_PARBREAK] /\
  md_event_step lex false fc02c_src (encode fc02c_src) 6 [TParagraph] 18 (EText 12 18) = Panic PIndex.
Proof. vm_compute. split; reflexivity. Qed.

(* ====================================================================================== *)
(** * C'. Mask: push_allowed / merge_whitespace_sep keep the allowed spans sorted, disjoint, in bounds *)

Fixpoint last_end (lo : nat) (l : list span) : nat :=
  match l with [] => lo | s :: t => last_end (send s) t end.

Lemma ordered_from_last_end : forall l lo, ordered_from lo l -> lo <= last_end lo l.
Proof. induction l as [|s t IH]; intros lo H; cbn in *; [lia|]. destruct H as (H1 & H2 & H3). specialize (IH _ H3). lia. Qed.

Lemma push_allowed_spec : forall m lo a, ordered_from lo m -> m <> [] -> span_wf a -> last_end lo m <= sstart a ->
  exists m', push_allowed m a = Ok m' /\ ordered_from lo m' /\ last_end lo m' = send a /\ m' <> [] /\
    (forall n, Forall (fun s => send s <= n) m -> send a <= n -> Forall (fun s => send s <= n) m').
Proof.
  induction m as [|h t IH]; intros lo a Ho Hne Hwf Hle; [congruence|].
  cbn in Ho. destruct Ho as (H1 & H2 & H3). unfold span_wf in Hwf. destruct t as [|h2 t'].
  - cbn [push_allowed last_end] in *. destruct (Nat.ltb_spec (sstart a) (send h)); [lia|].
    destruct (Nat.eqb_spec (sstart a) (send h)) as [Heq|Hneq].
    + eexists. split; [reflexivity|]. cbn. repeat split; try lia; try congruence.
      intros n Hn Ha. repeat constructor. cbn. lia.
    + eexists. split; [reflexivity|]. cbn. repeat split; try lia; try congruence.
      intros n Hn Ha. inversion Hn; subst. repeat constructor; assumption.
  - cbn [last_end] in Hle. destruct (IH (send h) a H3 ltac:(congruence) Hwf Hle) as (m' & Hp & Ho' & Hl' & Hne' & Hb').
    change (push_allowed (h :: h2 :: t') a) with (do t'' <- push_allowed (h2 :: t') a; Ok (h :: t'')).
    rewrite Hp. cbn [bind]. eexists. split; [reflexivity|]. cbn [ordered_from last_end]. repeat split; try assumption; try congruence.
    intros n Hn Ha. inversion Hn; subst. constructor; [assumption|]. now apply Hb'.
Qed.

Lemma push_allowed_nil a : push_allowed [] a = Ok [a].
Proof. reflexivity. Qed.

(* pushing an ordered chain of spans onto a blank mask: never panics, result ordered, in bounds *)
Lemma push_all_spec : forall l m lo n, ordered_from lo m -> Forall (fun s => send s <= n) m ->
  ordered_from (last_end lo m) l -> Forall (fun s => send s <= n) l ->
  exists m', push_all m l = Ok m' /\ ordered_from lo m' /\ Forall (fun s => send s <= n) m'.
Proof.
  induction l as [|a t IH]; intros m lo n Hm Hbm Hl Hbl; [exists m; auto|].
  cbn in Hl. destruct Hl as (H1 & H2 & H3). inversion Hbl as [|? ? Ha Hbt]; subst. cbn [push_all].
  destruct m as [|h mt].
  - rewrite push_allowed_nil. cbn [bind]. cbn [last_end] in H1, H3.
    apply (IH [a] lo n); cbn; repeat split; auto.
  - destruct (push_allowed_spec (h :: mt) lo a Hm ltac:(congruence) H2 H1) as (m' & Hp & Ho' & Hl' & _ & Hb').
    rewrite Hp. cbn [bind]. apply (IH m' lo n); try assumption; [now apply Hb'|now rewrite Hl'].
Qed.

Lemma Forall2_right {A B} (R : A -> B -> Prop) (P : B -> Prop) :
  (forall a b, R a b -> P b) -> forall l l', Forall2 R l l' -> Forall P l'.
Proof. intros H l l' HF. induction HF; constructor; eauto. Qed.

Lemma chain_ordered : forall l lo, chain_ok l = true -> Forall span_wf l ->
  (match l with [] => True | s :: _ => lo <= sstart s end) -> ordered_from lo l.
Proof.
  induction l as [|a r IH]; intros lo Hc Hw Hlo; [exact I|].
  inversion Hw as [|? ? Ha Hr]; subst. unfold span_wf in Ha. cbn [ordered_from]. split; [assumption|]. split; [assumption|].
  apply IH; [|assumption|].
  - destruct r as [|b r']; [reflexivity|]. rewrite chain_ok_cons in Hc. now apply andb_true_iff in Hc as [_ Hc].
  - destruct r as [|b r']; [exact I|]. rewrite chain_ok_cons in Hc. apply andb_true_iff in Hc as [Hab _]. now apply Nat.leb_le in Hab.
Qed.

Section MwsProofs.
  Variable is_whitespace : N -> bool.

  Lemma mws_pass_cons2 src a b t' :
    mws_pass is_whitespace src (a :: b :: t') =
    (do sep <- span_new (send a) (sstart b);
     do content <- get_content sep src;
     if forallb (sep_char is_whitespace) content then
       do ab <- span_new (sstart a) (send b);
       do r <- mws_pass is_whitespace src t';
       Ok (ab :: r)
     else
       do r <- mws_pass is_whitespace src (b :: t');
       Ok (a :: r)).
  Proof. reflexivity. Qed.

  Lemma mws_pass_spec src : forall k l lo, length l <= k -> ordered_from lo l -> Forall (fun s => send s <= length src) l ->
    exists l', mws_pass is_whitespace src l = Ok l' /\ ordered_from lo l' /\
               Forall (fun s => send s <= length src) l' /\ length l' <= length l.
  Proof.
    induction k as [|k IH]; intros l lo Hk Ho Hb.
    - destruct l; [|cbn in Hk; lia]. exists []. cbn. auto.
    - destruct l as [|a t]; [exists []; cbn; auto|]. destruct t as [|b t']; [exists [a]; cbn [mws_pass]; auto|].
      cbn in Ho. destruct Ho as (H1 & H2 & H3 & H4 & H5).
      inversion Hb as [|? ? Ba Hb1]; subst. inversion Hb1 as [|? ? Bb Hb2]; subst.
      rewrite mws_pass_cons2. unfold span_new. destruct (Nat.ltb_spec (sstart b) (send a)); [lia|]. cbn [bind].
      rewrite (get_content_in src (mkspan (send a) (sstart b))) by (unfold span_wf; cbn; lia). cbn [bind sstart send].
      destruct (forallb _ _).
      + destruct (Nat.ltb_spec (send b) (sstart a)); [lia|]. cbn [bind].
        destruct (IH t' (send b)) as (r & Hr & Hro & Hrb & Hrl); [cbn in Hk; lia|assumption|assumption|].
        rewrite Hr. cbn [bind]. eexists. split; [reflexivity|]. cbn [ordered_from sstart send length]. repeat split; try lia; try assumption.
        constructor; [cbn; assumption|assumption].
      + destruct (IH (b :: t') (send a)) as (r & Hr & Hro & Hrb & Hrl); [cbn in *; lia|cbn; auto|assumption|].
        rewrite Hr. cbn [bind]. eexists. split; [reflexivity|]. cbn [ordered_from length]. repeat split; try lia; try assumption.
        * constructor; assumption.
        * cbn [length] in Hrl. lia.
  Qed.

  Lemma mws_fuel_spec src : forall fuel l lo, length l < fuel -> ordered_from lo l -> Forall (fun s => send s <= length src) l ->
    exists l', mws_fuel is_whitespace fuel src l = Ok l' /\ ordered_from lo l' /\ Forall (fun s => send s <= length src) l'.
  Proof.
    induction fuel as [|f IH]; intros l lo Hf Ho Hb; [lia|].
    cbn [mws_fuel]. destruct (mws_pass_spec src (length l) l lo (le_n _) Ho Hb) as (l1 & H1 & Ho1 & Hb1 & Hl1).
    rewrite H1. cbn [bind]. destruct (Nat.eqb_spec (length l) (length l1)); [eauto|].
    apply IH; try assumption. lia.
  Qed.

  (* merge_whitespace_sep never panics and never runs out of fuel on a well-formed mask *)
  Theorem merge_whitespace_sep_wf src l : mask_wf (length src) l ->
    exists l', merge_whitespace_sep is_whitespace src l = Ok l' /\ mask_wf (length src) l'.
  Proof.
    intros [Ho Hb]. destruct (mws_fuel_spec src (S (length l)) l 0 (Nat.lt_succ_diag_r _) Ho Hb) as (l' & H & Ho' & Hb').
    exists l'. split; [exact H|split; assumption].
  Qed.

  (* C04_ts_mask_wf: TreeSitterMasker::create_mask on node ranges that are sorted, disjoint and on char
     boundaries never panics and yields a sorted, disjoint, in-bounds mask (the premise of C04_mask_faithful) *)
  Theorem ts_create_mask_wf (t : text) nodes :
    Forall valid_char t -> Forall span_wf nodes -> chain_ok nodes = true -> Forall (on_boundaries (encode t)) nodes ->
    exists m, ts_create_mask is_whitespace t nodes = Ok m /\ mask_wf (length t) m.
  Proof.
    intros Hv Hwf Hc Hb. unfold ts_create_mask.
    destruct (b2c_sorted_disjoint t nodes Hv Hwf Hc Hb) as (cs & Hcs & Hf2 & Hchain). rewrite Hcs. cbn [bind].
    assert (Hord : ordered_from 0 cs /\ Forall (fun s => send s <= length t) cs).
    { clear Hcs. assert (Hw : Forall (fun s => sstart s <= send s <= length t) cs).
      { eapply Forall2_right; [|exact Hf2]. cbn. intros a b (H1 & _). exact H1. }
      clear Hf2. split.
      - apply chain_ordered; [assumption| |destruct cs; [exact I|lia]].
        eapply Forall_impl; [|exact Hw]. unfold span_wf. cbn. intros; lia.
      - eapply Forall_impl; [|exact Hw]. cbn. intros; lia. }
    destruct Hord as [Ho Hbd].
    destruct (push_all_spec cs [] 0 (length t) I (Forall_nil _) Ho Hbd) as (m & Hm & Hmo & Hmb). rewrite Hm. cbn [bind].
    apply merge_whitespace_sep_wf. split; assumption.
  Qed.
End MwsProofs.

(* ====================================================================================== *)
(** * F. comment leaders and the per-line loops *)

Lemma position_some {A} (p : A -> bool) : forall l i, position p l = Some i ->
  i < length l /\ (exists x, nth_error l i = Some x /\ p x = true) /\ Forall (fun x => p x = false) (firstn i l).
Proof.
  induction l as [|x t IH]; intros i H; cbn in H; [discriminate|].
  destruct (p x) eqn:E.
  - inversion H; subst. cbn. repeat split; [lia|eauto|constructor].
  - destruct (position p t) as [j|] eqn:Ej; cbn in H; [|discriminate]. inversion H; subst.
    destruct (IH j eq_refl) as (H1 & H2 & H3). cbn. repeat split; [lia|assumption|constructor; assumption].
Qed.

Lemma position_none {A} (p : A -> bool) : forall l, position p l = None -> Forall (fun x => p x = false) l.
Proof.
  induction l as [|x t IH]; intros H; cbn in H; [constructor|].
  destruct (p x) eqn:E; [discriminate|]. destruct (position p t); [discriminate|]. constructor; auto.
Qed.

(* ---- lines and their offsets ---- *)
(* `lines_at src ls off`: the pieces ls occur in src starting at off, one newline apart *)
Fixpoint lines_at (src : text) (ls : list text) (off : nat) : Prop :=
  match ls with
  | [] => True
  | l :: rest => slice src off (off + length l) = l /\ off + length l <= length src /\
                 lines_at src rest (off + length l + 1)
  end.

Lemma split_lines_nonempty s : split_lines s <> [].
Proof. destruct s as [|c t]; cbn; [discriminate|]. destruct (c =? 10)%N; [discriminate|]. destruct (split_lines t); discriminate. Qed.

Lemma lines_at_shift src ls off x : lines_at src ls off -> lines_at (x :: src) ls (S off).
Proof.
  revert off. induction ls as [|l r IH]; intros off H; [exact I|]. cbn in H |- *. destruct H as (H1 & H2 & H3).
  repeat split; [|lia|now apply (IH (off + length l + 1))]. unfold slice in *. cbn [skipn]. exact H1.
Qed.

Lemma split_lines_at : forall s, lines_at s (split_lines s) 0.
Proof.
  induction s as [|c t IH]; [cbn; repeat split; lia|].
  cbn [split_lines]. destruct (c =? 10)%N eqn:E.
  - cbn [lines_at length]. repeat split; [lia|]. now apply (lines_at_shift t (split_lines t) 0 c).
  - destruct (split_lines t) as [|l ls] eqn:El; [exfalso; now apply (split_lines_nonempty t)|].
    cbn [lines_at] in IH |- *. destruct IH as (H1 & H2 & H3). cbn [length]. repeat split.
    + unfold slice in *. cbn [skipn Nat.add]. rewrite Nat.sub_0_r in *. cbn [firstn]. f_equal. exact H1.
    + lia.
    + apply (lines_at_shift t ls (0 + length l + 1) c) in H3. exact H3.
Qed.


Section CommentProofs.
  Variable is_whitespace : N -> bool.
  Notation leader := (leader_char is_whitespace).

  (* the leader alphabet is the generated table *)
  Lemma is_comment_character_table c : is_comment_character c = existsb (N.eqb c) comment_characters.
  Proof. unfold is_comment_character, comment_characters. cbn [existsb]. now rewrite !orb_assoc, orb_false_r. Qed.

  (* without_initiators never panics; the span is inside the line, and everything cut off at either
     end is a comment character or whitespace *)
  Theorem without_initiators_spec (line : text) :
    exists a, without_initiators is_whitespace line = Ok a /\
      sstart a <= send a <= length line /\
      Forall (fun c => leader c = true) (firstn (sstart a) line) /\
      Forall (fun c => leader c = true) (skipn (send a) line).
  Proof.
    unfold without_initiators, sub_chk, span_new.
    set (p := fun c => negb (leader c)).
    assert (Hp : forall l, Forall (fun x => p x = false) l -> Forall (fun c => leader c = true) l).
    { intros l. apply Forall_impl. unfold p. intros x. now rewrite negb_false_iff. }
    destruct (position p line) as [i|] eqn:Ei.
    - destruct (position_some p line i Ei) as (Hi & (x & Hx & Hpx) & Hpre).
      destruct (position p (rev line)) as [j|] eqn:Ej.
      + destruct (position_some p (rev line) j Ej) as (Hj & (y & Hy & Hpy) & Hsuf). rewrite rev_length in Hj.
        destruct (Nat.ltb_spec (length line) j); [lia|]. cbn [bind].
        assert (Hsk : skipn (length line - j) line = rev (firstn j (rev line))).
        { rewrite firstn_rev, rev_involutive. reflexivity. }
        assert (Hs : Forall (fun c => leader c = true) (skipn (length line - j) line)).
        { rewrite Hsk. apply Hp. apply Forall_rev. exact Hsuf. }
        assert (Hil : i < length line - j).
        { destruct (Nat.lt_ge_cases i (length line - j)); [assumption|]. exfalso.
          assert (Hin : In x (skipn (length line - j) line)).
          { rewrite <- (firstn_skipn (length line - j) line) in Hx. rewrite nth_error_app2 in Hx by (rewrite firstn_length; lia).
            now apply nth_error_In in Hx. }
          rewrite Forall_forall in Hs. specialize (Hs x Hin). unfold p in Hpx. rewrite Hs in Hpx. discriminate. }
        destruct (Nat.ltb_spec (length line - j) i); [lia|].
        eexists. split; [reflexivity|]. cbn [sstart send]. repeat split; try lia; [now apply Hp|assumption].
      + pose proof (position_none p (rev line) Ej) as Hall. exfalso.
        apply nth_error_In in Hx. rewrite Forall_forall in Hall. rewrite (Hall x) in Hpx; [discriminate|]. now apply -> in_rev.
    - pose proof (position_none p line Ei) as Hall.
      assert (Ej : position p (rev line) = None).
      { destruct (position p (rev line)) as [j|] eqn:Ej; [|reflexivity]. exfalso.
        destruct (position_some p (rev line) j Ej) as (_ & (y & Hy & Hpy) & _). apply nth_error_In in Hy. apply in_rev in Hy.
        rewrite Forall_forall in Hall. rewrite (Hall y Hy) in Hpy. discriminate. }
      rewrite Ej. destruct (Nat.ltb_spec (length line) 0); [lia|]. cbn [bind]. rewrite Nat.sub_0_r.
      destruct (Nat.ltb_spec (length line) (length line)); [lia|].
      eexists. split; [reflexivity|]. cbn [sstart send]. repeat split; try lia.
      + rewrite firstn_all. now apply Hp.
      + rewrite skipn_all. constructor.
  Qed.

  Variable inner : text -> list tok.

  (* Unit::parse never panics *)
  Lemma line_is_code_fence_total line : exists b, line_is_code_fence is_whitespace line = Ok b.
  Proof.
    unfold line_is_code_fence. destruct (without_initiators_spec line) as (a & Ha & (H1 & H2) & _). rewrite Ha. cbn [bind].
    rewrite (get_content_in line a) by (unfold span_wf; lia). cbn [bind]. eauto.
  Qed.
  Lemma unit_parse_line_total line : exists t, unit_parse_line is_whitespace inner line = Ok t.
  Proof.
    unfold unit_parse_line. destruct (without_initiators_spec line) as (a & Ha & (H1 & H2) & _). rewrite Ha. cbn [bind].
    unfold span_len, sub_chk. destruct (Nat.ltb_spec (send a) (sstart a)); [lia|]. cbn [bind].
    destruct (send a - sstart a =? 0); [eauto|]. rewrite (get_content_in line a) by (unfold span_wf; lia). cbn [bind]. eauto.
  Qed.
  Theorem unit_parse_total src : exists toks, unit_parse is_whitespace inner src = Ok toks.
  Proof.
    unfold unit_parse. generalize (length src) as total, 0 as off, false as fence.
    induction (split_lines src) as [|line rest IH]; intros total off fence; cbn [unit_loop]; [eauto|].
    destruct (line_is_code_fence_total line) as [b ->]. cbn [bind].
    destruct (if b then negb fence else fence); [apply IH|].
    destruct (unit_parse_line_total line) as [t ->]. cbn [bind].
    destruct (IH total (off + length line + 1) false) as [r ->]. cbn [bind]. eauto.
  Qed.


  Hypothesis inner_wf : forall c t0, In t0 (inner c) -> sstart (tspan t0) <= send (tspan t0).
  Hypothesis inner_in_bounds : forall c t0, In t0 (inner c) -> send (tspan t0) <= length c.

  (* a token that the line loop derived from the inner parse of one line *)
  Definition from_line (src : text) (tk : tok) : Prop :=
    exists line off a t0,
      slice src off (off + length line) = line /\ off + length line <= length src /\
      without_initiators is_whitespace line = Ok a /\
      In t0 (inner (slice line (sstart a) (send a))) /\
      tk = tpush (off + sstart a) t0 /\
      off + sstart a <= sstart (tspan tk) /\ sstart (tspan tk) <= send (tspan tk) /\ send (tspan tk) <= off + send a /\
      slice src (sstart (tspan tk)) (send (tspan tk))
      = slice (slice line (sstart a) (send a)) (sstart (tspan t0)) (send (tspan t0)).

  Lemma tpush_tpush a b t0 : tpush a (tpush b t0) = tpush (b + a) t0.
  Proof. destruct t0 as [[s e] k]. unfold tpush, push_by. cbn. f_equal. f_equal; lia. Qed.

  Lemma unit_parse_line_spec src line off toks :
    slice src off (off + length line) = line -> off + length line <= length src ->
    unit_parse_line is_whitespace inner line = Ok toks ->
    Forall (fun tk => from_line src (tpush off tk)) toks.
  Proof.
    intros Hsl Hlen. unfold unit_parse_line.
    destruct (without_initiators_spec line) as (a & Ha & (Ha1 & Ha2) & _). rewrite Ha. cbn [bind].
    unfold span_len, sub_chk. destruct (Nat.ltb_spec (send a) (sstart a)); [lia|]. cbn [bind].
    destruct (Nat.eqb_spec (send a - sstart a) 0); [intros Hr; inversion Hr; constructor|].
    rewrite (get_content_in line a) by (unfold span_wf; lia). cbn [bind]. intros Hr; inversion Hr; subst toks. clear Hr.
    rewrite Forall_forall. intros tk Htk. apply in_map_iff in Htk as (t0 & <- & Ht0).
    pose proof (inner_in_bounds _ _ Ht0) as Hb. pose proof (inner_wf _ _ Ht0) as Hw.
    rewrite slice_length in Hb by lia.
    exists line, off, a, t0. rewrite tpush_tpush. cbn [tpush tspan push_by sstart send].
    repeat split; try assumption; try lia; [f_equal; lia|].
    rewrite slice_slice by lia.
    transitivity (slice (slice src off (off + length line)) (sstart a + sstart (tspan t0)) (sstart a + send (tspan t0)));
      [|now rewrite Hsl].
    rewrite slice_slice by lia. f_equal; lia.
  Qed.

  (* C04_unit_line_offsets (Unit): every token is a Newline(1) of one char, or an inner token of one
     line, located at line start + leader length + inner offset: inside the line's
     without_initiators span, with the same text in the file as in the inner parse *)
  Lemma unit_loop_spec src : forall lines off in_fence toks,
    lines_at src lines off ->
    unit_loop is_whitespace inner (length src) lines off in_fence = Ok toks ->
    Forall (fun tk => from_line src tk \/
                      (tkind tk = K_NEWLINE1 /\ send (tspan tk) = sstart (tspan tk) + 1 /\ send (tspan tk) <= length src)) toks.
  Proof.
    induction lines as [|line rest IH]; intros off in_fence toks Hat Hrun; cbn [unit_loop] in Hrun.
    - inversion Hrun. constructor.
    - cbn [lines_at] in Hat. destruct Hat as (Hsl & Hlen & Hrest).
      destruct (line_is_code_fence is_whitespace line) as [fence|]; cbn [bind] in Hrun; [|discriminate].
      destruct (if fence then negb in_fence else in_fence).
      + apply (IH _ _ _ Hrest Hrun).
      + destruct (unit_parse_line is_whitespace inner line) as [lt|] eqn:El; cbn [bind] in Hrun; [|discriminate].
        destruct (unit_loop is_whitespace inner (length src) rest (off + length line + 1) false) as [r|] eqn:Er; cbn [bind] in Hrun; [|discriminate].
        inversion Hrun; subst toks. clear Hrun. apply Forall_app. split; [|apply (IH _ _ _ Hrest Er)].
        pose proof (unit_parse_line_spec src line off lt Hsl Hlen El) as Hl.
        destruct (Nat.ltb_spec (off + length line) (length src)).
        * rewrite map_app. apply Forall_app. split.
          -- rewrite Forall_forall in *. intros tk Htk. apply in_map_iff in Htk as (t1 & <- & Ht1). left. now apply Hl.
          -- constructor; [|constructor]. right. cbn. repeat split; lia.
        * rewrite Forall_forall in *. intros tk Htk. apply in_map_iff in Htk as (t1 & <- & Ht1). left. now apply Hl.
  Qed.

  Theorem unit_line_offsets src toks : unit_parse is_whitespace inner src = Ok toks ->
    Forall (fun tk => from_line src tk \/
                      (tkind tk = K_NEWLINE1 /\ send (tspan tk) = sstart (tspan tk) + 1 /\ send (tspan tk) <= length src)) toks.
  Proof. intros H. exact (unit_loop_spec src _ 0 false toks (split_lines_at src) H). Qed.

  (* the JsDoc line loop: same statement for a kind-only post-pass (mark_inline_tags and the block-tag
     pass only assign `kind = Unlintable`) *)
  Variable post : list tok -> list tok.
  Hypothesis post_spans : forall l, map tspan (post l) = map tspan l.

  Lemma jsdoc_parse_line_spans line : 
    option_map (map tspan) (match jsdoc_parse_line is_whitespace inner post line with Ok t => Some t | Panic _ => None end)
    = option_map (map tspan) (match unit_parse_line is_whitespace inner line with Ok t => Some t | Panic _ => None end).
  Proof.
    unfold jsdoc_parse_line, unit_parse_line. destruct (without_initiators is_whitespace line) as [a|]; cbn [bind]; [|reflexivity].
    destruct (span_len a) as [len|]; cbn [bind]; [|reflexivity]. destruct (len =? 0); [reflexivity|].
    destruct (get_content a line) as [c|]; cbn [bind option_map]; [|reflexivity]. f_equal.
    rewrite !map_map. cbn [tpush tspan].
    change (map (fun x => push_by (tspan x) (sstart a)) (post (inner c))) with (map (fun x => (fun s => push_by s (sstart a)) (tspan x)) (post (inner c))).
    rewrite <- (map_map tspan (fun s => push_by s (sstart a))), post_spans, map_map. reflexivity.
  Qed.
End CommentProofs.

(* ---- Go::parse (after 017736b) ---- *)
Section GoProofs.
  Variable is_whitespace : N -> bool.
  Variable inner : text -> list tok.

  Definition GO_DIRECTIVE : text := [103; 111; 58]%N.     (* go: *)

  Lemma go_match (A : Type) (c : text) (x y : A) :
    match c with 103%N :: 111%N :: 58%N :: _ => x | _ => y end = if starts_with GO_DIRECTIVE c then x else y.
  Proof.
    unfold GO_DIRECTIVE. cbn [starts_with].
    destruct c as [|c0 c1]; [reflexivity|]. destruct (N.eqb_spec 103 c0) as [<-|H0]; cbn [andb].
    2:{ destruct c0 as [|p]; [reflexivity|]. do 7 (destruct p as [p|p|]; try reflexivity); congruence. }
    destruct c1 as [|c1 c2]; [reflexivity|]. destruct (N.eqb_spec 111 c1) as [<-|H1]; cbn [andb].
    2:{ destruct c1 as [|p]; [reflexivity|]. do 7 (destruct p as [p|p|]; try reflexivity); congruence. }
    destruct c2 as [|c2 c3]; [reflexivity|]. destruct (N.eqb_spec 58 c2) as [<-|H2]; cbn [andb]; [reflexivity|].
    destruct c2 as [|p]; [reflexivity|]. do 6 (destruct p as [p|p|]; try reflexivity); congruence.
  Qed.

  (* C04_go_exact: Go::parse never panics and is exactly: the inner parse of the comment without its
     initiators, shifted by their length — or, when that text starts with "go:", the inner parse of
     source[t .. actual.end) shifted by t, where t is the first newline of the comment (nothing when
     there is no newline before actual.end): the directive line is skipped and everything after it is
     parsed at its own source coordinates *)
  Theorem go_parse_exact (src : text) :
    exists actual, without_initiators is_whitespace src = Ok actual /\
      sstart actual <= send actual <= length src /\
      go_parse is_whitespace inner src =
      Ok (if starts_with GO_DIRECTIVE (slice src (sstart actual) (send actual)) then
            match position is_nl src with
            | None => []
            | Some t => if send actual <=? t then []
                        else map (tpush t) (inner (slice src t (send actual)))
            end
          else map (tpush (sstart actual)) (inner (slice src (sstart actual) (send actual)))).
  Proof.
    destruct (without_initiators_spec is_whitespace src) as (a & Ha & (H1 & H2) & _).
    exists a. split; [assumption|]. split; [lia|]. unfold go_parse. rewrite Ha. cbn [bind].
    rewrite (get_content_in src a) by (unfold span_wf; lia). cbn [bind]. rewrite go_match.
    destruct (starts_with GO_DIRECTIVE _); [|reflexivity].
    destruct (position is_nl src) as [t|]; [|reflexivity].
    destruct (Nat.leb_spec (send a) t); [reflexivity|].
    rewrite (get_content_in src (mkspan t (send a))) by (unfold span_wf; cbn; lia). reflexivity.
  Qed.

  Hypothesis inner_wf : forall c t0, In t0 (inner c) -> sstart (tspan t0) <= send (tspan t0).
  Hypothesis inner_in_bounds : forall c t0, In t0 (inner c) -> send (tspan t0) <= length c.

  (* C04_go_offsets: every token is an inner token of ONE slice source[a .. b) shifted by a: it lies inside
     [a, b) and has the same text in the file as in the inner parse; [a, b) is the comment without its
     initiators, or — after a go: directive — starts at the first newline of the comment *)
  Theorem go_offsets (src : text) toks : go_parse is_whitespace inner src = Ok toks ->
    exists a b, a <= b <= length src /\
      (exists actual, without_initiators is_whitespace src = Ok actual /\ b = send actual /\
         (a = sstart actual \/
          (starts_with GO_DIRECTIVE (slice src (sstart actual) (send actual)) = true /\ position is_nl src = Some a))) /\
      Forall (fun tk => exists t0, In t0 (inner (slice src a b)) /\ tk = tpush a t0 /\
                a <= sstart (tspan tk) /\ sstart (tspan tk) <= send (tspan tk) /\ send (tspan tk) <= b /\
                slice src (sstart (tspan tk)) (send (tspan tk))
                = slice (slice src a b) (sstart (tspan t0)) (send (tspan t0))) toks.
  Proof.
    intros H. destruct (go_parse_exact src) as (actual & Ha & (H1 & H2) & He).
    assert (Hshift : forall a b, a <= b <= length src ->
              Forall (fun tk => exists t0, In t0 (inner (slice src a b)) /\ tk = tpush a t0 /\
                a <= sstart (tspan tk) /\ sstart (tspan tk) <= send (tspan tk) /\ send (tspan tk) <= b /\
                slice src (sstart (tspan tk)) (send (tspan tk))
                = slice (slice src a b) (sstart (tspan t0)) (send (tspan t0))) (map (tpush a) (inner (slice src a b)))).
    { intros a b Hab. rewrite Forall_forall. intros tk Htk. apply in_map_iff in Htk as (t0 & <- & Ht0).
      pose proof (inner_in_bounds _ _ Ht0) as Hb. pose proof (inner_wf _ _ Ht0) as Hw.
      rewrite slice_length in Hb by lia. exists t0. cbn [tpush tspan push_by sstart send].
      repeat split; try assumption; try lia.
      rewrite slice_slice by lia. f_equal; lia. }
    destruct (starts_with GO_DIRECTIVE (slice src (sstart actual) (send actual))) eqn:Eg.
    - destruct (position is_nl src) as [t|] eqn:Et.
      + destruct (Nat.leb_spec (send actual) t).
        * rewrite He in H. inversion H; subst toks.
          exists (sstart actual), (send actual). split; [lia|]. split; [|constructor].
          exists actual. repeat split; try assumption. now left.
        * rewrite He in H. inversion H; subst toks.
          exists t, (send actual). split; [lia|]. split; [|apply Hshift; lia].
          exists actual. repeat split; try assumption. right. split; [assumption|reflexivity].
      + rewrite He in H. inversion H; subst toks.
        exists (sstart actual), (send actual). split; [lia|]. split; [|constructor].
        exists actual. repeat split; try assumption. now left.
    - rewrite He in H. inversion H; subst toks.
      exists (sstart actual), (send actual). split; [lia|]. split; [|apply Hshift; lia].
      exists actual. repeat split; try assumption. now left.
  Qed.
End GoProofs.

(* the witness of FC04c "//go:build x\n// a" with an inner parser that returns its whole input: before
   017736b nothing was parsed (and "//go:generate x\n//" underflowed); now the block after the directive
   line is parsed at its own coordinates, starting at the newline (12) *)
Example go_directive_keeps_block :
  go_parse ws_table (fun c => [mktok (mkspan 0 (length c)) 5%N])
    [47; 47; 103; 111; 58; 98; 117; 105; 108; 100; 32; 120; 10; 47; 47; 32; 97]%N
  = Ok [mktok (mkspan 12 17) 5%N] /\
  go_parse ws_table (fun c => [mktok (mkspan 0 (length c)) 5%N])
    [47; 47; 103; 111; 58; 103; 32; 120; 10; 47; 47]%N = Ok [].
Proof. vm_compute. split; reflexivity. Qed.

(* ====================================================================================== *)
(** * D. ignore markers *)

Lemma starts_with_spec needle : forall hay, starts_with needle hay = true <-> exists post, hay = needle ++ post.
Proof.
  induction needle as [|n ns IH]; intros hay; cbn [starts_with].
  - split; [intros _; now exists hay|reflexivity].
  - destruct hay as [|h hs]; [split; [discriminate|intros [p Hp]; discriminate]|].
    rewrite andb_true_iff, N.eqb_eq, IH. split.
    + intros [-> [post ->]]. now exists post.
    + intros [post Hp]. inversion Hp. eauto.
Qed.

Lemma contains_sub_spec needle : forall hay, contains_sub needle hay = true <-> exists pre post, hay = pre ++ needle ++ post.
Proof.
  induction hay as [|h hs IH]; cbn [contains_sub]; rewrite orb_true_iff, starts_with_spec.
  - split.
    + intros [[post Hp]|H]; [now exists [], post|discriminate].
    + intros (pre & post & Hp). left. destruct pre; [now exists post|discriminate].
  - rewrite IH. split.
    + intros [[post Hp]|(pre & post & Hp)]; [now exists [], post|]. exists (h :: pre), post. now rewrite Hp.
    + intros (pre & post & Hp). destruct pre as [|p pre]; [left; now exists post|]. right. inversion Hp. eauto.
Qed.

Definition carries_marker (markers prefixes : list text) (t : text) : Prop :=
  (exists m pre post, In m markers /\ t = pre ++ m ++ post) \/ (exists p post, In p prefixes /\ t = p ++ post).

Lemma ignore_condition_spec markers prefixes t :
  ignore_condition markers prefixes t = true <-> carries_marker markers prefixes t.
Proof.
  unfold ignore_condition, carries_marker. rewrite orb_true_iff, !existsb_exists. split.
  - intros [(m & Hm & Hc)|(p & Hp & Hs)].
    + left. apply contains_sub_spec in Hc as (pre & post & ->). eauto.
    + right. apply starts_with_spec in Hs as (post & ->). eauto.
  - intros [(m & pre & post & Hm & ->)|(p & post & Hp & ->)].
    + left. exists m. split; [assumption|]. apply contains_sub_spec. eauto.
    + right. exists p. split; [assumption|]. apply starts_with_spec. eauto.
Qed.

(* ---- the filter_map of CommentMasker::create_mask as a pure function of one span of the inner mask ---- *)
Definition keep_of (markers prefixes : list text) (shebang : text) (src : text) (s : span) : option span :=
  let content := slice src (sstart s) (send s) in
  if starts_with shebang content then
    match position is_nl content with
    | None => None
    | Some p => if ignore_condition markers prefixes (skipn (p + 1) content) then None
                else Some (mkspan (sstart s + p + 1) (send s))
    end
  else if ignore_condition markers prefixes content then None else Some s.

Fixpoint keep_all (markers prefixes : list text) (shebang : text) (src : text) (m : list span) : list span :=
  match m with
  | [] => []
  | s :: t => match keep_of markers prefixes shebang src s with
              | Some s' => s' :: keep_all markers prefixes shebang src t
              | None => keep_all markers prefixes shebang src t
              end
  end.

Lemma skipn_slice {A} (l : list A) a b k : skipn k (slice l a b) = slice l (a + k) b.
Proof.
  unfold slice. rewrite skipn_firstn_comm, skipn_skipn. f_equal; [lia|]. f_equal. lia.
Qed.

(* what is kept of a span lies inside it and ends where it ends *)
Lemma keep_of_sub markers prefixes shebang (src : text) s s' :
  span_wf s -> send s <= length src -> keep_of markers prefixes shebang src s = Some s' ->
  sstart s <= sstart s' /\ sstart s' <= send s' /\ send s' = send s.
Proof.
  unfold span_wf. intros Hw Hb. unfold keep_of.
  destruct (starts_with shebang _).
  - destruct (position is_nl _) as [p|] eqn:Ep; [|discriminate].
    destruct (position_some _ _ _ Ep) as (Hp & _ & _). pose proof (slice_length src (sstart s) (send s) (conj Hw Hb)) as Hl. unfold char in *.
    destruct (ignore_condition _ _ _); [discriminate|]. intros H; inversion H; subst s'. cbn [sstart send]. lia.
  - destruct (ignore_condition _ _ _); [discriminate|]. intros H; inversion H; subst s'. lia.
Qed.

(* the filter_map never panics on a well-formed mask (Span::new gets start <= end: the first newline lies
   inside the span) and computes keep_all *)
Lemma filter_ignored_spec markers prefixes shebang (src : text) : forall m,
  Forall (fun s => span_wf s /\ send s <= length src) m ->
  filter_ignored markers prefixes shebang src m = Ok (keep_all markers prefixes shebang src m).
Proof.
  induction m as [|s t IH]; intros Hm; [reflexivity|].
  inversion Hm as [|? ? [Hw Hb] Ht]; subst. cbn [filter_ignored keep_all].
  rewrite (get_content_in src s Hw Hb). cbn [bind]. rewrite (IH Ht).
  unfold filter_one, keep_of. unfold span_wf in Hw.
  destruct (starts_with shebang _).
  - destruct (position is_nl _) as [p|] eqn:Ep; cbn [bind]; [|reflexivity].
    destruct (position_some _ _ _ Ep) as (Hp & _ & _). pose proof (slice_length src (sstart s) (send s) (conj Hw Hb)) as Hl. unfold char in *.
    unfold span_new. destruct (Nat.ltb_spec (send s) (sstart s + (p + 1))); [lia|]. cbn [bind].
    rewrite Nat.add_assoc. destruct (ignore_condition _ _ _); reflexivity.
  - cbn [bind]. destruct (ignore_condition _ _ _); reflexivity.
Qed.

Lemma in_keep_all markers prefixes shebang (src : text) x : forall m,
  In x (keep_all markers prefixes shebang src m) <-> exists s0, In s0 m /\ keep_of markers prefixes shebang src s0 = Some x.
Proof.
  induction m as [|s t IH]; cbn [keep_all].
  - split; [intros []|intros (s0 & [] & _)].
  - destruct (keep_of markers prefixes shebang src s) as [s'|] eqn:E.
    + cbn [In]. rewrite IH. split.
      * intros [<-|(s0 & H1 & H2)]; [exists s; split; [now left|assumption]|exists s0; split; [now right|assumption]].
      * intros (s0 & [<-|H1] & H2); [left; congruence|right; eauto].
    + rewrite IH. split.
      * intros (s0 & H1 & H2). exists s0; split; [now right|assumption].
      * intros (s0 & [<-|H1] & H2); [congruence|eauto].
Qed.

Lemma keep_all_ordered markers prefixes shebang (src : text) : forall m lo,
  ordered_from lo m -> Forall (fun s => send s <= length src) m ->
  ordered_from lo (keep_all markers prefixes shebang src m) /\
  Forall (fun s => send s <= length src) (keep_all markers prefixes shebang src m).
Proof.
  induction m as [|s t IH]; intros lo Ho Hb; cbn [keep_all]; [split; [exact I|constructor]|].
  cbn [ordered_from] in Ho. destruct Ho as (H1 & H2 & H3). inversion Hb as [|? ? Bs Bt]; subst.
  destruct (IH (send s) H3 Bt) as [Ho' Hb'].
  destruct (keep_of markers prefixes shebang src s) as [s'|] eqn:E.
  - destruct (keep_of_sub _ _ _ _ _ _ H2 Bs E) as (K1 & K2 & K3). split.
    + cbn [ordered_from]. rewrite K3. repeat split; try assumption; lia.
    + constructor; [lia|assumption].
  - split; [|assumption]. apply (ordered_from_weaken _ (send s)); [lia|assumption].
Qed.

(* C04_comment_mask_total: CommentMasker::create_mask on a well-formed tree-sitter mask never panics, equals
   the per-span function keep_of applied in order, and is again sorted, disjoint and in bounds *)
Theorem comment_mask_exact is_whitespace markers prefixes shebang (src : text) nodes m0 :
  ts_create_mask is_whitespace src nodes = Ok m0 -> mask_wf (length src) m0 ->
  comment_create_mask is_whitespace markers prefixes shebang src nodes = Ok (keep_all markers prefixes shebang src m0) /\
  mask_wf (length src) (keep_all markers prefixes shebang src m0).
Proof.
  intros H0 [Ho Hb]. unfold comment_create_mask. rewrite H0. cbn [bind].
  assert (Hm0 : Forall (fun s => span_wf s /\ send s <= length src) m0).
  { destruct (ordered_from_chain _ _ Ho) as [_ Hw]. rewrite Forall_forall in *. intros x Hx. split; auto. }
  rewrite (filter_ignored_spec _ _ _ _ _ Hm0). cbn [bind].
  destruct (keep_all_ordered markers prefixes shebang src m0 0 Ho Hb) as [Ho' Hb'].
  destruct (ordered_from_chain _ _ Ho') as [Hc Hw]. unfold mask_from_iter. rewrite (ssort_chain _ Hw Hc), Hc.
  split; [reflexivity|split; assumption].
Qed.

(* what keep_of = Some means *)
Lemma keep_of_some markers prefixes shebang (src : text) s0 s :
  keep_of markers prefixes shebang src s0 = Some s <->
  let content := slice src (sstart s0) (send s0) in
  (starts_with shebang content = false /\ ignore_condition markers prefixes content = false /\ s = s0) \/
  (starts_with shebang content = true /\ exists p, position is_nl content = Some p /\
     ignore_condition markers prefixes (skipn (p + 1) content) = false /\ s = mkspan (sstart s0 + p + 1) (send s0)).
Proof.
  cbv zeta. unfold keep_of. destruct (starts_with shebang _).
  - destruct (position is_nl _) as [p|].
    + destruct (ignore_condition _ _ _) eqn:E.
      * split; [discriminate|]. intros [(H & _)|(_ & q & Hq & Hi & _)]; [discriminate|]. inversion Hq; subst q. congruence.
      * split.
        -- intros H; inversion H; subst s. right. split; [reflexivity|]. exists p. repeat split. assumption.
        -- intros [(H & _)|(_ & q & Hq & _ & ->)]; [discriminate|]. inversion Hq; subst q. reflexivity.
    + split; [discriminate|]. intros [(H & _)|(_ & q & Hq & _)]; discriminate.
  - destruct (ignore_condition _ _ _) eqn:E.
    + split; [discriminate|]. intros [(_ & H & _)|(H & _)]; discriminate.
    + split.
      * intros H; inversion H; subst s. left. repeat split.
      * intros [(_ & _ & ->)|(H & _)]; [reflexivity|discriminate].
Qed.

(* C04_ignore_markers: whatever the node list, a span of the comment mask never contains one of the
   GENERATED markers; it is a span of the underlying tree-sitter mask that does not start with the
   generated shebang prefix ("#!"), or such a span that does, minus its first line (up to and including
   its first newline): nothing is invented, a shebang hides its own line and only that *)
Theorem ignore_markers_respected is_whitespace (src : text) nodes m0 m :
  ts_create_mask is_whitespace src nodes = Ok m0 -> mask_wf (length src) m0 ->
  comment_create_mask is_whitespace ignore_markers ignore_prefixes shebang_prefix src nodes = Ok m ->
  forall s, In s m ->
    ~ carries_marker ignore_markers ignore_prefixes (slice src (sstart s) (send s)) /\
    exists s0, In s0 m0 /\ send s = send s0 /\
      ((s = s0 /\ starts_with shebang_prefix (slice src (sstart s0) (send s0)) = false) \/
       (starts_with shebang_prefix (slice src (sstart s0) (send s0)) = true /\
        exists p, position is_nl (slice src (sstart s0) (send s0)) = Some p /\
                  sstart s = sstart s0 + p + 1 /\ sstart s <= send s)).
Proof.
  intros H0 Hwf H s Hs. destruct (comment_mask_exact is_whitespace ignore_markers ignore_prefixes shebang_prefix src nodes m0 H0 Hwf) as [He _].
  rewrite He in H. inversion H; subst m. clear H He.
  apply in_keep_all in Hs as (s0 & Hin & Hk).
  destruct Hwf as [Ho Hb]. destruct (ordered_from_chain _ _ Ho) as [_ Hw].
  rewrite Forall_forall in Hw, Hb. pose proof (Hw _ Hin) as Hw0. pose proof (Hb _ Hin) as Hb0.
  destruct (keep_of_sub _ _ _ _ _ _ Hw0 Hb0 Hk) as (K1 & K2 & K3).
  apply keep_of_some in Hk. cbv zeta in Hk. destruct Hk as [(Hs1 & Hi & ->)|(Hs1 & p & Hp & Hi & ->)].
  - split.
    + intros Hcm. apply ignore_condition_spec in Hcm. congruence.
    + exists s0. repeat split; try assumption. left. split; [reflexivity|assumption].
  - cbn [sstart send] in *. split.
    + rewrite skipn_slice in Hi. rewrite <- Nat.add_assoc. intros Hcm. apply ignore_condition_spec in Hcm. congruence.
    + exists s0. repeat split; try assumption. right. split; [assumption|]. exists p. repeat split; assumption.
Qed.

(* and conversely: a span without shebang and without marker is kept whole; of a span that starts with the
   shebang prefix everything after its first newline is kept when that remainder carries no marker *)
Theorem unmarked_kept is_whitespace (src : text) nodes m0 m :
  ts_create_mask is_whitespace src nodes = Ok m0 -> mask_wf (length src) m0 ->
  comment_create_mask is_whitespace ignore_markers ignore_prefixes shebang_prefix src nodes = Ok m ->
  forall s0, In s0 m0 ->
    let content := slice src (sstart s0) (send s0) in
    (starts_with shebang_prefix content = false ->
     ~ carries_marker ignore_markers ignore_prefixes content -> In s0 m) /\
    (starts_with shebang_prefix content = true -> forall p, position is_nl content = Some p ->
     ~ carries_marker ignore_markers ignore_prefixes (skipn (p + 1) content) ->
     In (mkspan (sstart s0 + p + 1) (send s0)) m).
Proof.
  intros H0 Hwf H s0 Hs. destruct (comment_mask_exact is_whitespace ignore_markers ignore_prefixes shebang_prefix src nodes m0 H0 Hwf) as [He _].
  rewrite He in H. inversion H; subst m. clear H He. cbv zeta. split.
  - intros Hsh Hn. apply in_keep_all. exists s0. split; [assumption|]. apply keep_of_some. cbv zeta. left.
    repeat split; try assumption. destruct (ignore_condition _ _ _) eqn:E; [|reflexivity]. apply ignore_condition_spec in E. contradiction.
  - intros Hsh p Hp Hn. apply in_keep_all. exists s0. split; [assumption|]. apply keep_of_some. cbv zeta. right.
    split; [assumption|]. exists p. repeat split; try assumption.
    destruct (ignore_condition _ _ _) eqn:E; [|reflexivity]. apply ignore_condition_spec in E. contradiction.
Qed.

(* the old behaviour (before 075dccb: the prefix was one more term of the ignore closure, applied to the
   whole merged span) on the witness of FC04b "#!x\n# a": the whole block vanished; now "# a" is kept *)
Example shebang_hides_own_line_only :
  comment_create_mask ws_table ignore_markers ignore_prefixes shebang_prefix
    [35; 33; 120; 10; 35; 32; 97]%N [mkspan 0 3; mkspan 4 7] = Ok [mkspan 4 7].
Proof. vm_compute. reflexivity. Qed.


(* ====================================================================================== *)
(** * I. Literate Haskell masker *)

Lemma push_allowed_gap : forall m lo a, ordered_from lo m -> last_end lo m < sstart a \/ m = [] ->
  push_allowed m a = Ok (m ++ [a]).
Proof.
  induction m as [|h t IH]; intros lo a Ho Hg; [reflexivity|].
  destruct Hg as [Hg|Hg]; [|discriminate]. cbn in Ho. destruct Ho as (_ & _ & Ho). destruct t as [|h2 t'].
  - cbn [push_allowed last_end app] in *. destruct (Nat.ltb_spec (sstart a) (send h)); [lia|].
    destruct (Nat.eqb_spec (sstart a) (send h)); [lia|reflexivity].
  - change (push_allowed (h :: h2 :: t') a) with (do t'' <- push_allowed (h2 :: t') a; Ok (h :: t'')).
    cbn [last_end] in Hg. rewrite (IH (send h) a Ho (or_introl Hg)). reflexivity.
Qed.

Lemma last_end_app : forall m lo a, last_end lo (m ++ [a]) = send a.
Proof. induction m as [|h t IH]; intros lo a; cbn; [reflexivity|apply IH]. Qed.

Lemma ordered_from_snoc : forall m lo a, ordered_from lo m -> last_end lo m <= sstart a -> sstart a <= send a ->
  ordered_from lo (m ++ [a]).
Proof.
  induction m as [|h t IH]; intros lo a Ho Hl Hw; cbn in *; [auto|].
  destruct Ho as (H1 & H2 & H3). repeat split; auto.
Qed.

Section LhsProofs.
  Variable is_whitespace : N -> bool.
  Variables want_text want_code : bool.

  (* the fences are the generated ones *)
  Lemma lhs_fences_table : BEGIN_CODE = lhs_begin_code /\ END_CODE = lhs_end_code.
  Proof. split; reflexivity. Qed.

  (* the state machine as a pure classification: the allowed span (if any) of each line *)
  Definition lhs_line (loc : nat) (in_code last_blank : bool) (line : text) : option span * bool * bool :=
    let trimmed := trim is_whitespace line in
    let blank := match trimmed with [] => true | _ => false end in
    let line_is_bird := match line with c :: _ => (c =? 62)%N | [] => false end in
    let is_begin := text_eqb trimmed BEGIN_CODE in
    let is_end := text_eqb trimmed END_CODE in
    let toggle := (negb in_code && (is_begin || (last_blank && line_is_bird))) || (in_code && (is_end || blank)) in
    let in_code' := if toggle then negb in_code else in_code in
    if toggle && (is_begin || is_end) then (None, in_code', blank)
    else if toggle && blank then (None, in_code', true)
    else
      let end_loc := loc + length line in
      ((if (negb in_code' && want_text) || (in_code' && want_code)
        then Some (mkspan (if line_is_bird then Nat.min (loc + 2) end_loc else loc) end_loc) else None),
       in_code', blank).

  Fixpoint lhs_spans (lines : list text) (loc : nat) (in_code last_blank : bool) : list span :=
    match lines with
    | [] => []
    | line :: rest =>
        let '(sp, ic, lb) := lhs_line loc in_code last_blank line in
        (match sp with Some s => [s] | None => [] end) ++ lhs_spans rest (loc + length line + 1) ic lb
    end.

  Lemma lhs_line_span loc ic lb line sp ic' lb' : lhs_line loc ic lb line = (sp, ic', lb') ->
    match sp with Some s => loc <= sstart s /\ sstart s <= send s /\ send s = loc + length line | None => True end.
  Proof.
    unfold lhs_line. intros El.
    repeat match type of El with (if ?c then _ else _) = _ => destruct c end; inversion El; subst; try exact I.
    match goal with |- context [if ?c then Some _ else None] => destruct c end; [|exact I].
    cbn [sstart send]. destruct (match line with [] => false | c :: _ => (c =? 62)%N end); lia.
  Qed.

  Lemma lhs_step_line st line : ordered_from 0 (l_mask st) -> (last_end 0 (l_mask st) < l_loc st \/ l_mask st = []) ->
    let '(sp, ic, lb) := lhs_line (l_loc st) (l_in_code st) (l_last_blank st) line in
    lhs_step is_whitespace want_text want_code st line =
    Ok (mklhs (l_mask st ++ match sp with Some s => [s] | None => [] end) (l_loc st + length line + 1) ic lb).
  Proof.
    intros Ho Hg. unfold lhs_line, lhs_step.
    set (trimmed := trim is_whitespace line).
    set (blank := match trimmed with [] => true | _ => false end).
    set (bird := match line with c :: _ => (c =? 62)%N | [] => false end).
    set (toggle := (negb (l_in_code st) && (text_eqb trimmed BEGIN_CODE || (l_last_blank st && bird))) || (l_in_code st && (text_eqb trimmed END_CODE || blank))).
    set (ic := if toggle then negb (l_in_code st) else l_in_code st).
    destruct (toggle && (text_eqb trimmed BEGIN_CODE || text_eqb trimmed END_CODE)); [now rewrite app_nil_r|].
    destruct (toggle && blank); [now rewrite app_nil_r|].
    destruct ((negb ic && want_text) || (ic && want_code)); cbn [bind]; [|now rewrite app_nil_r, <- Nat.add_assoc].
    set (start_loc := if bird then Nat.min (l_loc st + 2) (l_loc st + length line) else l_loc st).
    assert (Hs : l_loc st <= start_loc <= l_loc st + length line) by (unfold start_loc; destruct bird; lia).
    unfold span_new. destruct (Nat.ltb_spec (l_loc st + length line) start_loc); [lia|]. cbn [bind].
    rewrite (push_allowed_gap (l_mask st) 0); [cbn [bind]; now rewrite <- Nat.add_assoc|assumption|].
    cbn [sstart]. destruct Hg as [Hg|Hg]; [left; lia|now right].
  Qed.

  Lemma lhs_loop_spec : forall lines st,
    ordered_from 0 (l_mask st) -> (last_end 0 (l_mask st) < l_loc st \/ l_mask st = []) ->
    exists st', lhs_loop is_whitespace want_text want_code st lines = Ok st' /\
      l_mask st' = l_mask st ++ lhs_spans lines (l_loc st) (l_in_code st) (l_last_blank st).
  Proof.
    induction lines as [|line rest IH]; intros st Ho Hg; cbn [lhs_loop lhs_spans]; [exists st; now rewrite app_nil_r|].
    pose proof (lhs_step_line st line Ho Hg) as Hstep.
    destruct (lhs_line (l_loc st) (l_in_code st) (l_last_blank st) line) as [[sp ic] lb] eqn:El.
    rewrite Hstep. cbn [bind].
    assert (Hsp : match sp with Some s => l_loc st <= sstart s /\ sstart s <= send s /\ send s = l_loc st + length line | None => True end).
    { exact (lhs_line_span _ _ _ _ _ _ _ El). }
    set (st1 := mklhs (l_mask st ++ match sp with Some s => [s] | None => [] end) (l_loc st + length line + 1) ic lb).
    destruct (IH st1) as (st' & Hrun & Hmask).
    - cbn [l_mask st1]. destruct sp as [s|]; [|now rewrite app_nil_r]. destruct Hsp as (H1 & H2 & H3).
      apply ordered_from_snoc; [assumption| |assumption]. destruct Hg as [Hg|Hg]; [lia|rewrite Hg; cbn; lia].
    - cbn [l_mask l_loc st1]. destruct sp as [s|].
      + left. rewrite last_end_app. destruct Hsp as (_ & _ & ->). lia.
      + rewrite app_nil_r. destruct Hg as [Hg|Hg]; [left; lia|now right].
    - exists st'. split; [exact Hrun|]. rewrite Hmask. cbn [l_mask l_loc l_in_code l_last_blank st1]. now rewrite <- app_assoc.
  Qed.

  (* the mask before merging: never panics (F3 is fixed), one span per selected line, never merged by push_allowed;
     the state machine starts with last_line_blank = TRUE (358394a: the start of the file counts as a blank line) *)
  Theorem lhs_raw_mask_exact src :
    lhs_raw_mask is_whitespace want_text want_code src = Ok (lhs_spans (split_lines src) 0 false true).
  Proof.
    unfold lhs_raw_mask. destruct (lhs_loop_spec (split_lines src) (mklhs [] 0 false true) I (or_intror eq_refl)) as (st' & -> & Hm).
    cbn [bind]. now rewrite Hm.
  Qed.

  (* each span lies inside its own line — after the bird track if the line has one — and lines are visited in order *)
  Lemma lhs_spans_wf src : forall lines loc ic lb, lines_at src lines loc ->
    ordered_from loc (lhs_spans lines loc ic lb) /\ Forall (fun s => send s <= length src) (lhs_spans lines loc ic lb).
  Proof.
    induction lines as [|line rest IH]; intros loc ic lb Hat; cbn [lhs_spans]; [split; [exact I|constructor]|].
    cbn [lines_at] in Hat. destruct Hat as (_ & Hlen & Hrest).
    destruct (lhs_line loc ic lb line) as [[sp ic'] lb'] eqn:El.
    assert (Hsp : match sp with Some s => loc <= sstart s /\ sstart s <= send s /\ send s = loc + length line | None => True end).
    { exact (lhs_line_span _ _ _ _ _ _ _ El). }
    destruct (IH (loc + length line + 1) ic' lb' Hrest) as [Ho Hb]. destruct sp as [s|]; cbn [app].
    - destruct Hsp as (H1 & H2 & H3). split.
      + cbn [ordered_from]. repeat split; try assumption. apply (ordered_from_weaken _ (loc + length line + 1)); [lia|assumption].
      + constructor; [lia|assumption].
    - split; [apply (ordered_from_weaken _ (loc + length line + 1)); [lia|assumption]|assumption].
  Qed.

  (* C04_lhs_mask *)
  Theorem lhs_mask_wf src :
    exists m, lhs_create_mask is_whitespace want_text want_code src = Ok m /\ mask_wf (length src) m.
  Proof.
    unfold lhs_create_mask. rewrite lhs_raw_mask_exact. cbn [bind]. apply merge_whitespace_sep_wf.
    destruct (lhs_spans_wf src (split_lines src) 0 false true (split_lines_at src)) as [Ho Hb]. split; assumption.
  Qed.

  (* ---- FC04a fixed (358394a): a bird track may open the file ---- *)
  Lemma trim_start_snoc_nonws : forall (a : list N) c, is_whitespace c = false ->
    exists a', trim_start is_whitespace (a ++ [c]) = a' ++ [c].
  Proof.
    induction a as [|x a IH]; intros c Hc; cbn [app trim_start].
    - rewrite Hc. now exists [].
    - destruct (is_whitespace x); [apply IH; assumption|]. now exists (x :: a).
  Qed.

  Lemma trim_bird l : is_whitespace 62%N = false -> exists r, trim is_whitespace (62%N :: l) = 62%N :: r.
  Proof.
    intros H. unfold trim. cbn [trim_start]. rewrite H. cbn [rev]. unfold char.
    destruct (trim_start_snoc_nonws (rev l) 62%N H) as [a' ->]. rewrite rev_app_distr. cbn. eauto.
  Qed.

  (* the first line of the file, when it starts with '>', is a program line: with the machine's initial
     state (not in code, last_line_blank = TRUE) it switches to code; it yields a span in the code mask
     only ('> ' skipped), none in the text mask *)
  Lemma lhs_line_leading_bird l : is_whitespace 62%N = false ->
    lhs_line 0 false true (62%N :: l) =
    ((if want_code then Some (mkspan (Nat.min 2 (S (length l))) (S (length l))) else None), true, false).
  Proof.
    intros H. unfold lhs_line. destruct (trim_bird l H) as [r ->].
    unfold BEGIN_CODE, END_CODE. cbn [text_eqb N.eqb Pos.eqb andb orb negb length Nat.add].
    destruct want_code; reflexivity.
  Qed.

  Theorem lhs_leading_bird l rest : is_whitespace 62%N = false ->
    lhs_spans ((62%N :: l) :: rest) 0 false true =
    (if want_code then [mkspan (Nat.min 2 (S (length l))) (S (length l))] else []) ++
    lhs_spans rest (S (length l) + 1) true false.
  Proof.
    intros H. cbn [lhs_spans]. rewrite (lhs_line_leading_bird l H). cbn [length Nat.add]. destruct want_code; reflexivity.
  Qed.
End LhsProofs.

(* ====================================================================================== *)
(** * J. git commit *)

(* a '#' that opens a line: git's comment lines *)
Definition line_start_hash (src : text) (i : nat) : Prop :=
  nth_error src i = Some 35%N /\ (i = 0 \/ exists j, i = S j /\ nth_error src j = Some 10%N).

Lemma git_scan_spec (src : text) : forall rest pre, src = pre ++ rest ->
  (forall k, k < length pre -> ~ line_start_hash src k) ->
  exists e, git_scan src (length pre) rest = Ok e /\ e <= length src /\
    (forall k, k < e -> ~ line_start_hash src k) /\ (e < length src -> line_start_hash src e).
Proof.
  induction rest as [|c t IH]; intros pre Hsrc Hpre.
  - cbn [git_scan]. exists (length src). rewrite app_nil_r in Hsrc. subst pre.
    split; [reflexivity|]. split; [lia|]. split; [assumption|lia].
  - assert (Hc : nth_error src (length pre) = Some c).
    { rewrite Hsrc, nth_error_app2 by lia. now rewrite Nat.sub_diag. }
    assert (Hnext : src = (pre ++ [c]) ++ t) by (now rewrite <- app_assoc).
    assert (Hlen : length (pre ++ [c]) = S (length pre)) by (rewrite app_length; cbn; lia).
    assert (Hlt : length pre < length src) by (rewrite Hsrc, app_length; cbn; lia).
    (* continuing the scan when position `length pre` is not a hit *)
    assert (Hcont : ~ line_start_hash src (length pre) ->
              exists e, git_scan src (S (length pre)) t = Ok e /\ e <= length src /\
                (forall k, k < e -> ~ line_start_hash src k) /\ (e < length src -> line_start_hash src e)).
    { intros Hno. rewrite <- Hlen. apply (IH (pre ++ [c]) Hnext). intros k Hk. rewrite Hlen in Hk.
      destruct (Nat.eq_dec k (length pre)) as [->|]; [assumption|apply Hpre; lia]. }
    cbn [git_scan]. destruct (N.eqb_spec c 35) as [->|Hne].
    + destruct (Nat.eqb_spec (length pre) 0) as [Hz|Hnz]; cbn [bind].
      * exists (length pre). split; [reflexivity|]. split; [lia|]. split; [assumption|].
        intros _. split; [assumption|left; assumption].
      * unfold nth_chk. destruct (nth_error src (length pre - 1)) as [p|] eqn:Ep; cbn [bind].
        2:{ exfalso. apply nth_error_None in Ep. lia. }
        destruct (N.eqb_spec p 10) as [->|Hp].
        -- exists (length pre). split; [reflexivity|]. split; [lia|]. split; [assumption|].
           intros _. split; [assumption|]. right. exists (length pre - 1). split; [lia|assumption].
        -- apply Hcont. intros [_ [Hz|(j & Hj & Hnl)]]; [lia|].
           replace (length pre - 1) with j in Ep by lia. congruence.
    + cbn [bind]. apply Hcont. intros [H35 _]. congruence.
Qed.

(* C04_git_commit_cut: the scan never panics (`source[i - 1]` is only evaluated for i > 0); what is parsed
   is the longest prefix that contains no line starting with '#': a '#' inside a line ("Fixes #123") is
   ordinary text, and the cut is at the first '#' that opens a line (or the end) *)
Theorem git_commit_cut_spec (src : text) :
  exists e, git_commit_cut src = Ok e /\ e <= length src /\
    (forall k, k < e -> ~ line_start_hash src k) /\ (e < length src -> line_start_hash src e) /\
    forall inner, git_commit_parse inner src = Ok (inner (firstn e src)).
Proof.
  destruct (git_scan_spec src src [] eq_refl) as (e & He & Hle & Hno & Hhit); [cbn; intros k Hk; lia|].
  exists e. unfold git_commit_parse, git_commit_cut. cbn [length] in He. rewrite He. split; [reflexivity|]. split; [assumption|]. split; [assumption|]. split; [assumption|].
  intros inner. cbn [bind]. unfold slice_chk. destruct (Nat.ltb_spec e 0); [lia|].
  destruct (Nat.ltb_spec (length src) e); [lia|]. cbn [orb bind skipn]. now rewrite Nat.sub_0_r.
Qed.

(* the old cut (before 15b9a7f: the first '#' anywhere) on "Fixes #1 x": the cut was 6, now it is the end *)
Example git_commit_midline_hash_kept :
  git_commit_cut [70; 105; 120; 101; 115; 32; 35; 49; 32; 120]%N = Ok 10 /\
  git_commit_cut [97; 10; 35; 32; 98]%N = Ok 2.
Proof. vm_compute. split; reflexivity. Qed.
