(* CondSpaces.v — condense_spaces, condense_newlines and newlines_to_breaks are groupings (CondenseInv.Grouped)
   of a tiling.  Each outer iteration of the two cursor loops contributes one segment
        [rebuilt start token + merged children]  ++  [tokens passed over unchanged]
   to the updated vector and the indices of the merged children to the queue; the segments are glued with
   remove_indices_app (lemma `glue`). *)
Require Import Base Overlap OverlapProofs Tables_lexer Lexer Condense ListLemmas TokenInv CondenseInv LexerProofs.
From Coq Require Import List Arith Lia.
Import ListNotations.

(* ---------- list facts ---------- *)
Lemma nth_error_skipn {A} : forall n (l : list A) k, nth_error (skipn n l) k = nth_error l (n + k).
Proof.
  induction n as [|n IH]; intros l k; [reflexivity|].
  destruct l as [|x l]; cbn [skipn Nat.add nth_error]; [destruct k; reflexivity|apply IH].
Qed.

Lemma skipn_app_len {A} : forall (l1 l2 : list A) n, skipn (length l1 + n) (l1 ++ l2) = skipn n l2.
Proof. induction l1 as [|x l1 IH]; intros l2 n; cbn [length Nat.add app skipn]; [reflexivity|apply IH]. Qed.

Lemma firstn_app_len {A} : forall (l1 l2 : list A) n, firstn (length l1 + n) (l1 ++ l2) = l1 ++ firstn n l2.
Proof.
  induction l1 as [|x l1 IH]; intros l2 n; cbn [length Nat.add app firstn]; [reflexivity|].
  f_equal. apply IH.
Qed.

Lemma tiling_skipn a b l k : Tiling a b l -> exists a', Tiling a' b (skipn k l).
Proof.
  intros H. rewrite <- (firstn_skipn k l) in H. apply tiling_app_inv in H.
  destruct H as [m [_ H]]. exists m. exact H.
Qed.

(* ---------- queues ---------- *)
Lemma queue_in_ge lo hi q : QueueIn lo hi q -> forall r, In r q -> lo <= r.
Proof.
  induction 1 as [|lo hi r0 q Hlo Hhi HQ IH]; intros r Hin; [destruct Hin|].
  destruct Hin as [<-|Hin]; [exact Hlo|]. specialize (IH r Hin). lia.
Qed.

Lemma queue_in_hi lo hi hi' q : hi <= hi' -> QueueIn lo hi q -> QueueIn lo hi' q.
Proof. intros Hh H. induction H; constructor; auto; lia. Qed.

Lemma queue_in_empty lo hi q : hi <= lo -> QueueIn lo hi q -> q = [].
Proof. intros Hh H. destruct H; [reflexivity|lia]. Qed.

Lemma queue_in_app lo mid hi q1 q2 :
  lo <= mid -> mid <= hi -> QueueIn lo mid q1 -> QueueIn mid hi q2 -> QueueIn lo hi (q1 ++ q2).
Proof.
  intros Hlm Hmh H1 H2. revert Hlm. induction H1 as [lo mid|lo mid r q Hlo Hhi HQ IH]; intros Hlm; cbn [app].
  - eapply queue_in_weaken; [exact Hlm|exact H2].
  - constructor; [exact Hlo|lia|]. apply IH; [exact Hmh|exact H2|lia].
Qed.

Lemma queue_in_seq : forall n i, QueueIn i (i + n) (seq i n).
Proof.
  induction n as [|n IH]; intros i; cbn [seq]; constructor; [lia|lia|].
  replace (i + S n) with (S i + n) by lia. apply IH.
Qed.

(* ---------- remove_indices ---------- *)
Lemma remove_indices_seq {A} : forall (l : list A) i, remove_indices i (seq i (length l)) l = [].
Proof.
  induction l as [|x l IH]; intros i; cbn [length seq remove_indices]; [reflexivity|].
  rewrite Nat.eqb_refl. apply IH.
Qed.

Lemma remove_indices_head {A} (x : A) xs i q :
  (forall r, In r q -> S i <= r) -> remove_indices i q (x :: xs) = x :: remove_indices (S i) q xs.
Proof.
  intros Hq. destruct q as [|r q']; cbn [remove_indices]; [reflexivity|].
  assert (S i <= r) as Hr by (apply Hq; left; reflexivity).
  replace (i =? r) with false by (symmetry; apply Nat.eqb_neq; lia). reflexivity.
Qed.

(* gluing one segment (l1 with its queue q1, then `mid` passed over unchanged) in front of the rest of the run *)
Lemma glue {A} (l1 mid upd' : list A) i j q1 q' :
  QueueIn i (i + length l1) q1 -> QueueIn j (j + length upd') q' ->
  (upd' = [] \/ j = i + length l1 + length mid) ->
  remove_indices i (q1 ++ q') (l1 ++ mid ++ upd') = remove_indices i q1 l1 ++ mid ++ remove_indices j q' upd'
  /\ QueueIn i (i + length (l1 ++ mid ++ upd')) (q1 ++ q').
Proof.
  intros Q1 Q2 [-> | ->].
  - cbn [length] in Q2. apply queue_in_empty in Q2; [|lia]. subst q'.
    rewrite remove_indices_app; [|exact Q1|intros r []]. rewrite !remove_indices_nil. cbn [remove_indices].
    split; [reflexivity|]. rewrite !app_nil_r. eapply queue_in_hi; [|exact Q1]. rewrite app_length. lia.
  - split.
    + rewrite remove_indices_app; [|exact Q1|].
      * f_equal. change q' with ([] ++ q'). rewrite remove_indices_app; [|constructor|].
        -- rewrite remove_indices_nil. reflexivity.
        -- intros r Hin. apply (queue_in_ge _ _ _ Q2) in Hin. lia.
      * intros r Hin. apply (queue_in_ge _ _ _ Q2) in Hin. lia.
    + rewrite !app_length. eapply (queue_in_app i (i + length l1)); [lia|lia|exact Q1|].
      eapply queue_in_weaken; [|replace (i + (length l1 + (length mid + length upd')))
                                  with (i + length l1 + length mid + length upd') by lia; exact Q2]. lia.
Qed.

(* ---------- groups ---------- *)
Lemma grouped_one (G : list token -> tkind -> Prop) g k : g <> [] -> G g k -> Grouped G g [group_token g k].
Proof.
  intros Hne HG. pose proof (Grouped_cons G g k [] [] Hne HG (Grouped_nil G)) as H.
  rewrite app_nil_r in H. exact H.
Qed.

Lemma grouped_single_cons (G : list token -> tkind -> Prop) t r r' :
  G [t] (tkind_of t) -> Grouped G r r' -> Grouped G (t :: r) (t :: r').
Proof.
  intros HG H. pose proof (Grouped_cons G [t] (tkind_of t) r r' ltac:(discriminate) HG H) as H1.
  rewrite group_token_single in H1. exact H1.
Qed.

Lemma rebuild_same t k : tkind_of t = k -> mktok (mkspan (tstart t) (tend t)) k = t.
Proof. destruct t as [[s e] k']. cbn. intros <-. reflexivity. Qed.

(* ================= newlines_to_breaks ================= *)
Lemma newline_to_break_group t : group_token [t] (tkind_of (newline_to_break t)) = newline_to_break t.
Proof.
  destruct t as [[s e] k]. unfold newline_to_break. cbn [tkind_of tspan].
  destruct k; try reflexivity. destruct (2 <=? n); reflexivity.
Qed.

Theorem newlines_to_breaks_grouped : forall ts, Grouped G_breaks ts (newlines_to_breaks ts).
Proof.
  induction ts as [|t ts IH]; [constructor|].
  unfold newlines_to_breaks in *. cbn [map].
  pose proof (Grouped_cons G_breaks [t] (tkind_of (newline_to_break t)) ts _ ltac:(discriminate)
                (ex_intro _ t (conj eq_refl eq_refl)) IH) as H.
  rewrite newline_to_break_group in H. exact H.
Qed.

(* ================= condense_spaces ================= *)
(* on a tiling the inner loop merges at most ONE child: after a merge the cursor is incremented twice and the
   token then examined is never adjacent (a non-empty token lies in between) *)
Lemma cs_inner_tiling : forall fuel copy cursor start r1 a b c,
  (forall k, nth_error copy (cursor + k) = nth_error (start :: r1) k) ->
  Tiling a b (start :: r1) -> length (start :: r1) <= fuel ->
  cs_inner fuel copy cursor c (tend start) =
    match r1 with
    | child :: _ => match tkind_of child with
                    | KSpace n => Ok (cursor + 3, c + n, tend child, [cursor + 1])
                    | _ => Ok (cursor + 1, c, tend start, [])
                    end
    | [] => Ok (cursor + 1, c, tend start, [])
    end.
Proof.
  intros fuel copy cursor start r1 a b c Hnth HT Hfuel.
  destruct fuel as [|f]; [cbn [length] in Hfuel; lia|].
  cbn [cs_inner]. rewrite (Hnth 1).
  destruct r1 as [|child r2]; cbn [nth_error]; [reflexivity|].
  inversion HT as [|a0 b0 t0 ts0 Hs Hlt HT1]; subst a0 b0 t0 ts0.
  inversion HT1 as [|a1 b1 t1 ts1 Hs1 Hlt1 HT2]; subst a1 b1 t1 ts1.
  rewrite Hs1, Nat.eqb_refl. cbn [negb].
  destruct (tkind_of child) eqn:Hk; try reflexivity.
  destruct f as [|f']; [cbn [length] in Hfuel; lia|].
  cbn [cs_inner]. replace (cursor + 1 + 1 + 1) with (cursor + 3) by lia. rewrite (Hnth 3). cbn [nth_error].
  destruct r2 as [|x [|y r3]]; cbn [nth_error bind]; try reflexivity.
  inversion HT2 as [|a2 b2 t2 ts2 Hs2 Hlt2 HT3]; subst a2 b2 t2 ts2.
  inversion HT3 as [|a3 b3 t3 ts3 Hs3 Hlt3 HT4]; subst a3 b3 t3 ts3.
  replace (tend child =? tstart y) with false by (symmetry; apply Nat.eqb_neq; lia).
  reflexivity.
Qed.

Lemma G_spaces_single t : G_spaces [t] (tkind_of t).
Proof. left. exists t. split; reflexivity. Qed.

Lemma cs_outer_spec : forall fuel copy cursor a b,
  Tiling a b (skipn cursor copy) -> length (skipn cursor copy) < fuel ->
  exists upd q, cs_outer fuel copy cursor = Ok (upd, q) /\
    length upd = length (skipn cursor copy) /\
    QueueIn cursor (cursor + length upd) q /\
    Grouped G_spaces (skipn cursor copy) (remove_indices cursor q upd).
Proof.
  induction fuel as [|f IH]; intros copy cursor a b HT Hf; [lia|].
  assert (Hnth : forall k, nth_error copy (cursor + k) = nth_error (skipn cursor copy) k)
    by (intros k; symmetry; apply nth_error_skipn).
  assert (Hskip : forall k, skipn (cursor + k) copy = skipn k (skipn cursor copy))
    by (intros k; rewrite skipn_skipn; f_equal; lia).
  assert (Hlen : length (skipn cursor copy) <= length copy) by (rewrite skipn_length; lia).
  assert (IH' : forall k, length (skipn k (skipn cursor copy)) < f ->
            exists upd q, cs_outer f copy (cursor + k) = Ok (upd, q) /\
              length upd = length (skipn k (skipn cursor copy)) /\
              QueueIn (cursor + k) (cursor + k + length upd) q /\
              Grouped G_spaces (skipn k (skipn cursor copy)) (remove_indices (cursor + k) q upd)).
  { intros k Hk. destruct (tiling_skipn _ _ _ k HT) as [a' HT'].
    rewrite <- Hskip in *. eapply IH; eassumption. }
  clear IH.
  assert (H0 : nth_error copy cursor = nth_error (skipn cursor copy) 0) by (rewrite <- Hnth; f_equal; lia).
  cbn [cs_outer]. rewrite H0. clear H0.
  remember (skipn cursor copy) as rest eqn:Hrest. clear Hrest.
  destruct rest as [|start r1]; cbn [nth_error].
  - exists [], []. split; [reflexivity|]. split; [reflexivity|]. split; [constructor|].
    cbn [remove_indices]. constructor.
  - destruct (tkind_of start) eqn:Hk.
    5: {
      rewrite (cs_inner_tiling (length copy) copy cursor start r1 a b n Hnth HT Hlen).
      destruct r1 as [|child r2].
      - (* a Space at the very end *)
        cbn [bind]. replace (cursor + 1 + 1) with (cursor + 2) by lia.
        destruct (IH' 2) as (upd' & q' & E & L & Q & Gr); [cbn [skipn length]; cbn [length] in Hf; lia|].
        rewrite E. cbn [bind]. unfold slice. rewrite (Hskip 1). cbn [skipn] in *. rewrite firstn_nil.
        cbn [length] in L. destruct upd' as [|u upd']; [|discriminate L].
        rewrite (rebuild_same start (KSpace n) Hk).
        exists ([start] ++ [] ++ []), ([] ++ q'). split; [reflexivity|]. split; [reflexivity|].
        destruct (glue [start] [] [] cursor (cursor + 2) [] q') as [HR HQ];
          [constructor|exact Q|left; reflexivity|].
        split; [exact HQ|]. rewrite HR. rewrite remove_indices_nil. cbn [remove_indices app].
        apply grouped_single_cons; [apply G_spaces_single|constructor].
      - destruct (tkind_of child) eqn:Hkc.
        5: {
          (* merge: start absorbs child, the token after child is skipped *)
          rename n0 into m.
          cbn [bind]. replace (cursor + 3 + 1) with (cursor + 4) by lia.
          destruct (IH' 4) as (upd' & q' & E & L & Q & Gr);
            [cbn [length] in Hf; rewrite skipn_length; cbn [length]; lia|].
          rewrite E. cbn [bind]. unfold slice. rewrite (Hskip 1).
          replace (cursor + 4 - (cursor + 1)) with 3 by lia.
          change (skipn 4 (start :: child :: r2)) with (skipn 2 r2) in L, Gr.
          change (firstn 3 (skipn 1 (start :: child :: r2))) with (child :: firstn 2 r2).
          set (st := mktok (mkspan (tstart start) (tend child)) (KSpace (n + m))).
          exists ([st; child] ++ firstn 2 r2 ++ upd'), ([cursor + 1] ++ q').
          split; [reflexivity|].
          assert (Hl2 : length upd' = length r2 - 2) by (rewrite L, skipn_length; reflexivity).
          split; [rewrite !app_length, firstn_length; cbn [length]; lia|].
          destruct (glue [st; child] (firstn 2 r2) upd' cursor (cursor + 4) [cursor + 1] q') as [HR HQ].
          { cbn [length]. constructor; [lia|lia|constructor]. }
          { exact Q. }
          { destruct (le_lt_dec 2 (length r2)) as [Hge|Hlt].
            - right. rewrite firstn_length. cbn [length]. lia.
            - left. destruct upd'; [reflexivity|cbn [length] in Hl2; lia]. }
          split; [exact HQ|]. rewrite HR.
          assert (HR1 : remove_indices cursor [cursor + 1] [st; child] = [st]).
          { cbn [remove_indices]. replace (cursor =? cursor + 1) with false by (symmetry; apply Nat.eqb_neq; lia).
            replace (S cursor =? cursor + 1) with true by (symmetry; apply Nat.eqb_eq; lia). reflexivity. }
          rewrite HR1.
          assert (Hsplit : start :: child :: r2 = [start; child] ++ firstn 2 r2 ++ skipn 2 r2)
            by (rewrite firstn_skipn; reflexivity).
          rewrite Hsplit. apply grouped_app; [|apply grouped_app; [|exact Gr]].
          - apply (grouped_one G_spaces [start; child] (KSpace (n + m))); [discriminate|].
            right. exists start, child, n, m. auto.
          - apply grouped_refl. apply G_spaces_single.
        }
        all: (* the child is not a Space: it is passed over *)
          cbn [bind]; replace (cursor + 1 + 1) with (cursor + 2) by lia;
          (destruct (IH' 2) as (upd' & q' & E & L & Q & Gr); [cbn [skipn length]; cbn [length] in Hf; lia|]);
          rewrite E; cbn [bind]; unfold slice; rewrite (Hskip 1);
          replace (cursor + 2 - (cursor + 1)) with 1 by lia;
          cbn [skipn firstn] in *;
          rewrite (rebuild_same start (KSpace n) Hk);
          exists ([start] ++ [child] ++ upd'), ([] ++ q');
          (split; [reflexivity|]);
          (split; [cbn [app length]; lia|]);
          (destruct (glue [start] [child] upd' cursor (cursor + 2) [] q') as [HR HQ];
            [constructor|exact Q|right; cbn [length]; lia|]);
          (split; [exact HQ|]); rewrite HR; rewrite remove_indices_nil; cbn [app];
          apply grouped_single_cons; [apply G_spaces_single|];
          apply grouped_single_cons; [apply G_spaces_single|exact Gr].
    }
    all: (* start is not a Space *)
      (destruct (IH' 1) as (upd' & q' & E & L & Q & Gr); [cbn [skipn length]; cbn [length] in Hf; lia|]);
      rewrite E; cbn [bind]; cbn [skipn] in *;
      exists ([start] ++ [] ++ upd'), ([] ++ q');
      (split; [reflexivity|]);
      (split; [cbn [app length]; lia|]);
      (destruct (glue [start] [] upd' cursor (cursor + 1) [] q') as [HR HQ];
        [constructor|exact Q|right; cbn [length]; lia|]);
      (split; [exact HQ|]); rewrite HR; rewrite remove_indices_nil; cbn [app];
      apply grouped_single_cons; [apply G_spaces_single|exact Gr].
Qed.

Theorem condense_spaces_grouped : forall a b ts, Tiling a b ts ->
  exists ts', condense_spaces ts = Ok ts' /\ Grouped G_spaces ts ts'.
Proof.
  intros a b ts HT. unfold condense_spaces.
  destruct (cs_outer_spec (S (length ts)) ts 0 a b HT ltac:(cbn [skipn]; lia)) as (upd & q & E & _ & _ & Gr).
  rewrite E. cbn [bind]. eexists. split; [reflexivity|exact Gr].
Qed.

(* ================= condense_newlines ================= *)
(* span.end of the start token after absorbing `run` *)
Fixpoint run_end (run : list token) (e : nat) : nat :=
  match run with [] => e | x :: r => run_end r (tend x) end.

Lemma run_end_group : forall run start, run_end run (tend start) = group_end (start :: run).
Proof.
  induction run as [|x r IH]; intros start; [reflexivity|].
  cbn [run_end]. rewrite IH. reflexivity.
Qed.

(* the inner loop absorbs a run of Newline tokens (all of them, but the theorem does not need maximality) *)
Lemma cn_inner_spec : forall r1 fuel copy cursor cnt e,
  (forall k, nth_error copy (cursor + 1 + k) = nth_error r1 k) -> length r1 < fuel ->
  exists run tail ns, r1 = run ++ tail /\ map tkind_of run = map KNewline ns /\
    cn_inner fuel copy cursor cnt e =
      Ok (cursor + 1 + length run, cnt + list_sum ns, run_end run e, seq (cursor + 1) (length run)).
Proof.
  induction r1 as [|x r IH]; intros fuel copy cursor cnt e Hnth Hf;
    (destruct fuel as [|f]; [lia|]); cbn [cn_inner].
  - pose proof (Hnth 0) as H0. rewrite Nat.add_0_r in H0. cbn [nth_error] in H0.
    rewrite H0. exists [], [], []. split; [reflexivity|]. split; [reflexivity|].
    cbn [length run_end seq]. change (list_sum []) with 0. rewrite !Nat.add_0_r. reflexivity.
  - pose proof (Hnth 0) as H0. rewrite Nat.add_0_r in H0. cbn [nth_error] in H0.
    rewrite H0. destruct (tkind_of x) eqn:Hk.
    6: {
      destruct (IH f copy (cursor + 1) (cnt + n) (tend x)) as (run & tail & ns & Er & Em & Ei).
      { intros k. replace (cursor + 1 + 1 + k) with (cursor + 1 + S k) by lia. rewrite Hnth. reflexivity. }
      { cbn [length] in Hf. lia. }
      rewrite Ei. cbn [bind]. exists (x :: run), tail, (n :: ns).
      split; [cbn [app]; congruence|]. split; [cbn [map]; congruence|].
      cbn [length seq run_end]. change (list_sum (n :: ns)) with (n + list_sum ns).
      replace (cursor + 1 + 1 + length run) with (cursor + 1 + S (length run)) by lia.
      replace (cnt + n + list_sum ns) with (cnt + (n + list_sum ns)) by lia.
      replace (cursor + 1 + 1) with (S (cursor + 1)) by lia. reflexivity.
    }
    all: exists [], (x :: r), []; (split; [reflexivity|]); (split; [reflexivity|]);
      cbn [length run_end seq]; change (list_sum []) with 0; rewrite !Nat.add_0_r; reflexivity.
Qed.

Lemma G_newlines_single t : G_newlines [t] (tkind_of t).
Proof. left. exists t. split; reflexivity. Qed.

Lemma cn_outer_spec : forall fuel copy cursor a b,
  Tiling a b (skipn cursor copy) -> length (skipn cursor copy) < fuel ->
  exists upd q, cn_outer fuel copy cursor = Ok (upd, q) /\
    length upd = length (skipn cursor copy) /\
    QueueIn cursor (cursor + length upd) q /\
    Grouped G_newlines (skipn cursor copy) (remove_indices cursor q upd).
Proof.
  induction fuel as [|f IH]; intros copy cursor a b HT Hf; [lia|].
  assert (Hnth : forall k, nth_error copy (cursor + k) = nth_error (skipn cursor copy) k)
    by (intros k; symmetry; apply nth_error_skipn).
  assert (Hskip : forall k, skipn (cursor + k) copy = skipn k (skipn cursor copy))
    by (intros k; rewrite skipn_skipn; f_equal; lia).
  assert (Hlen : length (skipn cursor copy) <= length copy) by (rewrite skipn_length; lia).
  assert (IH' : forall k, length (skipn k (skipn cursor copy)) < f ->
            exists upd q, cn_outer f copy (cursor + k) = Ok (upd, q) /\
              length upd = length (skipn k (skipn cursor copy)) /\
              QueueIn (cursor + k) (cursor + k + length upd) q /\
              Grouped G_newlines (skipn k (skipn cursor copy)) (remove_indices (cursor + k) q upd)).
  { intros k Hk. destruct (tiling_skipn _ _ _ k HT) as [a' HT'].
    rewrite <- Hskip in *. eapply IH; eassumption. }
  clear IH.
  assert (H0 : nth_error copy cursor = nth_error (skipn cursor copy) 0) by (rewrite <- Hnth; f_equal; lia).
  cbn [cn_outer]. rewrite H0. clear H0.
  remember (skipn cursor copy) as rest eqn:Hrest. clear Hrest.
  destruct rest as [|start r1]; cbn [nth_error].
  - exists [], []. split; [reflexivity|]. split; [reflexivity|]. split; [constructor|].
    cbn [remove_indices]. constructor.
  - destruct (tkind_of start) eqn:Hk.
    6: {
      destruct (cn_inner_spec r1 (length copy) copy cursor n (tend start)) as (run & tail & ns & Er & Em & Ei).
      { intros k. replace (cursor + 1 + k) with (cursor + S k) by lia. rewrite Hnth. reflexivity. }
      { cbn [length] in Hlen. lia. }
      subst r1. rewrite Ei. cbn [bind].
      replace (cursor + 1 + length run + 1) with (cursor + (length run + 2)) by lia.
      assert (Hsk : skipn (length run + 2) (start :: run ++ tail) = skipn 1 tail).
      { replace (length run + 2) with (S (length run + 1)) by lia.
        change (skipn (S (length run + 1)) (start :: run ++ tail)) with (skipn (length run + 1) (run ++ tail)).
        apply skipn_app_len. }
      destruct (IH' (length run + 2)) as (upd' & q' & E & L & Q & Gr).
      { rewrite Hsk, skipn_length. cbn [length] in Hf. rewrite app_length in Hf. lia. }
      rewrite Hsk in L, Gr. rewrite E. cbn [bind]. unfold slice. rewrite (Hskip 1).
      replace (cursor + (length run + 2) - (cursor + 1)) with (length run + 1) by lia.
      change (skipn 1 (start :: run ++ tail)) with (run ++ tail). rewrite firstn_app_len.
      set (st := mktok (mkspan (tstart start) (run_end run (tend start))) (KNewline (n + list_sum ns))).
      exists ((st :: run) ++ firstn 1 tail ++ upd'), (seq (cursor + 1) (length run) ++ q').
      split; [cbn [app]; rewrite <- app_assoc; reflexivity|].
      assert (Hl2 : length upd' = length tail - 1) by (rewrite L, skipn_length; reflexivity).
      split; [cbn [app length]; rewrite !app_length, firstn_length; lia|].
      destruct (glue (st :: run) (firstn 1 tail) upd' cursor (cursor + (length run + 2))
                  (seq (cursor + 1) (length run)) q') as [HR HQ].
      { cbn [length]. eapply queue_in_weaken; [|replace (cursor + S (length run)) with (cursor + 1 + length run) by lia;
                                                 apply queue_in_seq]. lia. }
      { exact Q. }
      { destruct tail as [|t tail'].
        - left. destruct upd'; [reflexivity|cbn [length] in Hl2; lia].
        - right. cbn [firstn length]. lia. }
      split; [exact HQ|]. rewrite HR.
      assert (HR1 : remove_indices cursor (seq (cursor + 1) (length run)) (st :: run) = [st]).
      { rewrite remove_indices_head; [|intros r Hin; apply in_seq in Hin; lia].
        replace (cursor + 1) with (S cursor) by lia. rewrite remove_indices_seq. reflexivity. }
      rewrite HR1.
      assert (Hsplit : start :: run ++ tail = (start :: run) ++ firstn 1 tail ++ skipn 1 tail)
        by (rewrite firstn_skipn; reflexivity).
      rewrite Hsplit. apply grouped_app; [|apply grouped_app; [|exact Gr]].
      - assert (Hst : st = group_token (start :: run) (KNewline (n + list_sum ns))).
        { unfold st, group_token. cbn [group_start]. rewrite run_end_group. reflexivity. }
        rewrite Hst. apply grouped_one; [discriminate|].
        destruct run as [|x run'].
        + left. exists start. split; [reflexivity|].
          destruct ns; [|discriminate Em]. change (list_sum []) with 0. rewrite Nat.add_0_r. symmetry. exact Hk.
        + right. exists (n :: ns). split; [cbn [length]; lia|]. split; [cbn [map] in *; congruence|reflexivity].
      - apply grouped_refl. apply G_newlines_single.
    }
    all: (* start is not a Newline *)
      (destruct (IH' 1) as (upd' & q' & E & L & Q & Gr); [cbn [skipn length]; cbn [length] in Hf; lia|]);
      rewrite E; cbn [bind]; cbn [skipn] in *;
      exists ([start] ++ [] ++ upd'), ([] ++ q');
      (split; [reflexivity|]);
      (split; [cbn [app length]; lia|]);
      (destruct (glue [start] [] upd' cursor (cursor + 1) [] q') as [HR HQ];
        [constructor|exact Q|right; cbn [length]; lia|]);
      (split; [exact HQ|]); rewrite HR; rewrite remove_indices_nil; cbn [app];
      apply grouped_single_cons; [apply G_newlines_single|exact Gr].
Qed.

Theorem condense_newlines_grouped : forall a b ts, Tiling a b ts ->
  exists ts', condense_newlines ts = Ok ts' /\ Grouped G_newlines ts ts'.
Proof.
  intros a b ts HT. unfold condense_newlines.
  destruct (cn_outer_spec (S (length ts)) ts 0 a b HT ltac:(cbn [skipn]; lia)) as (upd & q & E & _ & _ & Gr).
  rewrite E. cbn [bind]. eexists. split; [reflexivity|exact Gr].
Qed.

(* ---------- non-vacuity: the passes on concrete tilings ---------- *)
Example cs_example :
  condense_spaces [mktok (mkspan 0 1) (KSpace 1); mktok (mkspan 1 2) (KSpace 1); mktok (mkspan 2 3) (KSpace 1);
                   mktok (mkspan 3 4) (KSpace 1); mktok (mkspan 4 5) KWord]
  = Ok [mktok (mkspan 0 2) (KSpace 2); mktok (mkspan 2 3) (KSpace 1); mktok (mkspan 3 4) (KSpace 1);
        mktok (mkspan 4 5) KWord].
Proof. vm_compute. reflexivity. Qed.

Example cn_example :
  condense_newlines [mktok (mkspan 0 1) (KNewline 1); mktok (mkspan 1 2) (KNewline 1); mktok (mkspan 2 3) (KNewline 1);
                     mktok (mkspan 3 4) KWord]
  = Ok [mktok (mkspan 0 3) (KNewline 3); mktok (mkspan 3 4) KWord].
Proof. vm_compute. reflexivity. Qed.

Print Assumptions condense_spaces_grouped.
Print Assumptions condense_newlines_grouped.
Print Assumptions newlines_to_breaks_grouped.
