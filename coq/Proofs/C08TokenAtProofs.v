(* C08TokenAtProofs.v — proofs about Model/C08TokenAt.v (Document::get_token_at_char_index):
   A. binary_search_by: total on every list and every comparator (no index panic, no fuel exhaustion);
      whatever it answers Ok(k), element k compares Equal; on a list  Less* ++ [Equal] ++ Greater*  it
      answers Ok(|Less*|);
   B. get_token_at_char_index: total; sound on EVERY token vector (the token answered is in the vector and
      contains the character, or is an empty token starting there); on sorted vectors of non-empty tokens it
      IS the linear scan (finds the token containing the character iff there is one);
   C. on unsorted vectors it is not: the Markdown vector of "https://c.ex\n\nb" (witness);
   D. the lookup only ever APPENDS one AOpenUrl to the code actions: the lint part of the answer does not
      depend on it. *)
Require Import Base Suggestion PosConv ListLemmas C08TokenAt C08DocState C08DocStateProofs.

(* ------------------------------------------------------------------------------------------ *)
(*  A. binary_search_by                                                                         *)
(* ------------------------------------------------------------------------------------------ *)
Section BS.
  Context {A : Type}.
  Variable f : A -> comparison.

  Lemma half_bounds (size : nat) : 2 <= size -> 1 <= size / 2 < size /\ 2 * (size / 2) <= size.
  Proof.
    intros H. split; [split|].
    - apply Nat.div_str_pos. lia.
    - apply Nat.div_lt; lia.
    - apply Nat.mul_div_le. lia.
  Qed.

  Lemma nth_chk_lt (l : list A) (k : nat) : k < length l -> exists x, nth_chk l k = Ok x /\ nth_error l k = Some x.
  Proof.
    intros H. unfold nth_chk. destruct (nth_error l k) as [x|] eqn:E.
    - now exists x.
    - apply nth_error_None in E. lia.
  Qed.

  (* the loop stays inside the window it was given *)
  Lemma bs_loop_window (l : list A) (fuel : nat) :
    forall size base, 1 <= size -> size <= fuel -> base + size <= length l ->
    exists b, bs_loop f l fuel size base = Ok b /\ base <= b < base + size.
  Proof.
    induction fuel as [|fuel IH]; intros size base H1 Hf Hl.
    - lia.
    - cbn [bs_loop]. destruct (size <=? 1) eqn:E.
      + apply Nat.leb_le in E. exists base. split; [reflexivity|lia].
      + apply Nat.leb_gt in E.
        destruct (half_bounds size ltac:(lia)) as [[Ha Hb] Hc].
        destruct (nth_chk_lt l (base + size / 2) ltac:(lia)) as [x [-> _]]. cbn [bind].
        destruct (f x).
        * destruct (IH (size - size / 2) (base + size / 2) ltac:(lia) ltac:(lia) ltac:(lia)) as [b [-> Hb']].
          exists b. split; [reflexivity|lia].
        * destruct (IH (size - size / 2) (base + size / 2) ltac:(lia) ltac:(lia) ltac:(lia)) as [b [-> Hb']].
          exists b. split; [reflexivity|lia].
        * destruct (IH (size - size / 2) base ltac:(lia) ltac:(lia) ltac:(lia)) as [b [-> Hb']].
          exists b. split; [reflexivity|lia].
  Qed.

  Theorem binary_search_by_total (l : list A) : exists r, binary_search_by f l = Ok r.
  Proof.
    unfold binary_search_by. destruct (length l =? 0) eqn:E; [now eexists|].
    apply Nat.eqb_neq in E.
    destruct (bs_loop_window l (length l) (length l) 0 ltac:(lia) ltac:(lia) ltac:(lia)) as [b [-> Hb]].
    cbn [bind]. destruct (nth_chk_lt l b ltac:(lia)) as [x [-> _]]. cbn [bind].
    destruct (f x); now eexists.
  Qed.

  Theorem binary_search_by_ok_equal (l : list A) (k : nat) :
    binary_search_by f l = Ok (inl k) -> exists x, nth_error l k = Some x /\ f x = Eq.
  Proof.
    unfold binary_search_by. destruct (length l =? 0); [discriminate|].
    destruct (bs_loop f l (length l) (length l) 0) as [b|]; [|discriminate]. cbn [bind].
    unfold nth_chk. destruct (nth_error l b) as [x|] eqn:E; [|discriminate]. cbn [bind].
    destruct (f x) eqn:F; intros H; inversion H; subst. now exists x.
  Qed.

  (* the classical contract: Less* ++ [Equal] ++ Greater* *)
  Lemma bs_loop_finds (P Q : list A) (t : A) (fuel : nat) :
    Forall (fun x => f x = Lt) P -> f t = Eq -> Forall (fun x => f x = Gt) Q ->
    forall size base, 1 <= size -> size <= fuel -> base + size <= length (P ++ t :: Q) ->
    base <= length P < base + size ->
    bs_loop f (P ++ t :: Q) fuel size base = Ok (length P).
  Proof.
    intros HP Ht HQ. induction fuel as [|fuel IH]; intros size base H1 Hf Hl Hk.
    - lia.
    - cbn [bs_loop]. destruct (size <=? 1) eqn:E.
      + apply Nat.leb_le in E. f_equal. lia.
      + apply Nat.leb_gt in E.
        destruct (half_bounds size ltac:(lia)) as [[Ha Hb] Hc].
        set (mid := base + size / 2).
        destruct (nth_chk_lt (P ++ t :: Q) mid ltac:(unfold mid; lia)) as [x [-> Hx]]. cbn [bind].
        destruct (Nat.lt_trichotomy mid (length P)) as [Hlt|[Heq|Hgt]].
        * rewrite nth_error_app1 in Hx by exact Hlt.
          apply nth_error_In in Hx. rewrite Forall_forall in HP. rewrite (HP x Hx).
          apply IH; unfold mid in *; lia.
        * rewrite nth_error_app2 in Hx by lia. rewrite Heq, Nat.sub_diag in Hx. cbn in Hx.
          inversion Hx; subst x. rewrite Ht. apply IH; unfold mid in *; lia.
        * rewrite nth_error_app2 in Hx by lia.
          destruct (mid - length P) as [|m] eqn:Em; [lia|]. cbn in Hx.
          apply nth_error_In in Hx. rewrite Forall_forall in HQ. rewrite (HQ x Hx).
          apply IH; unfold mid in *; lia.
  Qed.

  Theorem binary_search_by_finds (P Q : list A) (t : A) :
    Forall (fun x => f x = Lt) P -> f t = Eq -> Forall (fun x => f x = Gt) Q ->
    binary_search_by f (P ++ t :: Q) = Ok (inl (length P)).
  Proof.
    intros HP Ht HQ. unfold binary_search_by.
    assert (L : length (P ++ t :: Q) = length P + S (length Q)) by (rewrite app_length; reflexivity).
    destruct (length (P ++ t :: Q) =? 0) eqn:E; [apply Nat.eqb_eq in E; lia|].
    rewrite (bs_loop_finds P Q t _ HP Ht HQ) by lia. cbn [bind].
    unfold nth_chk. rewrite nth_error_app2 by lia. rewrite Nat.sub_diag. cbn. now rewrite Ht.
  Qed.
End BS.

(* ------------------------------------------------------------------------------------------ *)
(*  B. get_token_at_char_index                                                                  *)
(* ------------------------------------------------------------------------------------------ *)
Lemma overlaps_char (t : dtoken) (i : nat) :
  overlaps (tspan t) (span_new_with_len i 1) = true <-> tok_contains t i.
Proof.
  unfold overlaps, span_new_with_len, tok_contains. cbn [sstart send].
  rewrite andb_true_iff, !Nat.ltb_lt. lia.
Qed.

Lemma tok_cmp_eq (i : nat) (t : dtoken) :
  tok_cmp i t = Eq <-> tok_contains t i \/ (sstart (tspan t) = i /\ send (tspan t) <= i).
Proof.
  unfold tok_cmp. destruct (overlaps (tspan t) (span_new_with_len i 1)) eqn:E.
  - apply overlaps_char in E. tauto.
  - assert (N : ~ tok_contains t i) by (intros C; apply overlaps_char in C; congruence).
    rewrite Nat.compare_eq_iff. unfold tok_contains in *. split.
    + intros H. right. split; [exact H|]. lia.
    + intros [C|[H _]]; [tauto|exact H].
Qed.

Theorem token_at_total (toks : list dtoken) (i : nat) : exists r, token_at toks i = Ok r.
Proof.
  unfold token_at. destruct (binary_search_by_total (tok_cmp i) toks) as [r E].
  rewrite E. cbn [bind]. destruct r as [k|k]; [|now eexists].
  destruct (binary_search_by_ok_equal _ _ _ E) as [x [Hx _]].
  unfold nth_chk. rewrite Hx. cbn [bind]. now eexists.
Qed.

(* sound on EVERY vector, sorted or not *)
Theorem token_at_sound (toks : list dtoken) (i : nat) (t : dtoken) :
  token_at toks i = Ok (Some t) ->
  In t toks /\ (tok_contains t i \/ (sstart (tspan t) = i /\ send (tspan t) <= i)).
Proof.
  unfold token_at. destruct (binary_search_by (tok_cmp i) toks) as [[k|k]|] eqn:E; cbn [bind]; try discriminate.
  destruct (binary_search_by_ok_equal _ _ _ E) as [x [Hx Hc]].
  unfold nth_chk. rewrite Hx. cbn [bind]. intros H; inversion H; subst x.
  split; [eapply nth_error_In; exact Hx|]. now apply tok_cmp_eq.
Qed.

Lemma toks_sorted_tail (t : dtoken) (rest : list dtoken) : toks_sorted (t :: rest) -> toks_sorted rest.
Proof. cbn [toks_sorted]. tauto. Qed.

Lemma toks_sorted_nonempty (toks : list dtoken) :
  toks_sorted toks -> Forall (fun u => sstart (tspan u) < send (tspan u)) toks.
Proof.
  induction toks as [|t rest IH]; [constructor|]. intros H. constructor; [apply H|].
  apply IH. now apply toks_sorted_tail in H.
Qed.

Lemma toks_sorted_after (t : dtoken) (rest : list dtoken) :
  toks_sorted (t :: rest) -> Forall (fun u => send (tspan t) <= sstart (tspan u)) rest.
Proof.
  revert t. induction rest as [|u rest IH]; intros t H; [constructor|].
  destruct H as [Ht [Hu Hr]]. constructor; [exact Hu|].
  specialize (IH u Hr). destruct Hr as [Hne _].
  eapply Forall_impl; [|exact IH]. cbn beta. intros a Ha. lia.
Qed.

(* a sorted vector around the token containing i is Less* ++ [Equal] ++ Greater* *)
Lemma toks_sorted_split (toks : list dtoken) (i : nat) (t : dtoken) :
  toks_sorted toks -> In t toks -> tok_contains t i ->
  exists P Q, toks = P ++ t :: Q /\ Forall (fun x => tok_cmp i x = Lt) P /\ Forall (fun x => tok_cmp i x = Gt) Q.
Proof.
  induction toks as [|u rest IH]; intros Hs Hin Hc; [destruct Hin|].
  destruct (toks_sorted_after u rest Hs) as [].
  - (* rest = [] *) destruct Hin as [->|[]]. exists [], []. repeat split; constructor.
  - pose proof (toks_sorted_after u _ Hs) as Haft.
    destruct Hin as [->|Hin].
    + exists [], (x :: l). split; [reflexivity|]. split; [constructor|].
      eapply Forall_impl; [|exact Haft]. cbn beta. intros a Ha. unfold tok_cmp.
      destruct (overlaps (tspan a) (span_new_with_len i 1)) eqn:E.
      * apply overlaps_char in E. unfold tok_contains in *. lia.
      * apply Nat.compare_gt_iff. unfold tok_contains in Hc. lia.
    + destruct (IH (toks_sorted_tail _ _ Hs) Hin Hc) as [P [Q [E [HP HQ]]]].
      exists (u :: P), Q. split; [cbn [app]; now rewrite E|]. split; [|exact HQ].
      constructor; [|exact HP].
      rewrite Forall_forall in Haft. specialize (Haft t Hin).
      destruct Hs as [Hne _]. unfold tok_cmp.
      destruct (overlaps (tspan u) (span_new_with_len i 1)) eqn:E'.
      * apply overlaps_char in E'. unfold tok_contains in *. lia.
      * apply Nat.compare_lt_iff. unfold tok_contains in Hc. lia.
Qed.

(* complete on sorted vectors of non-empty tokens *)
Theorem token_at_complete_sorted (toks : list dtoken) (i : nat) (t : dtoken) :
  toks_sorted toks -> In t toks -> tok_contains t i -> token_at toks i = Ok (Some t).
Proof.
  intros Hs Hin Hc. destruct (toks_sorted_split toks i t Hs Hin Hc) as [P [Q [-> [HP HQ]]]].
  unfold token_at. rewrite (binary_search_by_finds (tok_cmp i) P Q t HP) by (apply tok_cmp_eq; now left) || exact HQ.
  cbn [bind]. unfold nth_chk. rewrite nth_error_app2 by lia. rewrite Nat.sub_diag. reflexivity.
Qed.

(* ... on which the binary search IS the linear scan *)
Theorem token_at_sorted_is_scan (toks : list dtoken) (i : nat) :
  toks_sorted toks -> token_at toks i = Ok (token_at_spec toks i).
Proof.
  intros Hs. unfold token_at_spec.
  destruct (find (fun t => overlaps (tspan t) (span_new_with_len i 1)) toks) as [t|] eqn:F.
  - apply find_some in F. destruct F as [Hin Ho]. apply overlaps_char in Ho.
    now apply token_at_complete_sorted.
  - destruct (token_at_total toks i) as [[t|] E]; [|exact E]. exfalso.
    destruct (token_at_sound _ _ _ E) as [Hin [Hc|[Ha Hb]]].
    + apply overlaps_char in Hc. pose proof (find_none _ _ F t Hin) as N. cbn beta in N. congruence.
    + pose proof (toks_sorted_nonempty toks Hs) as Hne. rewrite Forall_forall in Hne.
      specialize (Hne t Hin). lia.
Qed.

(* the span the Open URL command is built from belongs to a token of the document *)
Lemma url_token_at_vec_in (toks : list dtoken) (i : nat) (sp : span) :
  url_token_at_vec toks i = Some sp -> exists t, In t toks /\ tspan t = sp /\ turl t = true.
Proof.
  unfold url_token_at_vec. destruct (token_at toks i) as [[t|]|] eqn:E; try discriminate.
  destruct (turl t) eqn:U; [|discriminate]. intros H; inversion H; subst sp.
  exists t. split; [|tauto]. apply (token_at_sound _ _ _ E).
Qed.

(* ------------------------------------------------------------------------------------------ *)
(*  C. unsorted vectors: Markdown "https://c.ex\n\nb" = [Url [0,12); ParagraphBreak [0,0); Word [14,15)] *)
(* ------------------------------------------------------------------------------------------ *)
Definition md_witness : list dtoken :=
  [mkdtoken (mkspan 0 12) true; mkdtoken (mkspan 0 0) false; mkdtoken (mkspan 14 15) false].

(* at NO character of the Url token does the lookup answer it, although the linear scan does *)
Theorem token_at_unsorted_refuted :
  exists toks t, In t toks /\ turl t = true /\ ~ toks_sorted toks /\
    forall i, tok_contains t i ->
      token_at_spec toks i = Some t /\ token_at toks i <> Ok (Some t) /\ url_token_at_vec toks i = None.
Proof.
  exists md_witness, (mkdtoken (mkspan 0 12) true).
  split; [now left|]. split; [reflexivity|]. split.
  - cbn. lia.
  - unfold tok_contains. cbn [tspan sstart send]. intros i [_ Hi].
    do 12 (destruct i as [|i]; [split; [reflexivity|split; [now vm_compute|now vm_compute]]|]). lia.
Qed.

(* ------------------------------------------------------------------------------------------ *)
(*  D. the lookup does not touch the lint part of the answer                                    *)
(* ------------------------------------------------------------------------------------------ *)
Section UrlIrrelevant.
  Variable doc : Type.
  Variable source : doc -> text.

  Theorem code_actions_core_url_only_appends
          (url_at : doc -> nat -> option span) (d : doc) (lints : list dlint) (r : range) (fs : bool)
          (acts : list action) :
    code_actions_core doc source url_at d lints r fs = Ok acts ->
    exists acts0, code_actions_core doc source (fun _ _ => None) d lints r fs = Ok acts0 /\
                  (acts = acts0 \/ exists u, acts = acts0 ++ [AOpenUrl u]).
  Proof.
    unfold code_actions_core. cbv zeta.
    destruct (lookup_span (source d) r) as [q|]; cbn [bind]; [|discriminate].
    destruct (map_res _ _) as [per|]; cbn [bind]; [|discriminate].
    destruct (url_at d (sstart q)) as [sp|].
    - destruct (get_content sp (source d)) as [u|]; cbn [bind]; [|discriminate].
      intros H; inversion H. eexists. split; [reflexivity|]. right. now exists u.
    - intros H; inversion H. eexists. split; [reflexivity|]. now left.
  Qed.

  (* end to end over histories with the lookup as it is coded, for ANY token vector (sorted or not):
     the premise on Url tokens of C08_history_code_action_at_published becomes "the tokens lie inside the text" *)
  Variable cfg : Type.
  Variable fill : cfg -> cfg.
  Variable ctx_key : dlint -> doc -> N.
  Variable tokens : doc -> list dtoken.

  Definition url_at_tokens (d : doc) (i : nat) : option span := url_token_at_vec (tokens d) i.

  Theorem history_code_action_at_published_tokens
          (s0 : dstate doc cfg) (h : list (op doc cfg)) (l : dlint) (i : nat) (fs : bool) :
    let d := doc_after doc cfg (ds_doc s0) h in
    let t := source d in
    let vis := visible_lints doc cfg fill ctx_key d (lint_after doc cfg (ds_lint s0) h)
                 (config_after doc cfg (ds_config s0) h) (ignored_after doc cfg ctx_key (ds_doc s0) (ds_ignored s0) h) in
    text_fits_u32 t ->
    Forall (fun x => span_in (length t) (lspan x)) vis ->
    Forall (fun tk => span_in (length t) (tspan tk)) (tokens d) ->
    In l vis -> sstart (lspan l) <= i < send (lspan l) ->
    exists p acts,
      index_to_position_u32 t i = Ok p /\ resolve t p = Some i /\
      snd (step doc source cfg fill ctx_key url_at_tokens (fst (run doc source cfg fill ctx_key url_at_tokens s0 h))
                (OCodeActions (p, p) fs)) = RActions (Ok acts) /\
      In (AIgnore l) acts /\
      forall s, In s (lsugs l) ->
        exists r nt out, In (AEdit r nt (ltag l)) acts /\ span_to_range_u32 t (lspan l) = Ok r /\
                         client_apply t r nt = Some out /\ apply s (lspan l) t = Ok out.
  Proof.
    cbv zeta. intros Hf Hv Ht Hl Hi.
    apply (history_code_action_at_published doc source cfg fill ctx_key url_at_tokens s0 h l i fs Hf Hv); try assumption.
    intros j sp H. unfold url_at_tokens in H. apply url_token_at_vec_in in H.
    destruct H as [tk [Hin [<- _]]]. rewrite Forall_forall in Ht. now apply Ht.
  Qed.
End UrlIrrelevant.
