(* MaskProofs.v — proofs about Model/Mask.v (C04). *)
Require Import Base Mask ListLemmas.
From Coq Require Import ZArith Lia Sorting.Sorted.
Ltac Zify.zify_post_hook ::= Z.to_euclidean_division_equations.

(* ====================================================================================== *)
(** * A. UTF-8 *)

Ltac nb := repeat match goal with
  | |- context [(?a <? ?b)%N] => destruct (N.ltb_spec a b); try lia
  | |- context [(?a <=? ?b)%N] => destruct (N.leb_spec a b); try lia
  end.

Lemma valid_charb_spec c : valid_charb c = true <-> valid_char c.
Proof.
  unfold valid_charb, valid_char. rewrite andb_true_iff, negb_true_iff, andb_false_iff.
  rewrite N.ltb_lt, N.leb_gt, N.ltb_ge. lia.
Qed.

(* shape of one encoded char: a non-continuation lead byte, then continuation bytes only; and the
   decoder reads it back *)
Lemma encode_char_shape c : valid_char c ->
  exists lead conts, encode_char c = lead :: conts /\ is_cont lead = false /\
    forallb is_cont conts = true /\ forall rest, decode (lead :: conts ++ rest) = c :: decode rest.
Proof.
  intros [Hlt _]. unfold encode_char.
  destruct (N.ltb_spec c 128); [|destruct (N.ltb_spec c 2048); [|destruct (N.ltb_spec c 65536)]].
  - exists c, []. split; [reflexivity|]. split; [|split].
    + unfold is_cont; nb; try reflexivity.
    + reflexivity.
    + intros rest. cbn [app decode]; nb; try reflexivity.
  - exists (192 + c / 64)%N, [128 + c mod 64]%N. split; [reflexivity|]. split; [|split].
    + unfold is_cont; nb; try reflexivity.
    + cbn [forallb]. unfold is_cont; nb; try reflexivity.
    + intros rest. cbn [app decode]; nb; try (f_equal; lia).
  - exists (224 + c / 4096)%N, [128 + (c / 64) mod 64; 128 + c mod 64]%N. split; [reflexivity|]. split; [|split].
    + unfold is_cont; nb; try reflexivity.
    + cbn [forallb]. unfold is_cont; nb; try reflexivity.
    + intros rest. cbn [app decode]; nb; try (f_equal; lia).
  - exists (240 + c / 262144)%N, [128 + (c / 4096) mod 64; 128 + (c / 64) mod 64; 128 + c mod 64]%N.
    split; [reflexivity|]. split; [|split].
    + unfold is_cont; nb; try reflexivity.
    + cbn [forallb]. unfold is_cont; nb; try reflexivity.
    + intros rest. cbn [app decode]; nb; try (f_equal; lia).
Qed.

Lemma encode_cons c t : encode (c :: t) = encode_char c ++ encode t.
Proof. reflexivity. Qed.

Lemma encode_app a b : encode (a ++ b) = encode a ++ encode b.
Proof. unfold encode. apply flat_map_app. Qed.

Theorem decode_encode (t : text) : Forall valid_char t -> decode (encode t) = t.
Proof.
  induction 1 as [|c t Hc _ IH]; [reflexivity|].
  rewrite encode_cons. destruct (encode_char_shape c Hc) as (lead & conts & -> & _ & _ & Hd).
  rewrite <- app_comm_cons, Hd, IH. reflexivity.
Qed.

Lemma count_chars_app a b : count_chars (a ++ b) = count_chars a + count_chars b.
Proof. unfold count_chars. now rewrite filter_app, app_length. Qed.

Lemma count_chars_conts l : forallb is_cont l = true -> count_chars l = 0.
Proof.
  unfold count_chars. induction l as [|x l IH]; [reflexivity|]. cbn [forallb filter].
  intros H. apply andb_true_iff in H as [-> H]. cbn. auto.
Qed.

Lemma count_chars_encode_char c : valid_char c -> count_chars (encode_char c) = 1.
Proof.
  intros Hc. destruct (encode_char_shape c Hc) as (lead & conts & -> & Hl & Hcs & _).
  change (lead :: conts) with ([lead] ++ conts). rewrite count_chars_app, (count_chars_conts _ Hcs).
  unfold count_chars. cbn [filter]. rewrite Hl. reflexivity.
Qed.

Theorem count_chars_encode (t : text) : Forall valid_char t -> count_chars (encode t) = length t.
Proof.
  induction 1 as [|c t Hc _ IH]; [reflexivity|].
  rewrite encode_cons, count_chars_app, count_chars_encode_char, IH by assumption. reflexivity.
Qed.

Lemma encode_char_len_pos c : valid_char c -> 1 <= length (encode_char c).
Proof. intros Hc. destruct (encode_char_shape c Hc) as (lead & conts & -> & _). cbn. lia. Qed.

(* byte length of the first k chars *)
Definition elen (t : text) (k : nat) : nat := length (encode (firstn k t)).

Lemma elen_0 t : elen t 0 = 0.
Proof. reflexivity. Qed.

Lemma elen_cons c t k : elen (c :: t) (S k) = length (encode_char c) + elen t k.
Proof. unfold elen. cbn [firstn]. now rewrite encode_cons, app_length. Qed.

Lemma elen_all t k : length t <= k -> elen t k = length (encode t).
Proof. intros H. unfold elen. now rewrite firstn_all2. Qed.

Lemma elen_mono (t : text) : Forall valid_char t -> forall j k, j < k <= length t -> elen t j < elen t k.
Proof.
  induction 1 as [|c t Hc _ IH]; intros j k Hjk; cbn in Hjk; [lia|].
  destruct k as [|k]; [lia|]. rewrite elen_cons. pose proof (encode_char_len_pos c Hc).
  destruct j as [|j]; [rewrite elen_0; lia|]. rewrite elen_cons.
  specialize (IH j k). lia.
Qed.

Lemma elen_mono_le (t : text) : Forall valid_char t -> forall j k, j <= k <= length t -> elen t j <= elen t k.
Proof.
  intros Hv j k H. destruct (Nat.eq_dec j k) as [->|]; [lia|].
  pose proof (elen_mono t Hv j k). lia.
Qed.

Lemma firstn_elen t k : firstn (elen t k) (encode t) = encode (firstn k t).
Proof.
  unfold elen. rewrite <- (firstn_skipn k t) at 2. rewrite encode_app.
  rewrite firstn_app, Nat.sub_diag, firstn_all. cbn. apply app_nil_r.
Qed.

Lemma skipn_elen t k : skipn (elen t k) (encode t) = encode (skipn k t).
Proof.
  unfold elen. rewrite <- (firstn_skipn k t) at 2. rewrite encode_app.
  rewrite skipn_app, Nat.sub_diag, skipn_all. reflexivity.
Qed.

Lemma is_boundary_spec bs i :
  is_boundary bs i = true <->
  i = 0 \/ (i = length bs) \/ (exists b, nth_error bs i = Some b /\ is_cont b = false).
Proof.
  unfold is_boundary. destruct i as [|i]; [tauto|].
  destruct (nth_error bs (S i)) as [b|] eqn:E.
  - rewrite negb_true_iff. split.
    + intros H. right. right. eauto.
    + intros [H|[H|(b' & Hb & Hc)]]; [discriminate| |congruence].
      assert (S i < length bs) by (apply nth_error_Some; congruence). lia.
  - rewrite Nat.eqb_eq. split; [tauto|]. intros [H|[H|(b' & Hb & _)]]; [discriminate|assumption|discriminate].
Qed.

Lemma is_boundary_le bs i : is_boundary bs i = true -> i <= length bs.
Proof.
  rewrite is_boundary_spec. intros [->|[->|(b & Hb & _)]]; [lia|lia|].
  apply Nat.lt_le_incl, nth_error_Some. congruence.
Qed.

(* every char boundary of an encoded text is the byte length of a prefix *)
Lemma boundary_is_prefix (t : text) : Forall valid_char t ->
  forall b, is_boundary (encode t) b = true -> exists k, k <= length t /\ b = elen t k.
Proof.
  induction 1 as [|c t Hc Hv IH]; intros b Hb.
  - apply is_boundary_le in Hb. cbn in Hb. exists 0. split; [lia|]. rewrite elen_0. lia.
  - destruct b as [|b]; [exists 0; split; [lia|reflexivity]|].
    destruct (encode_char_shape c Hc) as (lead & conts & Hec & Hl & Hcs & _).
    rewrite is_boundary_spec in Hb. rewrite encode_cons, Hec in Hb.
    assert (Hlen : length conts <= b).
    { destruct Hb as [Hb|[Hb|(x & Hx & Hxc)]]; [discriminate| |].
      - cbn [length app] in Hb. rewrite app_length in Hb. lia.
      - cbn [app nth_error] in Hx. destruct (Nat.lt_ge_cases b (length conts)) as [Hlt|]; [|assumption].
        rewrite nth_error_app1 in Hx by assumption.
        apply nth_error_In in Hx. rewrite forallb_forall in Hcs. rewrite (Hcs x Hx) in Hxc. discriminate. }
    assert (Hb' : is_boundary (encode t) (b - length conts) = true).
    { rewrite is_boundary_spec. destruct Hb as [Hb|[Hb|(x & Hx & Hxc)]]; [discriminate| |].
      - right. left. cbn [length app] in Hb. rewrite app_length in Hb. lia.
      - right. right. exists x. split; [|assumption]. cbn [app nth_error] in Hx.
        rewrite nth_error_app2 in Hx by assumption. assumption. }
    destruct (IH _ Hb') as (k & Hk & Hkb). exists (S k). split; [cbn; lia|].
    rewrite elen_cons, Hec. cbn [length]. lia.
Qed.

Lemma encode_head_not_cont (t : text) : Forall valid_char t ->
  match encode t with [] => True | b :: _ => is_cont b = false end.
Proof.
  destruct 1 as [|c t Hc _]; [exact I|]. rewrite encode_cons.
  destruct (encode_char_shape c Hc) as (lead & conts & -> & Hl & _). exact Hl.
Qed.

(* conversely the byte length of every prefix is a char boundary *)
Lemma prefix_is_boundary (t : text) : Forall valid_char t -> forall k, is_boundary (encode t) (elen t k) = true.
Proof.
  intros Hv k. rewrite is_boundary_spec.
  destruct (Nat.le_gt_cases (length t) k) as [Hk|Hk]; [right; left; now apply elen_all|].
  right. right.
  assert (Hs : Forall valid_char (skipn k t)).
  { rewrite Forall_forall in *. intros x Hx. apply Hv. rewrite <- (firstn_skipn k t). apply in_or_app. now right. }
  pose proof (encode_head_not_cont _ Hs) as Hh. rewrite <- skipn_elen in Hh.
  destruct (skipn (elen t k) (encode t)) as [|b r] eqn:E.
  - exfalso. rewrite skipn_elen in E. destruct (skipn k t) as [|c r] eqn:E2.
    + apply (f_equal (@length _)) in E2. rewrite skipn_length in E2. cbn in E2. lia.
    + inversion Hs as [|? ? Hc _]; subst. rewrite encode_cons in E.
      destruct (encode_char_shape c Hc) as (lead & conts & Hec & _). rewrite Hec in E. discriminate.
  - exists b. split; [|assumption].
    rewrite <- (firstn_skipn (elen t k) (encode t)) at 1. rewrite E.
    rewrite nth_error_app2; rewrite firstn_length_le.
    + now rewrite Nat.sub_diag.
    + apply Nat.lt_le_incl. apply (f_equal (@length _)) in E. rewrite skipn_length in E. cbn in E. lia.
    + lia.
    + apply (f_equal (@length _)) in E. rewrite skipn_length in E. cbn in E. lia.
Qed.

(* C04_utf8_index *)
Theorem utf8_index (t : text) b : Forall valid_char t -> is_boundary (encode t) b = true ->
  exists k, k <= length t /\ firstn b (encode t) = encode (firstn k t) /\
            char_index (encode t) b = k /\ decode (firstn b (encode t)) = firstn k t /\
            length (decode (firstn b (encode t))) = k.
Proof.
  intros Hv Hb. destruct (boundary_is_prefix t Hv b Hb) as (k & Hk & ->). exists k.
  assert (Hvk : Forall valid_char (firstn k t)).
  { rewrite Forall_forall in *. intros x Hx. apply Hv. rewrite <- (firstn_skipn k t). apply in_or_app. now left. }
  split; [assumption|]. split; [apply firstn_elen|]. unfold char_index. rewrite firstn_elen.
  rewrite count_chars_encode, decode_encode by assumption. rewrite firstn_length_le by assumption. auto.
Qed.

(* ====================================================================================== *)
(** * B. byte_spans_to_char_spans *)

Lemma firstn_split {A} (l : list A) : forall a b, a <= b -> firstn b l = firstn a l ++ firstn (b - a) (skipn a l).
Proof.
  induction l as [|x l IH]; intros a b H.
  - now rewrite skipn_nil, !firstn_nil.
  - destruct a as [|a]; [now rewrite Nat.sub_0_r|]. destruct b as [|b]; [lia|].
    cbn [firstn skipn Nat.sub app]. f_equal. apply IH. lia.
Qed.

Lemma char_index_split bs a b : a <= b -> char_index bs b = char_index bs a + count_chars (slice bs a b).
Proof. intros H. unfold char_index, slice. now rewrite (firstn_split bs a b H), count_chars_app. Qed.

Lemma char_index_mono bs a b : a <= b -> char_index bs a <= char_index bs b.
Proof. intros H. rewrite (char_index_split bs a b H). lia. Qed.

Lemma char_index_0 bs : char_index bs 0 = 0.
Proof. reflexivity. Qed.

Lemma str_slice_ok bs a b :
  str_slice bs a b = if (a <=? b) && is_boundary bs a && is_boundary bs b then Ok (slice bs a b) else Panic PIndex.
Proof.
  unfold str_slice. destruct (Nat.ltb_spec b a), (Nat.leb_spec a b); try lia; cbn [orb andb]; [reflexivity|].
  destruct (is_boundary bs a), (is_boundary bs b); reflexivity.
Qed.

Definition cidx (bs : list N) (s : span) : span := mkspan (char_index bs (sstart s)) (char_index bs (send s)).

(* the exact success condition of the conversion loop *)
Fixpoint b2c_okb (bs : list N) (last : nat) (l : list span) : bool :=
  match l with
  | [] => true
  | s :: t => (last <=? sstart s) && is_boundary bs last && is_boundary bs (sstart s)
              && ((sstart s <=? send s) && is_boundary bs (sstart s) && is_boundary bs (send s))
              && b2c_okb bs (send s) t
  end.

Lemma b2c_loop_spec bs : forall l last lc, lc = char_index bs last ->
  b2c_loop bs last lc l = if b2c_okb bs last l then Ok (map (cidx bs) l) else Panic PIndex.
Proof.
  induction l as [|s t IH]; intros last lc Hlc; [reflexivity|].
  cbn [b2c_loop b2c_okb map]. rewrite !str_slice_ok.
  destruct ((last <=? sstart s) && is_boundary bs last && is_boundary bs (sstart s)) eqn:E1; cbn [bind andb]; [|reflexivity].
  destruct ((sstart s <=? send s) && is_boundary bs (sstart s) && is_boundary bs (send s)) eqn:E2; cbn [bind andb]; [|reflexivity].
  apply andb_true_iff in E1 as [E1 _]. apply andb_true_iff in E1 as [E1 _]. apply Nat.leb_le in E1.
  apply andb_true_iff in E2 as [E2 _]. apply andb_true_iff in E2 as [E2 _]. apply Nat.leb_le in E2.
  assert (H1 : lc + count_chars (slice bs last (sstart s)) = char_index bs (sstart s)).
  { subst lc. symmetry. now apply char_index_split. }
  assert (H2 : lc + count_chars (slice bs last (sstart s)) + count_chars (slice bs (sstart s) (send s)) = char_index bs (send s)).
  { rewrite H1. symmetry. now apply char_index_split. }
  rewrite (IH (send s) _ H2). destruct (b2c_okb bs (send s) t); cbn [bind]; [|reflexivity].
  unfold cidx at 2. now rewrite H2, H1.
Qed.

(* the function on ANY input: sort, drop every span that overlaps its predecessor in the sorted list,
   then convert; it panics exactly when the remaining spans are not an ordered chain on char
   boundaries (e.g. a span nested in an earlier one but not overlapping its immediate predecessor) *)
Theorem b2c_exact bs l :
  byte_spans_to_char_spans bs l =
  let k := filter_prev None (ssort l) in
  if b2c_okb bs 0 k then Ok (map (cidx bs) k) else Panic PIndex.
Proof. unfold byte_spans_to_char_spans. now rewrite (b2c_loop_spec bs _ 0 0 eq_refl). Qed.

Lemma chain_ok_cons a b t : chain_ok (a :: b :: t) = (send a <=? sstart b) && chain_ok (b :: t).
Proof. reflexivity. Qed.

Lemma ssort_chain l : Forall span_wf l -> chain_ok l = true -> ssort l = l.
Proof.
  induction l as [|a t IH]; intros Hwf Hc; [reflexivity|].
  inversion Hwf as [|? ? Ha Ht]; subst. cbn [ssort].
  destruct t as [|b t']; [reflexivity|]. rewrite chain_ok_cons in Hc. apply andb_true_iff in Hc as [Hab Hc].
  rewrite (IH Ht Hc). cbn [sinsert]. apply Nat.leb_le in Hab. unfold span_wf in Ha.
  destruct (Nat.leb_spec (sstart a) (sstart b)); [reflexivity|lia].
Qed.

Lemma filter_prev_chain : forall l p, Forall span_wf l ->
  chain_ok (match p with Some x => x :: l | None => l end) = true -> filter_prev p l = l.
Proof.
  induction l as [|a t IH]; intros p Hwf Hc; [reflexivity|].
  inversion Hwf as [|? ? Ha Ht]; subst. cbn [filter_prev].
  assert (Hk : match p with None => true | Some q => negb (overlaps a q) end = true).
  { destruct p as [q|]; [|reflexivity]. rewrite chain_ok_cons in Hc. apply andb_true_iff in Hc as [Hqa _].
    apply Nat.leb_le in Hqa. unfold overlaps. destruct (Nat.ltb_spec (sstart a) (send q)); [lia|reflexivity]. }
  rewrite Hk. f_equal. apply IH; [assumption|].
  destruct p as [q|]; [|assumption]. rewrite chain_ok_cons in Hc. now apply andb_true_iff in Hc as [_ Hc].
Qed.

Definition on_boundaries (bs : list N) (s : span) : Prop :=
  is_boundary bs (sstart s) = true /\ is_boundary bs (send s) = true.

Lemma b2c_okb_chain bs : forall l last, is_boundary bs last = true ->
  Forall span_wf l -> Forall (on_boundaries bs) l ->
  chain_ok l = true -> (match l with [] => True | s :: _ => last <= sstart s end) -> b2c_okb bs last l = true.
Proof.
  induction l as [|s t IH]; intros last Hl Hwf Hb Hc Hfirst; [reflexivity|].
  inversion Hwf as [|? ? Hs Ht]; subst. inversion Hb as [|? ? [Hb1 Hb2] Hbt]; subst.
  cbn [b2c_okb]. rewrite Hl, Hb1, Hb2. unfold span_wf in Hs.
  destruct (Nat.leb_spec last (sstart s)); [|lia]. destruct (Nat.leb_spec (sstart s) (send s)); [|lia].
  cbn [andb]. apply IH; try assumption.
  - destruct t as [|b t']; [reflexivity|]. rewrite chain_ok_cons in Hc. now apply andb_true_iff in Hc as [_ Hc].
  - destruct t as [|b t']; [exact I|]. rewrite chain_ok_cons in Hc. apply andb_true_iff in Hc as [Hc _]. now apply Nat.leb_le in Hc.
Qed.

(* the text denoted by a byte span on boundaries is the text denoted by its char span *)
Lemma slice_encode (t : text) ka kb : ka <= kb <= length t ->
  slice (encode t) (elen t ka) (elen t kb) = encode (slice t ka kb).
Proof.
  intros H. unfold slice at 1. rewrite skipn_elen.
  assert (Hs : skipn ka t = slice t ka kb ++ skipn kb t).
  { unfold slice. rewrite <- (firstn_skipn (kb - ka) (skipn ka t)) at 1. f_equal. rewrite skipn_skipn. f_equal. lia. }
  assert (Hl : elen t kb = elen t ka + length (encode (slice t ka kb))).
  { unfold elen. rewrite (firstn_split t ka kb) by lia. now rewrite encode_app, app_length. }
  rewrite Hs, encode_app, Hl. replace (elen t ka + length (encode (slice t ka kb)) - elen t ka) with (length (encode (slice t ka kb)) + 0) by lia.
  rewrite firstn_app_2. cbn. apply app_nil_r.
Qed.

Lemma cidx_denotes (t : text) s : Forall valid_char t -> span_wf s -> on_boundaries (encode t) s ->
  sstart (cidx (encode t) s) <= send (cidx (encode t) s) <= length t /\
  encode (slice t (sstart (cidx (encode t) s)) (send (cidx (encode t) s))) = slice (encode t) (sstart s) (send s) /\
  elen t (sstart (cidx (encode t) s)) = sstart s /\ elen t (send (cidx (encode t) s)) = send s.
Proof.
  intros Hv Hwf [Ha Hb]. unfold span_wf in Hwf.
  destruct (utf8_index t _ Hv Ha) as (ka & Hka & _ & Hia & _).
  destruct (utf8_index t _ Hv Hb) as (kb & Hkb & _ & Hib & _).
  destruct (boundary_is_prefix t Hv _ Ha) as (ka' & Hka' & Ea).
  destruct (boundary_is_prefix t Hv _ Hb) as (kb' & Hkb' & Eb).
  assert (ka = ka').
  { rewrite <- Hia. unfold char_index. rewrite Ea, firstn_elen, count_chars_encode.
    - now rewrite firstn_length_le.
    - rewrite Forall_forall in *. intros x Hx. apply Hv. rewrite <- (firstn_skipn ka' t). apply in_or_app. now left. }
  assert (kb = kb').
  { rewrite <- Hib. unfold char_index. rewrite Eb, firstn_elen, count_chars_encode.
    - now rewrite firstn_length_le.
    - rewrite Forall_forall in *. intros x Hx. apply Hv. rewrite <- (firstn_skipn kb' t). apply in_or_app. now left. }
  subst ka' kb'. cbn [cidx sstart send]. rewrite Hia, Hib.
  assert (ka <= kb).
  { destruct (Nat.le_gt_cases ka kb); [assumption|]. pose proof (elen_mono t Hv kb ka). lia. }
  split; [lia|]. split; [|split; congruence]. rewrite Ea, Eb. symmetry. apply slice_encode. lia.
Qed.

Lemma chain_ok_map_cidx bs : forall l, Forall span_wf l -> chain_ok l = true -> chain_ok (map (cidx bs) l) = true.
Proof.
  induction l as [|a t IH]; intros Hwf Hc; [reflexivity|]. inversion Hwf; subst.
  destruct t as [|b t']; [reflexivity|]. cbn [map]. rewrite chain_ok_cons in *.
  apply andb_true_iff in Hc as [Hab Hc]. apply andb_true_iff. split; [|now apply IH].
  apply Nat.leb_le. apply Nat.leb_le in Hab. cbn [cidx sstart send]. now apply char_index_mono.
Qed.

(* C04_byte_to_char_spans *)
Theorem b2c_sorted_disjoint (t : text) l :
  Forall valid_char t -> Forall span_wf l -> chain_ok l = true -> Forall (on_boundaries (encode t)) l ->
  exists l', byte_spans_to_char_spans (encode t) l = Ok l' /\
    Forall2 (fun s s' => sstart s' <= send s' <= length t /\
                         encode (slice t (sstart s') (send s')) = slice (encode t) (sstart s) (send s) /\
                         elen t (sstart s') = sstart s /\ elen t (send s') = send s) l l' /\
    chain_ok l' = true.
Proof.
  intros Hv Hwf Hc Hb. exists (map (cidx (encode t)) l). split; [|split].
  - rewrite b2c_exact. cbv zeta. rewrite (ssort_chain l Hwf Hc), (filter_prev_chain l None Hwf Hc).
    rewrite b2c_okb_chain; try assumption; [reflexivity|reflexivity|]. destruct l; [exact I|lia].
  - clear Hc. induction l as [|s l IH]; [constructor|].
    inversion Hwf; subst. inversion Hb; subst. cbn [map]. constructor; [|now apply IH].
    now apply cidx_denotes.
  - now apply chain_ok_map_cidx.
Qed.

(* the quirk: the overlap filter looks at the immediate predecessor of the SORTED list only, so a
   second span nested in an earlier one survives and the conversion slices backwards: panic *)
Lemma b2c_nested_panics :
  byte_spans_to_char_spans (encode [97;98;99;100;101;102;103;104;105;106]%N)
    [mkspan 0 10; mkspan 2 4; mkspan 5 8] = Panic PIndex.
Proof. vm_compute. reflexivity. Qed.

(* ====================================================================================== *)
(** * C. parsers::Mask::parse *)

Lemma slice_slice {A} (l : list A) a b x y : x <= y -> a + y <= b ->
  slice (slice l a b) x y = slice l (a + x) (a + y).
Proof.
  intros Hxy Hb. unfold slice. rewrite skipn_firstn_comm, firstn_firstn, skipn_skipn.
  replace (Nat.min (y - x) (b - a - x)) with (y - x) by lia.
  replace (a + y - (a + x)) with (y - x) by lia. f_equal. f_equal. lia.
Qed.

Lemma slice_length {A} (l : list A) a b : a <= b <= length l -> length (slice l a b) = b - a.
Proof. intros H. unfold slice. rewrite firstn_length, skipn_length. lia. Qed.

Lemma get_content_in {A} (src : list A) s : span_wf s -> send s <= length src ->
  get_content s src = Ok (slice src (sstart s) (send s)).
Proof.
  unfold span_wf, get_content, try_get_content, span_len, sub_chk. intros Hwf Hin.
  destruct (Nat.ltb_spec (send s) (sstart s)); [lia|]. cbn [orb].
  destruct (Nat.leb_spec (length src) (sstart s)); cbn [orb bind].
  - assert (send s - sstart s = 0) as -> by lia. cbn. unfold slice.
    replace (send s - sstart s) with 0 by lia. reflexivity.
  - destruct (Nat.ltb_spec (length src) (send s)); [lia|]. reflexivity.
Qed.

Fixpoint ordered_from (lo : nat) (l : list span) : Prop :=
  match l with
  | [] => True
  | s :: t => lo <= sstart s /\ sstart s <= send s /\ ordered_from (send s) t
  end.

Lemma ordered_from_weaken : forall l lo lo', lo' <= lo -> ordered_from lo l -> ordered_from lo' l.
Proof. destruct l as [|s t]; cbn; intros; [exact I|]. intuition lia. Qed.

Lemma ordered_from_app : forall a lo hi b,
  ordered_from lo a -> Forall (fun s => send s <= hi) a -> lo <= hi -> ordered_from hi b -> ordered_from lo (a ++ b).
Proof.
  induction a as [|s a IH]; intros lo hi b Ha Hhi Hlo Hb; cbn [app].
  - now apply (ordered_from_weaken b hi lo).
  - cbn in Ha. destruct Ha as (H1 & H2 & H3). inversion Hhi; subst. cbn. repeat split; try assumption.
    apply (IH _ hi); try assumption.
Qed.

Lemma ordered_from_push : forall l lo by_, ordered_from lo l -> ordered_from (lo + by_) (map (fun s => push_by s by_) l).
Proof. induction l as [|s t IH]; intros lo by_ H; cbn in *; [exact I|]. destruct H as (H1 & H2 & H3). repeat split; try lia. now apply IH. Qed.

Lemma ordered_from_chain : forall l lo, ordered_from lo l -> chain_ok l = true /\ Forall span_wf l.
Proof.
  induction l as [|a t IH]; intros lo H; [split; [reflexivity|constructor]|].
  cbn in H. destruct H as (H1 & H2 & H3). destruct (IH _ H3) as [Hc Hw]. split; [|constructor; assumption].
  destruct t as [|b t']; [reflexivity|]. rewrite chain_ok_cons, Hc. cbn in H3. destruct H3 as [H3 _].
  apply Nat.leb_le in H3. now rewrite H3.
Qed.

Section MaskParseProofs.
  Variable inner : text -> list tok.
  (* contract of the wrapped parser, needed for faithfulness (monitored on the real parsers by the
     harness: `inner_in_bounds_violated`): its tokens are well-formed spans inside the slice it was given *)
  Hypothesis inner_wf : forall c t0, In t0 (inner c) -> sstart (tspan t0) <= send (tspan t0).
  Hypothesis inner_in_bounds : forall c t0, In t0 (inner c) -> send (tspan t0) <= length c.

  Definition from_inner (src : text) (m : list span) (tk : tok) : Prop :=
    exists sp t0, In sp m /\ In t0 (inner (slice src (sstart sp) (send sp))) /\ tk = tpush (sstart sp) t0 /\
      sstart sp <= sstart (tspan tk) /\ sstart (tspan tk) <= send (tspan tk) /\ send (tspan tk) <= send sp /\
      slice src (sstart (tspan tk)) (send (tspan tk))
      = slice (slice src (sstart sp) (send sp)) (sstart (tspan t0)) (send (tspan t0)).

  Definition gap_break (src : text) (m : list span) (tk : tok) : Prop :=
    tkind tk = K_PARBREAK /\
    exists pre a b post, m = pre ++ a :: b :: post /\ tspan tk = mkspan (send a) (sstart b) /\
                         In 10%N (slice src (send a) (sstart b)).

  Definition mask_wf (n : nat) (m : list span) : Prop :=
    ordered_from 0 m /\ Forall (fun s => send s <= n) m.

  Lemma existsb_nl c : existsb (fun x => (x =? 10)%N) c = true -> In 10%N c.
  Proof. rewrite existsb_exists. intros (x & Hx & He). apply N.eqb_eq in He. now subst. Qed.

  Lemma mask_parse_loop_spec src : forall m last,
    let full := match last with Some la => la :: m | None => m end in
    let lo := match last with Some la => send la | None => 0 end in
    ordered_from lo m -> Forall (fun s => send s <= length src) m ->
    exists toks, mask_parse_loop inner src last m = Ok toks /\
      Forall (fun tk => from_inner src full tk \/ gap_break src full tk) toks.
  Proof.
    induction m as [|sp t IH]; intros last full lo Hord Hin.
    - exists []. cbn. split; constructor.
    - cbn in Hord. destruct Hord as (Hlo & Hwf & Hord). inversion Hin as [|? ? Hsp Hin']; subst.
      cbn [mask_parse_loop]. rewrite (get_content_in src sp Hwf Hsp). cbn [bind].
      destruct (IH (Some sp) Hord Hin') as (rest & Hrest & HP). cbv zeta in HP.
      set (content := slice src (sstart sp) (send sp)) in *.
      assert (Hclen : length content = send sp - sstart sp) by (apply slice_length; lia).
      assert (Hnew : Forall (fun tk => from_inner src full tk) (map (tpush (sstart sp)) (inner content))).
      { rewrite Forall_forall. intros tk Htk. apply in_map_iff in Htk as (t0 & <- & Ht0).
        pose proof (inner_in_bounds _ _ Ht0) as Hb. pose proof (inner_wf _ _ Ht0) as Hw. rewrite Hclen in Hb.
        exists sp, t0. cbn [tpush tspan push_by sstart send].
        repeat split; try lia.
        - subst full. destruct last; [right; left|left]; reflexivity.
        - exact Ht0.
        - unfold content. rewrite slice_slice by lia. f_equal; lia. }
      assert (Hlift : Forall (fun tk => from_inner src full tk \/ gap_break src full tk) rest).
      { rewrite Forall_forall in *. intros tk Htk. destruct (HP tk Htk) as [(s0 & t0 & Hs0 & Hr)|(Hk & pre & a & b & post & Hm & Hr)].
        - left. exists s0, t0. split; [|exact Hr]. subst full. destruct last; [right|]; exact Hs0.
        - right. split; [assumption|]. subst full. destruct last as [la|].
          + exists (la :: pre), a, b, post. rewrite Hm. split; [reflexivity|assumption].
          + exists pre, a, b, post. split; assumption. }
      destruct last as [la|].
      + unfold span_new. destruct (Nat.ltb_spec (sstart sp) (send la)); [lia|]. cbn [bind].
        rewrite (get_content_in src (mkspan (send la) (sstart sp))) by (unfold span_wf; cbn; lia). cbn [bind sstart send].
        rewrite Hrest. cbn [bind].
        eexists. split; [reflexivity|].
        apply Forall_app. split; [|apply Forall_app; split; [|assumption]].
        * destruct (existsb _ _) eqn:Enl; [|constructor]. constructor; [|constructor]. right. split; [reflexivity|].
          exists [], la, sp, t. split; [reflexivity|]. split; [reflexivity|]. now apply existsb_nl.
        * eapply Forall_impl; [|exact Hnew]. intros; now left.
      + rewrite Hrest. cbn [bind app].
        eexists. split; [reflexivity|].
        apply Forall_app. split; [|assumption]. eapply Forall_impl; [|exact Hnew]. intros; now left.
  Qed.

  (* C04_mask_faithful *)
  Theorem mask_parse_faithful src m : mask_wf (length src) m ->
    exists toks, mask_parse inner src m = Ok toks /\
      Forall (fun tk => from_inner src m tk \/ gap_break src m tk) toks.
  Proof. intros [Ho Hb]. exact (mask_parse_loop_spec src m None Ho Hb). Qed.

  (* ordering: needs the wrapped parser to deliver its tokens in order (C02's property; monitored as
     `inner_order_violated`, where Markdown's zero-width ParagraphBreak tokens are counted) *)
  Hypothesis inner_ordered : forall c, ordered_from 0 (map tspan (inner c)).

  Lemma mask_parse_loop_ordered src : forall m last toks,
    let lo := match last with Some la => send la | None => 0 end in
    ordered_from lo m -> Forall (fun s => send s <= length src) m ->
    mask_parse_loop inner src last m = Ok toks -> ordered_from lo (map tspan toks).
  Proof.
    induction m as [|sp t IH]; intros last toks lo Hord Hin Hrun.
    - cbn in Hrun. inversion Hrun. exact I.
    - cbn in Hord. destruct Hord as (Hlo & Hwf & Hord). inversion Hin as [|? ? Hsp Hin']; subst.
      cbn [mask_parse_loop] in Hrun. rewrite (get_content_in src sp Hwf Hsp) in Hrun. cbn [bind] in Hrun.
      set (content := slice src (sstart sp) (send sp)) in *.
      assert (Hclen : length content = send sp - sstart sp) by (apply slice_length; lia).
      assert (HnewO : ordered_from (sstart sp) (map tspan (map (tpush (sstart sp)) (inner content)))).
      { rewrite map_map. cbn [tpush tspan].
        replace (map (fun x => push_by (tspan x) (sstart sp)) (inner content))
          with (map (fun s => push_by s (sstart sp)) (map tspan (inner content))) by (now rewrite map_map).
        apply (ordered_from_push _ 0 (sstart sp)). apply inner_ordered. }
      assert (HnewB : Forall (fun s => send s <= send sp) (map tspan (map (tpush (sstart sp)) (inner content)))).
      { rewrite Forall_forall. intros s Hs. apply in_map_iff in Hs as (tk & <- & Htk).
        apply in_map_iff in Htk as (t0 & <- & Ht0). pose proof (inner_in_bounds _ _ Ht0) as Hb. rewrite Hclen in Hb.
        pose proof (inner_wf _ _ Ht0). cbn [tpush tspan push_by send]. lia. }
      destruct last as [la|].
      + unfold span_new in Hrun. destruct (Nat.ltb_spec (sstart sp) (send la)); [lia|]. cbn [bind] in Hrun.
        rewrite (get_content_in src (mkspan (send la) (sstart sp))) in Hrun by (unfold span_wf; cbn; lia).
        cbn [bind sstart send] in Hrun.
        destruct (mask_parse_loop inner src (Some sp) t) as [rest|] eqn:Hrest; cbn [bind] in Hrun; [|discriminate].
        pose proof (IH (Some sp) rest Hord Hin' Hrest) as HO. cbv zeta in HO.
        inversion Hrun; subst toks. rewrite !map_app.
        assert (Hrest2 : ordered_from (sstart sp) (map tspan (map (tpush (sstart sp)) (inner content)) ++ map tspan rest)).
        { apply (ordered_from_app _ _ (send sp)); assumption. }
        destruct (existsb _ _); cbn [map app].
        * cbn [ordered_from tspan sstart send]. repeat split; try lia. exact Hrest2.
        * apply (ordered_from_weaken _ (sstart sp)); [lia|exact Hrest2].
      + destruct (mask_parse_loop inner src (Some sp) t) as [rest|] eqn:Hrest; cbn [bind] in Hrun; [|discriminate].
        pose proof (IH (Some sp) rest Hord Hin' Hrest) as HO. cbv zeta in HO.
        inversion Hrun; subst toks. cbn [app]. rewrite map_app.
        apply (ordered_from_weaken _ (sstart sp)); [lia|].
        apply (ordered_from_app _ _ (send sp)); assumption.
  Qed.

  Theorem mask_parse_ordered src m toks : mask_wf (length src) m ->
    mask_parse inner src m = Ok toks -> ordered_from 0 (map tspan toks).
  Proof. intros [Ho Hb]. exact (mask_parse_loop_ordered src m None toks Ho Hb). Qed.
End MaskParseProofs.
