(* C09SeqProofs.v — C09, one handler at a time, every kind of message, NO side condition on the history.
   Part 1: the big-step specification `sstep` (Model/C09Seq.v) is what `run_op` (Model/Server.v: the handler's
   instrs run to completion) computes on every world a sequential history can reach (`GShape`); the last word of
   every document is always what doc_state would publish now (`word`). *)
Require Import Base Server ServerLemmas ServerSeq C09Seq.

(* the shape every handler leaves an entry in: language with a parser, dictionary = files (as loaded last
   time) + identifiers of the installed text, document parsed with that dictionary, linter configuration
   current; text, parser settings, ignore list, version arbitrary *)
Definition wf_entry (c : cfg) (e : entry) : Prop :=
  exists lg t B p ign v, kind lg <> KNone /\ dv_ident B = 0 /\
    e = mkentry (Some lg) (with_ident B (idof lg t)) (idof lg t) c (Some t) p ign B (with_ident B (idof lg t)) (Some v).

Record GShape (w : world) : Prop := mkGShape {
  gs_lock : s_lock w = false;
  gs_dlock : s_dlock w = false;
  gs_cfg : s_cfg w = w_ccfg w;
  gs_wf : forall u e, lookup u (s_docs w) = Some e -> wf_entry (w_ccfg w) e
}.

Definition word (w : world) (u : url) : Prop := lastword w u = pubval w u.

(* ---------- world equalities ---------- *)
Lemma set_scfg_id : forall w, s_cfg w = w_ccfg w -> set_scfg (w_ccfg w) w = w.
Proof. intros [] H; cbn in *; subst; reflexivity. Qed.

Lemma remove_absent : forall {V} u (m : list (url * V)), lookup u m = None -> remove u m = m.
Proof.
  induction m as [|[k v] m IH]; cbn; intro H; [reflexivity|].
  destruct (url_eqb u k); [discriminate|]. f_equal. apply IH, H.
Qed.

Lemma stale_none : forall nv, stale nv None = false.
Proof. destruct nv; reflexivity. Qed.

Lemma has_parser_kind : forall lg, sq_has_parser lg = true <-> kind lg <> KNone.
Proof. intro lg. unfold sq_has_parser. destruct (kind lg); split; intro H; congruence. Qed.

(* ---------- update_document = sq_install ---------- *)
Lemma install_eq : forall w u t lgo nv, GShape w -> (lgo = None \/ exists v, nv = Some v) ->
  installed w u t lgo nv = sq_install w u t lgo nv.
Proof.
  intros w u t lgo nv G Harg. unfold installed, sq_install, outdated.
  destruct (lookup u (s_docs w)) as [e|] eqn:Ee.
  - destruct (gs_wf w G u e Ee) as (lg & t0 & B & p & ign & v0 & Hk & HB & ->). cbn [e_ver].
    destruct (stale nv (Some v0)) eqn:Es; [reflexivity|].
    rewrite (upd_entry_spec w u t lgo nv lg B (idof lg t0) (w_ccfg w) (Some t0) p ign (with_ident B (idof lg t0)) v0 Ee Hk
               (idof_plain lg t0) (fun _ => eq_refl) Es).
    unfold reinstall. cbn [e_lang e_ign e_ver]. destruct nv; reflexivity.
  - cbn [new_entry e_ver]. rewrite stale_none.
    destruct Harg as [->|[v ->]].
    + rewrite upd_entry_absent by exact Ee. rewrite remove_absent by exact Ee. destruct nv; reflexivity.
    + destruct lgo as [lg|].
      * rewrite upd_entry_new by exact Ee. unfold sq_has_parser, first_entry.
        destruct (kind lg) eqn:Ek; try reflexivity. apply remove_absent, Ee.
      * rewrite upd_entry_absent by exact Ee. apply remove_absent, Ee.
Qed.

Lemma upd_pub_big : forall f rest l w w' t, GShape w -> l_text l = Some t ->
  (l_lang l = None \/ exists v, l_ver l = Some v) ->
  run_prog f (update_seq ++ IPublish :: rest) l w = Some w' ->
  exists f' l', run_prog f' rest l' (update_publish (l_url l) t (l_lang l) (l_ver l) w) = Some w' /\
                l_url l' = l_url l /\ l_queue l' = l_queue l.
Proof.
  intros f rest l w w' t G Ht Harg H.
  destruct (upd_pub_run f rest l w w' t (gs_lock w G) Ht H) as (f' & l' & H1 & A & B).
  exists f', l'. split; [|split; assumption].
  rewrite (set_scfg_id w (gs_cfg w G)), (install_eq w (l_url l) t (l_lang l) (l_ver l) G Harg) in H1. exact H1.
Qed.

(* update_document_from_file + publish_diagnostics = reread *)
Lemma reread_big : forall f rest l w w', GShape w ->
  run_prog f (IReadFile :: IPublish :: rest) l w = Some w' ->
  exists f' l', run_prog f' rest l' (reread (l_url l) w) = Some w' /\ l_url l' = l_url l /\ l_queue l' = l_queue l.
Proof.
  intros f rest l w w' G H. fuel_step H. cbn [exec] in H. unfold reread, disk_text.
  destruct (is_file (l_url l)) eqn:Ef.
  - destruct (lookup (l_url l) (w_disk w)) as [t|] eqn:Ed.
    + set (l1 := lset_ver None (lset_lang None (lset_text (Some t) l))) in *.
      destruct (upd_pub_big _ rest l1 w w' t G eq_refl (or_introl eq_refl) H) as (f' & l' & H1 & A & B).
      exists f', l'. split; [exact H1|]. split; [exact A|exact B].
    + cbn [app] in H. fuel_step H. cbn [exec] in H. rewrite (gs_lock w G) in H. cbn [app] in H.
      exists f, l. split; [exact H|split; reflexivity].
  - cbn [app] in H. fuel_step H. cbn [exec] in H. rewrite (gs_lock w G) in H. cbn [app] in H.
    exists f, l. split; [exact H|split; reflexivity].
Qed.

(* ---------- GShape and `word` along the pieces of sstep ---------- *)
Lemma wf_reinstall : forall w u e t nv, wf_entry (w_ccfg w) e -> wf_entry (w_ccfg w) (reinstall w u e t nv).
Proof.
  intros w u e t nv (lg & t0 & B & p & ign & v0 & Hk & HB & ->). unfold reinstall. cbn [e_lang e_ign e_ver].
  exists lg, t, (sq_dict w u), (w_ccfg w), ign, (match nv with Some n => n | None => v0 end).
  split; [exact Hk|]. split; [reflexivity|]. destruct nv; reflexivity.
Qed.

Lemma gshape_docs : forall w d, GShape w -> (forall u e, lookup u d = Some e -> wf_entry (w_ccfg w) e) -> GShape (set_docs d w).
Proof. intros w d G H. constructor; [exact (gs_lock w G)|exact (gs_dlock w G)|exact (gs_cfg w G)|exact H]. Qed.

Lemma gshape_send : forall w u p, GShape w -> GShape (send u p w).
Proof. intros w u p G. constructor; [exact (gs_lock w G)|exact (gs_dlock w G)|exact (gs_cfg w G)|exact (gs_wf w G)]. Qed.

Lemma lookup_install : forall w u t lgo nv v, v <> u -> lookup v (sq_install w u t lgo nv) = lookup v (s_docs w).
Proof.
  intros w u t lgo nv v Hv. apply url_eqb_neq in Hv. unfold sq_install.
  destruct (lookup u (s_docs w)) as [e|].
  - destruct (stale nv (e_ver e)); [reflexivity|apply lookup_upsert_neq, Hv].
  - destruct lgo as [lg|]; [|reflexivity]. destruct nv; [|reflexivity].
    destruct (sq_has_parser lg); [apply lookup_upsert_neq, Hv|reflexivity].
Qed.

Lemma gshape_install : forall w u t lgo nv, GShape w -> GShape (set_docs (sq_install w u t lgo nv) w).
Proof.
  intros w u t lgo nv G. apply gshape_docs; [exact G|]. intros v e He.
  destruct (url_eq_dec v u) as [->|Hv]; [|rewrite lookup_install in He by exact Hv; exact (gs_wf w G v e He)].
  unfold sq_install in He. destruct (lookup u (s_docs w)) as [e0|] eqn:E0.
  - destruct (stale nv (e_ver e0)); [rewrite E0 in He; inversion He; subst; exact (gs_wf w G u e E0)|].
    rewrite lookup_upsert_eq in He. inversion He; subst. apply wf_reinstall, (gs_wf w G u e0 E0).
  - destruct lgo as [lg|]; [|congruence]. destruct nv as [n|]; [|congruence].
    destruct (sq_has_parser lg) eqn:Ep; [|congruence]. rewrite lookup_upsert_eq in He. inversion He; subst.
    exists lg, t, (sq_dict w u), (w_ccfg w), [], n. split; [apply has_parser_kind, Ep|]. split; reflexivity.
Qed.

(* publishing u makes u's last word right and leaves the others' alone *)
Lemma publish_props : forall w u,
  word (publish u w) u /\ forall v, v <> u -> lastword (publish u w) v = lastword w v /\ pubval (publish u w) v = pubval w v.
Proof.
  intros w u. unfold word, publish. split.
  - rewrite lastword_send, url_eqb_refl. reflexivity.
  - intros v Hv. apply url_eqb_neq in Hv. rewrite lastword_send, Hv. split; reflexivity.
Qed.

Lemma pubval_docs_neq : forall w d v, lookup v d = lookup v (s_docs w) -> pubval (set_docs d w) v = pubval w v.
Proof. intros w d v H. unfold pubval. cbn [s_docs set_docs s_cfg]. rewrite H. reflexivity. Qed.

Lemma update_publish_props : forall w u t lgo nv, GShape w ->
  GShape (update_publish u t lgo nv w) /\ word (update_publish u t lgo nv w) u /\
  forall v, v <> u -> lastword (update_publish u t lgo nv w) v = lastword w v /\ pubval (update_publish u t lgo nv w) v = pubval w v.
Proof.
  intros w u t lgo nv G. unfold update_publish.
  destruct (publish_props (set_docs (sq_install w u t lgo nv) w) u) as [A B].
  split; [apply gshape_send, gshape_install, G|]. split; [exact A|].
  intros v Hv. destruct (B v Hv) as [B1 B2]. split; [exact B1|].
  rewrite B2. apply pubval_docs_neq, lookup_install, Hv.
Qed.

Lemma reread_props : forall w u, GShape w ->
  GShape (reread u w) /\ word (reread u w) u /\
  forall v, v <> u -> lastword (reread u w) v = lastword w v /\ pubval (reread u w) v = pubval w v.
Proof.
  intros w u G. unfold reread. destruct (disk_text w u) as [t|]; [apply update_publish_props, G|].
  destruct (publish_props w u) as [A B]. split; [apply gshape_send, G|]. split; [exact A|exact B].
Qed.

Record WInv (w : world) : Prop := mkWInv { wi_shape : GShape w; wi_word : forall u, word w u }.

Lemma winv_from : forall w w' u, (forall v, v <> u -> word w v) -> GShape w' -> word w' u ->
  (forall v, v <> u -> lastword w' v = lastword w v /\ pubval w' v = pubval w v) -> WInv w'.
Proof.
  intros w w' u Hw G Hu Hoth. constructor; [exact G|]. intro v.
  destruct (url_eq_dec v u) as [->|Hv]; [exact Hu|]. destruct (Hoth v Hv) as [A B]. unfold word. rewrite A, B. apply Hw, Hv.
Qed.

(* the client's part of a message other than didChangeConfiguration leaves the server alone *)
Definition is_cfgchange (o : op) : bool := match o with CfgChange _ _ => true | _ => false end.

Lemma client_server_same : forall o w,
  s_docs (client_effect o w) = s_docs w /\ s_log (client_effect o w) = s_log w /\ s_cfg (client_effect o w) = s_cfg w /\
  s_lock (client_effect o w) = s_lock w /\ s_dlock (client_effect o w) = s_dlock w /\
  w_udict (client_effect o w) = w_udict w /\ w_fdict (client_effect o w) = w_fdict w /\
  (is_cfgchange o = false -> w_ccfg (client_effect o w) = w_ccfg w).
Proof.
  intros o w. destruct o; cbn [client_effect is_cfgchange];
    repeat match goal with |- context [match ?x with _ => _ end] => destruct x end; repeat split; try reflexivity; discriminate.
Qed.

Lemma client_winv : forall o w, is_cfgchange o = false -> WInv w -> WInv (client_effect o w).
Proof.
  intros o w Hc [G W]. destruct (client_server_same o w) as (Ed & Eg & Ec & El & Edl & _ & _ & Ecc). specialize (Ecc Hc).
  constructor.
  - constructor; [rewrite El; exact (gs_lock w G)|rewrite Edl; exact (gs_dlock w G)|rewrite Ec, Ecc; exact (gs_cfg w G)|].
    intros u e. rewrite Ed, Ecc. exact (gs_wf w G u e).
  - intro u. unfold word, lastword, pubval. rewrite Eg, Ed, Ec. exact (W u).
Qed.

(* dictionary files do not matter to GShape / word *)
Lemma winv_files : forall w w', WInv w ->
  s_docs w' = s_docs w -> s_log w' = s_log w -> s_cfg w' = s_cfg w -> s_lock w' = s_lock w -> s_dlock w' = s_dlock w ->
  w_ccfg w' = w_ccfg w -> WInv w'.
Proof.
  intros w w' [G W] Ed Eg Ec El Edl Ecc. constructor.
  - constructor; [rewrite El; exact (gs_lock w G)|rewrite Edl; exact (gs_dlock w G)|rewrite Ec, Ecc; exact (gs_cfg w G)|].
    intros u e. rewrite Ed, Ecc. exact (gs_wf w G u e).
  - intro u. unfold word, lastword, pubval. rewrite Eg, Ed, Ec. exact (W u).
Qed.

Lemma winv_reread : forall w u, WInv w -> WInv (reread u w).
Proof.
  intros w u [G W]. destruct (reread_props w u G) as (G' & Hu & Hoth).
  exact (winv_from w _ u (fun v _ => W v) G' Hu Hoth).
Qed.

Lemma winv_update_publish : forall w u t lgo nv, WInv w -> WInv (update_publish u t lgo nv w).
Proof.
  intros w u t lgo nv [G W]. destruct (update_publish_props w u t lgo nv G) as (G' & Hu & Hoth).
  exact (winv_from w _ u (fun v _ => W v) G' Hu Hoth).
Qed.

(* ---------- didChangeConfiguration: the loop over doc_state ---------- *)
Definition reread_all (q : list url) (w : world) : world := fold_left (fun w v => reread v w) q w.

Lemma cfg_loop_big : forall q f l w w', l_queue l = q -> GShape w -> run_prog f [ICfgNext] l w = Some w' -> w' = reread_all q w.
Proof.
  induction q as [|v q IH]; intros f l w w' Hq G H.
  - fuel_step H. cbn [exec] in H. rewrite Hq in H. cbn [app] in H. apply run_nil in H. exact H.
  - fuel_step H. cbn [exec] in H. rewrite Hq in H. cbn [app] in H.
    destruct (reread_big _ [ICfgNext] _ w w' G H) as (f' & l' & H1 & _ & Hq').
    cbn [l_url l_queue lset_queue lset_text lset_url] in H1, Hq'.
    cbn [reread_all fold_left]. apply (IH f' l'); [exact Hq'|apply reread_props, G|exact H1].
Qed.

Lemma reread_all_shape : forall q w, GShape w -> GShape (reread_all q w).
Proof. induction q as [|v q IH]; intros w G; [exact G|]. cbn [reread_all fold_left]. apply IH, reread_props, G. Qed.

Lemma reread_all_word : forall q w, GShape w -> (forall v, word w v \/ In v q) -> forall v, word (reread_all q w) v.
Proof.
  induction q as [|x q IH]; intros w G H v.
  - destruct (H v) as [A|[]]. exact A.
  - cbn [reread_all fold_left]. destruct (reread_props w x G) as (G' & Hx & Hoth).
    apply IH; [exact G'|]. intro z. destruct (url_eq_dec z x) as [->|Hz]; [left; exact Hx|].
    destruct (H z) as [A|[A|A]]; [left|congruence|right; exact A].
    destruct (Hoth z Hz) as [B C]. unfold word. rewrite B, C. exact A.
Qed.

(* ---------- sstep is run_op, and preserves WInv ---------- *)
Lemma unlock_eq : forall w, s_lock w = false -> set_lock false (set_lock true w) = w.
Proof. intros [] H; cbn in *; subst; reflexivity. Qed.

Lemma dunlock_udict : forall w X, s_dlock w = false -> set_dlock false (set_udict X (set_dlock true w)) = set_udict X w.
Proof. intros [] X H; cbn in *; subst; reflexivity. Qed.

Lemma dunlock_fdict : forall w X, s_dlock w = false -> set_dlock false (set_fdict X (set_dlock true w)) = set_fdict X w.
Proof. intros [] X H; cbn in *; subst; reflexivity. Qed.

Lemma send_all_eq : forall q w, send_all q w = sq_send_all q w.
Proof. reflexivity. Qed.

Lemma send_all_lock : forall q w b, send_all q (set_lock b w) = set_lock b (send_all q w).
Proof. induction q as [|v q IH]; intros w b; [reflexivity|]. cbn [send_all fold_left]. unfold send_all in IH. rewrite <- IH. reflexivity. Qed.

Theorem sstep_is_run_op : forall o w w', GShape w -> run_op o w = Some w' -> w' = sstep o w.
Proof.
  intros o w w' G H. unfold run_op in H.
  assert (G1 : is_cfgchange o = false -> GShape (client_effect o w)).
  { intro Hc. destruct (client_server_same o w) as (Ed & _ & Ec & El & Edl & _ & _ & Ecc). specialize (Ecc Hc).
    constructor; [rewrite El; exact (gs_lock w G)|rewrite Edl; exact (gs_dlock w G)|rewrite Ec, Ecc; exact (gs_cfg w G)|].
    intros u e. rewrite Ed, Ecc. exact (gs_wf w G u e). }
  destruct o as [u lg t v|u t v|u|u|tg|x u|x u|u k| |c order]; cbn [prog locals_of] in H; unfold sstep.
  - (* didOpen *)
    specialize (G1 eq_refl). set (w1 := client_effect _ w) in *.
    match type of H with run_prog _ _ ?l0 _ = _ =>
      destruct (upd_pub_big _ [] l0 w1 w' t G1 eq_refl (or_intror (ex_intro _ v eq_refl)) H) as (f' & l' & H1 & _ & _) end.
    apply run_nil in H1. exact H1.
  - (* didChange *)
    specialize (G1 eq_refl). set (w1 := client_effect _ w) in *.
    match type of H with run_prog _ _ ?l0 _ = _ =>
      destruct (upd_pub_big _ [] l0 w1 w' t G1 eq_refl (or_introl eq_refl) H) as (f' & l' & H1 & _ & _) end.
    apply run_nil in H1. exact H1.
  - (* didSave *)
    specialize (G1 eq_refl). set (w1 := client_effect _ w) in *.
    destruct (reread_big _ [] _ w1 w' G1 H) as (f' & l' & H1 & _ & _). apply run_nil in H1. exact H1.
  - (* didClose *)
    specialize (G1 eq_refl). set (w1 := client_effect _ w) in *. open_fuel H.
    fuel_step H. cbn [exec] in H. rewrite (gs_lock w1 G1) in H. cbn [app] in H.
    fuel_step H. cbn [exec app] in H. apply run_nil in H. subst w'. cbn [loc0 l_url].
    apply unlock_eq. exact (gs_lock w1 G1).
  - (* didChangeWatchedFiles *)
    specialize (G1 eq_refl). set (w1 := client_effect _ w) in *. open_fuel H.
    fuel_step H. cbn [exec] in H. rewrite (gs_lock w1 G1) in H.
    apply delsend_run in H; [|reflexivity]. destruct H as (f' & l' & H).
    fuel_step H. cbn [exec app] in H. apply run_nil in H. subst w'.
    rewrite send_all_lock. rewrite unlock_eq; [reflexivity|]. rewrite send_all_log. exact (gs_lock w1 G1).
  - (* HarperAddToUserDict *)
    specialize (G1 eq_refl). cbn [client_effect] in *. open_fuel H.
    fuel_step H. cbn [exec] in H. rewrite (gs_dlock w G) in H. cbn [app] in H.
    do 2 (fuel_step H; cbn [exec app] in H).
    cbn [l_word l_ud lset_ud lset_word loc0 w_udict set_dlock] in H. rewrite (dunlock_udict w _ (gs_dlock w G)) in H.
    assert (G2 : GShape (set_udict (add_word x (w_udict w)) w)).
    { constructor; [exact (gs_lock w G)|exact (gs_dlock w G)|exact (gs_cfg w G)|exact (gs_wf w G)]. }
    destruct (reread_big _ [] _ _ w' G2 H) as (f' & l' & H1 & _ & _). apply run_nil in H1. exact H1.
  - (* HarperAddToFileDict *)
    specialize (G1 eq_refl). cbn [client_effect] in *. open_fuel H.
    fuel_step H. cbn [exec] in H. rewrite (gs_dlock w G) in H. cbn [l_url lset_word loc0] in H.
    destruct (is_file u) eqn:Ef.
    + cbn [app] in H. do 2 (fuel_step H; cbn [exec app] in H).
      cbn [l_url l_word l_fd lset_fd lset_word loc0 w_fdict set_dlock] in H.
      change (fdict_of (set_dlock true w) u) with (fdict_of w u) in H.
      rewrite (dunlock_fdict w _ (gs_dlock w G)) in H.
      assert (G2 : GShape (set_fdict (upsert u (add_word x (fdict_of w u)) (w_fdict w)) w)).
      { constructor; [exact (gs_lock w G)|exact (gs_dlock w G)|exact (gs_cfg w G)|exact (gs_wf w G)]. }
      destruct (reread_big _ [] _ _ w' G2 H) as (f' & l' & H1 & _ & _). apply run_nil in H1. exact H1.
    + cbn [app] in H. destruct (reread_big _ [] _ w w' G H) as (f' & l' & H1 & _ & _). apply run_nil in H1. exact H1.
  - (* HarperIgnoreLint *)
    specialize (G1 eq_refl). set (w1 := client_effect _ w) in *. open_fuel H.
    fuel_step H. cbn [exec] in H. rewrite (gs_lock w1 G1) in H. cbn [loc0 l_url] in H.
    destruct (lookup u (s_docs w1)) as [e|].
    + cbn [app] in H. fuel_step H. cbn [exec] in H. cbn [s_lock set_docs] in H. rewrite (gs_lock w1 G1) in H.
      cbn [app l_url loc0] in H. apply run_nil in H. exact H.
    + cbn [app] in H. apply run_nil in H. exact H.
  - (* HarperRecordLint *)
    cbn [client_effect] in *. open_fuel H. fuel_step H. cbn [exec app] in H. apply run_nil in H. exact H.
  - (* didChangeConfiguration *)
    cbn [client_effect] in *. open_fuel H.
    fuel_step H. cbn [exec app] in H. fuel_step H. cbn [exec] in H.
    cbn [s_lock set_scfg set_ccfg s_docs s_cfg] in H. rewrite (gs_lock w G) in H. cbn [app] in H.
    apply (cfg_loop_big _ _ _ _ w' eq_refl) in H; [exact H|].
    constructor; [exact (gs_lock w G)|exact (gs_dlock w G)|reflexivity|].
    intros u e He. cbn [s_docs set_docs w_ccfg set_scfg set_ccfg] in He |- *. rewrite lookup_map_val in He.
    destruct (lookup u (s_docs w)) as [e0|] eqn:E0; [|discriminate]. inversion He; subst.
    destruct (gs_wf w G u e0 E0) as (lg & t0 & B & p & ign & v0 & Hk & HB & ->).
    exists lg, t0, B, p, ign, v0. split; [exact Hk|]. split; [exact HB|reflexivity].
Qed.

(* ---------- WInv is preserved by every message ---------- *)
Lemma wf_add_ign : forall c k e, wf_entry c e -> wf_entry c (e_add_ign k e).
Proof.
  intros c k e (lg & t0 & B & p & ign & v0 & Hk & HB & ->). exists lg, t0, B, p, (ins k ign), v0.
  split; [exact Hk|]. split; [exact HB|reflexivity].
Qed.

Lemma send_all_server : forall q w, s_docs (send_all q w) = s_docs w /\ s_cfg (send_all q w) = s_cfg w /\
  s_lock (send_all q w) = s_lock w /\ s_dlock (send_all q w) = s_dlock w /\ w_ccfg (send_all q w) = w_ccfg w /\
  w_open (send_all q w) = w_open w /\ w_udict (send_all q w) = w_udict w /\ w_fdict (send_all q w) = w_fdict w.
Proof. intros q w. rewrite send_all_log. repeat split; reflexivity. Qed.

Lemma winv_sstep : forall o w, WInv w -> WInv (sstep o w).
Proof.
  intros o w I. unfold sstep.
  destruct o as [u lg t v|u t v|u|u|tg|x u|x u|u k| |c order].
  - apply winv_update_publish, client_winv; [reflexivity|exact I].
  - apply winv_update_publish, client_winv; [reflexivity|exact I].
  - apply winv_reread, client_winv; [reflexivity|exact I].
  - (* didClose *)
    pose proof (client_winv (Close u) w eq_refl I) as [G W]. set (w1 := client_effect _ w) in *.
    constructor.
    + constructor; [exact (gs_lock w1 G)|exact (gs_dlock w1 G)|exact (gs_cfg w1 G)|].
      intros v e He. cbn [s_docs send set_log set_docs] in He. rewrite lookup_remove in He.
      destruct (url_eqb v u); [discriminate|exact (gs_wf w1 G v e He)].
    + intro v. unfold word. rewrite lastword_send. unfold pubval. cbn [s_docs send set_log set_docs s_cfg].
      rewrite lookup_remove. destruct (url_eqb v u); [reflexivity|]. exact (W v).
  - (* didChangeWatchedFiles *)
    pose proof (client_winv (Delete tg) w eq_refl I) as [G W]. set (w1 := client_effect _ w) in *.
    rewrite <- send_all_eq. set (gone := filter (matches tg) (keys (s_docs w1))).
    set (w2 := set_docs _ w1). destruct (send_all_server gone w2) as (Ed & Ec & El & Edl & Ecc & _).
    assert (Hgone : forall v, mem_url v gone = true <-> (matches tg v = true /\ In v (keys (s_docs w1)))).
    { intro v. rewrite mem_url_In. unfold gone. rewrite filter_In. tauto. }
    constructor.
    + constructor; [rewrite El; exact (gs_lock w1 G)|rewrite Edl; exact (gs_dlock w1 G)|rewrite Ec, Ecc; exact (gs_cfg w1 G)|].
      intros v e. rewrite Ed, Ecc. unfold w2. cbn [s_docs set_docs w_ccfg]. rewrite lookup_filter_matches.
      destruct (matches tg v); [discriminate|exact (gs_wf w1 G v e)].
    + intro v. unfold word. rewrite lastword_send_all. unfold pubval. rewrite Ed, Ec. unfold w2. cbn [s_docs set_docs s_cfg].
      rewrite lookup_filter_matches. change (lastword (set_docs _ w1) v) with (lastword w1 v).
      destruct (matches tg v) eqn:Em.
      * destruct (mem_url v gone) eqn:Eg; [reflexivity|].
        assert (Hn : lookup v (s_docs w1) = None).
        { destruct (lookup v (s_docs w1)) as [e|] eqn:Ee; [|reflexivity]. apply lookup_In_keys in Ee.
          assert (mem_url v gone = true) by (apply Hgone; split; assumption). congruence. }
        rewrite (W v). unfold pubval. rewrite Hn. reflexivity.
      * destruct (mem_url v gone) eqn:Eg; [apply Hgone in Eg; destruct Eg; congruence|]. exact (W v).
  - (* HarperAddToUserDict *)
    apply winv_reread. cbn [client_effect]. apply (winv_files w); try reflexivity. exact I.
  - (* HarperAddToFileDict *)
    apply winv_reread. cbn [client_effect]. destruct (is_file u); [|exact I]. apply (winv_files w); try reflexivity. exact I.
  - (* HarperIgnoreLint *)
    pose proof (client_winv (Ignore u k) w eq_refl I) as [G W]. set (w1 := client_effect _ w) in *.
    destruct (lookup u (s_docs w1)) as [e|] eqn:Ee; [|constructor; assumption].
    set (w2 := set_docs _ w1). destruct (publish_props w2 u) as [A B].
    assert (G2 : GShape w2).
    { apply gshape_docs; [exact G|]. intros v e'. rewrite lookup_upsert.
      destruct (url_eqb v u); [intro H; inversion H; subst; apply wf_add_ign, (gs_wf w1 G u e Ee)|exact (gs_wf w1 G v e')]. }
    apply (winv_from w1 _ u (fun v _ => W v)); [apply gshape_send, G2|exact A|].
    intros v Hv. destruct (B v Hv) as [B1 B2]. split; [exact B1|]. rewrite B2.
    apply pubval_docs_neq. apply url_eqb_neq in Hv. apply lookup_upsert_neq, Hv.
  - exact I.
  - (* didChangeConfiguration *)
    destruct I as [G W]. cbn [client_effect]. set (w2 := set_docs _ _).
    assert (G2 : GShape w2).
    { constructor; [exact (gs_lock w G)|exact (gs_dlock w G)|reflexivity|].
      intros u e He. unfold w2 in He. cbn [s_docs set_docs w_ccfg set_scfg set_ccfg] in He |- *. rewrite lookup_map_val in He.
      destruct (lookup u (s_docs w)) as [e0|] eqn:E0; [|discriminate]. inversion He; subst.
      destruct (gs_wf w G u e0 E0) as (lg & t0 & B & p & ign & v0 & Hk & HB & ->).
      exists lg, t0, B, p, ign, v0. split; [exact Hk|]. split; [exact HB|reflexivity]. }
    constructor; [apply reread_all_shape, G2|]. apply reread_all_word; [exact G2|].
    intro v. destruct (lookup v (s_docs w)) as [e|] eqn:Ee.
    + right. apply order_keys_complete. change (s_docs (set_ccfg c w)) with (s_docs w). eapply lookup_In_keys, Ee.
    + left. unfold word. change (lastword w2 v) with (lastword w v). rewrite (W v). unfold pubval, w2.
      cbn [s_docs set_docs]. rewrite lookup_map_val. change (s_docs (set_ccfg c w)) with (s_docs w). rewrite Ee. reflexivity.
Qed.

Lemma winv_world0 : forall c, WInv (world0 c).
Proof.
  intro c. constructor; [constructor; try reflexivity; intros u e H; discriminate H|]. intro u. reflexivity.
Qed.

Lemma winv_sfold : forall h w, WInv w -> WInv (sfold h w).
Proof. induction h as [|o h IH]; intros w I; [exact I|]. cbn [sfold]. apply IH, winv_sstep, I. Qed.

Lemma run_seq_sfold : forall h w w', WInv w -> run_seq h w = Some w' -> w' = sfold h w.
Proof.
  induction h as [|o h IH]; intros w w' I H; cbn [run_seq sfold] in *; [inversion H; reflexivity|].
  destruct (run_op o w) as [w1|] eqn:E; [|discriminate].
  rewrite (sstep_is_run_op o w w1 (wi_shape w I) E) in H. apply IH; [apply winv_sstep, I|exact H].
Qed.

(* ================================================================================================
   Part 2: a client that keeps the protocol (didOpen only of a document that is not open, versions of
   didChange not going backwards): doc_state tracks exactly the open documents that have a parser, with the
   client's language, ignore list and version (`CShape`); the last word of a document is right IFF its entry does
   not LAG (text, dictionaries, parser settings); closed documents are always right.
   ================================================================================================ *)
Definition cshape_at (w : world) (u : url) : Prop :=
  match lookup u (s_docs w) with
  | Some e => exists cd, lookup u (w_open w) = Some cd /\ sq_has_parser (cd_lang cd) = true /\
                e_lang e = Some (cd_lang cd) /\ e_ign e = cd_ign cd /\ e_ver e = Some (cd_ver cd)
  | None => tracked w u = false
  end.
Definition CShape (w : world) : Prop := forall u, cshape_at w u.

Lemma text_eqb_refl : forall t, text_eqb t t = true.
Proof. intros [a b]. unfold text_eqb. cbn. rewrite !Nat.eqb_refl. reflexivity. Qed.

Lemma dictv_eta : forall B, dv_ident B = 0 -> B = mkdict (dv_user B) (dv_file B) 0.
Proof. intros [a b c] H. cbn in *. subst. reflexivity. Qed.

(* the last word is right IFF the entry does not lag *)
Theorem exact_at : forall w u, WInv w -> CShape w ->
  (lastword w u = expected w u <-> lagb w u = false) /\ (lookup u (w_open w) = None -> lastword w u = PEmpty).
Proof.
  intros w u [G W] C. rewrite (W u). specialize (C u). unfold cshape_at in C. unfold lagb, pubval, expected.
  destruct (lookup u (s_docs w)) as [e|] eqn:Ee.
  - destruct C as (cd & Ho & Hp & Hl & Hi & Hv).
    destruct (gs_wf w G u e Ee) as (lg & t0 & B & p & ign & v0 & Hk & HB & ->).
    cbn [e_lang e_ign e_ver e_text e_dict e_ddict e_lcfg e_pcfg e_base] in *. inversion Hl; subst lg. subst ign.
    rewrite Ho. split; [|discriminate]. rewrite (gs_cfg w G).
    unfold lag_of. cbn [e_text e_base e_pcfg]. rewrite Ho.
    assert (Hd : forall t, match kind (cd_lang cd) with
                            | KNone => PEmpty
                            | k => let d := mkdict (w_udict w) (fdict_of w u) (match k with KCode => t_ident t | _ => 0 end) in
                                   PDiag (mkargs t (cd_lang cd) d d (w_ccfg w) (w_ccfg w) (w_ccfg w) (cd_ign cd))
                            end = PDiag (mkargs t (cd_lang cd) (with_ident (sq_dict w u) (idof (cd_lang cd) t))
                                            (with_ident (sq_dict w u) (idof (cd_lang cd) t)) (w_ccfg w) (w_ccfg w) (w_ccfg w) (cd_ign cd))).
    { intro t. unfold idof. destruct (kind (cd_lang cd)); [reflexivity|reflexivity|congruence]. }
    rewrite Hd. split.
    + intro E. unfold with_ident, sq_dict in E. cbn [dv_user dv_file] in E. inversion E. subst.
      assert (EB : B = sq_dict w u) by (rewrite (dictv_eta B HB); unfold sq_dict; f_equal; assumption).
      rewrite EB, text_eqb_refl, dictv_eqb_refl, Nat.eqb_refl. reflexivity.
    + intro L. apply orb_false_iff in L as [L L3]. apply orb_false_iff in L as [L1 L2].
      apply negb_false_iff in L1, L2, L3. apply text_eqb_eq in L1. apply dictv_eqb_eq in L2. apply Nat.eqb_eq in L3.
      subst t0 B p. reflexivity.
  - unfold tracked in C. split.
    + split; [reflexivity|]. intros _. destruct (lookup u (w_open w)) as [cd|]; [|reflexivity].
      unfold sq_has_parser in C. destruct (kind (cd_lang cd)); try discriminate C. reflexivity.
    + reflexivity.
Qed.

(* ---------- CShape is preserved ---------- *)
Definition same_meta (e e' : entry) : Prop := e_lang e = e_lang e' /\ e_ign e = e_ign e' /\ e_ver e = e_ver e'.
Definition docs_meta (d d' : list (url * entry)) : Prop :=
  forall v, match lookup v d, lookup v d' with
            | Some e, Some e' => same_meta e e'
            | None, None => True
            | _, _ => False
            end.

Lemma docs_meta_refl : forall d, docs_meta d d.
Proof. intros d v. destruct (lookup v d); [repeat split|exact Logic.I]. Qed.

Lemma docs_meta_trans : forall a b c, docs_meta a b -> docs_meta b c -> docs_meta a c.
Proof.
  intros a b c H1 H2 v. specialize (H1 v). specialize (H2 v).
  destruct (lookup v a), (lookup v b), (lookup v c); try contradiction; try exact Logic.I.
  destruct H1 as (A1 & A2 & A3), H2 as (B1 & B2 & B3). repeat split; congruence.
Qed.

Lemma cshape_meta : forall w w', w_open w' = w_open w -> docs_meta (s_docs w) (s_docs w') -> CShape w -> CShape w'.
Proof.
  intros w w' Eo M C u. specialize (M u). specialize (C u). unfold cshape_at, tracked in *. rewrite Eo.
  destruct (lookup u (s_docs w)) as [e|], (lookup u (s_docs w')) as [e'|]; try contradiction; [|exact C].
  destruct C as (cd & A & B & C1 & C2 & C3). destruct M as (M1 & M2 & M3). exists cd. repeat split; congruence.
Qed.

Lemma reinstall_meta : forall w u e t, wf_entry (w_ccfg w) e -> same_meta e (reinstall w u e t None).
Proof. intros w u e t (lg & t0 & B & p & ign & v0 & _ & _ & ->). unfold reinstall. cbn. repeat split. Qed.

Lemma reread_meta : forall w u, GShape w -> docs_meta (s_docs w) (s_docs (reread u w)) /\ w_open (reread u w) = w_open w.
Proof.
  intros w u G. unfold reread. destruct (disk_text w u) as [t|]; [|split; [apply docs_meta_refl|reflexivity]].
  split; [|reflexivity]. unfold update_publish, publish. cbn [s_docs send set_log set_docs]. intro v.
  destruct (url_eq_dec v u) as [->|Hv]; [|rewrite lookup_install by exact Hv; apply docs_meta_refl].
  unfold sq_install. destruct (lookup u (s_docs w)) as [e|] eqn:Ee.
  - cbn [stale]. rewrite lookup_upsert_eq. apply reinstall_meta, (gs_wf w G u e Ee).
  - rewrite Ee. exact Logic.I.
Qed.

Lemma reread_all_meta : forall q w, GShape w -> docs_meta (s_docs w) (s_docs (reread_all q w)) /\ w_open (reread_all q w) = w_open w.
Proof.
  induction q as [|x q IH]; intros w G; [split; [apply docs_meta_refl|reflexivity]|].
  cbn [reread_all fold_left]. destruct (reread_meta w x G) as [M1 O1].
  destruct (IH (reread x w) (proj1 (reread_props w x G))) as [M2 O2].
  split; [exact (docs_meta_trans _ _ _ M1 M2)|fold (reread_all q (reread x w)); congruence].
Qed.

Lemma cshape_files : forall w w', w_open w' = w_open w -> s_docs w' = s_docs w -> CShape w -> CShape w'.
Proof. intros w w' A B C. apply (cshape_meta w w' A); [rewrite B; apply docs_meta_refl|exact C]. Qed.

Lemma tracked_upsert_neq : forall w u cd v, v <> u -> tracked (set_open (upsert u cd (w_open w)) w) v = tracked w v.
Proof. intros w u cd v Hv. apply url_eqb_neq in Hv. unfold tracked. cbn [w_open set_open]. rewrite lookup_upsert_neq by exact Hv. reflexivity. Qed.

(* an update of u: the other documents keep their place *)
Lemma cshape_update_other : forall w m u t lgo nv v, v <> u -> lookup v m = lookup v (w_open w) -> cshape_at w v ->
  cshape_at (update_publish u t lgo nv (set_open m w)) v.
Proof.
  intros w m u t lgo nv v Hv Hm C. unfold cshape_at, tracked, update_publish, publish in *.
  cbn [s_docs w_open send set_log set_docs set_open]. rewrite lookup_install by exact Hv. cbn [s_docs set_open]. rewrite Hm. exact C.
Qed.

Lemma gshape_cfg_rebuild : forall w c, GShape w ->
  GShape (set_docs (map (fun kv => (fst kv, e_set_lcfg c (snd kv))) (s_docs (set_ccfg c w))) (set_scfg c (set_ccfg c w))).
Proof.
  intros w c G. constructor; [exact (gs_lock w G)|exact (gs_dlock w G)|reflexivity|].
  intros u e He. cbn [s_docs set_docs w_ccfg set_scfg set_ccfg] in He |- *. rewrite lookup_map_val in He.
  destruct (lookup u (s_docs w)) as [e0|] eqn:E0; [|discriminate]. inversion He; subst.
  destruct (gs_wf w G u e0 E0) as (lg & t0 & B & p & ign & v0 & Hk & HB & ->).
  exists lg, t0, B, p, ign, v0. split; [exact Hk|]. split; [exact HB|reflexivity].
Qed.

Theorem cshape_sstep : forall o w, WInv w -> CShape w -> proto_okb w o = true -> CShape (sstep o w).
Proof.
  intros o w [G W] C P. unfold sstep.
  destruct o as [u lg t v|u t v|u|u|tg|x u|x u|u k| |c order].
  - (* didOpen: u is not open, so doc_state has no entry for it *)
    cbn [proto_okb] in P. destruct (lookup u (w_open w)) as [cd0|] eqn:Eo; [discriminate|].
    assert (Hn : lookup u (s_docs w) = None).
    { pose proof (C u) as Cu. unfold cshape_at in Cu. destruct (lookup u (s_docs w)); [|reflexivity].
      destruct Cu as (cd & A & _). congruence. }
    cbn [client_effect]. intro z. destruct (url_eq_dec z u) as [->|Hz].
    + unfold cshape_at, update_publish, publish, sq_install, tracked. cbn [s_docs w_open send set_log set_docs set_open].
      rewrite Hn. rewrite lookup_upsert_eq. cbn [cd_lang].
      destruct (sq_has_parser lg) eqn:Ep; [|rewrite Hn; reflexivity].
      rewrite lookup_upsert_eq. eexists. split; [reflexivity|]. cbn. repeat split. exact Ep.
    + apply cshape_update_other; [exact Hz| |exact (C z)]. apply url_eqb_neq in Hz. apply lookup_upsert_neq, Hz.
  - (* didChange *)
    cbn [proto_okb client_effect] in *. destruct (lookup u (w_open w)) as [cd|] eqn:Eo.
    + intro z. destruct (url_eq_dec z u) as [->|Hz].
      * pose proof (C u) as Cu. unfold cshape_at in *. unfold update_publish, publish, sq_install, tracked in *.
        cbn [s_docs w_open send set_log set_docs set_open]. rewrite lookup_upsert_eq. cbn [cd_lang].
        destruct (lookup u (s_docs w)) as [e|] eqn:Ee.
        -- destruct Cu as (cd' & A & B & C1 & C2 & C3). rewrite Eo in A. inversion A; subst cd'.
           rewrite C3. cbn [stale]. apply Nat.leb_le in P. assert (Hs : v <? cd_ver cd = false) by (apply Nat.ltb_ge; exact P).
           rewrite Hs, lookup_upsert_eq. eexists. split; [reflexivity|]. cbn [cd_lang cd_ign cd_ver]. split; [exact B|].
           destruct (gs_wf w G u e Ee) as (lg & t0 & B0 & p & ign & v0 & _ & _ & ->). cbn in C1, C2 |- *.
           inversion C1; subst. repeat split.
        -- rewrite Ee. rewrite Eo in Cu. exact Cu.
      * apply cshape_update_other; [exact Hz| |exact (C z)]. apply url_eqb_neq in Hz. apply lookup_upsert_neq, Hz.
    + (* not open: the server has no entry, inserts one without language and removes it again *)
      intro z. pose proof (C z) as Cz. unfold cshape_at, update_publish, publish, tracked in *.
      cbn [s_docs w_open send set_log set_docs]. destruct (url_eq_dec z u) as [->|Hz]; [|rewrite lookup_install by exact Hz; exact Cz].
      unfold sq_install. destruct (lookup u (s_docs w)) as [e|] eqn:Ee; [|rewrite Ee; exact Cz].
      destruct Cz as (cd & A & _). congruence.
  - (* didSave *)
    set (w1 := client_effect _ w).
    assert (G1 : GShape w1) by (apply (wi_shape _ (client_winv (Save u) w eq_refl (mkWInv w G W)))).
    assert (C1 : CShape w1).
    { apply (cshape_files w); [|unfold w1; cbn [client_effect]; destruct (lookup u (w_open w)); [destruct (is_file u)|]; reflexivity|exact C].
      unfold w1. cbn [client_effect]. destruct (lookup u (w_open w)); [destruct (is_file u)|]; reflexivity. }
    destruct (reread_meta w1 u G1) as [M O]. exact (cshape_meta w1 _ O M C1).
  - (* didClose *)
    cbn [client_effect]. intro z. pose proof (C z) as Cz. unfold cshape_at, tracked in *.
    cbn [s_docs w_open send set_log set_docs set_open]. rewrite !lookup_remove. destruct (url_eqb z u); [reflexivity|exact Cz].
  - (* didChangeWatchedFiles *)
    cbn [client_effect]. rewrite <- send_all_eq. intro z. pose proof (C z) as Cz. unfold cshape_at, tracked in *.
    match goal with |- context [send_all ?q ?x] => destruct (send_all_server q x) as (Ed & _ & _ & _ & _ & Eo & _) end.
    rewrite Ed, Eo. cbn [s_docs w_open set_docs set_open set_disk]. rewrite !lookup_filter_matches.
    destruct (matches tg z); [reflexivity|exact Cz].
  - (* HarperAddToUserDict *)
    cbn [client_effect]. set (w2 := set_udict _ w).
    assert (G2 : GShape w2) by (constructor; [exact (gs_lock w G)|exact (gs_dlock w G)|exact (gs_cfg w G)|exact (gs_wf w G)]).
    destruct (reread_meta w2 u G2) as [M O]. apply (cshape_meta w2 _ O M). apply (cshape_files w); [reflexivity|reflexivity|exact C].
  - (* HarperAddToFileDict *)
    cbn [client_effect]. set (w2 := if is_file u then _ else w).
    assert (G2 : GShape w2) by (unfold w2; destruct (is_file u); [constructor; [exact (gs_lock w G)|exact (gs_dlock w G)|exact (gs_cfg w G)|exact (gs_wf w G)]|exact G]).
    destruct (reread_meta w2 u G2) as [M O]. apply (cshape_meta w2 _ O M).
    apply (cshape_files w); [unfold w2; destruct (is_file u); reflexivity|unfold w2; destruct (is_file u); reflexivity|exact C].
  - (* HarperIgnoreLint *)
    cbn [client_effect]. intro z. pose proof (C z) as Cz. pose proof (C u) as Cu. unfold cshape_at, tracked in *.
    destruct (lookup u (w_open w)) as [cd|] eqn:Eo.
    + cbn [s_docs set_open]. destruct (lookup u (s_docs w)) as [e|] eqn:Ee.
      * unfold publish. cbn [s_docs w_open send set_log set_docs set_open]. rewrite !lookup_upsert.
        destruct (url_eqb z u) eqn:Ez; [|exact Cz].
        destruct Cu as (cd' & A & B & C1 & C2 & C3). inversion A; subst cd'.
        eexists. split; [reflexivity|]. cbn [cd_lang cd_ign cd_ver]. split; [exact B|].
        destruct (gs_wf w G u e Ee) as (lg & t0 & B0 & p & ign & v0 & _ & _ & ->). cbn in C1, C2, C3 |- *. subst. repeat split; congruence.
      * cbn [s_docs w_open set_open]. rewrite lookup_upsert. destruct (url_eqb z u) eqn:Ez; [|exact Cz].
        apply url_eqb_eq in Ez. subst z. rewrite Ee in *. cbn [cd_lang]. exact Cu.
    + destruct (lookup u (s_docs w)) as [e|] eqn:Ee; [destruct Cu as (cd & A & _); discriminate A|exact Cz].
  - exact C.
  - (* didChangeConfiguration *)
    cbn [client_effect]. set (w2 := set_docs _ _).
    assert (G2 : GShape w2) by (apply gshape_cfg_rebuild, G).
    destruct (reread_all_meta (order_keys order (keys (s_docs (set_ccfg c w)))) w2 G2) as [M O].
    apply (cshape_meta w2 _ O M). apply (cshape_meta w); [reflexivity| |exact C].
    intro z. unfold w2. cbn [s_docs set_docs set_scfg set_ccfg]. rewrite lookup_map_val.
    destruct (lookup z (s_docs w)); [repeat split|exact Logic.I].
Qed.

(* ================================================================================================
   Part 3: who lags after one message (`lag_after`), and the exceptions F17b / F17c / F17d exactly.
   ================================================================================================ *)
Definition buf_differs (w : world) (u : url) (t : text) : bool :=
  negb (match lookup u (w_open w) with Some cd => text_eqb t (cd_text cd) | None => false end).

Lemma lag_of_same : forall w w' u e,
  lookup u (w_open w') = lookup u (w_open w) -> w_udict w' = w_udict w -> w_fdict w' = w_fdict w -> w_ccfg w' = w_ccfg w ->
  lag_of w' u e = lag_of w u e.
Proof. intros w w' u e A B C D. unfold lag_of, sq_dict, fdict_of. rewrite A, B, C, D. reflexivity. Qed.

Lemma lag_reinstall : forall w u e t nv, wf_entry (w_ccfg w) e -> lag_of w u (reinstall w u e t nv) = buf_differs w u t.
Proof.
  intros w u e t nv (lg & t0 & B & p & ign & v0 & _ & _ & ->). unfold reinstall, lag_of, buf_differs.
  cbn [e_lang e_text e_base e_pcfg]. rewrite dictv_eqb_refl, Nat.eqb_refl. cbn [negb]. rewrite !orb_false_r. reflexivity.
Qed.

Lemma lag_first : forall w u lg t v, lag_of w u (first_entry w u lg t v) = buf_differs w u t.
Proof.
  intros. unfold first_entry, lag_of, buf_differs. cbn [e_text e_base e_pcfg].
  rewrite dictv_eqb_refl, Nat.eqb_refl. cbn [negb]. rewrite !orb_false_r. reflexivity.
Qed.

Lemma lag_add_ign : forall w u k e, lag_of w u (e_add_ign k e) = lag_of w u e.
Proof. intros. reflexivity. Qed.

Lemma lag_set_lcfg : forall w u c e, lag_of w u (e_set_lcfg c e) = lag_of w u e.
Proof. intros. reflexivity. Qed.

Lemma lagb_update_other : forall w u t lgo nv v, v <> u -> lagb (update_publish u t lgo nv w) v = lagb w v.
Proof.
  intros w u t lgo nv v Hv. unfold lagb, update_publish, publish. cbn [s_docs send set_log set_docs].
  rewrite lookup_install by exact Hv. reflexivity.
Qed.

Lemma lagb_update_at : forall w u t lgo nv, GShape w ->
  lagb (update_publish u t lgo nv w) u =
    match lookup u (s_docs w) with
    | Some e => if stale nv (e_ver e) then lag_of w u e else buf_differs w u t
    | None => match lgo, nv with
              | Some lg, Some _ => if sq_has_parser lg then buf_differs w u t else false
              | _, _ => false
              end
    end.
Proof.
  intros w u t lgo nv G. unfold lagb, update_publish, publish, sq_install. cbn [s_docs send set_log set_docs].
  destruct (lookup u (s_docs w)) as [e|] eqn:Ee.
  - destruct (stale nv (e_ver e)); [rewrite Ee; reflexivity|]. rewrite lookup_upsert_eq.
    change (lag_of w u (reinstall w u e t nv) = buf_differs w u t). apply lag_reinstall, (gs_wf w G u e Ee).
  - destruct lgo as [lg|]; [|rewrite Ee; reflexivity]. destruct nv as [n|]; [|rewrite Ee; reflexivity].
    destruct (sq_has_parser lg); [|rewrite Ee; reflexivity]. rewrite lookup_upsert_eq.
    change (lag_of w u (first_entry w u lg t n) = buf_differs w u t). apply lag_first.
Qed.

(* what a re-read leaves for u *)
Definition after_reread (w : world) (u : url) : bool :=
  match disk_text w u with
  | Some t => match lookup u (s_docs w) with Some _ => buf_differs w u t | None => false end
  | None => lagb w u
  end.

Lemma lagb_reread_at : forall w u, GShape w -> lagb (reread u w) u = after_reread w u.
Proof.
  intros w u G. unfold reread, after_reread. destruct (disk_text w u) as [t|]; [|reflexivity].
  rewrite lagb_update_at by exact G. destruct (lookup u (s_docs w)); reflexivity.
Qed.

Lemma lagb_reread_other : forall w u v, v <> u -> lagb (reread u w) v = lagb w v.
Proof. intros w u v Hv. unfold reread. destruct (disk_text w u); [apply lagb_update_other, Hv|reflexivity]. Qed.

Lemma reread_same : forall w u,
  w_open (reread u w) = w_open w /\ w_disk (reread u w) = w_disk w /\ w_udict (reread u w) = w_udict w /\
  w_fdict (reread u w) = w_fdict w /\ w_ccfg (reread u w) = w_ccfg w.
Proof. intros w u. unfold reread. destruct (disk_text w u); repeat split; reflexivity. Qed.

Lemma after_reread_stable : forall w x u, GShape w -> after_reread (reread x w) u = after_reread w u.
Proof.
  intros w x u G. destruct (reread_same w x) as (Eo & Ed & Eu & Ef & Ec). destruct (reread_meta w x G) as [M _].
  unfold after_reread, disk_text, buf_differs. rewrite Ed, Eo.
  destruct (is_file u) eqn:Ef0; [destruct (lookup u (w_disk w)) as [t|] eqn:Ek|].
  - specialize (M u). destruct (lookup u (s_docs w)), (lookup u (s_docs (reread x w))); try contradiction; reflexivity.
  - destruct (url_eq_dec u x) as [<-|Hu]; [|apply lagb_reread_other, Hu].
    rewrite lagb_reread_at by exact G. unfold after_reread, disk_text. rewrite Ef0, Ek. reflexivity.
  - destruct (url_eq_dec u x) as [<-|Hu]; [|apply lagb_reread_other, Hu].
    rewrite lagb_reread_at by exact G. unfold after_reread, disk_text. rewrite Ef0. reflexivity.
Qed.

Lemma lagb_reread_all : forall q w u, GShape w ->
  lagb (reread_all q w) u = if mem_url u q then after_reread w u else lagb w u.
Proof.
  induction q as [|x q IH]; intros w u G; [reflexivity|].
  cbn [reread_all fold_left]. fold (reread_all q (reread x w)).
  rewrite IH by (apply reread_props, G). rewrite after_reread_stable by exact G.
  change (mem_url u (x :: q)) with (url_eqb u x || mem_url u q).
  destruct (url_eqb u x) eqn:E.
  - apply url_eqb_eq in E. subst x. cbn [orb]. rewrite lagb_reread_at by exact G. destruct (mem_url u q); reflexivity.
  - apply url_eqb_neq in E. cbn [orb]. rewrite lagb_reread_other by exact E. reflexivity.
Qed.

Lemma reread_all_open : forall q w, w_open (reread_all q w) = w_open w.
Proof.
  induction q as [|x q IH]; intro w; [reflexivity|]. cbn [reread_all fold_left]. fold (reread_all q (reread x w)).
  rewrite IH. apply reread_same.
Qed.

Lemma sstep_open : forall o w, w_open (sstep o w) = w_open (client_effect o w).
Proof.
  intros o w. unfold sstep. destruct o; try reflexivity.
  - apply (proj1 (reread_same _ _)).
  - rewrite <- send_all_eq. match goal with |- context [send_all ?q ?x] => destruct (send_all_server q x) as (_ & _ & _ & _ & _ & Eo & _) end. exact Eo.
  - rewrite (proj1 (reread_same _ _)). reflexivity.
  - rewrite (proj1 (reread_same _ _)). cbn [client_effect]. destruct (is_file u); reflexivity.
  - destruct (lookup u (s_docs (client_effect (Ignore u k) w))); reflexivity.
  - rewrite reread_all_open. reflexivity.
Qed.

Lemma cshape_entry_tracked : forall w u, CShape w -> tracked w u = true -> exists e, lookup u (s_docs w) = Some e.
Proof. intros w u C T. specialize (C u). unfold cshape_at in C. destruct (lookup u (s_docs w)) as [e|]; [exists e; reflexivity|congruence]. Qed.

(* ONE MESSAGE, from any reachable world: exactly the documents described by lag_after lag afterwards *)
Theorem lag_step : forall o w u, WInv w -> CShape w -> proto_okb w o = true ->
  lagb (sstep o w) u = lag_after o w u.
Proof.
  intros o w u I C P. pose proof (cshape_sstep o w I C P) as C'. destruct I as [G W].
  unfold lag_after. destruct (tracked (client_effect o w) u) eqn:Et; cbn [negb].
  2: { unfold lagb. specialize (C' u). unfold cshape_at in C'. destruct (lookup u (s_docs (sstep o w))); [|reflexivity].
       destruct C' as (cd & A & B & _). unfold tracked in Et. rewrite sstep_open in A. rewrite A in Et. congruence. }
  assert (G1 : is_cfgchange o = false -> GShape (client_effect o w))
    by (intro Hc; exact (wi_shape _ (client_winv o w Hc (mkWInv w G W)))).
  destruct o as [v lg t ver|v t ver|v|v|tg|x v|x v|v k| |c order]; unfold sstep, installs, files_after.
  - (* didOpen *)
    specialize (G1 eq_refl). cbn [proto_okb] in P. destruct (lookup v (w_open w)) as [cd0|] eqn:Eo; [discriminate|].
    assert (Hn : lookup v (s_docs w) = None).
    { pose proof (C v) as Cv. unfold cshape_at in Cv. destruct (lookup v (s_docs w)); [|reflexivity]. destruct Cv as (cd & A & _). congruence. }
    destruct (url_eqb u v) eqn:E.
    + apply url_eqb_eq in E. subst v. rewrite lagb_update_at by exact G1.
      cbn [client_effect s_docs set_open] in *. rewrite Hn. unfold tracked in Et. cbn [w_open set_open] in Et.
      rewrite lookup_upsert_eq in Et. cbn [cd_lang] in Et. rewrite Et. reflexivity.
    + apply url_eqb_neq in E. rewrite lagb_update_other by exact E. reflexivity.
  - (* didChange *)
    specialize (G1 eq_refl). destruct (url_eqb u v) eqn:E.
    + apply url_eqb_eq in E. subst v. rewrite lagb_update_at by exact G1.
      cbn [proto_okb client_effect] in *. destruct (lookup u (w_open w)) as [cd|] eqn:Eo.
      * cbn [s_docs set_open].
        assert (T : tracked w u = true) by (unfold tracked in *; cbn [w_open set_open] in Et; rewrite lookup_upsert_eq in Et; rewrite Eo; exact Et).
        destruct (cshape_entry_tracked w u C T) as [e Ee]. rewrite Ee.
        pose proof (C u) as Cu. unfold cshape_at in Cu. rewrite Ee in Cu. destruct Cu as (cd' & A & _ & _ & _ & Hv).
        rewrite Eo in A. inversion A; subst cd'. rewrite Hv. cbn [stale]. apply Nat.leb_le in P.
        assert (Hs : ver <? cd_ver cd = false) by (apply Nat.ltb_ge; exact P). rewrite Hs. reflexivity.
      * unfold tracked in Et. rewrite Eo in Et. discriminate Et.
    + apply url_eqb_neq in E. rewrite lagb_update_other by exact E. cbn [client_effect].
      destruct (lookup v (w_open w)); reflexivity.
  - (* didSave *)
    specialize (G1 eq_refl). set (w1 := client_effect (Save v) w) in *.
    assert (Ed : s_docs w1 = s_docs w) by (exact (proj1 (client_server_same (Save v) w))).
    destruct (url_eqb u v) eqn:E.
    + apply url_eqb_eq in E. subst v. rewrite lagb_reread_at by exact G1. unfold after_reread.
      destruct (disk_text w1 u) as [t|].
      * assert (Eo : w_open w1 = w_open w) by (unfold w1; cbn [client_effect]; destruct (lookup u (w_open w)); [destruct (is_file u)|]; reflexivity).
        assert (T : exists e, lookup u (s_docs w1) = Some e).
        { rewrite Ed. apply cshape_entry_tracked; [exact C|]. unfold tracked in *. rewrite Eo in Et. exact Et. }
        destruct T as [e ->]. reflexivity.
      * unfold lagb. rewrite Ed. reflexivity.
    + apply url_eqb_neq in E. rewrite lagb_reread_other by exact E. unfold lagb. rewrite Ed. reflexivity.
  - (* didClose *)
    cbn [client_effect] in *. unfold lagb. cbn [s_docs send set_log set_docs set_open]. rewrite lookup_remove.
    destruct (url_eqb u v) eqn:E; [|reflexivity].
    unfold tracked in Et. cbn [w_open set_open] in Et. rewrite lookup_remove, E in Et. discriminate Et.
  - (* didChangeWatchedFiles *)
    cbn [client_effect] in *. rewrite <- send_all_eq. unfold lagb.
    match goal with |- context [send_all ?q ?x] => destruct (send_all_server q x) as (Ed & _ & _ & _ & Ecc & Eo & Eu & Ef) end.
    rewrite Ed. cbn [s_docs set_docs set_open set_disk]. rewrite lookup_filter_matches.
    unfold tracked in Et. cbn [w_open set_open set_disk] in Et. rewrite lookup_filter_matches in Et.
    destruct (matches tg u); [discriminate Et|]. destruct (lookup u (s_docs w)) as [e|]; [|reflexivity].
    apply lag_of_same; [f_equal; exact Eo|exact Eu|exact Ef|exact Ecc].
  - (* HarperAddToUserDict *)
    cbn [client_effect] in *. set (w2 := set_udict _ w).
    assert (G2 : GShape w2) by (constructor; [exact (gs_lock w G)|exact (gs_dlock w G)|exact (gs_cfg w G)|exact (gs_wf w G)]).
    destruct (url_eqb u v) eqn:E.
    + apply url_eqb_eq in E. subst v. rewrite lagb_reread_at by exact G2. unfold after_reread.
      change (disk_text w2 u) with (disk_text w u). destruct (disk_text w u) as [t|]; [|reflexivity].
      destruct (cshape_entry_tracked w u C Et) as [e Ee]. change (s_docs w2) with (s_docs w). rewrite Ee. reflexivity.
    + apply url_eqb_neq in E. rewrite lagb_reread_other by exact E. reflexivity.
  - (* HarperAddToFileDict *)
    cbn [client_effect] in *. set (w2 := if is_file v then _ else w).
    assert (G2 : GShape w2) by (unfold w2; destruct (is_file v); [constructor; [exact (gs_lock w G)|exact (gs_dlock w G)|exact (gs_cfg w G)|exact (gs_wf w G)]|exact G]).
    assert (Ed : s_docs w2 = s_docs w) by (unfold w2; destruct (is_file v); reflexivity).
    assert (Ek : disk_text w2 u = disk_text w u) by (unfold w2; destruct (is_file v); reflexivity).
    assert (Eo : w_open w2 = w_open w) by (unfold w2; destruct (is_file v); reflexivity).
    destruct (url_eqb u v) eqn:E.
    + apply url_eqb_eq in E. subst v. rewrite lagb_reread_at by exact G2. unfold after_reread. rewrite Ek.
      destruct (disk_text w u) as [t|]; [|unfold lagb; rewrite Ed; reflexivity].
      destruct (cshape_entry_tracked w u C Et) as [e Ee]. rewrite Ed, Ee. unfold buf_differs. rewrite Eo. reflexivity.
    + apply url_eqb_neq in E. rewrite lagb_reread_other by exact E. unfold lagb. rewrite Ed. reflexivity.
  - (* HarperIgnoreLint *)
    set (w1 := client_effect (Ignore v k) w) in *.
    assert (Ed : s_docs w1 = s_docs w) by (exact (proj1 (client_server_same (Ignore v k) w))).
    rewrite Ed. destruct (lookup v (s_docs w)) as [e0|] eqn:E0; [|unfold lagb; rewrite Ed; reflexivity].
    unfold lagb, publish. cbn [s_docs send set_log set_docs]. rewrite lookup_upsert.
    destruct (url_eqb u v) eqn:E; [apply url_eqb_eq in E; subst v; rewrite E0; reflexivity|reflexivity].
  - reflexivity.
  - (* didChangeConfiguration *)
    cbn [client_effect] in *. set (w2 := set_docs _ _).
    assert (G2 : GShape w2) by (apply gshape_cfg_rebuild, G).
    rewrite lagb_reread_all by exact G2.
    assert (T : tracked w u = true) by exact Et. destruct (cshape_entry_tracked w u C T) as [e Ee].
    assert (Hq : mem_url u (order_keys order (keys (s_docs (set_ccfg c w)))) = true).
    { apply mem_url_In, order_keys_complete. change (s_docs (set_ccfg c w)) with (s_docs w). eapply lookup_In_keys, Ee. }
    rewrite Hq. unfold after_reread. change (disk_text w2 u) with (disk_text (set_ccfg c w) u).
    assert (E2 : lookup u (s_docs w2) = Some (e_set_lcfg c e)).
    { unfold w2. cbn [s_docs set_docs set_ccfg]. rewrite lookup_map_val, Ee. reflexivity. }
    destruct (disk_text (set_ccfg c w) u) as [t|]; [rewrite E2; reflexivity|].
    unfold lagb. rewrite E2, Ee. reflexivity.
Qed.

(* ---------- the exceptions ---------- *)
Lemma list_eqb_snoc : forall l x, list_eqb l (l ++ [x]) = false.
Proof. induction l as [|a l IH]; intro x; [reflexivity|]. cbn. rewrite Nat.eqb_refl. apply IH. Qed.

Lemma list_eqb_add_word : forall x l, list_eqb l (add_word x l) = existsb (Nat.eqb x) l.
Proof. intros x l. unfold add_word. destruct (existsb (Nat.eqb x) l); [apply list_eqb_refl|apply list_eqb_snoc]. Qed.

Lemma lag_parts : forall w u e, lag_of w u e = false ->
  (match e_text e, lookup u (w_open w) with Some t, Some cd => text_eqb t (cd_text cd) | _, _ => false end) = true /\
  e_base e = sq_dict w u /\ e_pcfg e = w_ccfg w.
Proof.
  intros w u e L. unfold lag_of in L. apply orb_false_iff in L as [L L3]. apply orb_false_iff in L as [L1 L2].
  apply negb_false_iff in L1, L2, L3. split; [exact L1|]. split; [apply dictv_eqb_eq, L2|apply Nat.eqb_eq, L3].
Qed.

(* the lag of an entry that did not lag, once the dictionary files / the settings have moved *)
Lemma lag_moved : forall w w2 u e, lag_of w u e = false -> lookup u (w_open w2) = lookup u (w_open w) ->
  lag_of w2 u e = negb (dictv_eqb (sq_dict w u) (sq_dict w2 u)) || negb (w_ccfg w =? w_ccfg w2).
Proof.
  intros w w2 u e L Eo. destruct (lag_parts w u e L) as (A & B & D). unfold lag_of. rewrite Eo, A, B, D. reflexivity.
Qed.

(* ONE MESSAGE on a document that does not lag: it lags afterwards IFF one of the three exceptions applies *)
Theorem exceptions_exact : forall o w u, WInv w -> CShape w -> proto_okb w o = true -> lagb w u = false ->
  lagb (sstep o w) u = exception o w u.
Proof.
  intros o w u I C P L. rewrite (lag_step o w u I C P). destruct I as [G W].
  unfold lag_after, exception, f17b, f17c, f17d, installs, files_after.
  assert (Le : forall e, lookup u (s_docs w) = Some e -> lag_of w u e = false) by (intros e Ee; unfold lagb in L; rewrite Ee in L; exact L).
  assert (Keep : forall w1, lookup u (w_open w1) = lookup u (w_open w) -> w_udict w1 = w_udict w -> w_fdict w1 = w_fdict w -> w_ccfg w1 = w_ccfg w ->
                 match lookup u (s_docs w) with Some e => lag_of w1 u e | None => false end = false).
  { intros w1 A B D E. destruct (lookup u (s_docs w)) as [e|] eqn:Ee; [|reflexivity]. rewrite (lag_of_same w w1 u e A B D E). apply Le. reflexivity. }
  destruct o as [v lg t ver|v t ver|v|v|tg|x v|x v|v k| |c order]; cbn [rereads changes_for client_effect];
    rewrite ?andb_false_r, ?andb_false_l; cbn [orb].
  - (* didOpen *)
    destruct (tracked _ u); cbn [negb]; [|reflexivity]. destruct (url_eqb u v) eqn:E.
    + apply url_eqb_eq in E. subst v. cbn [w_open set_open]. rewrite lookup_upsert_eq. cbn [cd_text]. rewrite text_eqb_refl. reflexivity.
    + apply Keep; try reflexivity. cbn [w_open set_open]. apply lookup_upsert_neq, E.
  - (* didChange *)
    destruct (lookup v (w_open w)) as [cd|] eqn:Eo.
    + destruct (tracked _ u); cbn [negb]; [|reflexivity]. destruct (url_eqb u v) eqn:E.
      * apply url_eqb_eq in E. subst v. cbn [w_open set_open]. rewrite lookup_upsert_eq. cbn [cd_text]. rewrite text_eqb_refl. reflexivity.
      * apply Keep; try reflexivity. cbn [w_open set_open]. apply lookup_upsert_neq, E.
    + destruct (tracked w u) eqn:Et; cbn [negb]; [|reflexivity]. destruct (url_eqb u v) eqn:E.
      * apply url_eqb_eq in E. subst v. unfold tracked in Et. rewrite Eo in Et. discriminate Et.
      * apply Keep; reflexivity.
  - (* didSave: the file has just been written from the buffer *)
    set (w1 := match lookup v (w_open w) with Some cd => if is_file v then set_disk (upsert v (cd_text cd) (w_disk w)) w else w | None => w end).
    assert (Eo : w_open w1 = w_open w) by (unfold w1; destruct (lookup v (w_open w)); [destruct (is_file v)|]; reflexivity).
    assert (Eu : w_udict w1 = w_udict w /\ w_fdict w1 = w_fdict w /\ w_ccfg w1 = w_ccfg w)
      by (unfold w1; destruct (lookup v (w_open w)); [destruct (is_file v)|]; repeat split).
    destruct Eu as (Eu & Ef & Ec).
    destruct (tracked w1 u) eqn:Et; cbn [negb]; [|reflexivity]. destruct (url_eqb u v) eqn:E.
    + apply url_eqb_eq in E. subst v. unfold disk_text.
      destruct (is_file u) eqn:Efile; [|apply Keep; [rewrite Eo; reflexivity|exact Eu|exact Ef|exact Ec]].
      unfold tracked in Et. rewrite Eo in *. unfold w1. destruct (lookup u (w_open w)) as [cd|] eqn:Eow; [|discriminate Et].
      cbn [w_disk set_disk w_open]. rewrite lookup_upsert_eq, text_eqb_refl. reflexivity.
    + apply Keep; [rewrite Eo; reflexivity|exact Eu|exact Ef|exact Ec].
  - (* didClose *)
    destruct (tracked _ u) eqn:Et; cbn [negb]; [|reflexivity]. unfold lagb in L. destruct (lookup u (s_docs w)) as [e|] eqn:Ee; [|reflexivity].
    destruct (url_eqb u v) eqn:E.
    + unfold tracked in Et. cbn [w_open set_open] in Et. rewrite lookup_remove, E in Et. discriminate Et.
    + rewrite (lag_of_same w _ u e); [exact L| |reflexivity|reflexivity|reflexivity]. cbn [w_open set_open]. apply lookup_remove_neq, E.
  - (* didChangeWatchedFiles *)
    destruct (tracked _ u) eqn:Et; cbn [negb]; [|reflexivity]. destruct (lookup u (s_docs w)) as [e|] eqn:Ee; [|reflexivity].
    unfold tracked in Et. cbn [w_open set_open set_disk] in Et. rewrite lookup_filter_matches in Et.
    destruct (matches tg u) eqn:Em; [discriminate Et|].
    rewrite (lag_of_same w _ u e); [apply Le; reflexivity| |reflexivity|reflexivity|reflexivity].
    cbn [w_open set_open set_disk]. rewrite lookup_filter_matches, Em. reflexivity.
  - (* HarperAddToUserDict *)
    destruct (tracked w u) eqn:Et; cbn [negb andb]; [|reflexivity]. set (w2 := set_udict _ w).
    assert (Hm : forall e, lookup u (s_docs w) = Some e -> lag_of w2 u e = negb (existsb (Nat.eqb x) (w_udict w))).
    { intros e Ee. rewrite (lag_moved w w2 u e (Le e Ee) eq_refl). unfold sq_dict, dictv_eqb, w2.
      cbn [dv_user dv_file dv_ident w_udict set_udict w_ccfg]. change (fdict_of (set_udict _ w) u) with (fdict_of w u).
      rewrite list_eqb_add_word, list_eqb_refl, !Nat.eqb_refl. cbn [negb]. rewrite !andb_true_r, orb_false_r. reflexivity. }
    destruct (cshape_entry_tracked w u C Et) as [e Ee]. rewrite Ee.
    destruct (url_eqb u v) eqn:E; cbn [negb andb orb].
    + destruct (disk_text w u) as [t|].
      * unfold tracked in Et. destruct (lookup u (w_open w)) as [cd|]; [|discriminate Et]. rewrite !andb_false_r, !orb_false_r. reflexivity.
      * rewrite (Hm e Ee). destruct (lookup u (w_open w)); rewrite ?andb_true_r; reflexivity.
    + rewrite (Hm e Ee). rewrite orb_false_r. reflexivity.
  - (* HarperAddToFileDict *)
    destruct (tracked w u) eqn:Et; cbn [negb andb]; [|reflexivity].
    set (w2 := if is_file v then _ else w).
    assert (Eo : w_open w2 = w_open w) by (unfold w2; destruct (is_file v); reflexivity).
    assert (Hm : forall e, lookup u (s_docs w) = Some e ->
                 lag_of w2 u e = url_eqb u v && is_file v && negb (existsb (Nat.eqb x) (fdict_of w v))).
    { intros e Ee. rewrite (lag_moved w w2 u e (Le e Ee)) by (rewrite Eo; reflexivity). unfold w2.
      destruct (is_file v) eqn:Ef.
      - unfold sq_dict, dictv_eqb. cbn [dv_user dv_file dv_ident w_udict set_fdict w_ccfg].
        rewrite list_eqb_refl, !Nat.eqb_refl. cbn [negb andb]. rewrite andb_true_r, orb_false_r.
        unfold fdict_of at 2. cbn [w_fdict set_fdict]. rewrite lookup_upsert.
        destruct (url_eqb u v) eqn:E.
        + apply url_eqb_eq in E. subst v. rewrite Ef. rewrite list_eqb_add_word. reflexivity.
        + fold (fdict_of w u). rewrite list_eqb_refl. reflexivity.
      - rewrite dictv_eqb_refl, Nat.eqb_refl, andb_false_r. reflexivity. }
    destruct (cshape_entry_tracked w u C Et) as [e Ee]. rewrite Ee.
    assert (Ek : disk_text w2 u = disk_text w u) by (unfold w2; destruct (is_file v); reflexivity).
    destruct (url_eqb u v) eqn:E; cbn [negb andb orb].
    + destruct (disk_text w u) as [t|].
      * unfold tracked in Et. destruct (lookup u (w_open w)) as [cd|]; [|discriminate Et]. rewrite !andb_false_r, !orb_false_r. reflexivity.
      * rewrite (Hm e Ee). cbn [andb orb]. rewrite ?andb_true_r. reflexivity.
    + rewrite (Hm e Ee). reflexivity.
  - (* HarperIgnoreLint *)
    set (w1 := match lookup v (w_open w) with Some cd => _ | None => w end).
    destruct (tracked w1 u); cbn [negb]; [|reflexivity].
    destruct (lookup u (s_docs w)) as [e|] eqn:Ee; [|reflexivity].
    destruct (lag_parts w u e (Le e eq_refl)) as (A & B & D). unfold lag_of. rewrite B, D.
    assert (Ew : sq_dict w1 u = sq_dict w u /\ w_ccfg w1 = w_ccfg w) by (unfold w1; destruct (lookup v (w_open w)); split; reflexivity).
    destruct Ew as [E1 E2]. rewrite E1, E2, dictv_eqb_refl, Nat.eqb_refl. cbn [negb]. rewrite !orb_false_r.
    unfold w1. destruct (lookup v (w_open w)) as [cd|] eqn:Eo; [|rewrite A; reflexivity].
    cbn [w_open set_open]. rewrite lookup_upsert. destruct (url_eqb u v) eqn:E; [|rewrite A; reflexivity].
    apply url_eqb_eq in E. subst v. rewrite Eo in A. cbn [cd_text]. rewrite A. reflexivity.
  - (* HarperRecordLint *)
    destruct (tracked w u); cbn [negb]; [|reflexivity]. apply Keep; reflexivity.
  - (* didChangeConfiguration *)
    change (tracked (set_ccfg c w) u) with (tracked w u). destruct (tracked w u) eqn:Et; cbn [negb andb]; [|reflexivity].
    change (disk_text (set_ccfg c w) u) with (disk_text w u). change (w_open (set_ccfg c w)) with (w_open w).
    destruct (cshape_entry_tracked w u C Et) as [e Ee]. rewrite Ee.
    destruct (disk_text w u) as [t|].
    + unfold tracked in Et. destruct (lookup u (w_open w)) as [cd|]; [|discriminate Et]. rewrite !andb_false_r, !orb_false_r. reflexivity.
    + rewrite (lag_moved w (set_ccfg c w) u e (Le e Ee) eq_refl). change (sq_dict (set_ccfg c w) u) with (sq_dict w u).
      rewrite dictv_eqb_refl. cbn [negb orb w_ccfg set_ccfg]. rewrite (Nat.eqb_sym (w_ccfg w) c).
      destruct (lookup u (w_open w)); rewrite ?andb_true_r; reflexivity.
Qed.

(* ================================================================================================
   Part 4: histories.
   ================================================================================================ *)
Lemma cshape_world0 : forall c, CShape (world0 c).
Proof. intros c u. reflexivity. Qed.

Lemma reach_sfold : forall h w, WInv w -> CShape w -> proto_seqb h w = true -> WInv (sfold h w) /\ CShape (sfold h w).
Proof.
  induction h as [|o h IH]; intros w I C P; [split; assumption|].
  cbn [proto_seqb] in P. apply andb_true_iff in P as [P1 P2]. cbn [sfold].
  apply IH; [apply winv_sstep, I|apply cshape_sstep; assumption|exact P2].
Qed.

(* EVERY history, no side condition: the handlers run to what the big-step specification says, and the last
   word of every document is what doc_state would publish now *)
Theorem sequential_serialises : forall h c w, run_seq h (world0 c) = Some w ->
  w = sfold h (world0 c) /\ WInv w /\ forall u, lastword w u = pubval w u.
Proof.
  intros h c w H. pose proof (run_seq_sfold h _ w (winv_world0 c) H) as E. subst w.
  pose proof (winv_sfold h _ (winv_world0 c)) as I. split; [reflexivity|]. split; [exact I|exact (wi_word _ I)].
Qed.

(* the sequential clause at full strength, for every kind of message: a client that keeps the protocol *)
Theorem sequential_exact : forall h c w,
  proto_seqb h (world0 c) = true -> run_seq h (world0 c) = Some w ->
  forall u, (lastword w u = expected w u <-> lagb w u = false) /\
            (lookup u (w_open w) = None -> lastword w u = PEmpty) /\
            (tracked w u = false -> lastword w u = expected w u).
Proof.
  intros h c w P H u. destruct (sequential_serialises h c w H) as (E & _ & _). subst w.
  destruct (reach_sfold h _ (winv_world0 c) (cshape_world0 c) P) as [I C].
  destruct (exact_at _ u I C) as [A B]. split; [exact A|]. split; [exact B|].
  intro T. apply A. unfold lagb. pose proof (C u) as Cu. unfold cshape_at in Cu.
  destruct (lookup u (s_docs (sfold h (world0 c)))); [|reflexivity].
  destruct Cu as (cd & X & Y & _). unfold tracked in T. rewrite X in T. congruence.
Qed.

(* reachable worlds, for the step theorems *)
Definition Reach (w : world) : Prop := WInv w /\ CShape w.

Lemma reach_world0 : forall c, Reach (world0 c).
Proof. intro c. split; [apply winv_world0|apply cshape_world0]. Qed.

Theorem reach_step : forall o w w', Reach w -> proto_okb w o = true -> run_op o w = Some w' ->
  w' = sstep o w /\ Reach w'.
Proof.
  intros o w w' [I C] P H. pose proof (sstep_is_run_op o w w' (wi_shape w I) H) as E. subst w'.
  split; [reflexivity|]. split; [apply winv_sstep, I|apply cshape_sstep; assumption].
Qed.

Theorem reach_exact : forall w u, Reach w ->
  (lastword w u = expected w u <-> lagb w u = false) /\ (lookup u (w_open w) = None -> lastword w u = PEmpty).
Proof. intros w u [I C]. exact (exact_at w u I C). Qed.

Theorem step_exact : forall o w w' u, Reach w -> proto_okb w o = true -> run_op o w = Some w' ->
  lagb w' u = lag_after o w u.
Proof. intros o w w' u [I C] P H. rewrite (sstep_is_run_op o w w' (wi_shape w I) H). exact (lag_step o w u I C P). Qed.

Theorem step_exceptions_exact : forall o w w' u, Reach w -> proto_okb w o = true -> run_op o w = Some w' ->
  lagb w u = false ->
  (lagb w' u = true <-> f17b o w u = true \/ f17c o w u = true \/ f17d o w u = true).
Proof.
  intros o w w' u [I C] P H L. rewrite (sstep_is_run_op o w w' (wi_shape w I) H), (exceptions_exact o w u I C P L).
  unfold exception. rewrite !orb_true_iff. tauto.
Qed.

(* didOpen / didChange of u, and didSave of a file, leave u without lag whatever it was before *)
Theorem step_heals : forall o w w' u, Reach w -> proto_okb w o = true -> run_op o w = Some w' ->
  match o with
  | Open v _ _ _ | Change v _ _ => u = v
  | Save v => u = v /\ is_file v = true
  | _ => False
  end -> lagb w' u = false.
Proof.
  intros o w w' u R P H Ho. rewrite (step_exact o w w' u R P H). unfold lag_after, installs.
  destruct o as [v lg t ver|v t ver|v| | | | | | |]; try contradiction.
  - subst v. destruct (tracked _ u); cbn [negb]; [|reflexivity]. rewrite url_eqb_refl. cbn [client_effect w_open set_open].
    rewrite lookup_upsert_eq. cbn [cd_text]. rewrite text_eqb_refl. reflexivity.
  - subst v. destruct (tracked _ u) eqn:Et; cbn [negb]; [|reflexivity]. rewrite url_eqb_refl. cbn [client_effect] in *.
    destruct (lookup u (w_open w)) as [cd|] eqn:Eo; [|unfold tracked in Et; rewrite Eo in Et; discriminate Et].
    cbn [w_open set_open]. rewrite lookup_upsert_eq. cbn [cd_text]. rewrite text_eqb_refl. reflexivity.
  - destruct Ho as [<- Hf]. destruct (tracked _ u) eqn:Et; cbn [negb]; [|reflexivity]. rewrite url_eqb_refl.
    cbn [client_effect] in *. unfold tracked in Et. destruct (lookup u (w_open w)) as [cd|] eqn:Eo.
    + rewrite Hf in *. unfold disk_text. rewrite Hf. cbn [w_disk set_disk w_open]. rewrite lookup_upsert_eq, Eo, text_eqb_refl. reflexivity.
    + rewrite Eo in Et. discriminate Et.
Qed.

(* ---------- non-vacuity ---------- *)
Definition sq_uA : url := UFile 0 0.
Definition sq_uB : url := UFile 0 1.
Definition sq_uU : url := UUntitled 1.
Definition sq_prefix : list op :=
  [Open sq_uA LPlain (mktext 0 0) 1; Open sq_uB LMarkdown (mktext 1 0) 1; Save sq_uA; Save sq_uB;
   Change sq_uA (mktext 2 0) 2; Open sq_uU LPlain (mktext 3 0) 1].

(* three open documents, none lagging: uA has unsaved changes, uB is saved, uU cannot be read from disk *)
Example exceptions_demo :
  let w := sfold sq_prefix (world0 0) in
  proto_seqb sq_prefix (world0 0) = true /\ run_seq sq_prefix (world0 0) = Some w /\
  lagb w sq_uA = false /\ lagb w sq_uB = false /\ lagb w sq_uU = false /\
  f17b (AddUser 5 sq_uA) w sq_uA = true /\ f17c (AddUser 5 sq_uA) w sq_uB = true /\ f17c (AddUser 5 sq_uA) w sq_uU = true /\
  f17d (AddUser 5 sq_uU) w sq_uU = true /\ exception (AddUser 5 sq_uB) w sq_uB = false /\
  f17b (AddFile 6 sq_uA) w sq_uA = true /\ exception (AddFile 6 sq_uA) w sq_uB = false /\ exception (AddFile 6 sq_uB) w sq_uB = false /\
  f17b (CfgChange 1 []) w sq_uA = true /\ f17d (CfgChange 1 []) w sq_uU = true /\ exception (CfgChange 1 []) w sq_uB = false /\
  exception (CfgChange 0 []) w sq_uU = false /\ exception (Save sq_uA) w sq_uA = false /\ exception (Ignore sq_uA 3) w sq_uA = false.
Proof. vm_compute. repeat split; reflexivity. Qed.

(* a history with every kind of message, three exceptions in it, two of them healed again *)
Definition sq_history : list op :=
  sq_prefix ++ [AddUser 5 sq_uA; Ignore sq_uB 2; RecordLint; CfgChange 1 [sq_uB]; Save sq_uA; AddFile 6 sq_uB;
                Close sq_uB; Open (UFile 1 0) LCode (mktext 4 7) 1; Delete (TDir 1)].

Example sequential_exact_demo :
  proto_seqb sq_history (world0 0) = true /\
  exists w, run_seq sq_history (world0 0) = Some w /\ w = sfold sq_history (world0 0) /\
    lagb w sq_uA = false /\ freshb w sq_uA = true /\          (* F17b by AddUser and again by CfgChange, healed by the didSave *)
    lagb w sq_uU = true /\ freshb w sq_uU = false /\          (* F17c then F17d: never healed *)
    freshb w sq_uB = true /\ freshb w (UFile 1 0) = true /\ lastword w sq_uB = PEmpty.
Proof. split; [vm_compute; reflexivity|]. eexists. split; [vm_compute; reflexivity|]. vm_compute. repeat split; reflexivity. Qed.
