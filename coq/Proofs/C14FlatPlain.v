(* C14FlatPlain.v — C14, phase 4: the premises of C14Flat.aligned_collision_needs hold on every document the MODELLED
   Document::new_plain_english produces (C02's DocumentProofs.document_plain_tiling, hypothesis-free), for every lint
   that flags the hull of a non-empty run of its tokens (what a pattern rule reports: C01/C03 span schemas). *)
Require Import Base Tables_lexer Lexer Condense ListLemmas TokenInv C14Edit C14Flat.
Require DocumentProofs.
Require Ignore IgnoreProofs.
From Coq Require Import List Lia.

Section Plain.
  Variable pcode : punct -> N.
  Variable ncode : number -> N.
  Variable scode : num_suffix -> N.
  Variable wm : token -> option N.
  Let emb := emb_tok pcode ncode scode wm.

  Lemma Tiling_tiles a b ts : Tiling a b ts -> tiles a b (map emb ts).
  Proof.
    induction 1 as [a|a b t ts Hs Hl _ IH]; cbn [map tiles]; [reflexivity|].
    unfold tstart, tend in *. cbn [emb emb_tok Ignore.tspan]. repeat split; assumption.
  Qed.

  (* the hull of a non-empty run `mid` of the tokens of a plain-English document is a span [s,e) such that the lint with
     that span is token-aligned; both documents of C14Flat.aligned_collision_needs can be such documents *)
  Theorem plain_lint_aligned u src pre mid post :
    document_plain u src = Ok (pre ++ mid ++ post) -> mid <> [] ->
    exists s e, s < e /\ e <= length src /\
      forall l, Ignore.il_span l = mkspan s e ->
        aligned (doc_of pcode ncode scode wm src (pre ++ mid ++ post)) l (map emb pre) (map emb mid) (map emb post).
  Proof.
    intros Ed Hne.
    destruct (DocumentProofs.document_plain_tiling u src) as [ts [Ed' [T _]]].
    rewrite Ed in Ed'. inversion Ed'. subst ts.
    apply tiling_app_inv in T. destruct T as [s [Tp T]].
    apply tiling_app_inv in T. destruct T as [e [Tm To]].
    exists s, e.
    assert (Lse : s < e).
    { destruct mid as [|t r]; [contradiction|]. inversion Tm; subst. pose proof (tiling_le _ _ _ H5). lia. }
    split; [exact Lse|]. split; [exact (tiling_le _ _ _ To)|].
    intros l El. constructor; rewrite ?El; cbn [sstart send doc_of Ignore.dtoks Ignore.dsrc].
    - rewrite !map_app. reflexivity.
    - apply Tiling_tiles. exact Tp.
    - apply Tiling_tiles. exact Tm.
    - apply Tiling_tiles. exact To.
    - destruct mid; [contradiction|discriminate].
  Qed.
End Plain.

(* hence, for two lints that flag runs of tokens of (one or two) plain-English documents — any Unicode tables, any
   dictionaries: they collide in the F13d way only at the edge of the text or next to a one-character token *)
Theorem plain_collision_needs pcode ncode scode (wm1 wm2 : token -> option N) u src1 pre1 mid1 post1 src2 pre2 mid2 post2 :
  document_plain u src1 = Ok (pre1 ++ mid1 ++ post1) -> mid1 <> [] ->
  document_plain u src2 = Ok (pre2 ++ mid2 ++ post2) -> mid2 <> [] ->
  exists sp1 sp2, forall l1 l2 w1 w2,
    Ignore.il_span l1 = sp1 -> Ignore.il_span l2 = sp2 ->
    Ignore.nb_parts l1 (doc_of pcode ncode scode wm1 src1 (pre1 ++ mid1 ++ post1)) = Ok w1 ->
    Ignore.nb_parts l2 (doc_of pcode ncode scode wm2 src2 (pre2 ++ mid2 ++ post2)) = Ok w2 ->
    flat_of w1 = flat_of w2 -> w1 <> w2 ->
    at_edge (map (emb_tok pcode ncode scode wm1) pre1) (map (emb_tok pcode ncode scode wm1) post1) \/
    at_edge (map (emb_tok pcode ncode scode wm2) pre2) (map (emb_tok pcode ncode scode wm2) post2) \/
    one_char_border (map (emb_tok pcode ncode scode wm1) pre1) (map (emb_tok pcode ncode scode wm1) post1) \/
    one_char_border (map (emb_tok pcode ncode scode wm2) pre2) (map (emb_tok pcode ncode scode wm2) post2).
Proof.
  intros E1 N1 E2 N2.
  destruct (plain_lint_aligned pcode ncode scode wm1 u src1 pre1 mid1 post1 E1 N1) as [s1 [e1 [_ [_ A1]]]].
  destruct (plain_lint_aligned pcode ncode scode wm2 u src2 pre2 mid2 post2 E2 N2) as [s2 [e2 [_ [_ A2]]]].
  exists (mkspan s1 e1), (mkspan s2 e2). intros l1 l2 w1 w2 S1 S2 W1 W2 F N.
  exact (aligned_collision_needs _ _ _ _ _ _ _ _ _ _ _ _ (A1 l1 S1) (A2 l2 S2) W1 W2 F N).
Qed.
