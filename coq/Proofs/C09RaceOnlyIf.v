(* C09RaceOnlyIf.v — C09, the 'only if' direction of the shape race_overtaken for its TEXT flag alone, arbitrary histories,
   every schedule: if the flag `text overtaken` is absent, the last word of u carries the newest text - provided no
   didClose of u is in the history (then an entry of u, once there, stays: invariant EInv) and the entry doc_state holds
   for u at the start (if any) has a language with a parser and a text. *)
Require Import Base Server ServerLemmas ServerProofs ServerSeq ServerConc C09DictLock C09Batch C09BatchProofs C09Seq C09Race C09RaceProofs C09RaceGen C09RaceDict.

Definition hasparsb (e : entry) : bool :=
  match e_lang e, e_text e with Some lg, Some _ => sq_has_parser lg | _, _ => false end.
Definition noclose (u : url) (o : op) : bool := match o with Close v => negb (url_eqb v u) | _ => true end.
Definition isclose (i : instr) : bool := match i with IClose => true | _ => false end.
(* the handler will close u *)
Definition hcl (u : url) (p : list instr) (l : locals) : bool := existsb isclose p && url_eqb (l_url l) u.

Lemma iupdate_exist : forall u l w push l' w',
  exec IUpdate l w = Some (push, l', w') -> notcode (l_lang l) = true -> nocode_docs (s_docs w) ->
  (forall e, lookup u (s_docs w) = Some e -> hasparsb e = true) ->
  (forall e', lookup u (s_docs w') = Some e' -> hasparsb e' = true) /\
  (lookup u (s_docs w) <> None -> lookup u (s_docs w') <> None) /\
  (url_eqb (l_url l) u && updf l w = true -> lookup u (s_docs w') <> None).
Proof.
  intros u l w push l' w' H Nl Nd B. cbn [exec] in H. unfold updf, upd_eff, upd_entry0.
  destruct (s_lock w); [discriminate|].
  destruct (l_text l) as [t|]; [|inversion H; subst; rewrite andb_false_r; split; [exact B|split; [intro X; exact X|discriminate]]].
  set (d := mkdict (l_ud l) (l_fd l) 0) in *.
  set (e0 := match lookup (l_url l) (s_docs w) with Some e => e | None => new_entry (l_lang l) d (l_snap l) end) in *.
  assert (N0 : notcode (e_lang e0) = true).
  { unfold e0. destruct (lookup (l_url l) (s_docs w)) as [e|] eqn:L; [exact (nocode_lookup _ _ _ Nd L)|exact Nl]. }
  assert (B0 : url_eqb u (l_url l) = true -> lookup u (s_docs w) <> None -> hasparsb e0 = true).
  { intros E X. apply url_eqb_eq in E. subst u. unfold e0. destruct (lookup (l_url l) (s_docs w)) as [e|] eqn:L; [apply B; reflexivity|congruence]. }
  destruct (stale (l_ver l) (e_ver e0)); [inversion H; subst; cbn [negb andb]; rewrite andb_false_r; split; [exact B|split; [intro X; exact X|discriminate]]|].
  cbn [negb andb].
  set (e2 := rebase d (l_snap l) (bump (l_ver l) e0)) in *.
  assert (L2 : e_lang e2 = e_lang e0) by apply lang_rebase_bump.
  rewrite L2 in H. unfold hasparsb in B0.
  assert (Rm : forall (m : list (url * entry)) e', lookup u (remove (l_url l) m) = Some e' -> lookup u m = Some e').
  { intros m e' X. rewrite lookup_remove in X. destruct (url_eqb u (l_url l)); [discriminate X|exact X]. }
  destruct (e_lang e0) as [lg|] eqn:El.
  - unfold sq_has_parser in *. destruct (kind lg) eqn:K.
    + inversion H; subst. cbn [s_docs set_docs]. split; [|split].
      * intros e' L'. rewrite lookup_upsert in L'. destruct (url_eqb u (l_url l')) eqn:E; [|exact (B e' L')].
        inversion L'; subst e'. unfold hasparsb. cbn [e_lang e_text e_set_doc]. rewrite L2. unfold sq_has_parser. rewrite K. reflexivity.
      * intros X. rewrite lookup_upsert. destruct (url_eqb u (l_url l')); [discriminate|exact X].
      * intros X. apply andb_true_iff in X as [X _]. rewrite lookup_upsert, url_eqb_sym, X. discriminate.
    + destruct lg; cbn in K; try discriminate K. discriminate N0.
    + inversion H; subst. cbn [s_docs set_docs]. split; [|split; [|cbn; rewrite ?andb_false_r; discriminate]].
      * intros e' L'. exact (B e' (Rm _ e' L')).
      * intros X. rewrite lookup_remove. destruct (url_eqb u (l_url l')) eqn:E; [|exact X].
        specialize (B0 eq_refl X). destruct (e_text e0); discriminate B0.
  - inversion H; subst. cbn [s_docs set_docs]. split; [|split; [|cbn; rewrite ?andb_false_r; discriminate]].
    + intros e' L'. exact (B e' (Rm _ e' L')).
    + intros X. rewrite lookup_remove. destruct (url_eqb u (l_url l')) eqn:E; [|exact X].
      specialize (B0 eq_refl X). discriminate B0.
Qed.

Lemma hasparsb_ign : forall k e, hasparsb (e_add_ign k e) = hasparsb e.
Proof. reflexivity. Qed.
Lemma hasparsb_lcfg : forall c e, hasparsb (e_set_lcfg c e) = hasparsb e.
Proof. reflexivity. Qed.

(* one instr of a handler that will not close u: entries of u keep a parser and a text, an entry of u stays, an effective
   critical section of u leaves one *)
Lemma exec_exist : forall u i p l w push l' w',
  exec i l w = Some (push, l', w') -> shape (i :: p) = true -> notcode (l_lang l) = true -> nocode_docs (s_docs w) ->
  (forall e, lookup u (s_docs w) = Some e -> hasparsb e = true) ->
  hcl u (i :: p) l = false ->
  (forall e', lookup u (s_docs w') = Some e' -> hasparsb e' = true) /\
  (lookup u (s_docs w) <> None -> lookup u (s_docs w') <> None) /\
  (upd_flag u i l w = true -> lookup u (s_docs w') <> None) /\
  hcl u (push ++ p) l' = false.
Proof.
  intros u i p l w push l' w' H S Nl Nd B Hc.
  destruct i; try discriminate S.
  all: try match type of H with exec IUpdate _ _ = _ =>
      destruct (iupdate_exist u _ _ _ _ _ H Nl Nd B) as (X1 & X2 & X3);
      destruct (iupdate_cases _ _ _ _ _ H Nl Nd) as (-> & -> & _);
      split; [exact X1|split; [exact X2|split; [exact X3|exact Hc]]] end.
  all: cbn [upd_flag]; exec_cases H.
  all: unfold hcl in *; cbn [app existsb isclose orb l_url lset_url lset_text lset_lang lset_ans lset_snap lset_ud lset_fd lset_word lset_queue lset_ver update_seq] in *.
  all: try (split; [exact B|split; [intro X; exact X|split; [discriminate|first [exact Hc|reflexivity]]]]).
  - (* IIgnore *)
    cbn [s_docs set_docs]. split; [|split; [|split; [discriminate|exact Hc]]].
    + intros e' L'. rewrite lookup_upsert in L'. destruct (url_eqb u (l_url l')) eqn:E; [|exact (B e' L')].
      inversion L'; subst e'. rewrite hasparsb_ign. apply url_eqb_eq in E. subst u. apply B. assumption.
    + intros X. rewrite lookup_upsert. destruct (url_eqb u (l_url l')); [discriminate|exact X].
  - (* IClose: not of u *)
    cbn [andb] in Hc. assert (E : url_eqb u (l_url l') = false) by (rewrite url_eqb_sym; exact Hc).
    cbn [s_docs set_lock send set_log set_docs]. split; [|split; [|split; [discriminate|]]].
    + intros e' L'. rewrite lookup_remove, E in L'. exact (B e' L').
    + intros X. rewrite lookup_remove, E. exact X.
    + rewrite Hc. apply andb_false_r.
  - (* ICfgRebuild *)
    destruct p; [|discriminate S]. cbn [s_docs set_docs]. rewrite lookup_map_val.
    split; [|split; [|split; [discriminate|reflexivity]]].
    + intros e' L'. destruct (lookup u (s_docs w)) as [e0|] eqn:Lu; [|discriminate L']. inversion L'; subst.
      rewrite hasparsb_lcfg. apply B. reflexivity.
    + intros X. destruct (lookup u (s_docs w)); [discriminate|congruence].
  - (* ICfgNext *)
    destruct p; [|discriminate S]. split; [exact B|split; [intro X; exact X|split; [discriminate|reflexivity]]].
Qed.

Lemma evs_eff : forall u id i l w, existsb (eff_upd u) (evs_of id i l w) = upd_flag u i l w.
Proof.
  intros u id i l w. destruct i; try reflexivity. cbn [evs_of upd_flag]. unfold updf.
  destruct (l_text l); cbn [existsb eff_upd]; rewrite ?orb_false_r, ?andb_false_r; reflexivity.
Qed.

Lemma prog_hcl : forall u o, noclose u o = true -> hcl u (prog o) (locals_of o) = false.
Proof.
  intros u o H. destruct o; try reflexivity. cbn in H |- *. apply negb_true_iff in H. rewrite H. reflexivity.
Qed.

(* ---------- the invariant: an entry of u, once there, stays ---------- *)
Record EInv (u : url) (w0 : world) (tr : list xevent) (y : sys) : Prop := mkEInv {
  ei_todo : forallb (noclose u) (y_todo y) = true;
  ei_hs : forall hs, In hs (y_flight y) -> hcl u (h_prog hs) (h_loc hs) = false;
  ei_ent : forall e, lookup u (s_docs (y_world y)) = Some e -> hasparsb e = true;
  ei_ex : existsb (eff_upd u) tr = true \/ lookup u (s_docs w0) <> None -> lookup u (s_docs (y_world y)) <> None
}.

Lemma einv_step : forall u w0 tr c y y', RInv u w0 tr y -> EInv u w0 tr y -> step c y = Some y' ->
  EInv u w0 (tr ++ xevents c y) y'.
Proof.
  intros u w0 tr c y y' R I H. pose proof (ri_l _ _ _ _ R) as L.
  destruct c as [|id].
  - cbn [xevents]. rewrite app_nil_r. cbn [step] in H. destruct (y_todo y) as [|o rest] eqn:T; [discriminate|].
    destruct (length (y_flight y) <? max_in_flight); [|discriminate]. inversion H; subst y'; clear H.
    destruct (client_effect_server o (y_world y)) as [Ed _].
    pose proof (ei_todo _ _ _ _ I) as Td. rewrite T in Td. cbn [forallb] in Td. apply andb_true_iff in Td as [To Tr].
    constructor; cbn [y_world y_flight y_todo].
    + exact Tr.
    + intros hs Hin. apply in_app_or in Hin as [Hin|[<-|[]]]; [exact (ei_hs _ _ _ _ I hs Hin)|exact (prog_hcl u o To)].
    + rewrite Ed. exact (ei_ent _ _ _ _ I).
    + rewrite Ed. exact (ei_ex _ _ _ _ I).
  - cbn [step] in H.
    destruct (find_h id (y_flight y)) as [hs|] eqn:Hf; [|discriminate].
    destruct (h_prog hs) as [|i p] eqn:Hp; [discriminate|].
    destruct (exec i (h_loc hs) (y_world y)) as [[[push l'] w']|] eqn:He; [|discriminate].
    inversion H; subst y'; clear H.
    rewrite (xevents_evs id y hs i p Hf Hp).
    destruct (find_h_In _ _ _ Hf) as [Hin Hi].
    destruct (ri_hs _ _ _ _ R hs Hin) as [Sh Nl]. rewrite Hp in Sh.
    pose proof (ri_docs _ _ _ _ R) as Nd.
    pose proof (li_ids y L) as ND.
    pose proof (ei_hs _ _ _ _ I hs Hin) as Hc. rewrite Hp in Hc.
    destruct (exec_exist u _ _ _ _ _ _ _ He Sh Nl Nd (ei_ent _ _ _ _ I) Hc) as (X1 & X2 & X3 & X4).
    constructor; cbn [y_world y_flight y_todo].
    + exact (ei_todo _ _ _ _ I).
    + intros a Ha. destruct (replace_h_In _ _ ND a Ha) as [(-> & _ & _)|(A & _)]; [exact X4|exact (ei_hs _ _ _ _ I a A)].
    + exact X1.
    + rewrite existsb_app, evs_eff. intros [X|X].
      * apply orb_true_iff in X as [X|X]; [apply X2, (ei_ex _ _ _ _ I); left; exact X|exact (X3 X)].
      * apply X2, (ei_ex _ _ _ _ I). right. exact X.
Qed.

Lemma einv_run : forall u w0 cs tr y y', RInv u w0 tr y -> EInv u w0 tr y -> run cs y = Some y' ->
  EInv u w0 (tr ++ xtrace cs y) y'.
Proof.
  intros u w0. induction cs as [|c cs IH]; intros tr y y' R I H; cbn [run xtrace] in *.
  - inversion H; subst. rewrite app_nil_r. exact I.
  - destruct (step c y) as [y1|] eqn:S; [|discriminate]. rewrite app_assoc. apply (IH _ y1 y'); [| |exact H].
    + exact (rinv_step u w0 tr c y y1 R S).
    + exact (einv_step u w0 tr c y y1 R I S).
Qed.

(* the start: the entry doc_state holds for u (if any) has a language with a parser and a text *)
Definition race_text_start (w0 : world) (u : url) : Prop :=
  forall e, lookup u (s_docs w0) = Some e -> hasparsb e = true.

(* 'only if' for the text flag: no didClose of u in the history, the flag `text overtaken` absent -> the last word of u
   carries the newest text.  With race_text_exact: for such histories  last word has the newest text <-> rf_text = false *)
Theorem race_text_onlyif : forall w0 h u cs y cd,
  race_gen_start w0 u -> race_text_start w0 u -> forallb okop h = true -> forallb (noclose u) h = true ->
  run cs (init h w0) = Some y -> quiescent y ->
  lookup u (w_open (y_world y)) = Some cd ->
  rf_text (race_shape w0 (y_world y) u (xtrace cs (init h w0))) = false ->
  ptext (lastword (y_world y) u) = Some (cd_text cd).
Proof.
  intros w0 h u cs y cd St Ts Hh Hn R Q Lc F.
  apply (race_text_exact w0 h u cs y cd St Hh R Q Lc). split; [exact F|].
  destruct St as (Hd & Nd & Hp).
  pose proof (rinv_init u w0 h Hd Nd Hh Hp) as R0.
  assert (E0 : EInv u w0 [] (init h w0)).
  { constructor; cbn [init y_world y_flight y_todo].
    - exact Hn.
    - intros hs [].
    - exact Ts.
    - intros [X|X]; [discriminate X|exact X]. }
  pose proof (einv_run u w0 cs [] _ _ R0 E0 R) as E. cbn [app] in E.
  assert (Ex : lookup u (s_docs (y_world y)) <> None).
  { apply (ei_ex _ _ _ _ E). rewrite rf_text_curt, Lc in F. apply negb_false_iff in F.
    destruct (split_last_spec (eff_upd u) (xtrace cs (init h w0))) as [[N S]|(a & e & b & Et & Pe & Nb & S)].
    - right. rewrite S in F. cbn [tsel] in F. destruct (lookup u (s_docs w0)); [discriminate|discriminate F].
    - left. rewrite Et, existsb_app. cbn [existsb]. rewrite Pe. rewrite orb_true_r. reflexivity. }
  unfold ptv. destruct (lookup u (s_docs (y_world y))) as [e|] eqn:Le; [|congruence].
  pose proof (ei_ent _ _ _ _ E e Le) as Hp'. unfold hasparsb in Hp'.
  destruct (e_lang e); [|discriminate Hp']. destruct (e_text e); [discriminate|discriminate Hp'].
Qed.

(* both directions for the text component, histories without a didClose of u *)
Theorem race_text_iff : forall w0 h u cs y cd,
  race_gen_start w0 u -> race_text_start w0 u -> forallb okop h = true -> forallb (noclose u) h = true ->
  run cs (init h w0) = Some y -> quiescent y ->
  lookup u (w_open (y_world y)) = Some cd ->
  (ptext (lastword (y_world y) u) = Some (cd_text cd) <->
   rf_text (race_shape w0 (y_world y) u (xtrace cs (init h w0))) = false).
Proof.
  intros w0 h u cs y cd St Ts Hh Hn R Q Lc. split.
  - intro X. apply (race_text_exact w0 h u cs y cd St Hh R Q Lc) in X as [X _]. exact X.
  - exact (race_text_onlyif w0 h u cs y cd St Ts Hh Hn R Q Lc).
Qed.

Definition text_startb (w0 : world) (u : url) : bool :=
  match lookup u (s_docs w0) with Some e => hasparsb e | None => true end.
Lemma text_startb_ok : forall w0 u, text_startb w0 u = true -> race_text_start w0 u.
Proof. intros w0 u H e Le. unfold text_startb in H. rewrite Le in H. exact H. Qed.

(* the schedule of race_dict_example (a dictionary race): the text flag is absent and the last word has the newest text;
   the schedule of race_gen_example (the command's re-read last): the text flag is set, the last word has text 0 *)
Lemma race_text_onlyif_example :
  race_gen_start race_wA uA /\ race_text_start race_wA uA /\
  forallb okop dict_example_h = true /\ forallb (noclose uA) dict_example_h = true /\
  forallb okop gen_example_h = true /\ forallb (noclose uA) gen_example_h = true /\
  (exists y cd, run dict_example_cs (init dict_example_h race_wA) = Some y /\ quiescent y /\
     lookup uA (w_open (y_world y)) = Some cd /\ cd_text cd = tx 1 /\
     rf_text (race_shape race_wA (y_world y) uA (xtrace dict_example_cs (init dict_example_h race_wA))) = false /\
     ptext (lastword (y_world y) uA) = Some (tx 1)) /\
  (exists y cd, run gen_example_cs (init gen_example_h race_wA) = Some y /\ quiescent y /\
     lookup uA (w_open (y_world y)) = Some cd /\ cd_text cd = tx 2 /\
     rf_text (race_shape race_wA (y_world y) uA (xtrace gen_example_cs (init gen_example_h race_wA))) = true /\
     ptext (lastword (y_world y) uA) = Some (tx 0)).
Proof.
  split; [split; [reflexivity|split; [apply nocode_docsb_ok; vm_compute; reflexivity|vm_compute; reflexivity]]|].
  split; [apply text_startb_ok; vm_compute; reflexivity|].
  split; [reflexivity|]. split; [reflexivity|]. split; [reflexivity|]. split; [reflexivity|].
  split; eexists; eexists; (split; [vm_compute; reflexivity|]); (split; [split; reflexivity|]);
    (split; [vm_compute; reflexivity|]); (split; [reflexivity|]); split; vm_compute; reflexivity.
Qed.
