(* LexSplitProofs.v — lexer locality for property C12 (over Model/Lexer.v, the C02 lexer model):
   no sub-lexer's answer at a position depends on anything behind the first newline that follows it, hence
   PlainEnglish::parse of P ++ D, for P ending in a newline and D not starting with one, is the tokens of P
   followed by the tokens of D moved by |P|. *)
Require Import Base Tables_lexer Lexer ListLemmas.
From Coq Require Import ZArith.

Definition NL : N := 10%N.
Definition nonl (a : text) : Prop := Forall (fun c => c <> NL) a.

(* ---------- generic list facts ---------- *)
Lemma cw_le {A} (p : A -> bool) l : count_while p l <= length l.
Proof. induction l as [|x l IH]; cbn; [lia|]. destruct (p x); cbn; lia. Qed.

Lemma cw_stop {A} (p : A -> bool) a x r : p x = false -> count_while p (a ++ x :: r) = count_while p a.
Proof.
  intros Hx. induction a as [|y a IH]; cbn [app count_while]; [now rewrite Hx|].
  destruct (p y); [now rewrite IH|reflexivity].
Qed.

Lemma cw_all_app {A} (p : A -> bool) a r : forallb p a = true -> count_while p (a ++ r) = length a + count_while p r.
Proof.
  induction a as [|y a IH]; intros H; [reflexivity|]. cbn in H. apply andb_true_iff in H. destruct H as [H1 H2].
  cbn [app count_while length]. rewrite H1, IH by exact H2. reflexivity.
Qed.

Lemma firstn_app_le {A} n (a r : list A) : n <= length a -> firstn n (a ++ r) = firstn n a.
Proof. intros H. rewrite firstn_app. replace (n - length a) with 0 by lia. cbn. now rewrite app_nil_r. Qed.

Lemma skipn_app_le {A} n (a r : list A) : n <= length a -> skipn n (a ++ r) = skipn n a ++ r.
Proof. intros H. rewrite skipn_app. replace (n - length a) with 0 by lia. reflexivity. Qed.

Lemma nonl_cons c a : nonl (c :: a) -> c <> NL /\ nonl a.
Proof. intros H. inversion H; subst. now split. Qed.

Lemma ceq_nl_false c : c <> NL -> ceq NL c = false /\ ceq c NL = false.
Proof. intros H. unfold ceq. split; apply N.eqb_neq; congruence. Qed.

Ltac break_match_hyp H :=
  repeat match type of H with
         | context [match ?x with _ => _ end] => destruct x eqn:?; try discriminate H
         end.

(* ================================================================================================ *)
(* 1. progress: every sub-lexer consumes at least one character                                     *)
(* ================================================================================================ *)
Section Progress.
  Variable u : uni.

  Lemma regex_loop_gt : forall m rest i n, length rest <= m -> regex_loop u rest i = Some n -> i < n.
  Proof.
    induction m as [|m IH]; intros rest i n Hm H.
    - destruct rest; [discriminate|cbn in Hm; lia].
    - destruct rest as [|c [|d [|e [|x r3]]]]; cbn [regex_loop] in H; try discriminate H; break_match_hyp H;
        try discriminate H;
        try (injection H as <-; lia);
        try (apply IH in H; [lia|cbn [length] in *; lia]).
  Qed.

  Lemma longest_float_bounds : forall n s m k, longest_float n s = Some (m, k) -> 1 <= m <= n.
  Proof.
    induction n as [|n IH]; intros s m k H; [discriminate|].
    cbn [longest_float] in H. destruct (parse_finite (firstn (S n) s)) as [[[neg mant] ex]|].
    - injection H as <- _. lia.
    - apply IH in H. lia.
  Qed.

  Lemma lex_token_progress s n k : lex_token u s = Some (n, k) -> 1 <= n.
  Proof.
    unfold lex_token, or_else. intros H.
    destruct (lex_regexish u s) as [[n0 k0]|] eqn:E1.
    { inversion H; subst. unfold lex_regexish in E1. break_match_hyp E1. inversion E1; subst.
      match goal with H : regex_loop _ _ _ = Some _ |- _ => apply (regex_loop_gt _ _ _ _ (le_n _)) in H; lia end. }
    destruct (lex_punctuation s) as [[n0 k0]|] eqn:E2.
    { inversion H; subst. unfold lex_punctuation in E2.
      destruct (lex_quote s) as [[a b]|] eqn:Q.
      - unfold lex_quote in Q. break_match_hyp Q. inversion Q; inversion E2; subst. lia.
      - break_match_hyp E2. inversion E2; subst. lia. }
    destruct (lex_tabs s) as [[n0 k0]|] eqn:E3.
    { inversion H; subst. unfold lex_tabs in E3. break_match_hyp E3. inversion E3; subst.
      match goal with H : (_ =? 0) = false |- _ => apply Nat.eqb_neq in H; lia end. }
    destruct (lex_spaces s) as [[n0 k0]|] eqn:E4.
    { inversion H; subst. unfold lex_spaces in E4. break_match_hyp E4. inversion E4; subst.
      match goal with H : (_ =? 0) = false |- _ => apply Nat.eqb_neq in H; lia end. }
    destruct (lex_newlines s) as [[n0 k0]|] eqn:E5.
    { inversion H; subst. unfold lex_newlines in E5. break_match_hyp E5. inversion E5; subst.
      match goal with H : (_ =? 0) = false |- _ => apply Nat.eqb_neq in H; lia end. }
    destruct (lex_plural_digit u s) as [[n0 k0]|] eqn:E6.
    { inversion H; subst. unfold lex_plural_digit in E6. break_match_hyp E6; inversion E6; subst; lia. }
    destruct (lex_hex_number u s) as [[n0 k0]|] eqn:E7.
    { inversion H; subst. unfold lex_hex_number in E7. break_match_hyp E7; inversion E7; subst; lia. }
    destruct (lex_long_decade u s) as [[n0 k0]|] eqn:E8.
    { inversion H; subst. unfold lex_long_decade in E8. break_match_hyp E8; inversion E8; subst; lia. }
    destruct (lex_number u s) as [[n0 k0]|] eqn:E9.
    { inversion H; subst. unfold lex_number in E9. break_match_hyp E9. apply longest_float_bounds in E9. lia. }
    destruct (lex_url u s) as [[n0 k0]|] eqn:E10.
    { inversion H; subst. unfold lex_url in E10. break_match_hyp E10. inversion E10; subst. lia. }
    destruct (lex_email_address u s) as [[n0 k0]|] eqn:E11.
    { inversion H; subst. unfold lex_email_address in E11. break_match_hyp E11; inversion E11; subst; lia. }
    destruct (lex_hostname_token s) as [[n0 k0]|] eqn:E12.
    { inversion H; subst. unfold lex_hostname_token in E12. break_match_hyp E12; inversion E12; subst;
        match goal with H : (_ <=? 1) = false |- _ => apply Nat.leb_gt in H; lia end. }
    destruct (lex_word u s) as [[n0 k0]|] eqn:E13.
    { inversion H; subst. unfold lex_word in E13. break_match_hyp E13. inversion E13; subst.
      match goal with H : (_ =? 0) = false |- _ => apply Nat.eqb_neq in H; lia end. }
    unfold lex_catch in H. inversion H; subst. lia.
  Qed.

  Lemma lex_token_some s : exists n k, lex_token u s = Some (n, k).
  Proof.
    unfold lex_token, or_else.
    repeat match goal with |- context [match ?x with Some _ => _ | None => _ end] =>
      destruct x as [[? ?]|]; [eexists; eexists; reflexivity|] end.
    unfold lex_catch. eexists; eexists; reflexivity.
  Qed.
End Progress.

(* ================================================================================================ *)
(* 2. PlainEnglish::parse: total, fuel-independent, cursor-equivariant                              *)
(* ================================================================================================ *)
Definition shift_token (n : nat) (t : token) : token := mktok (push_by (tspan t) n) (tkind_of t).

Section PlainLoop.
  Variable u : uni.

  Lemma span_new_le a b : a <= b -> span_new a b = Ok (mkspan a b).
  Proof. intros H. unfold span_new. destruct (b <? a) eqn:E; [apply Nat.ltb_lt in E; lia|reflexivity]. Qed.

  (* enough fuel: the loop never panics and its result does not depend on the fuel *)
  Lemma plain_loop_total : forall fuel rest c, length rest <= fuel -> exists ts, plain_loop u fuel c rest = Ok ts.
  Proof.
    induction fuel as [|f IH]; intros rest c Hf.
    - destruct rest; [now exists []|cbn in Hf; lia].
    - destruct rest as [|x r]; [now exists []|].
      cbn [plain_loop]. destruct (lex_token_some u (x :: r)) as (n & k & E). rewrite E.
      pose proof (lex_token_progress u _ _ _ E) as Hn.
      rewrite span_new_le by lia. cbn [bind].
      destruct (IH (skipn n (x :: r)) (c + n)) as [tl Htl].
      { rewrite skipn_length. cbn [length] in *. lia. }
      rewrite Htl. cbn [bind]. eexists. reflexivity.
  Qed.

  Lemma plain_loop_fuel : forall f1 f2 rest c, length rest <= f1 -> length rest <= f2 ->
    plain_loop u f1 c rest = plain_loop u f2 c rest.
  Proof.
    induction f1 as [|f1 IH]; intros f2 rest c H1 H2.
    - destruct rest; [destruct f2; reflexivity|cbn in H1; lia].
    - destruct rest as [|x r]; [destruct f2; reflexivity|].
      destruct f2 as [|f2]; [cbn in H2; lia|].
      cbn [plain_loop]. destruct (lex_token u (x :: r)) as [[n k]|] eqn:E; [|reflexivity].
      pose proof (lex_token_progress u _ _ _ E) as Hn.
      rewrite (IH f2 (skipn n (x :: r)) (c + n)); [reflexivity| |]; rewrite skipn_length; cbn [length] in *; lia.
  Qed.

  Lemma plain_loop_shift : forall fuel rest c m,
    plain_loop u fuel (c + m) rest = match plain_loop u fuel c rest with
                                     | Ok ts => Ok (map (shift_token m) ts)
                                     | Panic w => Panic w
                                     end.
  Proof.
    induction fuel as [|f IH]; intros rest c m.
    - destruct rest; reflexivity.
    - destruct rest as [|x r]; [reflexivity|]. cbn [plain_loop].
      destruct (lex_token u (x :: r)) as [[n k]|]; [|reflexivity].
      rewrite !span_new_le by lia. cbn [bind].
      replace (c + m + n) with (c + n + m) by lia. rewrite IH.
      destruct (plain_loop u f (c + n) (skipn n (x :: r))) as [tl|w]; [|reflexivity].
      cbn [bind map]. unfold shift_token at 1, push_by. cbn [tspan tkind_of sstart send].
      replace (c + m + n) with (c + n + m) by lia. reflexivity.
  Qed.
End PlainLoop.

(* ================================================================================================ *)
(* 3. locality: a sub-lexer started on a non-newline character never looks behind the next newline  *)
(* ================================================================================================ *)
Lemma position_lt {A} (p : A -> bool) l i : position p l = Some i -> i < length l.
Proof.
  revert i. induction l as [|x l IH]; intros i H; [discriminate|]. cbn [position] in H.
  destruct (p x); [injection H as <-; cbn; lia|].
  destruct (position p l) as [j|]; [|discriminate]. injection H as <-. specialize (IH j eq_refl). cbn. lia.
Qed.

Lemma position_app_in {A} (p : A -> bool) a r i : position p a = Some i -> position p (a ++ r) = Some i.
Proof.
  revert i. induction a as [|x a IH]; intros i H; [discriminate|]. cbn [position app] in *.
  destruct (p x); [exact H|].
  destruct (position p a) as [j|]; [|discriminate]. now rewrite (IH j eq_refl).
Qed.

Lemma position_app_notin {A} (p : A -> bool) a r :
  position p a = None ->
  position p (a ++ r) = match position p r with Some i => Some (length a + i) | None => None end.
Proof.
  induction a as [|x a IH]; intros H; cbn [position app length] in *.
  - destruct (position p r); reflexivity.
  - destruct (p x); [discriminate|]. destruct (position p a) as [j|]; [discriminate|].
    rewrite IH by reflexivity. destruct (position p r); reflexivity.
Qed.

Lemma rposition_lt {A} (p : A -> bool) l i : rposition p l = Some i -> i < length l.
Proof.
  revert i. induction l as [|x l IH]; intros i H; [discriminate|]. cbn [rposition] in H.
  destruct (rposition p l) as [j|].
  - injection H as <-. specialize (IH j eq_refl). cbn. lia.
  - destruct (p x); [injection H as <-; cbn; lia|discriminate].
Qed.

Lemma nth_error_app_l {A} (a r : list A) i : i < length a -> nth_error (a ++ r) i = nth_error a i.
Proof. intros H. now apply nth_error_app1. Qed.

Lemma nth_error_app_mid {A} (a r : list A) x : nth_error (a ++ x :: r) (length a) = Some x.
Proof. rewrite nth_error_app2 by lia. now rewrite Nat.sub_diag. Qed.

Section Local.
  Variable u : uni.
  (* the only Unicode facts used: '\n' is whitespace and neither numeric, alphabetic nor "English lingual"
     (monitored by the harness against Rust's char methods) *)
  Hypothesis nl_whitespace : u_whitespace u NL = true.
  Hypothesis nl_not_numeric : u_numeric u NL = false.
  Hypothesis nl_not_alphabetic : u_alphabetic u NL = false.
  Hypothesis nl_not_lingual : u_lingual u NL = false.

  Lemma nl_not_alphanumeric : u_alphanumeric u NL = false.
  Proof. unfold u_alphanumeric. now rewrite nl_not_alphabetic, nl_not_numeric. Qed.

  (* "L is local": on a text whose first newline sits behind the non-empty, newline-free prefix a, the
     answer does not depend on what follows that newline, and the token ends before it *)
  Definition local (L : text -> option (nat * tkind)) : Prop :=
    forall a r r', nonl a -> a <> [] -> L (a ++ NL :: r) = L (a ++ NL :: r').
  Definition bounded (L : text -> option (nat * tkind)) : Prop :=
    forall a r n k, nonl a -> a <> [] -> L (a ++ NL :: r) = Some (n, k) -> n <= length a.

  (* ---------- the run lexers ---------- *)
  Lemma lex_word_local : local (lex_word u) /\ bounded (lex_word u).
  Proof.
    assert (Hq : (fun c => u_lingual u c || is_ascii_digit c) NL = false) by (cbn beta; now rewrite nl_not_lingual).
    split.
    - intros a r r' _ _. unfold lex_word. now rewrite !(cw_stop _ a NL _ Hq).
    - intros a r n k _ _ H. unfold lex_word in H. rewrite (cw_stop _ a NL _ Hq) in H.
      destruct (_ =? 0); [discriminate|]. injection H as <- _. apply cw_le.
  Qed.

  Lemma lex_tabs_local : local lex_tabs /\ bounded lex_tabs.
  Proof.
    assert (Hq : ceq 9 NL = false) by reflexivity. split.
    - intros a r r' _ _. unfold lex_tabs. now rewrite !(cw_stop _ a NL _ Hq).
    - intros a r n k _ _ H. unfold lex_tabs in H. rewrite (cw_stop _ a NL _ Hq) in H.
      destruct (_ =? 0); [discriminate|]. injection H as <- _. apply cw_le.
  Qed.

  Lemma lex_spaces_local : local lex_spaces /\ bounded lex_spaces.
  Proof.
    assert (Hq : ceq 32 NL = false) by reflexivity. split.
    - intros a r r' _ _. unfold lex_spaces. now rewrite !(cw_stop _ a NL _ Hq).
    - intros a r n k _ _ H. unfold lex_spaces in H. rewrite (cw_stop _ a NL _ Hq) in H.
      destruct (_ =? 0); [discriminate|]. injection H as <- _. apply cw_le.
  Qed.

  Lemma lex_newlines_none a r : nonl a -> a <> [] -> lex_newlines (a ++ NL :: r) = None.
  Proof.
    intros Ha Hne. destruct a as [|c a']; [contradiction|]. apply nonl_cons in Ha. destruct Ha as [Hc _].
    unfold lex_newlines. cbn [app count_while]. destruct (ceq_nl_false c Hc) as [H1 _].
    unfold NL in H1. rewrite H1. reflexivity.
  Qed.

  Lemma lex_newlines_local : local lex_newlines /\ bounded lex_newlines.
  Proof.
    split.
    - intros a r r' Ha Hne. now rewrite !lex_newlines_none.
    - intros a r n k Ha Hne H. rewrite lex_newlines_none in H by assumption. discriminate.
  Qed.

  Lemma lex_punctuation_local : local lex_punctuation /\ bounded lex_punctuation.
  Proof.
    split.
    - intros a r r' _ Hne. destruct a as [|c a']; [contradiction|]. reflexivity.
    - intros a r n k _ Hne H. destruct a as [|c a']; [contradiction|].
      unfold lex_punctuation, lex_quote in H. cbn [app] in H.
      destruct (mem_n c quote_chars); [injection H as <- _; cbn; lia|].
      destruct (punct_from_char c); [injection H as <- _; cbn; lia|discriminate].
  Qed.

  Lemma lex_catch_local : local lex_catch /\ bounded lex_catch.
  Proof.
    split; [intros a r r' _ _; reflexivity|].
    intros a r n k _ Hne H. injection H as <- _. destruct a; [contradiction|cbn; lia].
  Qed.

  (* ---------- lex_number ---------- *)
  Lemma is_float_char_nl : is_float_char NL = false.
  Proof. reflexivity. Qed.

  Lemma lex_number_local : local (lex_number u) /\ bounded (lex_number u).
  Proof.
    assert (Hkey : forall a r, a <> [] ->
              lex_number u (a ++ NL :: r) =
              match a with
              | [] => None
              | c0 :: _ =>
                  if negb (u_numeric u c0) then None else
                  let limit := count_while is_float_char a in
                  match rposition is_ascii_digit (firstn limit a) with
                  | None => None
                  | Some e => let s := firstn (S e) a in longest_float (length s) s
                  end
              end).
    { intros a r Hne. destruct a as [|c0 a']; [contradiction|].
      unfold lex_number. cbn [app]. destruct (negb (u_numeric u c0)); [reflexivity|].
      change (c0 :: a' ++ NL :: r) with ((c0 :: a') ++ NL :: r).
      rewrite (cw_stop _ (c0 :: a') NL r is_float_char_nl).
      pose proof (cw_le is_float_char (c0 :: a')) as Hl.
      rewrite firstn_app_le by exact Hl. cbv zeta. unfold text, char in *.
      match goal with |- context [rposition ?p ?l] => destruct (rposition p l) as [e|] eqn:E end; [|reflexivity].
      apply rposition_lt in E. rewrite firstn_length in E.
      rewrite firstn_app_le by lia. reflexivity. }
    split.
    - intros a r r' _ Hne. now rewrite !Hkey.
    - intros a r n k _ Hne H. rewrite Hkey in H by exact Hne. destruct a as [|c0 a']; [discriminate|].
      destruct (negb (u_numeric u c0)); [discriminate|]. cbv zeta in H.
      destruct (rposition _ _) as [e|] eqn:E; [|discriminate].
      apply rposition_lt in E. rewrite firstn_length in E.
      apply longest_float_bounds in H. pose proof (firstn_le_length (S e) (c0 :: a')). unfold text, char in *. lia.
  Qed.

  (* ---------- hostname ---------- *)
  Lemma host_char_nl : host_char NL = false.
  Proof. reflexivity. Qed.

  Lemma lex_hostname_at a r :
    lex_hostname (a ++ NL :: r) =
    match a with
    | [] => None
    | c :: _ => if is_ascii_alphanumeric c then Some (count_while host_char a) else None
    end.
  Proof.
    destruct a as [|c a']; [reflexivity|]. unfold lex_hostname. cbn [app].
    change (c :: a' ++ NL :: r) with ((c :: a') ++ NL :: r).
    now rewrite (cw_stop _ (c :: a') NL r host_char_nl).
  Qed.

  Lemma lex_hostname_token_local : local lex_hostname_token /\ bounded lex_hostname_token.
  Proof.
    assert (Hkey : forall a r, a <> [] ->
              lex_hostname_token (a ++ NL :: r) =
              match lex_hostname (a ++ [NL]) with
              | None => None
              | Some len =>
                  if len <=? 1 then None else
                  if negb (mem_n 46 (slice a 1 (len - 1))) then None else
                  match nth_error a (len - 1) with
                  | Some c => if ceq c 46 then None else Some (len, KHostname)
                  | None => Some (len, KHostname)
                  end
              end /\ (forall len, lex_hostname (a ++ [NL]) = Some len -> len <= length a)).
    { intros a r Hne. unfold lex_hostname_token. rewrite !lex_hostname_at.
      destruct a as [|c a']; [contradiction|].
      destruct (is_ascii_alphanumeric c); [|split; [reflexivity|discriminate]].
      unfold text, char in *.
      pose proof (cw_le host_char (c :: a')) as Hl. set (len := count_while host_char (c :: a')) in *.
      split; [|intros ? [= <-]; exact Hl].
      destruct (len <=? 1) eqn:E1; [reflexivity|]. apply Nat.leb_gt in E1.
      assert (Hs : slice ((c :: a') ++ NL :: r) 1 (len - 1) = slice (c :: a') 1 (len - 1)).
      { unfold slice. cbn [app skipn]. apply firstn_app_le. cbn [length] in Hl. lia. }
      rewrite Hs. destruct (negb (mem_n 46 (slice (c :: a') 1 (len - 1)))); [reflexivity|].
      rewrite nth_error_app_l by lia. reflexivity. }
    split.
    - intros a r r' _ Hne. etransitivity; [exact (proj1 (Hkey a r Hne))|symmetry; exact (proj1 (Hkey a r' Hne))].
    - intros a r n k _ Hne H. destruct (Hkey a r Hne) as [H1 H2].
      assert (H' := eq_trans (eq_sym H1) H). clear H. rename H' into H. unfold text, char in *.
      destruct (lex_hostname (a ++ [NL])) as [len|]; [|discriminate]. specialize (H2 len eq_refl).
      break_match_hyp H; inversion H; subst; exact H2.
  Qed.

  (* ---------- e-mail address (the candidate does not start with a double quote: lex_punctuation
     comes first in the dispatch and takes every double quote) ---------- *)
  Lemma nonws_nl : (fun c => negb (u_whitespace u c)) NL = false.
  Proof. cbn beta. now rewrite nl_whitespace. Qed.

  Lemma lex_email_local a r r' : nonl a -> (match a with c :: _ => ceq c 34 = false | [] => False end) ->
    lex_email_address u (a ++ NL :: r) = lex_email_address u (a ++ NL :: r') /\
    forall n k, lex_email_address u (a ++ NL :: r) = Some (n, k) -> n <= length a.
  Proof.
    intros Ha Hq. destruct a as [|c a']; [contradiction|].
    assert (Hkey : forall r0,
      lex_email_address u ((c :: a') ++ NL :: r0) =
      let limit := count_while (fun c => negb (u_whitespace u c)) (c :: a') in
      match rposition (ceq 64) (firstn limit (c :: a')) with
      | None => None
      | Some at_loc =>
          if negb (validate_local_part (firstn at_loc (c :: a'))) then None else
          match lex_hostname (skipn (at_loc + 1) (c :: a') ++ [NL]) with
          | None => None
          | Some dl => if dl =? 0 then None else Some (at_loc + 1 + dl, KEmail)
          end
      end).
    { intros r0. unfold lex_email_address. cbn [app]. rewrite Hq. unfold text, char in *.
      change (c :: a' ++ NL :: r0) with ((c :: a') ++ NL :: r0).
      rewrite (cw_stop _ (c :: a') NL r0 nonws_nl).
      pose proof (cw_le (fun c => negb (u_whitespace u c)) (c :: a')) as Hl. cbv zeta.
      rewrite firstn_app_le by exact Hl. unfold text, char in *.
      match goal with |- context [rposition ?p ?l] => destruct (rposition p l) as [at_loc|] eqn:E end; [|reflexivity].
      apply rposition_lt in E. rewrite firstn_length in E.
      rewrite firstn_app_le by lia.
      destruct (negb (validate_local_part (firstn at_loc (c :: a')))); [reflexivity|].
      rewrite skipn_app_le by lia. rewrite !lex_hostname_at. reflexivity. }
    split; [now rewrite !Hkey|].
    intros n k H. rewrite Hkey in H. cbv zeta in H.
    destruct (rposition _ _) as [at_loc|] eqn:E; [|discriminate].
    apply rposition_lt in E. rewrite firstn_length in E.
    destruct (negb _); [discriminate|].
    rewrite lex_hostname_at in H.
    destruct (skipn (at_loc + 1) (c :: a')) as [|x rest] eqn:Es; [discriminate|].
    destruct (is_ascii_alphanumeric x); [|discriminate].
    destruct (_ =? 0); [discriminate|]. injection H as <- _.
    pose proof (cw_le host_char (x :: rest)) as Hl.
    assert (Hlen : length (x :: rest) = length (c :: a') - (at_loc + 1)) by (rewrite <- Es; apply skipn_length).
    unfold text, char in *.
    change (if host_char x then S (count_while host_char rest) else 0) with (count_while host_char (x :: rest)).
    lia.
  Qed.

  (* ---------- the fixed-window lexers: case analysis on the first characters ---------- *)
  Lemma nlf_apos : ceq NL 39 = false. Proof. reflexivity. Qed.
  Lemma nlf_s : ceq NL 115 = false. Proof. reflexivity. Qed.
  Lemma nlf_0 : ceq NL 48 = false. Proof. reflexivity. Qed.
  Lemma nlf_x : ceq NL 120 = false. Proof. reflexivity. Qed.
  Lemma nlf_alnum : is_ascii_alphanumeric NL = false. Proof. reflexivity. Qed.
  Lemma nlf_digit : is_ascii_digit NL = false. Proof. reflexivity. Qed.
  Lemma nlf_hex : is_ascii_hexdigit NL = false. Proof. reflexivity. Qed.
  Lemma nlf_1 : ceq NL 49 = false. Proof. reflexivity. Qed.
  Lemma nlf_2 : ceq NL 50 = false. Proof. reflexivity. Qed.

  Ltac nlstep :=
    cbv beta iota;
    rewrite ?nlf_apos, ?nlf_s, ?nlf_0, ?nlf_x, ?nlf_alnum, ?nlf_digit, ?nlf_hex, ?nlf_1, ?nlf_2, ?nl_not_alphanumeric;
    cbn [negb andb orb]; cbv beta iota.
  Ltac nlstep_in H :=
    cbv beta iota in H;
    rewrite ?nlf_apos, ?nlf_s, ?nlf_0, ?nlf_x, ?nlf_alnum, ?nlf_digit, ?nlf_hex, ?nlf_1, ?nlf_2, ?nl_not_alphanumeric in H;
    cbn [negb andb orb] in H; cbv beta iota in H.
  Ltac split_ifs :=
    repeat (match goal with |- context [if ?b then _ else _] => destruct b eqn:? end; nlstep).
  Ltac split_ifs_in H :=
    repeat (match type of H with context [if ?b then _ else _] => destruct b eqn:? end; nlstep_in H;
            try discriminate H).

  Lemma lex_plural_digit_local : local (lex_plural_digit u) /\ bounded (lex_plural_digit u).
  Proof.
    split.
    - intros a r r' _ Hne. destruct a as [|c0 [|c1 [|c2 [|c3 a4]]]]; [contradiction|..];
        unfold lex_plural_digit; cbn [app]; nlstep; split_ifs; reflexivity.
    - intros a r n k _ Hne H. destruct a as [|c0 [|c1 [|c2 [|c3 a4]]]]; [contradiction|..];
        unfold lex_plural_digit in H; cbn [app] in H; nlstep_in H; try discriminate H; split_ifs_in H;
        try discriminate H; inversion H; subst; cbn [length]; lia.
  Qed.

  Lemma lex_long_decade_local : local (lex_long_decade u) /\ bounded (lex_long_decade u).
  Proof.
    split.
    - intros a r r' _ Hne. destruct a as [|c0 [|c1 [|c2 [|c3 [|c4 [|c5 a6]]]]]]; [contradiction|..];
        unfold lex_long_decade; cbn [app]; nlstep;
        try (destruct r as [|? [|? [|? [|? [|? ?]]]]], r' as [|? [|? [|? [|? [|? ?]]]]]; nlstep; split_ifs; reflexivity);
        split_ifs; reflexivity.
    - intros a r n k _ Hne H. destruct a as [|c0 [|c1 [|c2 [|c3 [|c4 [|c5 a6]]]]]]; [contradiction|..];
        unfold lex_long_decade in H; cbn [app] in H; nlstep_in H;
        try (destruct r as [|? [|? [|? [|? [|? ?]]]]]; nlstep_in H; split_ifs_in H; discriminate H);
        split_ifs_in H; try discriminate H; inversion H; subst; cbn [length]; lia.
  Qed.

  Lemma lex_hex_short a r : nonl a -> length a < 3 -> lex_hex_number u (a ++ NL :: r) = None.
  Proof.
    intros _ Hl. destruct a as [|c0 [|c1 [|c2 a3]]]; [| | |cbn [length] in Hl; lia];
      unfold lex_hex_number; cbn [app].
    - destruct r as [|x [|y r2]]; reflexivity.
    - destruct r as [|x r1]; [reflexivity|]. rewrite nlf_x. cbn [negb orb]. now rewrite orb_true_r.
    - rewrite nlf_hex. cbn [negb]. now rewrite orb_true_r.
  Qed.

  Lemma lex_hex_long c0 c1 c2 a3 r :
    lex_hex_number u ((c0 :: c1 :: c2 :: a3) ++ NL :: r) =
    if negb (ceq c0 48) || negb (ceq c1 120) || negb (is_ascii_hexdigit c2) then None else
    let k := count_while is_ascii_hexdigit (c2 :: a3) in
    let stops_ok := match nth_error (c2 :: a3) k with
                    | Some next => negb (u_alphanumeric u next)
                    | None => true
                    end in
    if negb stops_ok then None else
    let v := hex_digits_val (firstn k (c2 :: a3)) in
    if (v <? two_pow_64)%N then Some (k + 2, KNumber (mknumber false v 0%Z None 16 0)) else None.
  Proof.
    unfold lex_hex_number. cbn [app skipn]. unfold text, char in *.
    destruct (negb (ceq c0 48) || negb (ceq c1 120) || negb (is_ascii_hexdigit c2)); [reflexivity|].
    change (c2 :: a3 ++ NL :: r) with ((c2 :: a3) ++ NL :: r).
    rewrite (cw_stop _ (c2 :: a3) NL r nlf_hex).
    pose proof (cw_le is_ascii_hexdigit (c2 :: a3)) as Hl. cbv zeta.
    rewrite firstn_app_le by exact Hl.
    set (k := count_while is_ascii_hexdigit (c2 :: a3)) in *.
    assert (Hn : (match nth_error ((c2 :: a3) ++ NL :: r) k with
                  | Some next => negb (u_alphanumeric u next) | None => true end)
                 = (match nth_error (c2 :: a3) k with
                    | Some next => negb (u_alphanumeric u next) | None => true end)).
    { destruct (Nat.eq_dec k (length (c2 :: a3))) as [E|E].
      - rewrite E, nth_error_app_mid, nl_not_alphanumeric.
        assert (Hnone : nth_error (c2 :: a3) (length (c2 :: a3)) = None) by (apply nth_error_None; lia).
        now rewrite Hnone.
      - rewrite nth_error_app_l by lia. reflexivity. }
    rewrite Hn. reflexivity.
  Qed.

  Lemma lex_hex_number_local : local (lex_hex_number u) /\ bounded (lex_hex_number u).
  Proof.
    split.
    - intros a r r' Ha Hne. destruct a as [|c0 [|c1 [|c2 a3]]];
        try (rewrite !lex_hex_short by (assumption || cbn [length]; lia); reflexivity).
      now rewrite !lex_hex_long.
    - intros a r n k Ha Hne H. destruct a as [|c0 [|c1 [|c2 a3]]];
        try (rewrite lex_hex_short in H by (assumption || cbn [length]; lia); discriminate H).
      rewrite lex_hex_long in H. cbv zeta in H.
      pose proof (cw_le is_ascii_hexdigit (c2 :: a3)) as Hl. unfold text, char in *.
      remember (count_while is_ascii_hexdigit (c2 :: a3)) as k0 eqn:Ek0. clear Ek0.
      break_match_hyp H; inversion H; subst; cbn [length] in *; lia.
  Qed.

  (* ---------- lex_regexish ---------- *)
  Lemma nlf_dash : ceq NL 45 = false. Proof. reflexivity. Qed.
  Lemma nlf_close : ceq NL 93 = false. Proof. reflexivity. Qed.

  Lemma regex_loop_nl (r : list N) i : regex_loop u (NL :: r) i = None.
  Proof. cbn [regex_loop]. now rewrite nl_not_alphanumeric. Qed.

  Lemma regex_loop_unfold (c : N) (r1 : list N) i :
    regex_loop u (c :: r1) i =
    if negb (u_alphanumeric u c) then None else
    match r1 with
    | [] => None
    | d :: r2 =>
        if ceq d 45 then
          match r2 with
          | [] => None
          | e :: r3 =>
              if negb (u_alphanumeric u e) then None else
              match r3 with
              | [] => None
              | x :: _ => if ceq x 93 then Some (i + 3 + 1) else regex_loop u r3 (i + 3)
              end
          end
        else if ceq d 93 then Some (i + 1 + 1) else regex_loop u r1 (i + 1)
    end.
  Proof. reflexivity. Qed.

  Lemma regex_loop_local : forall m a1 i r r', length a1 <= m ->
    regex_loop u (a1 ++ NL :: r) i = regex_loop u (a1 ++ NL :: r') i /\
    (forall n, regex_loop u (a1 ++ NL :: r) i = Some n -> n <= i + length a1).
  Proof.
    unfold text, char in *.
    induction m as [|m IH]; intros a1 i r r' Hm.
    - destruct a1; [|cbn in Hm; lia]. cbn [app]. rewrite !regex_loop_nl. split; [reflexivity|discriminate].
    - destruct a1 as [|c [|d a3]].
      + cbn [app]. rewrite !regex_loop_nl. split; [reflexivity|discriminate].
      + cbn [app]. rewrite (regex_loop_unfold c (NL :: r) i), (regex_loop_unfold c (NL :: r') i).
        cbv beta iota. rewrite nlf_dash, nlf_close, !regex_loop_nl.
        destruct (negb (u_alphanumeric u c)); split; (reflexivity || discriminate).
      + cbn [app]. rewrite (regex_loop_unfold c (d :: a3 ++ NL :: r) i), (regex_loop_unfold c (d :: a3 ++ NL :: r') i).
        cbv beta iota.
        destruct (negb (u_alphanumeric u c)); [split; [reflexivity|discriminate]|].
        destruct (ceq d 45).
        * destruct a3 as [|e [|x a5]]; cbn [app]; cbv beta iota.
          -- rewrite nl_not_alphanumeric. cbn [negb]. split; [reflexivity|discriminate].
          -- rewrite nlf_close, !regex_loop_nl.
             destruct (negb (u_alphanumeric u e)); split; (reflexivity || discriminate).
          -- destruct (negb (u_alphanumeric u e)); [split; [reflexivity|discriminate]|].
             destruct (ceq x 93).
             ++ split; [reflexivity|]. intros n [= <-]. cbn [length]. lia.
             ++ change (x :: a5 ++ NL :: r) with ((x :: a5) ++ NL :: r).
                change (x :: a5 ++ NL :: r') with ((x :: a5) ++ NL :: r').
                destruct (IH (x :: a5) (i + 3) r r') as [H1 H2]; [cbn [length] in *; lia|].
                split; [exact H1|]. intros n Hn. apply H2 in Hn. cbn [length] in *. lia.
        * destruct (ceq d 93).
          -- split; [reflexivity|]. intros n [= <-]. cbn [length]. lia.
          -- change (d :: a3 ++ NL :: r) with ((d :: a3) ++ NL :: r).
             change (d :: a3 ++ NL :: r') with ((d :: a3) ++ NL :: r').
             destruct (IH (d :: a3) (i + 1) r r') as [H1 H2]; [cbn [length] in *; lia|].
             split; [exact H1|]. intros n Hn. apply H2 in Hn. cbn [length] in *. lia.
  Qed.

  Lemma lex_regexish_local : local (lex_regexish u) /\ bounded (lex_regexish u).
  Proof.
    split.
    - intros a r r' _ Hne. destruct a as [|c a1]; [contradiction|]. unfold lex_regexish. cbn [app].
      destruct (ceq c 91); [|reflexivity].
      pose proof (proj1 (regex_loop_local _ a1 1 r r' (le_n _))) as Hl. unfold text, char in *. now rewrite Hl.
    - intros a r n k _ Hne H. destruct a as [|c a1]; [contradiction|]. unfold lex_regexish in H. cbn [app] in H.
      destruct (ceq c 91); [|discriminate].
      destruct (regex_loop u (a1 ++ NL :: r) 1) as [n0|] eqn:E; [|discriminate]. injection H as <- _.
      apply (proj2 (regex_loop_local _ a1 1 r r (le_n _))) in E. unfold text, char in *. cbn [length]. lia.
  Qed.

  (* ---------- lex_url ---------- *)
  Lemma nlf_pct : ceq NL 37 = false. Proof. reflexivity. Qed.
  Lemma nlf_slash : ceq NL 47 = false. Proof. reflexivity. Qed.
  Lemma nlf_colon : ceq NL 58 = false. Proof. reflexivity. Qed.
  Lemma nlf_reserved : is_reserved NL = false. Proof. reflexivity. Qed.
  Lemma nlf_unreserved : is_unreserved NL = false. Proof. reflexivity. Qed.
  Lemma nlf_scheme : valid_scheme_char NL = false. Proof. reflexivity. Qed.

  Lemma xchar_unfold (c : N) (t : list N) :
    lex_xchar_string (c :: t) =
    if is_reserved c then S (lex_xchar_string t)
    else if is_unreserved c then S (lex_xchar_string t)
    else match t with
         | a :: b :: t' => if ceq c 37 && is_ascii_hexdigit a && is_ascii_hexdigit b
                           then 3 + lex_xchar_string t' else 0
         | _ => 0
         end.
  Proof. reflexivity. Qed.

  Lemma xchar_nl (r : list N) : lex_xchar_string (NL :: r) = 0.
  Proof.
    rewrite xchar_unfold, nlf_reserved, nlf_unreserved, nlf_pct.
    destruct r as [|a [|b t']]; reflexivity.
  Qed.

  Lemma xchar_local : forall m (a r r' : list N), length a <= m ->
    lex_xchar_string (a ++ NL :: r) = lex_xchar_string (a ++ NL :: r') /\
    lex_xchar_string (a ++ NL :: r) <= length a.
  Proof.
    induction m as [|m IH]; intros a r r' Hm.
    - destruct a; [|cbn in Hm; lia]. cbn [app]. rewrite !xchar_nl. split; [reflexivity|cbn; lia].
    - destruct a as [|c a1]; [cbn [app]; rewrite !xchar_nl; split; [reflexivity|cbn; lia]|].
      cbn [app]. rewrite (xchar_unfold c (a1 ++ NL :: r)), (xchar_unfold c (a1 ++ NL :: r')).
      destruct (IH a1 r r') as [H1 H2]; [cbn [length] in Hm; lia|].
      destruct (is_reserved c); [split; [now rewrite H1|cbn [length]; lia]|].
      destruct (is_unreserved c); [split; [now rewrite H1|cbn [length]; lia]|].
      destruct a1 as [|x [|y a3]]; cbn [app].
      + destruct r as [|b t'], r' as [|b' t'']; rewrite ?nlf_hex, ?andb_false_r; cbn [andb];
          split; (reflexivity || cbn; lia).
      + rewrite nlf_hex, !andb_false_r. split; [reflexivity|cbn; lia].
      + destruct (IH a3 r r') as [H3 H4]; [cbn [length] in Hm; lia|].
        destruct (ceq c 37 && is_ascii_hexdigit x && is_ascii_hexdigit y);
          split; try reflexivity; try (now rewrite H3); cbn [length]; lia.
  Qed.

  Lemma path_unfold f (x : N) (t : list N) cursor :
    path_loop (S f) (x :: t) cursor =
    if negb (ceq x 47) then cursor else
    let n := lex_xchar_string t in
    if n =? 0 then cursor + 1 else path_loop f (skipn n t) (cursor + 1 + n).
  Proof. reflexivity. Qed.

  Lemma path_local : forall f1 f2 (a r r' : list N) c, length a < f1 -> length a < f2 ->
    path_loop f1 (a ++ NL :: r) c = path_loop f2 (a ++ NL :: r') c /\
    path_loop f1 (a ++ NL :: r) c <= c + length a.
  Proof.
    induction f1 as [|f1 IH]; intros f2 a r r' c H1 H2; [lia|].
    destruct f2 as [|f2]; [lia|].
    destruct a as [|x a1]; cbn [app].
    - rewrite !path_unfold, nlf_slash. cbn [negb]. split; [reflexivity|lia].
    - rewrite !path_unfold. destruct (negb (ceq x 47)); [split; [reflexivity|lia]|].
      destruct (xchar_local _ a1 r r' (le_n _)) as [Hx Hb]. cbv zeta. rewrite <- Hx.
      set (n := lex_xchar_string (a1 ++ NL :: r)) in *.
      destruct (n =? 0); [split; [reflexivity|cbn [length]; lia]|].
      rewrite !skipn_app_le by exact Hb.
      cbn [length] in H1, H2.
      destruct (IH f2 (skipn n a1) r r' (c + 1 + n)) as [H3 H4]; try (rewrite skipn_length; lia).
      split; [exact H3|]. rewrite skipn_length in H4. cbn [length]. lia.
  Qed.

  Lemma lex_hostport_at (a r : list N) :
    lex_hostport (a ++ NL :: r) =
    match a with
    | [] => None
    | c :: _ =>
        if is_ascii_alphanumeric c then
          let he := count_while host_char a in
          match nth_error a he with
          | Some x => if ceq x 58 then Some (count_while is_ascii_digit a) else Some he
          | None => Some he
          end
        else None
    end.
  Proof.
    unfold lex_hostport. rewrite lex_hostname_at. destruct a as [|c a1]; [reflexivity|].
    destruct (is_ascii_alphanumeric c); [|reflexivity]. cbv zeta. unfold text, char in *.
    pose proof (cw_le host_char (c :: a1)) as Hl. set (he := count_while host_char (c :: a1)) in *.
    destruct (Nat.eq_dec he (length (c :: a1))) as [E|E].
    - rewrite E, nth_error_app_mid, nlf_colon.
      assert (Hnone : nth_error (c :: a1) (length (c :: a1)) = None) by (apply nth_error_None; lia).
      now rewrite Hnone.
    - rewrite nth_error_app_l by lia. destruct (nth_error (c :: a1) he) as [x|]; [|reflexivity].
      destruct (ceq x 58); [|reflexivity]. now rewrite (cw_stop _ (c :: a1) NL r nlf_digit).
  Qed.

  Lemma lex_hostport_bound (a r : list N) n : lex_hostport (a ++ NL :: r) = Some n -> n <= length a.
  Proof.
    rewrite lex_hostport_at. destruct a as [|c a1]; [discriminate|].
    destruct (is_ascii_alphanumeric c); [|discriminate]. cbv zeta.
    pose proof (cw_le host_char (c :: a1)). pose proof (cw_le is_ascii_digit (c :: a1)).
    intros H1. break_match_hyp H1; inversion H1; subst; assumption.
  Qed.

  Lemma lex_login_at (a r : list N) :
    lex_login u (a ++ NL :: r) =
    (let limit := count_while (fun c => negb (u_whitespace u c)) a in
    let start :=
      match position (ceq 64) (firstn limit a) with
      | Some cred_end =>
          let pass_ok := match position (ceq 58) (firstn cred_end a) with
                         | Some pass_beg => is_uchar_plus_string (slice a (pass_beg + 1) cred_end)
                         | None => true
                         end in
          if negb pass_ok then None
          else if negb (is_uchar_plus_string (firstn cred_end a)) then None
          else Some (cred_end + 1)
      | None => Some 0
      end in
    match start with
    | None => None
    | Some hostport_start =>
        match lex_hostport (skipn hostport_start a ++ [NL]) with
        | Some hostport_end => Some (hostport_start + hostport_end)
        | None => None
        end
    end) /\
    forall n, lex_login u (a ++ NL :: r) = Some n -> n <= length a.
  Proof.
    unfold lex_login. unfold text, char in *.
    rewrite (cw_stop _ a NL r nonws_nl).
    pose proof (cw_le (fun c => negb (u_whitespace u c)) a) as Hl.
    set (limit := count_while (fun c => negb (u_whitespace u c)) a) in *. cbv zeta.
    rewrite firstn_app_le by exact Hl.
    destruct (position (ceq 64) (firstn limit a)) as [ce|] eqn:Ece.
    - apply position_lt in Ece. rewrite firstn_length in Ece.
      rewrite !(firstn_app_le ce) by lia.
      assert (Hpass : (match position (ceq 58) (firstn ce a) with
                       | Some pass_beg => is_uchar_plus_string (slice (a ++ NL :: r) (pass_beg + 1) ce)
                       | None => true end)
                      = (match position (ceq 58) (firstn ce a) with
                         | Some pass_beg => is_uchar_plus_string (slice a (pass_beg + 1) ce)
                         | None => true end)).
      { destruct (position (ceq 58) (firstn ce a)) as [pb|] eqn:Epb; [|reflexivity].
        apply position_lt in Epb. rewrite firstn_length in Epb.
        unfold slice. rewrite skipn_app_le by lia. rewrite firstn_app_le; [reflexivity|].
        rewrite skipn_length. lia. }
      rewrite Hpass.
      destruct (negb _); [split; [reflexivity|discriminate]|].
      destruct (negb (is_uchar_plus_string (firstn ce a))); [split; [reflexivity|discriminate]|].
      rewrite skipn_app_le by lia. rewrite !lex_hostport_at. split; [reflexivity|].
      intros n H. pose proof (lex_hostport_bound (skipn (ce + 1) a) r) as Hb. rewrite lex_hostport_at in Hb.
      destruct (match skipn (ce + 1) a with [] => None | c :: _ => _ end) as [he|]; [|discriminate].
      injection H as <-. specialize (Hb he eq_refl). rewrite skipn_length in Hb. lia.
    - cbn [skipn]. rewrite !lex_hostport_at. split; [reflexivity|].
      intros n H. pose proof (lex_hostport_bound a r) as Hb. rewrite lex_hostport_at in Hb.
      destruct (match a with [] => None | c :: _ => _ end) as [he|]; [|discriminate].
      injection H as <-. specialize (Hb he eq_refl). lia.
  Qed.

  Lemma lex_login_local (a r r' : list N) : lex_login u (a ++ NL :: r) = lex_login u (a ++ NL :: r').
  Proof. now rewrite (proj1 (lex_login_at a r)), (proj1 (lex_login_at a r')). Qed.

  Lemma lex_ip_schemepart_local (a r r' : list N) :
    lex_ip_schemepart u (a ++ NL :: r) = lex_ip_schemepart u (a ++ NL :: r') /\
    forall n, lex_ip_schemepart u (a ++ NL :: r) = Some n -> n <= length a.
  Proof.
    unfold lex_ip_schemepart. destruct a as [|x [|y a4]]; cbn [app].
    - destruct r as [|b rest], r' as [|b' rest']; rewrite ?nlf_slash; cbn [andb]; split; (reflexivity || discriminate).
    - rewrite nlf_slash, andb_false_r. split; [reflexivity|discriminate].
    - destruct (ceq x 47 && ceq y 47); [|split; [reflexivity|discriminate]].
      rewrite (lex_login_local a4 r r').
      pose proof (proj2 (lex_login_at a4 r')) as Hlb. rewrite <- (lex_login_local a4 r r') in Hlb.
      rewrite <- (lex_login_local a4 r r').
      set (le := match lex_login u (a4 ++ NL :: r) with Some n => n | None => 0 end).
      assert (Hle : le <= length a4).
      { unfold le. destruct (lex_login u (a4 ++ NL :: r)) as [n|]; [now apply Hlb|lia]. }
      rewrite !skipn_app_le by exact Hle.
      destruct (path_local (length (a4 ++ NL :: r)) (length (a4 ++ NL :: r')) (skipn le a4) r r' le) as [H1 H2];
        try (rewrite skipn_length, app_length; cbn [length]; lia).
      split; [f_equal; f_equal; exact H1|]. intros n [= <-]. rewrite skipn_length in H2.
      unfold text, char in *. cbn [length]. lia.
  Qed.

  Lemma lex_url_local : local (lex_url u) /\ bounded (lex_url u).
  Proof.
    assert (Hkey : forall (a r : list N), a <> [] ->
              (position (ceq 58) a = None -> lex_url u (a ++ NL :: r) = None) /\
              (forall sep, position (ceq 58) a = Some sep ->
                 lex_url u (a ++ NL :: r) =
                 if negb (forallb valid_scheme_char (firstn sep a)) then None else
                 match lex_ip_schemepart u (skipn (sep + 1) a ++ NL :: r) with
                 | Some url_end => Some (url_end + sep + 1, KUrl)
                 | None => None
                 end)).
    { intros a r Hne. unfold lex_url. unfold text, char in *. split.
      - intros Hnone. rewrite (position_app_notin _ a (NL :: r) Hnone). cbn [position].
        change (ceq 58 NL) with false. cbv beta iota.
        destruct (position (ceq 58) r) as [j|]; [|reflexivity].
        replace (length a + S j) with (length a + 1 + j) by lia.
        match goal with |- context [forallb valid_scheme_char ?l] =>
          assert (Hf : forallb valid_scheme_char l = false) end.
        { rewrite firstn_app. rewrite forallb_app.
          replace (length a + 1 + j - length a) with (S j) by lia. cbn [firstn forallb].
          rewrite nlf_scheme. cbn [andb]. apply andb_false_r. }
        now rewrite Hf.
      - intros sep Hsep. rewrite (position_app_in _ a (NL :: r) sep Hsep).
        apply position_lt in Hsep.
        rewrite firstn_app_le by lia. rewrite skipn_app_le by lia. reflexivity. }
    split.
    - intros a r r' _ Hne. destruct (Hkey a r Hne) as [K1 K2]. destruct (Hkey a r' Hne) as [K1' K2'].
      unfold text, char in *.
      destruct (position (ceq 58) a) as [sep|] eqn:E.
      + rewrite (K2 sep eq_refl), (K2' sep eq_refl).
        now rewrite (proj1 (lex_ip_schemepart_local (skipn (sep + 1) a) r r')).
      + now rewrite K1, K1'.
    - intros a r n k _ Hne H. destruct (Hkey a r Hne) as [K1 K2]. unfold text, char in *.
      destruct (position (ceq 58) a) as [sep|] eqn:E.
      + rewrite (K2 sep eq_refl) in H. apply position_lt in E.
        destruct (negb _); [discriminate|].
        destruct (lex_ip_schemepart u (skipn (sep + 1) a ++ NL :: r)) as [ue|] eqn:Eu; [|discriminate].
        injection H as <- _.
        apply (proj2 (lex_ip_schemepart_local (skipn (sep + 1) a) r r)) in Eu.
        rewrite skipn_length in Eu. lia.
      + rewrite K1 in H by reflexivity. discriminate.
  Qed.

  (* ---------- lex_token ---------- *)
  Lemma punct_none_not_quote (c : N) (t : list N) : lex_punctuation (c :: t) = None -> ceq c 34 = false.
  Proof.
    unfold lex_punctuation, lex_quote. destruct (mem_n c quote_chars) eqn:E; [discriminate|]. intros _.
    unfold mem_n, quote_chars in E. cbn [existsb] in E. apply orb_false_elim in E. destruct E as [E _].
    unfold ceq. exact E.
  Qed.

  Lemma lex_token_local (a r r' : list N) : nonl a -> a <> [] ->
    lex_token u (a ++ NL :: r) = lex_token u (a ++ NL :: r') /\
    forall n k, lex_token u (a ++ NL :: r) = Some (n, k) -> n <= length a.
  Proof.
    intros Ha Hne.
    assert (Hem : lex_punctuation (a ++ NL :: r) = None ->
                  lex_email_address u (a ++ NL :: r) = lex_email_address u (a ++ NL :: r') /\
                  forall n k, lex_email_address u (a ++ NL :: r) = Some (n, k) -> n <= length a).
    { intros Hp. apply lex_email_local; [exact Ha|]. destruct a as [|c a1]; [contradiction|].
      cbn [app] in Hp. now apply punct_none_not_quote in Hp. }
    pose proof (proj1 lex_regexish_local a r r' Ha Hne) as L1.
    pose proof (proj1 lex_punctuation_local a r r' Ha Hne) as L2.
    pose proof (proj1 lex_tabs_local a r r' Ha Hne) as L3.
    pose proof (proj1 lex_spaces_local a r r' Ha Hne) as L4.
    pose proof (proj1 lex_newlines_local a r r' Ha Hne) as L5.
    pose proof (proj1 lex_plural_digit_local a r r' Ha Hne) as L6.
    pose proof (proj1 lex_hex_number_local a r r' Ha Hne) as L7.
    pose proof (proj1 lex_long_decade_local a r r' Ha Hne) as L8.
    pose proof (proj1 lex_number_local a r r' Ha Hne) as L9.
    pose proof (proj1 lex_url_local a r r' Ha Hne) as L10.
    pose proof (proj1 lex_hostname_token_local a r r' Ha Hne) as L12.
    pose proof (proj1 lex_word_local a r r' Ha Hne) as L13.
    pose proof (proj2 lex_regexish_local a r) as B1.
    pose proof (proj2 lex_punctuation_local a r) as B2.
    pose proof (proj2 lex_tabs_local a r) as B3.
    pose proof (proj2 lex_spaces_local a r) as B4.
    pose proof (proj2 lex_newlines_local a r) as B5.
    pose proof (proj2 lex_plural_digit_local a r) as B6.
    pose proof (proj2 lex_hex_number_local a r) as B7.
    pose proof (proj2 lex_long_decade_local a r) as B8.
    pose proof (proj2 lex_number_local a r) as B9.
    pose proof (proj2 lex_url_local a r) as B10.
    pose proof (proj2 lex_hostname_token_local a r) as B12.
    pose proof (proj2 lex_word_local a r) as B13.
    pose proof (proj2 lex_catch_local a r) as B14.
    unfold lex_token, or_else. unfold text, char in *.
    rewrite <- L1, <- L2, <- L3, <- L4, <- L5, <- L6, <- L7, <- L8, <- L9, <- L10, <- L12, <- L13.
    destruct (lex_regexish u (a ++ NL :: r)) as [[n1 k1]|] eqn:E1.
    { split; [reflexivity|]. intros n k [= <- <-]. eapply B1; eauto. }
    destruct (lex_punctuation (a ++ NL :: r)) as [[n2 k2]|] eqn:E2.
    { split; [reflexivity|]. intros n k [= <- <-]. eapply B2; eauto. }
    destruct (Hem eq_refl) as [L11 B11]. rewrite <- L11.
    destruct (lex_tabs (a ++ NL :: r)) as [[n3 k3]|] eqn:E3.
    { split; [reflexivity|]. intros n k [= <- <-]. eapply B3; eauto. }
    destruct (lex_spaces (a ++ NL :: r)) as [[n4 k4]|] eqn:E4.
    { split; [reflexivity|]. intros n k [= <- <-]. eapply B4; eauto. }
    destruct (lex_newlines (a ++ NL :: r)) as [[n5 k5]|] eqn:E5.
    { split; [reflexivity|]. intros n k [= <- <-]. eapply B5; eauto. }
    destruct (lex_plural_digit u (a ++ NL :: r)) as [[n6 k6]|] eqn:E6.
    { split; [reflexivity|]. intros n k [= <- <-]. eapply B6; eauto. }
    destruct (lex_hex_number u (a ++ NL :: r)) as [[n7 k7]|] eqn:E7.
    { split; [reflexivity|]. intros n k [= <- <-]. eapply B7; eauto. }
    destruct (lex_long_decade u (a ++ NL :: r)) as [[n8 k8]|] eqn:E8.
    { split; [reflexivity|]. intros n k [= <- <-]. eapply B8; eauto. }
    destruct (lex_number u (a ++ NL :: r)) as [[n9 k9]|] eqn:E9.
    { split; [reflexivity|]. intros n k [= <- <-]. eapply B9; eauto. }
    destruct (lex_url u (a ++ NL :: r)) as [[n10 k10]|] eqn:E10.
    { split; [reflexivity|]. intros n k [= <- <-]. eapply B10; eauto. }
    destruct (lex_email_address u (a ++ NL :: r)) as [[n11 k11]|] eqn:E11.
    { split; [reflexivity|]. intros n k [= <- <-]. eapply B11; eauto. }
    destruct (lex_hostname_token (a ++ NL :: r)) as [[n12 k12]|] eqn:E12.
    { split; [reflexivity|]. intros n k [= <- <-]. eapply B12; eauto. }
    destruct (lex_word u (a ++ NL :: r)) as [[n13 k13]|] eqn:E13.
    { split; [reflexivity|]. intros n k [= <- <-]. eapply B13; eauto. }
    split; [reflexivity|]. intros n k H. eapply B14; eauto.
  Qed.

  (* ---------- a text that starts with a newline: the maximal run is one Newline token ---------- *)
  Lemma lex_token_nl (rest : list N) :
    lex_token u (NL :: rest) = Some (count_while (ceq 10) (NL :: rest), KNewline (count_while (ceq 10) (NL :: rest))).
  Proof.
    unfold lex_token, or_else.
    assert (H1 : lex_regexish u (NL :: rest) = None) by reflexivity.
    assert (H2 : lex_punctuation (NL :: rest) = None) by reflexivity.
    assert (H3 : lex_tabs (NL :: rest) = None) by reflexivity.
    assert (H4 : lex_spaces (NL :: rest) = None) by reflexivity.
    rewrite H1, H2, H3, H4. unfold lex_newlines. reflexivity.
  Qed.

  Definition no_leading_nl (D : text) : Prop := match D with c :: _ => c <> NL | [] => True end.
  Definition ends_nl (s : text) : Prop := s = [] \/ exists s0, s = s0 ++ [NL].

  Lemma cw_app_stop2 {A} (p : A -> bool) (s D : list A) :
    (match D with c :: _ => p c = false | [] => True end) -> count_while p (s ++ D) = count_while p s.
  Proof.
    intros HD. induction s as [|x s IH]; cbn [app count_while].
    - destruct D as [|c D']; [reflexivity|]. cbn [count_while]. now rewrite HD.
    - destruct (p x); [now rewrite IH|reflexivity].
  Qed.

  Lemma ends_nl_skipn (s : list N) n : ends_nl s -> ends_nl (skipn n s).
  Proof.
    intros [->|[s0 ->]]; [left; now rewrite skipn_nil|].
    destruct (Nat.le_gt_cases n (length s0)) as [H|H].
    - right. exists (skipn n s0). now rewrite skipn_app_le.
    - left. apply skipn_all2. rewrite app_length. cbn [length]. lia.
  Qed.

  Lemma first_nl_split (s : list N) : In NL s -> exists a b, s = a ++ NL :: b /\ nonl a.
  Proof.
    induction s as [|x s IH]; intros H; [contradiction|].
    destruct (N.eq_dec x NL) as [->|Hx].
    - exists [], s. split; [reflexivity|constructor].
    - destruct H as [H|H]; [congruence|]. destruct (IH H) as (a & b & -> & Ha).
      exists (x :: a), b. split; [reflexivity|constructor; assumption].
  Qed.

  (* the token lexed at the head of s does not depend on what follows s, and ends inside s *)
  Lemma tok_stable (s D : list N) : ends_nl s -> s <> [] -> no_leading_nl D ->
    lex_token u (s ++ D) = lex_token u s /\ forall n k, lex_token u s = Some (n, k) -> n <= length s.
  Proof.
    intros [->|[s0 Hs]] Hne HD; [contradiction|].
    destruct s as [|x s1]; [contradiction|].
    destruct (N.eq_dec x NL) as [->|Hx].
    - cbn [app]. rewrite !lex_token_nl.
      change (NL :: s1 ++ D) with ((NL :: s1) ++ D).
      rewrite (cw_app_stop2 (ceq 10) (NL :: s1) D).
      + split; [reflexivity|]. intros n k Hnk. injection Hnk as Hn _. rewrite <- Hn.
        apply (cw_le (ceq 10) (NL :: s1)).
      + destruct D as [|c D']; [exact I|]. cbn in HD. unfold ceq. apply N.eqb_neq. unfold NL in HD. congruence.
    - assert (Hin : In NL (x :: s1)) by (rewrite Hs; apply in_or_app; right; now left).
      destruct (first_nl_split _ Hin) as (a & b & Hab & Ha).
      assert (Hane : a <> []) by (intros ->; cbn [app] in Hab; congruence).
      rewrite Hab, <- app_assoc. cbn [app].
      destruct (lex_token_local a (b ++ D) b Ha Hane) as [L _].
      destruct (lex_token_local a b b Ha Hane) as [_ B].
      split; [exact L|]. intros n k H. apply B in H. rewrite app_length. lia.
  Qed.

  (* ================================================================================================ *)
  (* 4. PlainEnglish::parse splits behind a newline                                                   *)
  (* ================================================================================================ *)
  Lemma plain_loop_split : forall fuel (s : list N) c (D : list N),
    ends_nl s -> no_leading_nl D -> length s + length D <= fuel ->
    exists t1 t2,
      plain_loop u fuel c s = Ok t1 /\ plain_loop u fuel (c + length s) D = Ok t2 /\
      plain_loop u fuel c (s ++ D) = Ok (t1 ++ t2).
  Proof.
    unfold text, char in *.
    induction fuel as [|f IH]; intros s c D Hs HD Hf.
    - destruct s; [|cbn in Hf; lia]. destruct D; [|cbn in Hf; lia].
      exists [], []. repeat split; reflexivity.
    - destruct s as [|x s1].
      + cbn [app length]. rewrite Nat.add_0_r.
        assert (HlD : length D <= S f) by (cbn [length] in Hf; lia).
        destruct (plain_loop_total u (S f) D c HlD) as [t2 H2].
        exists [], t2. repeat split; [exact H2|exact H2].
      + destruct (tok_stable (x :: s1) D Hs) as [Hst Hbd]; [discriminate|exact HD|].
        destruct (lex_token_some u (x :: s1)) as (n & k & E).
        pose proof (lex_token_progress u _ _ _ E) as Hn1. pose proof (Hbd n k E) as Hn2.
        assert (Hskip : skipn n ((x :: s1) ++ D) = skipn n (x :: s1) ++ D) by (apply skipn_app_le; exact Hn2).
        destruct (IH (skipn n (x :: s1)) (c + n) D (ends_nl_skipn _ n Hs) HD) as (t1 & t2 & H1 & H2 & H3).
        { rewrite skipn_length. cbn [length] in *. lia. }
        assert (Hc : c + n + length (skipn n (x :: s1)) = c + length (x :: s1)) by (rewrite skipn_length; lia).
        rewrite Hc in H2.
        exists (mktok (mkspan c (c + n)) k :: t1), t2. split; [|split].
        * cbn [plain_loop]. unfold text, char in *. rewrite E, span_new_le by lia. cbn [bind].
          unfold text, char in *. rewrite H1. reflexivity.
        * assert (F1 : length D <= S f) by (cbn [length] in *; lia).
          assert (F2 : length D <= f) by (cbn [length] in *; lia).
          etransitivity; [exact (plain_loop_fuel u (S f) f D _ F1 F2)|exact H2].
        * change ((x :: s1) ++ D) with (x :: s1 ++ D). cbn [plain_loop].
          change (x :: s1 ++ D) with ((x :: s1) ++ D). unfold text, char in *.
          rewrite Hst, E, span_new_le by lia. cbn [bind]. unfold text, char in *.
          rewrite Hskip, H3. reflexivity.
  Qed.

  (* C12_lex_split *)
  Theorem plain_parse_split (P D : text) :
    ends_nl P -> no_leading_nl D ->
    exists tp td,
      plain_parse u P = Ok tp /\ plain_parse u D = Ok td /\
      plain_parse u (P ++ D) = Ok (tp ++ map (shift_token (length P)) td).
  Proof.
    intros HP HD. unfold plain_parse. unfold text, char in *.
    assert (L0 : length P + length D <= length (P ++ D)) by (rewrite app_length; lia).
    assert (L1 : length P <= length (P ++ D)) by (rewrite app_length; lia).
    assert (L2 : length D <= length (P ++ D)) by (rewrite app_length; lia).
    destruct (plain_loop_split (length (P ++ D)) P 0 D HP HD L0) as (t1 & t2 & H1 & H2 & H3).
    destruct (plain_loop_total u (length D) D 0 (le_n _)) as [td Htd].
    exists t1, td. split; [|split].
    - etransitivity; [exact (plain_loop_fuel u (length P) (length (P ++ D)) P 0 (le_n _) L1)|exact H1].
    - exact Htd.
    - etransitivity; [exact H3|]. f_equal. f_equal.
      cbn [Nat.add] in H2.
      pose proof (plain_loop_shift u (length (P ++ D)) D 0 (length P)) as Hsh. cbn [Nat.add] in Hsh.
      pose proof (plain_loop_fuel u (length (P ++ D)) (length D) D 0 L2 (le_n _)) as Hfu.
      unfold text, char in *. rewrite Hfu, Htd in Hsh. rewrite Hsh in H2. now injection H2 as <-.
  Qed.
End Local.

(* ================================================================================================ *)
(* 5. link to the abstract framework of Model/ParaSplit.v                                           *)
(* ================================================================================================ *)
Require Import Overlap Condense ParaSplit ParaSplitProofs.
From Coq Require Import Sorting.Permutation.

(* classify / to_ps / doc_tokens (the kind class of a lexer token, the document tokens as kind classes) live in
   Model/C12Doc.v since phase 3: they are extracted for the correspondence *)
Require Import C12Doc.

(* moving document tokens of D behind a P of n characters and k tokens (twin_loc is a token index) *)
Definition shift_lkind (k : nat) (kd : Lexer.tkind) : Lexer.tkind :=
  match kd with
  | Lexer.KPunct (PQuote (Some j)) => Lexer.KPunct (PQuote (Some (j + k)))
  | other => other
  end.
Definition shift_token2 (n k : nat) (t : Lexer.token) : Lexer.token :=
  Lexer.mktok (push_by (Lexer.tspan t) n) (shift_lkind k (tkind_of t)).

Lemma to_ps_shift n k t : to_ps (shift_token2 n k t) = shift_tok n k (to_ps t).
Proof.
  destruct t as [sp kd]. unfold to_ps, shift_token2, shift_tok. cbn [Lexer.tspan tkind_of ParaSplit.tspan ParaSplit.tkind].
  f_equal. destruct kd as [|p| | | | | | | | | |]; try reflexivity.
  destruct p; try reflexivity. destruct twin_loc; reflexivity.
Qed.

(* the premise of the property on P: no double quote, a sentence terminator, a blank line *)
Definition quote_free (P : text) : Prop := Forall (fun c => mem_n c quote_chars = false) P.
Definition is_terminator_char (c : N) : Prop := c = 46%N \/ c = 33%N \/ c = 63%N.
Definition c12_premise (P : text) : Prop :=
  quote_free P /\ exists P0 t, P = P0 ++ [t; NL; NL] /\ is_terminator_char t.

Lemma premise_ends_nl P : c12_premise P -> ends_nl P.
Proof.
  intros [_ (P0 & t & -> & _)]. right. exists (P0 ++ [t; NL]). now rewrite <- app_assoc.
Qed.

Section MainLexer.
  Variable u : uni.
  Hypothesis nl_whitespace : u_whitespace u NL = true.
  Hypothesis nl_not_numeric : u_numeric u NL = false.
  Hypothesis nl_not_alphabetic : u_alphabetic u NL = false.
  Hypothesis nl_not_lingual : u_lingual u NL = false.

  (* what is left of H_lex_split once the lexer is done: the condense passes of Document::parse, run on
     the glued raw tokens, give the glued document tokens (monitored on the implementation at document
     level, separately from the lexer-level relation) *)
  Definition condense_split : Prop :=
    forall P D tp td, c12_premise P -> no_leading_nl D ->
      plain_parse u P = Ok tp -> plain_parse u D = Ok td ->
      exists A B,
        document_passes P tp = Ok A /\ document_passes D td = Ok B /\
        document_passes (P ++ D) (tp ++ map (shift_token (length P)) td)
          = Ok (A ++ map (shift_token2 (length P) (length A)) B) /\
        ends_in_break (map to_ps A) /\ in_bounds (length P) (map to_ps A).

  Variable chunk_fn : list ParaSplit.tok -> text -> list lint.
  Variable rules : list (list ParaSplit.tok -> text -> list lint).
  Hypothesis H_condense_split : condense_split.
  Hypothesis H_rules_local : Forall para_local rules.

  Lemma doc_tokens_split P D : c12_premise P -> no_leading_nl D ->
    doc_tokens u (P ++ D)
    = doc_tokens u P ++ map (shift_tok (length P) (length (doc_tokens u P))) (doc_tokens u D) /\
    ends_in_break (doc_tokens u P) /\ in_bounds (length P) (doc_tokens u P).
  Proof.
    intros HP HD.
    destruct (plain_parse_split u nl_whitespace nl_not_numeric nl_not_alphabetic nl_not_lingual P D
                (premise_ends_nl P HP) HD) as (tp & td & Hp & Hd & Hpd).
    destruct (H_condense_split P D tp td HP HD Hp Hd) as (A & B & HA & HB & HAB & Hend & Hin).
    unfold doc_tokens, document_plain. rewrite Hp, Hd, Hpd. cbn [bind]. rewrite HA, HB, HAB.
    rewrite map_app, !map_map, map_length. split; [|split; assumption].
    f_equal. apply map_ext. intros t. apply to_ps_shift.
  Qed.

  Theorem main_lexer_partial P D : c12_premise P -> no_leading_nl D ->
    Permutation (lints (doc_tokens u) chunk_fn rules (P ++ D))
                (lints (doc_tokens u) chunk_fn rules P
                 ++ map (shift_lint (length P)) (lints (doc_tokens u) chunk_fn rules D)).
  Proof.
    intros HP HD.
    apply (main_partial (doc_tokens u) (fun P => c12_premise P /\ True) chunk_fn rules); try exact H_rules_local.
    - intros P' D' [HP' _] HD'. apply (doc_tokens_split P' D' HP'). exact HD'.
    - intros P' [HP' _]. destruct (doc_tokens_split P' [] HP' I) as (_ & H1 & H2). split; assumption.
    - split; [exact HP|exact I].
    - exact HD.
  Qed.
End MainLexer.
