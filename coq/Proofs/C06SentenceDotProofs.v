(* C06SentenceDotProofs.v — phase 6, step 1: a sentence of the class of C06Sentence.v followed by ONE final period.
     dispatch_dot          the dispatch lemma of phase 3 redone for a text whose only `.` is its last character (lex_hostname_token
                           declines: the slice it searches for a `.` excludes the last scanned character)
     plain_sent_dot        PlainEnglish::parse: one token per item, then a Period token
     passes_identity_dot   every pass of Document::parse is the identity on  ts0 ++ [Period]  (ts0 as in passes_identity) when the
                           token before the period is not a word condense_latin looks for (etc / vs / al): the dotted-initialism
                           rule needs two periods, the ellipsis rule two, condense_latin the excluded words
     sentp_document / sentp_doc_words and C06 on such sentences with NO premise about tokens. *)
Require Import Base Overlap Tables_lexer Lexer Condense ListLemmas TokenInv CondenseInv LexerProofs
  CondPatterns3 CondPattern CondSpaces CondInitialisms CondSuffixQuotes.
Require Import Tables_spellnorm SpellDecision SpellDecisionProofs C06Words C06WordsProofs C06AlnumProofs C06TextProofs
  C06Sentence C06SentenceProofs C06SentenceDot.
From Coq Require Import Lia.

Section DotLexer.
  Variable u : uni.
  Hypothesis laws : letter_laws u.
  Hypothesis dlaw : digit_law u.

  (* what lex_word / lex_plural_digit need to know about the character after a word item *)
  Definition sepx (d : N) : Prop := wordc u d = false /\ ceq d 39 = false /\ ceq d 115 = false.
  Definition sepx_or_end (rest : text) : Prop := match rest with [] => True | d :: _ => sepx d end.

  Lemma sepx_46 : sepx 46.
  Proof.
    split; [|split; reflexivity]. unfold wordc. destruct laws as (_ & _ & Lp & _).
    destruct (u_lingual u 46) eqn:L; [pose proof (Lp 46%N L) as P; vm_compute in P; discriminate P|]. reflexivity.
  Qed.

  Lemma sep_or_end_sepx rest : sep_or_end rest -> sepx_or_end rest.
  Proof. destruct rest as [|d r]; [intros _; exact I|]. cbn [sep_or_end sepx_or_end]. intros H. exact (sep_char_facts u laws d H). Qed.

  Lemma sepx_or_end_dot rest : sep_or_end rest -> sepx_or_end (rest ++ [46%N]).
  Proof.
    destruct rest as [|d r]; cbn [app sepx_or_end]; [intros _; exact sepx_46|]. intros H. exact (sep_char_facts u laws d H).
  Qed.

  Lemma lex_word_sepx a rest : word_body u a = true -> sepx_or_end rest ->
    lex_word u (a ++ rest) = Some (length a, KWord).
  Proof.
    intros Ha Ht. unfold lex_word. change (fun c => u_lingual u c || is_ascii_digit c) with (wordc u).
    pose proof (body_wordc u a Ha) as Hw.
    assert (E : count_while (wordc u) (a ++ rest) = length a).
    { destruct rest as [|d r]; [rewrite app_nil_r; apply count_while_all; exact Hw|].
      apply count_while_app_stop; [exact Hw|]. apply Ht. }
    rewrite E. destruct a; [discriminate|]. reflexivity.
  Qed.

  Lemma plural_digit_sepx a rest : word_body u a = true -> sepx_or_end rest ->
    lex_plural_digit u (a ++ rest) = None \/ lex_plural_digit u (a ++ rest) = Some (length a, KWord).
  Proof.
    intros Ha Ht. destruct (body_inv u a Ha) as (c0 & a' & -> & H0 & Ha'). cbn [app]. unfold lex_plural_digit.
    destruct (negb (is_ascii_alphanumeric c0)); [left; reflexivity|].
    destruct a' as [|c1 a''].
    - cbn [app]. destruct rest as [|d r]; [left; reflexivity|].
      destruct Ht as (_ & E39 & E115). rewrite E39, E115. left; reflexivity.
    - cbn [app forallb] in *. apply andb_true_iff in Ha' as [H1 Ha''].
      rewrite (wordc_not_39 u laws c1 H1).
      destruct (ceq c1 115); [|left; reflexivity].
      destruct a'' as [|d a3].
      + cbn [app]. destruct rest as [|d r]; [right; reflexivity|].
        destruct (negb (u_alphanumeric u d)); [right; reflexivity|left; reflexivity].
      + cbn [app forallb] in *. apply andb_true_iff in Ha'' as [Hd _]. rewrite (wordc_alnum u laws dlaw d Hd).
        left; reflexivity.
  Qed.

  (* ----- the dispatch lemma of phase 3 for a text  c0 :: r0 ++ "."  whose part before the final period has no `:` `@` `.` ----- *)
  Lemma dispatch_dot c0 r0 :
    u_lingual u c0 = true -> forallb safe (c0 :: r0) = true ->
    lex_token u (c0 :: r0 ++ [46%N]) =
      or_else (lex_plural_digit u (c0 :: r0 ++ [46%N]))
              (or_else (lex_word u (c0 :: r0 ++ [46%N])) (lex_catch (c0 :: r0 ++ [46%N]))).
  Proof.
    intros H0 Hs. pose proof laws as (_ & Ln & Lp & Lq & Lw & _).
    set (r := r0 ++ [46%N]).
    assert (E91 : ceq c0 91 = false) by (apply (ling_neq u laws c0 91 H0); cbv; discriminate).
    assert (E9 : ceq 9 c0 = false) by (unfold ceq; apply N.eqb_neq; destruct (Lw c0 H0) as (A & _); congruence).
    assert (E10 : ceq 10 c0 = false) by (unfold ceq; apply N.eqb_neq; destruct (Lw c0 H0) as (_ & A & _); congruence).
    assert (E32 : ceq 32 c0 = false) by (unfold ceq; apply N.eqb_neq; destruct (Lw c0 H0) as (_ & _ & A); congruence).
    assert (E48 : ceq c0 48 = false) by (apply (ling_neq_digit u laws); [exact H0|reflexivity]).
    assert (E49 : ceq c0 49 = false) by (apply (ling_neq_digit u laws); [exact H0|reflexivity]).
    assert (E50 : ceq c0 50 = false) by (apply (ling_neq_digit u laws); [exact H0|reflexivity]).
    assert (R : lex_regexish u (c0 :: r) = None) by (unfold lex_regexish; rewrite E91; reflexivity).
    assert (P : lex_punctuation (c0 :: r) = None)
      by (unfold lex_punctuation, lex_quote; rewrite (Lq c0 H0), (Lp c0 H0); reflexivity).
    assert (T : lex_tabs (c0 :: r) = None) by (unfold lex_tabs; cbn [count_while]; rewrite E9; reflexivity).
    assert (S : lex_spaces (c0 :: r) = None) by (unfold lex_spaces; cbn [count_while]; rewrite E32; reflexivity).
    assert (Nl : lex_newlines (c0 :: r) = None) by (unfold lex_newlines; cbn [count_while]; rewrite E10; reflexivity).
    assert (Hx : lex_hex_number u (c0 :: r) = None).
    { unfold lex_hex_number. destruct r as [|c1 [|c2 r']]; try reflexivity. rewrite E48. reflexivity. }
    assert (Dc : lex_long_decade u (c0 :: r) = None).
    { unfold lex_long_decade. destruct r as [|c1 [|c2 [|c3 [|c4 r']]]]; try reflexivity. rewrite E49, E50. reflexivity. }
    assert (Nb : lex_number u (c0 :: r) = None) by (unfold lex_number; rewrite (Ln c0 H0); reflexivity).
    assert (Split : forall q : N -> bool, q 46%N = true -> forallb q (c0 :: r0) = true -> forallb q (c0 :: r) = true).
    { intros q Hq Hall. unfold r. change (c0 :: r0 ++ [46%N]) with ((c0 :: r0) ++ [46%N]). rewrite forallb_app, Hall.
      cbn [forallb]. rewrite Hq. reflexivity. }
    assert (S58 : forallb (fun x => negb (ceq 58 x)) (c0 :: r) = true).
    { apply Split; [reflexivity|]. eapply forallb_forall. intros x Hx'. eapply forallb_forall in Hs; [|exact Hx']. unfold safe in Hs.
      apply andb_true_iff in Hs as [Hs _]. apply andb_true_iff in Hs as [Hs _]. exact Hs. }
    assert (S64 : forallb (fun x => negb (ceq 64 x)) (c0 :: r) = true).
    { apply Split; [reflexivity|]. eapply forallb_forall. intros x Hx'. eapply forallb_forall in Hs; [|exact Hx']. unfold safe in Hs.
      apply andb_true_iff in Hs as [Hs _]. apply andb_true_iff in Hs as [_ Hs]. exact Hs. }
    assert (S46 : forallb (fun x => negb (N.eqb 46 x)) r0 = true).
    { eapply forallb_forall. intros x Hx'. assert (Hin : In x (c0 :: r0)) by (right; exact Hx').
      eapply forallb_forall in Hs; [|exact Hin]. unfold safe, mem_n in Hs.
      apply andb_true_iff in Hs as [_ Hs]. cbn [existsb] in Hs. rewrite orb_false_r in Hs.
      rewrite N.eqb_sym. exact Hs. }
    assert (Ur : lex_url u (c0 :: r) = None) by (unfold lex_url; rewrite (position_none _ _ S58); reflexivity).
    assert (Em : lex_email_address u (c0 :: r) = None).
    { unfold lex_email_address. rewrite (rposition_none (ceq 64)); [reflexivity|]. apply forallb_firstn. exact S64. }
    assert (Ho : lex_hostname_token (c0 :: r) = None).
    { unfold lex_hostname_token. destruct (lex_hostname (c0 :: r)) as [len|] eqn:EL; [|reflexivity].
      destruct (len <=? 1) eqn:L1; [reflexivity|]. apply Nat.leb_gt in L1.
      assert (Hlen : len <= length (c0 :: r)).
      { unfold lex_hostname in EL. destruct (is_ascii_alphanumeric c0); [|discriminate]. injection EL as <-. exact (count_while_le host_char (c0 :: r)). }
      match goal with |- context [mem_n ?x ?l] => assert (M : mem_n x l = false) end.
      { unfold mem_n. apply existsb_none. unfold slice. cbn [skipn]. unfold r. rewrite firstn_app.
        unfold r in Hlen. cbn [length] in Hlen. rewrite app_length in Hlen. cbn [length] in Hlen.
        replace (len - 1 - 1 - length r0) with 0 by lia. cbn [firstn]. rewrite app_nil_r.
        apply forallb_firstn. exact S46. }
      rewrite M. reflexivity. }
    unfold lex_token. rewrite R, P, T, S, Nl, Hx, Dc, Nb, Ur, Em, Ho. cbn [or_else].
    destruct (lex_plural_digit u (c0 :: r)); reflexivity.
  Qed.

  Lemma lex_token_word_dot a rest0 : word_body u a = true -> sep_or_end rest0 -> forallb safe (a ++ rest0) = true ->
    lex_token u (a ++ rest0 ++ [46%N]) = Some (length a, KWord).
  Proof.
    intros Ha Ht Hs. pose proof (sepx_or_end_dot rest0 Ht) as Hx.
    assert (D : lex_token u (a ++ rest0 ++ [46%N]) =
                or_else (lex_plural_digit u (a ++ rest0 ++ [46%N]))
                        (or_else (lex_word u (a ++ rest0 ++ [46%N])) (lex_catch (a ++ rest0 ++ [46%N])))).
    { destruct (body_inv u a Ha) as (c0 & a' & E & H0 & _). rewrite E in *. cbn [app] in *.
      rewrite app_assoc. apply dispatch_dot; assumption. }
    rewrite D, (lex_word_sepx a _ Ha Hx).
    destruct (plural_digit_sepx a _ Ha Hx) as [E|E]; rewrite E; reflexivity.
  Qed.

  Lemma lex_token_dot : lex_token u [46%N] = Some (1, KPunct PPeriod).
  Proof. vm_compute. reflexivity. Qed.

  Lemma lex_item_dot it r : sent_ok u (it :: r) = true ->
    lex_token u (item_text it ++ sent_text r ++ [46%N]) = Some (length (item_text it), item_kind it).
  Proof.
    intros H. pose proof (sent_safe u laws _ H) as Hs. cbn [sent_text flat_map] in Hs. fold (sent_text r) in Hs.
    pose proof H as H'. cbn [sent_ok] in H'. apply andb_true_iff in H' as [H' _]. apply andb_true_iff in H' as [Hi _].
    destruct it as [w|n|c]; cbn [item_text item_kind item_ok] in *.
    - rewrite sword_body in Hi. apply lex_token_word_dot; [exact Hi|exact (after_word u w r H)|exact Hs].
    - rewrite repeat_length. apply lex_token_spaces; [apply Nat.ltb_lt; exact Hi|].
      pose proof (after_space u laws n r H) as A. destruct (sent_text r) as [|d t]; cbn [app]; [discriminate|exact A].
    - cbn [app length]. apply (lex_token_punct u c _ Hi).
  Qed.

  Lemma plain_sent_dot : forall its fuel pos, sent_ok u its = true -> length (sent_text its) < fuel ->
    plain_loop u fuel pos (sent_text its ++ [46%N]) =
      Ok (sent_tokens pos its ++ [period_tok (pos + length (sent_text its))]).
  Proof.
    induction its as [|it r IH]; intros fuel pos H Hf.
    - cbn [sent_text flat_map sent_tokens app length]. destruct fuel as [|f]; [lia|].
      pose proof (plain_step u f pos 46%N [] _ _ lex_token_dot) as X. cbn [skipn] in X. rewrite plain_loop_nil in X.
      cbn [bind] in X. unfold period_tok. rewrite Nat.add_0_r. exact X.
    - pose proof (lex_item_dot it r H) as E.
      pose proof H as H'. cbn [sent_ok] in H'. apply andb_true_iff in H' as [H' Hr]. apply andb_true_iff in H' as [Hi _].
      destruct (item_nonempty u it Hi) as (c & t & Et).
      assert (Hne : item_text it <> []) by (rewrite Et; discriminate).
      assert (Hl : length (sent_text (it :: r)) = length (item_text it) + length (sent_text r))
        by (cbn [sent_text flat_map]; apply app_length).
      assert (L1 : 1 <= length (item_text it)) by (rewrite Et; cbn [length]; lia).
      destruct fuel as [|f]; [lia|].
      change (sent_text (it :: r)) with (item_text it ++ sent_text r). rewrite <- app_assoc.
      rewrite (plain_step_app u (item_text it) (sent_text r ++ [46%N]) f pos _ Hne E).
      rewrite (IH f (pos + length (item_text it)) Hr) by lia.
      cbn [bind sent_tokens app]. rewrite app_length, Nat.add_assoc. reflexivity.
  Qed.

  Lemma plain_parse_sent_dot its : sent_ok u its = true -> plain_parse u (sentp_text its) = Ok (sentp_tokens its).
  Proof.
    intros H. unfold plain_parse, sentp_text, sentp_tokens. rewrite (plain_sent_dot its _ 0 H); [reflexivity|].
    rewrite app_length. cbn [length]. lia.
  Qed.
End DotLexer.

(* ================= the passes on  ts0 ++ [Period] ================= *)
Definition simple2 (k : tkind) : bool := simple_kind k || is_period k.
Definition latin_hit (src : text) (w : token) : bool :=
  in_wordset src w || ((tend w - tstart w =? 2) && zip_all_eq_ic (word_text src w) latin_second).

Lemma nonlast_simple ts0 p pre g1 x g2 : simple_toks ts0 -> ts0 ++ [p] = pre ++ g1 ++ x :: g2 -> g2 <> [] ->
  simple_kind (tkind_of x) = true.
Proof.
  intros F E Hne. destruct (exists_last Hne) as (l' & y & ->).
  assert (E' : ts0 ++ [p] = (pre ++ g1 ++ x :: l') ++ [y]) by (rewrite E, <- !app_assoc; reflexivity).
  apply app_inj_tail in E' as [-> _]. unfold simple_toks in F. rewrite Forall_forall in F. apply F.
  apply in_or_app; right. apply in_or_app; right. left; reflexivity.
Qed.

Lemma simple2_all ts0 p : simple_toks ts0 -> is_period (tkind_of p) = true ->
  Forall (fun t => simple2 (tkind_of t) = true) (ts0 ++ [p]).
Proof.
  intros F Pp. apply Forall_app. split.
  - eapply Forall_impl; [|exact F]. intros t Ht. cbn beta in Ht. unfold simple2. rewrite Ht. reflexivity.
  - constructor; [|constructor]. unfold simple2. rewrite Pp. apply orb_true_r.
Qed.

Lemma simple2_in ts pre g rest t : Forall (fun t => simple2 (tkind_of t) = true) ts -> ts = pre ++ g ++ rest -> In t g ->
  simple2 (tkind_of t) = true.
Proof.
  intros F -> Hin. rewrite Forall_forall in F. apply F. apply in_or_app. right. apply in_or_app. left. exact Hin.
Qed.

Lemma no_adj_snoc : forall ts0 p, no_adj_spaces ts0 -> is_space_kind (tkind_of p) = false -> no_adj_spaces (ts0 ++ [p]).
Proof.
  induction ts0 as [|t1 r IH]; intros p NA Hp; [cbn; split; exact I|].
  cbn [no_adj_spaces] in NA. destruct NA as [N1 N2]. specialize (IH p N2 Hp).
  destruct r as [|t2 r']; cbn [app no_adj_spaces] in *.
  - split; [|exact IH]. intros [_ B]. rewrite Hp in B. discriminate.
  - split; [exact N1|exact IH].
Qed.

Lemma period_not_space k : is_period k = true -> is_space_kind k = false.
Proof. destruct k; try discriminate; reflexivity. Qed.

Lemma breaks_id2 ts : Forall (fun t => simple2 (tkind_of t) = true) ts -> newlines_to_breaks ts = ts.
Proof.
  unfold newlines_to_breaks. induction 1 as [|t r Ht _ IH]; [reflexivity|]. cbn [map]. rewrite IH. f_equal.
  unfold newline_to_break. destruct (tkind_of t) eqn:K; try reflexivity. discriminate.
Qed.

Lemma quote_indices_none2 : forall ts i, Forall (fun t => simple2 (tkind_of t) = true) ts -> quote_indices ts i = [].
Proof.
  induction ts as [|t r IH]; intros i F; [reflexivity|]. inversion F as [|? ? Ht Fr]; subst. cbn [quote_indices].
  rewrite (IH (S i) Fr). destruct (tkind_of t) as [|p| | | | | | | | | |] eqn:K; try reflexivity.
  destruct p; try reflexivity. discriminate.
Qed.

Theorem passes_identity_dot src ts0 p : Tiling 0 (length src) (ts0 ++ [p]) -> simple_toks ts0 -> no_adj_spaces ts0 ->
  is_period (tkind_of p) = true ->
  (forall ts1 w, ts0 = ts1 ++ [w] -> is_word (tkind_of w) = true -> latin_hit src w = false) ->
  document_passes src (ts0 ++ [p]) = Ok (ts0 ++ [p]).
Proof.
  intros T F NA0 Pp HL. set (ts := ts0 ++ [p]) in *.
  pose proof (simple2_all ts0 p F Pp) as F2. fold ts in F2.
  pose proof (no_adj_snoc ts0 p NA0 (period_not_space _ Pp)) as NA. fold ts in NA.
  unfold document_passes.
  (* condense_spaces *)
  destruct (condense_spaces_grouped _ _ ts T) as (t1 & E1 & G1).
  assert (t1 = ts) as ->.
  { apply (grouped_id _ _ _ G1 []). cbn [app]. intros pre g rest k E Hne [S|(a & b & n1 & n2 & -> & Ka & Kb & _)]; [exact S|].
    exfalso. rewrite E in NA. cbn [app] in NA. apply (no_adj_at pre a b rest NA). rewrite Ka, Kb. split; reflexivity. }
  rewrite E1. cbn [bind].
  (* condense_newlines *)
  destruct (condense_newlines_grouped _ _ ts T) as (t2 & E2 & G2).
  assert (t2 = ts) as ->.
  { apply (grouped_id _ _ _ G2 []). cbn [app]. intros pre g rest k E Hne [S|(ns & L & M & _)]; [exact S|].
    exfalso. destruct g as [|t g']; [contradiction|]. destruct ns as [|n ns']; [discriminate|].
    cbn [map] in M. injection M as M _. pose proof (simple2_in ts pre (t :: g') rest t F2 E (or_introl eq_refl)) as K.
    rewrite M in K. discriminate. }
  rewrite E2. cbn [bind]. rewrite (breaks_id2 ts F2).
  (* condense_number_suffixes *)
  destruct (condense_number_suffixes_grouped src ts T) as (t4 & E4 & G4).
  assert (t4 = ts) as ->.
  { apply (grouped_id _ _ _ G4 []). cbn [app]. intros pre g rest k E Hne [S|(a & b & nb & cs & sfx & -> & Ka & _)]; [exact S|].
    exfalso. pose proof (simple2_in ts pre [a; b] rest a F2 E (or_introl eq_refl)) as K. rewrite Ka in K. discriminate. }
  rewrite E4. cbn [bind].
  (* condense_contractions *)
  destruct (contraction_ok src ts) as [Ok5 Mo5].
  destruct (condense_pattern_grouped_in (contraction_matches src) (fun k => k) _ _ ts T Ok5 Mo5) as (t5 & E5 & G5).
  assert (t5 = ts) as ->.
  { apply (grouped_id _ _ _ G5 []). cbn [app]. intros pre g rest k E Hne [S|(pre' & rest' & _ & M & _)]; [exact S|].
    exfalso. destruct (contraction_match_inv src g rest' Hne M) as (a & b & c & -> & _ & Ab & _).
    pose proof (simple2_in ts pre [a; b; c] rest b F2 E (or_intror (or_introl eq_refl))) as K.
    destruct (tkind_of b) as [|q| | | | | | | | | |]; try discriminate. destruct q; discriminate. }
  unfold condense_contractions. rewrite E5. cbn [bind].
  (* condense_dotted_initialisms: two (letter, period) pairs are needed, the only period is the last token *)
  destruct (condense_dotted_initialisms_grouped _ _ ts T) as (t6 & E6 & G6).
  assert (t6 = ts) as ->.
  { apply (grouped_id _ _ _ G6 []). cbn [app]. intros pre g rest k E Hne [S|(IP & L4 & _)]; [exact S|].
    exfalso. assert (exists w q r, g = w :: q :: r /\ is_period (tkind_of q) = true /\ r <> []) as (w & q & r & -> & Pq & Hr).
    { inversion IP as [w q|w q r ? ? Pq IPr]; subst; [cbn [length] in L4; lia|].
      exists w, q, r. split; [reflexivity|]. split; [exact Pq|]. inversion IPr; discriminate. }
    assert (K : simple_kind (tkind_of q) = true).
    { apply (nonlast_simple ts0 p pre [w] q (r ++ rest) F); [exact E|]. destruct r; [contradiction|discriminate]. }
    rewrite (period_not_simple _ Pq) in K. discriminate. }
  rewrite E6. cbn [bind].
  (* condense_ellipsis: two periods *)
  destruct (ellipsis_ok src ts) as [Ok7 Mo7].
  destruct (condense_pattern_grouped (ellipsis_matches src) (fun _ => KPunct PEllipsis) _ _ ts T Ok7 Mo7) as (t7 & E7 & G7).
  assert (t7 = ts) as ->.
  { apply (grouped_id _ _ _ G7 []). cbn [app]. intros pre g rest k E Hne [S|(rest' & M & _)]; [exact S|].
    exfalso. destruct (ellipsis_match_inv src g rest' Hne M) as [L2 FP]. destruct g as [|t [|t' g']]; cbn [length] in L2; try lia.
    pose proof (Forall_inv FP) as Pt. cbn beta in Pt.
    assert (K : simple_kind (tkind_of t) = true).
    { apply (nonlast_simple ts0 p pre [] t (t' :: g' ++ rest) F); [exact E|discriminate]. }
    rewrite (period_not_simple _ Pt) in K. discriminate. }
  unfold condense_ellipsis. rewrite E7. cbn [bind].
  (* condense_latin: the period of a match is the last token, the word before it is excluded by HL *)
  destruct (latin_ok src ts T) as [Ok8 Mo8].
  destruct (condense_pattern_grouped_in (latin_matches src) (fun k => k) _ _ ts T Ok8 Mo8) as (t8 & E8 & G8).
  assert (t8 = ts) as ->.
  { apply (grouped_id _ _ _ G8 []). cbn [app]. intros pre g rest k E Hne [S|(pre' & rest' & E' & M & _)]; [exact S|].
    exfalso. pose proof (tiling_tok_ok src ts T) as OKts. rewrite E' in OKts. apply Forall_app in OKts as [_ OK].
    assert (exists g1 w q, g = g1 ++ [w; q] /\ is_period (tkind_of q) = true /\ is_word (tkind_of w) = true /\
                           latin_hit src w = true) as (g1 & w & q & -> & Pq & Ww & Hw).
    { destruct (latin_match_inv src g rest' Hne OK M)
        as [(w & q & -> & Ww & Pq & Hin)|(w1 & ws & w2 & q & -> & _ & _ & _ & Ww & Pq & _ & _ & L2 & Z2)].
      - exists [], w, q. split; [reflexivity|]. split; [exact Pq|]. split; [exact Ww|]. unfold latin_hit. rewrite Hin. reflexivity.
      - exists (w1 :: ws), w2, q. split; [reflexivity|]. split; [exact Pq|]. split; [exact Ww|]. unfold latin_hit. rewrite L2, Z2.
        cbn [Nat.eqb andb]. apply orb_true_r. }
    destruct rest as [|y rest0].
    - rewrite app_nil_r in E. assert (E2' : ts = (pre ++ g1 ++ [w]) ++ [q]) by (rewrite E, <- !app_assoc; reflexivity).
      unfold ts in E2'. apply app_inj_tail in E2' as [E0 _]. rewrite (HL (pre ++ g1) w) in Hw; [discriminate| |exact Ww].
      rewrite E0, <- app_assoc. reflexivity.
    - assert (K : simple_kind (tkind_of q) = true).
      { apply (nonlast_simple ts0 p pre (g1 ++ [w]) q (y :: rest0) F); [|discriminate].
        fold ts. rewrite E, <- !app_assoc. reflexivity. }
      rewrite (period_not_simple _ Pq) in K. discriminate. }
  unfold condense_latin. rewrite E8. cbn [bind].
  (* match_quotes, the dictionary loop *)
  unfold match_quotes. rewrite (quote_indices_none2 ts 0 F2). cbn [mq_loop bind].
  rewrite (word_lookup_ok src ts T). reflexivity.
Qed.

(* ================= the sentence theorems ================= *)
Lemma sent_tokens_app : forall a b pos,
  sent_tokens pos (a ++ b) = sent_tokens pos a ++ sent_tokens (pos + length (sent_text a)) b.
Proof.
  induction a as [|it a IH]; intros b pos.
  - cbn [app sent_tokens sent_text flat_map length]. rewrite Nat.add_0_r. reflexivity.
  - cbn [app sent_tokens sent_text flat_map]. fold (sent_text a). rewrite IH, app_length, Nat.add_assoc. reflexivity.
Qed.

Lemma last_word_ok_snoc : forall pre w, last_word_ok (pre ++ [SWord w]) = true -> latin_word w = false.
Proof.
  induction pre as [|it pre IH]; intros w H.
  - cbn [app last_word_ok] in H. apply negb_true_iff in H. exact H.
  - apply IH. cbn [app last_word_ok] in H. destruct (pre ++ [SWord w]) eqn:E; [destruct pre; discriminate|exact H].
Qed.

Lemma word_text_mid (a w b : text) : slice (a ++ w ++ b) (length a) (length a + length w) = w.
Proof.
  unfold slice. replace (length a + length w - length a) with (length w) by lia.
  rewrite skipn_app_exact, firstn_app_exact. reflexivity.
Qed.

Lemma latin_word_hit (src ww : text) (t : token) : word_text src t = ww -> tend t - tstart t = length ww ->
  latin_word ww = false -> latin_hit src t = false.
Proof.
  intros Ew El H. unfold latin_word in H. cbn [existsb] in H. apply orb_false_iff in H as [H2 H1].
  unfold latin_hit, in_wordset. rewrite Ew, El.
  change (length latin_second) with 2 in H2. rewrite H2.
  unfold latin_wordset in *. cbn [existsb] in *. rewrite H1. reflexivity.
Qed.

Section SentenceDot.
  Variable u : uni.
  Hypothesis laws : letter_laws u.
  Hypothesis dlaw : digit_law u.

  Lemma sentp_last_ok its ts1 w : sentp_ok u its = true -> sent_tokens 0 its = ts1 ++ [w] -> is_word (tkind_of w) = true ->
    latin_hit (sentp_text its) w = false.
  Proof.
    intros H E Ww. unfold sentp_ok in H. apply andb_true_iff in H as [H HLw].
    destruct (exists_last (l := its)) as (pre & it & ->).
    { intros ->. cbn [sent_tokens] in E. destruct ts1; discriminate. }
    rewrite sent_tokens_app in E. cbn [sent_tokens Nat.add] in E. apply app_inj_tail in E as [_ <-].
    destruct it as [ww|n|c]; cbn [tkind_of item_kind is_word] in Ww; [|discriminate|destruct (punct_from_char c); discriminate].
    pose proof (last_word_ok_snoc pre ww HLw) as Hn.
    apply (latin_word_hit _ ww); [| |exact Hn].
    - unfold word_text, sentp_text. cbn [tstart tend tspan sstart send item_text].
      rewrite sent_text_app. cbn [sent_text flat_map item_text]. rewrite app_nil_r, <- !app_assoc.
      apply word_text_mid.
    - cbn [tstart tend tspan sstart send item_text]. lia.
  Qed.

  Theorem sentp_document its : sentp_ok u its = true -> document_plain u (sentp_text its) = Ok (sentp_tokens its).
  Proof.
    intros H. pose proof H as H'. unfold sentp_ok in H'. apply andb_true_iff in H' as [Hs _].
    unfold document_plain. pose proof (plain_parse_sent_dot u laws dlaw its Hs) as E.
    destruct (plain_tiling u (sentp_text its)) as (ts & E' & T). rewrite E in E'. injection E' as <-.
    rewrite E. cbn [bind]. unfold sentp_tokens in *.
    apply passes_identity_dot; [exact T|exact (sent_tokens_simple u its 0 Hs)|exact (sent_tokens_no_adj u its 0 Hs)|reflexivity|].
    intros ts1 w Ets Ww. exact (sentp_last_ok its ts1 w H Ets Ww).
  Qed.

  Lemma word_spans_app a b : word_spans (a ++ b) = word_spans a ++ word_spans b.
  Proof. unfold word_spans. rewrite filter_app, map_app. reflexivity. Qed.

  Theorem sentp_doc_words its : sentp_ok u its = true -> doc_words u (sentp_text its) = Ok (sent_words 0 its).
  Proof.
    intros H. unfold doc_words. rewrite (sentp_document its H). cbn [bind]. unfold sentp_tokens.
    rewrite word_spans_app, sent_word_spans. cbn. rewrite app_nil_r. reflexivity.
  Qed.
End SentenceDot.

(* ================= C06 on a sentence with a final period: no premise about tokens ================= *)
Section SentenceDotLint.
  Variable u : uni.
  Variable lc uc : char -> list char.
  Variable is_lower is_upper : char -> bool.
  Variable fuzzy : dict -> text -> nat -> list text.
  Hypothesis laws : letter_laws u.
  Hypothesis dlaw : digit_law u.

  Lemma word_item_token_dot pre w post : sentp_ok u (pre ++ SWord w :: post) = true ->
    doc_words u (sentp_text (pre ++ SWord w :: post)) = Ok (sent_words 0 (pre ++ SWord w :: post)) /\
    In (word_at pre w) (sent_words 0 (pre ++ SWord w :: post)) /\
    get_content (word_at pre w) (sentp_text (pre ++ SWord w :: post)) = Ok w.
  Proof.
    intros H. split; [exact (sentp_doc_words u laws dlaw _ H)|]. split; [exact (sent_words_in pre w post 0)|].
    unfold sentp_text. rewrite sent_text_mid, <- !app_assoc. apply get_content_mid.
    unfold sentp_ok in H. apply andb_true_iff in H as [H _].
    pose proof (sent_ok_word u pre w post H) as B. destruct w; discriminate.
  Qed.

  Theorem sentp_unlisted_reported (H_uc : forall c, uc c <> []) (HF : fuzzy_listed fuzzy) D d pre w post :
    dict_nodup lc is_lower D -> sentp_ok u (pre ++ SWord w :: post) = true ->
    (forall e, In e D -> word_id lc is_lower (canon e) <> word_id lc is_lower w) ->
    exists ls sg, lint_text u lc uc is_lower is_upper fuzzy D d (sentp_text (pre ++ SWord w :: post)) = Ok ls /\
                  In (mkslint (word_at pre w) sg) ls.
  Proof.
    intros ND H Hun. destruct (word_item_token_dot pre w post H) as (Ew & Hin & G).
    exact (text_unlisted_reported u lc uc is_lower is_upper fuzzy H_uc HF D d _ _ _ w ND Ew Hin G Hun).
  Qed.

  Theorem sentp_listed_accepted (HL : lower_fix lc is_lower) D d e pre w post ls :
    dict_nodup lc is_lower D -> In e D -> dialect_ok (edialect e) d = true ->
    sentp_ok u (pre ++ SWord w :: post) = true -> listed_form lc uc is_lower e w ->
    lint_text u lc uc is_lower is_upper fuzzy D d (sentp_text (pre ++ SWord w :: post)) = Ok ls ->
    forall l, In l ls -> sl_span l <> word_at pre w.
  Proof.
    intros ND Hin Hd H Hw L. destruct (word_item_token_dot pre w post H) as (Ew & Hsp & G).
    exact (text_listed_accepted u lc uc is_lower is_upper fuzzy HL D d e _ _ _ w ls ND Hin Hd Ew Hsp G Hw L).
  Qed.

  Theorem sentp_lints_on_words (HF : fuzzy_listed fuzzy) D d its ls l :
    dict_nodup lc is_lower D -> sentp_ok u its = true ->
    lint_text u lc uc is_lower is_upper fuzzy D d (sentp_text its) = Ok ls -> In l ls ->
    exists pre w post, its = pre ++ SWord w :: post /\ sl_span l = word_at pre w.
  Proof.
    intros ND H L Hl.
    destruct (text_suggestions_in_dictionary u lc uc is_lower is_upper fuzzy HF D d _ ls l ND L Hl) as ((words & Ew & Hin) & _).
    rewrite (sentp_doc_words u laws dlaw its H) in Ew. injection Ew as <-.
    destruct (sent_words_from its 0 _ Hin) as (pre & w & post & E & Es). exists pre, w, post. split; [exact E|exact Es].
  Qed.
End SentenceDotLint.
